import MaltModel.Analysis.ActivityHyp
/-
Helper development for `Props/C08.lean`: the activity model is *compositional* on the fragment
without comprehensions and parameter annotations — visiting a node adds a syntactically determined
effect (`Eff`) to the scope on top of the stack and leaves everything below it alone.

`Adds st st' d` : `st'` is `st` with the sets of `d` added to the top scope (sets compared by membership).
`effE` / `effS` : the effect of visiting an expression / a statement (layer "B").
`visitE_adds`, `visitS_adds` : the stateful model (layer "A": scope stack, finalize, copy_from/merge_from)
                               realises exactly these effects.
-/
namespace Malt.Analysis
open Malt.Py

/-! ### basic facts about the primitive state operations -/

/-- The scope `self.scope`. -/
def St.top (st : St) : Scope := st.stack.headD default

@[simp] theorem QSet.union_self (a : QSet) : QSet.union a a = a := by
  unfold QSet.union
  have : a.filter (fun q => !a.contains q) = [] := by
    apply List.filter_eq_nil_iff.mpr
    intro q hq
    simp [hq]
  simp [this]

section modTop
variable (st : St) (f : Scope → Scope)
@[simp] theorem St.modTop_next : (st.modTop f).next = st.next := by unfold St.modTop; split <;> rfl
@[simp] theorem St.modTop_closed : (st.modTop f).closed = st.closed := by unfold St.modTop; split <;> rfl
@[simp] theorem St.modTop_annos : (st.modTop f).annos = st.annos := by unfold St.modTop; split <;> rfl
@[simp] theorem St.modTop_comps : (st.modTop f).comps = st.comps := by unfold St.modTop; split <;> rfl
@[simp] theorem St.modTop_fns : (st.modTop f).fns = st.fns := by unfold St.modTop; split <;> rfl
@[simp] theorem St.modTop_inAug : (st.modTop f).inAug = st.inAug := by unfold St.modTop; split <;> rfl
@[simp] theorem St.modTop_inAnno : (st.modTop f).inAnno = st.inAnno := by unfold St.modTop; split <;> rfl
@[simp] theorem St.modTop_annoOnly : (st.modTop f).annoOnly = st.annoOnly := by unfold St.modTop; split <;> rfl
@[simp] theorem St.modTop_err : (st.modTop f).err = st.err := by unfold St.modTop; split <;> rfl
@[simp] theorem St.modTop_tail : (st.modTop f).stack.tail = st.stack.tail := by
  unfold St.modTop; split <;> simp [*]
theorem St.modTop_top (h : st.stack ≠ []) : (st.modTop f).top = f st.top := by
  unfold St.modTop St.top; split <;> simp_all
@[simp] theorem St.modTop_ne_nil : (st.modTop f).stack ≠ [] ↔ st.stack ≠ [] := by
  unfold St.modTop; split <;> simp [*]
end modTop

/-! ### effects -/

/-- What a visit adds to the scope on top of the stack. -/
structure Eff where
  read : QSet := []
  modified : QSet := []
  deleted : QSet := []
  bound : QSet := []
  globals : QSet := []
  nonlocals : QSet := []
  annotations : QSet := []
  deriving Inhabited

def Eff.append (a b : Eff) : Eff :=
  { read := a.read ++ b.read, modified := a.modified ++ b.modified, deleted := a.deleted ++ b.deleted,
    bound := a.bound ++ b.bound, globals := a.globals ++ b.globals, nonlocals := a.nonlocals ++ b.nonlocals,
    annotations := a.annotations ++ b.annotations }

instance : Append Eff := ⟨Eff.append⟩

@[simp] theorem Eff.append_read (a b : Eff) : (a ++ b).read = a.read ++ b.read := rfl
@[simp] theorem Eff.append_modified (a b : Eff) : (a ++ b).modified = a.modified ++ b.modified := rfl
@[simp] theorem Eff.append_deleted (a b : Eff) : (a ++ b).deleted = a.deleted ++ b.deleted := rfl
@[simp] theorem Eff.append_bound (a b : Eff) : (a ++ b).bound = a.bound ++ b.bound := rfl
@[simp] theorem Eff.append_globals (a b : Eff) : (a ++ b).globals = a.globals ++ b.globals := rfl
@[simp] theorem Eff.append_nonlocals (a b : Eff) : (a ++ b).nonlocals = a.nonlocals ++ b.nonlocals := rfl
@[simp] theorem Eff.append_annotations (a b : Eff) : (a ++ b).annotations = a.annotations ++ b.annotations := rfl

/-- `s'` is `s` with the sets of `d` added (as sets); the identity of the scope is unchanged. -/
structure ScopeAdds (s s' : Scope) (d : Eff) : Prop where
  sid : s'.sid = s.sid
  parent : s'.parent = s.parent
  isolated : s'.isolated = s.isolated
  functionName : s'.functionName = s.functionName
  isolatedNames : s'.isolatedNames = s.isolatedNames
  read : ∀ q, q ∈ s'.read ↔ q ∈ s.read ∨ q ∈ d.read
  modified : ∀ q, q ∈ s'.modified ↔ q ∈ s.modified ∨ q ∈ d.modified
  deleted : ∀ q, q ∈ s'.deleted ↔ q ∈ s.deleted ∨ q ∈ d.deleted
  bound : ∀ q, q ∈ s'.bound ↔ q ∈ s.bound ∨ q ∈ d.bound
  globals : ∀ q, q ∈ s'.globals ↔ q ∈ s.globals ∨ q ∈ d.globals
  nonlocals : ∀ q, q ∈ s'.nonlocals ↔ q ∈ s.nonlocals ∨ q ∈ d.nonlocals
  annotations : ∀ q, q ∈ s'.annotations ↔ q ∈ s.annotations ∨ q ∈ d.annotations

theorem ScopeAdds.refl (s : Scope) : ScopeAdds s s {} :=
  ⟨rfl, rfl, rfl, rfl, rfl, by simp, by simp, by simp, by simp, by simp, by simp, by simp⟩

theorem ScopeAdds.trans {a b c : Scope} {d1 d2 : Eff} (h1 : ScopeAdds a b d1) (h2 : ScopeAdds b c d2) :
    ScopeAdds a c (d1 ++ d2) where
  sid := h2.sid.trans h1.sid
  parent := h2.parent.trans h1.parent
  isolated := h2.isolated.trans h1.isolated
  functionName := h2.functionName.trans h1.functionName
  isolatedNames := h2.isolatedNames.trans h1.isolatedNames
  read q := by simp [h2.read, h1.read, or_assoc]
  modified q := by simp [h2.modified, h1.modified, or_assoc]
  deleted q := by simp [h2.deleted, h1.deleted, or_assoc]
  bound q := by simp [h2.bound, h1.bound, or_assoc]
  globals q := by simp [h2.globals, h1.globals, or_assoc]
  nonlocals q := by simp [h2.nonlocals, h1.nonlocals, or_assoc]
  annotations q := by simp [h2.annotations, h1.annotations, or_assoc]

/-- Effects that are equal as sets can be exchanged. -/
structure Eff.Equiv (d e : Eff) : Prop where
  read : ∀ q, q ∈ d.read ↔ q ∈ e.read
  modified : ∀ q, q ∈ d.modified ↔ q ∈ e.modified
  deleted : ∀ q, q ∈ d.deleted ↔ q ∈ e.deleted
  bound : ∀ q, q ∈ d.bound ↔ q ∈ e.bound
  globals : ∀ q, q ∈ d.globals ↔ q ∈ e.globals
  nonlocals : ∀ q, q ∈ d.nonlocals ↔ q ∈ e.nonlocals
  annotations : ∀ q, q ∈ d.annotations ↔ q ∈ e.annotations

theorem ScopeAdds.congr {a b : Scope} {d e : Eff} (h : ScopeAdds a b d) (he : Eff.Equiv d e) : ScopeAdds a b e where
  sid := h.sid
  parent := h.parent
  isolated := h.isolated
  functionName := h.functionName
  isolatedNames := h.isolatedNames
  read q := by rw [h.read, he.read]
  modified q := by rw [h.modified, he.modified]
  deleted q := by rw [h.deleted, he.deleted]
  bound q := by rw [h.bound, he.bound]
  globals q := by rw [h.globals, he.globals]
  nonlocals q := by rw [h.nonlocals, he.nonlocals]
  annotations q := by rw [h.annotations, he.annotations]

/-- `st'` is `st` with the effect `d` added to the top scope; the rest of the analyzer state
    (the scopes below, the function/class stack, the flags) is unchanged, no comprehension is open. -/
structure Adds (st st' : St) (d : Eff) : Prop where
  ne : st'.stack ≠ []
  tail : st'.stack.tail = st.stack.tail
  top : ScopeAdds st.top st'.top d
  fns : st'.fns = st.fns
  inAug : st'.inAug = st.inAug
  inAnno : st'.inAnno = st.inAnno
  annoOnly : st'.annoOnly = false
  comps : st'.comps = []
  /-- annotations are only ever added -/
  ext : ∃ new, st'.annos = new ++ st.annos

/-- The states in which the compositionality lemmas hold: some scope is open, no comprehension is
    being processed, the parameter pass (`_track_annotations_only`) is not active. -/
structure Plain (st : St) : Prop where
  ne : st.stack ≠ []
  comps : st.comps = []
  annoOnly : st.annoOnly = false

theorem Adds.plain {st st' : St} {d : Eff} (h : Adds st st' d) : Plain st' := ⟨h.ne, h.comps, h.annoOnly⟩

theorem Adds.refl {st : St} (h : Plain st) : Adds st st {} :=
  ⟨h.ne, rfl, ScopeAdds.refl _, rfl, rfl, rfl, h.annoOnly, h.comps, ⟨[], rfl⟩⟩

theorem Adds.trans {a b c : St} {d1 d2 : Eff} (h1 : Adds a b d1) (h2 : Adds b c d2) : Adds a c (d1 ++ d2) :=
  ⟨h2.ne, h2.tail.trans h1.tail, h1.top.trans h2.top, h2.fns.trans h1.fns, h2.inAug.trans h1.inAug,
   h2.inAnno.trans h1.inAnno, h2.annoOnly, h2.comps,
   by obtain ⟨n1, e1⟩ := h1.ext; obtain ⟨n2, e2⟩ := h2.ext; exact ⟨n2 ++ n1, by rw [e2, e1, List.append_assoc]⟩⟩

theorem Adds.congr {a b : St} {d e : Eff} (h : Adds a b d) (he : Eff.Equiv d e) : Adds a b e :=
  ⟨h.ne, h.tail, h.top.congr he, h.fns, h.inAug, h.inAnno, h.annoOnly, h.comps, h.ext⟩

/-- A modification of the top scope that adds `d`. -/
theorem Adds.modTop {st : St} (h : Plain st) (f : Scope → Scope) (d : Eff) (hf : ScopeAdds st.top (f st.top) d) :
    Adds st (st.modTop f) d :=
  ⟨by simpa using h.ne, by simp, by rw [St.modTop_top _ _ h.ne]; exact hf, by simp, by simp, by simp,
   by simpa using h.annoOnly, by simpa using h.comps, ⟨[], by simp⟩⟩

theorem Adds.addRead {st : St} (h : Plain st) (q : QN) : Adds st (st.addRead q) { read := [q] } :=
  Adds.modTop h _ _ ⟨rfl, rfl, rfl, rfl, rfl, by intro x; simp [or_comm], by simp, by simp, by simp, by simp, by simp, by simp⟩

theorem Adds.addModified {st : St} (h : Plain st) (q : QN) : Adds st (st.addModified q) { modified := [q] } :=
  Adds.modTop h _ _ ⟨rfl, rfl, rfl, rfl, rfl, by simp, by intro x; simp [or_comm], by simp, by simp, by simp, by simp, by simp⟩

theorem Adds.addDeleted {st : St} (h : Plain st) (q : QN) : Adds st (st.addDeleted q) { deleted := [q] } :=
  Adds.modTop h _ _ ⟨rfl, rfl, rfl, rfl, rfl, by simp, by simp, by intro x; simp [or_comm], by simp, by simp, by simp, by simp⟩

theorem Adds.addBound {st : St} (h : Plain st) (q : QN) : Adds st (st.addBound q) { bound := [q] } :=
  Adds.modTop h _ _ ⟨rfl, rfl, rfl, rfl, rfl, by simp, by simp, by simp, by intro x; simp [or_comm], by simp, by simp, by simp⟩

theorem Adds.addGlobal {st : St} (h : Plain st) (q : QN) : Adds st (st.addGlobal q) { globals := [q] } :=
  Adds.modTop h _ _ ⟨rfl, rfl, rfl, rfl, rfl, by simp, by simp, by simp, by simp, by intro x; simp [or_comm], by simp, by simp⟩

theorem Adds.addNonlocal {st : St} (h : Plain st) (q : QN) : Adds st (st.addNonlocal q) { nonlocals := [q] } :=
  Adds.modTop h _ _ ⟨rfl, rfl, rfl, rfl, rfl, by simp, by simp, by simp, by simp, by simp, by intro x; simp [or_comm], by simp⟩

theorem Adds.addAnnotation {st : St} (h : Plain st) (q : QN) : Adds st (st.addAnnotation q) { annotations := [q] } :=
  Adds.modTop h _ _ ⟨rfl, rfl, rfl, rfl, rfl, by simp, by simp, by simp, by simp, by simp, by simp, by intro x; simp [or_comm]⟩

/-- `mark_param` does not touch the sets. -/
theorem Adds.addParam {st : St} (h : Plain st) (q : QN) (o : Nat) : Adds st (st.addParam q o) {} :=
  Adds.modTop h _ _ ⟨rfl, rfl, rfl, rfl, rfl, by simp, by simp, by simp, by simp, by simp, by simp, by simp⟩

end Malt.Analysis

namespace Malt.Analysis
open Malt.Py

/-! ### scoped blocks: `_enter_scope` … `_exit_scope` -/

@[simp] theorem St.enter_stack (st : St) (iso : Bool) (fn : Option String) :
    (st.enter iso fn).stack.tail = st.stack := by simp [St.enter]
@[simp] theorem St.enter_fns (st : St) (iso : Bool) (fn : Option String) : (st.enter iso fn).fns = st.fns := rfl
@[simp] theorem St.enter_inAug (st : St) (iso : Bool) (fn : Option String) : (st.enter iso fn).inAug = st.inAug := rfl
@[simp] theorem St.enter_inAnno (st : St) (iso : Bool) (fn : Option String) : (st.enter iso fn).inAnno = st.inAnno := rfl
@[simp] theorem St.enter_annos (st : St) (iso : Bool) (fn : Option String) : (st.enter iso fn).annos = st.annos := rfl

theorem St.enter_plain {st : St} (h : Plain st) (iso : Bool) (fn : Option String) : Plain (st.enter iso fn) :=
  ⟨by simp [St.enter], h.comps, h.annoOnly⟩

/-- The scope made by `_enter_scope` is empty. -/
structure Fresh (s : Scope) (iso : Bool) : Prop where
  isolated : s.isolated = iso
  isolatedNames : s.isolatedNames = []
  read : s.read = []
  modified : s.modified = []
  deleted : s.deleted = []
  bound : s.bound = []
  globals : s.globals = []
  nonlocals : s.nonlocals = []
  annotations : s.annotations = []

theorem St.enter_top_fresh (st : St) (iso : Bool) (fn : Option String) : Fresh (st.enter iso fn).top iso := by
  simp only [St.enter, St.top, List.headD_cons]
  exact ⟨rfl, rfl, rfl, rfl, rfl, rfl, rfl, rfl, rfl⟩

/-- What is known about the scope `c` that `_exit_scope` pops, when it was opened on `st` and the visits
    in between added `d`. -/
structure Popped (c : Scope) (iso : Bool) (d : Eff) : Prop where
  isolated : c.isolated = iso
  isolatedNames : c.isolatedNames = []
  read : ∀ q, q ∈ c.read ↔ q ∈ d.read
  modified : ∀ q, q ∈ c.modified ↔ q ∈ d.modified
  deleted : ∀ q, q ∈ c.deleted ↔ q ∈ d.deleted
  bound : ∀ q, q ∈ c.bound ↔ q ∈ d.bound
  globals : ∀ q, q ∈ c.globals ↔ q ∈ d.globals
  nonlocals : ∀ q, q ∈ c.nonlocals ↔ q ∈ d.nonlocals
  annotations : ∀ q, q ∈ c.annotations ↔ q ∈ d.annotations

theorem popped_of_adds {s c : Scope} {iso : Bool} {d : Eff} (hf : Fresh s iso) (h : ScopeAdds s c d) : Popped c iso d where
  isolated := h.isolated.trans hf.isolated
  isolatedNames := h.isolatedNames.trans hf.isolatedNames
  read q := by simp [h.read, hf.read]
  modified q := by simp [h.modified, hf.modified]
  deleted q := by simp [h.deleted, hf.deleted]
  bound q := by simp [h.bound, hf.bound]
  globals q := by simp [h.globals, hf.globals]
  nonlocals q := by simp [h.nonlocals, hf.nonlocals]
  annotations q := by simp [h.annotations, hf.annotations]

/-- The effect of a finished scope on its parent (`Scope.finalize`). -/
def Eff.exported (iso : Bool) (d : Eff) : Eff :=
  if iso then { read := d.read.diff ((d.bound.diff d.nonlocals).diff d.globals), annotations := d.annotations.diff d.bound }
  else { d with deleted := [] }   -- `finalize` does not export `deleted`

theorem finalizeInto_adds {c p : Scope} {iso : Bool} {d : Eff} (hc : Popped c iso d) :
    ScopeAdds p (c.finalizeInto p) (d.exported iso) := by
  cases iso with
  | true =>
    have hi : c.isolated = true := hc.isolated
    refine ⟨?_, ?_, ?_, ?_, ?_, ?_, ?_, ?_, ?_, ?_, ?_, ?_⟩ <;>
      simp [Scope.finalizeInto, Scope.passedOn, hi, Eff.exported, hc.read, hc.bound, hc.annotations, hc.nonlocals, hc.globals]
  | false =>
    have hi : c.isolated = false := hc.isolated
    refine ⟨?_, ?_, ?_, ?_, ?_, ?_, ?_, ?_, ?_, ?_, ?_, ?_⟩ <;>
      simp [Scope.finalizeInto, hi, Eff.exported, hc.isolatedNames, QSet.diff, hc.read, hc.modified, hc.bound,
            hc.globals, hc.nonlocals, hc.annotations]

/-- The state reached by `enter`, some visits adding `d`, `exitWith recs`. -/
structure Scoped (st st2 : St) (iso : Bool) (d : Eff) (recs : List (Nat × AnnoKey)) (st3 : St) : Prop where
  adds : Adds st st3 (d.exported iso)
  /-- the popped scope -/
  popped : ∃ c, Popped c iso d ∧ st3.annos = (recs.map fun (n, k) => (n, k, c)).reverse ++ st2.annos ∧ st2.top = c

theorem scoped_block {st st2 : St} (h : Plain st) (iso : Bool) (fn : Option String) {d : Eff}
    (h2 : Adds (st.enter iso fn) st2 d) (recs : List (Nat × AnnoKey)) :
    Scoped st st2 iso d recs (st2.exitWith recs) := by
  have htail : st2.stack.tail = st.stack := by rw [h2.tail]; simp
  obtain ⟨c, rest, hst2⟩ : ∃ c rest, st2.stack = c :: rest := by
    cases hs : st2.stack with
    | nil => exact absurd hs h2.ne
    | cons c rest => exact ⟨c, rest, rfl⟩
  have hrest : rest = st.stack := by rw [hst2] at htail; simpa using htail
  obtain ⟨p, r, hst⟩ : ∃ p r, st.stack = p :: r := by
    cases hs : st.stack with
    | nil => exact absurd hs h.ne
    | cons p r => exact ⟨p, r, rfl⟩
  have hstack : st2.stack = c :: p :: r := by rw [hst2, hrest, hst]
  have hc : st2.top = c := by simp [St.top, hst2]
  have hp : st.top = p := by simp [St.top, hst]
  have hpop : Popped c iso d := by
    have := popped_of_adds (St.enter_top_fresh st iso fn) h2.top
    rwa [hc] at this
  have hex : st2.exitWith recs =
      { st2 with stack := c.finalizeInto p :: r, closed := c :: st2.closed,
                 annos := (recs.map fun (n, k) => (n, k, c)).reverse ++ st2.annos } := by
    simp [St.exitWith, hstack]
  refine ⟨⟨?_, ?_, ?_, ?_, ?_, ?_, ?_, ?_, ?_⟩, c, hpop, ?_, hc⟩
  · rw [hex]; simp
  · rw [hex, hst]; simp
  · rw [hex, hp]
    simpa [St.top] using finalizeInto_adds (p := p) hpop
  · rw [hex]; simpa using h2.fns
  · rw [hex]; simpa using h2.inAug
  · rw [hex]; simpa using h2.inAnno
  · rw [hex]; simpa using h2.annoOnly
  · rw [hex]; simpa using h2.comps
  · obtain ⟨n2, e2⟩ := h2.ext
    exact ⟨(recs.map fun (n, k) => (n, k, c)).reverse ++ n2, by rw [hex]; simp [e2]⟩
  · rw [hex]

end Malt.Analysis

namespace Malt.Analysis
open Malt.Py

/-! ### the fragment and the effect of expressions -/

/-- `_in_constructor` as a function of the function/class stack. -/
def inCtor : List FnCtx → Bool
  | .fn _ name :: .cls _ :: _ => name == "__init__"
  | _ => false

theorem St.inConstructor_eq (st : St) : st.inConstructor = inCtor st.fns := by
  unfold St.inConstructor inCtor; rfl

/-- `_track_symbol` in a plain state. -/
def trackEff (q? : Option QN) (ctx : Ctx) (cwap aug anno : Bool) : Eff :=
  match q? with
  | none => {}
  | some qn =>
    match ctx with
    | .store =>
        { modified := qn :: (match qn.parent? with | some p => if cwap then [p] else [] | none => []),
          bound := [qn], read := if aug then [qn] else [] }
    | .load => { read := [qn], annotations := if anno then [qn] else [] }
    | .del => { read := [qn], bound := [qn], deleted := [qn] }

/-- The parameters of a function as the `bound` effect of `visit_arg`. -/
def argNames (as : List Expr) : QSet :=
  as.filterMap fun a => match a with
    | .arg _ n _ => some (.sym n)
    | _ => none

mutual
/-- What visiting `e` adds to the current scope (`fns`, `aug`, `anno`: the function/class stack and the
    flags `_in_aug_assign`, `_in_annotation` at that moment). -/
def effE (fns : List FnCtx) (aug anno : Bool) (e : Expr) : Eff :=
  match e with
  | .name _ s c => trackEff (some (.sym s)) c false aug anno
  | .const .. | .noneMarker => {}
  | .attr i v a c =>
      effE fns aug anno v ++ trackEff (qnOf (.attr i v a c)) c (inCtor fns && setsSelfAttribute (qnOf (.attr i v a c))) aug anno
  | .subscript i v s c =>
      effE fns aug anno v ++ effE fns aug anno s ++ trackEff (qnOf (.subscript i v s c)) c false aug anno
  | .call _ f as ks =>
      (effEs fns aug anno as ++ effEs fns aug anno ks).exported false ++ effE fns aug anno f
  | .keyword _ _ _ v => effE fns aug anno v
  | .boolop _ _ vs => effEs fns aug anno vs
  | .unary _ _ x => effE fns aug anno x
  | .binop _ _ l r => effE fns aug anno l ++ effE fns aug anno r
  | .compare _ l _ cs => effE fns aug anno l ++ effEs fns aug anno cs
  | .ifexp _ t b o => effE fns aug anno t ++ effE fns aug anno b ++ effE fns aug anno o
  | .lambda i args body =>
      match args with
      | .arguments _ po ar va ko kd kw df =>
          let fns' := FnCtx.lam i :: fns
          let params : QSet := argNames po ++ argNames ar ++ argNames va ++ argNames ko ++ argNames kw
          let defScope : Eff := effEs fns' aug anno kd ++ effEs fns' aug anno df ++ { bound := params }
          let inner : Eff := ({ bound := params } : Eff).exported false ++ (effE fns' aug anno body).exported false
          defScope.exported false ++ inner.exported true ++ { read := inner.read.diff inner.bound }
      | _ => {}
  | .seq _ _ es _ => effEs fns aug anno es
  | .starred _ v _ => effE fns aug anno v
  | .namedexpr _ t v => effE fns aug anno t ++ effE fns aug anno v
  | .comp .. | .comprehension .. | .arguments .. => {}
  | .arg _ n _ => { bound := [.sym n] }
  | .withitem _ c v => (effE fns aug anno c ++ effEs fns aug anno v).exported false
  | .other _ _ _ kids => effEs fns aug anno kids
def effEs (fns : List FnCtx) (aug anno : Bool) (es : List Expr) : Eff :=
  match es with
  | [] => {}
  | e :: rest => effE fns aug anno e ++ effEs fns aug anno rest
end

@[simp] theorem St.addRead_inAug (st : St) (q : QN) : (st.addRead q).inAug = st.inAug := by simp [St.addRead]
@[simp] theorem St.addModified_inAug (st : St) (q : QN) : (st.addModified q).inAug = st.inAug := by simp [St.addModified]
@[simp] theorem St.addBound_inAug (st : St) (q : QN) : (st.addBound q).inAug = st.inAug := by simp [St.addBound]
@[simp] theorem St.addRead_inAnno (st : St) (q : QN) : (st.addRead q).inAnno = st.inAnno := by simp [St.addRead]

/-- Prove that two effects are equal as sets. -/
macro "eff_equiv" : tactic =>
  `(tactic| (refine ⟨?_, ?_, ?_, ?_, ?_, ?_, ?_⟩ <;> intro q <;>
      first | exact Iff.rfl | (simp; done) | (simp; grind) | grind))

theorem track_adds {st : St} (h : Plain st) (q? : Option QN) (ctx : Ctx) (cwap : Bool) :
    Adds st (track q? ctx cwap st) (trackEff q? ctx cwap st.inAug st.inAnno) := by
  unfold track trackEff
  have hA : (st.annoOnly && !st.inAnno) = false := by simp [h.annoOnly]
  simp only [hA, Bool.false_eq_true, ↓reduceIte]
  cases q? with
  | none => exact Adds.refl h
  | some qn =>
    have hH : hiddenByComps st.comps qn = false := by simp [hiddenByComps, h.comps]
    simp only [hH, Bool.false_eq_true, ↓reduceIte]
    cases ctx with
    | store =>
      simp only [h.comps]
      have h1 := Adds.addModified h qn
      have h2 := Adds.addBound h1.plain qn
      have h12 := h1.trans h2
      cases hp : qn.parent? with
      | none =>
        simp only [St.addBound_inAug, St.addModified_inAug]
        cases hg : st.inAug with
        | false => simp only [Bool.false_eq_true, ↓reduceIte]; exact h12.congr (by eff_equiv)
        | true => simp only [↓reduceIte]; exact (h12.trans (Adds.addRead h12.plain qn)).congr (by eff_equiv)
      | some p =>
        cases hc : cwap with
        | false =>
          simp only [Bool.false_eq_true, ↓reduceIte, St.addBound_inAug, St.addModified_inAug]
          cases hg : st.inAug with
          | false => simp only [Bool.false_eq_true, ↓reduceIte]; exact h12.congr (by eff_equiv)
          | true => simp only [↓reduceIte]; exact (h12.trans (Adds.addRead h12.plain qn)).congr (by eff_equiv)
        | true =>
          simp only [↓reduceIte, St.addBound_inAug, St.addModified_inAug]
          have h3 := h12.trans (Adds.addModified h12.plain p)
          cases hg : st.inAug with
          | false => simp only [Bool.false_eq_true, ↓reduceIte]; exact h3.congr (by eff_equiv)
          | true => simp only [↓reduceIte]; exact (h3.trans (Adds.addRead h3.plain qn)).congr (by eff_equiv)
    | load =>
      have h1 := Adds.addRead h qn
      simp only [St.addRead_inAnno]
      cases hg : st.inAnno with
      | false => simp only [Bool.false_eq_true, ↓reduceIte]; exact h1.congr (by eff_equiv)
      | true => simp only [↓reduceIte]; exact (h1.trans (Adds.addAnnotation h1.plain qn)).congr (by eff_equiv)
    | del =>
      have h1 := Adds.addRead h qn
      have h2 := h1.trans (Adds.addBound h1.plain qn)
      exact (h2.trans (Adds.addDeleted h2.plain qn)).congr (by eff_equiv)

end Malt.Analysis

namespace Malt.Analysis
open Malt.Py

/-! ### the parameter pass -/

theorem St.modTop_setAnnoOnly (st : St) (f : Scope → Scope) (b : Bool) :
    St.modTop (st.setAnnoOnly b) f = (st.modTop f).setAnnoOnly b := by
  cases st with
  | mk stack next closed annos comps fns inAug inAnno annoOnly err =>
    cases stack <;> rfl

theorem St.setAnnoOnly_self {st : St} (h : st.annoOnly = false) : st.setAnnoOnly false = st := by
  cases st; simp_all [St.setAnnoOnly]

@[simp] theorem St.setAnnoOnly_setAnnoOnly (st : St) (a b : Bool) : (st.setAnnoOnly a).setAnnoOnly b = st.setAnnoOnly b := rfl

theorem visitArg_annoOnly (a : Expr) (ha : isPlainArg a = true) (st : St) (b : Bool) :
    visitE a (st.setAnnoOnly b) = (visitE a st).setAnnoOnly b := by
  match a, ha with
  | .arg _ n [], _ =>
    simp only [visitE, visitEs, St.addBound, St.addParam, St.modTop_setAnnoOnly]
    rfl

theorem visitArgs_annoOnly (as : List Expr) (ha : as.all isPlainArg = true) (st : St) (b : Bool) :
    visitEs as (st.setAnnoOnly b) = (visitEs as st).setAnnoOnly b := by
  induction as generalizing st with
  | nil => simp [visitEs]
  | cons a rest ih =>
    simp only [List.all_cons, Bool.and_eq_true] at ha
    simp only [visitEs]
    rw [visitArg_annoOnly a ha.1, ih ha.2]

theorem visitArgs_adds (as : List Expr) (ha : as.all isPlainArg = true) {st : St} (h : Plain st) :
    Adds st (visitEs as st) { bound := argNames as } := by
  induction as generalizing st with
  | nil => simpa [visitEs, argNames] using Adds.refl h
  | cons a rest ih =>
    simp only [List.all_cons, Bool.and_eq_true] at ha
    match a, ha.1 with
    | .arg _ n [], _ =>
      simp only [visitEs, visitE]
      have h1 := Adds.addBound h (.sym n)
      have h2 := h1.trans (Adds.addParam h1.plain (.sym n) st.ownerId)
      have h3 := h2.trans (ih ha.2 h2.plain)
      exact h3.congr (by simp only [argNames, List.filterMap_cons]; eff_equiv)

/-- `_visit_arg_declarations`. -/
def visitParams (po ar va ko kw : List Expr) (st : St) : St :=
  visitEs kw (visitEs ko (visitEs va (visitEs ar (visitEs po st))))

def paramNames (po ar va ko kw : List Expr) : QSet :=
  argNames po ++ argNames ar ++ argNames va ++ argNames ko ++ argNames kw

structure PlainParams (po ar va ko kw : List Expr) : Prop where
  po : po.all isPlainArg = true
  ar : ar.all isPlainArg = true
  va : va.all isPlainArg = true
  ko : ko.all isPlainArg = true
  kw : kw.all isPlainArg = true

theorem visitParams_adds {po ar va ko kw : List Expr} (hp : PlainParams po ar va ko kw) {st : St} (h : Plain st) :
    Adds st (visitParams po ar va ko kw st) { bound := paramNames po ar va ko kw } := by
  have P1 := visitArgs_adds po hp.po h
  have P2 := P1.trans (visitArgs_adds ar hp.ar P1.plain)
  have P3 := P2.trans (visitArgs_adds va hp.va P2.plain)
  have P4 := P3.trans (visitArgs_adds ko hp.ko P3.plain)
  have P5 := P4.trans (visitArgs_adds kw hp.kw P4.plain)
  exact P5.congr (by simp only [paramNames]; eff_equiv)

/-- The parameter pass under `_track_annotations_only` does the same as the plain one. -/
theorem visitParams_annoOnly {po ar va ko kw : List Expr} (hp : PlainParams po ar va ko kw) {st : St} (h : Plain st) :
    (visitParams po ar va ko kw (st.setAnnoOnly true)).setAnnoOnly false = visitParams po ar va ko kw st := by
  unfold visitParams
  rw [visitArgs_annoOnly po hp.po, visitArgs_annoOnly ar hp.ar, visitArgs_annoOnly va hp.va,
      visitArgs_annoOnly ko hp.ko, visitArgs_annoOnly kw hp.kw, St.setAnnoOnly_setAnnoOnly]
  exact St.setAnnoOnly_self (visitParams_adds hp h).annoOnly

end Malt.Analysis

namespace Malt.Analysis
open Malt.Py

/-! ### the stateful visitors realise `effE` -/

/-- The context parameters of `effE` read off a state. -/
structure InCtx (st : St) (fns : List FnCtx) (aug anno : Bool) : Prop where
  fns : st.fns = fns
  inAug : st.inAug = aug
  inAnno : st.inAnno = anno

theorem Adds.inCtx {a b : St} {d : Eff} {fns aug anno} (h : Adds a b d) (c : InCtx a fns aug anno) : InCtx b fns aug anno :=
  ⟨h.fns.trans c.fns, h.inAug.trans c.inAug, h.inAnno.trans c.inAnno⟩

theorem InCtx.enter {st : St} {fns aug anno} (c : InCtx st fns aug anno) (iso : Bool) (fn : Option String) :
    InCtx (st.enter iso fn) fns aug anno := ⟨c.fns, c.inAug, c.inAnno⟩

/-- Adding an annotation does not disturb `Adds`. -/
theorem Adds.consAnno {a b : St} {d : Eff} (h : Adds a b d) (x : Anno) : Adds a { b with annos := x :: b.annos } d :=
  ⟨h.ne, h.tail, h.top, h.fns, h.inAug, h.inAnno, h.annoOnly, h.comps,
   by obtain ⟨n, e⟩ := h.ext; exact ⟨x :: n, by simp [e]⟩⟩

theorem St.head?_eq_top {st : St} (h : st.stack ≠ []) : st.stack.head? = some st.top := by
  unfold St.top
  cases hs : st.stack with
  | nil => exact absurd hs h
  | cons a r => rfl

theorem Plain.pushFn {st : St} (h : Plain st) (f : FnCtx) : Plain (st.pushFn f) := ⟨h.ne, h.comps, h.annoOnly⟩

theorem InCtx.pushFn {st : St} {fns aug anno} (c : InCtx st fns aug anno) (f : FnCtx) : InCtx (st.pushFn f) (f :: fns) aug anno :=
  ⟨by simp [St.pushFn, c.fns], c.inAug, c.inAnno⟩

/-- Visits bracketed by a push and a pop of the function/class stack. -/
theorem Adds.popFn {st b : St} {f : FnCtx} {d : Eff} (h : Adds (st.pushFn f) b d) : Adds st b.popFn d :=
  ⟨h.ne, h.tail, h.top, by simp [St.popFn, h.fns, St.pushFn], h.inAug, h.inAnno, h.annoOnly, h.comps, h.ext⟩

/-- Recording the open scope on a node does not disturb `Adds`. -/
theorem Adds.recordTop {a b : St} {d : Eff} (h : Adds a b d) (n : Nat) (k : AnnoKey) : Adds a (b.recordTop n k) d := by
  unfold St.recordTop
  split
  · exact h.consAnno _
  · exact h

theorem Adds.scopedAdds {st st2 : St} (h : Plain st) (iso : Bool) (fn : Option String) {d : Eff}
    (h2 : Adds (st.enter iso fn) st2 d) (recs : List (Nat × AnnoKey)) :
    Adds st (st2.exitWith recs) (d.exported iso) := (scoped_block h iso fn h2 recs).adds

mutual
theorem visitE_adds : (e : Expr) → (st : St) → Plain st → FragE e = true → (fns : List FnCtx) → (aug anno : Bool) →
    InCtx st fns aug anno → Adds st (visitE e st) (effE fns aug anno e)
  | .name _ s c, st, h, _, fns, aug, anno, hc => by
      simp only [visitE, effE]
      have := track_adds h (some (.sym s)) c false
      rwa [hc.inAug, hc.inAnno] at this
  | .const .., st, h, _, _, _, _, _ => by simpa [visitE, effE] using Adds.refl h
  | .noneMarker, st, h, _, _, _, _, _ => by simpa [visitE, effE] using Adds.refl h
  | .attr i v a c, st, h, hf, fns, aug, anno, hc => by
      simp only [FragE] at hf
      simp only [visitE, effE]
      have A1 := visitE_adds v st h hf fns aug anno hc
      have A2 := track_adds A1.plain (qnOf (.attr i v a c)) c
        ((visitE v st).inConstructor && setsSelfAttribute (qnOf (.attr i v a c)))
      rw [(A1.inCtx hc).inAug, (A1.inCtx hc).inAnno] at A2
      rw [St.inConstructor_eq, (A1.inCtx hc).fns] at A2
      rw [St.inConstructor_eq, (A1.inCtx hc).fns]
      exact A1.trans A2
  | .subscript i v s c, st, h, hf, fns, aug, anno, hc => by
      simp only [FragE, Bool.and_eq_true] at hf
      simp only [visitE, effE]
      have A1 := visitE_adds v st h hf.1 fns aug anno hc
      have A2 := visitE_adds s _ A1.plain hf.2 fns aug anno (A1.inCtx hc)
      have A12 := A1.trans A2
      have A3 := track_adds A12.plain (qnOf (.subscript i v s c)) c false
      rw [(A12.inCtx hc).inAug, (A12.inCtx hc).inAnno] at A3
      exact A12.trans A3
  | .call i f as ks, st, h, hf, fns, aug, anno, hc => by
      simp only [FragE, Bool.and_eq_true] at hf
      simp only [visitE, effE]
      have hp1 := St.enter_plain h false none
      have A1 := visitEs_adds as _ hp1 hf.1.2 fns aug anno (hc.enter false none)
      have A2 := visitEs_adds ks _ A1.plain hf.2 fns aug anno (A1.inCtx (hc.enter false none))
      have S := Adds.scopedAdds h false none (A1.trans A2) [(i, .argsScope)]
      have A3 := visitE_adds f _ S.plain hf.1.1 fns aug anno (S.inCtx hc)
      exact S.trans A3
  | .keyword _ _ _ v, st, h, hf, fns, aug, anno, hc => by
      simp only [FragE] at hf
      simp only [visitE, effE]
      exact visitE_adds v st h hf fns aug anno hc
  | .boolop _ _ vs, st, h, hf, fns, aug, anno, hc => by
      simp only [FragE] at hf
      simp only [visitE, effE]
      exact visitEs_adds vs st h hf fns aug anno hc
  | .unary _ _ x, st, h, hf, fns, aug, anno, hc => by
      simp only [FragE] at hf
      simp only [visitE, effE]
      exact visitE_adds x st h hf fns aug anno hc
  | .binop _ _ l r, st, h, hf, fns, aug, anno, hc => by
      simp only [FragE, Bool.and_eq_true] at hf
      simp only [visitE, effE]
      have A1 := visitE_adds l st h hf.1 fns aug anno hc
      exact A1.trans (visitE_adds r _ A1.plain hf.2 fns aug anno (A1.inCtx hc))
  | .compare _ l _ cs, st, h, hf, fns, aug, anno, hc => by
      simp only [FragE, Bool.and_eq_true] at hf
      simp only [visitE, effE]
      have A1 := visitE_adds l st h hf.1 fns aug anno hc
      exact A1.trans (visitEs_adds cs _ A1.plain hf.2 fns aug anno (A1.inCtx hc))
  | .ifexp _ t b o, st, h, hf, fns, aug, anno, hc => by
      simp only [FragE, Bool.and_eq_true] at hf
      simp only [visitE, effE]
      have A1 := visitE_adds t st h hf.1.1 fns aug anno hc
      have A2 := A1.trans (visitE_adds b _ A1.plain hf.1.2 fns aug anno (A1.inCtx hc))
      exact A2.trans (visitE_adds o _ A2.plain hf.2 fns aug anno (A2.inCtx hc))
  | .seq _ _ es _, st, h, hf, fns, aug, anno, hc => by
      simp only [FragE] at hf
      simp only [visitE, effE]
      exact visitEs_adds es st h hf fns aug anno hc
  | .starred _ v _, st, h, hf, fns, aug, anno, hc => by
      simp only [FragE] at hf
      simp only [visitE, effE]
      exact visitE_adds v st h hf fns aug anno hc
  | .namedexpr _ t v, st, h, hf, fns, aug, anno, hc => by
      simp only [FragE, Bool.and_eq_true] at hf
      simp only [visitE, effE]
      have A1 := visitE_adds t st h hf.1 fns aug anno hc
      exact A1.trans (visitE_adds v _ A1.plain hf.2 fns aug anno (A1.inCtx hc))
  | .comp .., _, _, hf, _, _, _, _ => by simp [FragE] at hf
  | .comprehension .., _, _, hf, _, _, _, _ => by simp [FragE] at hf
  | .arguments .., _, _, hf, _, _, _, _ => by simp [FragE] at hf
  | .arg .., _, _, hf, _, _, _, _ => by simp [FragE] at hf
  | .withitem i c v, st, h, hf, fns, aug, anno, hc => by
      simp only [FragE, Bool.and_eq_true] at hf
      simp only [visitE, effE]
      have hp1 := St.enter_plain h false none
      have A1 := visitE_adds c _ hp1 hf.1 fns aug anno (hc.enter false none)
      have A2 := visitEs_adds v _ A1.plain hf.2 fns aug anno (A1.inCtx (hc.enter false none))
      exact Adds.scopedAdds h false none (A1.trans A2) [(i, .scope)]
  | .other _ _ _ kids, st, h, hf, fns, aug, anno, hc => by
      simp only [FragE] at hf
      simp only [visitE, effE]
      exact visitEs_adds kids st h hf fns aug anno hc
  | .lambda i args body, st, h, hf, fns, aug, anno, hc => by
      cases args with
      | arguments ai po ar va ko kd kw df =>
        simp only [FragE, Bool.and_eq_true] at hf
        obtain ⟨⟨⟨⟨⟨⟨⟨hpo, har⟩, hva⟩, hko⟩, hkw⟩, hkd⟩, hdf⟩, hbody⟩ := hf
        have hpp : PlainParams po ar va ko kw := ⟨hpo, har, hva, hko, hkw⟩
        simp only [visitE, effE]
        rw [show ∀ s : St, (visitEs kw (visitEs ko (visitEs va (visitEs ar (visitEs po (s.setAnnoOnly true)))))).setAnnoOnly false
              = (visitParams po ar va ko kw (s.setAnnoOnly true)).setAnnoOnly false from fun _ => rfl,
            show ∀ s : St, visitEs kw (visitEs ko (visitEs va (visitEs ar (visitEs po s)))) = visitParams po ar va ko kw s
              from fun _ => rfl]
        -- push the lambda on the function/class stack
        have h0 := h.pushFn (.lam i)
        have c0 := hc.pushFn (.lam i)
        apply Adds.popFn (f := .lam i)
        generalize st.pushFn (.lam i) = s0 at h0 c0 ⊢
        -- the Lambda node's own scope: default values, then the parameter pass
        have hp1 := St.enter_plain h0 false none
        have c1 := c0.enter false none
        have A1 := visitEs_adds kd _ hp1 hkd _ aug anno c1
        have A2 := A1.trans (visitEs_adds df _ A1.plain hdf _ aug anno (A1.inCtx c1))
        have A3 := A2.trans (visitParams_adds hpp A2.plain)
        rw [visitParams_annoOnly hpp A2.plain]
        have S1 := Adds.scopedAdds h0 false none A3 [(i, .scope)]
        have c2 := S1.inCtx c0
        generalize (visitParams po ar va ko kw (visitEs df (visitEs kd (s0.enter false)))).exitWith [(i, .scope)] = s2 at S1 c2 ⊢
        -- the function scope (isolated), its argument scope and its body scope
        have hI := St.enter_plain S1.plain true none
        have cI := c2.enter true none
        have B1 := visitParams_adds hpp (St.enter_plain hI false none)
        have SB1 := Adds.scopedAdds hI false none B1 [(ai, .scope)]
        have cB := SB1.inCtx cI
        generalize (visitParams po ar va ko kw ((s2.enter true).enter false)).exitWith [(ai, .scope)] = s3 at SB1 cB ⊢
        have B2 := visitE_adds body _ (St.enter_plain SB1.plain false none) hbody _ aug anno (cB.enter false none)
        generalize visitE body (s3.enter false) = s4 at B2 ⊢
        have B2' : Adds (s3.enter false) (if s4.hasAnno body.id .scope then s4 else s4.recordTop body.id .scope)
            (effE (.lam i :: fns) aug anno body) := by
          split
          · exact B2
          · exact B2.recordTop _ _
        generalize (if s4.hasAnno body.id .scope then s4 else s4.recordTop body.id .scope) = s5 at B2' ⊢
        have SB2 := Adds.scopedAdds SB1.plain false none B2' [(i, .bodyScope)]
        have B12 := SB1.trans SB2
        generalize s5.exitWith [(i, .bodyScope)] = s6 at SB2 B12 ⊢
        have SC := scoped_block S1.plain true none B12 [(i, .argsAndBodyScope)]
        obtain ⟨c, hc1, -, hc3⟩ := SC.popped
        have SCa := SC.adds
        rw [St.head?_eq_top B12.ne, hc3]
        generalize s6.exitWith [(i, .argsAndBodyScope)] = s7 at SCa ⊢
        have F : Adds s7 (s7.modTop fun s => { s with read := s.read.union (c.read.diff c.bound) })
            { read := QSet.diff ((({ bound := paramNames po ar va ko kw } : Eff).exported false) ++
                          ((effE (.lam i :: fns) aug anno body).exported false)).read
                        ((({ bound := paramNames po ar va ko kw } : Eff).exported false) ++
                          ((effE (.lam i :: fns) aug anno body).exported false)).bound } :=
          Adds.modTop SCa.plain _ _
            ⟨rfl, rfl, rfl, rfl, rfl, by intro q; simp [hc1.read, hc1.bound], by simp, by simp, by simp, by simp, by simp, by simp⟩
        exact (S1.trans SCa).trans F
      | _ => simp [FragE] at hf
theorem visitEs_adds : (es : List Expr) → (st : St) → Plain st → FragEs es = true → (fns : List FnCtx) → (aug anno : Bool) →
    InCtx st fns aug anno → Adds st (visitEs es st) (effEs fns aug anno es)
  | [], st, h, _, _, _, _, _ => by simpa [visitEs, effEs] using Adds.refl h
  | e :: rest, st, h, hf, fns, aug, anno, hc => by
      simp only [FragEs, Bool.and_eq_true] at hf
      simp only [visitEs, effEs]
      have A1 := visitE_adds e st h hf.1 fns aug anno hc
      exact A1.trans (visitEs_adds rest _ A1.plain hf.2 fns aug anno (A1.inCtx hc))
end

end Malt.Analysis

namespace Malt.Analysis
open Malt.Py

/-! ### `_process_parallel_blocks`: checkpoint, restore, merge -/

theorem Scope.copyFrom_self (s : Scope) : s.copyFrom s = s := by cases s; rfl

theorem copyFromStack_self (l : List Scope) : copyFromStack l l = l := by
  induction l with
  | nil => rfl
  | cons s r ih => simp [copyFromStack, Scope.copyFrom_self, ih]

theorem Scope.mergeFrom_self (s : Scope) : s.mergeFrom s = s := by
  cases s with
  | mk sid parent isolated functionName isolatedNames read modified deleted bound globals nonlocals annotations params =>
    simp only [Scope.mergeFrom, QSet.union_self]
    have : params.filter (fun p => !(params.map (·.1)).contains p.1) = [] := by
      apply List.filter_eq_nil_iff.mpr
      intro p hp
      have : p.1 ∈ params.map (·.1) := List.mem_map.mpr ⟨p, hp, rfl⟩
      simp [this]
    simp
    exact fun a b h => ⟨b, h⟩

theorem mergeFromStack_self (l : List Scope) : mergeFromStack l l = l := by
  induction l with
  | nil => rfl
  | cons s r ih => simp [mergeFromStack, Scope.mergeFrom_self, ih]

theorem St.restore_self (st : St) : st.restore st.stack = st := by
  simp [St.restore, copyFromStack_self]

theorem St.stack_eq_top_cons {st : St} (h : st.stack ≠ []) : st.stack = st.top :: st.stack.tail := by
  unfold St.top
  cases hs : st.stack with
  | nil => exact absurd hs h
  | cons a r => rfl

/-- `self.scope.copy_from(before_parent)` after a first child block added `d1`: everything is back to the
    checkpoint except `globals` and `nonlocals`, which `copy_from` does not copy. -/
theorem restore_adds {st st1 : St} {d1 : Eff} (h : Plain st) (A1 : Adds st st1 d1) :
    Adds st (st1.restore st.stack) { globals := d1.globals, nonlocals := d1.nonlocals } := by
  have e0 := St.stack_eq_top_cons h.ne
  have e1 := St.stack_eq_top_cons A1.ne
  have hstack : (st1.restore st.stack).stack = st1.top.copyFrom st.top :: st.stack.tail := by
    simp only [St.restore]
    rw [e1, e0, A1.tail]
    simp [copyFromStack, copyFromStack_self]
  have htop : (st1.restore st.stack).top = st1.top.copyFrom st.top := by
    simp [St.top, hstack]
  refine ⟨by rw [hstack]; simp, by rw [hstack]; simp, ?_, A1.fns, A1.inAug, A1.inAnno, A1.annoOnly, A1.comps, A1.ext⟩
  rw [htop]
  exact ⟨A1.top.sid, A1.top.parent, A1.top.isolated, A1.top.functionName, rfl, by simp [Scope.copyFrom],
    by simp [Scope.copyFrom], by simp [Scope.copyFrom], by simp [Scope.copyFrom],
    by intro q; simpa [Scope.copyFrom] using A1.top.globals q,
    by intro q; simpa [Scope.copyFrom] using A1.top.nonlocals q, by simp [Scope.copyFrom]⟩

/-- The two child blocks of an `if` / `for` / `while`, processed from the same checkpoint and merged. -/
theorem parallel_adds {st st1 st2 : St} {d1 d2 : Eff} (h : Plain st) (A1 : Adds st st1 d1)
    (A2 : Adds (st1.restore st.stack) st2 d2) :
    Adds st (st2.mergeAfter st1.stack st2.stack) (d1 ++ d2) := by
  have R := restore_adds h A1
  have A02 := R.trans A2
  have e1 := St.stack_eq_top_cons A1.ne
  have e2 := St.stack_eq_top_cons A02.ne
  have hstack : (st2.mergeAfter st1.stack st2.stack).stack =
      (st2.top.mergeFrom st1.top).mergeFrom st2.top :: st.stack.tail := by
    simp only [St.mergeAfter]
    rw [e2, e1, A1.tail, A02.tail]
    simp [mergeFromStack, mergeFromStack_self]
  have htop : (st2.mergeAfter st1.stack st2.stack).top = (st2.top.mergeFrom st1.top).mergeFrom st2.top := by
    simp [St.top, hstack]
  refine ⟨by rw [hstack]; simp, by rw [hstack]; simp, ?_, A02.fns, A02.inAug, A02.inAnno, A02.annoOnly, A02.comps, A02.ext⟩
  rw [htop]
  have T1 := A1.top
  have T2 := A02.top
  refine ⟨T2.sid, T2.parent, T2.isolated, T2.functionName, ?_, ?_, ?_, ?_, ?_, ?_, ?_, ?_⟩
  · simp [Scope.mergeFrom, T2.isolatedNames, T1.isolatedNames]
  · intro q; simp [Scope.mergeFrom, T1.read, T2.read]; grind
  · intro q; simp [Scope.mergeFrom, T1.modified, T2.modified]; grind
  · intro q; simp [Scope.mergeFrom, T1.deleted, T2.deleted]; grind
  · intro q; simp [Scope.mergeFrom, T1.bound, T2.bound]; grind
  · intro q; simp [Scope.mergeFrom, T2.globals]
  · intro q; simp [Scope.mergeFrom, T2.nonlocals]
  · intro q; simp [Scope.mergeFrom, T1.annotations, T2.annotations]; grind

end Malt.Analysis

namespace Malt.Analysis
open Malt.Py

/-! ### statements -/

def aliasEff (names : List (String × String)) : Eff :=
  { modified := names.map (fun a => .sym (aliasName a)), bound := names.map (fun a => .sym (aliasName a)) }

def globalEff (names : List String) : Eff :=
  { read := names.map .sym, globals := names.map .sym }

def nonlocalEff (names : List String) : Eff :=
  { read := names.map .sym, bound := names.map .sym, nonlocals := names.map .sym }

mutual
/-- What visiting the statement `s` adds to the current scope (`fns`: the function/class stack). -/
def effS (fns : List FnCtx) (s : Stmt) : Eff :=
  match s with
  | .functionDef i name args body decos returns _ =>
      match args with
      | .arguments _ po ar va ko kd kw df =>
          let fns' := FnCtx.fn i name :: fns
          let params := paramNames po ar va ko kw
          let defScope : Eff := effEs fns' false false decos ++ effEs fns' false true returns ++ effEs fns' false false kd ++
            effEs fns' false false df ++ { bound := params } ++ { modified := [.sym name] } ++ { bound := [.sym name] }
          let inner : Eff := ({ bound := params } : Eff).exported false ++ (effSs fns' body).exported false
          defScope.exported false ++ inner.exported true
      | _ => {}
  | .classDef i name bases kws body decos =>
      let fns' := FnCtx.cls i :: fns
      let defScope : Eff := effEs fns' false false decos ++ { modified := [.sym name] } ++ { bound := [.sym name] } ++
        effEs fns' false false bases ++ effEs fns' false false kws
      let inner : Eff := effEs fns' false false bases ++ effEs fns' false false kws ++ effSs fns' body ++ effEs fns' false false decos
      defScope.exported false ++ inner.exported true
  | .ret _ v => (effEs fns false false v).exported false
  | .delete _ ts => (effEs fns false false ts).exported false
  | .assign _ ts v => (effEs fns false false ts ++ effE fns false false v).exported false
  | .augAssign _ t _ v => (effE fns true false t ++ effE fns false false v).exported false
  | .annAssign _ t an v _ => (effE fns false false t ++ effEs fns false false v ++ effE fns false true an).exported false
  | .for_ _ t it body orelse _ _ =>
      (effE fns false false t ++ effE fns false false it).exported false ++ (effE fns false false t).exported false ++
        ((effSs fns body).exported false ++ (effSs fns orelse).exported false)
  | .while_ _ t body orelse =>
      (effE fns false false t).exported false ++ ((effSs fns body).exported false ++ (effSs fns orelse).exported false)
  | .if_ _ t body orelse =>
      (effE fns false false t).exported false ++ ((effSs fns body).exported false ++ (effSs fns orelse).exported false)
  | .with_ _ items body _ => (effEs fns false false items ++ effSs fns body).exported false
  | .raise _ e c => (effEs fns false false e ++ effEs fns false false c).exported false
  | .try_ _ b h o f => effSs fns b ++ effSs fns h ++ effSs fns o ++ effSs fns f
  | .handler _ ty _ body => (effEs fns false false ty ++ effSs fns body).exported false
  | .assert_ _ t m => (effE fns false false t ++ effEs fns false false m).exported false
  | .import_ _ names => (aliasEff names).exported false
  | .importFrom _ _ names _ => (aliasEff names).exported false
  | .global _ names => (globalEff names).exported false
  | .nonlocal _ names => (nonlocalEff names).exported false
  | .expr _ v => (effE fns false false v).exported false
  | .pass _ | .break_ _ | .continue_ _ => {}
  | .other _ _ es bs => effEs fns false false es ++ effSs fns bs
def effSs (fns : List FnCtx) (ss : List Stmt) : Eff :=
  match ss with
  | [] => {}
  | s :: rest => effS fns s ++ effSs fns rest
end

/-- Statement-level states: plain, and neither `_in_aug_assign` nor `_in_annotation` is set. -/
structure PlainS (st : St) (fns : List FnCtx) : Prop where
  plain : Plain st
  ctx : InCtx st fns false false

theorem Adds.plainS {a b : St} {d : Eff} {fns} (h : Adds a b d) (p : PlainS a fns) : PlainS b fns :=
  ⟨h.plain, h.inCtx p.ctx⟩

theorem PlainS.enter {st : St} {fns} (p : PlainS st fns) (iso : Bool) (fn : Option String) : PlainS (st.enter iso fn) fns :=
  ⟨St.enter_plain p.plain iso fn, p.ctx.enter iso fn⟩

theorem PlainS.pushFn {st : St} {fns} (p : PlainS st fns) (f : FnCtx) : PlainS (st.pushFn f) (f :: fns) :=
  ⟨p.plain.pushFn f, p.ctx.pushFn f⟩

/-- `_in_aug_assign = True; visit; _in_aug_assign = False`. -/
theorem aug_bracket {st X : St} {d : Eff} {fns} (p : PlainS st fns) (h : Adds (st.setInAug true) X d) :
    Adds st (X.setInAug false) d :=
  ⟨h.ne, h.tail, h.top, h.fns, p.ctx.inAug.symm ▸ rfl, h.inAnno, h.annoOnly, h.comps, h.ext⟩

theorem PlainS.setInAug {st : St} {fns} (p : PlainS st fns) :
    Plain (st.setInAug true) ∧ InCtx (st.setInAug true) fns true false :=
  ⟨⟨p.plain.ne, p.plain.comps, p.plain.annoOnly⟩, ⟨p.ctx.fns, rfl, p.ctx.inAnno⟩⟩

/-- `_process_annotation`. -/
theorem anno_bracket {st X : St} {d : Eff} {fns} (p : PlainS st fns) (h : Adds (st.setInAnno true) X d) :
    Adds st (X.setInAnno false) d :=
  ⟨h.ne, h.tail, h.top, h.fns, h.inAug, p.ctx.inAnno.symm ▸ rfl, h.annoOnly, h.comps, h.ext⟩

theorem PlainS.setInAnno {st : St} {fns} (p : PlainS st fns) :
    Plain (st.setInAnno true) ∧ InCtx (st.setInAnno true) fns false true :=
  ⟨⟨p.plain.ne, p.plain.comps, p.plain.annoOnly⟩, ⟨p.ctx.fns, p.ctx.inAug, rfl⟩⟩

theorem visitAliases_adds (names : List (String × String)) {st : St} (h : Plain st) :
    Adds st (visitAliases names st) (aliasEff names) := by
  unfold visitAliases
  induction names generalizing st with
  | nil => simpa [aliasEff] using Adds.refl h
  | cons a rest ih =>
    simp only [List.foldl_cons]
    have h1 := Adds.addModified h (.sym (aliasName a))
    have h2 := h1.trans (Adds.addBound h1.plain (.sym (aliasName a)))
    exact (h2.trans (ih h2.plain)).congr (by simp only [aliasEff, List.map_cons]; eff_equiv)

theorem declGlobals_adds (names : List String) {st : St} (h : Plain st) :
    Adds st (declGlobals names st) (globalEff names) := by
  unfold declGlobals
  induction names generalizing st with
  | nil => simpa [globalEff] using Adds.refl h
  | cons a rest ih =>
    simp only [List.foldl_cons]
    have h1 := Adds.addRead h (.sym a)
    have h2 := h1.trans (Adds.addGlobal h1.plain (.sym a))
    exact (h2.trans (ih h2.plain)).congr (by simp only [globalEff, List.map_cons]; eff_equiv)

theorem declNonlocals_adds (names : List String) {st : St} (h : Plain st) :
    Adds st (declNonlocals names st) (nonlocalEff names) := by
  unfold declNonlocals
  induction names generalizing st with
  | nil => simpa [nonlocalEff] using Adds.refl h
  | cons a rest ih =>
    simp only [List.foldl_cons]
    have h1 := Adds.addRead h (.sym a)
    have h2 := h1.trans (Adds.addBound h1.plain (.sym a))
    have h3 := h2.trans (Adds.addNonlocal h2.plain (.sym a))
    exact (h3.trans (ih h3.plain)).congr (by simp only [nonlocalEff, List.map_cons]; eff_equiv)

end Malt.Analysis

namespace Malt.Analysis
open Malt.Py

/-- The pattern of `_process_parallel_blocks` over two block visitors `f`, `g`. -/
theorem parallel_blocks {st : St} {fns} (p : PlainS st fns) (f g : St → St) (d1 d2 : Eff)
    (hf : ∀ s, PlainS s fns → Adds s (f s) d1) (hg : ∀ s, PlainS s fns → Adds s (g s) d2) :
    Adds st ((g ((f (st.restore st.stack)).restore st.stack)).mergeAfter (f (st.restore st.stack)).stack
              (g ((f (st.restore st.stack)).restore st.stack)).stack) (d1 ++ d2) := by
  rw [St.restore_self]
  have A1 := hf st p
  have R := restore_adds p.plain A1
  exact parallel_adds p.plain A1 (hg _ (R.plainS p))

/-- `if node.returns: node.returns = self._process_annotation(node.returns)`. -/
theorem returnsStep_adds (returns : List Expr) {st : St} {fns} (p : PlainS st fns)
    (ih : ∀ s, Plain s → InCtx s fns false true → Adds s (visitEs returns s) (effEs fns false true returns)) :
    Adds st (if returns.isEmpty = true then st else (visitEs returns (st.setInAnno true)).setInAnno false)
      (effEs fns false true returns) := by
  cases returns with
  | nil => simpa [effEs] using Adds.refl p.plain
  | cons r rs =>
    obtain ⟨hp, hc⟩ := p.setInAnno
    simpa using anno_bracket p (ih _ hp hc)

mutual
theorem visitS_adds : (s : Stmt) → (st : St) → (fns : List FnCtx) → PlainS st fns → FragS s = true →
    Adds st (visitS s st) (effS fns s)
  | .ret i v, st, fns, p, hf => by
      simp only [FragS] at hf
      simp only [visitS, effS]
      exact Adds.scopedAdds p.plain false none
        (visitEs_adds v _ (St.enter_plain p.plain false none) hf fns false false (p.ctx.enter false none)) _
  | .delete i ts, st, fns, p, hf => by
      simp only [FragS] at hf
      simp only [visitS, effS]
      exact Adds.scopedAdds p.plain false none
        (visitEs_adds ts _ (St.enter_plain p.plain false none) hf fns false false (p.ctx.enter false none)) _
  | .assign i ts v, st, fns, p, hf => by
      simp only [FragS, Bool.and_eq_true] at hf
      simp only [visitS, effS]
      have A1 := visitEs_adds ts _ (St.enter_plain p.plain false none) hf.1 fns false false (p.ctx.enter false none)
      have A2 := A1.trans (visitE_adds v _ A1.plain hf.2 fns false false (A1.inCtx (p.ctx.enter false none)))
      exact Adds.scopedAdds p.plain false none A2 _
  | .augAssign i t op v, st, fns, p, hf => by
      simp only [FragS, Bool.and_eq_true] at hf
      simp only [visitS, effS]
      have p1 := p.enter false none
      obtain ⟨hp, hc⟩ := p1.setInAug
      have A1 := aug_bracket p1 (visitE_adds t _ hp hf.1 fns true false hc)
      have A2 := A1.trans (visitE_adds v _ A1.plain hf.2 fns false false (A1.inCtx p1.ctx))
      exact Adds.scopedAdds p.plain false none A2 _
  | .annAssign i t an v simple, st, fns, p, hf => by
      simp only [FragS, Bool.and_eq_true] at hf
      simp only [visitS, effS]
      have p1 := p.enter false none
      have A1 := visitE_adds t _ p1.plain hf.1.1 fns false false p1.ctx
      have A2 := A1.trans (visitEs_adds v _ A1.plain hf.2 fns false false (A1.inCtx p1.ctx))
      obtain ⟨hp, hc⟩ := (A2.plainS p1).setInAnno
      have A3 := A2.trans (anno_bracket (A2.plainS p1) (visitE_adds an _ hp hf.1.2 fns false true hc))
      exact Adds.scopedAdds p.plain false none A3 _
  | .raise i e c, st, fns, p, hf => by
      simp only [FragS, Bool.and_eq_true] at hf
      simp only [visitS, effS]
      have A1 := visitEs_adds e _ (St.enter_plain p.plain false none) hf.1 fns false false (p.ctx.enter false none)
      have A2 := A1.trans (visitEs_adds c _ A1.plain hf.2 fns false false (A1.inCtx (p.ctx.enter false none)))
      exact Adds.scopedAdds p.plain false none A2 _
  | .assert_ i t m, st, fns, p, hf => by
      simp only [FragS, Bool.and_eq_true] at hf
      simp only [visitS, effS]
      have A1 := visitE_adds t _ (St.enter_plain p.plain false none) hf.1 fns false false (p.ctx.enter false none)
      have A2 := A1.trans (visitEs_adds m _ A1.plain hf.2 fns false false (A1.inCtx (p.ctx.enter false none)))
      exact Adds.scopedAdds p.plain false none A2 _
  | .expr i v, st, fns, p, hf => by
      simp only [FragS] at hf
      simp only [visitS, effS]
      exact Adds.scopedAdds p.plain false none
        (visitE_adds v _ (St.enter_plain p.plain false none) hf fns false false (p.ctx.enter false none)) _
  | .import_ i names, st, fns, p, _ => by
      simp only [visitS, effS]
      exact Adds.scopedAdds p.plain false none (visitAliases_adds names (St.enter_plain p.plain false none)) _
  | .importFrom i m names l, st, fns, p, _ => by
      simp only [visitS, effS]
      exact Adds.scopedAdds p.plain false none (visitAliases_adds names (St.enter_plain p.plain false none)) _
  | .global i names, st, fns, p, _ => by
      simp only [visitS, effS]
      exact Adds.scopedAdds p.plain false none (declGlobals_adds names (St.enter_plain p.plain false none)) _
  | .nonlocal i names, st, fns, p, _ => by
      simp only [visitS, effS]
      exact Adds.scopedAdds p.plain false none (declNonlocals_adds names (St.enter_plain p.plain false none)) _
  | .pass _, st, fns, p, _ => by simpa [visitS, effS] using Adds.refl p.plain
  | .break_ _, st, fns, p, _ => by simpa [visitS, effS] using Adds.refl p.plain
  | .continue_ _, st, fns, p, _ => by simpa [visitS, effS] using Adds.refl p.plain
  | .other _ _ es bs, st, fns, p, hf => by
      simp only [FragS, Bool.and_eq_true] at hf
      simp only [visitS, effS]
      have A1 := visitEs_adds es _ p.plain hf.1 fns false false p.ctx
      exact A1.trans (visitSs_adds bs _ fns (A1.plainS p) hf.2)
  | .try_ _ b h o f, st, fns, p, hf => by
      simp only [FragS, Bool.and_eq_true] at hf
      simp only [visitS, effS]
      have A1 := visitSs_adds b _ fns p hf.1.1.1
      have A2 := A1.trans (visitSs_adds h _ fns (A1.plainS p) hf.1.1.2)
      have A3 := A2.trans (visitSs_adds o _ fns (A2.plainS p) hf.1.2)
      exact A3.trans (visitSs_adds f _ fns (A3.plainS p) hf.2)
  | .handler _ ty name body, st, fns, p, hf => by
      simp only [FragS, Bool.and_eq_true] at hf
      simp only [visitS, effS]
      have p1 := p.enter false none
      have E : Adds (st.enter false) (if name.isEmpty = true then st.enter false else (st.enter false).setErr) {} := by
        split
        · exact Adds.refl p1.plain
        · exact ⟨p1.plain.ne, rfl, ScopeAdds.refl _, rfl, rfl, rfl, p1.plain.annoOnly, p1.plain.comps, ⟨[], rfl⟩⟩
      have A1 := E.trans (visitEs_adds ty _ E.plain hf.1 fns false false (E.inCtx p1.ctx))
      have A2 := A1.trans (visitSs_adds body _ fns (A1.plainS p1) hf.2)
      exact (Adds.scopedAdds p.plain false none A2 []).congr (by eff_equiv)
  | .with_ i items body isAsync, st, fns, p, hf => by
      simp only [FragS, Bool.and_eq_true, Bool.not_eq_true'] at hf
      obtain ⟨⟨⟨ha, hi⟩, -⟩, hb⟩ := hf
      subst ha
      simp only [visitS, effS, Bool.false_eq_true, ↓reduceIte]
      have p1 := p.enter false none
      have A1 := visitEs_adds items _ p1.plain hi fns false false p1.ctx
      have A2 := A1.trans (visitSs_adds body _ fns (A1.plainS p1) hb)
      exact Adds.scopedAdds p.plain false none A2 _
  | .if_ i test body orelse, st, fns, p, hf => by
      simp only [FragS, Bool.and_eq_true] at hf
      simp only [visitS, effS]
      have S1 := Adds.scopedAdds p.plain false none
        (visitE_adds test _ (St.enter_plain p.plain false none) hf.1.1 fns false false (p.ctx.enter false none))
        [(test.id, .scope), (i, .condScope)]
      have P := parallel_blocks (S1.plainS p)
        (fun s => ((s.enter false) |> visitSs body).exitWith [(i, .bodyScope)])
        (fun s => ((s.enter false) |> visitSs orelse).exitWith [(i, .orelseScope)]) _ _
        (fun s ps => Adds.scopedAdds ps.plain false none (visitSs_adds body _ fns (ps.enter false none) hf.1.2) _)
        (fun s ps => Adds.scopedAdds ps.plain false none (visitSs_adds orelse _ fns (ps.enter false none) hf.2) _)
      exact S1.trans P
  | .while_ i test body orelse, st, fns, p, hf => by
      simp only [FragS, Bool.and_eq_true] at hf
      simp only [visitS, effS]
      have S1 := Adds.scopedAdds p.plain false none
        (visitE_adds test _ (St.enter_plain p.plain false none) hf.1.1 fns false false (p.ctx.enter false none))
        [(test.id, .scope), (i, .condScope)]
      have P := parallel_blocks (S1.plainS p)
        (fun s => ((s.enter false) |> visitSs body).exitWith [(i, .bodyScope)])
        (fun s => ((s.enter false) |> visitSs orelse).exitWith [(i, .orelseScope)]) _ _
        (fun s ps => Adds.scopedAdds ps.plain false none (visitSs_adds body _ fns (ps.enter false none) hf.1.2) _)
        (fun s ps => Adds.scopedAdds ps.plain false none (visitSs_adds orelse _ fns (ps.enter false none) hf.2) _)
      exact S1.trans P
  | .for_ i t it body orelse extra isAsync, st, fns, p, hf => by
      simp only [FragS, Bool.and_eq_true, Bool.not_eq_true', List.isEmpty_iff] at hf
      obtain ⟨⟨⟨⟨⟨ha, hx⟩, ht⟩, hit⟩, hb⟩, ho⟩ := hf
      subst ha hx
      simp only [visitS, effS, Bool.false_eq_true, ↓reduceIte]
      have p1 := p.enter false none
      have A1 := visitE_adds t _ p1.plain ht fns false false p1.ctx
      have A2 := A1.trans (visitE_adds it _ A1.plain hit fns false false (A1.inCtx p1.ctx))
      have S1 := Adds.scopedAdds p.plain false none A2 [(it.id, .scope)]
      have q := S1.plainS p
      have S2 := S1.trans (Adds.scopedAdds q.plain false none
        (visitE_adds t _ (q.enter false none).plain ht fns false false (q.enter false none).ctx) [(i, .iterateScope)])
      have P := parallel_blocks (S2.plainS p)
        (fun s => ((s.enter false) |> visitSs body).exitWith [(i, .bodyScope)])
        (fun s => ((s.enter false) |> visitSs orelse).exitWith [(i, .orelseScope)]) _ _
        (fun s ps => Adds.scopedAdds ps.plain false none (visitSs_adds body _ fns (ps.enter false none) hb) _)
        (fun s ps => Adds.scopedAdds ps.plain false none (visitSs_adds orelse _ fns (ps.enter false none) ho) _)
      exact S2.trans P
  | .classDef i name bases kws body decos, st, fns, p, hf => by
      simp only [FragS, Bool.and_eq_true] at hf
      obtain ⟨⟨⟨hb, hk⟩, hd⟩, hbody⟩ := hf
      simp only [visitS, effS]
      apply Adds.popFn (f := .cls i)
      have p0 := p.pushFn (.cls i)
      generalize st.pushFn (.cls i) = s0 at p0 ⊢
      have p1 := p0.enter false none
      have A1 := visitEs_adds decos _ p1.plain hd _ false false p1.ctx
      have A2 := A1.trans (Adds.addModified A1.plain (.sym name))
      have A3 := A2.trans (Adds.addBound A2.plain (.sym name))
      have A4 := A3.trans (visitEs_adds bases _ A3.plain hb _ false false (A3.inCtx p1.ctx))
      have A5 := A4.trans (visitEs_adds kws _ A4.plain hk _ false false (A4.inCtx p1.ctx))
      have S1 := Adds.scopedAdds p0.plain false none A5 [(i, .scope)]
      have q := S1.plainS p0
      have q1 := q.enter true none
      have B1 := visitEs_adds bases _ q1.plain hb _ false false q1.ctx
      have B2 := B1.trans (visitEs_adds kws _ B1.plain hk _ false false (B1.inCtx q1.ctx))
      have B3 := B2.trans (visitSs_adds body _ _ (B2.plainS q1) hbody)
      have B4 := B3.trans (visitEs_adds decos _ B3.plain hd _ false false (B3.inCtx q1.ctx))
      exact S1.trans (Adds.scopedAdds q.plain true none B4 [])
  | .functionDef i name args body decos returns isAsync, st, fns, p, hf => by
      cases args with
      | arguments ai po ar va ko kd kw df =>
        simp only [FragS, Bool.and_eq_true, Bool.not_eq_true'] at hf
        obtain ⟨⟨⟨⟨ha, ⟨⟨⟨⟨⟨⟨hpo, har⟩, hva⟩, hko⟩, hkw⟩, hkd⟩, hdf⟩⟩, hdec⟩, hret⟩, hbody⟩ := hf
        subst ha
        have hpp : PlainParams po ar va ko kw := ⟨hpo, har, hva, hko, hkw⟩
        simp only [visitS, effS, Bool.false_eq_true, ↓reduceIte]
        rw [show ∀ s : St, (visitEs kw (visitEs ko (visitEs va (visitEs ar (visitEs po (s.setAnnoOnly true)))))).setAnnoOnly false
              = (visitParams po ar va ko kw (s.setAnnoOnly true)).setAnnoOnly false from fun _ => rfl,
            show ∀ s : St, visitEs kw (visitEs ko (visitEs va (visitEs ar (visitEs po s)))) = visitParams po ar va ko kw s
              from fun _ => rfl]
        apply Adds.popFn (f := .fn i name)
        have p0 := p.pushFn (.fn i name)
        generalize st.pushFn (.fn i name) = s0 at p0 ⊢
        -- the def statement's own scope
        have p1 := p0.enter false none
        have A1 := visitEs_adds decos _ p1.plain hdec _ false false p1.ctx
        have A2 := A1.trans (returnsStep_adds returns (A1.plainS p1)
          (fun s hs hc => visitEs_adds returns s hs hret _ false true hc))
        have A3 := A2.trans (visitEs_adds kd _ A2.plain hkd _ false false (A2.inCtx p1.ctx))
        have A4 := A3.trans (visitEs_adds df _ A3.plain hdf _ false false (A3.inCtx p1.ctx))
        have A5 := A4.trans (visitParams_adds hpp A4.plain)
        rw [visitParams_annoOnly hpp A4.plain]
        have A6 := A5.trans (Adds.addModified A5.plain (.sym name))
        have A7 := A6.trans (Adds.addBound A6.plain (.sym name))
        have S1 := Adds.scopedAdds p0.plain false none A7 [(i, .scope)]
        -- the function scope (isolated), its argument scope and its body scope
        have q := S1.plainS p0
        have qI := q.enter true (some name)
        have B1 := visitParams_adds hpp (St.enter_plain qI.plain false (some name))
        have SB1 := Adds.scopedAdds qI.plain false (some name) B1 [(ai, .scope)]
        have qB := SB1.plainS qI
        have B2 := visitSs_adds body _ _ (qB.enter false (some name)) hbody
        have SB2 := Adds.scopedAdds qB.plain false (some name) B2 [(i, .bodyScope)]
        exact S1.trans (Adds.scopedAdds q.plain true (some name) (SB1.trans SB2) [(i, .argsAndBodyScope)])
      | _ => simp [FragS] at hf
theorem visitSs_adds : (ss : List Stmt) → (st : St) → (fns : List FnCtx) → PlainS st fns → FragSs ss = true →
    Adds st (visitSs ss st) (effSs fns ss)
  | [], st, fns, p, _ => by simpa [visitSs, effSs] using Adds.refl p.plain
  | s :: rest, st, fns, p, hf => by
      simp only [FragSs, Bool.and_eq_true] at hf
      simp only [visitSs, effSs]
      have A1 := visitS_adds s st fns p hf.1
      exact A1.trans (visitSs_adds rest _ fns (A1.plainS p) hf.2)
end

end Malt.Analysis
