import MaltModel.Proofs.C18Cong
/- C18, semantics: which names the residual expression and the pending statements mention. -/
set_option linter.unusedSimpArgs false
namespace Malt.Anf
open Malt.Py Malt.SemAnf

mutual
theorem names_adjust : ∀ (e : Expr) (ov : Option Ctx), namesE (adjustCtx ov e) = namesE e
  | .name .., ov => by simp [adjustCtx, namesE]
  | .const .., ov => by simp [adjustCtx, namesE]
  | .noneMarker, ov => by simp [adjustCtx, namesE]
  | .attr i v a c, ov => by simp [adjustCtx, namesE, names_adjust v]
  | .subscript i v s c, ov => by simp [adjustCtx, namesE, names_adjust v, names_adjust s]
  | .seq i .set es c, ov => by simp [adjustCtx, namesE, namess_adjust es]
  | .seq i .tuple es c, ov => by simp [adjustCtx, namesE, namess_adjust es]
  | .seq i .list es c, ov => by simp [adjustCtx, namesE, namess_adjust es]
  | .call i f as ks, ov => by simp [adjustCtx, namesE, names_adjust f, namess_adjust as, namess_adjust ks]
  | .lambda i as b, ov => by simp [adjustCtx, namesE, names_adjust as, names_adjust b]
  | .comprehension i t it ifs a, ov => by simp [adjustCtx, namesE, names_adjust t, names_adjust it, namess_adjust ifs]
  | .keyword i a h v, ov => by simp [adjustCtx, namesE, names_adjust v]
  | .boolop i b vs, ov => by simp [adjustCtx, namesE, namess_adjust vs]
  | .unary i op e, ov => by simp [adjustCtx, namesE, names_adjust e]
  | .binop i op l r, ov => by simp [adjustCtx, namesE, names_adjust l, names_adjust r]
  | .compare i l ops rs, ov => by simp [adjustCtx, namesE, names_adjust l, namess_adjust rs]
  | .ifexp i t b e, ov => by simp [adjustCtx, namesE, names_adjust t, names_adjust b, names_adjust e]
  | .starred i v c, ov => by simp [adjustCtx, namesE, names_adjust v]
  | .namedexpr i t v, ov => by simp [adjustCtx, namesE, names_adjust t, names_adjust v]
  | .comp i k es gs, ov => by simp [adjustCtx, namesE, namess_adjust es, namess_adjust gs]
  | .arguments i a b c d e f g, ov => by
      simp [adjustCtx, namesE, namess_adjust a, namess_adjust b, namess_adjust c, namess_adjust d, namess_adjust e,
        namess_adjust f, namess_adjust g]
  | .arg i nm an, ov => by simp [adjustCtx, namesE, namess_adjust an]
  | .withitem i c v, ov => by simp [adjustCtx, namesE, names_adjust c, namess_adjust v]
  | .other i k ats ks, ov => by
      by_cases hk : k = "Dict" <;> simp [adjustCtx, namesE, hk, namess_adjust ks]
theorem namess_adjust : ∀ (es : List Expr) (ov : Option Ctx), namesEs (adjustCtxs ov es) = namesEs es
  | [], ov => by simp [adjustCtxs, namesEs]
  | e :: es, ov => by simp [adjustCtxs, namesEs, names_adjust e, namess_adjust es]
end

theorem names_hoistCopy (x : Expr) : namesE (hoistCopy x) = namesE x := by
  unfold hoistCopy; split
  · exact names_adjust x _
  · rfl

/-- `N`, or a temporary numbered in `[a, b)` -/
def TN (N : String → Prop) (a b : Nat) (y : String) : Prop := N y ∨ ∃ k, a ≤ k ∧ k < b ∧ y = tmpName k

theorem TN.mono {N : String → Prop} {a b a' b' : Nat} {y : String} (h : TN N a b y) (ha : a' ≤ a) (hb : b ≤ b') : TN N a' b' y := by
  rcases h with h | ⟨k, h1, h2, h3⟩
  · exact Or.inl h
  · exact Or.inr ⟨k, by omega, by omega, h3⟩

/-- the values assigned by pending statements satisfy `P` -/
def ValsP (P : Expr → Prop) (D : List Stmt) : Prop := ∀ s ∈ D, ∃ t v, s = Stmt.assign 0 [.name 0 t .store] v ∧ P v

theorem ValsP.nil (P : Expr → Prop) : ValsP P [] := by intro s hs; simp at hs

theorem ValsP.append {P : Expr → Prop} {A B : List Stmt} (ha : ValsP P A) (hb : ValsP P B) : ValsP P (A ++ B) := by
  intro s hs
  rcases List.mem_append.mp hs with h | h
  · exact ha s h
  · exact hb s h

theorem ValsP.mono {P Q : Expr → Prop} {D : List Stmt} (h : ValsP P D) (hpq : ∀ v, P v → Q v) : ValsP Q D := by
  intro s hs
  obtain ⟨t, v, e, hp⟩ := h s hs
  exact ⟨t, v, e, hpq v hp⟩

abbrev NamesIn (N : String → Prop) (a b : Nat) (v : Expr) : Prop := ∀ y ∈ namesE v, TN N a b y

structure NInv (N : String → Prop) (a : Nat) (e' : Expr) (D : List Stmt) (b : Nat) : Prop where
  names : NamesIn N a b e'
  vals : ValsP (NamesIn N a b) D

structure NsInv (N : String → Prop) (a : Nat) (es' : List Expr) (D : List Stmt) (b : Nat) : Prop where
  names : ∀ y ∈ namesEs es', TN N a b y
  vals : ValsP (NamesIn N a b) D

theorem NInv.mono {N : String → Prop} {a b a' b' : Nat} {e : Expr} {D : List Stmt} (h : NInv N a e D b) (ha : a' ≤ a) (hb : b ≤ b') :
    NInv N a' e D b' :=
  ⟨fun y hy => (h.names y hy).mono ha hb, h.vals.mono (fun v hv y hy => (hv y hy).mono ha hb)⟩

theorem NsInv.mono {N : String → Prop} {a b a' b' : Nat} {es : List Expr} {D : List Stmt} (h : NsInv N a es D b) (ha : a' ≤ a)
    (hb : b ≤ b') : NsInv N a' es D b' :=
  ⟨fun y hy => (h.names y hy).mono ha hb, h.vals.mono (fun v hv y hy => (hv y hy).mono ha hb)⟩

/-- `ensure` on a fragment expression whose names are in `TN N a n` -/
theorem ensure_ninv {cfg : Config} {pk fld : String} {N : String → Prop} {a : Nat} {x : Expr} {n : Nat} {x' : Expr}
    {H : List Stmt} {n' : Nat} (hf : fragE x = true) (ha : a ≤ n) (hx : NamesIn N a n x)
    (h : ensure cfg pk fld x n = (x', H, n')) : NInv N a x' H n' ∧ n ≤ n' := by
  rcases ensure_frag_cases cfg pk fld x n hf with ⟨h1, -⟩ | ⟨h1, -⟩
  · rw [h1] at h; simp only [Prod.mk.injEq] at h; obtain ⟨rfl, rfl, rfl⟩ := h
    exact ⟨⟨hx, ValsP.nil _⟩, Nat.le_refl _⟩
  · rw [h1] at h; simp only [Prod.mk.injEq] at h; obtain ⟨rfl, rfl, rfl⟩ := h
    refine ⟨⟨?_, ?_⟩, Nat.le_succ _⟩
    · intro y hy
      simp only [namesE, List.mem_singleton] at hy
      exact Or.inr ⟨n, ha, Nat.lt_succ_self n, hy⟩
    · intro s hs
      simp only [List.mem_singleton] at hs
      subst hs
      refine ⟨tmpName n, hoistCopy x, rfl, fun y hy => ?_⟩
      rw [names_hoistCopy] at hy
      exact (hx y hy).mono (Nat.le_refl _) (Nat.le_succ _)

theorem ensureList_ninv {cfg : Config} {pk fld : String} {N : String → Prop} {a : Nat} : ∀ {xs : List Expr} {n : Nat}
    {xs' : List Expr} {H : List Stmt} {n' : Nat}, fragEs xs = true → a ≤ n → (∀ y ∈ namesEs xs, TN N a n y) →
    ensureList cfg pk fld xs n = (xs', H, n') → NsInv N a xs' H n' ∧ n ≤ n'
  | [], n, xs', H, n', _, _, _, h => by
      simp only [ensureList, Prod.mk.injEq] at h; obtain ⟨rfl, rfl, rfl⟩ := h
      exact ⟨⟨by simp [namesEs], ValsP.nil _⟩, Nat.le_refl _⟩
  | x :: xs, n, xs', H, n', hf, ha, hx, h => by
      simp only [fragEs, Bool.and_eq_true] at hf
      simp only [namesEs, List.mem_append] at hx
      simp only [ensureList] at h
      rcases h1 : ensure cfg pk fld x n with ⟨x1, H1, n1⟩
      rcases h2 : ensureList cfg pk fld xs n1 with ⟨xs1, H2, n2⟩
      simp only [h1, h2, Prod.mk.injEq] at h; obtain ⟨rfl, rfl, rfl⟩ := h
      obtain ⟨i1, l1⟩ := ensure_ninv hf.1 ha (fun y hy => hx y (Or.inl hy)) h1
      obtain ⟨i2, l2⟩ := ensureList_ninv hf.2 (Nat.le_trans ha l1)
        (fun y hy => (hx y (Or.inr hy)).mono (Nat.le_refl _) l1) h2
      refine ⟨⟨?_, (i1.mono (Nat.le_refl _) l2).vals.append i2.vals⟩, Nat.le_trans l1 l2⟩
      intro y hy
      simp only [namesEs, List.mem_append] at hy
      rcases hy with hy | hy
      · exact (i1.names y hy).mono (Nat.le_refl _) l2
      · exact i2.names y hy

end Malt.Anf

namespace Malt.Anf
open Malt.Py Malt.SemAnf

theorem fragOf {cfg : Config} {e : Expr} {n : Nat} {e' : Expr} {D : List Stmt} {n' : Nat} (hf : fragE e = true)
    (h : visitE cfg e n = .ok (e', D, n')) : fragE e' = true :=
  (visitE_finv cfg (fun _ => True) e n e' D n' hf (fun _ _ => trivial) h).frag

theorem fragsOf {cfg : Config} {es : List Expr} {n : Nat} {es' : List Expr} {D : List Stmt} {n' : Nat} (hf : fragEs es = true)
    (h : visitEs cfg es n = .ok (es', D, n')) : fragEs es' = true :=
  (visitEs_finv cfg (fun _ => True) es n es' D n' hf (fun _ _ => trivial) h).frag

mutual
theorem visitE_ninv (cfg : Config) (N : String → Prop) : ∀ (e : Expr) (n : Nat) (e' : Expr) (D : List Stmt) (n' : Nat),
    fragE e = true → (∀ y ∈ namesE e, N y) → visitE cfg e n = .ok (e', D, n') → NInv N n e' D n' ∧ n ≤ n'
  | .name i s c, n, e', D, n', _, hn, h => by
      vopen h; vclose h; obtain ⟨rfl, rfl, rfl⟩ := h
      exact ⟨⟨fun y hy => Or.inl (hn y hy), ValsP.nil _⟩, Nat.le_refl _⟩
  | .const .., n, e', D, n', _, _, h => by
      vopen h; vclose h; obtain ⟨rfl, rfl, rfl⟩ := h
      exact ⟨⟨fun y hy => by simp [namesE] at hy, ValsP.nil _⟩, Nat.le_refl _⟩
  | .attr i v a c, n, e', D, n', hf, hn, h => by
      simp only [fragE, Bool.and_eq_true] at hf
      simp only [namesE] at hn
      vopen h
      obtain ⟨v1, d1, n1, hv, h⟩ := h
      rcases hE : ensure cfg "Attribute" "value" v1 n1 with ⟨v2, h1, n2⟩
      simp only [hE] at h; vclose h
      obtain ⟨rfl, rfl, rfl⟩ := h
      obtain ⟨iv, l1⟩ := visitE_ninv cfg N v n v1 d1 n1 hf.1 hn hv
      obtain ⟨ie, l2⟩ := ensure_ninv (fragOf hf.1 hv) l1 iv.names hE
      exact ⟨⟨fun y hy => ie.names y (by simpa [namesE] using hy), (iv.mono (Nat.le_refl _) l2).vals.append ie.vals⟩, Nat.le_trans l1 l2⟩
  | .unary i op v, n, e', D, n', hf, hn, h => by
      simp only [fragE] at hf
      simp only [namesE] at hn
      vopen h
      obtain ⟨v1, d1, n1, hv, h⟩ := h
      rcases hE : ensure cfg "UnaryOp" "operand" v1 n1 with ⟨v2, h1, n2⟩
      simp only [hE] at h; vclose h
      obtain ⟨rfl, rfl, rfl⟩ := h
      obtain ⟨iv, l1⟩ := visitE_ninv cfg N v n v1 d1 n1 hf hn hv
      obtain ⟨ie, l2⟩ := ensure_ninv (fragOf hf hv) l1 iv.names hE
      exact ⟨⟨fun y hy => ie.names y (by simpa [namesE] using hy), (iv.mono (Nat.le_refl _) l2).vals.append ie.vals⟩, Nat.le_trans l1 l2⟩
  | .binop i op l r, n, e', D, n', hf, hn, h => by
      simp only [fragE, Bool.and_eq_true] at hf
      simp only [namesE, List.mem_append] at hn
      simp only [visitE] at h
      split at h
      · simp at h
      vopen h
      obtain ⟨v1, d1, n1, hv, s1, d2, n2, hs, h⟩ := h
      rcases hE1 : ensure cfg "BinOp" "left" v1 n2 with ⟨v2, h1, n3⟩
      rcases hE2 : ensure cfg "BinOp" "right" s1 n3 with ⟨s2, h2, n4⟩
      simp only [hE1, hE2] at h; vclose h
      obtain ⟨rfl, rfl, rfl⟩ := h
      obtain ⟨iv, l1⟩ := visitE_ninv cfg N l n v1 d1 n1 hf.1 (fun y hy => hn y (Or.inl hy)) hv
      obtain ⟨is, l2⟩ := visitE_ninv cfg N r n1 s1 d2 n2 hf.2 (fun y hy => hn y (Or.inr hy)) hs
      obtain ⟨ie1, l3⟩ := ensure_ninv (fragOf hf.1 hv) (Nat.le_trans l1 l2) (iv.mono (Nat.le_refl _) l2).names hE1
      obtain ⟨ie2, l4⟩ := ensure_ninv (fragOf hf.2 hs) (by omega) (is.mono l1 l3).names hE2
      refine ⟨⟨?_, ?_⟩, by omega⟩
      · intro y hy
        simp only [namesE, List.mem_append] at hy
        rcases hy with hy | hy
        · exact (ie1.names y hy).mono (Nat.le_refl _) l4
        · exact ie2.names y hy
      · exact (((iv.mono (Nat.le_refl _) (by omega)).vals.append (is.mono l1 (by omega)).vals).append
          (ie1.mono (Nat.le_refl _) l4).vals).append ie2.vals
  | .subscript i v s c, n, e', D, n', hf, hn, h => by
      simp only [fragE, Bool.and_eq_true] at hf
      simp only [namesE, List.mem_append] at hn
      vopen h
      obtain ⟨v1, d1, n1, hv, s1, d2, n2, hs, h⟩ := h
      rcases hE1 : ensure cfg "Subscript" "value" v1 n2 with ⟨v2, h1, n3⟩
      rcases hE2 : ensure cfg "Subscript" "slice" s1 n3 with ⟨s2, h2, n4⟩
      simp only [hE1, hE2] at h; vclose h
      obtain ⟨rfl, rfl, rfl⟩ := h
      obtain ⟨iv, l1⟩ := visitE_ninv cfg N v n v1 d1 n1 hf.1.1.1 (fun y hy => hn y (Or.inl hy)) hv
      obtain ⟨is, l2⟩ := visitE_ninv cfg N s n1 s1 d2 n2 hf.1.1.2 (fun y hy => hn y (Or.inr hy)) hs
      obtain ⟨ie1, l3⟩ := ensure_ninv (fragOf hf.1.1.1 hv) (Nat.le_trans l1 l2) (iv.mono (Nat.le_refl _) l2).names hE1
      obtain ⟨ie2, l4⟩ := ensure_ninv (fragOf hf.1.1.2 hs) (by omega) (is.mono l1 l3).names hE2
      refine ⟨⟨?_, ?_⟩, by omega⟩
      · intro y hy
        simp only [namesE, List.mem_append] at hy
        rcases hy with hy | hy
        · exact (ie1.names y hy).mono (Nat.le_refl _) l4
        · exact ie2.names y hy
      · exact (((iv.mono (Nat.le_refl _) (by omega)).vals.append (is.mono l1 (by omega)).vals).append
          (ie1.mono (Nat.le_refl _) l4).vals).append ie2.vals
  | .compare i l ops rs, n, e', D, n', hf, hn, h => by
      simp only [fragE, Bool.and_eq_true] at hf
      obtain ⟨⟨⟨hl, hrs⟩, -⟩, -⟩ := hf
      simp only [namesE, List.mem_append] at hn
      simp only [visitE] at h
      split at h
      · simp at h
      vopen h
      obtain ⟨v1, d1, n1, hv, s1, d2, n2, hs, h⟩ := h
      rcases hE1 : ensure cfg "Compare" "left" v1 n2 with ⟨v2, h1, n3⟩
      rcases hE2 : ensureList cfg "Compare" "comparators" s1 n3 with ⟨s2, h2, n4⟩
      simp only [hE1, hE2] at h; vclose h
      obtain ⟨rfl, rfl, rfl⟩ := h
      obtain ⟨iv, l1⟩ := visitE_ninv cfg N l n v1 d1 n1 hl (fun y hy => hn y (Or.inl hy)) hv
      obtain ⟨is, l2⟩ := visitEs_ninv cfg N rs n1 s1 d2 n2 hrs (fun y hy => hn y (Or.inr hy)) hs
      obtain ⟨ie1, l3⟩ := ensure_ninv (fragOf hl hv) (Nat.le_trans l1 l2) (iv.mono (Nat.le_refl _) l2).names hE1
      obtain ⟨ie2, l4⟩ := ensureList_ninv (fragsOf hrs hs) (by omega) (is.mono l1 l3).names hE2
      refine ⟨⟨?_, ?_⟩, by omega⟩
      · intro y hy
        simp only [namesE, List.mem_append] at hy
        rcases hy with hy | hy
        · exact (ie1.names y hy).mono (Nat.le_refl _) l4
        · exact ie2.names y hy
      · exact (((iv.mono (Nat.le_refl _) (by omega)).vals.append (is.mono l1 (by omega)).vals).append
          (ie1.mono (Nat.le_refl _) l4).vals).append ie2.vals
  | .call i f as ks, n, e', D, n', hf, hn, h => by
      simp only [fragE, Bool.and_eq_true, List.isEmpty_iff] at hf
      obtain ⟨⟨hff, hfa⟩, rfl⟩ := hf
      simp only [namesE, namesEs, List.append_nil, List.mem_append] at hn
      vopen h
      obtain ⟨f1, d1, n1, hv, as1, d2, n2, has, ks1, d3, n3, hks, h⟩ := h
      vclose hks; obtain ⟨rfl, rfl, rfl⟩ := hks
      rcases hE1 : ensure cfg "Call" "func" f1 n2 with ⟨f2, h1, n4⟩
      rcases hE2 : ensureList cfg "Call" "args" as1 n4 with ⟨as2, h2, n5⟩
      simp only [hE1, hE2, ensureList] at h; vclose h
      obtain ⟨rfl, rfl, rfl⟩ := h
      obtain ⟨iv, l1⟩ := visitE_ninv cfg N f n f1 d1 n1 hff (fun y hy => hn y (Or.inl hy)) hv
      obtain ⟨is, l2⟩ := visitEs_ninv cfg N as n1 as1 d2 n2 hfa (fun y hy => hn y (Or.inr hy)) has
      obtain ⟨ie1, l3⟩ := ensure_ninv (fragOf hff hv) (Nat.le_trans l1 l2) (iv.mono (Nat.le_refl _) l2).names hE1
      obtain ⟨ie2, l4⟩ := ensureList_ninv (fragsOf hfa has) (by omega) (is.mono l1 l3).names hE2
      refine ⟨⟨?_, ?_⟩, by omega⟩
      · intro y hy
        simp only [namesE, namesEs, List.append_nil, List.mem_append] at hy
        rcases hy with hy | hy
        · exact (ie1.names y hy).mono (Nat.le_refl _) l4
        · exact ie2.names y hy
      · simpa using (((iv.mono (Nat.le_refl _) (by omega)).vals.append (is.mono l1 (by omega)).vals).append
          (ie1.mono (Nat.le_refl _) l4).vals).append ie2.vals
  | .seq i k es c, n, e', D, n', hf, hn, h => by
      simp only [fragE, Bool.and_eq_true] at hf
      simp only [namesE] at hn
      cases k with
      | set =>
        vopen h
        obtain ⟨vs1, d1, n1, hv, h⟩ := h
        rcases hE : ensureList cfg "Set" "elts" vs1 n1 with ⟨vs2, h1, n2⟩
        simp only [hE] at h; vclose h
        obtain ⟨rfl, rfl, rfl⟩ := h
        obtain ⟨iv, l1⟩ := visitEs_ninv cfg N es n vs1 d1 n1 hf.1 hn hv
        obtain ⟨ie, l2⟩ := ensureList_ninv (fragsOf hf.1 hv) l1 iv.names hE
        exact ⟨⟨fun y hy => ie.names y (by simpa [namesE] using hy), (iv.mono (Nat.le_refl _) l2).vals.append ie.vals⟩, Nat.le_trans l1 l2⟩
      | tuple =>
        vopen h
        obtain ⟨vs1, d1, n1, hv, h⟩ := h
        obtain ⟨iv, l1⟩ := visitEs_ninv cfg N es n vs1 d1 n1 hf.1 hn hv
        split at h
        · vclose h; obtain ⟨rfl, rfl, rfl⟩ := h
          exact ⟨⟨fun y hy => iv.names y (by simpa [namesE] using hy), iv.vals⟩, l1⟩
        · rcases hE : ensureList cfg "Tuple" "elts" vs1 n1 with ⟨vs2, h1, n2⟩
          simp only [hE] at h; vclose h
          obtain ⟨rfl, rfl, rfl⟩ := h
          obtain ⟨ie, l2⟩ := ensureList_ninv (fragsOf hf.1 hv) l1 iv.names hE
          exact ⟨⟨fun y hy => ie.names y (by simpa [namesE] using hy), (iv.mono (Nat.le_refl _) l2).vals.append ie.vals⟩, Nat.le_trans l1 l2⟩
      | list =>
        vopen h
        obtain ⟨vs1, d1, n1, hv, h⟩ := h
        obtain ⟨iv, l1⟩ := visitEs_ninv cfg N es n vs1 d1 n1 hf.1 hn hv
        split at h
        · vclose h; obtain ⟨rfl, rfl, rfl⟩ := h
          exact ⟨⟨fun y hy => iv.names y (by simpa [namesE] using hy), iv.vals⟩, l1⟩
        · rcases hE : ensureList cfg "List" "elts" vs1 n1 with ⟨vs2, h1, n2⟩
          simp only [hE] at h; vclose h
          obtain ⟨rfl, rfl, rfl⟩ := h
          obtain ⟨ie, l2⟩ := ensureList_ninv (fragsOf hf.1 hv) l1 iv.names hE
          exact ⟨⟨fun y hy => ie.names y (by simpa [namesE] using hy), (iv.mono (Nat.le_refl _) l2).vals.append ie.vals⟩, Nat.le_trans l1 l2⟩
  | .namedexpr i (.name j s .store) v, n, e', D, n', hf, hn, h => by
      simp only [fragE] at hf
      simp only [namesE, List.mem_append, List.mem_singleton] at hn
      vopen h
      obtain ⟨t1, d1, n1, ht, v1, d2, n2, hv, h⟩ := h
      vclose ht; obtain ⟨rfl, rfl, rfl⟩ := ht
      vclose h; obtain ⟨rfl, rfl, rfl⟩ := h
      obtain ⟨iv, l1⟩ := visitE_ninv cfg N v _ v1 d2 n2 hf (fun y hy => hn y (Or.inr hy)) hv
      refine ⟨⟨?_, by simpa using iv.vals⟩, l1⟩
      intro y hy
      simp only [namesE, List.mem_append, List.mem_singleton] at hy
      rcases hy with hy | hy
      · exact Or.inl (hn y (Or.inl hy))
      · exact iv.names y hy
  | .namedexpr _ (.name _ _ .load) _, _, _, _, _, hf, _, _ | .namedexpr _ (.name _ _ .del) _, _, _, _, _, hf, _, _
  | .namedexpr _ (.const ..) _, _, _, _, _, hf, _, _ | .namedexpr _ (.attr ..) _, _, _, _, _, hf, _, _
  | .namedexpr _ (.subscript ..) _, _, _, _, _, hf, _, _ | .namedexpr _ (.call ..) _, _, _, _, _, hf, _, _
  | .namedexpr _ (.keyword ..) _, _, _, _, _, hf, _, _ | .namedexpr _ (.boolop ..) _, _, _, _, _, hf, _, _
  | .namedexpr _ (.unary ..) _, _, _, _, _, hf, _, _ | .namedexpr _ (.binop ..) _, _, _, _, _, hf, _, _
  | .namedexpr _ (.compare ..) _, _, _, _, _, hf, _, _ | .namedexpr _ (.ifexp ..) _, _, _, _, _, hf, _, _
  | .namedexpr _ (.lambda ..) _, _, _, _, _, hf, _, _ | .namedexpr _ (.seq ..) _, _, _, _, _, hf, _, _
  | .namedexpr _ (.starred ..) _, _, _, _, _, hf, _, _ | .namedexpr _ (.namedexpr ..) _, _, _, _, _, hf, _, _
  | .namedexpr _ (.comp ..) _, _, _, _, _, hf, _, _ | .namedexpr _ (.comprehension ..) _, _, _, _, _, hf, _, _
  | .namedexpr _ (.arguments ..) _, _, _, _, _, hf, _, _ | .namedexpr _ (.arg ..) _, _, _, _, _, hf, _, _
  | .namedexpr _ (.withitem ..) _, _, _, _, _, hf, _, _ | .namedexpr _ .noneMarker _, _, _, _, _, hf, _, _
  | .namedexpr _ (.other ..) _, _, _, _, _, hf, _, _
  | .keyword .., _, _, _, _, hf, _, _ | .boolop .., _, _, _, _, hf, _, _ | .ifexp .., _, _, _, _, hf, _, _
  | .lambda .., _, _, _, _, hf, _, _ | .starred .., _, _, _, _, hf, _, _ | .comp .., _, _, _, _, hf, _, _
  | .comprehension .., _, _, _, _, hf, _, _ | .arguments .., _, _, _, _, hf, _, _ | .arg .., _, _, _, _, hf, _, _
  | .withitem .., _, _, _, _, hf, _, _ | .noneMarker, _, _, _, _, hf, _, _ | .other .., _, _, _, _, hf, _, _ => by
      notfrag hf
theorem visitEs_ninv (cfg : Config) (N : String → Prop) : ∀ (es : List Expr) (n : Nat) (es' : List Expr) (D : List Stmt)
    (n' : Nat), fragEs es = true → (∀ y ∈ namesEs es, N y) → visitEs cfg es n = .ok (es', D, n') →
    NsInv N n es' D n' ∧ n ≤ n'
  | [], n, es', D, n', _, _, h => by
      vopen h; vclose h; obtain ⟨rfl, rfl, rfl⟩ := h
      exact ⟨⟨by simp [namesEs], ValsP.nil _⟩, Nat.le_refl _⟩
  | e :: es, n, es', D, n', hf, hn, h => by
      simp only [fragEs, Bool.and_eq_true] at hf
      simp only [namesEs, List.mem_append] at hn
      vopen h
      obtain ⟨v1, d1, n1, hv, s1, d2, n2, hs, h⟩ := h
      vclose h; obtain ⟨rfl, rfl, rfl⟩ := h
      obtain ⟨iv, l1⟩ := visitE_ninv cfg N e n v1 d1 n1 hf.1 (fun y hy => hn y (Or.inl hy)) hv
      obtain ⟨is, l2⟩ := visitEs_ninv cfg N es n1 s1 d2 n2 hf.2 (fun y hy => hn y (Or.inr hy)) hs
      refine ⟨⟨?_, (iv.mono (Nat.le_refl _) l2).vals.append (is.mono l1 (Nat.le_refl _)).vals⟩, Nat.le_trans l1 l2⟩
      intro y hy
      simp only [namesEs, List.mem_append] at hy
      rcases hy with hy | hy
      · exact (iv.names y hy).mono (Nat.le_refl _) l2
      · exact (is.names y hy).mono l1 (Nat.le_refl _)
end

end Malt.Anf

namespace Malt.Anf
open Malt.Py Malt.SemAnf

/-! ### what is left in place of a `resPure` expression is pure -/
theorem visitE_kind_frag {cfg : Config} {e : Expr} {n : Nat} {e' : Expr} {D : List Stmt} {n' : Nat}
    (hf : fragE e = true) (h : visitE cfg e n = .ok (e', D, n')) : kindOf e' = kindOf e ∧ isTrivial e' = isTrivial e := by
  cases e with
  | name => vopen h; vclose h; obtain ⟨rfl, -, -⟩ := h; exact ⟨rfl, rfl⟩
  | const => vopen h; vclose h; obtain ⟨rfl, -, -⟩ := h; exact ⟨rfl, rfl⟩
  | attr => vopen h; vclose h; obtain ⟨_, _, _, _, rfl, -, -⟩ := h; exact ⟨rfl, rfl⟩
  | subscript => vopen h; vclose h; obtain ⟨_, _, _, _, _, _, _, _, rfl, -, -⟩ := h; exact ⟨rfl, rfl⟩
  | call => vopen h; vclose h; obtain ⟨_, _, _, _, _, _, _, _, _, _, _, _, rfl, -, -⟩ := h; exact ⟨rfl, rfl⟩
  | unary => vopen h; vclose h; obtain ⟨_, _, _, _, rfl, -, -⟩ := h; exact ⟨rfl, rfl⟩
  | binop =>
    simp only [visitE] at h
    split at h
    · simp at h
    · vopen h; vclose h; obtain ⟨_, _, _, _, _, _, _, _, rfl, -, -⟩ := h; exact ⟨rfl, rfl⟩
  | compare i l ops rs =>
    simp only [visitE] at h
    split at h
    · simp at h
    · vopen h; vclose h; obtain ⟨_, _, _, _, _, _, _, _, rfl, -, -⟩ := h; exact ⟨rfl, rfl⟩
  | seq i k es c =>
    cases k
    · vopen h
      obtain ⟨_, _, _, _, h⟩ := h
      split at h <;> (vclose h; obtain ⟨rfl, -, -⟩ := h; exact ⟨rfl, rfl⟩)
    · vopen h
      obtain ⟨_, _, _, _, h⟩ := h
      split at h <;> (vclose h; obtain ⟨rfl, -, -⟩ := h; exact ⟨rfl, rfl⟩)
    · vopen h; vclose h; obtain ⟨_, _, _, _, rfl, -, -⟩ := h; exact ⟨rfl, rfl⟩
  | namedexpr => vopen h; vclose h; obtain ⟨_, _, _, _, _, _, _, _, rfl, -, -⟩ := h; exact ⟨rfl, rfl⟩
  | _ => simp [fragE] at hf

theorem okChild_visit_frag {cfg : Config} {pk f : String} {e : Expr} {n : Nat} {e' : Expr} {D : List Stmt} {n' : Nat}
    (hf : fragE e = true) (hf' : fragE e' = true) (h : visitE cfg e n = .ok (e', D, n')) :
    okChild cfg pk f e' = okChild cfg pk f e := by
  have hk := visitE_kind_frag hf h
  rw [okChild_plain cfg pk f e' (frag_not_wrapper hf'), okChild_plain cfg pk f e (frag_not_wrapper hf), hk.1, hk.2]

theorem selected_eq_not_okChild (cfg : Config) (pk fld : String) (x : Expr) (hf : fragE x = true) :
    selected cfg pk fld x = !okChild cfg pk fld x := by
  rw [okChild_plain cfg pk fld x (frag_not_wrapper hf)]
  unfold selected
  cases isTrivial x <;> cases shouldTransform cfg pk fld (kindOf x) <;> rfl

theorem ensure_pure {cfg : Config} {pk fld : String} {x : Expr} (n : Nat) (hf : fragE x = true)
    (h : pureE x = true ∨ selected cfg pk fld x = true) : pureE (ensure cfg pk fld x n).1 = true := by
  rcases ensure_frag_cases cfg pk fld x n hf with ⟨h1, hok⟩ | ⟨h1, hok⟩
  · rw [h1]
    rcases h with h | h
    · exact h
    · rw [selected_eq_not_okChild cfg pk fld x hf, hok] at h; simp at h
  · rw [h1]; rfl

theorem selected_visit {cfg : Config} {pk fld : String} {e : Expr} {n : Nat} {e' : Expr} {D : List Stmt} {n' : Nat}
    (hf : fragE e = true) (h : visitE cfg e n = .ok (e', D, n')) : selected cfg pk fld e' = selected cfg pk fld e := by
  have hk := visitE_kind_frag hf h
  unfold selected
  rw [hk.1, hk.2]

theorem ensureList_pure {cfg : Config} {pk fld : String} : ∀ {xs : List Expr} (n : Nat), fragEs xs = true →
    (∀ x ∈ xs, pureE x = true ∨ selected cfg pk fld x = true) → pureEs (ensureList cfg pk fld xs n).1 = true
  | [], n, _, _ => rfl
  | x :: xs, n, hf, h => by
      simp only [fragEs, Bool.and_eq_true] at hf
      simp only [ensureList, pureEs, Bool.and_eq_true]
      exact ⟨ensure_pure n hf.1 (h x (by simp)), ensureList_pure _ hf.2 (fun y hy => h y (by simp [hy]))⟩

mutual
theorem visitE_respure (cfg : Config) : ∀ (e : Expr) (n : Nat) (e' : Expr) (D : List Stmt) (n' : Nat),
    fragE e = true → resPure cfg e = true → visitE cfg e n = .ok (e', D, n') → pureE e' = true
  | .name .., n, e', D, n', _, _, h => by
      vopen h; vclose h; obtain ⟨rfl, rfl, rfl⟩ := h; rfl
  | .const .., n, e', D, n', _, _, h => by
      vopen h; vclose h; obtain ⟨rfl, rfl, rfl⟩ := h; rfl
  | .attr i v a c, n, e', D, n', hf, hr, h => by
      simp only [fragE, Bool.and_eq_true] at hf
      simp only [resPure, Bool.or_eq_true] at hr
      vopen h
      obtain ⟨v1, d1, n1, hv, h⟩ := h
      vclose h; obtain ⟨rfl, rfl, rfl⟩ := h
      simp only [pureE]
      refine ensure_pure n1 (fragOf hf.1 hv) ?_
      rcases hr with hr | hr
      · exact Or.inr ((selected_visit hf.1 hv).trans hr)
      · exact Or.inl (visitE_respure cfg v n v1 d1 n1 hf.1 hr hv)
  | .unary i op v, n, e', D, n', hf, hr, h => by
      simp only [fragE] at hf
      simp only [resPure, Bool.or_eq_true] at hr
      vopen h
      obtain ⟨v1, d1, n1, hv, h⟩ := h
      vclose h; obtain ⟨rfl, rfl, rfl⟩ := h
      simp only [pureE]
      refine ensure_pure n1 (fragOf hf hv) ?_
      rcases hr with hr | hr
      · exact Or.inr ((selected_visit hf hv).trans hr)
      · exact Or.inl (visitE_respure cfg v n v1 d1 n1 hf hr hv)
  | .binop i op l r, n, e', D, n', hf, hr, h => by
      simp only [fragE, Bool.and_eq_true] at hf
      simp only [resPure, Bool.and_eq_true, Bool.or_eq_true] at hr
      simp only [visitE] at h
      split at h
      · simp at h
      vopen h
      obtain ⟨v1, d1, n1, hv, s1, d2, n2, hs, h⟩ := h
      vclose h; obtain ⟨rfl, rfl, rfl⟩ := h
      simp only [pureE, Bool.and_eq_true]
      refine ⟨ensure_pure _ (fragOf hf.1 hv) ?_, ensure_pure _ (fragOf hf.2 hs) ?_⟩
      · rcases hr.1 with hr1 | hr1
        · exact Or.inr ((selected_visit hf.1 hv).trans hr1)
        · exact Or.inl (visitE_respure cfg l n v1 d1 n1 hf.1 hr1 hv)
      · rcases hr.2 with hr2 | hr2
        · exact Or.inr ((selected_visit hf.2 hs).trans hr2)
        · exact Or.inl (visitE_respure cfg r n1 s1 d2 n2 hf.2 hr2 hs)
  | .subscript i v s c, n, e', D, n', hf, hr, h => by
      simp only [fragE, Bool.and_eq_true] at hf
      simp only [resPure, Bool.and_eq_true, Bool.or_eq_true] at hr
      vopen h
      obtain ⟨v1, d1, n1, hv, s1, d2, n2, hs, h⟩ := h
      vclose h; obtain ⟨rfl, rfl, rfl⟩ := h
      simp only [pureE, Bool.and_eq_true]
      refine ⟨ensure_pure _ (fragOf hf.1.1.1 hv) ?_, ensure_pure _ (fragOf hf.1.1.2 hs) ?_⟩
      · rcases hr.1 with hr1 | hr1
        · exact Or.inr ((selected_visit hf.1.1.1 hv).trans hr1)
        · exact Or.inl (visitE_respure cfg v n v1 d1 n1 hf.1.1.1 hr1 hv)
      · rcases hr.2 with hr2 | hr2
        · exact Or.inr ((selected_visit hf.1.1.2 hs).trans hr2)
        · exact Or.inl (visitE_respure cfg s n1 s1 d2 n2 hf.1.1.2 hr2 hs)
  | .compare i l ops rs, n, e', D, n', hf, hr, h => by
      simp only [fragE, Bool.and_eq_true] at hf
      obtain ⟨⟨⟨hl, hrs⟩, hops⟩, hlen⟩ := hf
      simp only [resPure, Bool.and_eq_true, Bool.or_eq_true] at hr
      obtain ⟨⟨⟨hr1, hr2⟩, hr3⟩, hr4⟩ := hr
      simp only [visitE] at h
      split at h
      · simp at h
      vopen h
      obtain ⟨v1, d1, n1, hv, s1, d2, n2, hs, h⟩ := h
      vclose h; obtain ⟨rfl, rfl, rfl⟩ := h
      have hl2 : (ensureList cfg "Compare" "comparators" s1 (ensure cfg "Compare" "left" v1 n2).2.2).1.length = rs.length := by
        rw [ensureList_length, visitEs_length hs]
      simp only [pureE, Bool.and_eq_true]
      refine ⟨⟨⟨ensure_pure _ (fragOf hl hv) ?_, ensureList_pure _ (fragsOf hrs hs) (visitEs_reskids cfg "Compare" "comparators" rs n1 s1 d2 n2 hrs hr2 hs)⟩, ?_⟩, hr4⟩
      · rcases hr1 with hr1 | hr1
        · exact Or.inr ((selected_visit hl hv).trans hr1)
        · exact Or.inl (visitE_respure cfg l n v1 d1 n1 hl hr1 hv)
      · rw [hl2]; exact hr3
  | .seq i k es c, n, e', D, n', hf, hr, h => by
      simp only [fragE, Bool.and_eq_true] at hf
      cases k with
      | set =>
        simp only [resPure, Bool.and_eq_true] at hr
        vopen h
        obtain ⟨vs1, d1, n1, hv, h⟩ := h
        vclose h; obtain ⟨rfl, rfl, rfl⟩ := h
        simp only [pureE]
        exact ensureList_pure _ (fragsOf hf.1 hv) (visitEs_reskids cfg "Set" "elts" es n vs1 d1 n1 hf.1 hr.1 hv)
      | tuple =>
        simp only [resPure, Bool.and_eq_true, bne_iff_ne, ne_eq] at hr
        vopen h
        obtain ⟨vs1, d1, n1, hv, h⟩ := h
        have hcx : (c == Ctx.store) = false := by simpa using hr.1.1
        simp only [hcx, Bool.false_eq_true, if_false] at h
        vclose h; obtain ⟨rfl, rfl, rfl⟩ := h
        simp only [pureE]
        exact ensureList_pure _ (fragsOf hf.1 hv) (visitEs_reskids cfg "Tuple" "elts" es n vs1 d1 n1 hf.1 hr.1.2 hv)
      | list =>
        simp only [resPure, Bool.and_eq_true, bne_iff_ne, ne_eq] at hr
        vopen h
        obtain ⟨vs1, d1, n1, hv, h⟩ := h
        have hcx : (c == Ctx.store) = false := by simpa using hr.1.1
        simp only [hcx, Bool.false_eq_true, if_false] at h
        vclose h; obtain ⟨rfl, rfl, rfl⟩ := h
        simp only [pureE]
        exact ensureList_pure _ (fragsOf hf.1 hv) (visitEs_reskids cfg "List" "elts" es n vs1 d1 n1 hf.1 hr.1.2 hv)
  | .call .., _, _, _, _, _, hr, _ => by simp [resPure] at hr
  | .namedexpr .., _, _, _, _, _, hr, _ => by simp [resPure] at hr
  | .keyword .., _, _, _, _, hf, _, _ | .boolop .., _, _, _, _, hf, _, _ | .ifexp .., _, _, _, _, hf, _, _
  | .lambda .., _, _, _, _, hf, _, _ | .starred .., _, _, _, _, hf, _, _ | .comp .., _, _, _, _, hf, _, _
  | .comprehension .., _, _, _, _, hf, _, _ | .arguments .., _, _, _, _, hf, _, _ | .arg .., _, _, _, _, hf, _, _
  | .withitem .., _, _, _, _, hf, _, _ | .noneMarker, _, _, _, _, hf, _, _ | .other .., _, _, _, _, hf, _, _ => by
      notfrag hf
/-- visited list of `resKids`: each element is pure or will be hoisted -/
theorem visitEs_reskids (cfg : Config) (pk fld : String) : ∀ (es : List Expr) (n : Nat) (es' : List Expr) (D : List Stmt)
    (n' : Nat), fragEs es = true → resKids cfg pk fld es = true → visitEs cfg es n = .ok (es', D, n') →
    ∀ x ∈ es', pureE x = true ∨ selected cfg pk fld x = true
  | [], n, es', D, n', _, _, h => by
      vopen h; vclose h; obtain ⟨rfl, rfl, rfl⟩ := h
      intro x hx; simp at hx
  | e :: es, n, es', D, n', hf, hr, h => by
      simp only [fragEs, Bool.and_eq_true] at hf
      simp only [resKids, Bool.and_eq_true, Bool.or_eq_true] at hr
      vopen h
      obtain ⟨v1, d1, n1, hv, s1, d2, n2, hs, h⟩ := h
      vclose h; obtain ⟨rfl, rfl, rfl⟩ := h
      have ih := visitEs_reskids cfg pk fld es n1 s1 d2 n2 hf.2 hr.2 hs
      intro x hx
      rcases List.mem_cons.mp hx with rfl | hx
      · rcases hr.1 with h1 | h1
        · exact Or.inr ((selected_visit hf.1 hv).trans h1)
        · exact Or.inl (visitE_respure cfg e n _ d1 n1 hf.1 h1 hv)
      · exact ih x hx
end

end Malt.Anf
