import MaltModel.Proofs.C10Result
/-!
C10, part 2: the invariant of the double-checked locking protocol, for histories in which distinct
code objects have distinct values (`ValInj`).  Facts about how each kind of effect changes what
lookups see.
-/
namespace Malt.Cache

section
variable {Opts Factory : Type} [BEq Opts] [Hashable Opts]

theorem ofind_congr {c c' : Code} (h : c.val = c'.val) (m : List (Code × Nat)) : ofind c m = ofind c' m := by
  induction m with
  | nil => rfl
  | cons e r ih => obtain ⟨k, b⟩ := e; simp [ofind, h, ih]

/-! ### Effects on what lookups see -/

theorem bucketAt_create_old {s : State Opts Factory} {t : Tid} {c : Code} {b : Nat} (h : b < s.heap.length) :
    bucketAt (applyEff s t (.create c)) b = bucketAt s b := by
  simp [bucketAt, applyEff, List.getElem?_append_left h]

theorem bucketAt_create_new (s : State Opts Factory) (t : Tid) (c : Code) :
    bucketAt (applyEff s t (.create c)) s.heap.length = [] := by
  simp [bucketAt, applyEff]

theorem bucketAt_store_same {s : State Opts Factory} {t : Tid} {b : Nat} {o : Opts} {f : Factory}
    (h : b < s.heap.length) : bucketAt (applyEff s t (.store b o f)) b = bset o f (bucketAt s b) := by
  have : ∃ e, s.heap[b]? = some e := ⟨s.heap[b], List.getElem?_eq_getElem h⟩
  obtain ⟨e, he⟩ := this
  simp [bucketAt, applyEff, hstore_get, he]

theorem bucketAt_store_other {s : State Opts Factory} {t : Tid} {b b' : Nat} {o : Opts} {f : Factory}
    (h : b' ≠ b) : bucketAt (applyEff s t (.store b o f)) b' = bucketAt s b' := by
  simp [bucketAt, applyEff, hstore_get, h]

theorem heap_length_applyEff (s : State Opts Factory) (t : Tid) (e : Eff Opts Factory) :
    s.heap.length ≤ (applyEff s t e).heap.length := by
  cases e <;> simp [applyEff, hstore_length]

end

section
variable {Opts Factory : Type} [BEq Opts] [Hashable Opts] [LawfulBEq Opts]
variable (T : Code → Opts → Nat → Option Factory) (P : List (Request Opts))

def codes : List Code := P.map (fun r => r.code)

/-- Facts a thread at `pc` (executing request `r`) may rely on. -/
def PcInv (s : State Opts Factory) (r : Request Opts) : Pc Factory → Prop
  | .has2 _ b => ofind r.code s.outer = some b
  | .get1 _ => (table s r.code r.opts).isSome = true
  | .get1c _ => False
  | .get2 _ b => ofind r.code s.outer = some b ∧ (bfind r.opts (bucketAt s b)).isSome = true
  | .xform => table s r.code r.opts = none
  | .st1 _ => table s r.code r.opts = none
  | .st1c _ => ofind r.code s.outer = none
  | .st2 _ b => ofind r.code s.outer = some b ∧ bfind r.opts (bucketAt s b) = none
  | .rel res _ => table s r.code r.opts = res
  | .inst f _ => table s r.code r.opts = some f
  | _ => True

/-- Some thread has run `transform_ast` for `(c, o)` and is about to store the factory. -/
def Storing (s : State Opts Factory) (c : Code) (o : Opts) : Prop :=
  ∃ (t : Tid) (th : Thread Opts Factory) (r : Request Opts) (rest : List (Request Opts)),
    s.threads[t]? = some th ∧ th.todo = r :: rest ∧ r.code = c ∧ r.opts = o ∧
    (∃ f, th.pc = .st1 f ∨ th.pc = .st1c f ∨ ∃ b, th.pc = .st2 f b)

structure Inv (s : State Opts Factory) : Prop where
  todo : ∀ th ∈ s.threads, ∀ r ∈ th.todo, r ∈ P
  idle : ∀ (t : Tid) (th : Thread Opts Factory), s.threads[t]? = some th → th.todo = [] → th.pc = .idle
  keys : ∀ e ∈ s.outer, e.1 ∈ codes P ∧ e.2 < s.heap.length
  lock1 : ∀ (t : Tid) (n : Nat), s.lock = some (t, n) →
            n = 1 ∧ ∃ th, s.threads[t]? = some th ∧ th.pc.locked = true
  lock2 : ∀ (t : Tid) (th : Thread Opts Factory), s.threads[t]? = some th → th.pc.locked = true →
            ∃ n, s.lock = some (t, n)
  pc : ∀ (t : Tid) (th : Thread Opts Factory) (r : Request Opts) (rest : List (Request Opts)),
    s.threads[t]? = some th → th.todo = r :: rest → PcInv s r th.pc
  xl : ∀ e ∈ s.xlog, e.1 ∈ codes P
  once : ∀ (c : Code) (o : Opts), xcount s c o ≤ 1 ∧
    (0 < xcount s c o → (table s c o).isSome = true ∨ Storing s c o ∨ live s c = false)

variable {T P}

theorem mem_codes {r : Request Opts} (h : r ∈ P) : r.code ∈ codes P :=
  List.mem_map.mpr ⟨r, h, rfl⟩

theorem valInj_codes (V : ValInj P) {c c' : Code} (hc : c ∈ codes P) (hc' : c' ∈ codes P)
    (h : c.val = c'.val) : c = c' := by
  obtain ⟨r, hr, rfl⟩ := List.mem_map.mp hc
  obtain ⟨r', hr', rfl⟩ := List.mem_map.mp hc'
  exact V r hr r' hr' h

/-! ### `table` under the three kinds of change of the shared dictionaries -/

/-- Creating the bucket of a code value that has none changes no lookup. -/
theorem table_create {s : State Opts Factory} (hk : ∀ e ∈ s.outer, e.2 < s.heap.length) {t : Tid} {c : Code}
    (hc : ofind c s.outer = none) (c' : Code) (o : Opts) :
    table (applyEff s t (.create c)) c' o = table s c' o := by
  unfold table
  show (match ofind c' (oset c s.heap.length s.outer) with
        | some b => bfind o (bucketAt (applyEff s t (.create c)) b) | none => none) = _
  rw [ofind_oset]
  by_cases hv : c.val = c'.val
  · rw [← ofind_congr hv, hc]
    simp [hv, bucketAt_create_new, bfind]
  · simp only [hv, if_false]
    cases ho : ofind c' s.outer with
    | none => rfl
    | some b =>
      obtain ⟨k, hm, _⟩ := ofind_mem ho
      simp [bucketAt_create_old (hk _ hm)]

theorem ofind_create {s : State Opts Factory} {t : Tid} {c c' : Code} {b : Nat}
    (hc : ofind c s.outer = none) (h : ofind c' s.outer = some b) :
    ofind c' (applyEff s t (.create c)).outer = some b := by
  show ofind c' (oset c s.heap.length s.outer) = some b
  rw [ofind_oset]
  by_cases hv : c.val = c'.val
  · rw [← ofind_congr hv, hc] at h; cases h
  · simp [hv, h]

/-- Storing under a key that is absent from its bucket keeps every lookup that already succeeded,
and every lookup of another key. -/
theorem table_store_some {s : State Opts Factory} {t : Tid} {b : Nat} {o : Opts} {f : Factory}
    (hb : b < s.heap.length) (hnone : bfind o (bucketAt s b) = none) {c' : Code} {o' : Opts} {f' : Factory}
    (h : table s c' o' = some f') : table (applyEff s t (.store b o f)) c' o' = some f' := by
  unfold table at h ⊢
  show (match ofind c' s.outer with
        | some b' => bfind o' (bucketAt (applyEff s t (.store b o f)) b') | none => none) = _
  cases ho : ofind c' s.outer with
  | none => simp [ho] at h
  | some b' =>
    simp only [ho] at h ⊢
    by_cases hbb : b' = b
    · subst hbb
      rw [bucketAt_store_same hb]
      by_cases hoo : o = o'
      · subst hoo; rw [hnone] at h; cases h
      · rw [bfind_bset_ne hoo]; exact h
    · rw [bucketAt_store_other hbb]; exact h

theorem table_store_isSome {s : State Opts Factory} {t : Tid} {b : Nat} {o : Opts} {f : Factory}
    (hb : b < s.heap.length) {c' : Code} {o' : Opts}
    (h : (table s c' o').isSome = true) : (table (applyEff s t (.store b o f)) c' o').isSome = true := by
  unfold table at h ⊢
  show (match ofind c' s.outer with
        | some b' => bfind o' (bucketAt (applyEff s t (.store b o f)) b') | none => none).isSome = _
  cases ho : ofind c' s.outer with
  | none => simp [ho] at h
  | some b' =>
    simp only [ho] at h ⊢
    by_cases hbb : b' = b
    · subst hbb
      rw [bucketAt_store_same hb]
      exact bfind_bset_isSome f h
    · rw [bucketAt_store_other hbb]; exact h

theorem bfind_store_isSome {s : State Opts Factory} {t : Tid} {b b' : Nat} {o o' : Opts} {f : Factory}
    (hb : b < s.heap.length)
    (h : (bfind o' (bucketAt s b')).isSome = true) :
    (bfind o' (bucketAt (applyEff s t (.store b o f)) b')).isSome = true := by
  by_cases hbb : b' = b
  · subst hbb
    rw [bucketAt_store_same hb]
    exact bfind_bset_isSome f h
  · rw [bucketAt_store_other hbb]; exact h

/-- The death of a code object no live function uses changes no lookup of another code object of
the history. -/
theorem ofind_gc (V : ValInj P) {m : List (Code × Nat)} (hk : ∀ e ∈ m, e.1 ∈ codes P)
    {c c' : Code} (hc : c ∈ codes P) (hne : c ≠ c') : ofind c (ogc c' m) = ofind c m := by
  apply ofind_ogc
  intro e he hec hv
  have : e.1 = c := valInj_codes V (hk e he) hc hv
  exact hne (this.symm.trans hec)

end

end Malt.Cache

namespace Malt.Cache

section
variable {Opts Factory : Type} [BEq Opts] [Hashable Opts] [LawfulBEq Opts]
variable {T : Code → Opts → Nat → Option Factory} {P : List (Request Opts)}

/-- `PcInv` only looks at the lookup of the request's own code object and at the heap. -/
theorem PcInv_congr {s s' : State Opts Factory} {r : Request Opts}
    (ho : ofind r.code s'.outer = ofind r.code s.outer) (hh : s'.heap = s.heap) (pc : Pc Factory) :
    PcInv s' r pc ↔ PcInv s r pc := by
  have hb : ∀ b, bucketAt s' b = bucketAt s b := by intro b; simp [bucketAt, hh]
  have ht : ∀ o, table s' r.code o = table s r.code o := by
    intro o; simp [table, ho, hb]
  cases pc <;> simp [PcInv, ho, hb, ht]

/-- What the acting thread does, justified by the invariant. -/
structure ActOK (T : Code → Opts → Nat → Option Factory) (s : State Opts Factory) (t : Tid) (th : Thread Opts Factory) (r : Request Opts)
    (eff : Eff Opts Factory) (nxt : Next Factory) : Prop where
  create : ∀ c, eff = .create c → c = r.code ∧ ofind c s.outer = none ∧ ∃ f, th.pc = .st1c f
  store : ∀ b o f, eff = .store b o f →
    o = r.opts ∧ ofind r.code s.outer = some b ∧ bfind o (bucketAt s b) = none ∧ th.pc = .st2 f b
  logx : ∀ c o, eff = .logx c o → c = r.code ∧ o = r.opts ∧ th.pc = .xform
  acquire : eff = .acquire → th.pc = .acq ∧ s.lock = none
  release : eff = .release → ∃ res own, th.pc = .rel res own
  goto : ∀ pc', nxt = .goto pc' → PcInv (applyEff s t eff) r pc' ∧
    (pc'.locked = true ↔ (eff = .acquire ∨ (th.pc.locked = true ∧ eff ≠ .release)))
  finish : ∀ res, nxt = .finish res →
    ((∃ f, res = some f) ∧ th.pc.locked = false ∧ eff = .nop) ∨
    (res = none ∧ eff = .release ∧ ∃ own, th.pc = .rel none own)
  relnone : ∀ own, nxt = .goto (.rel none own) → th.pc = .xform ∧ T r.code r.opts r.env.sig = none
  blocked : nxt = .blocked → eff = .nop
  st1 : ∀ f, th.pc = .st1 f → eff = .nop ∧ (nxt = .goto (.st1c f) ∨ ∃ b, nxt = .goto (.st2 f b))
  st1c : ∀ f, th.pc = .st1c f → ∃ b, nxt = .goto (.st2 f b)
  xform : th.pc = .xform →
    (∃ f, nxt = .goto (.st1 f) ∧ eff = .logx r.code r.opts) ∨ (nxt = .goto (.rel none false) ∧ eff = .nop)
  st2 : ∀ f b, th.pc = .st2 f b → eff = .store b r.opts f ∧ nxt = .goto (.rel (some f) true)

@[simp] theorem table_logx (s : State Opts Factory) (t : Tid) (c' : Code) (o' : Opts) (c : Code) (o : Opts) :
    table (applyEff s t (.logx c' o')) c o = table s c o := rfl
@[simp] theorem table_release (s : State Opts Factory) (t : Tid) (c : Code) (o : Opts) :
    table (applyEff s t .release) c o = table s c o := rfl
@[simp] theorem table_acquire (s : State Opts Factory) (t : Tid) (c : Code) (o : Opts) :
    table (applyEff s t .acquire) c o = table s c o := rfl
@[simp] theorem table_nop (s : State Opts Factory) (t : Tid) (c : Code) (o : Opts) :
    table (applyEff s t .nop) c o = table s c o := rfl

theorem table_of_ofind {s : State Opts Factory} {c : Code} {b : Nat} (h : ofind c s.outer = some b) (o : Opts) :
    table s c o = bfind o (bucketAt s b) := by
  simp [table, h]

theorem action_Inv {s : State Opts Factory} (inv : Inv P s) {t : Tid} {th : Thread Opts Factory}
    {r : Request Opts} {rest : List (Request Opts)}
    (hth : s.threads[t]? = some th) (htodo : th.todo = r :: rest) :
    ActOK T s t th r (action T s t r th.pc).1 (action T s t r th.pc).2 := by
  have hpc := inv.pc t th r rest hth htodo
  cases hp : th.pc with
  | idle =>
    rw [hp] at hpc
    constructor <;> simp [hp, action, PcInv, Pc.locked, applyEff]
  | has1 lk =>
    simp only [action]
    cases ho : ofind r.code s.outer with
    | none =>
      cases lk <;>
      constructor <;> simp [hp, miss, PcInv, Pc.locked, applyEff, table, ho]
    | some b =>
      cases lk <;>
      constructor <;> simp [hp, PcInv, Pc.locked, applyEff, ho]
  | has2 lk b =>
    rw [hp] at hpc
    simp only [PcInv] at hpc
    simp only [action]
    cases hf : (bfind r.opts (bucketAt s b)).isSome with
    | true =>
      cases lk <;>
      constructor <;> simp [hp, PcInv, Pc.locked, applyEff, table, hpc, hf]
    | false =>
      have hn : bfind r.opts (bucketAt s b) = none := by
        cases hx : bfind r.opts (bucketAt s b) with
        | none => rfl
        | some f => simp [hx] at hf
      cases lk <;>
      constructor <;> simp [hp, miss, PcInv, Pc.locked, applyEff, table, hpc, hn]
  | get1 lk =>
    rw [hp] at hpc
    simp only [PcInv] at hpc
    simp only [action]
    cases ho : ofind r.code s.outer with
    | none => simp [table, ho] at hpc
    | some b =>
      rw [table_of_ofind ho] at hpc
      cases lk <;>
      constructor <;> simp [hp, PcInv, Pc.locked, applyEff, ho, hpc]
  | get1c lk =>
    rw [hp] at hpc
    exact absurd hpc (by simp [PcInv])
  | get2 lk b =>
    rw [hp] at hpc
    simp only [PcInv] at hpc
    obtain ⟨ho, hs⟩ := hpc
    simp only [action]
    cases hf : bfind r.opts (bucketAt s b) with
    | none => simp [hf] at hs
    | some f =>
      cases lk <;>
      constructor <;> simp [hp, PcInv, Pc.locked, applyEff, table, ho, hf]
  | acq =>
    simp only [action]
    cases hl : s.lock with
    | none =>
      constructor <;> simp [hp, PcInv, Pc.locked, applyEff, hl]
    | some hn =>
      obtain ⟨h, n⟩ := hn
      by_cases hh : h = t
      · subst hh
        obtain ⟨_, th', hth', hlk⟩ := inv.lock1 h n hl
        rw [hth] at hth'
        simp only [Option.some.injEq] at hth'
        subst hth'
        rw [hp] at hlk
        simp [Pc.locked] at hlk
      · simp only [hh, if_false]
        constructor <;> simp [hp, PcInv, Pc.locked, applyEff]
  | xform =>
    rw [hp] at hpc
    simp only [PcInv] at hpc
    simp only [action]
    cases hT : T r.code r.opts r.env.sig with
    | none => constructor <;> simp [hp, PcInv, Pc.locked, hpc, hT]
    | some f => constructor <;> simp [hp, PcInv, Pc.locked, hpc, hT]
  | st1 f =>
    rw [hp] at hpc
    simp only [PcInv] at hpc
    simp only [action]
    cases ho : ofind r.code s.outer with
    | none =>
      constructor <;> simp [hp, PcInv, Pc.locked, applyEff, ho]
    | some b =>
      rw [table_of_ofind ho] at hpc
      constructor <;> simp [hp, PcInv, Pc.locked, applyEff, ho, hpc]
  | st1c f =>
    rw [hp] at hpc
    simp only [PcInv] at hpc
    simp only [action]
    constructor <;> simp [hp, PcInv, Pc.locked, hpc]
    · show ofind r.code (oset r.code s.heap.length s.outer) = some s.heap.length ∧
        bfind r.opts (bucketAt (applyEff s t (.create r.code)) s.heap.length) = none
      rw [ofind_oset, bucketAt_create_new]
      simp [bfind]
  | st2 f b =>
    rw [hp] at hpc
    simp only [PcInv] at hpc
    obtain ⟨ho, hn⟩ := hpc
    have hb : b < s.heap.length := by
      obtain ⟨k, hm, _⟩ := ofind_mem ho
      exact (inv.keys _ hm).2
    simp only [action]
    constructor <;> simp [hp, PcInv, Pc.locked, ho, hn]
    · show table (applyEff s t (.store b r.opts f)) r.code r.opts = some f
      have : ofind r.code (applyEff s t (.store b r.opts f)).outer = some b := ho
      rw [table_of_ofind this, bucketAt_store_same hb, bfind_bset_self]
  | rel res own =>
    rw [hp] at hpc
    simp only [PcInv] at hpc
    simp only [action]
    cases res with
    | none => constructor <;> simp [hp, PcInv, Pc.locked, hpc]
    | some f => constructor <;> simp [hp, PcInv, Pc.locked, hpc]
  | inst f own =>
    rw [hp] at hpc
    simp only [action]
    constructor <;> simp [hp, PcInv, Pc.locked, applyEff]

end

end Malt.Cache

namespace Malt.Cache

section
variable {Opts Factory : Type} [BEq Opts] [Hashable Opts] [LawfulBEq Opts]
variable {T : Code → Opts → Nat → Option Factory} {P : List (Request Opts)}

theorem holder_unique {s : State Opts Factory} (inv : Inv P s) {t t' : Tid} {th th' : Thread Opts Factory}
    (h1 : s.threads[t]? = some th) (l1 : th.pc.locked = true)
    (h2 : s.threads[t']? = some th') (l2 : th'.pc.locked = true) : t = t' := by
  obtain ⟨n, hn⟩ := inv.lock2 t th h1 l1
  obtain ⟨n', hn'⟩ := inv.lock2 t' th' h2 l2
  rw [hn] at hn'
  simp at hn'
  exact hn'.1

/-- A thread outside the critical section keeps its facts when the lock holder creates a bucket
or stores a factory (and, trivially, under every other effect). -/
theorem PcInv_other {s : State Opts Factory} (inv : Inv P s) {t : Tid} {th : Thread Opts Factory}
    {r : Request Opts} {eff : Eff Opts Factory} {nxt : Next Factory} (ok : ActOK T s t th r eff nxt)
    {r' : Request Opts} {pc' : Pc Factory}
    (hunl : (∀ c, eff ≠ .create c) ∧ (∀ b o f, eff ≠ .store b o f) ∨ pc'.locked = false)
    (h : PcInv s r' pc') : PcInv (applyEff s t eff) r' pc' := by
  have hkeys : ∀ e ∈ s.outer, e.2 < s.heap.length := fun e he => (inv.keys e he).2
  cases eff with
  | nop => exact h
  | acquire => exact (PcInv_congr (s := s) rfl rfl pc').mpr h
  | release => exact (PcInv_congr (s := s) rfl rfl pc').mpr h
  | logx c o => exact (PcInv_congr (s := s) rfl rfl pc').mpr h
  | create c =>
    obtain ⟨rfl, hnone, _⟩ := ok.create c rfl
    rcases hunl with ⟨h1, _⟩ | hunl
    · exact absurd rfl (h1 _)
    · cases pc' with
      | has2 lk b => exact ofind_create hnone h
      | get1 lk => simp only [PcInv] at h ⊢; rw [table_create hkeys hnone]; exact h
      | get1c lk => exact h
      | get2 lk b =>
        obtain ⟨h1, h2⟩ := h
        refine ⟨ofind_create hnone h1, ?_⟩
        obtain ⟨k, hm, _⟩ := ofind_mem h1
        rw [bucketAt_create_old (hkeys _ hm)]; exact h2
      | inst f own => simp only [PcInv] at h ⊢; rw [table_create hkeys hnone]; exact h
      | idle => trivial
      | has1 lk => trivial
      | acq => trivial
      | xform => simp [Pc.locked] at hunl
      | st1 f => simp [Pc.locked] at hunl
      | st1c f => simp [Pc.locked] at hunl
      | st2 f b => simp [Pc.locked] at hunl
      | rel res own => simp [Pc.locked] at hunl
  | store b o f =>
    obtain ⟨rfl, hsome, hnone, _⟩ := ok.store b o f rfl
    have hb : b < s.heap.length := by
      obtain ⟨k, hm, _⟩ := ofind_mem hsome
      exact hkeys _ hm
    rcases hunl with ⟨_, h2⟩ | hunl
    · exact absurd rfl (h2 _ _ _)
    · cases pc' with
      | has2 lk b' => exact h
      | get1 lk => exact table_store_isSome hb h
      | get1c lk => exact h
      | get2 lk b' => exact ⟨h.1, bfind_store_isSome hb h.2⟩
      | inst f' own => exact table_store_some hb hnone h
      | idle => trivial
      | has1 lk => trivial
      | acq => trivial
      | xform => simp [Pc.locked] at hunl
      | st1 f => simp [Pc.locked] at hunl
      | st1c f => simp [Pc.locked] at hunl
      | st2 f b => simp [Pc.locked] at hunl
      | rel res own => simp [Pc.locked] at hunl

/-- Effects that touch the dictionaries are performed inside the critical section. -/
theorem ActOK.locked_of_write {s : State Opts Factory} {t : Tid} {th : Thread Opts Factory}
    {r : Request Opts} {eff : Eff Opts Factory} {nxt : Next Factory} (ok : ActOK T s t th r eff nxt)
    (h : ¬ ((∀ c, eff ≠ .create c) ∧ (∀ b o f, eff ≠ .store b o f))) : th.pc.locked = true := by
  cases eff with
  | create c => obtain ⟨_, _, f, hf⟩ := ok.create c rfl; simp [hf, Pc.locked]
  | store b o f => obtain ⟨_, _, _, hf⟩ := ok.store b o f rfl; simp [hf, Pc.locked]
  | nop => exact absurd ⟨by simp, by simp⟩ h
  | acquire => exact absurd ⟨by simp, by simp⟩ h
  | release => exact absurd ⟨by simp, by simp⟩ h
  | logx c o => exact absurd ⟨by simp, by simp⟩ h

theorem live_mono {s s' : State Opts Factory}
    (h : ∀ th' ∈ s'.threads, ∃ th ∈ s.threads, ∀ x ∈ th'.todo, x ∈ th.todo) (c : Code)
    (hl : live s c = false) : live s' c = false := by
  cases hx : live s' c with
  | false => rfl
  | true =>
    simp only [live, List.any_eq_true, Thread.needs, decide_eq_true_eq] at hx
    obtain ⟨th', hth', x, hx, hc⟩ := hx
    obtain ⟨th, hth, hsub⟩ := h th' hth'
    have : live s c = true := by
      simp only [live, List.any_eq_true, Thread.needs, decide_eq_true_eq]
      exact ⟨th, hth, x, hsub x hx, hc⟩
    rw [hl] at this; cases this

theorem live_of_needs {s : State Opts Factory} {t : Tid} {th : Thread Opts Factory} {r : Request Opts}
    {rest : List (Request Opts)} (hth : s.threads[t]? = some th) (htodo : th.todo = r :: rest) :
    live s r.code = true := by
  simp only [live, List.any_eq_true, Thread.needs, decide_eq_true_eq]
  exact ⟨th, List.mem_of_getElem? hth, r, by rw [htodo]; exact List.mem_cons_self, rfl⟩

end

end Malt.Cache

namespace Malt.Cache

section
variable {Opts Factory : Type} [BEq Opts] [Hashable Opts] [LawfulBEq Opts]
variable {T : Code → Opts → Nat → Option Factory} {P : List (Request Opts)}

theorem table_isSome_step {s : State Opts Factory} (inv : Inv P s) {t : Tid} {th : Thread Opts Factory}
    {r : Request Opts} {eff : Eff Opts Factory} {nxt : Next Factory} (ok : ActOK T s t th r eff nxt)
    {c : Code} {o : Opts} (h : (table s c o).isSome = true) :
    (table (applyEff s t eff) c o).isSome = true := by
  have hkeys : ∀ e ∈ s.outer, e.2 < s.heap.length := fun e he => (inv.keys e he).2
  cases eff with
  | nop => exact h
  | acquire => exact h
  | release => exact h
  | logx c o => exact h
  | create c' =>
    obtain ⟨_, hnone, _⟩ := ok.create c' rfl
    rw [table_create hkeys hnone]; exact h
  | store b o' f =>
    obtain ⟨_, hsome, _, _⟩ := ok.store b o' f rfl
    obtain ⟨k, hm, _⟩ := ofind_mem hsome
    exact table_store_isSome (hkeys _ hm) h

/-- The state after a step of `t`. -/
abbrev after (s : State Opts Factory) (t : Tid) (th : Thread Opts Factory) (r : Request Opts)
    (eff : Eff Opts Factory) (nxt : Next Factory) : State Opts Factory :=
  { applyEff s t eff with threads := s.threads.set t (applyNext th r nxt) }

theorem after_table (s : State Opts Factory) (t : Tid) (th : Thread Opts Factory) (r : Request Opts)
    (eff : Eff Opts Factory) (nxt : Next Factory) (c : Code) (o : Opts) :
    table (after s t th r eff nxt) c o = table (applyEff s t eff) c o := rfl

theorem after_get_self {s : State Opts Factory} {t : Tid} {th : Thread Opts Factory} (r : Request Opts)
    (eff : Eff Opts Factory) (nxt : Next Factory) (hth : s.threads[t]? = some th) :
    (after s t th r eff nxt).threads[t]? = some (applyNext th r nxt) := by
  simp [threads_set_get hth]

theorem after_get_other {s : State Opts Factory} {t t' : Tid} {th : Thread Opts Factory} (r : Request Opts)
    (eff : Eff Opts Factory) (nxt : Next Factory) (hth : s.threads[t]? = some th) (h : t' ≠ t) :
    (after s t th r eff nxt).threads[t']? = s.threads[t']? := by
  simp [threads_set_get hth, h]

theorem storing_step {s : State Opts Factory} (inv : Inv P s) {t : Tid} {th : Thread Opts Factory}
    {r : Request Opts} {rest : List (Request Opts)} {eff : Eff Opts Factory} {nxt : Next Factory}
    (hth : s.threads[t]? = some th) (htodo : th.todo = r :: rest)
    (ok : ActOK T s t th r eff nxt) {c : Code} {o : Opts} (h : Storing s c o) :
    Storing (after s t th r eff nxt) c o ∨ (table (after s t th r eff nxt) c o).isSome = true := by
  obtain ⟨t2, th2, r2, rest2, hth2, htodo2, hc, ho, f, hpc2⟩ := h
  by_cases htt : t2 = t
  · subst htt
    rw [hth] at hth2
    simp only [Option.some.injEq] at hth2
    subst hth2
    rw [htodo] at htodo2
    simp only [List.cons.injEq] at htodo2
    obtain ⟨rfl, rfl⟩ := htodo2
    subst hc ho
    rcases hpc2 with hpc | hpc | ⟨b, hpc⟩
    · obtain ⟨_, hn⟩ := ok.st1 f hpc
      left
      rcases hn with rfl | ⟨b, rfl⟩
      · exact ⟨t2, _, r, rest, after_get_self r _ _ hth, by simp [applyNext, htodo], rfl, rfl,
          f, Or.inr (Or.inl rfl)⟩
      · exact ⟨t2, _, r, rest, after_get_self r _ _ hth, by simp [applyNext, htodo], rfl, rfl,
          f, Or.inr (Or.inr ⟨b, rfl⟩)⟩
    · obtain ⟨b, rfl⟩ := ok.st1c f hpc
      left
      exact ⟨t2, _, r, rest, after_get_self r _ _ hth, by simp [applyNext, htodo], rfl, rfl,
          f, Or.inr (Or.inr ⟨b, rfl⟩)⟩
    · obtain ⟨rfl, rfl⟩ := ok.st2 f b hpc
      right
      obtain ⟨htab, _⟩ := ok.goto _ rfl
      simp only [PcInv] at htab
      rw [after_table, htab]; rfl
  · left
    refine ⟨t2, th2, r2, rest2, ?_, htodo2, hc, ho, f, hpc2⟩
    rw [after_get_other r _ _ hth htt]; exact hth2

theorem after_todo_sub {s : State Opts Factory} {t : Tid} {th : Thread Opts Factory} {r : Request Opts}
    {eff : Eff Opts Factory} {nxt : Next Factory} (hth : s.threads[t]? = some th) :
    ∀ th' ∈ (after s t th r eff nxt).threads, ∃ th0 ∈ s.threads, ∀ x ∈ th'.todo, x ∈ th0.todo := by
  intro th' hth'
  rcases mem_set_of hth' with h | h
  · exact ⟨th', h, fun x hx => hx⟩
  · subst h
    refine ⟨th, List.mem_of_getElem? hth, ?_⟩
    intro x hx
    cases nxt with
    | goto pc => exact hx
    | finish res => exact List.mem_of_mem_tail hx
    | blocked => exact hx

theorem once_step {s : State Opts Factory} (inv : Inv P s) {t : Tid} {th : Thread Opts Factory}
    {r : Request Opts} {rest : List (Request Opts)} {eff : Eff Opts Factory} {nxt : Next Factory}
    (hth : s.threads[t]? = some th) (htodo : th.todo = r :: rest)
    (ok : ActOK T s t th r eff nxt) (c : Code) (o : Opts) :
    xcount (after s t th r eff nxt) c o ≤ 1 ∧
    (0 < xcount (after s t th r eff nxt) c o →
      (table (after s t th r eff nxt) c o).isSome = true ∨ Storing (after s t th r eff nxt) c o ∨
      live (after s t th r eff nxt) c = false) := by
  obtain ⟨h1, h2⟩ := inv.once c o
  have keep : 0 < xcount s c o →
      (table (after s t th r eff nxt) c o).isSome = true ∨ Storing (after s t th r eff nxt) c o ∨
      live (after s t th r eff nxt) c = false := by
    intro hpos
    rcases h2 hpos with h | h | h
    · left; rw [after_table]; exact table_isSome_step inv ok h
    · rcases storing_step inv hth htodo ok h with h | h
      · exact Or.inr (Or.inl h)
      · exact Or.inl h
    · exact Or.inr (Or.inr (live_mono (after_todo_sub hth) c h))
  by_cases hx : ∃ c1 o1, eff = .logx c1 o1
  · obtain ⟨c1, o1, rfl⟩ := hx
    obtain ⟨rfl, rfl, hpc⟩ := ok.logx c1 o1 rfl
    obtain ⟨f, rfl⟩ : ∃ f, nxt = .goto (.st1 f) := by
      rcases ok.xform hpc with ⟨f, h, _⟩ | ⟨_, h⟩
      · exact ⟨f, h⟩
      · cases h
    have hcount1 : c = r.code → o = r.opts →
        xcount (after s t th r (.logx r.code r.opts) (.goto (.st1 f))) c o = xcount s c o + 1 := by
      rintro rfl rfl
      simp [xcount, after, applyEff, List.filter_append, List.length_append]
    have hcount0 : ¬ (c = r.code ∧ o = r.opts) →
        xcount (after s t th r (.logx r.code r.opts) (.goto (.st1 f))) c o = xcount s c o := by
      intro hne
      simp only [xcount, after, applyEff, List.filter_append, List.length_append]
      by_cases hc : r.code = c
      · have ho : ¬ r.opts = o := fun h => hne ⟨hc.symm, h.symm⟩
        simp [hc, ho]
      · simp [hc]
    by_cases hm : c = r.code ∧ o = r.opts
    · obtain ⟨rfl, rfl⟩ := hm
      have hzero : xcount s r.code r.opts = 0 := by
        rcases Nat.eq_zero_or_pos (xcount s r.code r.opts) with h | hpos
        · exact h
        · exfalso
          rcases h2 hpos with h | h | h
          · have := inv.pc t th r rest hth htodo
            rw [hpc] at this
            simp only [PcInv] at this
            rw [this] at h; cases h
          · obtain ⟨t2, th2, r2, rest2, hth2, htodo2, _, _, f2, hpc2⟩ := h
            have l2 : th2.pc.locked = true := by
              rcases hpc2 with h | h | ⟨b, h⟩ <;> simp [h, Pc.locked]
            have l1 : th.pc.locked = true := by simp [hpc, Pc.locked]
            have := holder_unique inv hth l1 hth2 l2
            subst this
            rw [hth] at hth2
            simp only [Option.some.injEq] at hth2
            subst hth2
            rcases hpc2 with h | h | ⟨b, h⟩ <;> rw [hpc] at h <;> cases h
          · rw [live_of_needs hth htodo] at h; cases h
      rw [hcount1 rfl rfl, hzero]
      refine ⟨by simp, fun _ => Or.inr (Or.inl ?_)⟩
      exact ⟨t, _, r, rest, after_get_self r _ _ hth, by simp [applyNext, htodo], rfl, rfl,
        f, Or.inl rfl⟩
    · rw [hcount0 hm]
      exact ⟨h1, keep⟩
  · have hcount : xcount (after s t th r eff nxt) c o = xcount s c o := by
      cases eff with
      | logx c1 o1 => exact absurd ⟨c1, o1, rfl⟩ hx
      | _ => rfl
    rw [hcount]
    exact ⟨h1, keep⟩

end

end Malt.Cache

namespace Malt.Cache

section
variable {Opts Factory : Type} [BEq Opts] [Hashable Opts] [LawfulBEq Opts]
variable {T : Code → Opts → Nat → Option Factory} {P : List (Request Opts)}

theorem Inv_stepThread {s : State Opts Factory} (inv : Inv P s) (t : Tid) : Inv P (stepThread T s t) := by
  cases hth : s.threads[t]? with
  | none => rw [stepThread_none hth]; exact inv
  | some th =>
    cases htodo : th.todo with
    | nil => rw [stepThread_nil hth htodo]; exact inv
    | cons r rest =>
      rw [stepThread_cons hth htodo]
      have ok := action_Inv (T := T) inv hth htodo
      generalize action T s t r th.pc = a at ok
      obtain ⟨eff, nxt⟩ := a
      simp only at ok
      show Inv P (after s t th r eff nxt)
      have hrP : r ∈ P := inv.todo th (List.mem_of_getElem? hth) r (by rw [htodo]; exact List.mem_cons_self)
      have hsame : ∀ r' rest', (applyNext th r nxt).todo = r' :: rest' → (∃ pc', nxt = .goto pc') ∨ nxt = .blocked →
          r' = r := by
        intro r' rest' h hn
        have : th.todo = r' :: rest' := by
          rcases hn with ⟨pc', rfl⟩ | rfl <;> exact h
        rw [htodo] at this; simp at this; exact this.1.symm
      refine ⟨?_, ?_, ?_, ?_, ?_, ?_, ?_, once_step inv hth htodo ok⟩
      · -- todo
        intro th' hth' r' hr'
        obtain ⟨th0, hth0, hsub⟩ := after_todo_sub (r := r) (eff := eff) (nxt := nxt) hth th' hth'
        exact inv.todo th0 hth0 r' (hsub r' hr')
      · -- idle
        intro t' th' hth' hnil
        by_cases htt : t' = t
        · subst htt
          rw [after_get_self r eff nxt hth] at hth'
          simp only [Option.some.injEq] at hth'
          subst hth'
          cases nxt with
          | goto pc' => simp [applyNext, htodo] at hnil
          | finish res => rfl
          | blocked => simp [applyNext, htodo] at hnil
        · rw [after_get_other r eff nxt hth htt] at hth'
          exact inv.idle t' th' hth' hnil
      · -- keys
        cases eff with
        | create c =>
          obtain ⟨rfl, hnone, _⟩ := ok.create c rfl
          intro e he
          have he' : e ∈ oset r.code s.heap.length s.outer := he
          rw [oset_of_ofind_none _ hnone] at he'
          show e.1 ∈ codes P ∧ e.2 < (s.heap ++ [(r.code.val, [])]).length
          rcases List.mem_append.mp he' with h | h
          · have := inv.keys e h
            exact ⟨this.1, by simp; omega⟩
          · simp only [List.mem_singleton] at h
            subst h
            exact ⟨mem_codes hrP, by simp⟩
        | store b o f =>
          intro e he
          show e.1 ∈ codes P ∧ e.2 < (hstore b o f s.heap).length
          rw [hstore_length]
          exact inv.keys e he
        | nop => exact inv.keys
        | acquire => exact inv.keys
        | release => exact inv.keys
        | logx c o => exact inv.keys
      · -- lock1
        intro t0 n hl
        have keepLock : (applyEff s t eff).lock = s.lock → eff ≠ .release →
            n = 1 ∧ ∃ th0, (after s t th r eff nxt).threads[t0]? = some th0 ∧ th0.pc.locked = true := by
          intro hsame' hnr
          have hl' : s.lock = some (t0, n) := by rw [← hsame']; exact hl
          obtain ⟨hn, th0, hth0, hlk⟩ := inv.lock1 t0 n hl'
          refine ⟨hn, ?_⟩
          by_cases htt : t0 = t
          · subst htt
            rw [hth] at hth0
            simp only [Option.some.injEq] at hth0
            subst hth0
            refine ⟨_, after_get_self r eff nxt hth, ?_⟩
            cases nxt with
            | goto pc' =>
              exact (ok.goto pc' rfl).2.mpr (Or.inr ⟨hlk, hnr⟩)
            | finish res =>
              rcases ok.finish res rfl with ⟨_, h1, _⟩ | ⟨_, h2, _⟩
              · rw [hlk] at h1; cases h1
              · exact absurd h2 hnr
            | blocked => exact hlk
          · exact ⟨th0, by rw [after_get_other r eff nxt hth htt]; exact hth0, hlk⟩
        cases eff with
        | acquire =>
          obtain ⟨hpc, hnone⟩ := ok.acquire rfl
          have hl' : (some (t, 1) : Option (Tid × Nat)) = some (t0, n) := by
            have : (applyEff s t .acquire).lock = some (t0, n) := hl
            simpa [applyEff, hnone] using this
          simp only [Option.some.injEq, Prod.mk.injEq] at hl'
          obtain ⟨rfl, rfl⟩ := hl'
          refine ⟨rfl, _, after_get_self r _ nxt hth, ?_⟩
          cases nxt with
          | goto pc' => exact (ok.goto pc' rfl).2.mpr (Or.inl rfl)
          | finish res =>
            rcases ok.finish res rfl with ⟨_, _, h1⟩ | ⟨_, h2, _⟩
            · cases h1
            · cases h2
          | blocked => have := ok.blocked rfl; cases this
        | release =>
          obtain ⟨res, own, hpc⟩ := ok.release rfl
          obtain ⟨n0, hn0⟩ := inv.lock2 t th hth (by simp [hpc, Pc.locked])
          obtain ⟨rfl, _⟩ := inv.lock1 t n0 hn0
          have : (applyEff s t .release).lock = some (t0, n) := hl
          simp [applyEff, hn0] at this
        | nop => exact keepLock rfl (by simp)
        | create c => exact keepLock rfl (by simp)
        | store b o f => exact keepLock rfl (by simp)
        | logx c o => exact keepLock rfl (by simp)
      · -- lock2
        intro t' th' hth' hlk'
        by_cases htt : t' = t
        · subst htt
          rw [after_get_self r eff nxt hth] at hth'
          simp only [Option.some.injEq] at hth'
          subst hth'
          cases nxt with
          | goto pc' =>
            rcases (ok.goto pc' rfl).2.mp hlk' with rfl | ⟨hl, hnr⟩
            · obtain ⟨_, hnone⟩ := ok.acquire rfl
              exact ⟨1, by show (applyEff s t' .acquire).lock = _; simp [applyEff, hnone]⟩
            · obtain ⟨n, hn⟩ := inv.lock2 t' th hth hl
              cases eff with
              | acquire => obtain ⟨_, hnone⟩ := ok.acquire rfl; rw [hnone] at hn; cases hn
              | release => exact absurd rfl hnr
              | nop => exact ⟨n, hn⟩
              | create c => exact ⟨n, hn⟩
              | store b o f => exact ⟨n, hn⟩
              | logx c o => exact ⟨n, hn⟩
          | finish res => simp [applyNext, Pc.locked] at hlk'
          | blocked =>
            have := ok.blocked rfl
            subst this
            exact inv.lock2 t' th hth hlk'
        · rw [after_get_other r eff nxt hth htt] at hth'
          obtain ⟨n, hn⟩ := inv.lock2 t' th' hth' hlk'
          cases eff with
          | acquire => obtain ⟨_, hnone⟩ := ok.acquire rfl; rw [hnone] at hn; cases hn
          | release =>
            obtain ⟨res, own, hpc⟩ := ok.release rfl
            have := holder_unique inv hth (by simp [hpc, Pc.locked]) hth' hlk'
            exact absurd this.symm htt
          | nop => exact ⟨n, hn⟩
          | create c => exact ⟨n, hn⟩
          | store b o f => exact ⟨n, hn⟩
          | logx c o => exact ⟨n, hn⟩
      · -- pc
        intro t' th' r' rest' hth' htodo'
        by_cases htt : t' = t
        · subst htt
          rw [after_get_self r eff nxt hth] at hth'
          simp only [Option.some.injEq] at hth'
          subst hth'
          cases nxt with
          | goto pc' =>
            have := hsame r' rest' htodo' (Or.inl ⟨pc', rfl⟩)
            subst this
            exact (ok.goto pc' rfl).1
          | finish res => simp [applyNext, PcInv]
          | blocked =>
            have := hsame r' rest' htodo' (Or.inr rfl)
            subst this
            have h := ok.blocked rfl
            subst h
            exact inv.pc t' th r' rest hth htodo
        · rw [after_get_other r eff nxt hth htt] at hth'
          have hold := inv.pc t' th' r' rest' hth' htodo'
          show PcInv (applyEff s t eff) r' th'.pc
          apply PcInv_other inv ok _ hold
          by_cases hw : (∀ c, eff ≠ .create c) ∧ (∀ b o f, eff ≠ .store b o f)
          · exact Or.inl hw
          · right
            have l1 := ok.locked_of_write hw
            cases hl' : th'.pc.locked with
            | false => rfl
            | true => exact absurd (holder_unique inv hth l1 hth' hl').symm htt
      · -- xl
        intro e he
        cases eff with
        | logx c o =>
          obtain ⟨rfl, rfl, _⟩ := ok.logx c o rfl
          have : e ∈ s.xlog ++ [(r.code, r.opts)] := he
          rcases List.mem_append.mp this with h | h
          · exact inv.xl e h
          · simp only [List.mem_singleton] at h
            subst h
            exact mem_codes hrP
        | nop => exact inv.xl e he
        | acquire => exact inv.xl e he
        | release => exact inv.xl e he
        | create c => exact inv.xl e he
        | store b o f => exact inv.xl e he

theorem isIdle_eq {pc : Pc Factory} (h : pc.isIdle = true) : pc = .idle := by
  cases pc <;> simp [Pc.isIdle] at h <;> rfl

theorem ogc_eq_self {c' : Code} {m : List (Code × Nat)} (h : ∀ e ∈ m, e.1 ≠ c') : ogc c' m = m := by
  unfold ogc
  apply List.filter_eq_self.mpr
  intro e he
  simpa using h e he

/-- One step preserves the invariant, provided the step is safe (`StepSafe`: only a `gc` step can be
unsafe — when the entry that dies is shared with an equal-valued distinct code object in use). -/
theorem Inv_step {s : State Opts Factory} (inv : Inv P s) (l : Label) (hs : StepSafe s l) :
    Inv P (step T s l) := by
  cases l with
  | thr t => exact Inv_stepThread inv t
  | gc c' =>
    simp only [step]
    split
    · exact inv
    · rename_i hnl
      have hnl' : live s c' = false := by
        simpa [live] using hnl
      have hsafe : GcSafe s c' := by
        rcases hs with h | h
        · rw [hnl'] at h; cases h
        · exact h
      rcases hsafe with hnokey | hsafe
      · -- no entry hangs on c': nothing changes
        rw [ogc_eq_self hnokey]
        exact inv
      have hof : ∀ c, c.val ≠ c'.val → ofind c (ogc c' s.outer) = ofind c s.outer := by
        intro c hv
        apply ofind_ogc
        intro e _ hec
        rw [hec]; exact fun h => hv h.symm
      have htab : ∀ c o, c.val ≠ c'.val →
          table ({ s with outer := ogc c' s.outer } : State Opts Factory) c o = table s c o := by
        intro c o hv
        simp only [table, hof c hv]
        rfl
      refine ⟨inv.todo, inv.idle, ?_, inv.lock1, inv.lock2, ?_, inv.xl, ?_⟩
      · intro e he
        exact inv.keys e (mem_ogc.mp he).1
      · intro t th r rest hth htodo
        have hth0 : s.threads[t]? = some th := hth
        have hne : r.code ≠ c' := by
          intro h
          have := live_of_needs hth0 htodo
          rw [h, hnl'] at this; cases this
        have hsth := (hsafe th (List.mem_of_getElem? hth0)).1
        rw [htodo] at hsth
        by_cases hv : r.code.val = c'.val
        · cases hidle : th.pc.isIdle with
          | true => rw [isIdle_eq hidle]; simp [PcInv]
          | false => exact absurd (hsth hidle hv) hne
        · exact (PcInv_congr (s := s) (s' := { s with outer := ogc c' s.outer })
            (hof r.code hv) rfl th.pc).mpr (inv.pc t th r rest hth htodo)
      · intro c o
        obtain ⟨h1, h2⟩ := inv.once c o
        refine ⟨h1, fun hpos => ?_⟩
        by_cases hc : c = c'
        · subst hc; exact Or.inr (Or.inr hnl')
        · cases hlive : live s c with
          | false => exact Or.inr (Or.inr hlive)
          | true =>
            have hv : c.val ≠ c'.val := by
              intro hv
              simp only [live, List.any_eq_true, Thread.needs, decide_eq_true_eq] at hlive
              obtain ⟨th, hth, r, hr, hrc⟩ := hlive
              have hpos' : 0 < xcount s c o := hpos
              simp only [xcount, List.length_pos_iff_exists_mem, List.mem_filter, Bool.and_eq_true,
                decide_eq_true_eq] at hpos'
              obtain ⟨e, he, hec, _⟩ := hpos'
              exact (hsafe th hth).2 r hr (by rw [hrc]; exact hv) (by rw [hrc]; exact hc) e he (by rw [hrc]; exact hec)
            rcases h2 hpos with h | h | h
            · left; rw [htab c o hv]; exact h
            · exact Or.inr (Or.inl h)
            · exact Or.inr (Or.inr h)

/-- `ValInj` makes every step safe. -/
theorem stepSafe_of_valInj (V : ValInj P) {s : State Opts Factory} (inv : Inv P s) (l : Label) :
    StepSafe s l := by
  cases l with
  | thr t => trivial
  | gc c' =>
    right
    by_cases hk : ∀ e ∈ s.outer, e.1 ≠ c'
    · exact Or.inl hk
    · right
      have hc' : c' ∈ codes P := by
        have : ∃ e ∈ s.outer, e.1 = c' := by
          apply Classical.byContradiction
          intro h
          exact hk (fun e he hec => h ⟨e, he, hec⟩)
        obtain ⟨e, he, hec⟩ := this
        rw [← hec]; exact (inv.keys e he).1
      intro th hth
      have hcode : ∀ r ∈ th.todo, r.code.val = c'.val → r.code = c' := by
        intro r hr hv
        exact valInj_codes V (mem_codes (inv.todo th hth r hr)) hc' hv
      constructor
      · cases htodo : th.todo with
        | nil => trivial
        | cons r rest =>
          intro _ hv
          exact hcode r (by rw [htodo]; exact List.mem_cons_self) hv
      · intro r hr hv hne
        exact absurd (hcode r hr hv) hne

theorem Inv_init (progs : List (List (Request Opts))) (hP : ∀ p ∈ progs, ∀ r ∈ p, r ∈ P) :
    Inv P (init progs : State Opts Factory) := by
  refine ⟨?_, ?_, ?_, ?_, ?_, ?_, ?_, ?_⟩
  · intro th hth r hr
    simp only [init, List.mem_map] at hth
    obtain ⟨p, hp, rfl⟩ := hth
    exact hP p hp r hr
  · intro t th hth _
    simp only [init, List.getElem?_map, Option.map_eq_some_iff] at hth
    obtain ⟨p, _, rfl⟩ := hth
    rfl
  · intro e he; simp [init] at he
  · intro t n h; simp [init] at h
  · intro t th hth hl
    simp only [init, List.getElem?_map, Option.map_eq_some_iff] at hth
    obtain ⟨p, _, rfl⟩ := hth
    simp [Pc.locked] at hl
  · intro t th r rest hth htodo
    simp only [init, List.getElem?_map, Option.map_eq_some_iff] at hth
    obtain ⟨p, _, rfl⟩ := hth
    simp [PcInv]
  · intro e he; simp [init] at he
  · intro c o; simp [xcount, init]

theorem Inv_run {s : State Opts Factory} (inv : Inv P s) (sched : List Label) (hs : SchedSafe T s sched) :
    Inv P (run T s sched) := by
  induction sched generalizing s with
  | nil => exact inv
  | cons l ls ih => exact ih (Inv_step inv l hs.1) hs.2

/-- `ValInj` makes every schedule safe. -/
theorem schedSafe_of_valInj (V : ValInj P) {s : State Opts Factory} (inv : Inv P s) (sched : List Label) :
    SchedSafe T s sched := by
  induction sched generalizing s with
  | nil => trivial
  | cons l ls ih =>
    have hl := stepSafe_of_valInj V inv l
    exact ⟨hl, ih (Inv_step inv l hl)⟩

end

end Malt.Cache

namespace Malt.Cache

section
variable {Opts Factory : Type} [BEq Opts] [Hashable Opts] [LawfulBEq Opts]
variable {T : Code → Opts → Nat → Option Factory} {P : List (Request Opts)}

/-- A finished request that raised is one whose own conversion raised (never a `KeyError` from the
cache); a thread that leaves the critical section with an error is in that situation. -/
def ErrInv (T : Code → Opts → Nat → Option Factory) (s : State Opts Factory) : Prop :=
  (∀ th ∈ s.threads, ∀ e ∈ th.results, e.2 = none → T e.1.code e.1.opts e.1.env.sig = none) ∧
  (∀ (t : Tid) (th : Thread Opts Factory) (r : Request Opts) (rest : List (Request Opts)),
    s.threads[t]? = some th → th.todo = r :: rest → ∀ own, th.pc = .rel none own →
      T r.code r.opts r.env.sig = none)

theorem ErrInv_step {s : State Opts Factory} (inv : Inv P s) (h : ErrInv T s) (l : Label) :
    ErrInv T (step T s l) := by
  cases l with
  | gc c => simp only [step]; split <;> exact h
  | thr t =>
    show ErrInv T (stepThread T s t)
    cases hth : s.threads[t]? with
    | none => rw [stepThread_none hth]; exact h
    | some th =>
      cases htodo : th.todo with
      | nil => rw [stepThread_nil hth htodo]; exact h
      | cons r rest =>
        rw [stepThread_cons hth htodo]
        have ok := action_Inv (T := T) inv hth htodo
        generalize action T s t r th.pc = a at ok
        obtain ⟨eff, nxt⟩ := a
        simp only at ok
        constructor
        · intro th' hth' e he hnone
          rcases mem_set_of hth' with hm | hm
          · exact h.1 th' hm e he hnone
          · subst hm
            have hold := h.1 th (List.mem_of_getElem? hth)
            cases nxt with
            | goto pc => exact hold e he hnone
            | blocked => exact hold e he hnone
            | finish res =>
              simp only [applyNext, List.mem_append, List.mem_singleton] at he
              rcases he with he | rfl
              · exact hold e he hnone
              · simp only at hnone
                rcases ok.finish res rfl with ⟨⟨f, hf⟩, _⟩ | ⟨_, _, own, hpc⟩
                · rw [hf] at hnone; cases hnone
                · exact h.2 t th r rest hth htodo own hpc
        · intro t' th' r' rest' hth' htodo' own hpc'
          simp only at hth'
          rw [threads_set_get hth] at hth'
          by_cases htt : t' = t
          · simp only [htt, if_true, Option.some.injEq] at hth'
            subst hth'
            cases nxt with
            | goto pc' =>
              have hr : r' = r := by
                have : th.todo = r' :: rest' := htodo'
                rw [htodo] at this; simp at this; exact this.1.symm
              subst hr
              have hpc2 : pc' = .rel none own := hpc'
              subst hpc2
              exact (ok.relnone own rfl).2
            | finish res => simp [applyNext] at hpc'
            | blocked =>
              have hr : r' = r := by
                have : th.todo = r' :: rest' := htodo'
                rw [htodo] at this; simp at this; exact this.1.symm
              subst hr
              exact h.2 t th r' rest hth htodo own hpc'
          · simp only [htt, if_false] at hth'
            exact h.2 t' th' r' rest' hth' htodo' own hpc'

theorem ErrInv_init (progs : List (List (Request Opts))) : ErrInv T (init progs : State Opts Factory) := by
  constructor
  · intro th hth e he
    simp only [init, List.mem_map] at hth
    obtain ⟨p, _, rfl⟩ := hth
    simp at he
  · intro t th r rest hth _ own hpc
    simp only [init, List.getElem?_map, Option.map_eq_some_iff] at hth
    obtain ⟨p, _, rfl⟩ := hth
    simp at hpc

theorem ErrInv_run {s : State Opts Factory} (inv : Inv P s) (h : ErrInv T s) (sched : List Label)
    (hs : SchedSafe T s sched) : ErrInv T (run T s sched) := by
  induction sched generalizing s with
  | nil => exact h
  | cons l ls ih => exact ih (Inv_step inv l hs.1) (ErrInv_step inv h l) hs.2

end

end Malt.Cache
