import MaltModel.Proofs.C18Sem3
/- C18, semantics part 4: the operands of one node. -/
set_option linter.unusedSimpArgs false
namespace Malt.Anf
open Malt.Py Malt.SemAnf

mutual
theorem writes_sub_names : ∀ (e : Expr) (y : String), y ∈ writesE e → y ∈ namesE e
  | .namedexpr _ t v, y, h => by
      simp only [writesE, namesE, List.mem_append] at h ⊢
      rcases h with h | h
      · exact Or.inl h
      · exact Or.inr (writes_sub_names v y h)
  | .attr _ v _ _, y, h => by simp only [writesE, namesE] at h ⊢; exact writes_sub_names v y h
  | .subscript _ v s _, y, h => by
      simp only [writesE, namesE, List.mem_append] at h ⊢
      rcases h with h | h
      · exact Or.inl (writes_sub_names v y h)
      · exact Or.inr (writes_sub_names s y h)
  | .call _ f as ks, y, h => by
      simp only [writesE, namesE, List.mem_append] at h ⊢
      rcases h with (h | h) | h
      · exact Or.inl (Or.inl (writes_sub_names f y h))
      · exact Or.inl (Or.inr (writess_sub_names as y h))
      · exact Or.inr (writess_sub_names ks y h)
  | .keyword _ _ _ v, y, h => by simp only [writesE, namesE] at h ⊢; exact writes_sub_names v y h
  | .boolop _ _ vs, y, h => by simp only [writesE, namesE] at h ⊢; exact writess_sub_names vs y h
  | .unary _ _ e, y, h => by simp only [writesE, namesE] at h ⊢; exact writes_sub_names e y h
  | .binop _ _ l r, y, h => by
      simp only [writesE, namesE, List.mem_append] at h ⊢
      rcases h with h | h
      · exact Or.inl (writes_sub_names l y h)
      · exact Or.inr (writes_sub_names r y h)
  | .compare _ l _ rs, y, h => by
      simp only [writesE, namesE, List.mem_append] at h ⊢
      rcases h with h | h
      · exact Or.inl (writes_sub_names l y h)
      · exact Or.inr (writess_sub_names rs y h)
  | .ifexp _ t b e, y, h => by
      simp only [writesE, namesE, List.mem_append] at h ⊢
      rcases h with (h | h) | h
      · exact Or.inl (Or.inl (writes_sub_names t y h))
      · exact Or.inl (Or.inr (writes_sub_names b y h))
      · exact Or.inr (writes_sub_names e y h)
  | .seq _ _ es _, y, h => by simp only [writesE, namesE] at h ⊢; exact writess_sub_names es y h
  | .starred _ v _, y, h => by simp only [writesE, namesE] at h ⊢; exact writes_sub_names v y h
  | .withitem _ c v, y, h => by
      simp only [writesE, namesE, List.mem_append] at h ⊢
      rcases h with h | h
      · exact Or.inl (writes_sub_names c y h)
      · exact Or.inr (writess_sub_names v y h)
  | .other _ _ _ ks, y, h => by simp only [writesE, namesE] at h ⊢; exact writess_sub_names ks y h
  | .name .., y, h => by simp [writesE] at h
  | .const .., y, h => by simp [writesE] at h
  | .noneMarker, y, h => by simp [writesE] at h
  | .lambda .., y, h => by simp [writesE] at h
  | .comp .., y, h => by simp [writesE] at h
  | .comprehension .., y, h => by simp [writesE] at h
  | .arguments .., y, h => by simp [writesE] at h
  | .arg .., y, h => by simp [writesE] at h
theorem writess_sub_names : ∀ (es : List Expr) (y : String), y ∈ writesEs es → y ∈ namesEs es
  | [], y, h => by simp [writesEs] at h
  | e :: es, y, h => by
      simp only [writesEs, namesEs, List.mem_append] at h ⊢
      rcases h with h | h
      · exact Or.inl (writes_sub_names e y h)
      · exact Or.inr (writess_sub_names es y h)
end

theorem visitE_kind_frag {cfg : Config} {e : Expr} {n : Nat} {e' : Expr} {D : List Stmt} {n' : Nat}
    (hf : fragE e = true) (h : visitE cfg e n = .ok (e', D, n')) : kindOf e' = kindOf e ∧ isTrivial e' = isTrivial e := by
  cases e with
  | name => vopen h; vclose h; obtain ⟨rfl, -, -⟩ := h; exact ⟨rfl, rfl⟩
  | const => vopen h; vclose h; obtain ⟨rfl, -, -⟩ := h; exact ⟨rfl, rfl⟩
  | attr => vopen h; vclose h; obtain ⟨_, _, _, _, rfl, -, -⟩ := h; exact ⟨rfl, rfl⟩
  | subscript => vopen h; vclose h; obtain ⟨_, _, _, _, _, _, _, _, rfl, -, -⟩ := h; exact ⟨rfl, rfl⟩
  | call => vopen h; vclose h; obtain ⟨_, _, _, _, _, _, _, _, _, _, _, _, rfl, -, -⟩ := h; exact ⟨rfl, rfl⟩
  | unary => vopen h; vclose h; obtain ⟨_, _, _, _, rfl, -, -⟩ := h; exact ⟨rfl, rfl⟩
  | binop =>
    simp only [visitE] at h
    split at h
    · simp at h
    · vopen h; vclose h; obtain ⟨_, _, _, _, _, _, _, _, rfl, -, -⟩ := h; exact ⟨rfl, rfl⟩
  | compare i l ops rs =>
    simp only [visitE] at h
    split at h
    · simp at h
    · vopen h; vclose h; obtain ⟨_, _, _, _, _, _, _, _, rfl, -, -⟩ := h; exact ⟨rfl, rfl⟩
  | seq i k es c =>
    cases k
    · vopen h
      obtain ⟨_, _, _, _, h⟩ := h
      split at h <;> (vclose h; obtain ⟨rfl, -, -⟩ := h; exact ⟨rfl, rfl⟩)
    · vopen h
      obtain ⟨_, _, _, _, h⟩ := h
      split at h <;> (vclose h; obtain ⟨rfl, -, -⟩ := h; exact ⟨rfl, rfl⟩)
    · vopen h; vclose h; obtain ⟨_, _, _, _, rfl, -, -⟩ := h; exact ⟨rfl, rfl⟩
  | namedexpr => vopen h; vclose h; obtain ⟨_, _, _, _, _, _, _, _, rfl, -, -⟩ := h; exact ⟨rfl, rfl⟩
  | _ => simp [fragE] at hf

theorem okChild_visit_frag {cfg : Config} {pk f : String} {e : Expr} {n : Nat} {e' : Expr} {D : List Stmt} {n' : Nat}
    (hf : fragE e = true) (hf' : fragE e' = true) (h : visitE cfg e n = .ok (e', D, n')) :
    okChild cfg pk f e' = okChild cfg pk f e := by
  have hk := visitE_kind_frag hf h
  rw [okChild_plain cfg pk f e' (frag_not_wrapper hf'), okChild_plain cfg pk f e (frag_not_wrapper hf), hk.1, hk.2]

/-- what the induction provides for one operand -/
def SimHyp (O : Oracle) (cfg : Config) (c : Expr) : Prop :=
  ∀ n c' d n', visitE cfg c n = .ok (c', d, n') → SimE O c c' d

theorem simL_nil (O : Oracle) : SimL O [] [] [] := by
  intro σ σ' hA
  simp only [execB, evalOpts]
  exact ⟨trivial, hA⟩

theorem disjoint_spec {a b : List String} (h : disjoint a b = true) : ∀ x ∈ a, x ∉ b := by
  intro x hx hb
  simp only [disjoint, List.all_eq_true] at h
  have := h x hx
  simp [hb] at this

theorem quiets_map_snd {cfg : Config} {pk : String} {hi : Bool} : ∀ {fks : List (String × Expr)},
    fks.all (notMoved cfg pk hi) = true → quiets cfg (fks.map (·.2)) = true
  | [], _ => rfl
  | p :: fks, h => by
      simp only [List.all_cons, Bool.and_eq_true, notMoved] at h
      simp [quiets, h.1.1, quiets_map_snd h.2]

theorem zip_map_fst_snd {α β : Type} : ∀ (l : List (α × β)), (l.map (·.1)).zip (l.map (·.2)) = l
  | [] => rfl
  | p :: l => by simp [zip_map_fst_snd l]

theorem simKids (O : Oracle) (cfg : Config) (pk : String) : ∀ (fks : List (String × Expr)) (n : Nat) (ks1 : List Expr)
    (D : List Stmt) (n1 m : Nat) (ks2 : List Expr) (H : List Stmt) (n2 : Nat),
    fragEs (fks.map (·.2)) = true →
    (∀ y ∈ namesEs (fks.map (·.2)), isTempName y = false) →
    pairsOkT cfg pk fks = true →
    (∀ p ∈ fks, SimHyp O cfg p.2) →
    visitEs cfg (fks.map (·.2)) n = .ok (ks1, D, n1) → n1 ≤ m →
    ensureFs cfg pk (fks.map (·.1)) ks1 m = (ks2, H, n2) →
    SimL O (fks.map (·.2)) ks2 (D ++ H)
  | [], n, ks1, D, n1, m, ks2, H, n2, _, _, _, _, hv, _, he => by
      simp only [List.map_nil, visitEs, Except.ok.injEq, Prod.mk.injEq] at hv
      obtain ⟨rfl, rfl, rfl⟩ := hv
      simp only [List.map_nil, ensureFs, Prod.mk.injEq] at he
      obtain ⟨rfl, rfl, rfl⟩ := he
      exact simL_nil O
  | (f, c) :: rest, n, ks1, D, n1, m, ks2, H, n2, hfr, hnt, hpo, hih, hv, hle, he => by
      simp only [List.map_cons, fragEs, Bool.and_eq_true] at hfr
      simp only [List.map_cons, namesEs, List.mem_append] at hnt
      simp only [pairsOkT, Bool.and_eq_true] at hpo
      simp only [List.map_cons, visitEs, bind_ok, Prod.exists, pure, Except.pure, Except.ok.injEq, Prod.mk.injEq] at hv
      obtain ⟨c1, d1, k1, hvc, r1, d2, n1', hvr, rfl, rfl, rfl⟩ := hv
      simp only [List.map_cons, ensureFs] at he
      rcases hE1 : ensure cfg pk f c1 m with ⟨c2, h1, m1⟩
      rcases hE2 : ensureFs cfg pk (rest.map (·.1)) r1 m1 with ⟨r2, h2, n2'⟩
      simp only [hE1, hE2, Prod.mk.injEq] at he
      obtain ⟨rfl, rfl, rfl⟩ := he
      have hc : SimE O c c1 d1 := hih (f, c) (by simp) _ _ _ _ hvc
      have hihr : ∀ p ∈ rest, SimHyp O cfg p.2 := fun p hp => hih p (by simp [hp])
      have hntr : ∀ y ∈ namesEs (rest.map (·.2)), isTempName y = false := fun y hy => hnt y (Or.inr hy)
      -- structure of the pieces
      have fc := visitE_finv cfg (fun y => y ∈ writesE c) c n c1 d1 k1 hfr.1 (fun y hy => hy) hvc
      have fr := visitEs_finv cfg (fun y => y ∈ writesEs (rest.map (·.2))) _ _ r1 d2 _ hfr.2 (fun y hy => hy) hvr
      have hk1 := fc.hoists.le
      have hn1 := fr.hoists.le
      have wnt : ∀ y, y ∈ writesEs (rest.map (·.2)) → isTempName y = false :=
        fun y hy => hntr y (writess_sub_names _ y hy)
      have hokc : okChild cfg pk f c1 = okChild cfg pk f c := okChild_visit_frag hfr.1 fc.frag hvc
      rcases Bool.or_eq_true _ _ |>.mp hpo.1 with hA | hB
      · -- (A) no later operand is overtaken
        have hq := quiets_map_snd hA
        obtain ⟨rfl, rfl, rfl⟩ := revisits hq hvr
        rcases ensure_frag_cases cfg pk f c1 m fc.frag with ⟨hk, hok⟩ | ⟨hk, hok⟩
        · -- the operand stays: then no later operand is hoisted either
          rw [hk] at hE1; simp only [Prod.mk.injEq] at hE1; obtain ⟨rfl, rfl, rfl⟩ := hE1
          have hallok : ∀ p ∈ (rest.map (·.1)).zip (rest.map (·.2)), okChild cfg pk p.1 p.2 = true := by
            rw [zip_map_fst_snd]
            intro p hp
            have := List.all_eq_true.mp hA p hp
            simp only [notMoved, Bool.and_eq_true, Bool.or_eq_true] at this
            rcases this.2 with h | h
            · exact h
            · rw [← hokc, hok] at h; simp at h
          have hid := ensureFs_ok cfg pk (rest.map (·.1)) (rest.map (·.2)) m (by simp) hallok
          rw [hid] at hE2; simp only [Prod.mk.injEq] at hE2; obtain ⟨rfl, rfl, rfl⟩ := hE2
          have ihr := simKids O cfg pk rest _ _ [] _ m _ [] m hfr.2 hntr hpo.2 hihr hvr hle hid
          simp only [List.append_nil] at ihr ⊢
          exact sim_cons_inplace O hc ihr
        · -- the operand is hoisted
          rw [hk] at hE1; simp only [Prod.mk.injEq] at hE1; obtain ⟨rfl, rfl, rfl⟩ := hE1
          have ihr := simKids O cfg pk rest _ _ [] _ (m + 1) r2 h2 n2' hfr.2 hntr hpo.2 hihr hvr (by omega) hE2
          simp only [List.nil_append] at ihr
          have hh2 := ensureFs_finv (W := fun y => y ∈ writesEs (rest.map (·.2))) hfr.2 (fun y hy => hy) hE2
          have hframe : ∀ σ, (execB O h2 σ).2.get (tmpName m) = σ.get (tmpName m) := by
            intro σ
            refine (exec_hoists O _ h2 (m + 1) n2' σ hh2).2 (tmpName m) ?_ ?_
            · intro hw
              have := wnt _ hw
              rw [isTempName_tmpName] at this
              exact Bool.noConfusion this
            · intro k hk1' _ heq
              have := tmpName_inj heq
              omega
          have := sim_cons_hoisted O hc ihr fc.frag hframe
          simpa [List.append_assoc] using this
      · -- (B) the operand is an atom that stays in place and is not rebound later
        simp only [Bool.and_eq_true] at hB
        obtain ⟨hat, hdis⟩ := hB
        obtain ⟨hatom, hokat⟩ := atomStay_spec hat
        rw [atom_visit cfg hatom n] at hvc
        simp only [Except.ok.injEq, Prod.mk.injEq] at hvc
        obtain ⟨rfl, rfl, rfl⟩ := hvc
        rw [ensure_ok cfg pk f c m hokat] at hE1
        simp only [Prod.mk.injEq] at hE1; obtain ⟨rfl, rfl, rfl⟩ := hE1
        have ihr := simKids O cfg pk rest _ r1 d2 _ m r2 h2 n2' hfr.2 hntr hpo.2 hihr hvr hle hE2
        have hh2 := ensureFs_finv (W := fun y => y ∈ writesEs (rest.map (·.2))) fr.frag fr.writes hE2
        have hframe : ∀ σ, ∀ y ∈ namesE c, (execB O (d2 ++ h2) σ).2.get y = σ.get y := by
          intro σ y hy
          have hyw : ¬ (y ∈ writesEs (rest.map (·.2))) := disjoint_spec hdis y hy
          have hynt : isTempName y = false := hnt y (Or.inl hy)
          have hyk : ∀ a b k, a ≤ k → k < b → y ≠ tmpName k := by
            intro a b k _ _ heq
            rw [heq, isTempName_tmpName] at hynt
            exact Bool.noConfusion hynt
          rw [execB_append]
          have e1 := exec_hoists O _ d2 _ _ σ fr.hoists
          rcases hx : execB O d2 σ with ⟨o, σ1⟩
          rw [hx] at e1
          have g1 := e1.2 y hyw (hyk _ _)
          cases o with
          | normal =>
            simp only
            rw [(exec_hoists O _ h2 m n2' σ1 hh2).2 y hyw (hyk m n2')]
            exact g1
          | _ => exact g1
        have := sim_cons_atom O hatom (fun y hy => hnt y (Or.inl hy)) hframe ihr
        simpa using this

end Malt.Anf
