import MaltModel.Proofs.C18Sem3b
/- C18, semantics part 4: the operands of one node. -/
set_option linter.unusedSimpArgs false
namespace Malt.Anf
open Malt.Py Malt.SemAnf

mutual
theorem writes_sub_names : ∀ (e : Expr) (y : String), y ∈ writesE e → y ∈ namesE e
  | .namedexpr _ t v, y, h => by
      simp only [writesE, namesE, List.mem_append] at h ⊢
      rcases h with h | h
      · exact Or.inl h
      · exact Or.inr (writes_sub_names v y h)
  | .attr _ v _ _, y, h => by simp only [writesE, namesE] at h ⊢; exact writes_sub_names v y h
  | .subscript _ v s _, y, h => by
      simp only [writesE, namesE, List.mem_append] at h ⊢
      rcases h with h | h
      · exact Or.inl (writes_sub_names v y h)
      · exact Or.inr (writes_sub_names s y h)
  | .call _ f as ks, y, h => by
      simp only [writesE, namesE, List.mem_append] at h ⊢
      rcases h with (h | h) | h
      · exact Or.inl (Or.inl (writes_sub_names f y h))
      · exact Or.inl (Or.inr (writess_sub_names as y h))
      · exact Or.inr (writess_sub_names ks y h)
  | .keyword _ _ _ v, y, h => by simp only [writesE, namesE] at h ⊢; exact writes_sub_names v y h
  | .boolop _ _ vs, y, h => by simp only [writesE, namesE] at h ⊢; exact writess_sub_names vs y h
  | .unary _ _ e, y, h => by simp only [writesE, namesE] at h ⊢; exact writes_sub_names e y h
  | .binop _ _ l r, y, h => by
      simp only [writesE, namesE, List.mem_append] at h ⊢
      rcases h with h | h
      · exact Or.inl (writes_sub_names l y h)
      · exact Or.inr (writes_sub_names r y h)
  | .compare _ l _ rs, y, h => by
      simp only [writesE, namesE, List.mem_append] at h ⊢
      rcases h with h | h
      · exact Or.inl (writes_sub_names l y h)
      · exact Or.inr (writess_sub_names rs y h)
  | .ifexp _ t b e, y, h => by
      simp only [writesE, namesE, List.mem_append] at h ⊢
      rcases h with (h | h) | h
      · exact Or.inl (Or.inl (writes_sub_names t y h))
      · exact Or.inl (Or.inr (writes_sub_names b y h))
      · exact Or.inr (writes_sub_names e y h)
  | .seq _ _ es _, y, h => by simp only [writesE, namesE] at h ⊢; exact writess_sub_names es y h
  | .starred _ v _, y, h => by simp only [writesE, namesE] at h ⊢; exact writes_sub_names v y h
  | .withitem _ c v, y, h => by
      simp only [writesE, namesE, List.mem_append] at h ⊢
      rcases h with h | h
      · exact Or.inl (writes_sub_names c y h)
      · exact Or.inr (writess_sub_names v y h)
  | .other _ _ _ ks, y, h => by simp only [writesE, namesE] at h ⊢; exact writess_sub_names ks y h
  | .name .., y, h => by simp [writesE] at h
  | .const .., y, h => by simp [writesE] at h
  | .noneMarker, y, h => by simp [writesE] at h
  | .lambda .., y, h => by simp [writesE] at h
  | .comp .., y, h => by simp [writesE] at h
  | .comprehension .., y, h => by simp [writesE] at h
  | .arguments .., y, h => by simp [writesE] at h
  | .arg .., y, h => by simp [writesE] at h
theorem writess_sub_names : ∀ (es : List Expr) (y : String), y ∈ writesEs es → y ∈ namesEs es
  | [], y, h => by simp [writesEs] at h
  | e :: es, y, h => by
      simp only [writesEs, namesEs, List.mem_append] at h ⊢
      rcases h with h | h
      · exact Or.inl (writes_sub_names e y h)
      · exact Or.inr (writess_sub_names es y h)
end

/-- what the induction provides for one operand -/
def SimHyp (O : Oracle) (cfg : Config) (c : Expr) : Prop :=
  ∀ n c' d n', visitE cfg c n = .ok (c', d, n') → SimE O c c' d

theorem simL_nil (O : Oracle) : SimL O [] [] [] := by
  intro σ σ' hA
  simp only [execB, evalOpts]
  exact ⟨trivial, hA⟩

theorem disjoint_spec {a b : List String} (h : disjoint a b = true) : ∀ x ∈ a, x ∉ b := by
  intro x hx hb
  simp only [disjoint, List.all_eq_true] at h
  have := h x hx
  simp [hb] at this

theorem quiets_map_snd {cfg : Config} {pk : String} {hi : Bool} : ∀ {fks : List (String × Expr)},
    fks.all (notMoved cfg pk hi) = true → quiets cfg (fks.map (·.2)) = true
  | [], _ => rfl
  | p :: fks, h => by
      simp only [List.all_cons, Bool.and_eq_true, notMoved] at h
      simp [quiets, h.1.1, quiets_map_snd h.2]

theorem zip_map_fst_snd {α β : Type} : ∀ (l : List (α × β)), (l.map (·.1)).zip (l.map (·.2)) = l
  | [] => rfl
  | p :: l => by simp [zip_map_fst_snd l]

theorem simKids (O : Oracle) (cfg : Config) (pk : String) : ∀ (fks : List (String × Expr)) (n : Nat) (ks1 : List Expr)
    (D : List Stmt) (n1 m : Nat) (ks2 : List Expr) (H : List Stmt) (n2 : Nat),
    fragEs (fks.map (·.2)) = true →
    (∀ y ∈ namesEs (fks.map (·.2)), isTempName y = false) →
    pairsOkT cfg pk fks = true →
    (∀ p ∈ fks, SimHyp O cfg p.2) →
    visitEs cfg (fks.map (·.2)) n = .ok (ks1, D, n1) → n1 ≤ m →
    ensureFs cfg pk (fks.map (·.1)) ks1 m = (ks2, H, n2) →
    SimL O (fks.map (·.2)) ks2 (D ++ H)
  | [], n, ks1, D, n1, m, ks2, H, n2, _, _, _, _, hv, _, he => by
      simp only [List.map_nil, visitEs, Except.ok.injEq, Prod.mk.injEq] at hv
      obtain ⟨rfl, rfl, rfl⟩ := hv
      simp only [List.map_nil, ensureFs, Prod.mk.injEq] at he
      obtain ⟨rfl, rfl, rfl⟩ := he
      exact simL_nil O
  | (f, c) :: rest, n, ks1, D, n1, m, ks2, H, n2, hfr, hnt, hpo, hih, hv, hle, he => by
      simp only [List.map_cons, fragEs, Bool.and_eq_true] at hfr
      simp only [List.map_cons, namesEs, List.mem_append] at hnt
      simp only [pairsOkT, Bool.and_eq_true] at hpo
      simp only [List.map_cons, visitEs, bind_ok, Prod.exists, pure, Except.pure, Except.ok.injEq, Prod.mk.injEq] at hv
      obtain ⟨c1, d1, k1, hvc, r1, d2, n1', hvr, rfl, rfl, rfl⟩ := hv
      simp only [List.map_cons, ensureFs] at he
      rcases hE1 : ensure cfg pk f c1 m with ⟨c2, h1, m1⟩
      rcases hE2 : ensureFs cfg pk (rest.map (·.1)) r1 m1 with ⟨r2, h2, n2'⟩
      simp only [hE1, hE2, Prod.mk.injEq] at he
      obtain ⟨rfl, rfl, rfl⟩ := he
      have hc : SimE O c c1 d1 := hih (f, c) (by simp) _ _ _ _ hvc
      have hihr : ∀ p ∈ rest, SimHyp O cfg p.2 := fun p hp => hih p (by simp [hp])
      have hntr : ∀ y ∈ namesEs (rest.map (·.2)), isTempName y = false := fun y hy => hnt y (Or.inr hy)
      -- structure of the pieces
      have fc := visitE_finv cfg (fun y => y ∈ writesE c) c n c1 d1 k1 hfr.1 (fun y hy => hy) hvc
      have fr := visitEs_finv cfg (fun y => y ∈ writesEs (rest.map (·.2))) _ _ r1 d2 _ hfr.2 (fun y hy => hy) hvr
      have hk1 := fc.hoists.le
      have hn1 := fr.hoists.le
      have wnt : ∀ y, y ∈ writesEs (rest.map (·.2)) → isTempName y = false :=
        fun y hy => hntr y (writess_sub_names _ y hy)
      have hokc : okChild cfg pk f c1 = okChild cfg pk f c := okChild_visit_frag hfr.1 fc.frag hvc
      rcases Bool.or_eq_true _ _ |>.mp hpo.1 with hA | hB
      · -- (A) no later operand is overtaken
        have hq := quiets_map_snd hA
        obtain ⟨rfl, rfl, rfl⟩ := revisits hq hvr
        rcases ensure_frag_cases cfg pk f c1 m fc.frag with ⟨hk, hok⟩ | ⟨hk, hok⟩
        · -- the operand stays: then no later operand is hoisted either
          rw [hk] at hE1; simp only [Prod.mk.injEq] at hE1; obtain ⟨rfl, rfl, rfl⟩ := hE1
          have hallok : ∀ p ∈ (rest.map (·.1)).zip (rest.map (·.2)), okChild cfg pk p.1 p.2 = true := by
            rw [zip_map_fst_snd]
            intro p hp
            have := List.all_eq_true.mp hA p hp
            simp only [notMoved, Bool.and_eq_true, Bool.or_eq_true] at this
            rcases this.2 with h | h
            · exact h
            · rw [← hokc, hok] at h; simp at h
          have hid := ensureFs_ok cfg pk (rest.map (·.1)) (rest.map (·.2)) m (by simp) hallok
          rw [hid] at hE2; simp only [Prod.mk.injEq] at hE2; obtain ⟨rfl, rfl, rfl⟩ := hE2
          have ihr := simKids O cfg pk rest _ _ [] _ m _ [] m hfr.2 hntr hpo.2 hihr hvr hle hid
          simp only [List.append_nil] at ihr ⊢
          exact sim_cons_inplace O hc ihr
        · -- the operand is hoisted
          rw [hk] at hE1; simp only [Prod.mk.injEq] at hE1; obtain ⟨rfl, rfl, rfl⟩ := hE1
          have ihr := simKids O cfg pk rest _ _ [] _ (m + 1) r2 h2 n2' hfr.2 hntr hpo.2 hihr hvr (by omega) hE2
          simp only [List.nil_append] at ihr
          have hh2 := ensureFs_finv (W := fun y => y ∈ writesEs (rest.map (·.2))) hfr.2 (fun y hy => hy) hE2
          have hframe : ∀ σ, (execB O h2 σ).2.get (tmpName m) = σ.get (tmpName m) := by
            intro σ
            refine (exec_hoists O _ h2 (m + 1) n2' σ hh2).2 (tmpName m) ?_ ?_
            · intro hw
              have := wnt _ hw
              rw [isTempName_tmpName] at this
              exact Bool.noConfusion this
            · intro k hk1' _ heq
              have := tmpName_inj heq
              omega
          have := sim_cons_hoisted O hc ihr fc.frag hframe
          simpa [List.append_assoc] using this
      · -- (B) what is left of the operand is pure, and no later operand rebinds a variable it mentions
        simp only [Bool.and_eq_true] at hB
        obtain ⟨hrp, hdis⟩ := hB
        have pc1 : pureE c1 = true := visitE_respure cfg c n c1 d1 _ hfr.1 hrp hvc
        have hp : PureAt O c1 := fun σ τ h => pure_eval O c1 fc.frag pc1 σ τ h
        obtain ⟨nc, lc⟩ := visitE_ninv cfg (fun y => y ∈ namesE c) c n c1 d1 _ hfr.1 (fun y hy => hy) hvc
        obtain ⟨nr, lr⟩ := visitEs_ninv cfg (fun y => y ∈ namesEs (rest.map (·.2))) _ _ r1 d2 _ hfr.2 (fun y hy => hy) hvr
        have hh2 := ensureFs_finv (W := fun y => y ∈ writesEs (rest.map (·.2))) fr.frag fr.writes hE2
        -- the names of the residual: not rebound later, and not a temporary created later
        have hc1 : ∀ y ∈ namesE c1, ¬ (y ∈ writesEs (rest.map (·.2))) ∧ ∀ k, k1 ≤ k → y ≠ tmpName k := by
          intro y hy
          rcases nc.names y hy with h | ⟨k0, h1, h2, rfl⟩
          · refine ⟨disjoint_spec hdis y h, fun k _ heq => ?_⟩
            have := hnt y (Or.inl h)
            rw [heq, isTempName_tmpName] at this
            exact Bool.noConfusion this
          · refine ⟨fun hw => ?_, fun k hk heq => ?_⟩
            · have := wnt _ hw
              rw [isTempName_tmpName] at this
              exact Bool.noConfusion this
            · have := tmpName_inj heq
              omega
        have hfr_d2 : ∀ σ, ∀ y ∈ namesE c1, (execB O d2 σ).2.get y = σ.get y := fun σ y hy =>
          (exec_hoists O _ d2 _ _ σ fr.hoists).2 y (hc1 y hy).1 (fun k hk _ => (hc1 y hy).2 k hk)
        have hmm1 : m ≤ m1 := (ensure_finv (W := fun _ => True) fc.frag (fun _ _ => trivial) hE1).hoists.le
        have hm1 : k1 ≤ m1 := by omega
        have hfr_h2 : ∀ σ, ∀ y ∈ namesE c1, (execB O h2 σ).2.get y = σ.get y := fun σ y hy =>
          (exec_hoists O _ h2 _ _ σ hh2).2 y (hc1 y hy).1 (fun k hk _ => (hc1 y hy).2 k (by omega))
        have ihr := simKids O cfg pk rest _ r1 d2 _ m1 r2 h2 n2' hfr.2 hntr hpo.2 hihr hvr (by omega) hE2
        rcases ensure_frag_cases cfg pk f c1 m fc.frag with ⟨hk, hok⟩ | ⟨hk, hok⟩
        · -- it stays in place
          rw [hk] at hE1; simp only [Prod.mk.injEq] at hE1; obtain ⟨rfl, rfl, rfl⟩ := hE1
          have hframe : ∀ σ, ∀ y ∈ namesE c1, (execB O (d2 ++ h2) σ).2.get y = σ.get y := by
            intro σ y hy
            rw [execB_append]
            have g1 := hfr_d2 σ y hy
            rcases hx : execB O d2 σ with ⟨o, σ1⟩
            rw [hx] at g1
            cases o with
            | normal => simp only; rw [hfr_h2 σ1 y hy]; exact g1
            | _ => exact g1
          have := sim_cons_pure_stay O hc ihr hp hframe
          simpa [List.append_assoc] using this
        · -- it is hoisted after the statements nested in the later operands
          rw [hk] at hE1; simp only [Prod.mk.injEq] at hE1; obtain ⟨rfl, rfl, rfl⟩ := hE1
          have ntm : ∀ y, y ∈ namesEs r1 → y ≠ tmpName m := by
            intro y hy heq
            rcases nr.names y hy with h | ⟨k0, h1, h2, h3⟩
            · have := hntr y h
              rw [heq, isTempName_tmpName] at this
              exact Bool.noConfusion this
            · have := tmpName_inj (heq.symm.trans h3)
              omega
          have sp := ensureFs_spec (P := fun x => fragE x = true ∧ ∀ y ∈ namesE x, ¬ (y = tmpName m)) fr.frag
            (fun x hx => ⟨frags_mem fr.frag hx, fun y hy => ntm y (names_mem hx hy)⟩) hE2
          have hfrt : ∀ σ, (execB O h2 σ).2.get (tmpName m) = σ.get (tmpName m) := by
            intro σ
            refine (exec_hoists O _ h2 (m + 1) n2' σ hh2).2 (tmpName m) ?_ ?_
            · intro hw
              have := wnt _ hw
              rw [isTempName_tmpName] at this
              exact Bool.noConfusion this
            · intro k hk1' _ heq
              have := tmpName_inj heq
              omega
          have hcH := fun σ τ => execB_congr O (fun y => y = tmpName m) h2 (m + 1) n2' σ τ sp.1
          have hcr : CongK (fun y => y = tmpName m) (evalOpts O r2) := by
            refine evalOpts_congr O _ r2 sp.2.1 (fun y hy => ?_)
            rcases sp.2.2 y hy with h | ⟨k, h1, _, h3⟩
            · exact ntm y h
            · intro heq
              have := tmpName_inj (heq.symm.trans h3)
              omega
          have := sim_cons_pure_hoisted O hc ihr fc.frag hp hfr_d2 hfrt hcH hcr
          simpa [List.append_assoc] using this

end Malt.Anf
