import MaltModel.Proofs.C05Paths3Exit
/-!
# C05, Lemma B with `finally`: the compound statements, given Lemma B for their blocks
-/
namespace Malt.Cfg
open Malt.Py

/-! ### both frames at once -/

structure FF (K : List Nat) (b b' : B) : Prop where
  f : Frame K b b'
  x : FrameX K b b'

theorem FF.refl (K : List Nat) (b : B) : FF K b b := ⟨Frame.refl K b, FrameX.refl K b⟩
theorem FF.trans {K : List Nat} {a b c : B} (h1 : FF K a b) (h2 : FF K b c) : FF K a c := ⟨h1.f.trans h2.f, h1.x.trans h2.x⟩
theorem FF.weaken {K K' : List Nat} {b b' : B} (h : FF K b b') (hs : ∀ k, k ∈ K → k ∈ K') : FF K' b b' :=
  ⟨h.f.weaken hs, h.x.weaken hs⟩

theorem ff_beginStatement (K : List Nat) (b : B) (i : Nat) : FF K b (b.beginStatement i) :=
  ⟨B.frame_beginStatement K b i, B.fx_beginStatement K b i⟩
theorem ff_endStatement (K : List Nat) (b : B) (i : Nat) : FF K b (b.endStatement i) :=
  ⟨B.frame_endStatement K b i, B.fx_endStatement K b i⟩
theorem ff_enterCondSection (K : List Nat) (b : B) (i : Nat) (hi : ck i ∈ K) : FF K b (b.enterCondSection i) :=
  ⟨B.frame_enterCondSection K b i hi, B.fx_enterCondSection K b i⟩
theorem ff_newCondBranch (K : List Nat) (b : B) (i : Nat) (hi : ck i ∈ K) : FF K b (b.newCondBranch i) :=
  ⟨B.frame_newCondBranch K b i hi, B.fx_newCondBranch K b i⟩
theorem ff_exitCondSection (K : List Nat) (b : B) (i : Nat) (hi : ck i ∈ K) : FF K b (b.exitCondSection i) :=
  ⟨B.frame_exitCondSection K b i hi, B.fx_exitCondSection K b i⟩
theorem ff_addOrdinaryNodes (K : List Nat) (ns : List Nat) (hns : ∀ n, n ∈ ns → nk n ∈ K) (b : B) : FF K b (addOrdinaryNodes b ns) :=
  ⟨frame_addOrdinaryNodes K ns b, fx_addOrdinaryNodes K ns hns b⟩
theorem ff_enterSection (K : List Nat) (b : B) (i : Nat) (hi : sk i ∈ K) : FF K b (b.enterSection i) :=
  ⟨B.frame_enterSection K b i hi, B.fx_enterSection K b i hi⟩
theorem ff_enterLoopSection (K : List Nat) (b : B) (i e : Nat) (hi : sk i ∈ K) (he : nk e ∈ K) : FF K b (b.enterLoopSection i e) :=
  ⟨B.frame_enterLoopSection K b i e hi, B.fx_enterLoopSection K b i e hi he⟩
theorem ff_enterExceptSection (K : List Nat) (b : B) (i : Nat) : FF K b (b.enterExceptSection i) :=
  ⟨B.frame_enterExceptSection K b i, B.fx_enterExceptSection K b i⟩
theorem ff_enterFinallySection (K : List Nat) (b : B) (i : Nat) (hi : sk i ∈ K) : FF K b (b.enterFinallySection i) :=
  ⟨B.frame_enterFinallySection K b i, B.fx_enterFinallySection K b i hi⟩
theorem ff_exitFinallySection (K : List Nat) (b : B) (i : Nat) (hi : sk i ∈ K) : FF K b (b.exitFinallySection i) :=
  ⟨B.frame_exitFinallySection K b i, B.fx_exitFinallySection K b i hi⟩
theorem ff_visitStmts (ss : List Stmt) (σ : List Scope) (b : B) (a : Acc) (il : Bool) (hf : frag3L il ss = true) (ho : OwnPre σ il) :
    FF (keysL3 ss) b (visitStmts σ ss b a).1 :=
  ⟨frame3_visitStmts ss σ b a, (fxe_visitStmts ss σ b a il hf ho).1⟩

/-! ### what a transport needs of its source state -/

structure Tr (σ : List Scope) (K : List Nat) (b : B) : Prop where
  disj : ∀ k, k ∈ scopeKeys σ → k ∉ K
  old : ∀ k, k ∈ K → k ∉ Old b
  lin : ListsInNodes b

theorem Pre.tr {σ : List Scope} {K : List Nat} {b : B} (h : Pre σ K b) : Tr σ K b := ⟨h.disj, h.old, h.lin⟩

theorem Tr.sub {σ : List Scope} {K K' : List Nat} {b : B} (h : Tr σ K b) (hs : ∀ k, k ∈ K' → k ∈ K) : Tr σ K' b :=
  ⟨fun k hk hk' => h.disj k hk (hs k hk'), fun k hk => h.old k (hs k hk), h.lin⟩

theorem Tr.move {σ : List Scope} {K1 K2 : List Nat} {b b1 : B} (h : Tr σ K2 b) (hx : FrameX K1 b b1) (hd : ∀ k, k ∈ K2 → k ∉ K1) :
    Tr σ K2 b1 :=
  ⟨h.disj, fun k hk hko => (hx.old k hko).elim (h.old k hk) (hd k hk), hx.lin h.lin⟩

theorem scopeKeys_sk : ∀ (σ : List Scope) (k : Nat), k ∈ scopeKeys σ → ∃ t, k = sk t := by
  intro σ
  induction σ with
  | nil => intro k h; cases h
  | cons sc σ ih =>
    intro k h
    cases sc with
    | try_ i f hs =>
      simp only [scopeKeys, List.mem_append, List.mem_map] at h
      rcases h with ⟨t, _, ht⟩ | h
      · exact ⟨t, ht.symm⟩
      · exact ih k h
    | fn i => simp only [scopeKeys, List.mem_cons] at h; exact h.elim (fun e => ⟨_, e⟩) (ih k)
    | lam i => simp only [scopeKeys, List.mem_cons] at h; exact h.elim (fun e => ⟨_, e⟩) (ih k)
    | cls i => simp only [scopeKeys, List.mem_cons] at h; exact h.elim (fun e => ⟨_, e⟩) (ih k)
    | loop i => simp only [scopeKeys, List.mem_cons] at h; exact h.elim (fun e => ⟨_, e⟩) (ih k)

theorem ck_not_scopeKeys (σ : List Scope) (i : Nat) : ck i ∉ scopeKeys σ := by
  intro h
  obtain ⟨t, ht⟩ := scopeKeys_sk σ _ h
  exact sk_ne_ck t i ht.symm

theorem Tr.cons_ck {σ : List Scope} {K : List Nat} {b : B} (h : Tr σ K b) (i : Nat) : Tr σ (ck i :: K) b := by
  refine ⟨?_, ?_, h.lin⟩
  · intro k hk hk'
    rcases List.mem_cons.mp hk' with e | hk'
    · exact ck_not_scopeKeys σ i (e ▸ hk)
    · exact h.disj k hk hk'
  · intro k hk
    rcases List.mem_cons.mp hk with e | hk
    · rw [e]; exact ck_not_old i b
    · exact h.old k hk

theorem Tr.nil (σ : List Scope) {b : B} (hl : ListsInNodes b) : Tr σ [] b :=
  ⟨fun _ _ h => (List.not_mem_nil h).elim, fun _ h => (List.not_mem_nil h).elim, hl⟩

/-- the waiting section of the pending nodes is not touched -/
def TOk (curP : List Nat) (T : Nat) (K : List Nat) : Prop := curP = [] ∨ sk T ∉ K

theorem TOk.sub {curP : List Nat} {T : Nat} {K K' : List Nat} (h : TOk curP T K) (hs : ∀ k, k ∈ K' → k ∈ K) : TOk curP T K' :=
  h.imp id (fun h hk => h (hs _ hk))
theorem TOk.cons_ck {curP : List Nat} {T : Nat} {K : List Nat} (h : TOk curP T K) (i : Nat) : TOk curP T (ck i :: K) := by
  refine h.imp id (fun h hk => ?_)
  rcases List.mem_cons.mp hk with e | hk
  · exact sk_ne_ck T i e
  · exact h hk
theorem TOk.nil (T : Nat) (K : List Nat) : TOk [] T K := Or.inl rfl
theorem TOk.empty (curP : List Nat) (T : Nat) : TOk curP T [] := Or.inr (fun h => (List.not_mem_nil h).elim)

/-- every pending fact established in `b` still holds in `b'` -/
def Keeps (σ : List Scope) (T : Nat) (curP : List Nat) (b b' : B) : Prop := ∀ R, Pend σ T curP b R → Pend σ T curP b' R

theorem Keeps.trans {σ : List Scope} {T : Nat} {curP : List Nat} {a b c : B} (h1 : Keeps σ T curP a b) (h2 : Keeps σ T curP b c) :
    Keeps σ T curP a c := fun R h => h2 R (h1 R h)

theorem keeps_tr {σ : List Scope} {T : Nat} {curP : List Nat} {K : List Nat} {b b' : B} (ht : Tr σ K b) (h : FF K b b')
    (hT : TOk curP T K) : Keeps σ T curP b b' :=
  fun _ hR => hR.transport h.f h.x ht.old ht.lin ht.disj hT

theorem keeps_exit {σ : List Scope} {T : Nat} {curP : List Nat} {b b' : B} {c0 : Bool} {i : Nat} (h : ExitOk c0 i b b')
    (hσ : sk i ∉ scopeKeys σ) : Keeps σ T curP b b' :=
  fun _ hR => hR.exit h hσ

theorem ReqOk.retarget {σ : List Scope} {b : B} {T T' : Nat} {curP : List Nat} {p : Nat × Nat} (h : ReqOk σ b T [] p) : ReqOk σ b T' curP p := by
  rcases h with h | h | ⟨h1, _⟩
  · exact Or.inl h
  · exact Or.inr (Or.inl h)
  · cases h1

theorem Pend.retarget {σ : List Scope} {T T' : Nat} {curP : List Nat} {b : B} {R : Flow} (h : Pend σ T [] b R) : Pend σ T' curP b R :=
  ⟨fun p hp => (h.req p hp).retarget, h.brk, h.cont, h.ret, h.raise, h.exempt⟩

/-! ### steps that touch nothing a pending fact looks at -/

structure Neutral (b b' : B) : Prop where
  exits : b'.exits = b.exits
  continues : b'.continues = b.continues
  finallySections : b'.finallySections = b.finallySections
  finallySub : b'.finallySub = b.finallySub
  pendingFinally : b'.pendingFinally = b.pendingFinally

theorem Neutral.refl (b : B) : Neutral b b := ⟨rfl, rfl, rfl, rfl, rfl⟩
theorem Neutral.trans {a b c : B} (h1 : Neutral a b) (h2 : Neutral b c) : Neutral a c :=
  ⟨by rw [h2.exits, h1.exits], by rw [h2.continues, h1.continues], by rw [h2.finallySections, h1.finallySections],
   by rw [h2.finallySub, h1.finallySub], by rw [h2.pendingFinally, h1.pendingFinally]⟩
theorem Neutral.ldj {b b' : B} (h : Neutral b b') (hl : ListsDisjoint b) : ListsDisjoint b' := ldj_of_eq h.exits h.continues hl
theorem Neutral.src {b b' : B} (h : Neutral b b') (hl : b'.leafSet = b.leafSet) {T : Nat} {curP : List Nat} {x : Nat}
    (hs : Src b T curP x) : Src b' T curP x := src_of_same hl h.finallySub h.pendingFinally hs

theorem neutral_beginStatement (b : B) (i : Nat) : Neutral b (b.beginStatement i) := ⟨rfl, rfl, rfl, rfl, rfl⟩
theorem neutral_endStatement (b : B) (i : Nat) : Neutral b (b.endStatement i) :=
  ⟨by simp, by simp, by simp, by simp, by simp⟩
theorem neutral_enterCondSection (b : B) (i : Nat) : Neutral b (b.enterCondSection i) :=
  ⟨by simp [B.enterCondSection], by simp [B.enterCondSection], by simp [B.enterCondSection], by simp [B.enterCondSection],
   by simp [B.enterCondSection]⟩
theorem neutral_newCondBranch (b : B) (i : Nat) : Neutral b (b.newCondBranch i) := by
  unfold B.newCondBranch
  split
  · exact ⟨rfl, rfl, rfl, rfl, rfl⟩
  · split <;> exact ⟨rfl, rfl, rfl, rfl, rfl⟩
theorem neutral_foldl {α} (f : B → α → B) (hf : ∀ b x, Neutral b (f b x)) : ∀ (l : List α) (b : B), Neutral b (l.foldl f b) := by
  intro l
  induction l with
  | nil => intro b; exact Neutral.refl b
  | cons x l ih => intro b; exact (hf b x).trans (ih _)
theorem neutral_exitCondSection (b : B) (i : Nat) : Neutral b (b.exitCondSection i) := by
  unfold B.exitCondSection
  split
  · exact ⟨rfl, rfl, rfl, rfl, rfl⟩
  · rename_i splits _
    have h1 := neutral_foldl B.unionStep (fun b r => (⟨rfl, rfl, rfl, rfl, rfl⟩ : Neutral b (b.unionStep r))) splits b
    exact h1.trans ⟨by simp, by simp, by simp, by simp, by simp⟩
theorem neutral_enterExceptSection (b : B) (i : Nat) : Neutral b (b.enterExceptSection i) := by
  unfold B.enterExceptSection
  split <;> exact ⟨rfl, rfl, rfl, rfl, rfl⟩
theorem neutral_addOrdinaryNodes_ldj (ns : List Nat) (b : B) (hl : ListsDisjoint b) : ListsDisjoint (addOrdinaryNodes b ns) :=
  ldj_of_eq (addOrdinaryNodes_exits ns b) (addOrdinaryNodes_continues ns b) hl

theorem ldj_enterLoopSection {b : B} (i h : Nat) (hl : ListsDisjoint b) : ListsDisjoint (b.enterLoopSection i h) := by
  have h1 : ListsDisjoint ((b.check (ahas i b.sectionEntry || ahas i b.continues) "assert: loop section entered twice").putContinues i []) := by
    refine ldj_put (b.check (ahas i b.sectionEntry || ahas i b.continues) "assert: loop section entered twice") true i [] _ ?_
      (fun x hx => (List.not_mem_nil hx).elim) (ldj_of_eq (by simp) (by simp) hl)
    intro c; cases c <;> rfl
  exact ldj_of_eq (by simp [B.enterLoopSection]) (by simp [B.enterLoopSection]) h1

/-! ### simple statements and jumps -/

/-- Emitting `ns ≠ []` as ordinary nodes and completing normally. -/
theorem post_emit_normal (σ : List Scope) (T : Nat) (curP : List Nat) (b : B) (cur ns : List Nat) (hne : ns ≠ [])
    (hc : ∀ x, x ∈ cur → Src b T curP x) (hl : ListsDisjoint b) :
    Post σ T curP (addOrdinaryNodes b ns) { req := (emit cur ns).1, normal := (emit cur ns).2 } := by
  obtain ⟨e1, _, e3⟩ := emit_src T curP ns b cur hc
  refine ⟨Pend.of_req σ T curP _ _ _ ?_, e3 hne, neutral_addOrdinaryNodes_ldj ns b hl⟩
  intro p hp
  rcases e1 p hp with h | h
  · exact Or.inl h
  · exact Or.inr (Or.inr h)

theorem addOrdinaryNodes_append (b : B) (a c : List Nat) : addOrdinaryNodes b (a ++ c) = addOrdinaryNodes (addOrdinaryNodes b a) c := by
  simp [addOrdinaryNodes, List.foldl_append]

theorem addOrdinaryNodes_snoc (b : B) (ns : List Nat) (n : Nat) :
    addOrdinaryNodes b (ns ++ [n]) = (addOrdinaryNodes b ns).addOrdinaryNode n := by
  simp [addOrdinaryNodes, List.foldl_append]

theorem basicExprs_eq (σ : List Scope) : ∀ (items : List Expr) (b : B) (a : Acc),
    (basicExprs σ items b a).1 = addOrdinaryNodes b (withItemNodes items)
  | [], b, a => rfl
  | e :: es, b, a => by
    simp only [basicExprs, withItemNodes, basicExpr]
    rw [basicExprs_eq σ es]
    have : e.kidLams ++ e.id :: withItemNodes es = (e.kidLams ++ [e.id]) ++ withItemNodes es := by simp
    rw [this, addOrdinaryNodes_append, addOrdinaryNodes_snoc]

theorem processExit_eq (σ : List Scope) (b : B) (n : Nat) (stop : Stop) (v : Bool) (t : Nat)
    (h1 : (enclosingFinally stop σ).1 = some t) :
    processExit σ b n stop v =
      if v then (b.addExitNode n t (guardsOf stop σ)).connectRaiseNode n (enclosingExcept stop σ)
      else b.addExitNode n t (guardsOf stop σ) := by
  have : enclosingFinally stop σ = (some t, guardsOf stop σ) := Prod.ext h1 rfl
  simp only [processExit, this]

theorem processContinue_eq (σ : List Scope) (b : B) (n : Nat) (t : Nat)
    (h1 : (enclosingFinally .loop σ).1 = some t) :
    processContinue σ b n = b.addContinueNode n t (guardsOf .loop σ) := by
  have : enclosingFinally .loop σ = (some t, guardsOf .loop σ) := Prod.ext h1 rfl
  simp only [processContinue, this]

/-- `connect_raise_node`: the node is registered with every guard. -/
theorem raiseFold_effect (node : Nat) (gs : List Nat) : ∀ (rs : List (Nat × List Nat)) (h : Nat), h ∈ gs →
    ∃ l, aget h (gs.foldl (B.raiseStep node) rs) = some l ∧ node ∈ l := by
  induction gs with
  | nil => intro rs h hh; cases hh
  | cons g gs ih =>
    intro rs h hh
    simp only [List.foldl_cons]
    rcases List.mem_cons.mp hh with hh | hh
    · subst hh
      have h1 : ∃ l, aget h (B.raiseStep node rs h) = some l ∧ node ∈ l := by
        unfold B.raiseStep
        split
        · rename_i old _
          exact ⟨old ++ [node], by rw [aget_aset]; simp, by simp⟩
        · exact ⟨[node], by rw [aget_aset]; simp, by simp⟩
      obtain ⟨l1, hl1, hn1⟩ := h1
      obtain ⟨l2, hl2, hs2⟩ := B.raises_foldl_grow node gs _ h l1 hl1
      exact ⟨l2, hl2, hs2 node hn1⟩
    · exact ih _ h hh

theorem nodup_of_tnodes {l : List Nat} (h : (tnodes l).Nodup) : l.Nodup := by
  unfold tnodes at h
  exact List.Pairwise.of_map nk (fun a b (hab : nk a ≠ nk b) e => hab (congrArg nk e)) h

theorem freshNodes_of {σ : List Scope} {b : B} {l : List Nat} (hnd : (tnodes l).Nodup) (hp : Pre σ (tnodes l) b) : FreshNodes b l :=
  ⟨nodup_of_tnodes hnd, fun _ hx => hp.old _ (mem_tnodes hx)⟩

theorem deref_eq_of_heap {b b' : B} (h : b'.heap = b.heap) (r : Nat) : b'.deref r = b.deref r := by
  simp [B.deref, h]

theorem mem_cons_self' {k : Nat} {l : List Nat} : k ∈ k :: l := List.mem_cons_self ..

/-- The `if` statement, given Lemma B for its two blocks. -/
theorem lemB_if (σ : List Scope) (i : Nat) (test : Expr) (body orelse : List Stmt) (b : B) (a a1 a2 : Acc) (cur : List Nat)
    (T : Nat) (curP : List Nat)
    (hnd : (ck i :: (tnodes (test.kidLams ++ [test.id]) ++ (keysL3 body ++ keysL3 orelse))).Nodup)
    (hp : Pre σ (ck i :: (tnodes (test.kidLams ++ [test.id]) ++ (keysL3 body ++ keysL3 orelse))) b)
    (hT : TOk curP T (ck i :: (tnodes (test.kidLams ++ [test.id]) ++ (keysL3 body ++ keysL3 orelse))))
    (hc : ∀ x, x ∈ cur → Src b T curP x)
    (fbody : ∀ (b : B) (a : Acc), FF (keysL3 body) b (visitStmts σ body b a).1)
    (forelse : ∀ (b : B) (a : Acc), FF (keysL3 orelse) b (visitStmts σ orelse b a).1)
    (hbody : ∀ (b : B) (a : Acc) (cur : List Nat), Pre σ (keysL3 body) b → InLeaves b cur →
      Post σ T [] (visitStmts σ body b a).1 (flowBlock body cur))
    (horelse : ∀ (b : B) (a : Acc) (cur : List Nat), Pre σ (keysL3 orelse) b → InLeaves b cur →
      Post σ T [] (visitStmts σ orelse b a).1 (flowBlock orelse cur)) :
    Post σ T curP
      ((((visitStmts σ orelse
          ((visitStmts σ body ((basicExpr σ test ((b.beginStatement i).enterCondSection i) a).1.newCondBranch i) a1).1.newCondBranch i)
          a2).1).exitCondSection i).endStatement i)
      (flowStmt (.if_ i test body orelse) cur) := by
  -- keys
  obtain ⟨hi_all, hnd2⟩ := List.nodup_cons.mp hnd
  obtain ⟨ndt, nd3, dt⟩ := List.nodup_append.mp hnd2
  obtain ⟨ndb, ndo, dbo⟩ := List.nodup_append.mp nd3
  have hi_b : ck i ∉ keysL3 body := fun h => hi_all (List.mem_append.mpr (Or.inr (List.mem_append.mpr (Or.inl h))))
  have hi_o : ck i ∉ keysL3 orelse := fun h => hi_all (List.mem_append.mpr (Or.inr (List.mem_append.mpr (Or.inr h))))
  have kT : ∀ k, k ∈ tnodes (test.kidLams ++ [test.id]) → k ∈ ck i :: (tnodes (test.kidLams ++ [test.id]) ++ (keysL3 body ++ keysL3 orelse)) :=
    fun k hk => List.mem_cons_of_mem _ (List.mem_append.mpr (Or.inl hk))
  have kB : ∀ k, k ∈ keysL3 body → k ∈ ck i :: (tnodes (test.kidLams ++ [test.id]) ++ (keysL3 body ++ keysL3 orelse)) :=
    fun k hk => List.mem_cons_of_mem _ (List.mem_append.mpr (Or.inr (List.mem_append.mpr (Or.inl hk))))
  have kO : ∀ k, k ∈ keysL3 orelse → k ∈ ck i :: (tnodes (test.kidLams ++ [test.id]) ++ (keysL3 body ++ keysL3 orelse)) :=
    fun k hk => List.mem_cons_of_mem _ (List.mem_append.mpr (Or.inr (List.mem_append.mpr (Or.inr hk))))
  have kBO : ∀ k, k ∈ keysL3 body ++ keysL3 orelse → k ∈ ck i :: (tnodes (test.kidLams ++ [test.id]) ++ (keysL3 body ++ keysL3 orelse)) :=
    fun k hk => List.mem_cons_of_mem _ (List.mem_append.mpr (Or.inr hk))
  have kIT : ∀ k, k ∈ ck i :: tnodes (test.kidLams ++ [test.id]) → k ∈ ck i :: (tnodes (test.kidLams ++ [test.id]) ++ (keysL3 body ++ keysL3 orelse)) := by
    intro k hk
    rcases List.mem_cons.mp hk with e | hk
    · rw [e]; exact List.mem_cons_self ..
    · exact kT k hk
  have kITB : ∀ k, k ∈ ck i :: (tnodes (test.kidLams ++ [test.id]) ++ keysL3 body) → k ∈ ck i :: (tnodes (test.kidLams ++ [test.id]) ++ (keysL3 body ++ keysL3 orelse)) := by
    intro k hk
    rcases List.mem_cons.mp hk with e | hk
    · rw [e]; exact List.mem_cons_self ..
    · rcases List.mem_append.mp hk with hk | hk
      · exact kT k hk
      · exact kB k hk
  -- states
  let b1 := (b.beginStatement i).enterCondSection i
  let bt := (basicExpr σ test b1 a).1
  have hbt : bt = addOrdinaryNodes b1 (test.kidLams ++ [test.id]) := by
    show (addOrdinaryNodes b1 test.kidLams).addOrdinaryNode test.id = _
    rw [addOrdinaryNodes_snoc]
  obtain ⟨c1, c2, c3, c4, _, _⟩ := enterCondSection_effect (b.beginStatement i) i
  have n01 : Neutral b b1 := (neutral_beginStatement b i).trans (neutral_enterCondSection _ i)
  have hc1 : ∀ x, x ∈ cur → Src b1 T curP x := fun x hx => n01.src c3 (hc x hx)
  have hne : test.kidLams ++ [test.id] ≠ [] := by simp
  obtain ⟨e1, e2, e3⟩ := emit_src T curP (test.kidLams ++ [test.id]) b1 cur hc1
  rw [← hbt] at e1 e2 e3
  have ldjt : ListsDisjoint bt := by rw [hbt]; exact neutral_addOrdinaryNodes_ldj _ _ (n01.ldj hp.ldj)
  have ft : Frame [] b1 bt := frame_basicExpr [] σ test b1 a
  have f1t : FF (ck i :: tnodes (test.kidLams ++ [test.id])) b1 bt := by
    rw [hbt]; exact ff_addOrdinaryNodes _ _ (fun n hn => List.mem_cons_of_mem _ (mem_tnodes hn)) b1
  have f0t : FF (ck i :: tnodes (test.kidLams ++ [test.id])) b bt :=
    ((ff_beginStatement _ b i).trans (ff_enterCondSection _ _ i (List.mem_cons_self ..))).trans f1t
  have hcl_t : aget i bt.condLeaves = some [] := by rw [ft.condLeaves i (by simp)]; exact c1
  have hce_t : aget i bt.condEntry = none := by
    rw [ft.condEntry i (by simp)]
    show aget i ((b.beginStatement i).enterCondSection i).condEntry = none
    rw [c2]; exact hp.fresh i (List.mem_cons_self ..)
  let b2 := bt.newCondBranch i
  have hb2 : b2 = bt.putCondEntry i bt.leaves := newCondBranch_first bt i [] hcl_t hce_t
  have hl2 : b2.leafSet = bt.leafSet := by rw [hb2]; rfl
  have hce2 : aget i b2.condEntry = some bt.leaves := by rw [hb2]; show aget i (aset i _ _) = _; rw [aget_aset]; simp
  have hcl2 : aget i b2.condLeaves = some [] := by rw [hb2]; exact hcl_t
  have f02 : FF (ck i :: tnodes (test.kidLams ++ [test.id])) b b2 := f0t.trans (ff_newCondBranch _ bt i (List.mem_cons_self ..))
  have ldj2 : ListsDisjoint b2 := (neutral_newCondBranch bt i).ldj ldjt
  have dB : ∀ k, k ∈ keysL3 body → k ∉ ck i :: tnodes (test.kidLams ++ [test.id]) := by
    intro k hk h
    rcases List.mem_cons.mp h with e | h
    · exact hi_b (e ▸ hk)
    · exact dt k h k (List.mem_append.mpr (Or.inl hk)) rfl
  have pre2 : Pre σ (keysL3 body) b2 :=
    (hp.sub kB).move f02.f f02.x (fun k hk h => hp.disj k hk (kIT k h)) dB ldj2
  have hc2 : InLeaves b2 (emit cur (test.kidLams ++ [test.id])).2 := fun x hx => by rw [hl2]; exact e3 hne x hx
  have IHb := hbody b2 a1 _ pre2 hc2
  let b3 := (visitStmts σ body b2 a1).1
  have fb : FF (keysL3 body) b2 b3 := fbody b2 a1
  have hce3 : aget i b3.condEntry = some bt.leaves := by rw [fb.f.condEntry i hi_b]; exact hce2
  have hcl3 : aget i b3.condLeaves = some [] := by rw [fb.f.condLeaves i hi_b]; exact hcl2
  have hd3 : ∀ x, x ∈ (emit cur (test.kidLams ++ [test.id])).2 → x ∈ b3.deref bt.leaves := by
    intro x hx
    apply fb.f.deref
    rw [deref_eq_of_heap (b := bt) (by rw [hb2]; rfl)]
    exact e3 hne x hx
  let b4 := b3.newCondBranch i
  have hb4 : b4 = (b3.putCondLeaves i ([] ++ [b3.leaves])).setLeavesRef bt.leaves := newCondBranch_next b3 i [] _ hcl3 hce3
  have hl4 : b4.leafSet = b3.deref bt.leaves := by rw [hb4]; rfl
  have hcl4 : aget i b4.condLeaves = some [b3.leaves] := by
    rw [hb4]; show aget i (aset i _ _) = _; rw [aget_aset]; simp
  have f34 : FF [ck i] b3 b4 := ff_newCondBranch _ b3 i (by simp)
  have f03 : FF (ck i :: (tnodes (test.kidLams ++ [test.id]) ++ keysL3 body)) b b3 :=
    (f02.weaken (fun k hk => by
      rcases List.mem_cons.mp hk with e | hk
      · rw [e]; exact List.mem_cons_self ..
      · exact List.mem_cons_of_mem _ (List.mem_append.mpr (Or.inl hk)))).trans
      (fb.weaken (fun k hk => List.mem_cons_of_mem _ (List.mem_append.mpr (Or.inr hk))))
  have f04 : FF (ck i :: (tnodes (test.kidLams ++ [test.id]) ++ keysL3 body)) b b4 :=
    f03.trans (f34.weaken (fun k hk => by simp only [List.mem_singleton] at hk; rw [hk]; exact List.mem_cons_self ..))
  have ldj4 : ListsDisjoint b4 := (neutral_newCondBranch b3 i).ldj IHb.ldj
  have dO : ∀ k, k ∈ keysL3 orelse → k ∉ ck i :: (tnodes (test.kidLams ++ [test.id]) ++ keysL3 body) := by
    intro k hk h
    rcases List.mem_cons.mp h with e | h
    · exact hi_o (e ▸ hk)
    · rcases List.mem_append.mp h with h | h
      · exact dt k h k (List.mem_append.mpr (Or.inr hk)) rfl
      · exact dbo k h k hk rfl
  have pre4 : Pre σ (keysL3 orelse) b4 :=
    (hp.sub kO).move f04.f f04.x (fun k hk h => hp.disj k hk (kITB k h)) dO ldj4
  have hc4 : InLeaves b4 (emit cur (test.kidLams ++ [test.id])).2 := fun x hx => by rw [hl4]; exact hd3 x hx
  have IHo := horelse b4 a2 _ pre4 hc4
  let b5 := (visitStmts σ orelse b4 a2).1
  have fo : FF (keysL3 orelse) b4 b5 := forelse b4 a2
  have hcl5 : aget i b5.condLeaves = some [b3.leaves] := by rw [fo.f.condLeaves i hi_o]; exact hcl4
  have hd5 : ∀ x, x ∈ (flowBlock body (emit cur (test.kidLams ++ [test.id])).2).normal → x ∈ b5.deref b3.leaves := by
    intro x hx
    apply fo.f.deref
    rw [deref_eq_of_heap (b := b3) (by rw [hb4]; rfl)]
    exact IHb.norm x hx
  have hv5 : Valid b5 := fo.f.valid pre4.valid
  obtain ⟨x1, x2, x3⟩ := exitCondSection_effect b5 i [b3.leaves] hcl5 hv5
  -- what is kept, from each intermediate state to the end
  have f57 : FF [ck i] b5 ((b5.exitCondSection i).endStatement i) :=
    (ff_exitCondSection _ b5 i (by simp)).trans (ff_endStatement _ _ i)
  have k57 : Keeps σ T [] b5 ((b5.exitCondSection i).endStatement i) :=
    keeps_tr ((Tr.nil σ (fo.x.lin pre4.lin)).cons_ck i) f57 (TOk.nil _ _)
  have f37 : FF (ck i :: keysL3 orelse) b3 ((b5.exitCondSection i).endStatement i) :=
    ((f34.weaken (fun k hk => by simp only [List.mem_singleton] at hk; rw [hk]; exact List.mem_cons_self ..)).trans
      (fo.weaken (fun k hk => List.mem_cons_of_mem _ hk))).trans
      (f57.weaken (fun k hk => by simp only [List.mem_singleton] at hk; rw [hk]; exact List.mem_cons_self ..))
  have k37 : Keeps σ T [] b3 ((b5.exitCondSection i).endStatement i) :=
    keeps_tr (((hp.tr.sub kO).move f03.x dO).cons_ck i) f37 (TOk.nil _ _)
  have ft7 : FF (ck i :: (keysL3 body ++ keysL3 orelse)) bt ((b5.exitCondSection i).endStatement i) :=
    ((ff_newCondBranch _ bt i (List.mem_cons_self ..)).trans
      (fb.weaken (fun k hk => List.mem_cons_of_mem _ (List.mem_append.mpr (Or.inl hk))))).trans
      (f37.weaken (fun k hk => by
        rcases List.mem_cons.mp hk with e | hk
        · rw [e]; exact List.mem_cons_self ..
        · exact List.mem_cons_of_mem _ (List.mem_append.mpr (Or.inr hk))))
  have dBO : ∀ k, k ∈ keysL3 body ++ keysL3 orelse → k ∉ ck i :: tnodes (test.kidLams ++ [test.id]) := by
    intro k hk h
    rcases List.mem_cons.mp h with e | h
    · rcases List.mem_append.mp hk with hk | hk
      · exact hi_b (e ▸ hk)
      · exact hi_o (e ▸ hk)
    · exact dt k h k hk rfl
  have kt7 : Keeps σ T curP bt ((b5.exitCondSection i).endStatement i) :=
    keeps_tr (((hp.tr.sub kBO).move f0t.x dBO).cons_ck i) ft7 ((hT.sub kBO).cons_ck i)
  have Pt : Pend σ T curP bt { req := (emit cur (test.kidLams ++ [test.id])).1, normal := [] } :=
    Pend.of_req σ T curP bt _ [] (fun p hp' => (e1 p hp').elim Or.inl (fun h => Or.inr (Or.inr h)))
  simp only [flowStmt]
  refine ⟨Pend.seq (kt7 _ Pt) (Pend.alt (k37 _ IHb.pend).weaken (k57 _ IHo.pend).weaken), ?_, ?_⟩
  · intro x hx
    simp only [Flow.seq, Flow.alt, List.mem_append] at hx
    show x ∈ ((b5.exitCondSection i).endStatement i).leafSet
    rw [B.leafSet_endStatement]
    rcases hx with hx | hx
    · exact x2 _ (by simp) x (hd5 x hx)
    · exact x1 x (IHo.norm x hx)
  · exact (neutral_endStatement _ i).ldj ((neutral_exitCondSection b5 i).ldj IHo.ldj)

/-! ### loops -/

/-- a step that keeps every dictionary, guard list and finished section -/
theorem keeps_same {σ : List Scope} {T : Nat} {curP : List Nat} {b b' : B} (S : SRel b b') (N : Neutral b b') : Keeps σ T curP b b' := by
  have hd : ∀ c, dictOf c b' = dictOf c b := fun c => by cases c <;> simp [dictOf, N.exits, N.continues]
  have pj : ∀ c t G x, PJ c b t G x → PJ c b' t G x :=
    fun c t G x h => S.w.pj h (by rw [hd]) (fun _ _ _ _ => by rw [N.finallySections])
  intro R h
  refine ⟨?_, ?_, ?_, ?_, ?_, fun x hx => by rw [S.errors]; exact h.exempt x hx⟩
  · intro p hp
    rcases h.req p hp with h1 | ⟨c, t, htg, h1⟩ | ⟨h1, h2⟩
    · exact Or.inl (S.edges p h1)
    · exact Or.inr (Or.inl ⟨c, t, htg, S.w.ppat h1 (by rw [hd]) (fun _ _ _ _ => by rw [N.finallySections])⟩)
    · exact Or.inr (Or.inr ⟨h1, startedAt_of_same S.finallySub S.pendingFinally h2⟩)
  · intro x hx; obtain ⟨L, hL, h1⟩ := h.brk x hx; exact ⟨L, hL, pj _ _ _ _ h1⟩
  · intro x hx; obtain ⟨L, hL, h1⟩ := h.cont x hx; exact ⟨L, hL, pj _ _ _ _ h1⟩
  · intro x hx; obtain ⟨F, hF, h1⟩ := h.ret x hx; exact ⟨F, hF, pj _ _ _ _ h1⟩
  · intro x hx
    obtain ⟨h1, h2⟩ := h.raise x hx
    exact ⟨by rw [S.errors]; exact h1, fun hd' hhd => by rw [S.raises]; exact h2 hd' hhd⟩

theorem srel_endStatement (b : B) (i : Nat) : SRel b (b.endStatement i) :=
  ⟨fun p h => by simpa using h, fun r x h => by simpa [B.deref] using h, by simp, by simp, by simp, by simp⟩

theorem keeps_endStatement {σ : List Scope} {T : Nat} {curP : List Nat} (b : B) (i : Nat) : Keeps σ T curP b (b.endStatement i) :=
  keeps_same (srel_endStatement b i) (neutral_endStatement b i)

theorem Pend.out_of_loop {σ : List Scope} {i : Nat} {T : Nat} {curP : List Nat} {b : B} {R : Flow}
    (h : Pend (Scope.loop i :: σ) T curP b R) :
    Pend σ T curP b { ret := R.ret, raise := R.raise, exempt := R.exempt } :=
  ⟨fun _ hx => (List.not_mem_nil hx).elim, fun _ hx => (List.not_mem_nil hx).elim, fun _ hx => (List.not_mem_nil hx).elim,
   h.ret, h.raise, h.exempt⟩

/-- the loop header node, created from a `Src` set -/
theorem loopHeader_src (T : Nat) (curP : List Nat) (b : B) (i h : Nat) (cur : List Nat) (hc : ∀ x, x ∈ cur → Src b T curP x) :
    ∀ p, p ∈ cross cur h → p ∈ (b.enterLoopSection i h).edges ∨ (p.1 ∈ curP ∧ StartedAt (b.enterLoopSection i h) T p.2) := by
  intro p hp
  simp only [cross, List.mem_map] at hp
  obtain ⟨x, hx, rfl⟩ := hp
  have hs : Src ((b.check (ahas i b.sectionEntry || ahas i b.continues) "assert: loop section entered twice").putContinues i []) T curP x :=
    src_of_same (by simp) (by simp) (by simp) (hc x hx)
  rcases pair_addOrdinaryNode h x hs with h1 | ⟨h1, h2⟩
  · exact Or.inl h1
  · exact Or.inr ⟨h1, startedAt_of_same rfl rfl h2⟩

theorem sk_ne_tnodes {i : Nat} {l : List Nat} : sk i ∉ tnodes l := sk_not_tnodes i l
theorem ck_ne_tnodes {i : Nat} {l : List Nat} : ck i ∉ tnodes l := by
  intro hm; obtain ⟨y, _, hy⟩ := List.mem_map.mp hm; exact ck_ne_nk i y hy.symm

/-- A `while`/`for` loop with header node `h` (preceded by the lambdas `lams`), given Lemma B for its two blocks. -/
theorem lemB_loop (σ : List Scope) (i h : Nat) (lams : List Nat) (body orelse : List Stmt) (b : B) (a1 a2 : Acc) (cur : List Nat)
    (T : Nat) (curP : List Nat)
    (hnd : (sk i :: (tnodes (lams ++ [h]) ++ (keysL3 body ++ keysL3 orelse))).Nodup)
    (hp : Pre σ (sk i :: (tnodes (lams ++ [h]) ++ (keysL3 body ++ keysL3 orelse))) b)
    (hT : TOk curP T (sk i :: (tnodes (lams ++ [h]) ++ (keysL3 body ++ keysL3 orelse))))
    (hc : ∀ x, x ∈ cur → Src b T curP x)
    (fbody : ∀ (b : B) (a : Acc), FF (keysL3 body) b (visitStmts (Scope.loop i :: σ) body b a).1)
    (forelse : ∀ (b : B) (a : Acc), FF (keysL3 orelse) b (visitStmts σ orelse b a).1)
    (hbody : ∀ (b : B) (a : Acc) (cur : List Nat), Pre (Scope.loop i :: σ) (keysL3 body) b → InLeaves b cur →
      Post (Scope.loop i :: σ) T [] (visitStmts (Scope.loop i :: σ) body b a).1 (flowBlock body cur))
    (horelse : ∀ (b : B) (a : Acc) (cur : List Nat), Pre σ (keysL3 orelse) b → InLeaves b cur →
      Post σ T [] (visitStmts σ orelse b a).1 (flowBlock orelse cur)) :
    Post σ T curP
      ((((visitStmts σ orelse
          ((visitStmts (Scope.loop i :: σ) body
            ((addOrdinaryNodes ((b.beginStatement i).enterSection i) lams).enterLoopSection i h) a1).1.exitLoopSection i)
          a2).1).exitSection i).endStatement i)
      (Flow.seq { req := (emit cur lams).1 ++ cross (emit cur lams).2 h } (loopFlow h [] body orelse)) := by
  -- keys
  obtain ⟨hi_all, hnd2⟩ := List.nodup_cons.mp hnd
  obtain ⟨ndh, nd3, dh⟩ := List.nodup_append.mp hnd2
  obtain ⟨ndb, ndo, dbo⟩ := List.nodup_append.mp nd3
  have hi_b : sk i ∉ keysL3 body := fun h => hi_all (List.mem_append.mpr (Or.inr (List.mem_append.mpr (Or.inl h))))
  have hi_o : sk i ∉ keysL3 orelse := fun h => hi_all (List.mem_append.mpr (Or.inr (List.mem_append.mpr (Or.inr h))))
  have kH : ∀ k, k ∈ tnodes (lams ++ [h]) → k ∈ sk i :: (tnodes (lams ++ [h]) ++ (keysL3 body ++ keysL3 orelse)) :=
    fun k hk => List.mem_cons_of_mem _ (List.mem_append.mpr (Or.inl hk))
  have kB : ∀ k, k ∈ keysL3 body → k ∈ sk i :: (tnodes (lams ++ [h]) ++ (keysL3 body ++ keysL3 orelse)) :=
    fun k hk => List.mem_cons_of_mem _ (List.mem_append.mpr (Or.inr (List.mem_append.mpr (Or.inl hk))))
  have kO : ∀ k, k ∈ keysL3 orelse → k ∈ sk i :: (tnodes (lams ++ [h]) ++ (keysL3 body ++ keysL3 orelse)) :=
    fun k hk => List.mem_cons_of_mem _ (List.mem_append.mpr (Or.inr (List.mem_append.mpr (Or.inr hk))))
  have kIH : ∀ k, k ∈ sk i :: tnodes (lams ++ [h]) → k ∈ sk i :: (tnodes (lams ++ [h]) ++ (keysL3 body ++ keysL3 orelse)) := by
    intro k hk
    rcases List.mem_cons.mp hk with e | hk
    · rw [e]; exact List.mem_cons_self ..
    · exact kH k hk
  have kIHB : ∀ k, k ∈ sk i :: (tnodes (lams ++ [h]) ++ keysL3 body) → k ∈ sk i :: (tnodes (lams ++ [h]) ++ (keysL3 body ++ keysL3 orelse)) := by
    intro k hk
    rcases List.mem_cons.mp hk with e | hk
    · rw [e]; exact List.mem_cons_self ..
    · rcases List.mem_append.mp hk with hk | hk
      · exact kH k hk
      · exact kB k hk
  have hσi : sk i ∉ scopeKeys σ := fun hk => hp.disj _ hk (List.mem_cons_self ..)
  have dB : ∀ k, k ∈ keysL3 body → k ∉ sk i :: tnodes (lams ++ [h]) := by
    intro k hk h'
    rcases List.mem_cons.mp h' with e | h'
    · exact hi_b (e ▸ hk)
    · exact dh k h' k (List.mem_append.mpr (Or.inl hk)) rfl
  have dO : ∀ k, k ∈ keysL3 orelse → k ∉ sk i :: (tnodes (lams ++ [h]) ++ keysL3 body) := by
    intro k hk h'
    rcases List.mem_cons.mp h' with e | h'
    · exact hi_o (e ▸ hk)
    · rcases List.mem_append.mp h' with h' | h'
      · exact dh k h' k (List.mem_append.mpr (Or.inr hk)) rfl
      · exact dbo k h' k hk rfl
  have nkh : nk h ∈ sk i :: tnodes (lams ++ [h]) := List.mem_cons_of_mem _ (mem_tnodes (by simp))
  have nkl : ∀ n, n ∈ lams → nk n ∈ sk i :: tnodes (lams ++ [h]) :=
    fun n hn => List.mem_cons_of_mem _ (mem_tnodes (List.mem_append.mpr (Or.inl hn)))
  -- states up to the loop entry
  let b1 := (b.beginStatement i).enterSection i
  obtain ⟨s1, s2, s3, s4, s5⟩ := enterSection_effect (b.beginStatement i) i
  have hc1 : ∀ x, x ∈ cur → Src b1 T curP x := fun x hx =>
    src_of_same (b := b) s2 (by simp [b1, B.enterSection]) (by simp [b1, B.enterSection]) (hc x hx)
  have ldj1 : ListsDisjoint b1 := ldj_enterSection i ((neutral_beginStatement b i).ldj hp.ldj)
  let b2 := addOrdinaryNodes b1 lams
  obtain ⟨e1, e2, _⟩ := emit_src T curP lams b1 cur hc1
  have ldj2 : ListsDisjoint b2 := neutral_addOrdinaryNodes_ldj lams b1 ldj1
  have f01 : FF (sk i :: tnodes (lams ++ [h])) b b1 := (ff_beginStatement _ b i).trans (ff_enterSection _ _ i (List.mem_cons_self ..))
  have f12 : FF (sk i :: tnodes (lams ++ [h])) b1 b2 := ff_addOrdinaryNodes _ lams nkl b1
  have f02 := f01.trans f12
  obtain ⟨ex2, hex2, _⟩ := (frame_addOrdinaryNodes [] lams b1).exits i (by simp) [] s1
  let b3 := b2.enterLoopSection i h
  obtain ⟨l1, l2, l3, l4, l5, l6, l7⟩ := enterLoopSection_effect b2 i h
  have f23 : FF (sk i :: tnodes (lams ++ [h])) b2 b3 := ff_enterLoopSection _ b2 i h (List.mem_cons_self ..) nkh
  have f03 := f02.trans f23
  have hex3 : aget i b3.exits = some ex2 := by rw [show b3.exits = b2.exits from l3]; exact hex2
  have ldj3 : ListsDisjoint b3 := ldj_enterLoopSection i h ldj2
  have trB3 : Tr σ (keysL3 body) b3 := (hp.tr.sub kB).move f03.x dB
  have pre3 : Pre (Scope.loop i :: σ) (keysL3 body) b3 := by
    refine ⟨?_, trB3.old, ?_, ?_, ?_, f03.f.valid hp.valid, trB3.lin, ldj3⟩
    · intro k hk
      rcases List.mem_cons.mp hk with hk | hk
      · rw [hk]; exact hi_b
      · exact fun hk' => hp.disj k hk (kB _ hk')
    · intro k hk
      have hki : ck k ∉ sk i :: tnodes (lams ++ [h]) := by
        intro h'
        rcases List.mem_cons.mp h' with e | h'
        · exact sk_ne_ck i k e.symm
        · exact ck_ne_tnodes h'
      rw [f03.f.condEntry k hki]
      exact hp.fresh k (kB _ hk)
    · intro L hL
      have : L = i := by
        have h' : some i = some L := hL
        cases h'; rfl
      subst this
      exact ⟨⟨_, hex3⟩, ⟨_, l1⟩⟩
    · obtain ⟨F, hF, l, hl⟩ := hp.fnOpen
      obtain ⟨l', hl', _⟩ := f03.f.exits F (fun h' => hp.disj _ (enclosingFinally_target_key .fn σ F hF) (kIH _ h')) l hl
      exact ⟨F, hF, l', hl'⟩
  have hc3 : InLeaves b3 [h] := fun x hx => by rw [show b3.leafSet = [h] from l5]; exact hx
  have IHb := hbody b3 a1 [h] pre3 hc3
  let b4 := (visitStmts (Scope.loop i :: σ) body b3 a1).1
  have fb : FF (keysL3 body) b3 b4 := fbody b3 a1
  have hse4 : aget i b4.sectionEntry = some h := by rw [fb.f.sectionEntry i hi_b]; exact l2
  obtain ⟨cs4, hcs4, _⟩ := fb.f.continues i hi_b [] l1
  obtain ⟨ex4, hex4, _⟩ := fb.f.exits i hi_b ex2 hex3
  obtain ⟨X5, x5c, x5l, x5s, x5e⟩ := exitLoopSection_spec b4 i h cs4 hse4 hcs4 IHb.ldj
  let b5 := b4.exitLoopSection i
  -- frames around the loop section
  have f25x : FrameX (sk i :: (tnodes (lams ++ [h]) ++ keysL3 body)) b2 b5 :=
    B.fx_loopSection _ b2 b4 i h (List.mem_cons_self ..) (List.mem_cons_of_mem _ (List.mem_append.mpr (Or.inl (mem_tnodes (by simp)))))
      (fb.x.weaken (fun k hk => List.mem_cons_of_mem _ (List.mem_append.mpr (Or.inr hk))))
  have f25f : Frame (sk i :: (tnodes (lams ++ [h]) ++ keysL3 body)) b2 b5 :=
    ((B.frame_enterLoopSection _ b2 i h (List.mem_cons_self ..)).trans
      (fb.f.weaken (fun k hk => List.mem_cons_of_mem _ (List.mem_append.mpr (Or.inr hk))))).trans
      (B.frame_exitLoopSection _ b4 i (List.mem_cons_self ..))
  have f05 : FF (sk i :: (tnodes (lams ++ [h]) ++ keysL3 body)) b b5 :=
    (f02.weaken (fun k hk => by
      rcases List.mem_cons.mp hk with e | hk
      · rw [e]; exact List.mem_cons_self ..
      · exact List.mem_cons_of_mem _ (List.mem_append.mpr (Or.inl hk)))).trans ⟨f25f, f25x⟩
  have pre5 : Pre σ (keysL3 orelse) b5 :=
    (hp.sub kO).move f05.f f05.x (fun k hk h' => hp.disj k hk (kIHB k h')) dO X5.ldj
  have hc5 : InLeaves b5 [h] := fun x hx => by rw [show b5.leafSet = [h] from x5s]; exact hx
  have IHo := horelse b5 a2 [h] pre5 hc5
  let b6 := (visitStmts σ orelse b5 a2).1
  have fo : FF (keysL3 orelse) b5 b6 := forelse b5 a2
  have hex5 : aget i b5.exits = some ex4 := by rw [show b5.exits = b4.exits from x5e]; exact hex4
  obtain ⟨ex6, hex6, hsub6⟩ := fo.f.exits i hi_o ex4 hex5
  have hv6 : Valid b6 := fo.f.valid pre5.valid
  obtain ⟨X7, x7j, x7l⟩ := exitSection_spec b6 i ex6 hex6 hv6.leaves IHo.ldj
  -- what is kept
  have k78 : ∀ T' cP, Keeps σ T' cP (b6.exitSection i) ((b6.exitSection i).endStatement i) := fun _ _ => keeps_endStatement _ i
  have k67 : ∀ T' cP, Keeps σ T' cP b6 (b6.exitSection i) := fun _ _ => keeps_exit X7 hσi
  have k56 : ∀ T' cP, TOk cP T' (sk i :: (tnodes (lams ++ [h]) ++ (keysL3 body ++ keysL3 orelse))) → Keeps σ T' cP b5 b6 :=
    fun _ _ ht => keeps_tr pre5.tr fo (ht.sub kO)
  have k45 : ∀ T' cP, Keeps σ T' cP b4 b5 := fun _ _ => keeps_exit X5 hσi
  have k34 : ∀ T' cP, TOk cP T' (sk i :: (tnodes (lams ++ [h]) ++ (keysL3 body ++ keysL3 orelse))) → Keeps σ T' cP b3 b4 :=
    fun _ _ ht => keeps_tr ⟨fun k hk h' => hp.disj k hk (kB k h'), trB3.old, trB3.lin⟩ fb (ht.sub kB)
  have k68 : ∀ T' cP, Keeps σ T' cP b6 ((b6.exitSection i).endStatement i) := fun T' cP => (k67 T' cP).trans (k78 T' cP)
  have k48 : ∀ T' cP, TOk cP T' (sk i :: (tnodes (lams ++ [h]) ++ (keysL3 body ++ keysL3 orelse))) →
      Keeps σ T' cP b4 ((b6.exitSection i).endStatement i) :=
    fun T' cP ht => ((k45 T' cP).trans (k56 T' cP ht)).trans (k68 T' cP)
  have k38 : Keeps σ T curP b3 ((b6.exitSection i).endStatement i) := (k34 T curP hT).trans (k48 T curP hT)
  -- the part before the header, and the header
  have Ph : Pend σ T curP b3 { req := (emit cur lams).1 ++ cross (emit cur lams).2 h, normal := [] } := by
    refine Pend.of_req σ T curP b3 _ [] ?_
    intro p hp'
    rcases List.mem_append.mp hp' with hp' | hp'
    · rcases e1 p hp' with h1 | ⟨h1, h2⟩
      · exact Or.inl (f23.f.edges p h1)
      · rcases hT with hT | hT
        · rw [hT] at h1; cases h1
        · exact Or.inr (Or.inr ⟨h1, startedAt_mono f23.x (fun h' => hT (kIH _ h')) h2⟩)
    · rcases loopHeader_src T curP b2 i h _ e2 p hp' with h1 | h1
      · exact Or.inl h1
      · exact Or.inr (Or.inr h1)
  have A := k38 _ Ph
  have Bd := (k48 T [] (TOk.nil _ _) _ IHb.pend.out_of_loop).weaken (curP := curP)
  have C := (k68 T [] _ IHo.pend).weaken (curP := curP)
  have e58 : ∀ p, p ∈ b5.edges → p ∈ ((b6.exitSection i).endStatement i).edges := by
    intro p hp'
    rw [B.endStatement_edges]
    exact X7.edges p (fo.f.edges p hp')
  -- the body's `break`s are leaves at the end
  have hbrk : ∀ x, x ∈ (flowBlock body [h]).brk → x ∈ (b6.exitSection i).leafSet := by
    intro x hx
    obtain ⟨L, hL, hpj⟩ := IHb.pend.brk x hx
    have : L = i := by
      have h' : some i = some L := hL
      cases h'; rfl
    subst this
    have hpj4 : PJ false b4 L [] x := hpj
    rcases X5.pj false L [] x hpj4 with ⟨h', _⟩ | hpj5
    · cases h'
    · exact x7j x (PJ.mono fo.f fo.x pre5.old pre5.lin hi_o hpj5)
  have hcont : ∀ x, x ∈ (flowBlock body [h]).cont → (x, h) ∈ b5.edges := by
    intro x hx
    obtain ⟨L, hL, hpj⟩ := IHb.pend.cont x hx
    have : L = i := by
      have h' : some i = some L := hL
      cases h'; rfl
    subst this
    exact x5c x hpj
  -- the body's pending pairs: those of the loop's own jumps are edges by now
  have hreqB : ∀ p, p ∈ (flowBlock body [h]).req → ReqOk σ ((b6.exitSection i).endStatement i) T curP p := by
    intro p hp'
    rcases IHb.pend.req p hp' with h1 | ⟨c, t, htg, hpp⟩ | ⟨h1, _⟩
    · exact Or.inl (e58 p (X5.edges p h1))
    · have keep6 : ∀ c' t', PPat b5 c' t' p → PPat b6 c' t' p := fun c' t' h' => PPat.mono fo.f fo.x pre5.old pre5.lin h'
      rcases htg with hL | ⟨hc', hF⟩
      · have hti : t = i := by
          have h' : some i = some t := hL
          cases h'; rfl
        subst hti
        cases c with
        | true => exact Or.inl (e58 p (X5.ppe p hpp))
        | false =>
          have h5 := X5.ppk false t p hpp (fun e => by cases e.1)
          have h7 := X7.ppe p (keep6 false t h5)
          exact Or.inl (by rw [B.endStatement_edges]; exact h7)
      · subst hc'
        have hF' : fnOf σ = some t := hF
        have hti : t ≠ i := fun e => hσi (e ▸ enclosingFinally_target_key .fn σ t hF')
        have h5 := X5.ppk false t p hpp (fun e => hti e.2)
        have h7 := X7.ppk false t p (keep6 false t h5) (fun e => hti e.2)
        have P7 : Pend σ T curP (b6.exitSection i) { req := [p], normal := [] } :=
          Pend.of_req σ T curP _ [p] [] (fun q hq => by
            simp only [List.mem_singleton] at hq
            subst hq
            exact Or.inr (Or.inl ⟨false, t, Or.inr ⟨rfl, hF'⟩, h7⟩))
        exact (k78 T curP _ P7).req p (by simp)
    · cases h1
  refine ⟨⟨?_, ?_, ?_, ?_, ?_, ?_⟩, ?_, ?_⟩
  · intro p hp'
    simp only [Flow.seq, loopFlow, emit, List.nil_append, List.mem_append] at hp'
    rcases hp' with (hp' | hp') | hp' | hp' | hp' | hp'
    · exact A.req p (List.mem_append.mpr (Or.inl hp'))
    · exact A.req p (List.mem_append.mpr (Or.inr hp'))
    · exact hreqB p hp'
    · simp only [cross, List.mem_map] at hp'
      obtain ⟨x, hx, rfl⟩ := hp'
      exact Or.inl (e58 _ (x5l x (IHb.norm x hx)))
    · simp only [cross, List.mem_map] at hp'
      obtain ⟨x, hx, rfl⟩ := hp'
      exact Or.inl (e58 _ (hcont x hx))
    · exact C.req p hp'
  · intro x hx
    simp only [Flow.seq, loopFlow, List.nil_append] at hx
    exact C.brk x hx
  · intro x hx
    simp only [Flow.seq, loopFlow, List.nil_append] at hx
    exact C.cont x hx
  · intro x hx
    simp only [Flow.seq, loopFlow, emit, List.nil_append, List.mem_append] at hx
    exact hx.elim (Bd.ret x) (C.ret x)
  · intro x hx
    simp only [Flow.seq, loopFlow, emit, List.nil_append, List.mem_append] at hx
    exact hx.elim (Bd.raise x) (C.raise x)
  · intro x hx
    simp only [Flow.seq, loopFlow, emit, List.nil_append, List.mem_append] at hx
    exact hx.elim (Bd.exempt x) (C.exempt x)
  · intro x hx
    simp only [Flow.seq, loopFlow, emit, List.mem_append] at hx
    show x ∈ ((b6.exitSection i).endStatement i).leafSet
    rw [B.leafSet_endStatement]
    rcases hx with hx | hx
    · exact x7l x (IHo.norm x hx)
    · exact hbrk x hx
  · exact (neutral_endStatement _ i).ldj X7.ldj

end Malt.Cfg
