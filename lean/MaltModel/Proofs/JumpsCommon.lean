import MaltModel.Sem.CoreLemmas
import MaltModel.Conv.JumpsSem
/-
Helper lemmas shared by the three jump-lowering proofs (C01, jump passes):
outcome classification of quiet / jump-free blocks, evaluation of the generated guards.
-/
namespace Malt.Sem.Jumps
open Malt.Sem

/-! ### expression errors are fatal (never a user exception) -/

theorem evalBin_err_fatal {op : BinOp} {a b : Val} {ex : Exc} (h : evalBin op a b = .error ex) :
    Out.fatal (.exc ex) := by
  cases op <;> cases a <;> cases b <;> simp_all [evalBin, Out.fatal] <;> (subst h; trivial)

mutual
theorem evalE_err_fatal (X : Ext) : ∀ (e : Expr) (σ τ : St) (ex : Exc),
    evalE X e σ = (.error ex, τ) → Out.fatal (.exc ex)
  | .const v, σ, τ, ex, h => by simp [evalE] at h
  | .var x, σ, τ, ex, h => by
      simp only [evalE] at h
      split at h
      · simp at h
      · simp at h; rw [← h.1]; trivial
  | .not e, σ, τ, ex, h => by
      simp only [evalE] at h
      split at h
      · simp at h
      · rename_i r hne
        rcases hr : evalE X e σ with ⟨r', τ'⟩
        rw [hr] at h hne
        cases r' with
        | ok v => exact absurd rfl (hne v τ')
        | error ex' => simp at h; obtain ⟨rfl, rfl⟩ := h; exact evalE_err_fatal X e σ _ _ hr
  | .and a b, σ, τ, ex, h => by
      simp only [evalE] at h
      rcases hr : evalE X a σ with ⟨r', τ'⟩
      rw [hr] at h
      cases r' with
      | ok v =>
        simp only at h
        split at h
        · exact evalE_err_fatal X b τ' _ _ h
        · simp at h
      | error ex' => simp at h; obtain ⟨rfl, rfl⟩ := h; exact evalE_err_fatal X a σ _ _ hr
  | .or a b, σ, τ, ex, h => by
      simp only [evalE] at h
      rcases hr : evalE X a σ with ⟨r', τ'⟩
      rw [hr] at h
      cases r' with
      | ok v =>
        simp only at h
        split at h
        · simp at h
        · exact evalE_err_fatal X b τ' _ _ h
      | error ex' => simp at h; obtain ⟨rfl, rfl⟩ := h; exact evalE_err_fatal X a σ _ _ hr
  | .ite c t e, σ, τ, ex, h => by
      simp only [evalE] at h
      rcases hr : evalE X c σ with ⟨r', τ'⟩
      rw [hr] at h
      cases r' with
      | ok v =>
        simp only at h
        split at h
        · exact evalE_err_fatal X t τ' _ _ h
        · exact evalE_err_fatal X e τ' _ _ h
      | error ex' => simp at h; obtain ⟨rfl, rfl⟩ := h; exact evalE_err_fatal X c σ _ _ hr
  | .bin op a b, σ, τ, ex, h => by
      simp only [evalE] at h
      rcases hr : evalE X a σ with ⟨r', τ'⟩
      rw [hr] at h
      cases r' with
      | ok v =>
        simp only at h
        rcases hr2 : evalE X b τ' with ⟨r2, τ2⟩
        rw [hr2] at h
        cases r2 with
        | ok w =>
          simp only at h
          cases hb : evalBin op v w with
          | ok r => rw [hb] at h; simp at h
          | error e' => rw [hb] at h; simp at h; obtain ⟨rfl, rfl⟩ := h; exact evalBin_err_fatal hb
        | error ex' => simp at h; obtain ⟨rfl, rfl⟩ := h; exact evalE_err_fatal X b τ' _ _ hr2
      | error ex' => simp at h; obtain ⟨rfl, rfl⟩ := h; exact evalE_err_fatal X a σ _ _ hr
  | .call f args, σ, τ, ex, h => by
      simp only [evalE] at h
      rcases hr : evalArgs X args σ with ⟨r', τ'⟩
      rw [hr] at h
      cases r' with
      | ok vs => simp at h
      | error ex' => simp at h; obtain ⟨rfl, rfl⟩ := h; exact evalArgs_err_fatal X args σ _ _ hr
theorem evalArgs_err_fatal (X : Ext) : ∀ (es : List Expr) (σ τ : St) (ex : Exc),
    evalArgs X es σ = (.error ex, τ) → Out.fatal (.exc ex)
  | [], σ, τ, ex, h => by simp [evalArgs] at h
  | e :: es, σ, τ, ex, h => by
      simp only [evalArgs] at h
      rcases hr : evalE X e σ with ⟨r', τ'⟩
      rw [hr] at h
      cases r' with
      | ok v =>
        simp only at h
        rcases hr2 : evalArgs X es τ' with ⟨r2, τ2⟩
        rw [hr2] at h
        cases r2 with
        | ok vs => simp at h
        | error ex' => simp at h; obtain ⟨rfl, rfl⟩ := h; exact evalArgs_err_fatal X es τ' _ _ hr2
      | error ex' => simp at h; obtain ⟨rfl, rfl⟩ := h; exact evalE_err_fatal X e σ _ _ hr
end

theorem iterItems_err_fatal {v : Val} {ex : Exc} (h : iterItems v = .error ex) : Out.fatal (.exc ex) := by
  cases v <;> simp_all [iterItems] <;> (subst h; trivial)

theorem fatal_ne_normal {o : Out} (h : Out.fatal o) : o ≠ .normal := by
  intro he; subst he; exact h
theorem fatal_ne_brk {o : Out} (h : Out.fatal o) : o ≠ .brk := by
  intro he; subst he; exact h
theorem fatal_ne_cont {o : Out} (h : Out.fatal o) : o ≠ .cont := by
  intro he; subst he; exact h
theorem fatal_ne_ret {o : Out} (h : Out.fatal o) (v : Val) : o ≠ .ret v := by
  intro he; subst he; exact h

/-! ### handlers of the fragments -/

theorem quietH_find {hs : List (Nat × Block)} {ex : Exc} {hb : Block}
    (hq : quietH hs = true) (h : findHandler hs ex = some hb) : quietB hb = true := by
  cases ex with
  | user t =>
    simp only [findHandler] at h
    induction hs with
    | nil => simp at h
    | cons p hs ih =>
      obtain ⟨t', b⟩ := p
      simp only [quietH, Bool.and_eq_true] at hq
      simp only [List.find?] at h
      split at h
      · simp at h; subst h; exact hq.1
      · exact ih hq.2 h
  | nameError x => simp [findHandler] at h
  | typeError => simp [findHandler] at h

theorem jumpFreeH_find {hs : List (Nat × Block)} {ex : Exc} {hb : Block}
    (hq : jumpFreeH hs = true) (h : findHandler hs ex = some hb) : jumpFreeB hb = true := by
  cases ex with
  | user t =>
    simp only [findHandler] at h
    induction hs with
    | nil => simp at h
    | cons p hs ih =>
      obtain ⟨t', b⟩ := p
      simp only [jumpFreeH, Bool.and_eq_true] at hq
      simp only [List.find?] at h
      split at h
      · simp at h; subst h; exact hq.1
      · exact ih hq.2 h
  | nameError x => simp [findHandler] at h
  | typeError => simp [findHandler] at h

theorem finOKH_find {hs : List (Nat × Block)} {ex : Exc} {hb : Block}
    (hq : finOKH hs = true) (h : findHandler hs ex = some hb) : finOKB hb = true := by
  cases ex with
  | user t =>
    simp only [findHandler] at h
    induction hs with
    | nil => simp at h
    | cons p hs ih =>
      obtain ⟨t', b⟩ := p
      simp only [finOKH, Bool.and_eq_true] at hq
      simp only [List.find?] at h
      split at h
      · simp at h; subst h; exact hq.1
      · exact ih hq.2 h
  | nameError x => simp [findHandler] at h
  | typeError => simp [findHandler] at h

theorem noExtraH_find {hs : List (Nat × Block)} {ex : Exc} {hb : Block}
    (hq : noExtraH hs = true) (h : findHandler hs ex = some hb) : noExtraB hb = true := by
  cases ex with
  | user t =>
    simp only [findHandler] at h
    induction hs with
    | nil => simp at h
    | cons p hs ih =>
      obtain ⟨t', b⟩ := p
      simp only [noExtraH, Bool.and_eq_true] at hq
      simp only [List.find?] at h
      split at h
      · simp at h; subst h; exact hq.1
      · exact ih hq.2 h
  | nameError x => simp [findHandler] at h
  | typeError => simp [findHandler] at h

/-! ### outcome classification -/

/-- A quiet block (no raise/break/continue/return anywhere inside) ends normally or with a fatal exception. -/
theorem quiet_outcome_all (X : Ext) : ∀ n,
    (∀ s σ o σ1, quietS s = true → exec X n s σ = some (o, σ1) → o = .normal ∨ Out.fatal o) ∧
    (∀ b σ o σ1, quietB b = true → execB X n b σ = some (o, σ1) → o = .normal ∨ Out.fatal o) ∧
    (∀ x ex b items σ o σ1, quietB b = true → execFor X n x ex b items σ = some (o, σ1) →
        o = .normal ∨ Out.fatal o) := by
  intro n
  induction n with
  | zero =>
    refine ⟨?_, ?_, ?_⟩
    · intro s σ o σ1 _ h; simp [exec] at h
    · intro b σ o σ1 _ h; simp [execB] at h
    · intro x ex b items σ o σ1 _ h; simp [execFor] at h
  | succ n ih =>
    obtain ⟨ihS, ihB, ihF⟩ := ih
    refine ⟨?_, ?_, ?_⟩
    · intro s σ o σ1 hq h
      cases s with
      | brk => simp [quietS] at hq
      | cont => simp [quietS] at hq
      | ret e => simp [quietS] at hq
      | raise t => simp [quietS] at hq
      | pass => simp [exec] at h; exact Or.inl h.1.symm
      | assign x e =>
        simp only [exec] at h
        rcases hr : evalE X e σ with ⟨r, τ⟩
        rw [hr] at h
        cases r with
        | ok v => simp at h; exact Or.inl h.1.symm
        | error ex => simp at h; rw [← h.1]; exact Or.inr (evalE_err_fatal X e σ _ _ hr)
      | expr e =>
        simp only [exec] at h
        rcases hr : evalE X e σ with ⟨r, τ⟩
        rw [hr] at h
        cases r with
        | ok v => simp at h; exact Or.inl h.1.symm
        | error ex => simp at h; rw [← h.1]; exact Or.inr (evalE_err_fatal X e σ _ _ hr)
      | ifS c t e =>
        simp only [quietS, Bool.and_eq_true] at hq
        simp only [exec] at h
        rcases hr : evalE X c σ with ⟨r, τ⟩
        rw [hr] at h
        cases r with
        | ok v =>
          simp only at h
          split at h
          · exact ihB _ _ _ _ hq.1 h
          · exact ihB _ _ _ _ hq.2 h
        | error ex => simp at h; rw [← h.1]; exact Or.inr (evalE_err_fatal X c σ _ _ hr)
      | whileS c b =>
        have hqw := hq
        simp only [quietS] at hq
        simp only [exec] at h
        rcases hr : evalE X c σ with ⟨r, τ⟩
        rw [hr] at h
        cases r with
        | ok v =>
          simp only at h
          split at h
          · simp at h; exact Or.inl h.1.symm
          · cases hb : execB X n b τ with
            | none => simp [hb] at h
            | some rb =>
              obtain ⟨ob, τ1⟩ := rb
              rw [hb] at h
              have hob := ihB _ _ _ _ hq hb
              cases ob with
              | normal => exact ihS _ _ _ _ hqw h
              | cont => exact ihS _ _ _ _ hqw h
              | brk => simp [Out.fatal] at hob
              | ret v' => simp [Out.fatal] at hob
              | exc e' => simp at h; rw [← h.1]; exact hob
        | error ex => simp at h; rw [← h.1]; exact Or.inr (evalE_err_fatal X c σ _ _ hr)
      | forS x it extra b =>
        simp only [quietS] at hq
        simp only [exec] at h
        rcases hr : evalE X it σ with ⟨r, τ⟩
        rw [hr] at h
        cases r with
        | ok v =>
          simp only at h
          cases hit : iterItems v with
          | error ex => rw [hit] at h; simp at h; rw [← h.1]; exact Or.inr (iterItems_err_fatal hit)
          | ok items =>
            rw [hit] at h; simp only at h
            cases extra with
            | none => exact ihF _ _ _ _ _ _ _ hq h
            | some t =>
              simp only at h
              rcases hr2 : evalE X t τ with ⟨r2, υ⟩
              rw [hr2] at h
              cases r2 with
              | ok tv =>
                simp only at h
                split at h
                · exact ihF _ _ _ _ _ _ _ hq h
                · simp at h; exact Or.inl h.1.symm
              | error ex => simp at h; rw [← h.1]; exact Or.inr (evalE_err_fatal X t τ _ _ hr2)
        | error ex => simp at h; rw [← h.1]; exact Or.inr (evalE_err_fatal X it σ _ _ hr)
      | tryS body hs fin =>
        simp only [quietS, Bool.and_eq_true] at hq
        obtain ⟨⟨hqb, hqh⟩, hqf⟩ := hq
        rw [exec_try] at h
        cases hb : execB X n body σ with
        | none => simp [hb] at h
        | some rb =>
          obtain ⟨ob, τ⟩ := rb
          rw [hb] at h
          simp only [Option.bind_some] at h
          have hob := ihB _ _ _ _ hqb hb
          cases ha : afterH X n hs (ob, τ) with
          | none => simp [ha] at h
          | some ra =>
            obtain ⟨oa, τa⟩ := ra
            rw [ha] at h
            simp only [Option.bind_some] at h
            have hoa : oa = .normal ∨ Out.fatal oa := by
              cases ob with
              | exc ex =>
                rcases hob with hob | hob
                · simp at hob
                · simp only [afterH, findHandler_fatal hob] at ha
                  simp at ha; rw [← ha.1]; exact Or.inr hob
              | normal => simp [afterH] at ha; exact Or.inl ha.1.symm
              | brk => simp [Out.fatal] at hob
              | cont => simp [Out.fatal] at hob
              | ret v => simp [Out.fatal] at hob
            obtain ⟨of, σf, hf, hcase⟩ := finish_some h
            have hof := ihB _ _ _ _ hqf hf
            rcases hcase with ⟨_, heq⟩ | ⟨_, heq⟩
            · simp at heq; rw [heq.1]; exact hoa
            · simp at heq; rw [heq.1]; exact hof
      | withS tag body =>
        simp only [quietS] at hq
        simp only [exec] at h
        cases hb : execB X n body (σ.push (.enter tag)) with
        | none => simp [hb] at h
        | some rb =>
          obtain ⟨ob, τ⟩ := rb
          rw [hb] at h
          simp at h; rw [← h.1]; exact ihB _ _ _ _ hq hb
    · intro b σ o σ1 hq h
      cases b with
      | nil => simp [execB] at h; exact Or.inl h.1.symm
      | cons s rest =>
        simp only [quietB, Bool.and_eq_true] at hq
        obtain ⟨os, σs, hs, hcase⟩ := execB_cons_inv h
        rcases hcase with ⟨_, hr⟩ | ⟨_, hr⟩
        · exact ihB _ _ _ _ hq.2 hr
        · simp at hr; rw [hr.1]; exact ihS _ _ _ _ hq.1 hs
    · intro x ex b items σ o σ1 hq h
      cases items with
      | nil => simp [execFor] at h; exact Or.inl h.1.symm
      | cons v items =>
        cases hb : execB X n b (σ.set x v) with
        | none => rw [execFor_cons_none hb] at h; simp at h
        | some rb =>
          obtain ⟨ob, τ⟩ := rb
          rw [execFor_cons hb] at h
          have hob := ihB _ _ _ _ hq hb
          have hnext : forNext X n x ex b items τ = some (o, σ1) → o = .normal ∨ Out.fatal o := by
            intro h
            cases ex with
            | none => exact ihF _ _ _ _ _ _ _ hq h
            | some t =>
              simp only [forNext] at h
              rcases hr2 : evalE X t τ with ⟨r2, υ⟩
              rw [hr2] at h
              cases r2 with
              | ok tv =>
                simp only at h
                split at h
                · exact ihF _ _ _ _ _ _ _ hq h
                · simp at h; exact Or.inl h.1.symm
              | error e => simp at h; rw [← h.1]; exact Or.inr (evalE_err_fatal X t τ _ _ hr2)
          cases ob with
          | brk => simp [Out.fatal] at hob
          | normal => exact hnext h
          | cont => simp [Out.fatal] at hob
          | ret v' => simp [Out.fatal] at hob
          | exc e' => simp at h; rw [← h.1]; exact hob

theorem quietB_outcome (X : Ext) {n : Nat} {b : Block} {σ σ1 : St} {o : Out}
    (hq : quietB b = true) (h : execB X n b σ = some (o, σ1)) : o = .normal ∨ Out.fatal o :=
  (quiet_outcome_all X n).2.1 b σ o σ1 hq h

/-- A jump-free block (no break/continue/return anywhere inside) ends normally or with an exception. -/
theorem jumpFree_outcome_all (X : Ext) : ∀ n,
    (∀ s σ o σ1, jumpFreeS s = true → exec X n s σ = some (o, σ1) → o = .normal ∨ ∃ e, o = .exc e) ∧
    (∀ b σ o σ1, jumpFreeB b = true → execB X n b σ = some (o, σ1) → o = .normal ∨ ∃ e, o = .exc e) ∧
    (∀ x ex b items σ o σ1, jumpFreeB b = true → execFor X n x ex b items σ = some (o, σ1) →
        o = .normal ∨ ∃ e, o = .exc e) := by
  intro n
  induction n with
  | zero =>
    refine ⟨?_, ?_, ?_⟩
    · intro s σ o σ1 _ h; simp [exec] at h
    · intro b σ o σ1 _ h; simp [execB] at h
    · intro x ex b items σ o σ1 _ h; simp [execFor] at h
  | succ n ih =>
    obtain ⟨ihS, ihB, ihF⟩ := ih
    refine ⟨?_, ?_, ?_⟩
    · intro s σ o σ1 hq h
      cases s with
      | brk => simp [jumpFreeS] at hq
      | cont => simp [jumpFreeS] at hq
      | ret e => simp [jumpFreeS] at hq
      | raise t => simp [exec] at h; rw [← h.1]; exact Or.inr ⟨_, rfl⟩
      | pass => simp [exec] at h; exact Or.inl h.1.symm
      | assign x e =>
        simp only [exec] at h
        split at h <;> simp at h <;> rw [← h.1]
        · exact Or.inl rfl
        · exact Or.inr ⟨_, rfl⟩
      | expr e =>
        simp only [exec] at h
        split at h <;> simp at h <;> rw [← h.1]
        · exact Or.inl rfl
        · exact Or.inr ⟨_, rfl⟩
      | ifS c t e =>
        simp only [jumpFreeS, Bool.and_eq_true] at hq
        simp only [exec] at h
        split at h
        · split at h
          · exact ihB _ _ _ _ hq.1 h
          · exact ihB _ _ _ _ hq.2 h
        · simp at h; rw [← h.1]; exact Or.inr ⟨_, rfl⟩
      | whileS c b =>
        have hqw := hq
        simp only [jumpFreeS] at hq
        simp only [exec] at h
        split at h
        · rename_i v τ hr
          split at h
          · simp at h; exact Or.inl h.1.symm
          · cases hb : execB X n b τ with
            | none => simp [hb] at h
            | some rb =>
              obtain ⟨ob, τ1⟩ := rb
              rw [hb] at h
              have hob := ihB _ _ _ _ hq hb
              cases ob with
              | normal => exact ihS _ _ _ _ hqw h
              | cont => exact ihS _ _ _ _ hqw h
              | brk => simp at hob
              | ret v' => simp at hob
              | exc e' => simp at h; rw [← h.1]; exact Or.inr ⟨_, rfl⟩
        · simp at h; rw [← h.1]; exact Or.inr ⟨_, rfl⟩
      | forS x it extra b =>
        simp only [jumpFreeS] at hq
        simp only [exec] at h
        split at h
        · split at h
          · split at h
            · exact ihF _ _ _ _ _ _ _ hq h
            · split at h
              · split at h
                · exact ihF _ _ _ _ _ _ _ hq h
                · simp at h; exact Or.inl h.1.symm
              · simp at h; rw [← h.1]; exact Or.inr ⟨_, rfl⟩
          · simp at h; rw [← h.1]; exact Or.inr ⟨_, rfl⟩
        · simp at h; rw [← h.1]; exact Or.inr ⟨_, rfl⟩
      | tryS body hs fin =>
        simp only [jumpFreeS, Bool.and_eq_true] at hq
        obtain ⟨⟨hqb, hqh⟩, hqf⟩ := hq
        rw [exec_try] at h
        cases hb : execB X n body σ with
        | none => simp [hb] at h
        | some rb =>
          obtain ⟨ob, τ⟩ := rb
          rw [hb] at h
          simp only [Option.bind_some] at h
          have hob := ihB _ _ _ _ hqb hb
          cases ha : afterH X n hs (ob, τ) with
          | none => simp [ha] at h
          | some ra =>
            obtain ⟨oa, τa⟩ := ra
            rw [ha] at h
            simp only [Option.bind_some] at h
            have hoa : oa = .normal ∨ ∃ e, oa = .exc e := by
              cases ob with
              | exc ex =>
                simp only [afterH] at ha
                cases hf : findHandler hs ex with
                | none => rw [hf] at ha; simp at ha; rw [← ha.1]; exact Or.inr ⟨_, rfl⟩
                | some hbk => rw [hf] at ha; exact ihB _ _ _ _ (jumpFreeH_find hqh hf) ha
              | normal => simp [afterH] at ha; exact Or.inl ha.1.symm
              | brk => simp at hob
              | cont => simp at hob
              | ret v => simp at hob
            obtain ⟨of, σf, hf, hcase⟩ := finish_some h
            have hof := ihB _ _ _ _ hqf hf
            rcases hcase with ⟨_, heq⟩ | ⟨_, heq⟩
            · simp at heq; rw [heq.1]; exact hoa
            · simp at heq; rw [heq.1]; exact hof
      | withS tag body =>
        simp only [jumpFreeS] at hq
        simp only [exec] at h
        cases hb : execB X n body (σ.push (.enter tag)) with
        | none => simp [hb] at h
        | some rb =>
          obtain ⟨ob, τ⟩ := rb
          rw [hb] at h
          simp at h; rw [← h.1]; exact ihB _ _ _ _ hq hb
    · intro b σ o σ1 hq h
      cases b with
      | nil => simp [execB] at h; exact Or.inl h.1.symm
      | cons s rest =>
        simp only [jumpFreeB, Bool.and_eq_true] at hq
        obtain ⟨os, σs, hs, hcase⟩ := execB_cons_inv h
        rcases hcase with ⟨_, hr⟩ | ⟨_, hr⟩
        · exact ihB _ _ _ _ hq.2 hr
        · simp at hr; rw [hr.1]; exact ihS _ _ _ _ hq.1 hs
    · intro x ex b items σ o σ1 hq h
      cases items with
      | nil => simp [execFor] at h; exact Or.inl h.1.symm
      | cons v items =>
        cases hb : execB X n b (σ.set x v) with
        | none => rw [execFor_cons_none hb] at h; simp at h
        | some rb =>
          obtain ⟨ob, τ⟩ := rb
          rw [execFor_cons hb] at h
          have hob := ihB _ _ _ _ hq hb
          have hnext : forNext X n x ex b items τ = some (o, σ1) → o = .normal ∨ ∃ e, o = .exc e := by
            intro h
            cases ex with
            | none => exact ihF _ _ _ _ _ _ _ hq h
            | some t =>
              simp only [forNext] at h
              split at h
              · split at h
                · exact ihF _ _ _ _ _ _ _ hq h
                · simp at h; exact Or.inl h.1.symm
              · simp at h; rw [← h.1]; exact Or.inr ⟨_, rfl⟩
          cases ob with
          | brk => simp at hob
          | normal => exact hnext h
          | cont => simp at hob
          | ret v' => simp at hob
          | exc e' => simp at h; rw [← h.1]; exact Or.inr ⟨_, rfl⟩

theorem jumpFreeB_outcome (X : Ext) {n : Nat} {b : Block} {σ σ1 : St} {o : Out}
    (hq : jumpFreeB b = true) (h : execB X n b σ = some (o, σ1)) : o = .normal ∨ ∃ e, o = .exc e :=
  (jumpFree_outcome_all X n).2.1 b σ o σ1 hq h

/-! ### the generated guards -/

@[simp] theorem truthy_one : truthy (.int 1) = true := rfl
@[simp] theorem truthy_zero : truthy (.int 0) = false := rfl


theorem evalE_notvar_false (X : Ext) {v : Name} {σ : St} (h : σ.env v = some (.int 0)) :
    evalE X (.not (.var v)) σ = (.ok (.int 1), σ) := by
  simp [evalE, h, truthy, ofBool]

theorem evalE_notvar_true (X : Ext) {v : Name} {σ : St} (h : σ.env v = some (.int 1)) :
    evalE X (.not (.var v)) σ = (.ok (.int 0), σ) := by
  simp [evalE, h, truthy, ofBool]

/-- `not v and c` with the flag clear: just `c`. -/
theorem evalE_guard_false (X : Ext) {v : Name} (c : Expr) {σ : St} (h : σ.env v = some (.int 0)) :
    evalE X (guardE v c) σ = evalE X c σ := by
  simp [guardE, evalE, h, truthy, ofBool]

/-- `not v and c` with the flag set: false, `c` is not evaluated. -/
theorem evalE_guard_true (X : Ext) {v : Name} (c : Expr) {σ : St} (h : σ.env v = some (.int 1)) :
    evalE X (guardE v c) σ = (.ok (.int 0), σ) := by
  simp [guardE, evalE, h, truthy, ofBool]

/-- `if not v: body` with the flag clear runs the body. -/
theorem exec_ifNot_false (X : Ext) {v : Name} (body : Block) {σ : St} (n : Nat) (h : σ.env v = some (.int 0)) :
    exec X (n+1) (ifNot v body) σ = execB X n body σ := by
  simp [ifNot, exec, evalE_notvar_false X h, truthy]

/-- `if not v: body` with the flag set does nothing. -/
theorem exec_ifNot_true (X : Ext) {v : Name} (body : Block) {σ : St} (n : Nat) (h : σ.env v = some (.int 1)) :
    exec X (n+2) (ifNot v body) σ = some (.normal, σ) := by
  simp [ifNot, exec, evalE_notvar_true X h, truthy, execB]

theorem exec_assign_const (X : Ext) (x : Name) (v : Val) (σ : St) (n : Nat) :
    exec X (n+1) (.assign x (.const v)) σ = some (.normal, σ.set x v) := by
  simp [exec, evalE]

end Malt.Sem.Jumps
