import MaltModel.Sem.CoreLemmas
import MaltModel.Conv.JumpsSem
import MaltModel.Proofs.JumpsSyntax
/-
Helper lemmas shared by the three jump-lowering proofs (C01, jump passes):
outcome classification of quiet / jump-free blocks, evaluation of the generated guards.
-/
namespace Malt.Sem.Jumps
open Malt.Sem

/-! ### expression errors are fatal (never a user exception) -/

theorem evalBin_err_fatal {op : BinOp} {a b : Val} {ex : Exc} (h : evalBin op a b = .error ex) :
    Out.fatal (.exc ex) := by
  cases op <;> cases a <;> cases b <;> simp_all [evalBin, Out.fatal] <;> (subst h; trivial)

mutual
theorem evalE_err_fatal (X : Ext) : ∀ (e : Expr) (σ τ : St) (ex : Exc),
    evalE X e σ = (.error ex, τ) → Out.fatal (.exc ex)
  | .const v, σ, τ, ex, h => by simp [evalE] at h
  | .var x, σ, τ, ex, h => by
      simp only [evalE] at h
      split at h
      · simp at h
      · simp at h; rw [← h.1]; trivial
  | .not e, σ, τ, ex, h => by
      simp only [evalE] at h
      split at h
      · simp at h
      · rename_i r hne
        rcases hr : evalE X e σ with ⟨r', τ'⟩
        rw [hr] at h hne
        cases r' with
        | ok v => exact absurd rfl (hne v τ')
        | error ex' => simp at h; obtain ⟨rfl, rfl⟩ := h; exact evalE_err_fatal X e σ _ _ hr
  | .and a b, σ, τ, ex, h => by
      simp only [evalE] at h
      rcases hr : evalE X a σ with ⟨r', τ'⟩
      rw [hr] at h
      cases r' with
      | ok v =>
        simp only at h
        split at h
        · exact evalE_err_fatal X b τ' _ _ h
        · simp at h
      | error ex' => simp at h; obtain ⟨rfl, rfl⟩ := h; exact evalE_err_fatal X a σ _ _ hr
  | .or a b, σ, τ, ex, h => by
      simp only [evalE] at h
      rcases hr : evalE X a σ with ⟨r', τ'⟩
      rw [hr] at h
      cases r' with
      | ok v =>
        simp only at h
        split at h
        · simp at h
        · exact evalE_err_fatal X b τ' _ _ h
      | error ex' => simp at h; obtain ⟨rfl, rfl⟩ := h; exact evalE_err_fatal X a σ _ _ hr
  | .ite c t e, σ, τ, ex, h => by
      simp only [evalE] at h
      rcases hr : evalE X c σ with ⟨r', τ'⟩
      rw [hr] at h
      cases r' with
      | ok v =>
        simp only at h
        split at h
        · exact evalE_err_fatal X t τ' _ _ h
        · exact evalE_err_fatal X e τ' _ _ h
      | error ex' => simp at h; obtain ⟨rfl, rfl⟩ := h; exact evalE_err_fatal X c σ _ _ hr
  | .bin op a b, σ, τ, ex, h => by
      simp only [evalE] at h
      rcases hr : evalE X a σ with ⟨r', τ'⟩
      rw [hr] at h
      cases r' with
      | ok v =>
        simp only at h
        rcases hr2 : evalE X b τ' with ⟨r2, τ2⟩
        rw [hr2] at h
        cases r2 with
        | ok w =>
          simp only at h
          cases hb : evalBin op v w with
          | ok r => rw [hb] at h; simp at h
          | error e' => rw [hb] at h; simp at h; obtain ⟨rfl, rfl⟩ := h; exact evalBin_err_fatal hb
        | error ex' => simp at h; obtain ⟨rfl, rfl⟩ := h; exact evalE_err_fatal X b τ' _ _ hr2
      | error ex' => simp at h; obtain ⟨rfl, rfl⟩ := h; exact evalE_err_fatal X a σ _ _ hr
  | .call f args, σ, τ, ex, h => by
      simp only [evalE] at h
      rcases hr : evalArgs X args σ with ⟨r', τ'⟩
      rw [hr] at h
      cases r' with
      | ok vs => simp at h
      | error ex' => simp at h; obtain ⟨rfl, rfl⟩ := h; exact evalArgs_err_fatal X args σ _ _ hr
theorem evalArgs_err_fatal (X : Ext) : ∀ (es : List Expr) (σ τ : St) (ex : Exc),
    evalArgs X es σ = (.error ex, τ) → Out.fatal (.exc ex)
  | [], σ, τ, ex, h => by simp [evalArgs] at h
  | e :: es, σ, τ, ex, h => by
      simp only [evalArgs] at h
      rcases hr : evalE X e σ with ⟨r', τ'⟩
      rw [hr] at h
      cases r' with
      | ok v =>
        simp only at h
        rcases hr2 : evalArgs X es τ' with ⟨r2, τ2⟩
        rw [hr2] at h
        cases r2 with
        | ok vs => simp at h
        | error ex' => simp at h; obtain ⟨rfl, rfl⟩ := h; exact evalArgs_err_fatal X es τ' _ _ hr2
      | error ex' => simp at h; obtain ⟨rfl, rfl⟩ := h; exact evalE_err_fatal X e σ _ _ hr
end

theorem iterItems_err_fatal {v : Val} {ex : Exc} (h : iterItems v = .error ex) : Out.fatal (.exc ex) := by
  cases v <;> simp_all [iterItems] <;> (subst h; trivial)

theorem fatal_ne_normal {o : Out} (h : Out.fatal o) : o ≠ .normal := by
  intro he; subst he; exact h
theorem fatal_ne_brk {o : Out} (h : Out.fatal o) : o ≠ .brk := by
  intro he; subst he; exact h
theorem fatal_ne_cont {o : Out} (h : Out.fatal o) : o ≠ .cont := by
  intro he; subst he; exact h
theorem fatal_ne_ret {o : Out} (h : Out.fatal o) (v : Val) : o ≠ .ret v := by
  intro he; subst he; exact h

/-! ### handlers of the fragments -/

theorem jumpFreeH_find {hs : List (Nat × Block)} {ex : Exc} {hb : Block}
    (hq : jumpFreeH hs = true) (h : findHandler hs ex = some hb) : jumpFreeB hb = true := by
  cases ex with
  | user t =>
    simp only [findHandler] at h
    induction hs with
    | nil => simp at h
    | cons p hs ih =>
      obtain ⟨t', b⟩ := p
      simp only [jumpFreeH, Bool.and_eq_true] at hq
      simp only [List.find?] at h
      split at h
      · simp at h; subst h; exact hq.1
      · exact ih hq.2 h
  | nameError x => simp [findHandler] at h
  | typeError => simp [findHandler] at h

theorem finOKH_find {hs : List (Nat × Block)} {ex : Exc} {hb : Block}
    (hq : finOKH hs = true) (h : findHandler hs ex = some hb) : finOKB hb = true := by
  cases ex with
  | user t =>
    simp only [findHandler] at h
    induction hs with
    | nil => simp at h
    | cons p hs ih =>
      obtain ⟨t', b⟩ := p
      simp only [finOKH, Bool.and_eq_true] at hq
      simp only [List.find?] at h
      split at h
      · simp at h; subst h; exact hq.1
      · exact ih hq.2 h
  | nameError x => simp [findHandler] at h
  | typeError => simp [findHandler] at h

theorem noExtraH_find {hs : List (Nat × Block)} {ex : Exc} {hb : Block}
    (hq : noExtraH hs = true) (h : findHandler hs ex = some hb) : noExtraB hb = true := by
  cases ex with
  | user t =>
    simp only [findHandler] at h
    induction hs with
    | nil => simp at h
    | cons p hs ih =>
      obtain ⟨t', b⟩ := p
      simp only [noExtraH, Bool.and_eq_true] at hq
      simp only [List.find?] at h
      split at h
      · simp at h; subst h; exact hq.1
      · exact ih hq.2 h
  | nameError x => simp [findHandler] at h
  | typeError => simp [findHandler] at h

/-! ### outcome classification -/

/-- The outcome `o` is among those the flags allow (besides `normal` and fatal exceptions). -/
def May (brk cont ret rs : Bool) (o : Out) : Prop :=
  (o = .brk → brk = true) ∧ (o = .cont → cont = true) ∧ (∀ v, o = .ret v → ret = true) ∧
  (∀ t, o = .exc (.user t) → rs = true)

theorem May.normal (a b c d : Bool) : May a b c d .normal := ⟨by simp, by simp, by simp, by simp⟩

theorem May.fatal {a b c d : Bool} {o : Out} (h : Out.fatal o) : May a b c d o := by
  refine ⟨fun he => ?_, fun he => ?_, fun v he => ?_, fun t he => ?_⟩ <;> (subst he; simp [Out.fatal] at h)

theorem May.mono {a b c d a' b' c' d' : Bool} {o : Out} (h : May a b c d o)
    (ha : a = true → a' = true) (hb : b = true → b' = true) (hc : c = true → c' = true)
    (hd : d = true → d' = true) : May a' b' c' d' o :=
  ⟨fun he => ha (h.1 he), fun he => hb (h.2.1 he), fun v he => hc (h.2.2.1 v he), fun t he => hd (h.2.2.2 t he)⟩

/-- What a loop does to the outcome of its body: `break`/`continue` are absorbed. -/
theorem May.loop {a b c d : Bool} {o : Out} (h : May a b c d o) (hb : o ≠ .brk) (hc : o ≠ .cont) :
    May false false c d o :=
  ⟨fun he => absurd he hb, fun he => absurd he hc, h.2.2.1, h.2.2.2⟩

def MayS (s : Stmt) (o : Out) : Prop := May (mayBrkS s) (topContS s) (hasRetS s) (hasRaiseS s) o
def MayB (b : Block) (o : Out) : Prop := May (mayBrkB b) (topContB b) (hasRetB b) (hasRaiseB b) o

theorem mayH_find {hs : List (Nat × Block)} {ex : Exc} {hb : Block} (h : findHandler hs ex = some hb) :
    (mayBrkB hb = true → mayBrkH hs = true) ∧ (topContB hb = true → topContH hs = true) ∧
    (hasRetB hb = true → hasRetH hs = true) ∧ (hasRaiseB hb = true → hasRaiseH hs = true) := by
  cases ex with
  | user t =>
    simp only [findHandler] at h
    induction hs with
    | nil => simp at h
    | cons p hs ih =>
      obtain ⟨t', b⟩ := p
      simp only [List.find?] at h
      simp only [mayBrkH, topContH, hasRetH, hasRaiseH, Bool.or_eq_true]
      split at h
      · simp at h; subst h
        exact ⟨Or.inl, Or.inl, Or.inl, Or.inl⟩
      · obtain ⟨h1, h2, h3, h4⟩ := ih h
        exact ⟨fun x => Or.inr (h1 x), fun x => Or.inr (h2 x), fun x => Or.inr (h3 x), fun x => Or.inr (h4 x)⟩
  | nameError x => simp [findHandler] at h
  | typeError => simp [findHandler] at h

/-- Every outcome is allowed by the syntactic flags of the statement / block. -/
theorem may_outcome_all (X : Ext) : ∀ n,
    (∀ s σ o σ1, exec X n s σ = some (o, σ1) → MayS s o) ∧
    (∀ b σ o σ1, execB X n b σ = some (o, σ1) → MayB b o) ∧
    (∀ x ex b items σ o σ1, execFor X n x ex b items σ = some (o, σ1) →
        May false false (hasRetB b) (hasRaiseB b) o) := by
  intro n
  induction n with
  | zero =>
    refine ⟨?_, ?_, ?_⟩
    · intro s σ o σ1 h; simp [exec] at h
    · intro b σ o σ1 h; simp [execB] at h
    · intro x ex b items σ o σ1 h; simp [execFor] at h
  | succ n ih =>
    obtain ⟨ihS, ihB, ihF⟩ := ih
    refine ⟨?_, ?_, ?_⟩
    · intro s σ o σ1 h
      cases s with
      | brk => simp [exec] at h; rw [← h.1]; exact ⟨fun _ => rfl, by simp, by simp, by simp⟩
      | cont => simp [exec] at h; rw [← h.1]; exact ⟨by simp, fun _ => rfl, by simp, by simp⟩
      | pass => simp [exec] at h; rw [← h.1]; exact May.normal _ _ _ _
      | raise t =>
        simp [exec] at h; rw [← h.1]
        exact ⟨by simp, by simp, by simp, fun _ _ => by simp [hasRaiseS]⟩
      | ret e =>
        cases e with
        | none =>
          simp [exec] at h; rw [← h.1]
          exact ⟨by simp, by simp, fun _ _ => by simp [hasRetS], by simp⟩
        | some e =>
          simp only [exec] at h
          rcases hr : evalE X e σ with ⟨r, τ⟩
          rw [hr] at h
          cases r with
          | ok v => simp at h; rw [← h.1]; exact ⟨by simp, by simp, fun _ _ => by simp [hasRetS], by simp⟩
          | error ex => simp at h; rw [← h.1]; exact May.fatal (evalE_err_fatal X e σ _ _ hr)
      | assign x e =>
        simp only [exec] at h
        rcases hr : evalE X e σ with ⟨r, τ⟩
        rw [hr] at h
        cases r with
        | ok v => simp at h; rw [← h.1]; exact May.normal _ _ _ _
        | error ex => simp at h; rw [← h.1]; exact May.fatal (evalE_err_fatal X e σ _ _ hr)
      | expr e =>
        simp only [exec] at h
        rcases hr : evalE X e σ with ⟨r, τ⟩
        rw [hr] at h
        cases r with
        | ok v => simp at h; rw [← h.1]; exact May.normal _ _ _ _
        | error ex => simp at h; rw [← h.1]; exact May.fatal (evalE_err_fatal X e σ _ _ hr)
      | ifS c t e =>
        simp only [exec] at h
        rcases hr : evalE X c σ with ⟨r, τ⟩
        rw [hr] at h
        cases r with
        | ok v =>
          simp only at h
          split at h
          · exact (ihB _ _ _ _ h).mono (by simp [mayBrkS]; exact Or.inl) (by simp [topContS]; exact Or.inl)
              (by simp [hasRetS]; exact Or.inl) (by simp [hasRaiseS]; exact Or.inl)
          · exact (ihB _ _ _ _ h).mono (by simp [mayBrkS]; exact Or.inr) (by simp [topContS]; exact Or.inr)
              (by simp [hasRetS]; exact Or.inr) (by simp [hasRaiseS]; exact Or.inr)
        | error ex => simp at h; rw [← h.1]; exact May.fatal (evalE_err_fatal X c σ _ _ hr)
      | whileS c b =>
        obtain ⟨hob, hoc⟩ := exec_while_out X h
        rcases hr : evalE X c σ with ⟨r, τ⟩
        cases r with
        | error ex =>
          rw [exec_while_err hr] at h; simp at h; rw [← h.1]; exact May.fatal (evalE_err_fatal X c σ _ _ hr)
        | ok v =>
          cases hv : truthy v with
          | false => rw [exec_while_false hr hv] at h; simp at h; rw [← h.1]; exact May.normal _ _ _ _
          | true =>
            cases hb : execB X n b τ with
            | none => rw [exec_while_none hr hv hb] at h; simp at h
            | some rb =>
              obtain ⟨ob, τ1⟩ := rb
              rw [exec_while_step hr hv hb] at h
              have hmb := ihB _ _ _ _ hb
              cases ob with
              | normal => exact ihS _ _ _ _ h
              | cont => exact ihS _ _ _ _ h
              | brk => simp at h; rw [← h.1]; exact May.normal _ _ _ _
              | ret w =>
                simp at h; rw [← h.1]
                exact (hmb.loop (by simp) (by simp)).mono (by simp) (by simp) (by simp [hasRetS]) (by simp [hasRaiseS])
              | exc e =>
                simp at h; rw [← h.1]
                exact (hmb.loop (by simp) (by simp)).mono (by simp) (by simp) (by simp [hasRetS]) (by simp [hasRaiseS])
      | forS x it extra b =>
        rw [exec_for_eq] at h
        rcases hr : evalE X it σ with ⟨r, τ⟩
        rw [hr] at h
        cases r with
        | error ex => simp at h; rw [← h.1]; exact May.fatal (evalE_err_fatal X it σ _ _ hr)
        | ok v =>
          simp only at h
          cases hit : iterItems v with
          | error ex => rw [hit] at h; simp at h; rw [← h.1]; exact May.fatal (iterItems_err_fatal hit)
          | ok items =>
            rw [hit] at h; simp only at h
            have : May false false (hasRetB b) (hasRaiseB b) o := by
              cases extra with
              | none => exact ihF _ _ _ _ _ _ _ h
              | some t =>
                simp only [forNext] at h
                rcases hr2 : evalE X t τ with ⟨r2, υ⟩
                rw [hr2] at h
                cases r2 with
                | error e => simp at h; rw [← h.1]; exact May.fatal (evalE_err_fatal X t τ _ _ hr2)
                | ok tv =>
                  simp only at h
                  split at h
                  · exact ihF _ _ _ _ _ _ _ h
                  · simp at h; rw [← h.1]; exact May.normal _ _ _ _
            exact this.mono (by simp) (by simp) (by simp [hasRetS]) (by simp [hasRaiseS])
      | tryS body hs fin =>
        obtain ⟨⟨ob, τ⟩, ⟨oa, τa⟩, hb, ha, hfin⟩ := exec_try_inv h
        have hmb := ihB _ _ _ _ hb
        have hma : May (mayBrkB body || mayBrkH hs) (topContB body || topContH hs)
            (hasRetB body || hasRetH hs) (hasRaiseB body || hasRaiseH hs) oa := by
          have hpass : (oa, τa) = (ob, τ) → May (mayBrkB body || mayBrkH hs) (topContB body || topContH hs)
              (hasRetB body || hasRetH hs) (hasRaiseB body || hasRaiseH hs) oa := by
            intro he; simp at he; rw [he.1]
            exact hmb.mono (by intro h; simp [h]) (by intro h; simp [h]) (by intro h; simp [h]) (by intro h; simp [h])
          cases ob with
          | exc ex =>
            simp only [afterH] at ha
            cases hf : findHandler hs ex with
            | none => rw [hf] at ha; simp at ha; exact hpass (by simp [ha])
            | some hbk =>
              rw [hf] at ha
              obtain ⟨h1, h2, h3, h4⟩ := mayH_find hf
              exact (ihB _ _ _ _ ha).mono (by intro h; simp [h1 h]) (by intro h; simp [h2 h])
                (by intro h; simp [h3 h]) (by intro h; simp [h4 h])
          | normal => simp [afterH] at ha; exact hpass (by simp [ha])
          | brk => simp [afterH] at ha; exact hpass (by simp [ha])
          | cont => simp [afterH] at ha; exact hpass (by simp [ha])
          | ret w => simp [afterH] at ha; exact hpass (by simp [ha])
        obtain ⟨of, σf, hf, hcase⟩ := finish_some hfin
        have hmf := ihB _ _ _ _ hf
        rcases hcase with ⟨_, heq⟩ | ⟨_, heq⟩
        · simp at heq; rw [heq.1]
          exact hma.mono (by intro h; simp [mayBrkS, h]) (by intro h; simp [topContS, h])
            (by intro h; simp [hasRetS, h]) (by intro h; simp [hasRaiseS, h])
        · simp at heq; rw [heq.1]
          exact hmf.mono (by intro h; simp [mayBrkS, h]) (by intro h; simp [topContS, h])
            (by intro h; simp [hasRetS, h]) (by intro h; simp [hasRaiseS, h])
      | withS tag body =>
        simp only [exec] at h
        cases hb : execB X n body (σ.push (.enter tag)) with
        | none => simp [hb] at h
        | some rb =>
          obtain ⟨ob, τ⟩ := rb
          rw [hb] at h
          simp at h; rw [← h.1]
          exact (ihB _ _ _ _ hb).mono (by simp [mayBrkS]) (by simp [topContS]) (by simp [hasRetS]) (by simp [hasRaiseS])
    · intro b σ o σ1 h
      cases b with
      | nil => simp [execB] at h; rw [← h.1]; exact May.normal _ _ _ _
      | cons s rest =>
        obtain ⟨os, σs, hs, hcase⟩ := execB_cons_inv h
        rcases hcase with ⟨_, hr⟩ | ⟨_, hr⟩
        · exact (ihB _ _ _ _ hr).mono (by intro h; simp [mayBrkB, h]) (by intro h; simp [topContB, h])
            (by intro h; simp [hasRetB, h]) (by intro h; simp [hasRaiseB, h])
        · simp at hr; rw [hr.1]
          exact (ihS _ _ _ _ hs).mono (by intro h; simp [mayBrkB, h]) (by intro h; simp [topContB, h])
            (by intro h; simp [hasRetB, h]) (by intro h; simp [hasRaiseB, h])
    · intro x ex b items σ o σ1 h
      cases items with
      | nil => simp [execFor] at h; rw [← h.1]; exact May.normal _ _ _ _
      | cons v items =>
        cases hb : execB X n b (σ.set x v) with
        | none => rw [execFor_cons_none hb] at h; simp at h
        | some rb =>
          obtain ⟨ob, τ⟩ := rb
          rw [execFor_cons hb] at h
          have hmb := ihB _ _ _ _ hb
          have hnext : forNext X n x ex b items τ = some (o, σ1) → May false false (hasRetB b) (hasRaiseB b) o := by
            intro h
            cases ex with
            | none => exact ihF _ _ _ _ _ _ _ h
            | some t =>
              simp only [forNext] at h
              rcases hr2 : evalE X t τ with ⟨r2, υ⟩
              rw [hr2] at h
              cases r2 with
              | error e => simp at h; rw [← h.1]; exact May.fatal (evalE_err_fatal X t τ _ _ hr2)
              | ok tv =>
                simp only at h
                split at h
                · exact ihF _ _ _ _ _ _ _ h
                · simp at h; rw [← h.1]; exact May.normal _ _ _ _
          cases ob with
          | brk => simp at h; rw [← h.1]; exact May.normal _ _ _ _
          | normal => exact hnext h
          | cont => exact hnext h
          | ret w => simp at h; rw [← h.1]; exact hmb.loop (by simp) (by simp)
          | exc e => simp at h; rw [← h.1]; exact hmb.loop (by simp) (by simp)

theorem mayB_outcome (X : Ext) {n : Nat} {b : Block} {σ σ1 : St} {o : Out}
    (h : execB X n b σ = some (o, σ1)) : MayB b o :=
  (may_outcome_all X n).2.1 b σ o σ1 h

/-- A block no jump leaves ends normally or with an exception. -/
theorem escFreeB_outcome (X : Ext) {n : Nat} {b : Block} {σ σ1 : St} {o : Out}
    (hq : escFreeB b = true) (h : execB X n b σ = some (o, σ1)) : o = .normal ∨ ∃ e, o = .exc e := by
  have hm := mayB_outcome X h
  simp only [escFreeB, Bool.and_eq_true, Bool.not_eq_true'] at hq
  cases o with
  | normal => exact Or.inl rfl
  | exc e => exact Or.inr ⟨e, rfl⟩
  | brk => have := hm.1 rfl; rw [hq.1.1] at this; cases this
  | cont => have := hm.2.1 rfl; rw [hq.1.2] at this; cases this
  | ret v => have := hm.2.2.1 v rfl; rw [hq.2] at this; cases this

/-- A quiet block ends normally or with a fatal exception. -/
theorem quietB_outcome (X : Ext) {n : Nat} {b : Block} {σ σ1 : St} {o : Out}
    (hq : quietB b = true) (h : execB X n b σ = some (o, σ1)) : o = .normal ∨ Out.fatal o := by
  have hm := mayB_outcome X h
  simp only [quietB, Bool.and_eq_true, Bool.not_eq_true'] at hq
  rcases escFreeB_outcome X hq.1 h with hn | ⟨e, he⟩
  · exact Or.inl hn
  · subst he
    cases e with
    | user t => have := hm.2.2.2 t rfl; rw [hq.2] at this; cases this
    | nameError x => exact Or.inr trivial
    | typeError => exact Or.inr trivial

/-- A jump-free block (no break/continue/return anywhere inside) ends normally or with an exception. -/
theorem jumpFree_outcome_all (X : Ext) : ∀ n,
    (∀ s σ o σ1, jumpFreeS s = true → exec X n s σ = some (o, σ1) → o = .normal ∨ ∃ e, o = .exc e) ∧
    (∀ b σ o σ1, jumpFreeB b = true → execB X n b σ = some (o, σ1) → o = .normal ∨ ∃ e, o = .exc e) ∧
    (∀ x ex b items σ o σ1, jumpFreeB b = true → execFor X n x ex b items σ = some (o, σ1) →
        o = .normal ∨ ∃ e, o = .exc e) := by
  intro n
  induction n with
  | zero =>
    refine ⟨?_, ?_, ?_⟩
    · intro s σ o σ1 _ h; simp [exec] at h
    · intro b σ o σ1 _ h; simp [execB] at h
    · intro x ex b items σ o σ1 _ h; simp [execFor] at h
  | succ n ih =>
    obtain ⟨ihS, ihB, ihF⟩ := ih
    refine ⟨?_, ?_, ?_⟩
    · intro s σ o σ1 hq h
      cases s with
      | brk => simp [jumpFreeS] at hq
      | cont => simp [jumpFreeS] at hq
      | ret e => simp [jumpFreeS] at hq
      | raise t => simp [exec] at h; rw [← h.1]; exact Or.inr ⟨_, rfl⟩
      | pass => simp [exec] at h; exact Or.inl h.1.symm
      | assign x e =>
        simp only [exec] at h
        split at h <;> simp at h <;> rw [← h.1]
        · exact Or.inl rfl
        · exact Or.inr ⟨_, rfl⟩
      | expr e =>
        simp only [exec] at h
        split at h <;> simp at h <;> rw [← h.1]
        · exact Or.inl rfl
        · exact Or.inr ⟨_, rfl⟩
      | ifS c t e =>
        simp only [jumpFreeS, Bool.and_eq_true] at hq
        simp only [exec] at h
        split at h
        · split at h
          · exact ihB _ _ _ _ hq.1 h
          · exact ihB _ _ _ _ hq.2 h
        · simp at h; rw [← h.1]; exact Or.inr ⟨_, rfl⟩
      | whileS c b =>
        have hqw := hq
        simp only [jumpFreeS] at hq
        simp only [exec] at h
        split at h
        · rename_i v τ hr
          split at h
          · simp at h; exact Or.inl h.1.symm
          · cases hb : execB X n b τ with
            | none => simp [hb] at h
            | some rb =>
              obtain ⟨ob, τ1⟩ := rb
              rw [hb] at h
              have hob := ihB _ _ _ _ hq hb
              cases ob with
              | normal => exact ihS _ _ _ _ hqw h
              | cont => exact ihS _ _ _ _ hqw h
              | brk => simp at hob
              | ret v' => simp at hob
              | exc e' => simp at h; rw [← h.1]; exact Or.inr ⟨_, rfl⟩
        · simp at h; rw [← h.1]; exact Or.inr ⟨_, rfl⟩
      | forS x it extra b =>
        simp only [jumpFreeS] at hq
        simp only [exec] at h
        split at h
        · split at h
          · split at h
            · exact ihF _ _ _ _ _ _ _ hq h
            · split at h
              · split at h
                · exact ihF _ _ _ _ _ _ _ hq h
                · simp at h; exact Or.inl h.1.symm
              · simp at h; rw [← h.1]; exact Or.inr ⟨_, rfl⟩
          · simp at h; rw [← h.1]; exact Or.inr ⟨_, rfl⟩
        · simp at h; rw [← h.1]; exact Or.inr ⟨_, rfl⟩
      | tryS body hs fin =>
        simp only [jumpFreeS, Bool.and_eq_true] at hq
        obtain ⟨⟨hqb, hqh⟩, hqf⟩ := hq
        rw [exec_try] at h
        cases hb : execB X n body σ with
        | none => simp [hb] at h
        | some rb =>
          obtain ⟨ob, τ⟩ := rb
          rw [hb] at h
          simp only [Option.bind_some] at h
          have hob := ihB _ _ _ _ hqb hb
          cases ha : afterH X n hs (ob, τ) with
          | none => simp [ha] at h
          | some ra =>
            obtain ⟨oa, τa⟩ := ra
            rw [ha] at h
            simp only [Option.bind_some] at h
            have hoa : oa = .normal ∨ ∃ e, oa = .exc e := by
              cases ob with
              | exc ex =>
                simp only [afterH] at ha
                cases hf : findHandler hs ex with
                | none => rw [hf] at ha; simp at ha; rw [← ha.1]; exact Or.inr ⟨_, rfl⟩
                | some hbk => rw [hf] at ha; exact ihB _ _ _ _ (jumpFreeH_find hqh hf) ha
              | normal => simp [afterH] at ha; exact Or.inl ha.1.symm
              | brk => simp at hob
              | cont => simp at hob
              | ret v => simp at hob
            obtain ⟨of, σf, hf, hcase⟩ := finish_some h
            have hof := ihB _ _ _ _ hqf hf
            rcases hcase with ⟨_, heq⟩ | ⟨_, heq⟩
            · simp at heq; rw [heq.1]; exact hoa
            · simp at heq; rw [heq.1]; exact hof
      | withS tag body =>
        simp only [jumpFreeS] at hq
        simp only [exec] at h
        cases hb : execB X n body (σ.push (.enter tag)) with
        | none => simp [hb] at h
        | some rb =>
          obtain ⟨ob, τ⟩ := rb
          rw [hb] at h
          simp at h; rw [← h.1]; exact ihB _ _ _ _ hq hb
    · intro b σ o σ1 hq h
      cases b with
      | nil => simp [execB] at h; exact Or.inl h.1.symm
      | cons s rest =>
        simp only [jumpFreeB, Bool.and_eq_true] at hq
        obtain ⟨os, σs, hs, hcase⟩ := execB_cons_inv h
        rcases hcase with ⟨_, hr⟩ | ⟨_, hr⟩
        · exact ihB _ _ _ _ hq.2 hr
        · simp at hr; rw [hr.1]; exact ihS _ _ _ _ hq.1 hs
    · intro x ex b items σ o σ1 hq h
      cases items with
      | nil => simp [execFor] at h; exact Or.inl h.1.symm
      | cons v items =>
        cases hb : execB X n b (σ.set x v) with
        | none => rw [execFor_cons_none hb] at h; simp at h
        | some rb =>
          obtain ⟨ob, τ⟩ := rb
          rw [execFor_cons hb] at h
          have hob := ihB _ _ _ _ hq hb
          have hnext : forNext X n x ex b items τ = some (o, σ1) → o = .normal ∨ ∃ e, o = .exc e := by
            intro h
            cases ex with
            | none => exact ihF _ _ _ _ _ _ _ hq h
            | some t =>
              simp only [forNext] at h
              split at h
              · split at h
                · exact ihF _ _ _ _ _ _ _ hq h
                · simp at h; exact Or.inl h.1.symm
              · simp at h; rw [← h.1]; exact Or.inr ⟨_, rfl⟩
          cases ob with
          | brk => simp at hob
          | normal => exact hnext h
          | cont => simp at hob
          | ret v' => simp at hob
          | exc e' => simp at h; rw [← h.1]; exact Or.inr ⟨_, rfl⟩

theorem jumpFreeB_outcome (X : Ext) {n : Nat} {b : Block} {σ σ1 : St} {o : Out}
    (hq : jumpFreeB b = true) (h : execB X n b σ = some (o, σ1)) : o = .normal ∨ ∃ e, o = .exc e :=
  (jumpFree_outcome_all X n).2.1 b σ o σ1 hq h

/-! ### the generated guards -/

@[simp] theorem truthy_one : truthy (.int 1) = true := rfl
@[simp] theorem truthy_zero : truthy (.int 0) = false := rfl


theorem evalE_notvar_false (X : Ext) {v : Name} {σ : St} (h : σ.env v = some (.int 0)) :
    evalE X (.not (.var v)) σ = (.ok (.int 1), σ) := by
  simp [evalE, h, truthy, ofBool]

theorem evalE_notvar_true (X : Ext) {v : Name} {σ : St} (h : σ.env v = some (.int 1)) :
    evalE X (.not (.var v)) σ = (.ok (.int 0), σ) := by
  simp [evalE, h, truthy, ofBool]

/-- `not v and c` with the flag clear: just `c`. -/
theorem evalE_guard_false (X : Ext) {v : Name} (c : Expr) {σ : St} (h : σ.env v = some (.int 0)) :
    evalE X (guardE v c) σ = evalE X c σ := by
  simp [guardE, evalE, h, truthy, ofBool]

/-- `not v and c` with the flag set: false, `c` is not evaluated. -/
theorem evalE_guard_true (X : Ext) {v : Name} (c : Expr) {σ : St} (h : σ.env v = some (.int 1)) :
    evalE X (guardE v c) σ = (.ok (.int 0), σ) := by
  simp [guardE, evalE, h, truthy, ofBool]

/-- `if not v: body` with the flag clear runs the body. -/
theorem exec_ifNot_false (X : Ext) {v : Name} (body : Block) {σ : St} (n : Nat) (h : σ.env v = some (.int 0)) :
    exec X (n+1) (ifNot v body) σ = execB X n body σ := by
  simp [ifNot, exec, evalE_notvar_false X h, truthy]

/-- `if not v: body` with the flag set does nothing. -/
theorem exec_ifNot_true (X : Ext) {v : Name} (body : Block) {σ : St} (n : Nat) (h : σ.env v = some (.int 1)) :
    exec X (n+2) (ifNot v body) σ = some (.normal, σ) := by
  simp [ifNot, exec, evalE_notvar_true X h, truthy, execB]

theorem exec_assign_const (X : Ext) (x : Name) (v : Val) (σ : St) (n : Nat) :
    exec X (n+1) (.assign x (.const v)) σ = some (.normal, σ.set x v) := by
  simp [exec, evalE]

end Malt.Sem.Jumps
