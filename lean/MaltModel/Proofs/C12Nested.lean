import MaltModel.Proofs.C12Stack
/-!
Nested `malt.convert` wrappers (the re-raise path): an exception that an inner wrapper has already
re-created travels on through the enclosing converted calls; every one of them still adds its frame.
-/
namespace Malt.Errors

/-- One `converted_call` level as it attaches: the traceback it sees is
`dropped :: pre ++ site :: below` (`dropped` = the `converted_call` frame the `[1:]` removes). `below`
is whatever the traceback of the exception in flight holds under the site — the callee's frames, or,
after an inner wrapper raised a fresh exception, only that wrapper's frame. -/
structure ALevel where
  map : SourceMap
  dropped : Frame
  pre : List Frame
  site : Frame
  below : List Frame
  siteOrigin : Origin

def ALevel.level (a : ALevel) : Level := ⟨a.dropped :: (a.pre ++ a.site :: a.below), a.map⟩

/-- The site is in the map, nothing below it is. -/
def ALevel.ok (a : ALevel) : Prop :=
  get a.map ⟨a.site.file, a.site.line⟩ = some a.siteOrigin ∧ ∀ f ∈ a.below, get a.map ⟨f.file, f.line⟩ = none

instance (a : ALevel) : Decidable a.ok := by unfold ALevel.ok; infer_instance

/-- `none` = a `malt.convert` wrapper re-raising, `some a` = a converted_call attaching. -/
def evOf : Option ALevel → Event
  | none => .rethrow
  | some a => .attach a.level

theorem attach_ok (en es api : String) (a : ALevel) (h : a.ok) (prev : Option Metadata) :
    attach a.level.tb prev en es a.map api =
      match prev with
      | none => some ⟨elide api a.below.reverse [] ++ [FrameInfo.ofOrigin a.siteOrigin], en ++ ": " ++ es⟩
      | some c => some ⟨c.stack ++ [FrameInfo.ofOrigin a.siteOrigin], c.cause⟩ := by
  have hts := stackInside_site a.map api a.pre a.below a.site a.siteOrigin h.1 h.2
  cases prev with
  | none => simp [attach, Gen.Errors.attachDropsFrames, ALevel.level, Metadata.init, hts]
  | some c => simp [attach, Gen.Errors.attachDropsFrames, ALevel.level, Metadata.init, hts]

/-- The wrapper's re-raise hands the metadata on and leaves the exception attachable. -/
theorem wrapperRethrow_some (hpt : Gen.Errors.toExceptionSetsPassThrough = false) (md : Metadata) :
    wrapperRethrow ⟨some md, false⟩ = ⟨some md, false⟩ := by
  simp [wrapperRethrow, hpt]

theorem runEvents_accumulates (hpt : Gen.Errors.toExceptionSetsPassThrough = false)
    (en es api : String) (rest : List (Option ALevel)) (md : Metadata)
    (hr : ∀ a, some a ∈ rest → a.ok) :
    runEvents en es api (rest.map evOf) ⟨some md, false⟩ =
      some ⟨some ⟨md.stack ++ (rest.filterMap id).map (fun a => FrameInfo.ofOrigin a.siteOrigin), md.cause⟩, false⟩ := by
  induction rest generalizing md with
  | nil => simp [runEvents]
  | cons e rest ih =>
    have hr' : ∀ a, some a ∈ rest → a.ok := fun a ha => hr a (List.mem_cons_of_mem _ ha)
    cases e with
    | none =>
      simp only [List.map_cons, evOf, runEvents, wrapperRethrow_some hpt]
      rw [ih md hr']; simp
    | some a =>
      have ha := hr a (by simp)
      have hat := attach_ok en es api a ha (some md)
      have hlv : a.level.map = a.map := rfl
      simp only [List.map_cons, evOf, runEvents, attachState, Bool.and_false, hlv, hat]
      simp only [Bool.false_eq_true, if_false, Option.map_some]
      rw [ih _ hr']
      simp

end Malt.Errors
