import MaltModel.Conv.ParserImage
import MaltModel.Proofs.C17Fresh
/- C17 helper lemmas: the node-local part of `parserImage` is invariant under copy_clean and the ContextAdjuster, and is
preserved by template instantiation when template and bindings satisfy it. -/
set_option linter.unusedSimpArgs false
set_option linter.unusedVariables false
namespace Malt.Conv.Template
open Malt.Py Malt.Conv

mutual
theorem copy_piE : ∀ (e : Expr) (n : Nat), piE (copyE e n).1 = piE e
  | .noneMarker, n => by simp [copyE]
  | .name _ f_s f_ctx, n => by simp [copyE, piE]
  | .attr _ f_value f_attr f_ctx, n => by simp [copyE, piE, copy_piE f_value]
  | .subscript _ f_value f_slice f_ctx, n => by simp [copyE, piE, copy_piE f_value, copy_piE f_slice]
  | .seq _ f_kind f_elts f_ctx, n => by simp [copyE, piE, copy_piEs f_elts]
  | .starred _ f_value f_ctx, n => by simp [copyE, piE, copy_piE f_value]
  | .const _ f_kind f_repr, n => by simp [copyE, piE]
  | .call _ f_func f_args f_keywords, n => by simp [copyE, piE, copy_piE f_func, copy_piEs f_args, copy_piEs f_keywords]
  | .keyword _ f_arg f_hasArg f_value, n => by simp [copyE, piE, copy_piE f_value]
  | .boolop _ f_isAnd f_values, n => by simp [copyE, piE, copy_piEs f_values]
  | .unary _ f_op f_operand, n => by simp [copyE, piE, copy_piE f_operand]
  | .binop _ f_op f_left f_right, n => by simp [copyE, piE, copy_piE f_left, copy_piE f_right]
  | .compare _ f_left f_ops f_comparators, n => by simp [copyE, piE, copy_piE f_left, copy_piEs f_comparators]
  | .ifexp _ f_test f_body f_orelse, n => by simp [copyE, piE, copy_piE f_test, copy_piE f_body, copy_piE f_orelse]
  | .lambda _ f_args f_body, n => by simp [copyE, piE, copy_piE f_args, copy_piE f_body]
  | .namedexpr _ f_target f_value, n => by simp [copyE, piE, copy_piE f_target, copy_piE f_value]
  | .comp _ f_kind f_elts f_generators, n => by simp [copyE, piE, copy_piEs f_elts, copy_piEs f_generators]
  | .comprehension _ f_target f_iter f_ifs f_isAsync, n => by simp [copyE, piE, copy_piE f_target, copy_piE f_iter, copy_piEs f_ifs]
  | .arguments _ f_posonly f_args f_vararg f_kwonly f_kwDefaults f_kwarg f_defaults, n => by simp [copyE, piE, copy_piEs f_posonly, copy_piEs f_args, copy_piEs f_vararg, copy_piEs f_kwonly, copy_piEs f_kwDefaults, copy_piEs f_kwarg, copy_piEs f_defaults]
  | .arg _ f_name f_annotation, n => by simp [copyE, piE, copy_piEs f_annotation]
  | .withitem _ f_contextExpr f_optionalVars, n => by simp [copyE, piE, copy_piE f_contextExpr, copy_piEs f_optionalVars]
  | .other _ f_kind f_attrs f_kids, n => by simp [copyE, piE, copy_piEs f_kids]
theorem copy_piEs : ∀ (es : List Expr) (n : Nat), piEs (copyEs es n).1 = piEs es
  | [], n => by simp [copyEs]
  | e :: es, n => by simp [copyEs, piEs, copy_piE e, copy_piEs es]
end
mutual
theorem copy_piS : ∀ (s : Stmt) (n : Nat), piS (copyS s n).1 = piS s
  | .functionDef _ f_name f_args f_body f_decorators f_returns f_isAsync, n => by simp [copyS, piS, copy_piE f_args, copy_piSs f_body, copy_piEs f_decorators, copy_piEs f_returns]
  | .classDef _ f_name f_bases f_keywords f_body f_decorators, n => by simp [copyS, piS, copy_piEs f_bases, copy_piEs f_keywords, copy_piSs f_body, copy_piEs f_decorators]
  | .ret _ f_value, n => by simp [copyS, piS, copy_piEs f_value]
  | .delete _ f_targets, n => by simp [copyS, piS, copy_piEs f_targets]
  | .assign _ f_targets f_value, n => by simp [copyS, piS, copy_piEs f_targets, copy_piE f_value]
  | .augAssign _ f_target f_op f_value, n => by simp [copyS, piS, copy_piE f_target, copy_piE f_value]
  | .annAssign _ f_target f_annotation f_value f_simple, n => by simp [copyS, piS, copy_piE f_target, copy_piE f_annotation, copy_piEs f_value]
  | .for_ _ f_target f_iter f_body f_orelse f_extraTest f_isAsync, n => by simp [copyS, piS, copy_piE f_target, copy_piE f_iter, copy_piSs f_body, copy_piSs f_orelse, copy_piEs f_extraTest]
  | .while_ _ f_test f_body f_orelse, n => by simp [copyS, piS, copy_piE f_test, copy_piSs f_body, copy_piSs f_orelse]
  | .if_ _ f_test f_body f_orelse, n => by simp [copyS, piS, copy_piE f_test, copy_piSs f_body, copy_piSs f_orelse]
  | .with_ _ f_items f_body f_isAsync, n => by simp [copyS, piS, copy_piEs f_items, copy_piSs f_body]
  | .raise _ f_exc f_cause, n => by simp [copyS, piS, copy_piEs f_exc, copy_piEs f_cause]
  | .try_ _ f_body f_handlers f_orelse f_finalbody, n => by simp [copyS, piS, copy_piSs f_body, copy_piSs f_handlers, copy_piSs f_orelse, copy_piSs f_finalbody]
  | .handler _ f_type_ f_name f_body, n => by simp [copyS, piS, copy_piEs f_type_, copy_piSs f_body]
  | .assert_ _ f_test f_msg, n => by simp [copyS, piS, copy_piE f_test, copy_piEs f_msg]
  | .import_ _ f_names, n => by simp [copyS, piS]
  | .importFrom _ f_module f_names f_level, n => by simp [copyS, piS]
  | .global _ f_names, n => by simp [copyS, piS]
  | .nonlocal _ f_names, n => by simp [copyS, piS]
  | .expr _ f_value, n => by simp [copyS, piS, copy_piE f_value]
  | .pass _, n => by simp [copyS, piS]
  | .break_ _, n => by simp [copyS, piS]
  | .continue_ _, n => by simp [copyS, piS]
  | .other _ f_kind f_exprs f_blocks, n => by simp [copyS, piS, copy_piEs f_exprs, copy_piSs f_blocks]
theorem copy_piSs : ∀ (ss : List Stmt) (n : Nat), piSs (copySs ss n).1 = piSs ss
  | [], n => by simp [copySs]
  | s :: ss, n => by simp [copySs, piSs, copy_piS s, copy_piSs ss]
end

mutual
theorem adjust_piE : ∀ (c : Ctx) (e : Expr), piE (adjust c e) = piE e
  | c, .noneMarker => by simp [adjust]
  | c, .name .. => by simp [adjust, piE]
  | c, .attr _ v _ _ => by simp [adjust, piE, adjust_piE .load v]
  | c, .subscript _ v s _ => by simp [adjust, piE, adjust_piE .load v, adjust_piE .load s]
  | c, .seq _ k es _ => by simp [adjust, piE, adjust_piEs c es]
  | c, .starred _ v _ => by simp [adjust, piE, adjust_piE c v]
  | c, .const .. => by simp [adjust]
  | c, .call .. => by simp [adjust]
  | c, .lambda .. => by simp [adjust]
  | c, .comprehension .. => by simp [adjust]
  | c, .keyword _ _ _ v => by simp [adjust, piE, adjust_piE c v]
  | c, .boolop _ _ vs => by simp [adjust, piE, adjust_piEs c vs]
  | c, .unary _ _ e => by simp [adjust, piE, adjust_piE c e]
  | c, .binop _ _ l r => by simp [adjust, piE, adjust_piE c l, adjust_piE c r]
  | c, .compare _ l _ rs => by simp [adjust, piE, adjust_piE c l, adjust_piEs c rs]
  | c, .ifexp _ t b e => by simp [adjust, piE, adjust_piE c t, adjust_piE c b, adjust_piE c e]
  | c, .namedexpr _ t v => by simp [adjust, piE, adjust_piE c t, adjust_piE c v]
  | c, .comp _ _ es gs => by simp [adjust, piE, adjust_piEs c es, adjust_piEs c gs]
  | c, .arguments _ po ar va ko kd kw df => by
      simp [adjust, piE, adjust_piEs c po, adjust_piEs c ar, adjust_piEs c va, adjust_piEs c ko, adjust_piEs c kd, adjust_piEs c kw, adjust_piEs c df]
  | c, .arg _ _ an => by simp [adjust, piE, adjust_piEs c an]
  | c, .withitem _ ce ov => by simp [adjust, piE, adjust_piE c ce, adjust_piEs c ov]
  | c, .other _ k _ kids => by
      by_cases hk : k = "Dict"
      · simp [adjust, hk]
      · simp [adjust, hk, piE, adjust_piEs c kids]
theorem adjust_piEs : ∀ (c : Ctx) (es : List Expr), piEs (adjustEs c es) = piEs es
  | c, [] => by simp [adjustEs]
  | c, e :: es => by simp [adjustEs, piEs, adjust_piE c e, adjust_piEs c es]
end

theorem adjTop_piE (c : Ctx) (e : Expr) : piE (adjTop c e) = piE e := by
  unfold adjTop
  split
  · exact adjust_piE c e
  · rfl

theorem map_adjTop_piEs (c : Ctx) : ∀ (es : List Expr), piEs (es.map (adjTop c)) = piEs es
  | [] => rfl
  | e :: es => by simp [piEs, adjTop_piE, map_adjTop_piEs c es]

/-- every bound node / statement is in the parser's image (node-local part) -/
def bindingPi : Binding → Bool
  | .node e => piE e
  | .nodes es => piEs es
  | .stmt s => piS s
  | .stmts ss => piSs ss

def bindingsPi (b : Bindings) : Bool := b.all fun p => bindingPi p.2

theorem bindingsPi_lookup : ∀ (b : Bindings) (nm : String) (bd : Binding), bindingsPi b = true → b.lookup nm = some bd → bindingPi bd = true
  | [], nm, bd, _, h => by simp [List.lookup] at h
  | (k, v) :: r, nm, bd, hb, h => by
      simp only [bindingsPi, List.all_cons, Bool.and_eq_true] at hb
      simp only [List.lookup] at h
      split at h
      · simp only [Option.some.injEq] at h
        subst h
        exact hb.1
      · exact bindingsPi_lookup r nm bd hb.2 h

theorem piEs_append : ∀ (l r : List Expr), piEs (l ++ r) = (piEs l && piEs r)
  | [], r => by simp [piEs]
  | e :: l, r => by simp [piEs, piEs_append l r, Bool.and_assoc]

theorem piSs_append : ∀ (l r : List Stmt), piSs (l ++ r) = (piSs l && piSs r)
  | [], r => by simp [piSs]
  | e :: l, r => by simp [piSs, piSs_append l r, Bool.and_assoc]

theorem piEs_exprs (bd : Binding) (h : bindingPi bd = true) : piEs bd.exprs = true := by
  cases bd <;> simp_all [bindingPi, Binding.exprs, piEs]

theorem argRepl_pi : ∀ (es : List Expr) (n : Nat), piEs es = true → piEs (argRepl es n).1 = true
  | [], n, _ => by simp [argRepl, piEs]
  | e :: es, n, h => by
      simp only [piEs, Bool.and_eq_true] at h
      have ih := fun m => argRepl_pi es m h.2
      cases e <;> simp_all [argRepl, piEs, piE]

mutual
theorem instE_pi (b : Bindings) (hb : bindingsPi b = true) : ∀ (e : Expr) (n : Nat) (r : List Expr) (n' : Nat),
    piE e = true → instE b e n = .ok (r, n') → piEs r = true
  | .noneMarker, n, r, n', _, h => by
      simp only [instE, Except.ok.injEq, Prod.mk.injEq] at h
      obtain ⟨rfl, rfl⟩ := h
      simp [piEs, piE]
  | .name _ s c, n, r, n', hp, h => by
      simp only [instE] at h
      split at h
      · simp only [Except.ok.injEq, Prod.mk.injEq] at h
        obtain ⟨rfl, rfl⟩ := h
        simpa [piEs, piE] using hp
      · rename_i e hl
        simp only [Except.ok.injEq, Prod.mk.injEq] at h
        obtain ⟨rfl, rfl⟩ := h
        have := bindingsPi_lookup b s _ hb hl
        simpa [piEs, adjTop_piE, copy_piE, bindingPi] using this
      · rename_i es hl
        simp only [Except.ok.injEq, Prod.mk.injEq] at h
        obtain ⟨rfl, rfl⟩ := h
        have := bindingsPi_lookup b s _ hb hl
        simpa [map_adjTop_piEs, copy_piEs, bindingPi] using this
      · simp only [Except.ok.injEq, Prod.mk.injEq] at h
        obtain ⟨rfl, rfl⟩ := h
        simp [piEs]
      · simp at h
  | .attr _ f_value f_attr f_ctx, n, r, n', hp, h => by
      simp only [piE] at hp
      simp only [instE, R.bind_ok, single_ok] at h
      obtain ⟨v', n1, h1, h2⟩ := h
      have i1 := instE_pi b hb f_value _ _ _ hp h1
      split at h2
      · simp only [Except.ok.injEq, Prod.mk.injEq] at h2
        obtain ⟨rfl, rfl⟩ := h2
        simpa [piEs, piE] using i1
      · simp at h2
  | .keyword _ f_arg f_hasArg f_value, n, r, n', hp, h => by
      simp only [piE] at hp
      simp only [instE] at h
      split at h
      · rename_i bd hl
        split at h
        · simp only [Except.ok.injEq, Prod.mk.injEq] at h
          obtain ⟨rfl, rfl⟩ := h
          have hl' : b.lookup f_arg = some bd := by
            by_cases hh : f_hasArg = true
            · simpa [hh] using hl
            · simp [hh] at hl
          rw [copy_piEs]
          exact piEs_exprs bd (bindingsPi_lookup b _ _ hb hl')
        · simp at h
      · simp only [R.bind_ok, single_ok] at h
        obtain ⟨v', n1, h1, h2⟩ := h
        have i1 := instE_pi b hb f_value _ _ _ hp h1
        simp only [Except.ok.injEq, Prod.mk.injEq] at h2
        obtain ⟨rfl, rfl⟩ := h2
        simpa [piEs, piE] using i1
  | .arg _ f_name f_annotation, n, r, n', hp, h => by
      simp only [piE] at hp
      simp only [instE] at h
      split at h
      · simp only [Except.ok.injEq, Prod.mk.injEq] at h
        obtain ⟨rfl, rfl⟩ := h
        simpa [piEs, piE, copy_piEs] using hp
      · rename_i e hl
        simp only [Except.ok.injEq, Prod.mk.injEq] at h
        obtain ⟨rfl, rfl⟩ := h
        exact argRepl_pi [e] n (by simpa [piEs, bindingPi] using bindingsPi_lookup b _ _ hb hl)
      · rename_i es hl
        simp only [Except.ok.injEq, Prod.mk.injEq] at h
        obtain ⟨rfl, rfl⟩ := h
        exact argRepl_pi es n (by simpa [bindingPi] using bindingsPi_lookup b _ _ hb hl)
      · simp only [Except.ok.injEq, Prod.mk.injEq] at h
        obtain ⟨rfl, rfl⟩ := h
        simp [piEs]
      · simp at h
  | .subscript _ f_value f_slice f_ctx, n, r, n', hp, h => by
      simp only [piE, Bool.and_eq_true] at hp
      simp only [instE, R.bind_ok, single_ok, sameLen_ok, atMost_ok] at h
      obtain ⟨x0, m0, h0, x1, m1, h1, hres⟩ := h
      simp only [Except.ok.injEq, Prod.mk.injEq] at hres
      obtain ⟨rfl, rfl⟩ := hres
      have i0 := instE_pi b hb f_value _ _ _ hp.1 h0
      have i1 := instE_pi b hb f_slice _ _ _ hp.2 h1
      simp_all [piEs, piE]
  | .seq _ f_kind f_elts f_ctx, n, r, n', hp, h => by
      simp only [piE, Bool.and_eq_true] at hp
      simp only [instE, R.bind_ok, single_ok, sameLen_ok, atMost_ok] at h
      obtain ⟨x0, m0, h0, hres⟩ := h
      simp only [Except.ok.injEq, Prod.mk.injEq] at hres
      obtain ⟨rfl, rfl⟩ := hres
      have i0 := instEs_pi b hb f_elts _ _ _ hp h0
      simp_all [piEs, piE]
  | .starred _ f_value f_ctx, n, r, n', hp, h => by
      simp only [piE, Bool.and_eq_true] at hp
      simp only [instE, R.bind_ok, single_ok, sameLen_ok, atMost_ok] at h
      obtain ⟨x0, m0, h0, hres⟩ := h
      simp only [Except.ok.injEq, Prod.mk.injEq] at hres
      obtain ⟨rfl, rfl⟩ := hres
      have i0 := instE_pi b hb f_value _ _ _ hp h0
      simp_all [piEs, piE]
  | .const _ f_kind f_repr, n, r, n', hp, h => by
      simp only [instE, Except.ok.injEq, Prod.mk.injEq] at h
      obtain ⟨rfl, rfl⟩ := h
      simpa [piEs, piE] using hp
  | .call _ f_func f_args f_keywords, n, r, n', hp, h => by
      simp only [piE, Bool.and_eq_true] at hp
      simp only [instE, R.bind_ok, single_ok, sameLen_ok, atMost_ok] at h
      obtain ⟨x0, m0, h0, x1, m1, h1, x2, m2, h2, hres⟩ := h
      simp only [Except.ok.injEq, Prod.mk.injEq] at hres
      obtain ⟨rfl, rfl⟩ := hres
      have i0 := instE_pi b hb f_func _ _ _ hp.1.1 h0
      have i1 := instEs_pi b hb f_args _ _ _ hp.1.2 h1
      have i2 := instEs_pi b hb f_keywords _ _ _ hp.2 h2
      simp_all [piEs, piE]
  | .boolop _ f_isAnd f_values, n, r, n', hp, h => by
      simp only [piE, Bool.and_eq_true] at hp
      simp only [instE, R.bind_ok, single_ok, sameLen_ok, atMost_ok] at h
      obtain ⟨x0, m0, h0, hres⟩ := h
      simp only [Except.ok.injEq, Prod.mk.injEq] at hres
      obtain ⟨rfl, rfl⟩ := hres
      have i0 := instEs_pi b hb f_values _ _ _ hp h0
      simp_all [piEs, piE]
  | .unary _ f_op f_operand, n, r, n', hp, h => by
      simp only [piE, Bool.and_eq_true] at hp
      simp only [instE, R.bind_ok, single_ok, sameLen_ok, atMost_ok] at h
      obtain ⟨x0, m0, h0, hres⟩ := h
      simp only [Except.ok.injEq, Prod.mk.injEq] at hres
      obtain ⟨rfl, rfl⟩ := hres
      have i0 := instE_pi b hb f_operand _ _ _ hp h0
      simp_all [piEs, piE]
  | .binop _ f_op f_left f_right, n, r, n', hp, h => by
      simp only [piE, Bool.and_eq_true] at hp
      simp only [instE, R.bind_ok, single_ok, sameLen_ok, atMost_ok] at h
      obtain ⟨x0, m0, h0, x1, m1, h1, hres⟩ := h
      simp only [Except.ok.injEq, Prod.mk.injEq] at hres
      obtain ⟨rfl, rfl⟩ := hres
      have i0 := instE_pi b hb f_left _ _ _ hp.1 h0
      have i1 := instE_pi b hb f_right _ _ _ hp.2 h1
      simp_all [piEs, piE]
  | .compare _ f_left f_ops f_comparators, n, r, n', hp, h => by
      simp only [piE, Bool.and_eq_true] at hp
      simp only [instE, R.bind_ok, single_ok, sameLen_ok, atMost_ok] at h
      obtain ⟨x0, m0, h0, x1, m1, ⟨h1, hlen1⟩, hres⟩ := h
      simp only [Except.ok.injEq, Prod.mk.injEq] at hres
      obtain ⟨rfl, rfl⟩ := hres
      have i0 := instE_pi b hb f_left _ _ _ hp.1 h0
      have i1 := instEs_pi b hb f_comparators _ _ _ hp.2 h1
      simp_all [piEs, piE]
  | .ifexp _ f_test f_body f_orelse, n, r, n', hp, h => by
      simp only [piE, Bool.and_eq_true] at hp
      simp only [instE, R.bind_ok, single_ok, sameLen_ok, atMost_ok] at h
      obtain ⟨x0, m0, h0, x1, m1, h1, x2, m2, h2, hres⟩ := h
      simp only [Except.ok.injEq, Prod.mk.injEq] at hres
      obtain ⟨rfl, rfl⟩ := hres
      have i0 := instE_pi b hb f_test _ _ _ hp.1.1 h0
      have i1 := instE_pi b hb f_body _ _ _ hp.1.2 h1
      have i2 := instE_pi b hb f_orelse _ _ _ hp.2 h2
      simp_all [piEs, piE]
  | .lambda _ f_args f_body, n, r, n', hp, h => by
      simp only [piE, Bool.and_eq_true] at hp
      simp only [instE, R.bind_ok, single_ok, sameLen_ok, atMost_ok] at h
      obtain ⟨x0, m0, h0, x1, m1, h1, hres⟩ := h
      simp only [Except.ok.injEq, Prod.mk.injEq] at hres
      obtain ⟨rfl, rfl⟩ := hres
      have i0 := instE_pi b hb f_args _ _ _ hp.1 h0
      have i1 := instE_pi b hb f_body _ _ _ hp.2 h1
      simp_all [piEs, piE]
  | .namedexpr _ f_target f_value, n, r, n', hp, h => by
      simp only [piE, Bool.and_eq_true] at hp
      simp only [instE, R.bind_ok, single_ok, sameLen_ok, atMost_ok] at h
      obtain ⟨x0, m0, h0, x1, m1, h1, hres⟩ := h
      simp only [Except.ok.injEq, Prod.mk.injEq] at hres
      obtain ⟨rfl, rfl⟩ := hres
      have i0 := instE_pi b hb f_target _ _ _ hp.1 h0
      have i1 := instE_pi b hb f_value _ _ _ hp.2 h1
      simp_all [piEs, piE]
  | .comp _ f_kind f_elts f_generators, n, r, n', hp, h => by
      simp only [piE, Bool.and_eq_true] at hp
      simp only [instE, R.bind_ok, single_ok, sameLen_ok, atMost_ok] at h
      obtain ⟨x0, m0, ⟨h0, hlen0⟩, x1, m1, h1, hres⟩ := h
      simp only [Except.ok.injEq, Prod.mk.injEq] at hres
      obtain ⟨rfl, rfl⟩ := hres
      have i0 := instEs_pi b hb f_elts _ _ _ hp.1 h0
      have i1 := instEs_pi b hb f_generators _ _ _ hp.2 h1
      simp_all [piEs, piE]
  | .comprehension _ f_target f_iter f_ifs f_isAsync, n, r, n', hp, h => by
      simp only [piE, Bool.and_eq_true] at hp
      simp only [instE, R.bind_ok, single_ok, sameLen_ok, atMost_ok] at h
      obtain ⟨x0, m0, h0, x1, m1, h1, x2, m2, h2, hres⟩ := h
      simp only [Except.ok.injEq, Prod.mk.injEq] at hres
      obtain ⟨rfl, rfl⟩ := hres
      have i0 := instE_pi b hb f_target _ _ _ hp.1.1 h0
      have i1 := instE_pi b hb f_iter _ _ _ hp.1.2 h1
      have i2 := instEs_pi b hb f_ifs _ _ _ hp.2 h2
      simp_all [piEs, piE]
  | .arguments _ f_posonly f_args f_vararg f_kwonly f_kwDefaults f_kwarg f_defaults, n, r, n', hp, h => by
      simp only [piE, Bool.and_eq_true] at hp
      simp only [instE, R.bind_ok, single_ok, sameLen_ok, atMost_ok] at h
      obtain ⟨x0, m0, h0, x1, m1, h1, x2, m2, ⟨h2, hlen2⟩, x3, m3, h3, x4, m4, ⟨h4, hlen4⟩, x5, m5, ⟨h5, hlen5⟩, x6, m6, ⟨h6, hlen6⟩, hres⟩ := h
      simp only [Except.ok.injEq, Prod.mk.injEq] at hres
      obtain ⟨rfl, rfl⟩ := hres
      have i0 := instEs_pi b hb f_posonly _ _ _ hp.1.1.1.1.1.1 h0
      have i1 := instEs_pi b hb f_args _ _ _ hp.1.1.1.1.1.2 h1
      have i2 := instEs_pi b hb f_vararg _ _ _ hp.1.1.1.1.2 h2
      have i3 := instEs_pi b hb f_kwonly _ _ _ hp.1.1.1.2 h3
      have i4 := instEs_pi b hb f_kwDefaults _ _ _ hp.1.1.2 h4
      have i5 := instEs_pi b hb f_kwarg _ _ _ hp.1.2 h5
      have i6 := instEs_pi b hb f_defaults _ _ _ hp.2 h6
      simp_all [piEs, piE]
  | .withitem _ f_contextExpr f_optionalVars, n, r, n', hp, h => by
      simp only [piE, Bool.and_eq_true] at hp
      simp only [instE, R.bind_ok, single_ok, sameLen_ok, atMost_ok] at h
      obtain ⟨x0, m0, h0, x1, m1, ⟨h1, hlen1⟩, hres⟩ := h
      simp only [Except.ok.injEq, Prod.mk.injEq] at hres
      obtain ⟨rfl, rfl⟩ := hres
      have i0 := instE_pi b hb f_contextExpr _ _ _ hp.1 h0
      have i1 := instEs_pi b hb f_optionalVars _ _ _ hp.2 h1
      simp_all [piEs, piE]
  | .other _ f_kind f_attrs f_kids, n, r, n', hp, h => by
      simp only [piE, Bool.and_eq_true] at hp
      simp only [instE, R.bind_ok, single_ok, sameLen_ok, atMost_ok] at h
      obtain ⟨x0, m0, ⟨h0, hlen0⟩, hres⟩ := h
      simp only [Except.ok.injEq, Prod.mk.injEq] at hres
      obtain ⟨rfl, rfl⟩ := hres
      have i0 := instEs_pi b hb f_kids _ _ _ hp h0
      simp_all [piEs, piE]
theorem instEs_pi (b : Bindings) (hb : bindingsPi b = true) : ∀ (es : List Expr) (n : Nat) (r : List Expr) (n' : Nat),
    piEs es = true → instEs b es n = .ok (r, n') → piEs r = true
  | [], n, r, n', _, h => by
      simp only [instEs, Except.ok.injEq, Prod.mk.injEq] at h
      obtain ⟨rfl, rfl⟩ := h
      simp [piEs]
  | e :: es, n, r, n', hp, h => by
      simp only [piEs, Bool.and_eq_true] at hp
      simp only [instEs, R.bind_ok] at h
      obtain ⟨l, n1, h1, t, n2, h2, hres⟩ := h
      simp only [Except.ok.injEq, Prod.mk.injEq] at hres
      obtain ⟨rfl, rfl⟩ := hres
      have i1 := instE_pi b hb e _ _ _ hp.1 h1
      have i2 := instEs_pi b hb es _ _ _ hp.2 h2
      simp [piEs_append, i1, i2]
end

mutual
theorem instS_pi (b : Bindings) (hb : bindingsPi b = true) : ∀ (st : Stmt) (n : Nat) (r : List Stmt) (n' : Nat),
    piS st = true → instS b st n = .ok (r, n') → piSs r = true
  | .expr _ f_value, n, r, n', hp, h => by
      simp only [piS] at hp
      simp only [instS] at h
      split at h
      · rename_i i s c
        split at h
        · simp only [Except.ok.injEq, Prod.mk.injEq] at h
          obtain ⟨rfl, rfl⟩ := h
          simpa [piSs, piS, piE] using hp
        · rename_i st hl
          simp only [Except.ok.injEq, Prod.mk.injEq] at h
          obtain ⟨rfl, rfl⟩ := h
          have := bindingsPi_lookup b s _ hb hl
          simpa [piSs, copy_piS, bindingPi] using this
        · rename_i ss hl
          simp only [Except.ok.injEq, Prod.mk.injEq] at h
          obtain ⟨rfl, rfl⟩ := h
          have := bindingsPi_lookup b s _ hb hl
          simpa [copy_piSs, bindingPi] using this
        · simp only [Except.ok.injEq, Prod.mk.injEq] at h
          obtain ⟨rfl, rfl⟩ := h
          simp [piSs]
        · simp at h
      · simp only [R.bind_ok, single_ok] at h
        obtain ⟨v', n1, h1, h2⟩ := h
        have i1 := instE_pi b hb f_value _ _ _ hp h1
        simp only [Except.ok.injEq, Prod.mk.injEq] at h2
        obtain ⟨rfl, rfl⟩ := h2
        simpa [piSs, piS, piEs] using i1
  | .functionDef _ f_name f_args f_body f_decorators f_returns f_isAsync, n, r, n', hp, h => by
      simp only [piS, Bool.and_eq_true] at hp
      simp only [instS, R.bind_ok, single_ok, sameLen_ok] at h
      obtain ⟨x0, m0, h0, x1, m1, h1, x2, m2, h2, x3, m3, ⟨h3, _⟩, hres⟩ := h
      have i0 := instE_pi b hb f_args _ _ _ hp.1.1.1 h0
      have i1 := instSs_pi b hb f_body _ _ _ hp.1.1.2 h1
      have i2 := instEs_pi b hb f_decorators _ _ _ hp.1.2 h2
      have i3 := instEs_pi b hb f_returns _ _ _ hp.2 h3
      split at hres
      · simp only [Except.ok.injEq, Prod.mk.injEq] at hres
        obtain ⟨rfl, rfl⟩ := hres
        simp_all [piSs, piS, piEs]
      · simp at hres
  | .classDef _ f_name f_bases f_keywords f_body f_decorators, n, r, n', hp, h => by
      simp only [piS, Bool.and_eq_true] at hp
      simp only [instS, R.bind_ok, single_ok, sameLen_ok, atMost_ok] at h
      obtain ⟨x0, m0, h0, x1, m1, h1, x2, m2, h2, x3, m3, h3, hres⟩ := h
      simp only [Except.ok.injEq, Prod.mk.injEq] at hres
      obtain ⟨rfl, rfl⟩ := hres
      have i0 := instEs_pi b hb f_bases _ _ _ hp.1.1.1 h0
      have i1 := instEs_pi b hb f_keywords _ _ _ hp.1.1.2 h1
      have i2 := instSs_pi b hb f_body _ _ _ hp.1.2 h2
      have i3 := instEs_pi b hb f_decorators _ _ _ hp.2 h3
      simp_all [piSs, piS, piEs]
  | .ret _ f_value, n, r, n', hp, h => by
      simp only [piS, Bool.and_eq_true] at hp
      simp only [instS, R.bind_ok, single_ok, sameLen_ok, atMost_ok] at h
      obtain ⟨x0, m0, ⟨h0, hlen0⟩, hres⟩ := h
      simp only [Except.ok.injEq, Prod.mk.injEq] at hres
      obtain ⟨rfl, rfl⟩ := hres
      have i0 := instEs_pi b hb f_value _ _ _ hp h0
      simp_all [piSs, piS, piEs]
  | .delete _ f_targets, n, r, n', hp, h => by
      simp only [piS, Bool.and_eq_true] at hp
      simp only [instS, R.bind_ok, single_ok, sameLen_ok, atMost_ok] at h
      obtain ⟨x0, m0, h0, hres⟩ := h
      simp only [Except.ok.injEq, Prod.mk.injEq] at hres
      obtain ⟨rfl, rfl⟩ := hres
      have i0 := instEs_pi b hb f_targets _ _ _ hp h0
      simp_all [piSs, piS, piEs]
  | .assign _ f_targets f_value, n, r, n', hp, h => by
      simp only [piS, Bool.and_eq_true] at hp
      simp only [instS, R.bind_ok, single_ok, sameLen_ok, atMost_ok] at h
      obtain ⟨x0, m0, h0, x1, m1, h1, hres⟩ := h
      simp only [Except.ok.injEq, Prod.mk.injEq] at hres
      obtain ⟨rfl, rfl⟩ := hres
      have i0 := instEs_pi b hb f_targets _ _ _ hp.1 h0
      have i1 := instE_pi b hb f_value _ _ _ hp.2 h1
      simp_all [piSs, piS, piEs]
  | .augAssign _ f_target f_op f_value, n, r, n', hp, h => by
      simp only [piS, Bool.and_eq_true] at hp
      simp only [instS, R.bind_ok, single_ok, sameLen_ok, atMost_ok] at h
      obtain ⟨x0, m0, h0, x1, m1, h1, hres⟩ := h
      simp only [Except.ok.injEq, Prod.mk.injEq] at hres
      obtain ⟨rfl, rfl⟩ := hres
      have i0 := instE_pi b hb f_target _ _ _ hp.1 h0
      have i1 := instE_pi b hb f_value _ _ _ hp.2 h1
      simp_all [piSs, piS, piEs]
  | .annAssign _ f_target f_annotation f_value f_simple, n, r, n', hp, h => by
      simp only [piS, Bool.and_eq_true] at hp
      simp only [instS, R.bind_ok, single_ok, sameLen_ok, atMost_ok] at h
      obtain ⟨x0, m0, h0, x1, m1, h1, x2, m2, ⟨h2, hlen2⟩, hres⟩ := h
      simp only [Except.ok.injEq, Prod.mk.injEq] at hres
      obtain ⟨rfl, rfl⟩ := hres
      have i0 := instE_pi b hb f_target _ _ _ hp.1.1 h0
      have i1 := instE_pi b hb f_annotation _ _ _ hp.1.2 h1
      have i2 := instEs_pi b hb f_value _ _ _ hp.2 h2
      simp_all [piSs, piS, piEs]
  | .for_ _ f_target f_iter f_body f_orelse f_extraTest f_isAsync, n, r, n', hp, h => by
      simp only [piS, Bool.and_eq_true] at hp
      simp only [instS, R.bind_ok, single_ok, sameLen_ok, atMost_ok] at h
      obtain ⟨x0, m0, h0, x1, m1, h1, x2, m2, h2, x3, m3, h3, x4, m4, ⟨h4, hlen4⟩, hres⟩ := h
      simp only [Except.ok.injEq, Prod.mk.injEq] at hres
      obtain ⟨rfl, rfl⟩ := hres
      have i0 := instE_pi b hb f_target _ _ _ hp.1.1.1.1 h0
      have i1 := instE_pi b hb f_iter _ _ _ hp.1.1.1.2 h1
      have i2 := instSs_pi b hb f_body _ _ _ hp.1.1.2 h2
      have i3 := instSs_pi b hb f_orelse _ _ _ hp.1.2 h3
      have i4 := instEs_pi b hb f_extraTest _ _ _ hp.2 h4
      simp_all [piSs, piS, piEs]
  | .while_ _ f_test f_body f_orelse, n, r, n', hp, h => by
      simp only [piS, Bool.and_eq_true] at hp
      simp only [instS, R.bind_ok, single_ok, sameLen_ok, atMost_ok] at h
      obtain ⟨x0, m0, h0, x1, m1, h1, x2, m2, h2, hres⟩ := h
      simp only [Except.ok.injEq, Prod.mk.injEq] at hres
      obtain ⟨rfl, rfl⟩ := hres
      have i0 := instE_pi b hb f_test _ _ _ hp.1.1 h0
      have i1 := instSs_pi b hb f_body _ _ _ hp.1.2 h1
      have i2 := instSs_pi b hb f_orelse _ _ _ hp.2 h2
      simp_all [piSs, piS, piEs]
  | .if_ _ f_test f_body f_orelse, n, r, n', hp, h => by
      simp only [piS, Bool.and_eq_true] at hp
      simp only [instS, R.bind_ok, single_ok, sameLen_ok, atMost_ok] at h
      obtain ⟨x0, m0, h0, x1, m1, h1, x2, m2, h2, hres⟩ := h
      simp only [Except.ok.injEq, Prod.mk.injEq] at hres
      obtain ⟨rfl, rfl⟩ := hres
      have i0 := instE_pi b hb f_test _ _ _ hp.1.1 h0
      have i1 := instSs_pi b hb f_body _ _ _ hp.1.2 h1
      have i2 := instSs_pi b hb f_orelse _ _ _ hp.2 h2
      simp_all [piSs, piS, piEs]
  | .with_ _ f_items f_body f_isAsync, n, r, n', hp, h => by
      simp only [piS, Bool.and_eq_true] at hp
      simp only [instS, R.bind_ok, single_ok, sameLen_ok, atMost_ok] at h
      obtain ⟨x0, m0, h0, x1, m1, h1, hres⟩ := h
      simp only [Except.ok.injEq, Prod.mk.injEq] at hres
      obtain ⟨rfl, rfl⟩ := hres
      have i0 := instEs_pi b hb f_items _ _ _ hp.1 h0
      have i1 := instSs_pi b hb f_body _ _ _ hp.2 h1
      simp_all [piSs, piS, piEs]
  | .raise _ f_exc f_cause, n, r, n', hp, h => by
      simp only [piS, Bool.and_eq_true] at hp
      simp only [instS, R.bind_ok, single_ok, sameLen_ok, atMost_ok] at h
      obtain ⟨x0, m0, ⟨h0, hlen0⟩, x1, m1, ⟨h1, hlen1⟩, hres⟩ := h
      simp only [Except.ok.injEq, Prod.mk.injEq] at hres
      obtain ⟨rfl, rfl⟩ := hres
      have i0 := instEs_pi b hb f_exc _ _ _ hp.1 h0
      have i1 := instEs_pi b hb f_cause _ _ _ hp.2 h1
      simp_all [piSs, piS, piEs]
  | .try_ _ f_body f_handlers f_orelse f_finalbody, n, r, n', hp, h => by
      simp only [piS, Bool.and_eq_true] at hp
      simp only [instS, R.bind_ok, single_ok, sameLen_ok, atMost_ok] at h
      obtain ⟨x0, m0, h0, x1, m1, h1, x2, m2, h2, x3, m3, h3, hres⟩ := h
      simp only [Except.ok.injEq, Prod.mk.injEq] at hres
      obtain ⟨rfl, rfl⟩ := hres
      have i0 := instSs_pi b hb f_body _ _ _ hp.1.1.1 h0
      have i1 := instSs_pi b hb f_handlers _ _ _ hp.1.1.2 h1
      have i2 := instSs_pi b hb f_orelse _ _ _ hp.1.2 h2
      have i3 := instSs_pi b hb f_finalbody _ _ _ hp.2 h3
      simp_all [piSs, piS, piEs]
  | .handler _ f_type_ f_name f_body, n, r, n', hp, h => by
      simp only [piS, Bool.and_eq_true] at hp
      simp only [instS, R.bind_ok, single_ok, sameLen_ok, atMost_ok] at h
      obtain ⟨x0, m0, ⟨h0, hlen0⟩, x1, m1, h1, hres⟩ := h
      simp only [Except.ok.injEq, Prod.mk.injEq] at hres
      obtain ⟨rfl, rfl⟩ := hres
      have i0 := instEs_pi b hb f_type_ _ _ _ hp.1 h0
      have i1 := instSs_pi b hb f_body _ _ _ hp.2 h1
      simp_all [piSs, piS, piEs]
  | .assert_ _ f_test f_msg, n, r, n', hp, h => by
      simp only [piS, Bool.and_eq_true] at hp
      simp only [instS, R.bind_ok, single_ok, sameLen_ok, atMost_ok] at h
      obtain ⟨x0, m0, h0, x1, m1, ⟨h1, hlen1⟩, hres⟩ := h
      simp only [Except.ok.injEq, Prod.mk.injEq] at hres
      obtain ⟨rfl, rfl⟩ := hres
      have i0 := instE_pi b hb f_test _ _ _ hp.1 h0
      have i1 := instEs_pi b hb f_msg _ _ _ hp.2 h1
      simp_all [piSs, piS, piEs]
  | .import_ _ f_names, n, r, n', hp, h => by
      simp only [piS, Bool.and_eq_true] at hp
      simp only [instS, R.bind_ok, single_ok, sameLen_ok, atMost_ok] at h
      have hres := h
      simp only [Except.ok.injEq, Prod.mk.injEq] at hres
      obtain ⟨rfl, rfl⟩ := hres
      simp_all [piSs, piS, piEs]
  | .importFrom _ f_module f_names f_level, n, r, n', hp, h => by
      simp only [piS, Bool.and_eq_true] at hp
      simp only [instS, R.bind_ok, single_ok, sameLen_ok, atMost_ok] at h
      have hres := h
      simp only [Except.ok.injEq, Prod.mk.injEq] at hres
      obtain ⟨rfl, rfl⟩ := hres
      simp_all [piSs, piS, piEs]
  | .global _ f_names, n, r, n', hp, h => by
      simp only [piS, Bool.and_eq_true] at hp
      simp only [instS, R.bind_ok, single_ok, sameLen_ok, atMost_ok] at h
      have hres := h
      simp only [Except.ok.injEq, Prod.mk.injEq] at hres
      obtain ⟨rfl, rfl⟩ := hres
      simp_all [piSs, piS, piEs]
  | .nonlocal _ f_names, n, r, n', hp, h => by
      simp only [piS, Bool.and_eq_true] at hp
      simp only [instS, R.bind_ok, single_ok, sameLen_ok, atMost_ok] at h
      have hres := h
      simp only [Except.ok.injEq, Prod.mk.injEq] at hres
      obtain ⟨rfl, rfl⟩ := hres
      simp_all [piSs, piS, piEs]
  | .pass _, n, r, n', hp, h => by
      simp only [piS, Bool.and_eq_true] at hp
      simp only [instS, R.bind_ok, single_ok, sameLen_ok, atMost_ok] at h
      have hres := h
      simp only [Except.ok.injEq, Prod.mk.injEq] at hres
      obtain ⟨rfl, rfl⟩ := hres
      simp_all [piSs, piS, piEs]
  | .break_ _, n, r, n', hp, h => by
      simp only [piS, Bool.and_eq_true] at hp
      simp only [instS, R.bind_ok, single_ok, sameLen_ok, atMost_ok] at h
      have hres := h
      simp only [Except.ok.injEq, Prod.mk.injEq] at hres
      obtain ⟨rfl, rfl⟩ := hres
      simp_all [piSs, piS, piEs]
  | .continue_ _, n, r, n', hp, h => by
      simp only [piS, Bool.and_eq_true] at hp
      simp only [instS, R.bind_ok, single_ok, sameLen_ok, atMost_ok] at h
      have hres := h
      simp only [Except.ok.injEq, Prod.mk.injEq] at hres
      obtain ⟨rfl, rfl⟩ := hres
      simp_all [piSs, piS, piEs]
  | .other _ f_kind f_exprs f_blocks, n, r, n', hp, h => by
      simp only [piS, Bool.and_eq_true] at hp
      simp only [instS, R.bind_ok, single_ok, sameLen_ok, atMost_ok] at h
      obtain ⟨x0, m0, h0, x1, m1, h1, hres⟩ := h
      simp only [Except.ok.injEq, Prod.mk.injEq] at hres
      obtain ⟨rfl, rfl⟩ := hres
      have i0 := instEs_pi b hb f_exprs _ _ _ hp.1 h0
      have i1 := instSs_pi b hb f_blocks _ _ _ hp.2 h1
      simp_all [piSs, piS, piEs]
theorem instSs_pi (b : Bindings) (hb : bindingsPi b = true) : ∀ (ss : List Stmt) (n : Nat) (r : List Stmt) (n' : Nat),
    piSs ss = true → instSs b ss n = .ok (r, n') → piSs r = true
  | [], n, r, n', _, h => by
      simp only [instSs, Except.ok.injEq, Prod.mk.injEq] at h
      obtain ⟨rfl, rfl⟩ := h
      simp [piSs]
  | st :: ss, n, r, n', hp, h => by
      simp only [piSs, Bool.and_eq_true] at hp
      simp only [instSs, R.bind_ok] at h
      obtain ⟨l, n1, h1, t, n2, h2, hres⟩ := h
      simp only [Except.ok.injEq, Prod.mk.injEq] at hres
      obtain ⟨rfl, rfl⟩ := hres
      have i1 := instS_pi b hb st _ _ _ hp.1 h1
      have i2 := instSs_pi b hb ss _ _ _ hp.2 h2
      simp [piSs_append, i1, i2]
end

end Malt.Conv.Template
