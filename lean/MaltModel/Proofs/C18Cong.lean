import MaltModel.Proofs.C18Sem3
/- C18, semantics: evaluation as "operands, then one step"; congruence of evaluation with respect to states that
agree outside a set of names; pure expressions. -/
set_option linter.unusedSimpArgs false
namespace Malt.Anf
open Malt.Py Malt.SemAnf

/-- sequencing of a computation with a continuation -/
def bindK {α β : Type} (k : St → ER α) (g : α → St → ER β) (σ : St) : ER β :=
  match k σ with
  | (.ok a, σ1) => g a σ1
  | (.error x, σ1) => (.error x, σ1)

/-! ### evaluation of the fragment's nodes as "operands, then one step" -/
theorem evalArgs_frag (O : Oracle) : ∀ (es : List Expr) (σ : St), fragEs es = true →
    evalArgs O es σ = match evalOpts O es σ with
      | (.ok vs, σ1) => (.ok (vs.map .pos), σ1)
      | (.error x, σ1) => (.error x, σ1)
  | [], σ, _ => by simp [evalArgs, evalOpts]
  | e :: es, σ, h => by
      simp only [fragEs, Bool.and_eq_true] at h
      rw [evalArgs_cons_frag O h.1, evalOpts_cons]
      rcases evalE O e σ with ⟨r, σ1⟩
      cases r with
      | error x => rfl
      | ok v =>
        simp only [evalArgs_frag O es σ1 h.2, consR, consArg]
        rcases evalOpts O es σ1 with ⟨r2, σ2⟩
        cases r2 <;> rfl

theorem spreadArgs_pos (O : Oracle) : ∀ (vs : List Val), spreadArgs O (vs.map .pos) = some (vs, [])
  | [] => rfl
  | v :: vs => by simp [spreadArgs, spreadArgs_pos O vs]

end Malt.Anf

namespace Malt.Anf
open Malt.Py Malt.SemAnf

theorem eval_attr (O : Oracle) (i : Nat) (v : Expr) (a : String) (c : Ctx) (σ : St) :
    evalE O (.attr i v a c) σ =
      bindK (evalOpts O [v]) (fun vs τ => ((match vs with | [x] => .ok (O.getattr x a) | _ => .error unsupported), τ)) σ := by
  simp only [evalE, bindK, evalOpts_cons, evalOpts]
  rcases evalE O v σ with ⟨r, σ1⟩
  cases r <;> rfl

theorem eval_unary (O : Oracle) (i : Nat) (op : String) (v : Expr) (σ : St) :
    evalE O (.unary i op v) σ =
      bindK (evalOpts O [v]) (fun vs τ => ((match vs with | [x] => .ok (O.unop op x) | _ => .error unsupported), τ)) σ := by
  simp only [evalE, bindK, evalOpts_cons, evalOpts]
  rcases evalE O v σ with ⟨r, σ1⟩
  cases r <;> rfl

theorem eval_binop (O : Oracle) (i : Nat) (op : String) (l r : Expr) (σ : St) :
    evalE O (.binop i op l r) σ =
      bindK (evalOpts O [l, r]) (fun vs τ => ((match vs with | [x, y] => .ok (O.binop op x y) | _ => .error unsupported), τ)) σ := by
  simp only [evalE, bindK, evalOpts_cons, evalOpts]
  rcases evalE O l σ with ⟨r1, σ1⟩
  cases r1 with
  | error x => rfl
  | ok x =>
    simp only
    rcases evalE O r σ1 with ⟨r2, σ2⟩
    cases r2 <;> rfl

theorem eval_subscript (O : Oracle) (i : Nat) (v s : Expr) (c : Ctx) (σ : St) :
    evalE O (.subscript i v s c) σ =
      bindK (evalOpts O [v, s]) (fun vs τ => ((match vs with | [x, y] => .ok (O.getitem x y) | _ => .error unsupported), τ)) σ := by
  simp only [evalE, bindK, evalOpts_cons, evalOpts]
  rcases evalE O v σ with ⟨r1, σ1⟩
  cases r1 with
  | error x => rfl
  | ok x =>
    simp only
    rcases evalE O s σ1 with ⟨r2, σ2⟩
    cases r2 <;> rfl

theorem eval_compare1 (O : Oracle) (i : Nat) (l : Expr) (op : String) (r : Expr) (σ : St) :
    evalE O (.compare i l [op] [r]) σ =
      bindK (evalOpts O [l, r]) (fun vs τ => ((match vs with | [x, y] => .ok (O.cmp op x y) | _ => .error unsupported), τ)) σ := by
  simp only [evalE, evalCmp, bindK, evalOpts_cons, evalOpts]
  rcases evalE O l σ with ⟨r1, σ1⟩
  cases r1 with
  | error x => rfl
  | ok x =>
    simp only
    rcases evalE O r σ1 with ⟨r2, σ2⟩
    cases r2 <;> rfl

theorem eval_seq (O : Oracle) (i : Nat) (k : SeqKind) (es : List Expr) (c : Ctx) (σ : St) (hf : fragEs es = true) :
    evalE O (.seq i k es c) σ =
      bindK (evalOpts O es) (fun vs τ => (.ok (match k with | .tuple => .tuple vs | .list => .list vs | .set => .set vs), τ)) σ := by
  simp only [evalE, bindK, evalArgs_frag O es σ hf]
  rcases evalOpts O es σ with ⟨r, σ1⟩
  cases r with
  | error x => rfl
  | ok vs => simp only [spreadArgs_pos]; cases k <;> rfl

theorem eval_call (O : Oracle) (i : Nat) (f : Expr) (as : List Expr) (σ : St) (hf : fragEs as = true) :
    evalE O (.call i f as []) σ =
      bindK (evalOpts O (f :: as))
        (fun vs τ => doCall O (vs.headD .none, (vs.tail.map Arg.pos)).1 (vs.headD .none, (vs.tail.map Arg.pos)).2 τ) σ := by
  simp only [evalE, bindK, evalOpts_cons]
  rcases evalE O f σ with ⟨r1, σ1⟩
  cases r1 with
  | error x => rfl
  | ok fv =>
    simp only [evalArgs_frag O as σ1 hf, consR]
    rcases evalOpts O as σ1 with ⟨r2, σ2⟩
    cases r2 with
    | error x => rfl
    | ok avs => simp [evalArgs]

theorem eval_namedexpr (O : Oracle) (i j : Nat) (s : String) (v : Expr) (σ : St) :
    evalE O (.namedexpr i (.name j s .store) v) σ = bindK (evalE O v) (fun x τ => (.ok x, τ.set s x)) σ := by
  simp only [evalE, bindK]
  rcases evalE O v σ with ⟨r1, σ1⟩
  cases r1 <;> rfl

end Malt.Anf


namespace Malt.Anf
open Malt.Py Malt.SemAnf

/-! ### states that agree outside a set `X` of names -/
def AgreeX (X : String → Prop) (σ τ : St) : Prop := σ.log = τ.log ∧ ∀ y, ¬ X y → σ.get y = τ.get y

theorem AgreeX.refl (X : String → Prop) (σ : St) : AgreeX X σ σ := ⟨rfl, fun _ _ => rfl⟩

theorem AgreeX.set_both {X : String → Prop} {σ τ : St} (h : AgreeX X σ τ) (x : String) (v : Val) :
    AgreeX X (σ.set x v) (τ.set x v) := by
  refine ⟨h.1, fun y hy => ?_⟩
  rw [get_set, get_set]
  split
  · rfl
  · exact h.2 y hy

theorem AgreeX.emit_both {X : String → Prop} {σ τ : St} (h : AgreeX X σ τ) (e : Event) :
    AgreeX X (σ.emit e) (τ.emit e) := ⟨by simp [log_emit, h.1], fun y hy => h.2 y hy⟩

theorem agree_iff_agreeX (σ τ : St) : Agree σ τ ↔ AgreeX (fun y => isTempName y = true) σ τ := by
  unfold Agree AgreeX
  constructor
  · rintro ⟨h1, h2⟩
    exact ⟨h1, fun y hy => h2 y (by simpa using hy)⟩
  · rintro ⟨h1, h2⟩
    exact ⟨h1, fun y hy => h2 y (by simp [hy])⟩

/-- states that differ at one temporary only still agree on everything that is not a temporary -/
theorem Agree.trans_X {σ τ τ' : St} {t : String} (ht : isTempName t = true) (h : Agree σ τ)
    (h' : AgreeX (fun y => y = t) τ τ') : Agree σ τ' := by
  refine ⟨h.1.trans h'.1, fun y hy => ?_⟩
  rw [h.2 y hy]
  apply h'.2
  intro heq; subst heq; rw [ht] at hy; exact Bool.noConfusion hy

/-- `k` gives the same result from states agreeing outside `X`, and keeps them agreeing -/
def CongK {α : Type} (X : String → Prop) (k : St → ER α) : Prop :=
  ∀ σ τ, AgreeX X σ τ → (k τ).1 = (k σ).1 ∧ AgreeX X (k σ).2 (k τ).2

theorem CongK.congr {α : Type} {X : String → Prop} {k k2 : St → ER α} (h : ∀ σ, k σ = k2 σ) (hc : CongK X k2) : CongK X k := by
  intro σ τ hA
  rw [h σ, h τ]; exact hc σ τ hA

theorem CongK.bind {α β : Type} {X : String → Prop} {k : St → ER α} {g : α → St → ER β}
    (hk : CongK X k) (hg : ∀ a, CongK X (g a)) : CongK X (bindK k g) := by
  intro σ τ hA
  have := hk σ τ hA
  simp only [bindK]
  rcases hx : k σ with ⟨r, σ1⟩
  rcases hy : k τ with ⟨r', τ1⟩
  rw [hx, hy] at this
  simp only at this
  obtain ⟨hr, hag⟩ := this
  subst hr
  cases r' with
  | error x => exact ⟨rfl, hag⟩
  | ok a => exact hg a σ1 τ1 hag

theorem congK_const {β : Type} (X : String → Prop) (r : Except Val β) : CongK X (fun σ => (r, σ)) := by
  intro σ τ h
  exact ⟨rfl, h⟩

theorem evalOpts_cons_bindK (O : Oracle) (e : Expr) (es : List Expr) (σ : St) :
    evalOpts O (e :: es) σ = bindK (evalE O e) (fun a σ1 => consR a (evalOpts O es σ1)) σ := by
  rw [evalOpts_cons]
  simp only [bindK]
  rcases evalE O e σ with ⟨r, σ1⟩
  cases r <;> rfl

theorem congK_doCall (O : Oracle) (X : String → Prop) (fv : Val) (as : List Arg) : CongK X (fun σ => doCall O fv as σ) := by
  intro σ τ h
  simp only [doCall]
  split
  · refine ⟨by rw [h.1], h.emit_both _⟩
  · exact ⟨rfl, h⟩

theorem congK_opts_nil (O : Oracle) (X : String → Prop) : CongK X (evalOpts O []) := by
  intro σ τ h
  simp only [evalOpts]; exact ⟨trivial, h⟩

theorem congK_opts_cons {O : Oracle} {X : String → Prop} {e : Expr} {es : List Expr}
    (he : CongK X (evalE O e)) (hes : CongK X (evalOpts O es)) : CongK X (evalOpts O (e :: es)) := by
  refine CongK.congr (evalOpts_cons_bindK O e es) (CongK.bind he (fun a => ?_))
  intro σ τ hA
  have h := hes σ τ hA
  exact ⟨consR_fst_congr a h.1, by rw [consR_snd, consR_snd]; exact h.2⟩

mutual
/-- (C) evaluation of a fragment expression depends only on the log and on the names it mentions -/
theorem evalE_congr (O : Oracle) (X : String → Prop) : ∀ (e : Expr), fragE e = true → (∀ y ∈ namesE e, ¬ X y) →
    CongK X (evalE O e)
  | .name i s c, _, hn => by
      intro σ τ hA
      simp only [evalE]
      exact ⟨by rw [hA.2 s (hn s (by simp [namesE]))], hA⟩
  | .const .., _, _ => by
      intro σ τ hA
      simp only [evalE]; exact ⟨trivial, hA⟩
  | .attr i v a c, hf, hn => by
      simp only [fragE, Bool.and_eq_true] at hf
      simp only [namesE] at hn
      exact CongK.congr (eval_attr O i v a c)
        (CongK.bind (congK_opts_cons (evalE_congr O X v hf.1 hn) (congK_opts_nil O X)) (fun vs => congK_const X _))
  | .unary i op v, hf, hn => by
      simp only [fragE] at hf
      simp only [namesE] at hn
      exact CongK.congr (eval_unary O i op v)
        (CongK.bind (congK_opts_cons (evalE_congr O X v hf hn) (congK_opts_nil O X)) (fun vs => congK_const X _))
  | .binop i op l r, hf, hn => by
      simp only [fragE, Bool.and_eq_true] at hf
      simp only [namesE, List.mem_append] at hn
      exact CongK.congr (eval_binop O i op l r)
        (CongK.bind (congK_opts_cons (evalE_congr O X l hf.1 (fun y hy => hn y (Or.inl hy)))
          (congK_opts_cons (evalE_congr O X r hf.2 (fun y hy => hn y (Or.inr hy))) (congK_opts_nil O X)))
          (fun vs => congK_const X _))
  | .subscript i v s c, hf, hn => by
      simp only [fragE, Bool.and_eq_true] at hf
      simp only [namesE, List.mem_append] at hn
      exact CongK.congr (eval_subscript O i v s c)
        (CongK.bind (congK_opts_cons (evalE_congr O X v hf.1.1.1 (fun y hy => hn y (Or.inl hy)))
          (congK_opts_cons (evalE_congr O X s hf.1.1.2 (fun y hy => hn y (Or.inr hy))) (congK_opts_nil O X)))
          (fun vs => congK_const X _))
  | .compare i l ops rs, hf, hn => by
      simp only [fragE, Bool.and_eq_true, beq_iff_eq] at hf
      obtain ⟨⟨⟨hfl, hfrs⟩, hops⟩, hrs⟩ := hf
      simp only [namesE, List.mem_append] at hn
      have ihl := evalE_congr O X l hfl (fun y hy => hn y (Or.inl hy))
      have ihrs := evalOpts_congr O X rs hfrs (fun y hy => hn y (Or.inr hy))
      obtain ⟨op, rfl⟩ : ∃ op, ops = [op] := by
        cases ops with
        | nil => simp at hops
        | cons a t => cases t with
          | nil => exact ⟨a, rfl⟩
          | cons b t => simp at hops
      obtain ⟨r, rfl⟩ : ∃ r, rs = [r] := by
        cases rs with
        | nil => simp at hrs
        | cons a t => cases t with
          | nil => exact ⟨a, rfl⟩
          | cons b t => simp at hrs
      refine CongK.congr (eval_compare1 O i l op r) (CongK.bind ?_ (fun vs => congK_const X _))
      refine CongK.congr (evalOpts_cons_bindK O l [r]) (CongK.bind ihl (fun a => ?_))
      intro σ τ hA
      have h := ihrs σ τ hA
      exact ⟨consR_fst_congr a h.1, by rw [consR_snd, consR_snd]; exact h.2⟩
  | .seq i k es c, hf, hn => by
      simp only [fragE, Bool.and_eq_true] at hf
      simp only [namesE] at hn
      exact CongK.congr (fun σ => eval_seq O i k es c σ hf.1)
        (CongK.bind (evalOpts_congr O X es hf.1 hn) (fun vs => congK_const X _))
  | .call i f as ks, hf, hn => by
      simp only [fragE, Bool.and_eq_true, List.isEmpty_iff] at hf
      obtain ⟨⟨hff, hfa⟩, rfl⟩ := hf
      simp only [namesE, namesEs, List.append_nil, List.mem_append] at hn
      refine CongK.congr (fun σ => eval_call O i f as σ hfa)
        (CongK.bind (congK_opts_cons (evalE_congr O X f hff (fun y hy => hn y (Or.inl hy)))
          (evalOpts_congr O X as hfa (fun y hy => hn y (Or.inr hy)))) (fun vs => congK_doCall O X _ _))
  | .namedexpr i (.name j s .store) v, hf, hn => by
      simp only [fragE] at hf
      simp only [namesE, List.mem_append] at hn
      refine CongK.congr (eval_namedexpr O i j s v)
        (CongK.bind (evalE_congr O X v hf (fun y hy => hn y (Or.inr hy))) (fun x => ?_))
      intro σ τ hA
      exact ⟨rfl, hA.set_both s x⟩
  | .namedexpr _ (.name _ _ .load) _, hf, _ | .namedexpr _ (.name _ _ .del) _, hf, _
  | .namedexpr _ (.const ..) _, hf, _ | .namedexpr _ (.attr ..) _, hf, _ | .namedexpr _ (.subscript ..) _, hf, _
  | .namedexpr _ (.call ..) _, hf, _ | .namedexpr _ (.keyword ..) _, hf, _ | .namedexpr _ (.boolop ..) _, hf, _
  | .namedexpr _ (.unary ..) _, hf, _ | .namedexpr _ (.binop ..) _, hf, _ | .namedexpr _ (.compare ..) _, hf, _
  | .namedexpr _ (.ifexp ..) _, hf, _ | .namedexpr _ (.lambda ..) _, hf, _ | .namedexpr _ (.seq ..) _, hf, _
  | .namedexpr _ (.starred ..) _, hf, _ | .namedexpr _ (.namedexpr ..) _, hf, _ | .namedexpr _ (.comp ..) _, hf, _
  | .namedexpr _ (.comprehension ..) _, hf, _ | .namedexpr _ (.arguments ..) _, hf, _ | .namedexpr _ (.arg ..) _, hf, _
  | .namedexpr _ (.withitem ..) _, hf, _ | .namedexpr _ .noneMarker _, hf, _ | .namedexpr _ (.other ..) _, hf, _
  | .keyword .., hf, _ | .boolop .., hf, _ | .ifexp .., hf, _ | .lambda .., hf, _ | .starred .., hf, _
  | .comp .., hf, _ | .comprehension .., hf, _ | .arguments .., hf, _ | .arg .., hf, _ | .withitem .., hf, _
  | .noneMarker, hf, _ | .other .., hf, _ => by notfrag hf
theorem evalOpts_congr (O : Oracle) (X : String → Prop) : ∀ (es : List Expr), fragEs es = true →
    (∀ y ∈ namesEs es, ¬ X y) → CongK X (evalOpts O es)
  | [], _, _ => congK_opts_nil O X
  | e :: es, hf, hn => by
      simp only [fragEs, Bool.and_eq_true] at hf
      simp only [namesEs, List.mem_append] at hn
      exact congK_opts_cons (evalE_congr O X e hf.1 (fun y hy => hn y (Or.inl hy)))
        (evalOpts_congr O X es hf.2 (fun y hy => hn y (Or.inr hy)))
end

/-- pending statements behave the same from states that agree outside `X`, if they do not mention `X` -/
theorem execB_congr (O : Oracle) (X : String → Prop) : ∀ (H : List Stmt) (a b : Nat) (σ τ : St),
    HoistsP (fun x => fragE x = true ∧ ∀ y ∈ namesE x, ¬ X y) a H b → AgreeX X σ τ →
    (execB O H τ).1 = (execB O H σ).1 ∧ AgreeX X (execB O H σ).2 (execB O H τ).2
  | [], a, b, σ, τ, _, hA => by simp only [execB]; exact ⟨trivial, hA⟩
  | s :: H, a, b, σ, τ, h, hA => by
      obtain ⟨⟨x, rfl, hf, hn⟩, h2⟩ := h
      have c := evalE_congr O X x hf hn σ τ hA
      simp only [execB, exec_tmpAssign O a x _ hf]
      rcases hx : evalE O x σ with ⟨r, σ1⟩
      rcases hy : evalE O x τ with ⟨r', τ1⟩
      rw [hx, hy] at c
      simp only at c
      obtain ⟨hr, hag⟩ := c
      subst hr
      cases r' with
      | error e => exact ⟨rfl, hag⟩
      | ok v => exact execB_congr O X H (a + 1) b _ _ h2 (hag.set_both _ v)

/-! ### pure expressions: no effect, no exception, value determined by the variables mentioned -/
mutual
theorem pure_eval (O : Oracle) : ∀ (e : Expr), fragE e = true → pureE e = true → ∀ (σ τ : St),
    (∀ y ∈ namesE e, σ.get y = τ.get y) → ∃ v, evalE O e σ = (.ok v, σ) ∧ evalE O e τ = (.ok v, τ)
  | .name i s c, _, _, σ, τ, h => ⟨σ.get s, by simp [evalE], by simp [evalE, h s (by simp [namesE])]⟩
  | .const i k r, _, _, σ, τ, _ => ⟨constVal k r, by simp [evalE], by simp [evalE]⟩
  | .attr i v a c, hf, hp, σ, τ, h => by
      simp only [fragE, Bool.and_eq_true] at hf
      simp only [pureE] at hp
      simp only [namesE] at h
      obtain ⟨x, hx, hx'⟩ := pure_eval O v hf.1 hp σ τ h
      exact ⟨O.getattr x a, by simp [evalE, hx], by simp [evalE, hx']⟩
  | .unary i op v, hf, hp, σ, τ, h => by
      simp only [fragE] at hf
      simp only [pureE] at hp
      simp only [namesE] at h
      obtain ⟨x, hx, hx'⟩ := pure_eval O v hf hp σ τ h
      exact ⟨O.unop op x, by simp [evalE, hx], by simp [evalE, hx']⟩
  | .subscript i v s c, hf, hp, σ, τ, h => by
      simp only [fragE, Bool.and_eq_true] at hf
      simp only [pureE, Bool.and_eq_true] at hp
      simp only [namesE, List.mem_append] at h
      obtain ⟨x, hx, hx'⟩ := pure_eval O v hf.1.1.1 hp.1 σ τ (fun y hy => h y (Or.inl hy))
      obtain ⟨z, hz, hz'⟩ := pure_eval O s hf.1.1.2 hp.2 σ τ (fun y hy => h y (Or.inr hy))
      exact ⟨O.getitem x z, by simp [evalE, hx, hz], by simp [evalE, hx', hz']⟩
  | .binop i op l r, hf, hp, σ, τ, h => by
      simp only [fragE, Bool.and_eq_true] at hf
      simp only [pureE, Bool.and_eq_true] at hp
      simp only [namesE, List.mem_append] at h
      obtain ⟨x, hx, hx'⟩ := pure_eval O l hf.1 hp.1 σ τ (fun y hy => h y (Or.inl hy))
      obtain ⟨z, hz, hz'⟩ := pure_eval O r hf.2 hp.2 σ τ (fun y hy => h y (Or.inr hy))
      exact ⟨O.binop op x z, by simp [evalE, hx, hz], by simp [evalE, hx', hz']⟩
  | .compare i l ops rs, hf, hp, σ, τ, h => by
      simp only [fragE, Bool.and_eq_true, beq_iff_eq] at hf
      obtain ⟨⟨⟨hfl, hfrs⟩, hops⟩, hrs⟩ := hf
      simp only [pureE, Bool.and_eq_true] at hp
      simp only [namesE, List.mem_append] at h
      obtain ⟨x, hx, hx'⟩ := pure_eval O l hfl hp.1.1.1 σ τ (fun y hy => h y (Or.inl hy))
      obtain ⟨zs, hz, hz'⟩ := pures_eval O rs hfrs hp.1.1.2 σ τ (fun y hy => h y (Or.inr hy))
      obtain ⟨op, rfl⟩ : ∃ op, ops = [op] := by
        cases ops with
        | nil => simp at hops
        | cons a t => cases t with
          | nil => exact ⟨a, rfl⟩
          | cons b t => simp at hops
      obtain ⟨r, rfl⟩ : ∃ r, rs = [r] := by
        cases rs with
        | nil => simp at hrs
        | cons a t => cases t with
          | nil => exact ⟨a, rfl⟩
          | cons b t => simp at hrs
      rw [evalOpts_cons_bindK] at hz hz'
      simp only [bindK, evalOpts] at hz hz'
      rcases hr : evalE O r σ with ⟨q, σ1⟩
      rcases hr' : evalE O r τ with ⟨q', τ1⟩
      rw [hr] at hz; rw [hr'] at hz'
      cases q with
      | error e => simp at hz
      | ok z =>
        cases q' with
        | error e => simp at hz'
        | ok z' =>
          simp only [consR, Prod.mk.injEq, Except.ok.injEq] at hz hz'
          obtain ⟨hzs, rfl⟩ := hz
          obtain ⟨hzs', rfl⟩ := hz'
          have : z' = z := by
            have := hzs.trans hzs'.symm
            simpa using this.symm
          subst this
          exact ⟨O.cmp op x z', by simp [evalE, evalCmp, hx, hr], by simp [evalE, evalCmp, hx', hr']⟩
  | .seq i k es c, hf, hp, σ, τ, h => by
      simp only [fragE, Bool.and_eq_true] at hf
      simp only [pureE] at hp
      simp only [namesE] at h
      obtain ⟨vs, hv, hv'⟩ := pures_eval O es hf.1 hp σ τ h
      refine ⟨(match k with | .tuple => .tuple vs | .list => .list vs | .set => .set vs), ?_, ?_⟩
      · rw [eval_seq O i k es c σ hf.1]; simp [bindK, hv]
      · rw [eval_seq O i k es c τ hf.1]; simp [bindK, hv']
  | .call .., _, hp, _, _, _ => by simp [pureE] at hp
  | .namedexpr .., _, hp, _, _, _ => by simp [pureE] at hp
  | .keyword .., hf, _, _, _, _ | .boolop .., hf, _, _, _, _ | .ifexp .., hf, _, _, _, _ | .lambda .., hf, _, _, _, _
  | .starred .., hf, _, _, _, _ | .comp .., hf, _, _, _, _ | .comprehension .., hf, _, _, _, _
  | .arguments .., hf, _, _, _, _ | .arg .., hf, _, _, _, _ | .withitem .., hf, _, _, _, _
  | .noneMarker, hf, _, _, _, _ | .other .., hf, _, _, _, _ => by notfrag hf
theorem pures_eval (O : Oracle) : ∀ (es : List Expr), fragEs es = true → pureEs es = true → ∀ (σ τ : St),
    (∀ y ∈ namesEs es, σ.get y = τ.get y) → ∃ vs, evalOpts O es σ = (.ok vs, σ) ∧ evalOpts O es τ = (.ok vs, τ)
  | [], _, _, σ, τ, _ => ⟨[], by simp [evalOpts], by simp [evalOpts]⟩
  | e :: es, hf, hp, σ, τ, h => by
      simp only [fragEs, Bool.and_eq_true] at hf
      simp only [pureEs, Bool.and_eq_true] at hp
      simp only [namesEs, List.mem_append] at h
      obtain ⟨x, hx, hx'⟩ := pure_eval O e hf.1 hp.1 σ τ (fun y hy => h y (Or.inl hy))
      obtain ⟨vs, hv, hv'⟩ := pures_eval O es hf.2 hp.2 σ τ (fun y hy => h y (Or.inr hy))
      exact ⟨x :: vs, by rw [evalOpts_cons]; simp [hx, hv, consR], by rw [evalOpts_cons]; simp [hx', hv', consR]⟩
end

end Malt.Anf
