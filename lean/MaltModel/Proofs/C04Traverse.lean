import MaltModel.Conv.NoNative
/-
Helper lemmas for Props/C04.lean: kind-based freeness (`anyE p · = false`) through
`templates.ContextAdjuster` (`adjustCtx`), and through the generic hook traversal (`mapE`/`mapB`).
-/
namespace Malt.C04
open Malt.Py Malt.Conv Malt.Conv.NoNative

/-- `p` looks only at what `ContextAdjuster` never changes (node class, operators). -/
def CtxInvariant (p : Expr → Bool) : Prop := ∀ ov e, p (adjustCtx ov e) = p e

mutual
theorem anyKids_adjustCtx (p : Expr → Bool) (hp : CtxInvariant p) :
    ∀ (e : Expr) (ov : Option Ctx), anyKids p (adjustCtx ov e) = anyKids p e
  | .name .., _ => by simp [adjustCtx, anyKids]
  | .const .., _ => by simp [adjustCtx, anyKids]
  | .noneMarker, _ => by simp [adjustCtx, anyKids]
  | .attr i v a c, ov => by simp [adjustCtx, anyKids, hp _ v, anyKids_adjustCtx p hp v]
  | .subscript i v s c, ov => by
      simp [adjustCtx, anyKids, hp _ v, hp _ s, anyKids_adjustCtx p hp v, anyKids_adjustCtx p hp s]
  | .seq i k es c, ov => by
      cases k <;> simp [adjustCtx, anyKids, anyKidsL_adjustCtx p hp es]
  | .call i f as ks, ov => by
      simp [adjustCtx, anyKids, hp _ f, anyKids_adjustCtx p hp f, anyKidsL_adjustCtx p hp as, anyKidsL_adjustCtx p hp ks]
  | .lambda i as b, ov => by
      simp [adjustCtx, anyKids, hp _ as, hp _ b, anyKids_adjustCtx p hp as, anyKids_adjustCtx p hp b]
  | .comprehension i t it ifs a, ov => by
      simp [adjustCtx, anyKids, hp _ t, hp _ it, anyKids_adjustCtx p hp t, anyKids_adjustCtx p hp it,
        anyKidsL_adjustCtx p hp ifs]
  | .other i k ats ks, ov => by simp [adjustCtx, anyKids, anyKidsL_adjustCtx p hp ks]
  | .keyword i a h v, ov => by simp [adjustCtx, anyKids, hp _ v, anyKids_adjustCtx p hp v]
  | .boolop i b vs, ov => by simp [adjustCtx, anyKids, anyKidsL_adjustCtx p hp vs]
  | .unary i op e, ov => by simp [adjustCtx, anyKids, hp _ e, anyKids_adjustCtx p hp e]
  | .binop i op l r, ov => by
      simp [adjustCtx, anyKids, hp _ l, hp _ r, anyKids_adjustCtx p hp l, anyKids_adjustCtx p hp r]
  | .compare i l ops rs, ov => by
      simp [adjustCtx, anyKids, hp _ l, anyKids_adjustCtx p hp l, anyKidsL_adjustCtx p hp rs]
  | .ifexp i t b e, ov => by
      simp [adjustCtx, anyKids, hp _ t, hp _ b, hp _ e, anyKids_adjustCtx p hp t, anyKids_adjustCtx p hp b,
        anyKids_adjustCtx p hp e]
  | .starred i v c, ov => by simp [adjustCtx, anyKids, hp _ v, anyKids_adjustCtx p hp v]
  | .namedexpr i t v, ov => by
      simp [adjustCtx, anyKids, hp _ t, hp _ v, anyKids_adjustCtx p hp t, anyKids_adjustCtx p hp v]
  | .comp i k es gs, ov => by simp [adjustCtx, anyKids, anyKidsL_adjustCtx p hp es, anyKidsL_adjustCtx p hp gs]
  | .arguments i a b c d e f g, ov => by
      simp [adjustCtx, anyKids, anyKidsL_adjustCtx p hp a, anyKidsL_adjustCtx p hp b, anyKidsL_adjustCtx p hp c,
        anyKidsL_adjustCtx p hp d, anyKidsL_adjustCtx p hp e, anyKidsL_adjustCtx p hp f, anyKidsL_adjustCtx p hp g]
  | .arg i n an, ov => by simp [adjustCtx, anyKids, anyKidsL_adjustCtx p hp an]
  | .withitem i c v, ov => by simp [adjustCtx, anyKids, hp _ c, anyKids_adjustCtx p hp c, anyKidsL_adjustCtx p hp v]
theorem anyKidsL_adjustCtx (p : Expr → Bool) (hp : CtxInvariant p) :
    ∀ (es : List Expr) (ov : Option Ctx), anyKidsL p (adjustCtxs ov es) = anyKidsL p es
  | [], _ => by simp [adjustCtxs, anyKidsL]
  | e :: es, ov => by simp [adjustCtxs, anyKidsL, hp _ e, anyKids_adjustCtx p hp e, anyKidsL_adjustCtx p hp es]
end

theorem anyE_adjustCtx (p : Expr → Bool) (hp : CtxInvariant p) (ov : Option Ctx) (e : Expr) :
    anyE p (adjustCtx ov e) = anyE p e := by
  simp [anyE, hp ov e, anyKids_adjustCtx p hp e ov]

theorem anyE_tmplArg (p : Expr → Bool) (hp : CtxInvariant p) (e : Expr) : anyE p (tmplArg e) = anyE p e := by
  unfold tmplArg tmplArgCtx
  split
  · exact anyE_adjustCtx p hp _ e
  · rfl

/-! ### freeness through the hook traversal

`bad`-freeness of the input (closed under taking children, by definition of `anyE`) gives `p`-freeness of the
output, provided the hooks deliver it: a `pre` hook (children unvisited!) from the `bad`-freeness of the
node it replaces, a `post` hook from the `p`-freeness of the already-visited children. -/
section traversal
variable (h : Hooks) (p bad : Expr → Bool)

structure HooksFree : Prop where
  pre : ∀ e r, h.pre e = some r → anyE bad e = false → anyE p r = false
  post : ∀ e, h.pre e = none → anyE bad e = false → anyKids p (kidsE h e) = false → anyE p (h.post (kidsE h e)) = false

theorem step_free (H : HooksFree h p bad) (e : Expr) (hb : anyE bad e = false)
    (hk : anyKids p (kidsE h e) = false) : anyE p (step h e (kidsE h e)) = false := by
  unfold step
  cases hpre : h.pre e with
  | some r => exact H.pre e r hpre hb
  | none => exact H.post e hpre hb hk

private theorem or_false_iff' {a b : Bool} : (a || b) = false ↔ a = false ∧ b = false := by
  cases a <;> cases b <;> simp

mutual
theorem kidsE_free (H : HooksFree h p bad) :
    ∀ (e : Expr), anyE bad e = false → anyKids p (kidsE h e) = false
  | .name .., _ => by simp [kidsE, anyKids]
  | .const .., _ => by simp [kidsE, anyKids]
  | .noneMarker, _ => by simp [kidsE, anyKids]
  | .attr i v a c, hb => by
      simp only [anyE, anyKids, or_false_iff'] at hb
      have hv : anyE bad v = false := by simp [anyE, hb.2.1, hb.2.2]
      have := step_free h p bad H v hv (kidsE_free H v hv)
      simp only [anyE, or_false_iff'] at this
      simp [kidsE, anyKids, this.1, this.2]
  | .subscript i v s c, hb => by
      simp only [anyE, anyKids, or_false_iff'] at hb
      have hv : anyE bad v = false := by simp [anyE, hb.2.1.1, hb.2.1.2]
      have hs : anyE bad s = false := by simp [anyE, hb.2.2.1, hb.2.2.2]
      have t1 := step_free h p bad H v hv (kidsE_free H v hv)
      have t2 := step_free h p bad H s hs (kidsE_free H s hs)
      simp only [anyE, or_false_iff'] at t1 t2
      simp [kidsE, anyKids, t1.1, t1.2, t2.1, t2.2]
  | .call i f as ks, hb => by
      simp only [anyE, anyKids, or_false_iff'] at hb
      have hf : anyE bad f = false := by simp [anyE, hb.2.1.1.1, hb.2.1.1.2]
      have t1 := step_free h p bad H f hf (kidsE_free H f hf)
      simp only [anyE, or_false_iff'] at t1
      simp [kidsE, anyKids, t1.1, t1.2, kidsEs_free H as hb.2.1.2, kidsEs_free H ks hb.2.2]
  | .keyword i a hh v, hb => by
      simp only [anyE, anyKids, or_false_iff'] at hb
      have hv : anyE bad v = false := by simp [anyE, hb.2.1, hb.2.2]
      have := step_free h p bad H v hv (kidsE_free H v hv)
      simp only [anyE, or_false_iff'] at this
      simp [kidsE, anyKids, this.1, this.2]
  | .boolop i b vs, hb => by
      simp only [anyE, anyKids, or_false_iff'] at hb
      simp [kidsE, anyKids, kidsEs_free H vs hb.2]
  | .unary i op e, hb => by
      simp only [anyE, anyKids, or_false_iff'] at hb
      have hv : anyE bad e = false := by simp [anyE, hb.2.1, hb.2.2]
      have := step_free h p bad H e hv (kidsE_free H e hv)
      simp only [anyE, or_false_iff'] at this
      simp [kidsE, anyKids, this.1, this.2]
  | .binop i op l r, hb => by
      simp only [anyE, anyKids, or_false_iff'] at hb
      have hv : anyE bad l = false := by simp [anyE, hb.2.1.1, hb.2.1.2]
      have hs : anyE bad r = false := by simp [anyE, hb.2.2.1, hb.2.2.2]
      have t1 := step_free h p bad H l hv (kidsE_free H l hv)
      have t2 := step_free h p bad H r hs (kidsE_free H r hs)
      simp only [anyE, or_false_iff'] at t1 t2
      simp [kidsE, anyKids, t1.1, t1.2, t2.1, t2.2]
  | .compare i l ops rs, hb => by
      simp only [anyE, anyKids, or_false_iff'] at hb
      have hl : anyE bad l = false := by simp [anyE, hb.2.1.1, hb.2.1.2]
      have t1 := step_free h p bad H l hl (kidsE_free H l hl)
      simp only [anyE, or_false_iff'] at t1
      simp [kidsE, anyKids, t1.1, t1.2, kidsEs_free H rs hb.2.2]
  | .ifexp i t b e, hb => by
      simp only [anyE, anyKids, or_false_iff'] at hb
      have ht : anyE bad t = false := by simp [anyE, hb.2.1.1.1, hb.2.1.1.2]
      have hbb : anyE bad b = false := by simp [anyE, hb.2.1.2.1, hb.2.1.2.2]
      have he : anyE bad e = false := by simp [anyE, hb.2.2.1, hb.2.2.2]
      have t1 := step_free h p bad H t ht (kidsE_free H t ht)
      have t2 := step_free h p bad H b hbb (kidsE_free H b hbb)
      have t3 := step_free h p bad H e he (kidsE_free H e he)
      simp only [anyE, or_false_iff'] at t1 t2 t3
      simp [kidsE, anyKids, t1.1, t1.2, t2.1, t2.2, t3.1, t3.2]
  | .lambda i as b, hb => by
      simp only [anyE, anyKids, or_false_iff'] at hb
      have hv : anyE bad as = false := by simp [anyE, hb.2.1.1, hb.2.1.2]
      have hs : anyE bad b = false := by simp [anyE, hb.2.2.1, hb.2.2.2]
      have t1 := step_free h p bad H as hv (kidsE_free H as hv)
      have t2 := step_free h p bad H b hs (kidsE_free H b hs)
      simp only [anyE, or_false_iff'] at t1 t2
      simp [kidsE, anyKids, t1.1, t1.2, t2.1, t2.2]
  | .seq i k es c, hb => by
      simp only [anyE, anyKids, or_false_iff'] at hb
      simp [kidsE, anyKids, kidsEs_free H es hb.2]
  | .starred i v c, hb => by
      simp only [anyE, anyKids, or_false_iff'] at hb
      have hv : anyE bad v = false := by simp [anyE, hb.2.1, hb.2.2]
      have := step_free h p bad H v hv (kidsE_free H v hv)
      simp only [anyE, or_false_iff'] at this
      simp [kidsE, anyKids, this.1, this.2]
  | .namedexpr i t v, hb => by
      simp only [anyE, anyKids, or_false_iff'] at hb
      have hv : anyE bad t = false := by simp [anyE, hb.2.1.1, hb.2.1.2]
      have hs : anyE bad v = false := by simp [anyE, hb.2.2.1, hb.2.2.2]
      have t1 := step_free h p bad H t hv (kidsE_free H t hv)
      have t2 := step_free h p bad H v hs (kidsE_free H v hs)
      simp only [anyE, or_false_iff'] at t1 t2
      simp [kidsE, anyKids, t1.1, t1.2, t2.1, t2.2]
  | .comp i k es gs, hb => by
      simp only [anyE, anyKids, or_false_iff'] at hb
      simp [kidsE, anyKids, kidsEs_free H es hb.2.1, kidsEs_free H gs hb.2.2]
  | .comprehension i t it ifs a, hb => by
      simp only [anyE, anyKids, or_false_iff'] at hb
      have hv : anyE bad t = false := by simp [anyE, hb.2.1.1.1, hb.2.1.1.2]
      have hs : anyE bad it = false := by simp [anyE, hb.2.1.2.1, hb.2.1.2.2]
      have t1 := step_free h p bad H t hv (kidsE_free H t hv)
      have t2 := step_free h p bad H it hs (kidsE_free H it hs)
      simp only [anyE, or_false_iff'] at t1 t2
      simp [kidsE, anyKids, t1.1, t1.2, t2.1, t2.2, kidsEs_free H ifs hb.2.2]
  | .arguments i a b c d e f g, hb => by
      simp only [anyE, anyKids, or_false_iff'] at hb
      obtain ⟨_, ⟨⟨⟨⟨⟨⟨h1, h2⟩, h3⟩, h4⟩, h5⟩, h6⟩, h7⟩⟩ := hb
      simp [kidsE, anyKids, kidsEs_free H a h1, kidsEs_free H b h2, kidsEs_free H c h3, kidsEs_free H d h4,
        kidsEs_free H e h5, kidsEs_free H f h6, kidsEs_free H g h7]
  | .arg i n an, hb => by
      simp only [anyE, anyKids, or_false_iff'] at hb
      simp [kidsE, anyKids, kidsEs_free H an hb.2]
  | .withitem i c v, hb => by
      simp only [anyE, anyKids, or_false_iff'] at hb
      have hc : anyE bad c = false := by simp [anyE, hb.2.1.1, hb.2.1.2]
      have t1 := step_free h p bad H c hc (kidsE_free H c hc)
      simp only [anyE, or_false_iff'] at t1
      simp [kidsE, anyKids, t1.1, t1.2, kidsEs_free H v hb.2.2]
  | .other i k ats ks, hb => by
      simp only [anyE, anyKids, or_false_iff'] at hb
      simp [kidsE, anyKids, kidsEs_free H ks hb.2]
theorem kidsEs_free (H : HooksFree h p bad) :
    ∀ (es : List Expr), anyKidsL bad es = false → anyKidsL p (kidsEs h es) = false
  | [], _ => by simp [kidsEs, anyKidsL]
  | e :: es, hb => by
      simp only [anyKidsL, or_false_iff'] at hb
      have he : anyE bad e = false := by simp [anyE, hb.1.1, hb.1.2]
      have t1 := step_free h p bad H e he (kidsE_free H e he)
      simp only [anyE, or_false_iff'] at t1
      simp [kidsEs, anyKidsL, t1.1, t1.2, kidsEs_free H es hb.2]
end

theorem mapE_free (H : HooksFree h p bad) (e : Expr) (hb : anyE bad e = false) : anyE p (mapE h e) = false :=
  step_free h p bad H e hb (kidsE_free h p bad H e hb)

theorem mapEs_free (H : HooksFree h p bad) (es : List Expr) (hb : anyEs bad es = false) : anyEs p (mapEs h es) = false :=
  kidsEs_free h p bad H es hb

end traversal

theorem anyB_append (p : Expr → Bool) : ∀ (a b : List Stmt), anyB p (a ++ b) = (anyB p a || anyB p b)
  | [], b => by simp [anyB]
  | s :: a, b => by simp [anyB, anyB_append p a b, Bool.or_assoc]

section stmts
variable (h : Hooks) (sh : SHooks) (p bad : Expr → Bool)

structure SHooksFree : Prop where
  pre : ∀ s r, sh.pre s = some r → anyS bad s = false → anyB p r = false
  post : ∀ s, sh.pre s = none → anyS bad s = false → anyS p (kidsS h sh s) = false →
    anyB p (sh.post (kidsS h sh s)) = false

/-- the default statement hooks (`{}`): nothing to show -/
theorem SHooksFree.default : SHooksFree h {} p bad where
  pre := by intro s r hh; simp at hh
  post := by intro s _ _ hk; simp [anyB, hk]

private theorem or_false_iff'' {a b : Bool} : (a || b) = false ↔ a = false ∧ b = false := by
  cases a <;> cases b <;> simp

theorem stepS_free (SH : SHooksFree h sh p bad) (s : Stmt) (hb : anyS bad s = false)
    (hk : anyS p (kidsS h sh s) = false) : anyB p (stepS sh s (kidsS h sh s)) = false := by
  unfold stepS
  cases hpre : sh.pre s with
  | some r => exact SH.pre s r hpre hb
  | none => exact SH.post s hpre hb hk

mutual
theorem kidsS_free (H : HooksFree h p bad) (SH : SHooksFree h sh p bad) :
    ∀ (s : Stmt), anyS bad s = false → anyS p (kidsS h sh s) = false
  | .functionDef i n as b ds rs isA, hb => by
      simp only [anyS, or_false_iff''] at hb
      simp [kidsS, anyS, mapE_free h p bad H as hb.1.1.1, mapB_free H SH b hb.1.1.2, mapEs_free h p bad H ds hb.1.2,
        mapEs_free h p bad H rs hb.2]
  | .classDef i n bs ks b ds, hb => by
      simp only [anyS, or_false_iff''] at hb
      simp [kidsS, anyS, mapEs_free h p bad H bs hb.1.1.1, mapEs_free h p bad H ks hb.1.1.2, mapB_free H SH b hb.1.2,
        mapEs_free h p bad H ds hb.2]
  | .ret i v, hb => by
      simp only [anyS] at hb
      simp [kidsS, anyS, mapEs_free h p bad H v hb]
  | .delete i ts, hb => by
      simp only [anyS] at hb
      simp [kidsS, anyS, mapEs_free h p bad H ts hb]
  | .assign i ts v, hb => by
      simp only [anyS, or_false_iff''] at hb
      simp [kidsS, anyS, mapEs_free h p bad H ts hb.1, mapE_free h p bad H v hb.2]
  | .augAssign i t op v, hb => by
      simp only [anyS, or_false_iff''] at hb
      simp [kidsS, anyS, mapE_free h p bad H t hb.1, mapE_free h p bad H v hb.2]
  | .annAssign i t an v s, hb => by
      simp only [anyS, or_false_iff''] at hb
      simp [kidsS, anyS, mapE_free h p bad H t hb.1.1, mapE_free h p bad H an hb.1.2, mapEs_free h p bad H v hb.2]
  | .for_ i t it b e x isA, hb => by
      simp only [anyS, or_false_iff''] at hb
      simp [kidsS, anyS, mapE_free h p bad H t hb.1.1.1, mapE_free h p bad H it hb.1.1.2, mapB_free H SH b hb.1.2,
        mapB_free H SH e hb.2]
  | .while_ i t b e, hb => by
      simp only [anyS, or_false_iff''] at hb
      simp [kidsS, anyS, mapE_free h p bad H t hb.1.1, mapB_free H SH b hb.1.2, mapB_free H SH e hb.2]
  | .if_ i t b e, hb => by
      simp only [anyS, or_false_iff''] at hb
      simp [kidsS, anyS, mapE_free h p bad H t hb.1.1, mapB_free H SH b hb.1.2, mapB_free H SH e hb.2]
  | .with_ i its b isA, hb => by
      simp only [anyS, or_false_iff''] at hb
      simp [kidsS, anyS, mapEs_free h p bad H its hb.1, mapB_free H SH b hb.2]
  | .raise i e c, hb => by
      simp only [anyS, or_false_iff''] at hb
      simp [kidsS, anyS, mapEs_free h p bad H e hb.1, mapEs_free h p bad H c hb.2]
  | .try_ i b hs e f, hb => by
      simp only [anyS, or_false_iff''] at hb
      simp [kidsS, anyS, mapB_free H SH b hb.1.1.1, mapB_free H SH hs hb.1.1.2, mapB_free H SH e hb.1.2,
        mapB_free H SH f hb.2]
  | .handler i t n b, hb => by
      simp only [anyS, or_false_iff''] at hb
      simp [kidsS, anyS, mapEs_free h p bad H t hb.1, mapB_free H SH b hb.2]
  | .assert_ i t m, hb => by
      simp only [anyS, or_false_iff''] at hb
      simp [kidsS, anyS, mapE_free h p bad H t hb.1, mapEs_free h p bad H m hb.2]
  | .import_ .., _ => by simp [kidsS, anyS]
  | .importFrom .., _ => by simp [kidsS, anyS]
  | .global .., _ => by simp [kidsS, anyS]
  | .nonlocal .., _ => by simp [kidsS, anyS]
  | .expr i v, hb => by
      simp only [anyS] at hb
      simp [kidsS, anyS, mapE_free h p bad H v hb]
  | .pass .., _ => by simp [kidsS, anyS]
  | .break_ .., _ => by simp [kidsS, anyS]
  | .continue_ .., _ => by simp [kidsS, anyS]
  | .other i k es bs, hb => by
      simp only [anyS, or_false_iff''] at hb
      simp [kidsS, anyS, mapEs_free h p bad H es hb.1, mapB_free H SH bs hb.2]
theorem mapB_free (H : HooksFree h p bad) (SH : SHooksFree h sh p bad) :
    ∀ (b : List Stmt), anyB bad b = false → anyB p (mapB h sh b) = false
  | [], _ => by simp [mapB, anyB]
  | s :: ss, hb => by
      simp only [anyB, or_false_iff''] at hb
      simp [mapB, anyB_append, stepS_free h sh p bad SH s hb.1 (kidsS_free H SH s hb.1), mapB_free H SH ss hb.2]
end

theorem mapS_free (H : HooksFree h p bad) (SH : SHooksFree h sh p bad) (s : Stmt) (hb : anyS bad s = false) :
    anyB p (mapS h sh s) = false :=
  stepS_free h sh p bad SH s hb (kidsS_free h sh p bad H SH s hb)

end stmts

end Malt.C04
