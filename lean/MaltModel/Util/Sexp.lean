/-
S-expressions: the only serialisation crossing the Python/Lean boundary.
Import-free so that the driver links natively.

Grammar:  sexp ::= atom | "(" sexp* ")"
          atom ::= bare token (no whitespace, parens or quotes) | "…" with \\ \" \n \t escapes
-/
namespace Malt

inductive Sexp where
  | atom : String → Sexp
  | list : List Sexp → Sexp
  deriving Repr, Inhabited, BEq

namespace Sexp

private def needsQuote (s : String) : Bool :=
  s.isEmpty || s.any (fun c => c == ' ' || c == '(' || c == ')' || c == '"' || c == '\n' || c == '\t' || c == '\\' || c == '\r')

private def quote (s : String) : String :=
  "\"" ++ s.foldl (fun acc c =>
    acc ++ (if c == '"' then "\\\"" else if c == '\\' then "\\\\" else if c == '\n' then "\\n"
            else if c == '\t' then "\\t" else if c == '\r' then "\\r" else c.toString)) "" ++ "\""

mutual
partial def toStr : Sexp → String
  | .atom s => if needsQuote s then quote s else s
  | .list xs => "(" ++ " ".intercalate (xs.map toStr) ++ ")"
end

instance : ToString Sexp := ⟨toStr⟩

/-- Tokeniser + parser over a char list; `partial` (driver glue, not part of any theorem). -/
private partial def parseAtomQ (cs : List Char) (acc : String) : Option (String × List Char) :=
  match cs with
  | [] => none
  | '"' :: r => some (acc, r)
  | '\\' :: 'n' :: r => parseAtomQ r (acc.push '\n')
  | '\\' :: 't' :: r => parseAtomQ r (acc.push '\t')
  | '\\' :: 'r' :: r => parseAtomQ r (acc.push '\r')
  | '\\' :: c :: r => parseAtomQ r (acc.push c)
  | c :: r => parseAtomQ r (acc.push c)

private partial def parseBare (cs : List Char) (acc : String) : String × List Char :=
  match cs with
  | [] => (acc, [])
  | c :: r => if c == ' ' || c == '(' || c == ')' || c == '\n' || c == '\t' || c == '\r' then (acc, cs)
              else parseBare r (acc.push c)

mutual
private partial def parseOne (cs : List Char) : Option (Sexp × List Char) :=
  match cs with
  | [] => none
  | ' ' :: r => parseOne r
  | '\n' :: r => parseOne r
  | '\t' :: r => parseOne r
  | '\r' :: r => parseOne r
  | '(' :: r => parseMany r []
  | ')' :: _ => none
  | '"' :: r => (parseAtomQ r "").map fun (s, r') => (.atom s, r')
  | _ => let (s, r) := parseBare cs ""; some (.atom s, r)
private partial def parseMany (cs : List Char) (acc : List Sexp) : Option (Sexp × List Char) :=
  match cs with
  | [] => none
  | ' ' :: r => parseMany r acc
  | '\n' :: r => parseMany r acc
  | '\t' :: r => parseMany r acc
  | '\r' :: r => parseMany r acc
  | ')' :: r => some (.list acc.reverse, r)
  | _ => match parseOne cs with
         | none => none
         | some (x, r) => parseMany r (x :: acc)
end

def parse (s : String) : Option Sexp :=
  match parseOne s.toList with
  | some (x, r) => if r.all (fun c => c == ' ' || c == '\n' || c == '\r' || c == '\t') then some x else none
  | none => none

/-- Parse a whole line as a sequence of top-level S-expressions. -/
partial def parseAll (s : String) : Option (List Sexp) :=
  let rec go (cs : List Char) (acc : List Sexp) : Option (List Sexp) :=
    if cs.all (fun c => c == ' ' || c == '\n' || c == '\r' || c == '\t') then some acc.reverse
    else match parseOne cs with
      | none => none
      | some (x, r) => go r (x :: acc)
  go s.toList []

def nat? : Sexp → Option Nat
  | .atom s => s.toNat?
  | _ => none

def int? : Sexp → Option Int
  | .atom s => s.toInt?
  | _ => none

def str? : Sexp → Option String
  | .atom s => some s
  | _ => none

def bool? : Sexp → Option Bool
  | .atom "True" => some true
  | .atom "False" => some false
  | .atom "true" => some true
  | .atom "false" => some false
  | .atom "1" => some true
  | .atom "0" => some false
  | _ => none

def list? : Sexp → Option (List Sexp)
  | .list xs => some xs
  | _ => none

def ofBool (b : Bool) : Sexp := .atom (if b then "True" else "False")
def ofNat (n : Nat) : Sexp := .atom (toString n)
def ofInt (n : Int) : Sexp := .atom (toString n)
def ofStrs (xs : List String) : Sexp := .list (xs.map .atom)

end Sexp
end Malt
