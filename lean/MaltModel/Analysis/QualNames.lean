import MaltModel.Py.Ast
/-
`Analysis.QualNames` — qualified names as `malt/pyct/qual_names.py` computes them.

`QN` mirrors the class `QN`: a simple symbol (`QN('a')`), a literal (`QN(Literal(v))`, only ever used
as a subscript), an attribute QN (`QN(base, attr=…)`) or a subscript QN (`QN(base, subscript=…)`).
`qnOf` mirrors `QnResolver`: it is the annotation `anno.Basic.QN` that `qual_names.resolve` leaves on
a node (`none` = no annotation).  The resolver is purely bottom-up, so the annotation of a node is a
function of the node alone.

Python identifies literals that compare equal (`Literal(1) == Literal(True)`); the model identifies
literals by (type name, repr).  The harness sets functions aside in which two subscript constants are
`==` but spelled differently.
-/
namespace Malt.Analysis
open Malt.Py

inductive QN where
  | sym (s : String)
  | lit (kind repr : String)
  | attr (p : QN) (a : String)
  | sub (p : QN) (s : QN)
  deriving DecidableEq, Repr, Inhabited

namespace QN

/-- `QN.is_simple` (`len(self.qn) <= 1`). -/
def isSimple : QN → Bool
  | .sym _ | .lit .. => true
  | _ => false

/-- `QN.is_composite`. -/
def isComposite (q : QN) : Bool := !q.isSimple

/-- `QN.is_symbol` on simple names: the base is a `str`. -/
def isSymbol : QN → Bool
  | .sym _ => true
  | _ => false

def hasAttr : QN → Bool
  | .attr .. => true
  | _ => false

def hasSubscript : QN → Bool
  | .sub .. => true
  | _ => false

/-- `QN.parent` (`none` where Python raises `ValueError`). -/
def parent? : QN → Option QN
  | .attr p _ | .sub p _ => some p
  | _ => none

/-- `QN.owner_set`: all the (simple or composite) names that own this one. -/
def ownerSet : QN → List QN
  | .attr p _ | .sub p _ => p :: p.ownerSet
  | _ => []

/-- `QN.support_set`: the simple symbols the name relies on. -/
def supportSet : QN → List QN
  | .attr p _ => p.supportSet
  | .sub p s => p.supportSet ++ s.supportSet
  | q => [q]

/-- The simple symbol at the root of a qualified name. -/
def root : QN → QN
  | .attr p _ | .sub p _ => p.root
  | q => q

/-- Canonical text (the harness prints the implementation's QNs in the same format). -/
def toStr : QN → String
  | .sym s => s
  | .lit k r => "<" ++ k ++ ":" ++ r ++ ">"
  | .attr p a => p.toStr ++ "." ++ a
  | .sub p s => p.toStr ++ "[" ++ s.toStr ++ "]"

/-- The name of a simple symbol. -/
def name? : QN → Option String
  | .sym s => some s
  | _ => none

end QN

/-- String constants on which `QN(Literal(v))` trips its own
    `assert '.' not in base and '[' not in base and ']' not in base`
    (for a `Literal` namedtuple, `in` is tuple membership). -/
def literalAssertFails (kind repr : String) : Bool :=
  kind == "str" && (repr == "'.'" || repr == "'['" || repr == "']'")

/-- `QnResolver`: the `anno.Basic.QN` annotation of an expression node, if any. -/
def qnOf : Expr → Option QN
  | .name _ s _ => some (.sym s)
  | .arg _ s _ => some (.sym s)
  | .attr _ v a _ => (qnOf v).map (fun q => .attr q a)
  | .subscript _ v s _ =>
      match s with
      | .seq _ .tuple _ _ => none
      | .other _ "Slice" _ _ => none
      | .const _ k r =>
          if k == "ellipsis" then none
          else (qnOf v).map (fun q => .sub q (.lit k r))
      | _ =>
          match qnOf s with
          | none => none
          | some sq => (qnOf v).map (fun q => .sub q sq)
  | _ => none

/-- Set difference / membership helpers over lists used as sets. -/
abbrev QSet := List QN

def QSet.diff (a b : QSet) : QSet := a.filter (fun q => !b.contains q)

@[simp] theorem QSet.mem_diff {a b : QSet} {q : QN} : q ∈ QSet.diff a b ↔ q ∈ a ∧ q ∉ b := by
  simp [QSet.diff, List.mem_filter]

/-- Set union that keeps the left operand and appends only the new elements (keeps lists small). -/
def QSet.union (a b : QSet) : QSet := a ++ b.filter (fun q => !a.contains q)

@[simp] theorem QSet.mem_union {a b : QSet} {q : QN} : q ∈ QSet.union a b ↔ q ∈ a ∨ q ∈ b := by
  simp only [QSet.union, List.mem_append, List.mem_filter, List.contains_eq_mem, Bool.not_eq_eq_eq_not,
    Bool.not_true, decide_eq_false_iff_not]
  constructor
  · rintro (h | ⟨h, _⟩)
    · exact Or.inl h
    · exact Or.inr h
  · rintro (h | h)
    · exact Or.inl h
    · by_cases hq : q ∈ a
      · exact Or.inl hq
      · exact Or.inr ⟨h, hq⟩

/-- `set.add`. -/
def QSet.ins (q : QN) (a : QSet) : QSet := if a.contains q then a else q :: a

@[simp] theorem QSet.mem_ins {a : QSet} {q x : QN} : x ∈ QSet.ins q a ↔ x = q ∨ x ∈ a := by
  unfold QSet.ins
  split
  · rename_i h
    simp only [List.contains_eq_mem, decide_eq_true_eq] at h
    constructor
    · exact Or.inr
    · rintro (rfl | h')
      · exact h
      · exact h'
  · simp

/-- The simple-symbol members of a set, as strings. -/
def QSet.names (a : QSet) : List String := a.filterMap QN.name?

@[simp] theorem QSet.mem_names {a : QSet} {s : String} : s ∈ QSet.names a ↔ QN.sym s ∈ a := by
  simp only [QSet.names, List.mem_filterMap]
  constructor
  · rintro ⟨q, hq, hs⟩
    cases q <;> simp [QN.name?] at hs
    subst hs; exact hq
  · intro h; exact ⟨_, h, rfl⟩

end Malt.Analysis
