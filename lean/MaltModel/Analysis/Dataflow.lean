/-
Generic gen/kill dataflow over an explicit edge list (shared by C06 reaching definitions,
C07 liveness and the reaching-function-definitions analysis that liveness consumes).

One orientation only: facts flow ALONG the edges of `E`.  `A n` is the state at the join side of
node `n` (union of `B p` over the edges `(p, n) ∈ E`), `B n = gen n ∪ (A n − kill n)` the state after
the transfer function.
  * reaching definitions / reaching fndefs : `E` = CFG edges,          A = in_,  B = out
  * liveness                               : `E` = reversed CFG edges, A = out,  B = in_
Everything is restricted to a set `V` of *visited* nodes (the real `GraphVisitor` only visits what is
reachable from its start set); soundness is stated for chains that stay inside `V`, and
`chain_in_closed` shows that a chain starting in a `V` closed under `E` never leaves it.

Import-free: compiles into the native drivers.
-/
namespace Malt.Analysis

/-- A graph as the harness serialises the real `cfg.Graph`: node ids and (from, to) pairs. -/
structure Graph where
  nodes : List Nat
  edges : List (Nat × Nat)
  deriving Repr

namespace Graph
def succ (G : Graph) (n : Nat) : List Nat := (G.edges.filter (fun e => e.1 == n)).map (·.2)
def pred (G : Graph) (n : Nat) : List Nat := (G.edges.filter (fun e => e.2 == n)).map (·.1)
/-- the same graph walked backwards -/
def revEdges (E : List (Nat × Nat)) : List (Nat × Nat) := E.map (fun e => (e.2, e.1))

theorem mem_succ (G : Graph) (n s : Nat) : s ∈ G.succ n ↔ (n, s) ∈ G.edges := by
  simp only [succ, List.mem_map, List.mem_filter, beq_iff_eq]
  constructor
  · rintro ⟨⟨a, b⟩, ⟨h1, h2⟩, h3⟩
    simp only at h2 h3; subst h2; subst h3; exact h1
  · intro h; exact ⟨(n, s), ⟨h, rfl⟩, rfl⟩

theorem mem_pred (G : Graph) (n p : Nat) : p ∈ G.pred n ↔ (p, n) ∈ G.edges := by
  simp only [pred, List.mem_map, List.mem_filter, beq_iff_eq]
  constructor
  · rintro ⟨⟨a, b⟩, ⟨h1, h2⟩, h3⟩
    simp only at h2 h3; subst h2; subst h3; exact h1
  · intro h; exact ⟨(p, n), ⟨h, rfl⟩, rfl⟩

theorem mem_revEdges (E : List (Nat × Nat)) (a b : Nat) : (a, b) ∈ revEdges E ↔ (b, a) ∈ E := by
  simp only [revEdges, List.mem_map, Prod.mk.injEq]
  constructor
  · rintro ⟨⟨x, y⟩, h, h1, h2⟩
    simp only at h1 h2; subst h1; subst h2; exact h
  · intro h; exact ⟨(b, a), h, rfl, rfl⟩
end Graph

/-- gen/kill transfer functions over facts of type `α`. -/
structure Flow (α : Type) where
  gen : Nat → List α
  kill : Nat → α → Bool

/-- per-node states (sets represented as lists; only membership matters) -/
abbrev St (α : Type) := Nat → List α

/-- set equality of lists -/
def SetEq {α} (x y : List α) : Prop := ∀ a, a ∈ x ↔ a ∈ y

section
variable {α : Type}

/-- Post-fixed point (the two inclusions): all that soundness needs. -/
def IsPostFix (E : List (Nat × Nat)) (V : List Nat) (F : Flow α) (A B : St α) : Prop :=
  (∀ p n, (p, n) ∈ E → n ∈ V → ∀ a, a ∈ B p → a ∈ A n) ∧
  (∀ n, n ∈ V → ∀ a, (a ∈ F.gen n ∨ (a ∈ A n ∧ F.kill n a = false)) → a ∈ B n)

/-- Fixed point of the analysis' own equations (equality), on the visited nodes. -/
def IsFix (E : List (Nat × Nat)) (V : List Nat) (F : Flow α) (A B : St α) : Prop :=
  (∀ n, n ∈ V → ∀ a, a ∈ A n ↔ ∃ p, (p, n) ∈ E ∧ a ∈ B p) ∧
  (∀ n, n ∈ V → ∀ a, a ∈ B n ↔ (a ∈ F.gen n ∨ (a ∈ A n ∧ F.kill n a = false)))

theorem IsFix.toPostFix {E V} {F : Flow α} {A B} (h : IsFix E V F A B) : IsPostFix E V F A B :=
  ⟨fun p n hE hn a ha => ((h.1 n hn a).mpr ⟨p, hE, ha⟩), fun n hn a ha => (h.2 n hn a).mpr ha⟩

/-- The generic soundness theorem.  `x j, x (j+1), …, x k` is a chain along `E` inside `V`; a fact
generated at `x j` and, strictly between `j` and `k`, killed only where it is generated again, is in `B` at
every `x m`, `j ≤ m < k`, and in `A` at every `x m`, `j < m ≤ k`. -/
theorem flow_sound (E : List (Nat × Nat)) (V : List Nat) (F : Flow α) (A B : St α)
    (hfix : IsPostFix E V F A B) (x : Nat → Nat) (j k : Nat)
    (hV : ∀ i, j ≤ i → i ≤ k → x i ∈ V)
    (hE : ∀ i, j ≤ i → i < k → (x i, x (i + 1)) ∈ E)
    (a : α) (hgen : a ∈ F.gen (x j))
    (hnk : ∀ m, j < m → m < k → (F.kill (x m) a = false ∨ a ∈ F.gen (x m))) :
    (∀ m, j ≤ m → m < k → a ∈ B (x m)) ∧ (∀ m, j < m → m ≤ k → a ∈ A (x m)) := by
  have hB : ∀ d, j + d < k → a ∈ B (x (j + d)) := by
    intro d
    induction d with
    | zero =>
      intro hd
      exact hfix.2 _ (hV j (Nat.le_refl _) (by omega)) a (Or.inl hgen)
    | succ d ih =>
      intro hd
      have hprev := ih (by omega)
      have hA : a ∈ A (x (j + d + 1)) :=
        hfix.1 _ _ (hE (j + d) (by omega) (by omega)) (hV _ (by omega) (by omega)) a hprev
      rcases hnk (j + d + 1) (by omega) (by omega) with hk | hg
      · exact hfix.2 _ (hV _ (by omega) (by omega)) a (Or.inr ⟨hA, hk⟩)
      · exact hfix.2 _ (hV _ (by omega) (by omega)) a (Or.inl hg)
  refine ⟨?_, ?_⟩
  · intro m hjm hmk
    have := hB (m - j) (by omega)
    have e : j + (m - j) = m := by omega
    rwa [e] at this
  · intro m hjm hmk
    have hprev := hB (m - 1 - j) (by omega)
    have e : j + (m - 1 - j) = m - 1 := by omega
    rw [e] at hprev
    have hedge := hE (m - 1) (by omega) (by omega)
    have e2 : m - 1 + 1 = m := by omega
    rw [e2] at hedge
    exact hfix.1 _ _ hedge (hV m (by omega) hmk) a hprev

/-- `V` is closed under `E` (every edge leaving `V`… stays in `V`). -/
def closedUnder (E : List (Nat × Nat)) (V : List Nat) : Bool :=
  E.all (fun e => !(V.contains e.1) || V.contains e.2)

theorem closedUnder_spec {E : List (Nat × Nat)} {V : List Nat} (h : closedUnder E V = true) :
    ∀ a b, (a, b) ∈ E → a ∈ V → b ∈ V := by
  intro a b hE ha
  simp only [closedUnder, List.all_eq_true] at h
  have := h (a, b) hE
  simp only [Bool.or_eq_true, Bool.not_eq_true', List.contains_eq_mem, decide_eq_true_eq,
    decide_eq_false_iff_not] at this
  rcases this with h1 | h1
  · exact absurd ha h1
  · exact h1

/-- A chain along `E` that starts inside a closed `V` stays inside it. -/
theorem chain_in_closed {E : List (Nat × Nat)} {V : List Nat} (hc : closedUnder E V = true)
    (x : Nat → Nat) (j k : Nat) (hstart : x j ∈ V)
    (hE : ∀ i, j ≤ i → i < k → (x i, x (i + 1)) ∈ E) :
    ∀ i, j ≤ i → i ≤ k → x i ∈ V := by
  have : ∀ d, j + d ≤ k → x (j + d) ∈ V := by
    intro d
    induction d with
    | zero => intro _; exact hstart
    | succ d ih =>
      intro hd
      exact closedUnder_spec hc _ _ (hE (j + d) (by omega) (by omega)) (ih (by omega))
  intro i hji hik
  have h := this (i - j) (by omega)
  have e : j + (i - j) = i := by omega
  rwa [e] at h

end

/-! ### Verified checkers (executable, run by the drivers on the implementation's real output) -/
section
variable {α : Type} [DecidableEq α]

def isPostFix (E : List (Nat × Nat)) (V : List Nat) (F : Flow α) (A B : St α) : Bool :=
  E.all (fun e => !(V.contains e.2) || (B e.1).all (fun a => (A e.2).contains a)) &&
  V.all (fun n => (F.gen n).all (fun a => (B n).contains a) &&
                  (A n).all (fun a => F.kill n a || (B n).contains a))

/-- the reverse inclusions: nothing in the solution that the equations do not put there -/
def isTight (E : List (Nat × Nat)) (V : List Nat) (F : Flow α) (A B : St α) : Bool :=
  V.all (fun n => (A n).all (fun a => E.any (fun e => e.2 == n && (B e.1).contains a)) &&
                  (B n).all (fun a => (F.gen n).contains a || ((A n).contains a && !F.kill n a)))

def isFix (E : List (Nat × Nat)) (V : List Nat) (F : Flow α) (A B : St α) : Bool :=
  isPostFix E V F A B && isTight E V F A B

theorem isPostFix_sound {E V} {F : Flow α} {A B} (h : isPostFix E V F A B = true) :
    IsPostFix E V F A B := by
  simp only [isPostFix, Bool.and_eq_true, List.all_eq_true, Bool.or_eq_true, Bool.not_eq_true',
    List.contains_eq_mem, decide_eq_true_eq, decide_eq_false_iff_not] at h
  obtain ⟨h1, h2⟩ := h
  refine ⟨?_, ?_⟩
  · intro p n hE hn a ha
    rcases h1 (p, n) hE with h | h
    · exact absurd hn h
    · exact h a ha
  · intro n hn a ha
    rcases ha with hg | ⟨hA, hk⟩
    · exact (h2 n hn).1 a hg
    · rcases (h2 n hn).2 a hA with h | h
      · rw [hk] at h; cases h
      · exact h

theorem isPostFix_complete {E V} {F : Flow α} {A B} (h : IsPostFix E V F A B) :
    isPostFix E V F A B = true := by
  simp only [isPostFix, Bool.and_eq_true, List.all_eq_true, Bool.or_eq_true, Bool.not_eq_true',
    List.contains_eq_mem, decide_eq_true_eq, decide_eq_false_iff_not]
  refine ⟨?_, ?_⟩
  · rintro ⟨p, n⟩ hE
    by_cases hn : n ∈ V
    · exact Or.inr (fun a ha => h.1 p n hE hn a ha)
    · exact Or.inl hn
  · intro n hn
    refine ⟨fun a ha => h.2 n hn a (Or.inl ha), fun a ha => ?_⟩
    cases hk : F.kill n a with
    | true => exact Or.inl rfl
    | false => exact Or.inr (h.2 n hn a (Or.inr ⟨ha, hk⟩))

theorem isFix_sound {E V} {F : Flow α} {A B} (h : isFix E V F A B = true) : IsFix E V F A B := by
  simp only [isFix, Bool.and_eq_true] at h
  obtain ⟨hp, ht⟩ := h
  have hp := isPostFix_sound hp
  simp only [isTight, List.all_eq_true, Bool.and_eq_true, List.any_eq_true, Bool.or_eq_true,
    List.contains_eq_mem, decide_eq_true_eq, beq_iff_eq, Bool.not_eq_true'] at ht
  refine ⟨?_, ?_⟩
  · intro n hn a
    constructor
    · intro ha
      obtain ⟨⟨p, n'⟩, hE, hn', hb⟩ := (ht n hn).1 a ha
      simp only at hn' hb
      subst hn'
      exact ⟨p, hE, hb⟩
    · rintro ⟨p, hE, hb⟩
      exact hp.1 p n hE hn a hb
  · intro n hn a
    constructor
    · intro ha
      rcases (ht n hn).2 a ha with h | ⟨h1, h2⟩
      · exact Or.inl h
      · exact Or.inr ⟨h1, h2⟩
    · intro ha
      exact hp.2 n hn a ha

theorem isFix_complete {E V} {F : Flow α} {A B} (h : IsFix E V F A B) : isFix E V F A B = true := by
  simp only [isFix, Bool.and_eq_true]
  refine ⟨isPostFix_complete h.toPostFix, ?_⟩
  simp only [isTight, List.all_eq_true, Bool.and_eq_true, List.any_eq_true, Bool.or_eq_true,
    List.contains_eq_mem, decide_eq_true_eq, beq_iff_eq, Bool.not_eq_true']
  intro n hn
  refine ⟨fun a ha => ?_, fun a ha => ?_⟩
  · obtain ⟨p, hE, hb⟩ := (h.1 n hn a).mp ha
    exact ⟨(p, n), hE, rfl, hb⟩
  · rcases (h.2 n hn a).mp ha with h | ⟨h1, h2⟩
    · exact Or.inl h
    · exact Or.inr ⟨h1, h2⟩

end

/-! ### An execution seen as a walk over CFG nodes

`node i` is the CFG node executed at step `i`; `reads i v`: step `i` reads the value `v` had when
the step began; `writes i v`: step `i` binds `v`; `dels i v`: step `i` unbinds `v`.  -/
structure Run where
  node : Nat → Nat
  reads : Nat → Nat → Prop
  writes : Nat → Nat → Prop
  dels : Nat → Nat → Prop

def Run.touches (R : Run) (i v : Nat) : Prop := R.writes i v ∨ R.dels i v

/-- steps `0 … len` follow edges of `E` -/
def Run.IsPath (R : Run) (E : List (Nat × Nat)) (len : Nat) : Prop :=
  ∀ i, i < len → (R.node i, R.node (i + 1)) ∈ E

/-- `j` is the step that produced the value of `v` visible when step `k` begins -/
def Run.LastWriter (R : Run) (k v j : Nat) : Prop :=
  j < k ∧ R.writes j v ∧ ∀ m, j < m → m < k → ¬ R.touches m v

/-- the value `v` holds when step `i` finishes is read at step `j` before being overwritten -/
def Run.ReadBeforeOverwrite (R : Run) (i v j : Nat) : Prop :=
  i < j ∧ R.reads j v ∧ ∀ m, i < m → m < j → ¬ R.touches m v

end Malt.Analysis
