import MaltModel.Analysis.Activity
import MaltModel.Spec.Symtable
import MaltModel.Spec.Dynamic
/-
The syntactic situations in which the pinned activity analysis is known to deviate from Python's
binding rules.  Each function returns the *names implicated* in one deviation class for a given
function tree (`[]` = the tree is free of that class).  The `_partial` theorems of `Props/C08.lean`
assume the lists empty; the harness attributes a failing case to a listed finding only if the name
that failed is implicated here.

  walrusInComp     `(x := …)` lexically inside a comprehension: Python binds `x` in the enclosing
                   function; `_track_symbol` files every Store inside a comprehension under the
                   comprehension's targets (so `x` is neither bound nor modified, and later reads of
                   `x` inside the comprehension are dropped).
  harmfulLeaks     parameters of a nested def/lambda that the enclosing block does not bind itself:
                   `visit_arg` adds them to the enclosing scope's `bound` (it ignores
                   `_track_annotations_only`).
  classShadow      a class body binds `x` and a function nested in the class reads a free `x`
                   (which Python resolves *past* the class): `finalize` of the class scope exports
                   `read - bound`, dropping the read.
  argAnnotations   names in parameter annotations of nested functions: Python evaluates them in the
                   enclosing block when the `def` executes; the analysis records them in the nested
                   function's argument scope only.
-/
namespace Malt.Analysis
open Malt.Py Malt.Spec

mutual
def namesE (e : Expr) : List String :=
  match e with
  | .name _ s _ => [s]
  | .const .. | .noneMarker => []
  | .attr _ v _ _ => namesE v
  | .subscript _ v s _ => namesE v ++ namesE s
  | .call _ f as ks => namesE f ++ namesEs as ++ namesEs ks
  | .keyword _ _ _ v => namesE v
  | .boolop _ _ vs => namesEs vs
  | .unary _ _ x => namesE x
  | .binop _ _ l r => namesE l ++ namesE r
  | .compare _ l _ cs => namesE l ++ namesEs cs
  | .ifexp _ t b o => namesE t ++ namesE b ++ namesE o
  | .lambda _ a b => namesE a ++ namesE b
  | .seq _ _ es _ => namesEs es
  | .starred _ v _ => namesE v
  | .namedexpr _ t v => namesE t ++ namesE v
  | .comp _ _ es gs => namesEs es ++ namesEs gs
  | .comprehension _ t it ifs _ => namesE t ++ namesE it ++ namesEs ifs
  | .arguments _ po ar va ko kd kw df =>
      namesEs po ++ namesEs ar ++ namesEs va ++ namesEs ko ++ namesEs kd ++ namesEs kw ++ namesEs df
  | .arg _ _ an => namesEs an
  | .withitem _ c v => namesE c ++ namesEs v
  | .other _ _ _ kids => namesEs kids
def namesEs (es : List Expr) : List String :=
  match es with
  | [] => []
  | e :: rest => namesE e ++ namesEs rest
end

mutual
/-- Targets of named expressions lexically inside a comprehension (`inComp`). -/
def walrusE (inComp : Bool) (e : Expr) : List String :=
  match e with
  | .name .. | .const .. | .noneMarker => []
  | .attr _ v _ _ => walrusE inComp v
  | .subscript _ v s _ => walrusE inComp v ++ walrusE inComp s
  | .call _ f as ks => walrusE inComp f ++ walrusEs inComp as ++ walrusEs inComp ks
  | .keyword _ _ _ v => walrusE inComp v
  | .boolop _ _ vs => walrusEs inComp vs
  | .unary _ _ x => walrusE inComp x
  | .binop _ _ l r => walrusE inComp l ++ walrusE inComp r
  | .compare _ l _ cs => walrusE inComp l ++ walrusEs inComp cs
  | .ifexp _ t b o => walrusE inComp t ++ walrusE inComp b ++ walrusE inComp o
  | .lambda _ a b => walrusE inComp a ++ walrusE inComp b
  | .seq _ _ es _ => walrusEs inComp es
  | .starred _ v _ => walrusE inComp v
  | .namedexpr _ t v => (if inComp then namesE t else []) ++ walrusE inComp t ++ walrusE inComp v
  | .comp _ _ es gs => walrusEs true es ++ walrusEs true gs
  | .comprehension _ t it ifs _ => walrusE inComp t ++ walrusE inComp it ++ walrusEs inComp ifs
  | .arguments _ po ar va ko kd kw df =>
      walrusEs inComp po ++ walrusEs inComp ar ++ walrusEs inComp va ++ walrusEs inComp ko ++
      walrusEs inComp kd ++ walrusEs inComp kw ++ walrusEs inComp df
  | .arg _ _ an => walrusEs inComp an
  | .withitem _ c v => walrusE inComp c ++ walrusEs inComp v
  | .other _ _ _ kids => walrusEs inComp kids
def walrusEs (inComp : Bool) (es : List Expr) : List String :=
  match es with
  | [] => []
  | e :: rest => walrusE inComp e ++ walrusEs inComp rest
end

mutual
def walrusS (s : Stmt) : List String :=
  match s with
  | .functionDef _ _ a b d r _ => walrusE false a ++ walrusSs b ++ walrusEs false d ++ walrusEs false r
  | .classDef _ _ bs ks b d => walrusEs false bs ++ walrusEs false ks ++ walrusSs b ++ walrusEs false d
  | .ret _ v => walrusEs false v
  | .delete _ ts => walrusEs false ts
  | .assign _ ts v => walrusEs false ts ++ walrusE false v
  | .augAssign _ t _ v => walrusE false t ++ walrusE false v
  | .annAssign _ t an v _ => walrusE false t ++ walrusE false an ++ walrusEs false v
  | .for_ _ t it b o x _ => walrusE false t ++ walrusE false it ++ walrusSs b ++ walrusSs o ++ walrusEs false x
  | .while_ _ t b o => walrusE false t ++ walrusSs b ++ walrusSs o
  | .if_ _ t b o => walrusE false t ++ walrusSs b ++ walrusSs o
  | .with_ _ its b _ => walrusEs false its ++ walrusSs b
  | .raise _ e c => walrusEs false e ++ walrusEs false c
  | .try_ _ b h o f => walrusSs b ++ walrusSs h ++ walrusSs o ++ walrusSs f
  | .handler _ ty _ b => walrusEs false ty ++ walrusSs b
  | .assert_ _ t m => walrusE false t ++ walrusEs false m
  | .expr _ v => walrusE false v
  | .other _ _ es bs => walrusEs false es ++ walrusSs bs
  | _ => []
def walrusSs (ss : List Stmt) : List String :=
  match ss with
  | [] => []
  | s :: rest => walrusS s ++ walrusSs rest
end

/-- Class `walrusInComp`. -/
def walrusInComp (t : Stmt) : List String := (walrusS t).eraseDups

mutual
/-- Names in parameter annotations of the functions below an expression. -/
def annE (e : Expr) : List String :=
  match e with
  | .name .. | .const .. | .noneMarker => []
  | .attr _ v _ _ => annE v
  | .subscript _ v s _ => annE v ++ annE s
  | .call _ f as ks => annE f ++ annEs as ++ annEs ks
  | .keyword _ _ _ v => annE v
  | .boolop _ _ vs => annEs vs
  | .unary _ _ x => annE x
  | .binop _ _ l r => annE l ++ annE r
  | .compare _ l _ cs => annE l ++ annEs cs
  | .ifexp _ t b o => annE t ++ annE b ++ annE o
  | .lambda _ a b => annE a ++ annE b
  | .seq _ _ es _ => annEs es
  | .starred _ v _ => annE v
  | .namedexpr _ t v => annE t ++ annE v
  | .comp _ _ es gs => annEs es ++ annEs gs
  | .comprehension _ t it ifs _ => annE t ++ annE it ++ annEs ifs
  | .arguments _ po ar va ko kd kw df => annEs po ++ annEs ar ++ annEs va ++ annEs ko ++ annEs kd ++ annEs kw ++ annEs df
  | .arg _ _ an => namesEs an
  | .withitem _ c v => annE c ++ annEs v
  | .other _ _ _ kids => annEs kids
def annEs (es : List Expr) : List String :=
  match es with
  | [] => []
  | e :: rest => annE e ++ annEs rest
end

mutual
def annS (s : Stmt) : List String :=
  match s with
  | .functionDef _ _ a b d r _ => annE a ++ annSs b ++ annEs d ++ annEs r
  | .classDef _ _ bs ks b d => annEs bs ++ annEs ks ++ annSs b ++ annEs d
  | .ret _ v => annEs v
  | .delete _ ts => annEs ts
  | .assign _ ts v => annEs ts ++ annE v
  | .augAssign _ t _ v => annE t ++ annE v
  | .annAssign _ t an v _ => annE t ++ annE an ++ annEs v
  | .for_ _ t it b o x _ => annE t ++ annE it ++ annSs b ++ annSs o ++ annEs x
  | .while_ _ t b o => annE t ++ annSs b ++ annSs o
  | .if_ _ t b o => annE t ++ annSs b ++ annSs o
  | .with_ _ its b _ => annEs its ++ annSs b
  | .raise _ e c => annEs e ++ annEs c
  | .try_ _ b h o f => annSs b ++ annSs h ++ annSs o ++ annSs f
  | .handler _ ty _ b => annEs ty ++ annSs b
  | .assert_ _ t m => annE t ++ annEs m
  | .expr _ v => annE v
  | .other _ _ es bs => annEs es ++ annSs bs
  | _ => []
def annSs (ss : List Stmt) : List String :=
  match ss with
  | [] => []
  | s :: rest => annS s ++ annSs rest
end

/-- Class `argAnnotations`: names in parameter annotations of *nested* functions (those of the top-level
    function are evaluated at module level, outside the analysed tree). -/
def argAnnotations (t : Stmt) : List String :=
  match t with
  | .functionDef _ _ (.arguments _ _ _ _ _ kd _ df) b d r _ => (annEs kd ++ annEs df ++ annSs b ++ annEs d ++ annEs r).eraseDups
  | s => (annS s).eraseDups

/-- What a block binds or declares itself. -/
def Block.declared (b : Block) : List String := b.params ++ b.binds ++ b.globals ++ b.nonlocals

mutual
/-- `enc`: the names declared by the nearest enclosing non-comprehension block. -/
def leaksB (enc : List String) (b : Block) : List String :=
  match b with
  | .mk _ kind _ params binds globals nonlocals _ _ children =>
      let own := (if kind == .function || kind == .lambda then params.filter (fun p => !enc.contains p) else [])
      let enc' := if kind.isComp then enc else params ++ binds ++ globals ++ nonlocals
      own ++ leaksBs enc' children
def leaksBs (enc : List String) (bs : List Block) : List String :=
  match bs with
  | [] => []
  | b :: rest => leaksB enc b ++ leaksBs enc rest
end

/-- Class `harmfulLeaks` (the top-level function's own parameters go to the root scope and do not count). -/
def harmfulLeaks (t : Stmt) : List String :=
  match blockOf t with
  | some (.mk _ _ _ params binds globals nonlocals _ _ children) =>
      (leaksBs (params ++ binds ++ globals ++ nonlocals) children).eraseDups
  | none => []

mutual
/-- `enc`: the names declared by the nearest enclosing def/lambda block.  Collects the `global` (resp.
    `nonlocal`) declarations of the blocks below that `enc` does not declare itself. -/
def declBelowB (wantGlobal : Bool) (enc : List String) (b : Block) : List String :=
  match b with
  | .mk _ kind _ params binds globals nonlocals _ _ children =>
      let own := (if wantGlobal then globals else nonlocals).filter fun n => !enc.contains n
      let enc' := if kind == .function || kind == .lambda then params ++ binds ++ globals ++ nonlocals else enc
      own ++ declBelowBs wantGlobal enc' children
def declBelowBs (wantGlobal : Bool) (enc : List String) (bs : List Block) : List String :=
  match bs with
  | [] => []
  | b :: rest => declBelowB wantGlobal enc b ++ declBelowBs wantGlobal enc rest
end

/-- Class `globalBelow`: `global x` in a block nested in a function that does not declare `x` itself:
    `visit_Global` adds `x` to `read`, the isolated scope exports it, and the enclosing function reports
    `x` among its free variables (Python does not propagate global names). -/
def globalBelow (t : Stmt) : List String :=
  match blockOf t with
  | some (.mk _ _ _ params binds globals nonlocals _ _ children) =>
      (declBelowBs true (params ++ binds ++ globals ++ nonlocals) children).eraseDups
  | none => []

/-- Class `nonlocalBelow`: `nonlocal x` in a block nested in a function that does not declare `x` itself:
    `visit_Nonlocal` adds `x` to `bound`, so `read - bound` drops it and the enclosing function does not
    report the free variable that Python threads through it. -/
def nonlocalBelow (t : Stmt) : List String :=
  match blockOf t with
  | some (.mk _ _ _ params binds globals nonlocals _ _ children) =>
      (declBelowBs false (params ++ binds ++ globals ++ nonlocals) children).eraseDups
  | none => []

mutual
/-- Names a block (with everything below it) needs from outside: used or declared nonlocal/global and
    not local to it, or needed by a child and not supplied by this block (classes supply nothing). -/
def needsB (b : Block) : List String :=
  match b with
  | .mk _ kind _ params binds globals nonlocals uses walrus children =>
      let locals := (params ++ binds).filter fun n => !globals.contains n && !nonlocals.contains n
      let own := (uses ++ nonlocals ++ globals ++ walrus).filter fun n => !locals.contains n
      let below := needsBs children
      own ++ (if kind.functionLike then below.filter (fun n => !locals.contains n) else below)
def needsBs (bs : List Block) : List String :=
  match bs with
  | [] => []
  | b :: rest => needsB b ++ needsBs rest
end

mutual
def shadowB (b : Block) : List String :=
  match b with
  | .mk _ kind _ _ binds _ nonlocals _ _ children =>
      (if kind == .class_ then (binds ++ nonlocals).filter (fun n => (needsBs children).contains n) else [])
      ++ shadowBs children
def shadowBs (bs : List Block) : List String :=
  match bs with
  | [] => []
  | b :: rest => shadowB b ++ shadowBs rest
end

/-- Class `classShadow`. -/
def classShadow (t : Stmt) : List String :=
  match blockOf t with
  | some b => (shadowB b).eraseDups
  | none => []


/-! ### the fragment of the `_partial` theorems (decidable; evaluated by the driver for the coverage statistics) -/

def isWithitem : Expr → Bool
  | .withitem .. => true
  | _ => false

def isPlainArg : Expr → Bool
  | .arg _ _ [] => true
  | _ => false

mutual
/-- Expressions of the fragment: no comprehension, no parameter annotation, well-formed lambdas. -/
def FragE : Expr → Bool
  | .name .. | .const .. | .noneMarker => true
  | .attr _ v _ _ => FragE v
  | .subscript _ v s _ => FragE v && FragE s
  | .call _ f as ks => FragE f && FragEs as && FragEs ks
  | .keyword _ _ _ v => FragE v
  | .boolop _ _ vs => FragEs vs
  | .unary _ _ x => FragE x
  | .binop _ _ l r => FragE l && FragE r
  | .compare _ l _ cs => FragE l && FragEs cs
  | .ifexp _ t b o => FragE t && FragE b && FragE o
  | .lambda _ args body =>
      (match args with
       | .arguments _ po ar va ko kd kw df =>
           po.all isPlainArg && ar.all isPlainArg && va.all isPlainArg && ko.all isPlainArg && kw.all isPlainArg &&
           FragEs kd && FragEs df
       | _ => false) && FragE body
  | .seq _ _ es _ => FragEs es
  | .starred _ v _ => FragE v
  | .namedexpr _ t v => FragE t && FragE v
  | .comp .. | .comprehension .. | .arguments .. | .arg .. => false
  | .withitem _ c v => FragE c && FragEs v
  | .other _ _ _ kids => FragEs kids
def FragEs : List Expr → Bool
  | [] => true
  | e :: es => FragE e && FragEs es
end


mutual
/-- Statements of the fragment: no async construct, no `EXTRA_LOOP_TEST`, expressions of the fragment. -/
def FragS : Stmt → Bool
  | .functionDef _ _ args body decos returns isAsync =>
      !isAsync &&
      (match args with
       | .arguments _ po ar va ko kd kw df =>
           po.all isPlainArg && ar.all isPlainArg && va.all isPlainArg && ko.all isPlainArg && kw.all isPlainArg &&
           FragEs kd && FragEs df
       | _ => false) && FragEs decos && FragEs returns && FragSs body
  | .classDef _ _ bases kws body decos => FragEs bases && FragEs kws && FragEs decos && FragSs body
  | .ret _ v => FragEs v
  | .delete _ ts => FragEs ts
  | .assign _ ts v => FragEs ts && FragE v
  | .augAssign _ t _ v => FragE t && FragE v
  | .annAssign _ t an v _ => FragE t && FragE an && FragEs v
  | .for_ _ t it body orelse extra isAsync => !isAsync && extra.isEmpty && FragE t && FragE it && FragSs body && FragSs orelse
  | .while_ _ t body orelse => FragE t && FragSs body && FragSs orelse
  | .if_ _ t body orelse => FragE t && FragSs body && FragSs orelse
  | .with_ _ items body isAsync => !isAsync && FragEs items && items.all isWithitem && FragSs body
  | .raise _ e c => FragEs e && FragEs c
  | .try_ _ b h o f => FragSs b && FragSs h && FragSs o && FragSs f
  | .handler _ ty _ body => FragEs ty && FragSs body
  | .assert_ _ t m => FragE t && FragEs m
  | .import_ .. | .importFrom .. | .global .. | .nonlocal .. | .pass _ | .break_ _ | .continue_ _ => true
  | .expr _ v => FragE v
  | .other _ _ es bs => FragEs es && FragSs bs
def FragSs : List Stmt → Bool
  | [] => true
  | s :: ss => FragS s && FragSs ss
end


mutual
/-- Statements on which the pinned analysis and Python agree about what a statement binds, besides the
    deviation classes of `ActivityHyp`: no `except … as name` (the analysis raises: set aside by the
    property), no bare parenthesised annotation `(x): T` (Python binds nothing, the analysis binds `x`),
    no `import *` (not allowed inside a function). -/
def SpecOkS : Stmt → Bool
  | .functionDef _ _ _ body _ _ _ => SpecOkSs body
  | .classDef _ _ _ _ body _ => SpecOkSs body
  | .annAssign _ t _ v simple =>
      (match t with
       | .name _ _ c => c != .load && (simple || !v.isEmpty)
       | _ => true)
  | .for_ _ _ _ body orelse _ _ => SpecOkSs body && SpecOkSs orelse
  | .while_ _ _ body orelse => SpecOkSs body && SpecOkSs orelse
  | .if_ _ _ body orelse => SpecOkSs body && SpecOkSs orelse
  | .with_ _ _ body _ => SpecOkSs body
  | .try_ _ b h o f => SpecOkSs b && SpecOkSs h && SpecOkSs o && SpecOkSs f
  | .handler _ _ name body => name.isEmpty && SpecOkSs body
  | .import_ _ names => names.all fun a => !(a.2 == "" && a.1 == "*")
  | .importFrom _ _ names _ => names.all fun a => !(a.2 == "" && a.1 == "*")
  | .other _ _ _ bs => SpecOkSs bs
  | _ => true
def SpecOkSs : List Stmt → Bool
  | [] => true
  | s :: rest => SpecOkS s && SpecOkSs rest
end


/-- No two annotations of the run sit on the same node with the same key (decidable form of `UniqueAnnos`). -/
def uniqueAnnos : List Anno → Bool
  | [] => true
  | a :: r => r.all (fun b => !(a.1 == b.1 && a.2.1 == b.2.1)) && uniqueAnnos r

/-- Declaring a name both `global` and `nonlocal` in one block is a SyntaxError; the hypothesis excludes it. -/
def declsDisjoint (t : Stmt) : Bool :=
  match blockOf t with
  | some b => b.globals.all fun x => !b.nonlocals.contains x
  | none => true


mutual
def disjB : Block → Bool
  | .mk _ _ _ _ _ globals nonlocals _ _ children => (globals.all fun x => !nonlocals.contains x) && disjBs children
def disjBs : List Block → Bool
  | [] => true
  | b :: rest => disjB b && disjBs rest
end

/-- `declsDisjoint` for every block of the tree. -/
def allDeclsDisjoint (t : Stmt) : Bool :=
  match blockOf t with
  | some b => disjB b
  | none => true


/-! ### comprehensions in the `_partial` theorems -/

mutual
/-- Inside a comprehension (`inComp`) every name in Store context is one of the iteration variables `hid` of the
    enclosing comprehensions — i.e. no named expression inside a comprehension (class `walrusInComp`) and
    well-formed expression contexts; the `for` clauses of a comprehension are `comprehension` nodes. -/
def storesOkE (inComp : Bool) (hid : List String) : Expr → Bool
  | .name _ s c => c != .store || !inComp || hid.contains s
  | .const .. | .noneMarker => true
  | .attr _ v _ _ => storesOkE inComp hid v
  | .subscript _ v s _ => storesOkE inComp hid v && storesOkE inComp hid s
  | .call _ f as ks => storesOkE inComp hid f && storesOkEs inComp hid as && storesOkEs inComp hid ks
  | .keyword _ _ _ v => storesOkE inComp hid v
  | .boolop _ _ vs => storesOkEs inComp hid vs
  | .unary _ _ x => storesOkE inComp hid x
  | .binop _ _ l r => storesOkE inComp hid l && storesOkE inComp hid r
  | .compare _ l _ cs => storesOkE inComp hid l && storesOkEs inComp hid cs
  | .ifexp _ t b o => storesOkE inComp hid t && storesOkE inComp hid b && storesOkE inComp hid o
  | .lambda _ args body =>
      (match args with
       | .arguments _ _ _ _ _ kd _ df => storesOkEs inComp hid kd && storesOkEs inComp hid df
       | _ => true) && storesOkE inComp hid body
  | .seq _ _ es _ => storesOkEs inComp hid es
  | .starred _ v _ => storesOkE inComp hid v
  | .namedexpr _ t v => storesOkE inComp hid t && storesOkE inComp hid v
  | .comp _ _ elts gens =>
      (match gens with
       | .comprehension _ _ it _ _ :: _ => storesOkE true hid it      -- the first iterable belongs to the enclosing block
       | _ => false) &&
      storesOkEs true (Spec.compTargets gens ++ hid) gens && storesOkEs true (Spec.compTargets gens ++ hid) elts
  | .comprehension _ t it ifs _ => storesOkE inComp hid t && storesOkE inComp hid it && storesOkEs inComp hid ifs
  | .arguments .. => true
  | .arg _ _ an => storesOkEs inComp hid an
  | .withitem _ c v => storesOkE inComp hid c && storesOkEs inComp hid v
  | .other _ _ _ kids => storesOkEs inComp hid kids
def storesOkEs (inComp : Bool) (hid : List String) : List Expr → Bool
  | [] => true
  | e :: rest => storesOkE inComp hid e && storesOkEs inComp hid rest
end


/-! ### the larger fragments (comprehensions allowed) of `C08_compositional_comp` / `C08_dynamic_comp` -/

mutual
/-- Expressions of the larger fragment: comprehensions allowed; still no parameter annotation. -/
def FragC : Expr → Bool
  | .name .. | .const .. | .noneMarker => true
  | .attr _ v _ _ => FragC v
  | .subscript _ v s _ => FragC v && FragC s
  | .call _ f as ks => FragC f && FragCs as && FragCs ks
  | .keyword _ _ _ v => FragC v
  | .boolop _ _ vs => FragCs vs
  | .unary _ _ x => FragC x
  | .binop _ _ l r => FragC l && FragC r
  | .compare _ l _ cs => FragC l && FragCs cs
  | .ifexp _ t b o => FragC t && FragC b && FragC o
  | .lambda _ args body =>
      (match args with
       | .arguments _ po ar va ko kd kw df =>
           po.all isPlainArg && ar.all isPlainArg && va.all isPlainArg && ko.all isPlainArg && kw.all isPlainArg &&
           FragCs kd && FragCs df
       | _ => false) && FragC body
  | .seq _ _ es _ => FragCs es
  | .starred _ v _ => FragC v
  | .namedexpr _ t v => FragC t && FragC v
  | .comp _ _ es gs => FragCs es && FragCs gs
  | .comprehension _ t it ifs _ => FragC t && FragC it && FragCs ifs
  | .arguments .. | .arg .. => false
  | .withitem _ c v => FragC c && FragCs v
  | .other _ _ _ kids => FragCs kids
def FragCs : List Expr → Bool
  | [] => true
  | e :: es => FragC e && FragCs es
end


mutual
/-- Statements of the larger fragment (comprehensions allowed). -/
def FragSC : Stmt → Bool
  | .functionDef _ _ args body decos returns isAsync =>
      !isAsync &&
      (match args with
       | .arguments _ po ar va ko kd kw df =>
           po.all isPlainArg && ar.all isPlainArg && va.all isPlainArg && ko.all isPlainArg && kw.all isPlainArg &&
           FragCs kd && FragCs df
       | _ => false) && FragCs decos && FragCs returns && FragSCs body
  | .classDef _ _ bases kws body decos => FragCs bases && FragCs kws && FragCs decos && FragSCs body
  | .ret _ v => FragCs v
  | .delete _ ts => FragCs ts
  | .assign _ ts v => FragCs ts && FragC v
  | .augAssign _ t _ v => FragC t && FragC v
  | .annAssign _ t an v _ => FragC t && FragC an && FragCs v
  | .for_ _ t it body orelse extra isAsync => !isAsync && extra.isEmpty && FragC t && FragC it && FragSCs body && FragSCs orelse
  | .while_ _ t body orelse => FragC t && FragSCs body && FragSCs orelse
  | .if_ _ t body orelse => FragC t && FragSCs body && FragSCs orelse
  | .with_ _ items body isAsync => !isAsync && FragCs items && items.all isWithitem && FragSCs body
  | .raise _ e c => FragCs e && FragCs c
  | .try_ _ b h o f => FragSCs b && FragSCs h && FragSCs o && FragSCs f
  | .handler _ ty _ body => FragCs ty && FragSCs body
  | .assert_ _ t m => FragC t && FragCs m
  | .import_ .. | .importFrom .. | .global .. | .nonlocal .. | .pass _ | .break_ _ | .continue_ _ => true
  | .expr _ v => FragC v
  | .other _ _ es bs => FragCs es && FragSCs bs
def FragSCs : List Stmt → Bool
  | [] => true
  | s :: ss => FragSC s && FragSCs ss
end




/-- Expressions of the larger fragment whose comprehensions contain no store other than their iteration variables. -/
def FragD (e : Expr) : Bool := FragC e && storesOkE false [] e

def FragDs : List Expr → Bool
  | [] => true
  | e :: es => FragD e && FragDs es


mutual
/-- Statements of the larger fragment of the dynamic theorem (comprehensions without foreign stores allowed). -/
def FragSD : Stmt → Bool
  | .functionDef _ _ args body decos returns isAsync =>
      !isAsync &&
      (match args with
       | .arguments _ po ar va ko kd kw df =>
           po.all isPlainArg && ar.all isPlainArg && va.all isPlainArg && ko.all isPlainArg && kw.all isPlainArg &&
           FragDs kd && FragDs df
       | _ => false) && FragDs decos && FragDs returns && FragSDs body
  | .classDef _ _ bases kws body decos => FragDs bases && FragDs kws && FragDs decos && FragSDs body
  | .ret _ v => FragDs v
  | .delete _ ts => FragDs ts
  | .assign _ ts v => FragDs ts && FragD v
  | .augAssign _ t _ v => FragD t && FragD v
  | .annAssign _ t an v _ => FragD t && FragD an && FragDs v
  | .for_ _ t it body orelse extra isAsync => !isAsync && extra.isEmpty && FragD t && FragD it && FragSDs body && FragSDs orelse
  | .while_ _ t body orelse => FragD t && FragSDs body && FragSDs orelse
  | .if_ _ t body orelse => FragD t && FragSDs body && FragSDs orelse
  | .with_ _ items body isAsync => !isAsync && FragDs items && items.all isWithitem && FragSDs body
  | .raise _ e c => FragDs e && FragDs c
  | .try_ _ b h o f => FragSDs b && FragSDs h && FragSDs o && FragSDs f
  | .handler _ ty _ body => FragDs ty && FragSDs body
  | .assert_ _ t m => FragD t && FragDs m
  | .import_ .. | .importFrom .. | .global .. | .nonlocal .. | .pass _ | .break_ _ | .continue_ _ => true
  | .expr _ v => FragD v
  | .other _ _ es bs => FragDs es && FragSDs bs
def FragSDs : List Stmt → Bool
  | [] => true
  | s :: ss => FragSD s && FragSDs ss
end




end Malt.Analysis
