import MaltModel.Analysis.ReachDef
import MaltModel.Analysis.FnDefs
/-
Liveness (`malt/pyct/static_analysis/liveness.py`), a backward may-analysis:

  Analyzer.visit_node:   live_out = ⋃ in_[s], s ∈ node.next
                         gen  = scope.read            kill = scope.modified ∪ scope.deleted
                         live_in = gen ∪ (live_out − kill)
                                   ∪ ⋃ { fn_scope.read − (fn_scope.bound − fn_scope.nonlocals − fn_scope.globals)
                                       | fn ∈ DEFINED_FNS_IN(node), fn not a lambda }      (since /repo ccf3d44)
                         no Scope (pass/break/continue):  live_in = live_out

In the orientation of `Dataflow.lean`: edges reversed, `A = live_out`, `B = live_in`; the closure
term is not subject to `kill`, so it is part of `gen`.
-/
namespace Malt.Analysis

/-- a name the function binds for itself: in `bound`, and not merely declared nonlocal / global (those refer to the
enclosing variable) -/
def FnInfo.ownBound (f : FnInfo) (v : Nat) : Bool :=
  f.bound.contains v && !f.nonlocals.contains v && !f.globals.contains v

/-- `fn_scope.read − (fn_scope.bound − fn_scope.nonlocals − fn_scope.globals)` of one reaching function; lambdas are
skipped (`lamba_check`) -/
def fnFreeOf (f : FnInfo) : List Nat :=
  if f.isLambda then [] else f.read.filter (fun v => !f.ownBound v)

/-- the closure term of `visit_node`, from the node's real `DEFINED_FNS_IN` annotation -/
def fnFree (D : CfgData) (n : Nat) : List Nat :=
  (D.fnsIn n).flatMap (fun f => match D.fnOf f with | some fi => fnFreeOf fi | none => [])

def liveKillVars (s : Scope) : List Nat := s.modified ++ s.deleted

def liveFlow (D : CfgData) : Flow Nat where
  gen n := match D.scopeOf n with
    | some s => s.read ++ fnFree D n
    | none => []
  kill n v := match D.scopeOf n with
    | some s => (liveKillVars s).contains v
    | none => false

/-- **live_sound** (generic: any graph, any visited set, any post-fixed point, any gen/kill).  If everything a step
reads is generated (`hgen`) and everything a node kills is actually overwritten (`hkill`), a value that is read
at step `j` before being overwritten after step `i` is live at the exit of step `i` and at the entry of step `i+1`. -/
theorem live_sound (E : List (Nat × Nat)) (V : List Nat) (F : Flow Nat) (IN OUT : St Nat)
    (hfix : IsPostFix (Graph.revEdges E) V F OUT IN) (R : Run) (len : Nat)
    (hV : ∀ i, i ≤ len → R.node i ∈ V) (hpath : R.IsPath E len)
    (hgen : ∀ i v, i ≤ len → R.reads i v → v ∈ F.gen (R.node i))
    (hkill : ∀ i v, i ≤ len → F.kill (R.node i) v = true → R.touches i v)
    (i v j : Nat) (hj : j ≤ len) (h : R.ReadBeforeOverwrite i v j) :
    v ∈ OUT (R.node i) ∧ v ∈ IN (R.node (i + 1)) := by
  obtain ⟨hij, hr, hno⟩ := h
  have hs := flow_sound (Graph.revEdges E) V F OUT IN hfix (fun d => R.node (j - d)) 0 (j - i)
    (fun d _ hd => hV (j - d) (by omega))
    (fun d _ hd => by
      rw [Graph.mem_revEdges]
      have := hpath (j - (d + 1)) (by omega)
      have e : j - (d + 1) + 1 = j - d := by omega
      rwa [e] at this)
    v (by simpa using hgen j v hj hr)
    (fun m hm0 hm => by
      cases hk : F.kill (R.node (j - m)) v with
      | false => exact Or.inl rfl
      | true => exact absurd (hkill (j - m) v (by omega) hk) (hno (j - m) (by omega) (by omega)))
  have h1 := hs.2 (j - i) (by omega) (Nat.le_refl _)
  have h2 := hs.1 (j - i - 1) (by omega) (by omega)
  have e1 : j - (j - i) = i := by omega
  have e2 : j - (j - i - 1) = i + 1 := by omega
  simp only [e1] at h1
  simp only [e2] at h2
  exact ⟨h1, h2⟩

/-! ### Closures -/

/-- the closure term at node `n` contains `v` on behalf of function `h` -/
def coveredBy (D : CfgData) (n h v : Nat) : Bool :=
  (D.fnsIn n).contains h && match D.fnOf h with
    | some fi => !fi.isLambda && fi.read.contains v && !fi.ownBound v
    | none => false

/-- walk the lexical chain reader → enclosing function → … (stopping at the analysed function itself) -/
def onChain (D : CfgData) (p : Nat → Bool) : Nat → Nat → Bool
  | 0, _ => false
  | fuel + 1, g => if g == D.fnId then false else
      p g || (match D.fnOf g with | some fi => onChain D p fuel fi.parent | none => false)

/-- the read of `v` by the local function `g` (possibly nested deeper) is covered by the closure term at node `n`:
`g` or a function enclosing it reaches `n`, is not a lambda, reads `v` and does not bind it for itself -/
def closureReadCovered (D : CfgData) (n g v : Nat) : Bool :=
  onChain D (fun h => coveredBy D n h v) (D.fns.length + 1) g

theorem coveredBy_spec (D : CfgData) (n h v : Nat) (hc : coveredBy D n h v = true) : v ∈ fnFree D n := by
  simp only [coveredBy, Bool.and_eq_true, List.contains_eq_mem, decide_eq_true_eq] at hc
  obtain ⟨hg, h2⟩ := hc
  simp only [fnFree, List.mem_flatMap]
  refine ⟨h, hg, ?_⟩
  cases hf : D.fnOf h with
  | none => rw [hf] at h2; cases h2
  | some fi =>
    rw [hf] at h2
    simp only [Bool.and_eq_true, Bool.not_eq_true', decide_eq_true_eq] at h2
    obtain ⟨⟨hl, hr⟩, hb⟩ := h2
    simp [fnFreeOf, hl, List.mem_filter, hr, hb]

theorem onChain_spec (D : CfgData) (p : Nat → Bool) (fuel g : Nat) (h : onChain D p fuel g = true) : ∃ x, p x = true := by
  induction fuel generalizing g with
  | zero => simp [onChain] at h
  | succ f ih =>
    simp only [onChain] at h
    split at h
    · cases h
    · simp only [Bool.or_eq_true] at h
      rcases h with h | h
      · exact ⟨g, h⟩
      · cases hf : D.fnOf g with
        | none => rw [hf] at h; cases h
        | some fi => rw [hf] at h; exact ih _ h

theorem closureReadCovered_spec (D : CfgData) (n g v : Nat) (h : closureReadCovered D n g v = true) :
    v ∈ fnFree D n := by
  obtain ⟨x, hx⟩ := onChain_spec D _ _ _ h
  exact coveredBy_spec D n x v hx

/-- what is left of finding class (b) after /repo ccf3d44: the reading function, or a local function enclosing it, declares
`v` nonlocal, and still the read is not covered — `Scope.finalize` of an isolated scope passes only `read − bound` up to the
enclosing function, so a `nonlocal v` declared in a function nested BELOW the reaching one never shows up in the reaching
function's `read` set (the class predicate is this one together with `closureReadCovered = false`) -/
def nonlocalInReader (D : CfgData) (g v : Nat) : Bool :=
  onChain D (fun h => match D.fnOf h with | some fi => fi.nonlocals.contains v | none => false) (D.fns.length + 1) g

/-- the function `g` is the analysed function itself or lexically nested in it -/
def nestedInAnalysed (D : CfgData) : Nat → Nat → Bool
  | 0, _ => false
  | fuel + 1, g => g == D.fnId || (match D.fnOf g with | some fi => nestedInAnalysed D fuel fi.parent | none => false)

/-- finding class `outer_function_defined_after_callers_definition`: the reader is a local function OUTSIDE the analysed one
(a sibling or an outer function it calls) that is not among the definitions reaching the analysed function's own entry —
`reaching_fndefs` seeds a nested graph with the definitions that reach its `def` statement, not those that reach its calls -/
def readerOutsideNotSeeded (D : CfgData) (g : Nat) : Bool :=
  !(nestedInAnalysed D (D.fns.length + 1) g) && !((D.fnsIn D.entry).contains g)

/-- finding class: the reading function is a lambda (assumed by the analysis to be used only where it is defined) -/
def readerIsLambda (D : CfgData) (g : Nat) : Bool :=
  match D.fnOf g with | some fi => fi.isLambda | none => false

/-! ### Statement level: LIVE_VARS_OUT / LIVE_VARS_IN -/

/-- every edge leaving the statement ends at a node of `stmt_next` -/
def stmtNextComplete (E : List (Nat × Nat)) (s : StmtData) : Bool :=
  E.all (fun e => !(s.inside.contains e.1 && !s.inside.contains e.2) || s.next.contains e.2)

/-- `LIVE_VARS_OUT ⊇ ⋃ in_[b]`, `b ∈ stmt_next` -/
def liveOutCovers (IN : St Nat) (s : StmtData) (lo : List Nat) : Bool :=
  s.next.all (fun b => (IN b).all (fun v => lo.contains v))

def liveOutTight (IN : St Nat) (s : StmtData) (lo : List Nat) : Bool :=
  lo.all (fun v => s.next.any (fun b => (IN b).contains v))

/-- **C07_stmt_level** (generic).  If the walk leaves statement `s` after step `i` and the value `v` holds then is
read later before being overwritten, `v` is in the reported `LIVE_VARS_OUT s`. -/
theorem live_out_stmt_sound (E : List (Nat × Nat)) (V : List Nat) (F : Flow Nat) (IN OUT : St Nat)
    (hfix : IsPostFix (Graph.revEdges E) V F OUT IN) (R : Run) (len : Nat)
    (hV : ∀ i, i ≤ len → R.node i ∈ V) (hpath : R.IsPath E len)
    (hgen : ∀ i v, i ≤ len → R.reads i v → v ∈ F.gen (R.node i))
    (hkill : ∀ i v, i ≤ len → F.kill (R.node i) v = true → R.touches i v)
    (s : StmtData) (lo : List Nat)
    (hnext : stmtNextComplete E s = true) (hcov : liveOutCovers IN s lo = true)
    (i v j : Nat) (hj : j ≤ len)
    (hin : R.node i ∈ s.inside) (hout : R.node (i + 1) ∉ s.inside)
    (h : R.ReadBeforeOverwrite i v j) : v ∈ lo := by
  have hl := (live_sound E V F IN OUT hfix R len hV hpath hgen hkill i v j hj h).2
  have hedge : (R.node i, R.node (i + 1)) ∈ E := hpath i (by have := h.1; omega)
  have hn : R.node (i + 1) ∈ s.next := by
    simp only [stmtNextComplete, List.all_eq_true] at hnext
    have := hnext _ hedge
    simp only [Bool.or_eq_true, Bool.not_eq_true', Bool.and_eq_false_iff, List.contains_eq_mem,
      decide_eq_false_iff_not, decide_eq_true_eq, Bool.not_eq_false'] at this
    rcases this with (h1 | h1) | h1
    · exact absurd hin h1
    · exact absurd h1 hout
    · exact h1
  simp only [liveOutCovers, List.all_eq_true, List.contains_eq_mem, decide_eq_true_eq] at hcov
  exact hcov _ hn _ hl

/-- `LIVE_VARS_IN(s) =` live_in of the statement's entry node (`_block_statement_live_in`) -/
def liveInOK (IN : St Nat) (s : StmtData) : Bool :=
  match s.entry, s.liveIn with
  | some e, some li => setEqB li (IN e)
  | _, _ => true

theorem liveInOK_mem {IN : St Nat} {s : StmtData} (h : liveInOK IN s = true) (e : Nat) (li : List Nat)
    (he : s.entry = some e) (hl : s.liveIn = some li) (v : Nat) (hv : v ∈ IN e) : v ∈ li := by
  simp only [liveInOK, he, hl] at h
  exact ((setEqB_spec _ _).mp h v).mpr hv

/-! ### Concrete traces -/

def Trace.readsB (T : Trace) (j v : Nat) : Bool :=
  match T[j]? with | some s => s.reads.contains v || s.creads.any (fun c => c.2 == v) | none => false

theorem Trace.readsB_iff (T : Trace) (j v : Nat) : T.readsB j v = true ↔ T.toRun.reads j v := by
  simp only [Trace.readsB, Trace.toRun]
  cases h : T[j]? with
  | none => simp
  | some s =>
    simp only [Bool.or_eq_true, List.contains_eq_mem, decide_eq_true_eq, List.any_eq_true, beq_iff_eq,
      Option.some.injEq, exists_eq_left']
    constructor
    · rintro (h | ⟨⟨g, v'⟩, hm, he⟩)
      · exact Or.inl h
      · simp only at he; subst he; exact Or.inr ⟨g, hm⟩
    · rintro (h | ⟨g, hm⟩)
      · exact Or.inl h
      · exact Or.inr ⟨(g, v), hm, rfl⟩

def isReadBeforeOverwriteB (T : Trace) (i j v : Nat) : Bool :=
  decide (i < j) && T.readsB j v && (List.range j).all (fun m => !(decide (i < m)) || !T.touchesB m v)

theorem isReadBeforeOverwriteB_spec (T : Trace) (i j v : Nat) (h : isReadBeforeOverwriteB T i j v = true) :
    T.toRun.ReadBeforeOverwrite i v j := by
  simp only [isReadBeforeOverwriteB, Bool.and_eq_true, decide_eq_true_eq, List.all_eq_true, List.mem_range,
    Bool.or_eq_true, Bool.not_eq_true', decide_eq_false_iff_not] at h
  obtain ⟨⟨h1, h2⟩, h3⟩ := h
  refine ⟨h1, (T.readsB_iff j v).mp h2, ?_⟩
  intro m him hmj ht
  rcases h3 m hmj with h | h
  · exact h him
  · rw [(T.touchesB_iff m v).mpr ht] at h; cases h

/-- hypothesis `hgen` at the reading step: the variable read is generated there (a direct read is in the node's
`scope.read` — property C08 —, a read by a local function is covered by the closure term) -/
def liveGenOK (D : CfgData) (T : Trace) (j v : Nat) : Bool := ((liveFlow D).gen (T.nodeAt j)).contains v

/-- hypothesis `hkill` for `v` strictly between `i` and `j` -/
def liveKillOK (D : CfgData) (T : Trace) (i j v : Nat) : Bool :=
  (List.range j).all (fun m => !(decide (i < m)) || !((liveFlow D).kill (T.nodeAt m) v) || T.touchesB m v)

/-- finding class (a), liveness side: a `for` header with target `v` is visited between `i` and `j` without binding `v` -/
def forTargetKilledUnwrittenL (D : CfgData) (T : Trace) (i j v : Nat) : Bool :=
  (List.range j).any (fun m => decide (i < m) && D.isForIter (T.nodeAt m) && (D.forTargets (T.nodeAt m)).contains v
    && (liveFlow D).kill (T.nodeAt m) v && !T.touchesB m v)

def otherKillUnwrittenL (D : CfgData) (T : Trace) (i j v : Nat) : Bool :=
  (List.range j).any (fun m => decide (i < m) && (liveFlow D).kill (T.nodeAt m) v && !T.touchesB m v
    && !(D.isForIter (T.nodeAt m) && (D.forTargets (T.nodeAt m)).contains v))

theorem liveKillOK_of_classes (D : CfgData) (T : Trace) (i j v : Nat)
    (h1 : forTargetKilledUnwrittenL D T i j v = false) (h2 : otherKillUnwrittenL D T i j v = false) :
    liveKillOK D T i j v = true := by
  simp only [liveKillOK, List.all_eq_true, List.mem_range]
  intro m hm
  have a1 := (List.any_eq_false.mp h1) m (List.mem_range.mpr hm)
  have a2 := (List.any_eq_false.mp h2) m (List.mem_range.mpr hm)
  cases hj : decide (i < m) <;> cases hk : (liveFlow D).kill (T.nodeAt m) v <;>
    cases ht : T.touchesB m v <;> simp_all

/-- **C07 on a concrete trace** — all hypotheses are decidable facts about the serialised real data. -/
theorem live_trace_sound (D : CfgData) (V : List Nat) (IN OUT : St Nat) (T : Trace)
    (hfix : isPostFix (Graph.revEdges D.graph.edges) V (liveFlow D) OUT IN = true)
    (hpath : isPathB D.graph.edges V T = true)
    (i j v : Nat) (hj : j < T.length)
    (hgen : liveGenOK D T j v = true)
    (hkill : liveKillOK D T i j v = true)
    (hrbo : isReadBeforeOverwriteB T i j v = true) :
    v ∈ OUT (T.nodeAt i) ∧ v ∈ IN (T.nodeAt (i + 1)) := by
  have hfix' := isPostFix_sound hfix
  obtain ⟨hV, hE⟩ := isPathB_spec _ _ _ hpath
  obtain ⟨hij, _, hno⟩ := isReadBeforeOverwriteB_spec T i j v hrbo
  have hs := flow_sound (Graph.revEdges D.graph.edges) V (liveFlow D) OUT IN hfix'
    (fun d => T.nodeAt (j - d)) 0 (j - i)
    (fun d _ hd => hV (j - d) (by omega))
    (fun d _ hd => by
      rw [Graph.mem_revEdges]
      have := hE (j - (d + 1)) (by omega)
      have e : j - (d + 1) + 1 = j - d := by omega
      rwa [e] at this)
    v (by simpa [liveGenOK] using hgen)
    (fun m hm0 hm => by
      simp only [liveKillOK, List.all_eq_true, List.mem_range, Bool.or_eq_true, Bool.not_eq_true',
        decide_eq_false_iff_not] at hkill
      rcases hkill (j - m) (by omega) with (h | h) | h
      · exact absurd (by omega : i < j - m) h
      · exact Or.inl h
      · exact absurd ((T.touchesB_iff (j - m) v).mp h) (hno (j - m) (by omega) (by omega)))
  have h1 := hs.2 (j - i) (by omega) (Nat.le_refl _)
  have h2 := hs.1 (j - i - 1) (by omega) (by omega)
  have e1 : j - (j - i) = i := by omega
  have e2 : j - (j - i - 1) = i + 1 := by omega
  simp only [e1] at h1
  simp only [e2] at h2
  exact ⟨h1, h2⟩

/-- run the worklist MODEL in reverse from the exit nodes (for the correspondence with the real solution);
in the result `A = live_out`, `B = live_in` -/
def liveRunModel (D : CfgData) (fuel : Nat) : WL Nat :=
  run (Graph.revEdges D.graph.edges) (liveFlow D) fuel (WL.init D.exits)

/-- fuel that always suffices (`Proofs/C06Worklist.lean`: `run_terminates`) -/
def liveFuel (D : CfgData) : Nat := fuelBound (Graph.revEdges D.graph.edges) D.exits (liveFlow D)

end Malt.Analysis
