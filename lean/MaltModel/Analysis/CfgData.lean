import MaltModel.Analysis.Dataflow
/-
The REAL per-function data the analyses of /repo read, as serialised by harness/dataflow_common.py:
the real `cfg.Graph` (nodes by serial AST id, edges from `Node.next`), per node the `Scope` sets
found under `anno.Static.SCOPE` (or none: the node takes the `can_ignore` branch), whether the node
is a `for` header, the `DEFINED_FNS_IN` annotation, and for every reaching local function its
`ARGS_AND_BODY_SCOPE`.  Variables (`QN`s) and functions are numbered by the harness.

Also: concrete execution traces (one activation of the function: its CFG-node visits in order
with the variable events of each visit), and their reading as an abstract `Run`.
-/
namespace Malt.Analysis

/-- the sets of `activity.Scope` that the dataflow analyses read -/
structure Scope where
  read : List Nat
  modified : List Nat
  deleted : List Nat
  bound : List Nat
  globals : List Nat
  nonlocals : List Nat
  params : List Nat
  annotations : List Nat
  deriving Repr, Inhabited

structure NodeInfo where
  id : Nat
  scope : Option Scope
  isForIter : Bool
  forTargets : List Nat
  isFnDef : Bool
  fnsIn : Option (List Nat)
  deriving Repr, Inhabited

/-- a local function (FunctionDef / Lambda node): `ARGS_AND_BODY_SCOPE`, and the function lexically enclosing it -/
structure FnInfo where
  id : Nat
  parent : Nat
  isLambda : Bool
  read : List Nat
  bound : List Nat
  nonlocals : List Nat
  globals : List Nat
  deriving Repr, Inhabited

structure CfgData where
  fnId : Nat
  graph : Graph
  entry : Nat
  exits : List Nat
  info : List NodeInfo
  fns : List FnInfo
  deriving Repr

namespace CfgData
def infoOf (D : CfgData) (n : Nat) : Option NodeInfo := D.info.find? (fun i => i.id == n)
def scopeOf (D : CfgData) (n : Nat) : Option Scope := (D.infoOf n).bind (·.scope)
def fnOf (D : CfgData) (f : Nat) : Option FnInfo := D.fns.find? (fun i => i.id == f)
def isForIter (D : CfgData) (n : Nat) : Bool := match D.infoOf n with | some i => i.isForIter | none => false
def forTargets (D : CfgData) (n : Nat) : List Nat := match D.infoOf n with | some i => i.forTargets | none => []
def fnsIn (D : CfgData) (n : Nat) : List Nat := match D.infoOf n with | some i => i.fnsIn.getD [] | none => []
end CfgData

/-- a solution as serialised: association list node ↦ facts; absent = empty -/
def solAt {α : Type} (s : List (Nat × List α)) : St α := fun n => (s.lookup n).getD []

/-! ### Concrete traces -/

/-- One visit of a CFG node by one activation of the function.
`reads`   variables whose value at the *beginning* of the visit is read by the node itself;
`writes`  variables the node itself binds; `dels` variables it unbinds;
`fwrites` variables of this function that OTHER activations (callees, closures) bind or unbind during the visit;
`creads`  (g, v): the local function `g` (or one nested in it), running during this visit, reads `v` of this function. -/
structure Step where
  node : Nat
  reads : List Nat
  writes : List Nat
  dels : List Nat
  fwrites : List Nat
  creads : List (Nat × Nat)
  deriving Repr, Inhabited

abbrev Trace := List Step

def Trace.nodeAt (T : Trace) (i : Nat) : Nat := (T[i]?.map (·.node)).getD 0

/-- The abstract run of a trace.  A read by a closure counts as a read; a foreign write counts as a
deletion (it overwrites, and the analysis of *this* function has no definition for it). -/
def Trace.toRun (T : Trace) : Run where
  node := T.nodeAt
  reads i v := ∃ s, T[i]? = some s ∧ (v ∈ s.reads ∨ ∃ g, (g, v) ∈ s.creads)
  writes i v := ∃ s, T[i]? = some s ∧ v ∈ s.writes
  dels i v := ∃ s, T[i]? = some s ∧ (v ∈ s.dels ∨ v ∈ s.fwrites)

/-- consecutive visits follow edges of `E`, and every visited node is in `V` -/
def isPathB (E : List (Nat × Nat)) (V : List Nat) : Trace → Bool
  | [] => true
  | [s] => V.contains s.node
  | s :: t :: rest => V.contains s.node && E.contains (s.node, t.node) && isPathB E V (t :: rest)

theorem isPathB_spec (E : List (Nat × Nat)) (V : List Nat) (T : Trace) (h : isPathB E V T = true) :
    (∀ i, i < T.length → T.nodeAt i ∈ V) ∧ (∀ i, i + 1 < T.length → (T.nodeAt i, T.nodeAt (i + 1)) ∈ E) := by
  induction T with
  | nil => exact ⟨fun i h => by simp at h, fun i h => by simp at h⟩
  | cons s rest ih =>
    cases rest with
    | nil =>
      simp only [isPathB, List.contains_eq_mem, decide_eq_true_eq] at h
      refine ⟨?_, fun i hi => by simp at hi⟩
      intro i hi
      have : i = 0 := by simp at hi; omega
      subst this
      simpa [Trace.nodeAt] using h
    | cons t rest =>
      simp only [isPathB, Bool.and_eq_true, List.contains_eq_mem, decide_eq_true_eq] at h
      obtain ⟨⟨hs, he⟩, hr⟩ := h
      obtain ⟨ih1, ih2⟩ := ih hr
      refine ⟨?_, ?_⟩
      · intro i hi
        cases i with
        | zero => simpa [Trace.nodeAt] using hs
        | succ i =>
          have := ih1 i (by simp at hi ⊢; omega)
          simpa [Trace.nodeAt] using this
      · intro i hi
        cases i with
        | zero => simpa [Trace.nodeAt] using he
        | succ i =>
          have := ih2 i (by simp at hi ⊢; omega)
          simpa [Trace.nodeAt] using this

end Malt.Analysis
