import MaltModel.Analysis.Dataflow
/-
Model of `cfg.GraphVisitor._visit_internal` (the breadth-first worklist) together with the shape
that all `visit_node` implementations share:

    open_ = [start…]; closed = set()
    while open_:
      node = open_.pop(0); closed.add(node)
      should_revisit = self.visit_node(node)          -- recompute A node, B node; report B changed
      for next_ in children(node):
        if should_revisit or next_ not in closed: open_.append(next_)

oriented as in `Dataflow.lean` (children of `n` are the `c` with `(n, c) ∈ E`; the join at `n` is over
the `p` with `(p, n) ∈ E`; for the reverse walk `E` is the reversed edge list).

Main result `worklist_fix`: whenever the loop has run to quiescence (`open_ = []`, within any fuel),
the stored solution is a fixed point (with equality) of the equations on the set of visited nodes,
that set is closed under `E` and contains the start nodes.
-/
namespace Malt.Analysis
section
variable {α : Type} [DecidableEq α]

def joinAt (E : List (Nat × Nat)) (B : St α) (n : Nat) : List α :=
  (E.filter (fun e => e.2 == n)).flatMap (fun e => B e.1)

def transfer (F : Flow α) (n : Nat) (a : List α) : List α :=
  F.gen n ++ a.filter (fun x => !F.kill n x)

def setEqB (x y : List α) : Bool := x.all (fun a => y.contains a) && y.all (fun a => x.contains a)

def upd (f : St α) (n : Nat) (v : List α) : St α := fun m => if m = n then v else f m

structure WL (α : Type) where
  open_ : List Nat
  closed : List Nat
  A : St α
  B : St α

def WL.init (start : List Nat) : WL α := ⟨start, [], fun _ => [], fun _ => []⟩

/-- one iteration of the `while open_` loop -/
def step (E : List (Nat × Nat)) (F : Flow α) (s : WL α) : WL α :=
  match s.open_ with
  | [] => s
  | n :: rest =>
    let a := joinAt E s.B n
    let b := transfer F n a
    let changed := !(setEqB (s.B n) b)
    let closed' := n :: s.closed
    let children := (E.filter (fun e => e.1 == n)).map (·.2)
    { open_ := rest ++ children.filter (fun c => changed || !(closed'.contains c)),
      closed := closed', A := upd s.A n a, B := upd s.B n b }

def run (E : List (Nat × Nat)) (F : Flow α) : Nat → WL α → WL α
  | 0, s => s
  | fuel + 1, s => match s.open_ with
    | [] => s
    | _ :: _ => run E F fuel (step E F s)

/-! A fuel bound for `run`, computed from the graph and the gen sets alone (proved sufficient in `Proofs/C06Worklist.lean`:
`run_terminates`).  It is exponential in the number of nodes because the algorithm is: a child that is not yet in `closed` is
appended at every visit of a predecessor, also when it is already waiting, so the join behind `k` consecutive if/else
statements is visited `2^k` times. -/

/-- every node the work-list can ever hold -/
def nodesOf (E : List (Nat × Nat)) (start : List Nat) : List Nat := start ++ E.map (·.1) ++ E.map (·.2)

/-- every fact the solution can ever hold -/
def factsOf (E : List (Nat × Nat)) (start : List Nat) (F : Flow α) : List α := (nodesOf E start).flatMap F.gen

/-- what one waiting entry can still cause while `u` nodes are unvisited, `D` bounding the number of children -/
def gW (D : Nat) : Nat → Nat
  | 0 => 1
  | u + 1 => gW D u + D * gW D u + 1

def fuelBound (E : List (Nat × Nat)) (start : List Nat) (F : Flow α) : Nat :=
  let Ns := nodesOf E start
  start.length * gW E.length Ns.length +
    (E.length * gW E.length (Ns.length + 1)) * (Ns.length * (factsOf E start F).length)

omit [DecidableEq α] in
theorem mem_joinAt (E : List (Nat × Nat)) (B : St α) (n : Nat) (a : α) :
    a ∈ joinAt E B n ↔ ∃ p, (p, n) ∈ E ∧ a ∈ B p := by
  simp only [joinAt, List.mem_flatMap, List.mem_filter, beq_iff_eq]
  constructor
  · rintro ⟨⟨p, n'⟩, ⟨hE, hn⟩, ha⟩
    simp only at hn ha; subst hn; exact ⟨p, hE, ha⟩
  · rintro ⟨p, hE, ha⟩; exact ⟨(p, n), ⟨hE, rfl⟩, ha⟩

omit [DecidableEq α] in
theorem mem_transfer (F : Flow α) (n : Nat) (x : List α) (a : α) :
    a ∈ transfer F n x ↔ (a ∈ F.gen n ∨ (a ∈ x ∧ F.kill n a = false)) := by
  simp [transfer, List.mem_append, List.mem_filter]

theorem setEqB_spec (x y : List α) : setEqB x y = true ↔ SetEq x y := by
  simp only [setEqB, Bool.and_eq_true, List.all_eq_true, List.contains_eq_mem, decide_eq_true_eq, SetEq]
  constructor
  · rintro ⟨h1, h2⟩ a; exact ⟨h1 a, h2 a⟩
  · intro h; exact ⟨fun a ha => (h a).mp ha, fun a ha => (h a).mpr ha⟩

/-- the equations hold at `n` -/
def NodeOK (E : List (Nat × Nat)) (F : Flow α) (A B : St α) (n : Nat) : Prop :=
  SetEq (A n) (joinAt E B n) ∧ SetEq (B n) (transfer F n (A n))

structure Inv (E : List (Nat × Nat)) (F : Flow α) (start : List Nat) (s : WL α) : Prop where
  ok : ∀ n, n ∈ s.closed → n ∉ s.open_ → NodeOK E F s.A s.B n
  front : ∀ n c, n ∈ s.closed → (n, c) ∈ E → c ∈ s.closed ∨ c ∈ s.open_
  start : ∀ n, n ∈ start → n ∈ s.closed ∨ n ∈ s.open_

omit [DecidableEq α] in
theorem inv_init (E : List (Nat × Nat)) (F : Flow α) (start : List Nat) :
    Inv E F start (WL.init start : WL α) :=
  ⟨fun n h => by simp [WL.init] at h, fun n c h => by simp [WL.init] at h,
   fun n h => Or.inr (by simpa [WL.init] using h)⟩

omit [DecidableEq α] in
private theorem joinAt_congr (E : List (Nat × Nat)) (B B' : St α) (n : Nat)
    (h : ∀ p, (p, n) ∈ E → SetEq (B p) (B' p)) : SetEq (joinAt E B n) (joinAt E B' n) := by
  intro a
  rw [mem_joinAt, mem_joinAt]
  constructor
  · rintro ⟨p, hE, ha⟩; exact ⟨p, hE, (h p hE a).mp ha⟩
  · rintro ⟨p, hE, ha⟩; exact ⟨p, hE, (h p hE a).mpr ha⟩

omit [DecidableEq α] in
private theorem SetEq.trans' {x y z : List α} (h1 : SetEq x y) (h2 : SetEq y z) : SetEq x z :=
  fun a => (h1 a).trans (h2 a)

private theorem inv_mk (E : List (Nat × Nat)) (F : Flow α) (start : List Nat) (s : WL α)
    (h : Inv E F start s) (n : Nat) (rest : List Nat) (hopen : s.open_ = n :: rest)
    (b : List α) (hb : b = transfer F n (joinAt E s.B n))
    (changed : Bool) (hch : changed = !(setEqB (s.B n) b)) :
    Inv E F start
      { open_ := rest ++ ((E.filter (fun e => e.1 == n)).map (·.2)).filter
                    (fun c => changed || !((n :: s.closed).contains c)),
        closed := n :: s.closed, A := upd s.A n (joinAt E s.B n), B := upd s.B n b } := by
  have hchild : ∀ c, (n, c) ∈ E → c ∈ (E.filter (fun e => e.1 == n)).map (·.2) := by
    intro c hc
    simp only [List.mem_map, List.mem_filter, beq_iff_eq]
    exact ⟨(n, c), ⟨hc, rfl⟩, rfl⟩
  -- B after the visit agrees (as sets) with B before, unless `changed`
  have hBsame : changed = false → ∀ p, SetEq (upd s.B n b p) (s.B p) := by
    intro hc p
    by_cases hp : p = n
    · subst hp
      have : setEqB (s.B p) b = true := by
        rw [hch] at hc
        simpa using hc
      have := (setEqB_spec _ _).mp this
      intro a; simp only [upd, if_true]; exact (this a).symm
    · intro a; simp [upd, hp]
  refine ⟨?_, ?_, ?_⟩
  · -- ok
    intro m hm hmo
    simp only [List.mem_append, List.mem_filter, not_or, not_and] at hmo
    obtain ⟨hmrest, hmfil⟩ := hmo
    -- if B changed then m is not a child of n
    have hnotchild : changed = true → (n, m) ∉ E := by
      intro hc hE
      have := hmfil (hchild m hE)
      simp [hc] at this
    have hjoin : SetEq (joinAt E (upd s.B n b) m) (joinAt E s.B m) := by
      cases hc : changed with
      | false => exact joinAt_congr E _ _ m (fun p _ => hBsame hc p)
      | true =>
        apply joinAt_congr
        intro p hpE
        have hpn : p ≠ n := by
          intro e; subst e; exact hnotchild hc hpE
        intro a; simp [upd, hpn]
    by_cases hmn : m = n
    · subst hmn
      refine ⟨?_, ?_⟩
      · intro a
        simp only [upd, if_true]
        exact ((hjoin a).symm)
      · intro a
        simp only [upd, if_true]
        rw [hb]
    · have hmc : m ∈ s.closed := by
        simp only [List.mem_cons] at hm
        rcases hm with h | h
        · exact absurd h hmn
        · exact h
      have hmo' : m ∉ s.open_ := by
        rw [hopen]; simp only [List.mem_cons, not_or]; exact ⟨hmn, hmrest⟩
      obtain ⟨h1, h2⟩ := h.ok m hmc hmo'
      refine ⟨?_, ?_⟩
      · intro a
        simp only [upd, hmn, if_false]
        exact (h1 a).trans ((hjoin a).symm)
      · intro a
        simp only [upd, hmn, if_false]
        exact h2 a
  · -- front
    intro m c hm hE
    simp only [List.mem_cons] at hm
    by_cases hcc : c ∈ n :: s.closed
    · exact Or.inl hcc
    · right
      simp only [List.mem_append, List.mem_filter]
      rcases hm with hm | hm
      · subst hm
        right
        refine ⟨hchild c hE, ?_⟩
        simp [hcc]
      · rcases h.front m c hm hE with h' | h'
        · exact absurd (List.mem_cons_of_mem _ h') hcc
        · rw [hopen] at h'
          simp only [List.mem_cons] at h'
          rcases h' with h' | h'
          · subst h'; exact absurd (List.mem_cons_self ..) hcc
          · exact Or.inl h'
  · -- start
    intro m hm
    rcases h.start m hm with h' | h'
    · exact Or.inl (List.mem_cons_of_mem _ h')
    · rw [hopen] at h'
      simp only [List.mem_cons] at h'
      rcases h' with h' | h'
      · subst h'; exact Or.inl (List.mem_cons_self ..)
      · exact Or.inr (List.mem_append_left _ h')

theorem inv_step (E : List (Nat × Nat)) (F : Flow α) (start : List Nat) (s : WL α)
    (h : Inv E F start s) : Inv E F start (step E F s) := by
  unfold step
  split
  · exact h
  · rename_i n rest hopen
    exact inv_mk E F start s h n rest hopen _ rfl _ rfl

theorem inv_run (E : List (Nat × Nat)) (F : Flow α) (start : List Nat) (fuel : Nat) (s : WL α)
    (h : Inv E F start s) : Inv E F start (run E F fuel s) := by
  induction fuel generalizing s with
  | zero => exact h
  | succ f ih =>
    unfold run
    split
    · exact h
    · exact ih _ (inv_step E F start s h)

/-- **worklist_fix.** If `_visit_internal` has run to quiescence, the stored `in_/out` satisfy the
analysis' equations with equality on every visited node; the visited set contains the start
nodes and is closed under the walk direction. -/
theorem worklist_fix (E : List (Nat × Nat)) (F : Flow α) (start : List Nat) (fuel : Nat)
    (hq : (run E F fuel (WL.init start)).open_ = []) :
    let s := run E F fuel (WL.init start)
    IsFix E s.closed F s.A s.B ∧ closedUnder E s.closed = true ∧ ∀ n, n ∈ start → n ∈ s.closed := by
  intro s
  have hinv : Inv E F start s := inv_run E F start fuel _ (inv_init E F start)
  have hq' : s.open_ = [] := hq
  refine ⟨⟨?_, ?_⟩, ?_, ?_⟩
  · intro n hn a
    have := (hinv.ok n hn (by rw [hq']; simp)).1 a
    rw [this, mem_joinAt]
  · intro n hn a
    have := (hinv.ok n hn (by rw [hq']; simp)).2 a
    rw [this, mem_transfer]
  · simp only [closedUnder, List.all_eq_true, Bool.or_eq_true, Bool.not_eq_true',
      List.contains_eq_mem, decide_eq_true_eq, decide_eq_false_iff_not]
    rintro ⟨a, b⟩ hE
    by_cases ha : a ∈ s.closed
    · right
      rcases hinv.front a b ha hE with h | h
      · exact h
      · rw [hq'] at h; simp at h
    · exact Or.inl ha
  · intro n hn
    rcases hinv.start n hn with h | h
    · exact h
    · rw [hq'] at h; simp at h

end
end Malt.Analysis
