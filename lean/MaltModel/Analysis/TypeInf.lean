import MaltModel.Py.Ast
/-!
# `Analysis.TypeInf` — model of `malt/pyct/static_analysis/type_inference.py`

What is modelled (the code that exists on the pinned tree, not what it should do):

* types: a finite enum + products (`visit_Tuple` reports `itertools.product` of the element type
  sets, i.e. *tuples of types*) + `Callable[[Any], rt]` (`visit_FunctionDef`) + `Any`;
  "unknown" is the *absence* of a set (`Option TySet = none`, Python `None`);
* `_TypeMap`: name ↦ set of types, `__or__` = key-wise union (`TMap.join`), `__eq__` (`TMap.eqB`),
  `types_out.types.update(new_symbols)` = strong update (`TMap.update`);
* `StmtInferrer`: `tyE` (what `visit(expr)` returns for an expression in Load position — a pure function of
  the resolver, the scope facts and `types_in`), `bindT` (what `visit(target)` adds to `new_symbols`
  for a given `rtype`, including `_apply_unpacking`), `newSyms` (the `new_symbols` of one CFG node:
  `visit_Assign`, `visit_FunctionDef`, `visit_arg`; everything else goes through `generic_visit` and
  binds nothing), `annN` (the `anno.Static.TYPES` annotations a visit leaves behind);
* `Analyzer.visit_node` (`visitNode`: join of the predecessors' `out`, context types at the entry,
  strong update, `_update_closure_types` for every reaching local function whose name the node reads)
  and `GraphVisitor._visit_internal` forward mode (`run`: FIFO work list, `closed` set, successors
  re-queued when the node's `out` changed);
* the resolver is a PARAMETER (`Resolver`): one function per `Resolver.res_*` method.  AST nodes the
  resolver receives are identified by their node id.

Not modelled (flagged by `suppN`, such programs are skipped by the harness): `visit_Attribute`,
lambdas / comprehensions / starred / named expressions inside statements, `Set` literals (raise
`NotImplementedError`), decorators, `global`, `del`, `try`, imports, classes, resolver side effects
(`res_call`'s second component; the harness resolver never returns any).
-/
namespace Malt.TypeInf
open Malt.Py

/-! ## Types -/

mutual
inductive Ty where
  | int | float | bool | str | list | tuple | none | function | any
  | other (name : String)
  | prod (ts : Tys)           -- an element of `itertools.product(*elt_types)`
  | fn (ret : Ty)             -- `Callable[[Any], ret]`
  deriving Repr, DecidableEq
inductive Tys where
  | nil
  | cons (t : Ty) (ts : Tys)
  deriving Repr, DecidableEq
end

instance : Inhabited Ty := ⟨.any⟩
instance : Inhabited Tys := ⟨.nil⟩

def Tys.ofList : List Ty → Tys
  | [] => .nil
  | t :: ts => .cons t (Tys.ofList ts)

def Tys.toList : Tys → List Ty
  | .nil => []
  | .cons t ts => t :: ts.toList

/-- A set of types (a Python `set`); order and duplicates are irrelevant to every consumer. -/
abbrev TySet := List Ty

def TySet.union (a b : TySet) : TySet := a ++ b.filter (fun t => !a.contains t)

def TySet.subset (a b : TySet) : Bool := a.all (fun t => b.contains t)

/-- `set(itertools.product(*elt_types))`. -/
def product : List TySet → List Tys
  | [] => [.nil]
  | T :: rest => T.flatMap fun t => (product rest).map (Tys.cons t)

def tupleTypes (ts : List TySet) : TySet := (product ts).map Ty.prod

/-- `_resolve_typed_callable`: the return types of the callables (non-callables make the real code raise;
`allFn` says whether it would). -/
def retTypes (ft : TySet) : TySet :=
  ft.filterMap fun t => match t with | .fn r => some r | _ => none

def allFn (ft : TySet) : Bool := ft.all fun t => match t with | .fn _ => true | _ => false

/-! ## Type maps (`_TypeMap`) -/

abbrev TMap := List (String × TySet)

def TMap.get : TMap → String → Option TySet
  | [], _ => none
  | (k, v) :: m, x => if k = x then some v else TMap.get m x

def TMap.keys (m : TMap) : List String := m.map (·.1)

/-- Drop repeated keys (keeps the last occurrence; only membership matters). -/
def dedupKeys : List String → List String
  | [] => []
  | k :: ks => if ks.contains k then dedupKeys ks else k :: dedupKeys ks

/-- `_TypeMap.__or__`: every key of either operand, sets united. -/
def TMap.join (a b : TMap) : TMap :=
  (dedupKeys (a.keys ++ b.keys)).map fun k => (k, TySet.union ((a.get k).getD []) ((b.get k).getD []))

/-- `types.update(new_symbols)`; `news` is in chronological order, a later entry for the same name wins. -/
def TMap.update (m : TMap) (news : List (String × TySet)) : TMap := news.reverse ++ m

/-- Drop shadowed bindings (same `get`; keeps the maps of the work-list model small). -/
def TMap.norm (m : TMap) : TMap := (dedupKeys m.keys).filterMap fun k => (m.get k).map fun T => (k, T)

/-- Inclusion observed through `get`: every key of `a` is a key of `b` with a superset. -/
def TMap.leB (a b : TMap) : Bool :=
  a.keys.all fun k =>
    match a.get k, b.get k with
    | some T, some T' => TySet.subset T T'
    | some _, none => false
    | none, _ => true

/-- `_TypeMap.__eq__`: same keys, same sets. -/
def TMap.eqB (a b : TMap) : Bool := a.leB b && b.leB a

/-! ## The resolver (parameter) -/

structure Resolver where
  /-- `res_value(ns, constant)`; the constant is identified by (Python type name, `repr`). -/
  value : String → String → Option TySet
  /-- `res_name(ns, types_ns, name)[0]` for an external (global / closure) name or a return annotation. -/
  name : String → Option TySet
  /-- `res_arg(ns, types_ns, f_name, name, type_anno, f_is_local)`. -/
  arg : String → String → Option String → Bool → Option TySet
  /-- `res_call(ns, types_ns, node, f_type, args, keywords)[0]`; `node` by id. -/
  call : Nat → Option TySet → List (Option TySet) → List (Option TySet) → Option TySet
  /-- `res_slice(ns, types_ns, i, value_types, i_type)` as called by `_apply_unpacking`. -/
  sliceIdx : Nat → TySet → Option TySet → Option TySet
  /-- `res_slice(ns, types_ns, node, value_types, slice_types)` for a `Subscript` node. -/
  slice : Nat → TySet → TySet → Option TySet
  compare : Nat → TySet → List TySet → Option TySet
  unop : Nat → TySet → Option TySet
  binop : Nat → TySet → TySet → Option TySet
  listLit : List (Option TySet) → Option TySet
  /-- `visit_Attribute` when the parent's types are known: `getattr` of the attribute on every parent type (CPython),
  and, if that gives one stable static value, `res_value` of it.  (The resolver is assumed to return no static
  values from `res_name`, as the harness resolver does; for an attribute of an attribute whose inner types are known
  the real code goes through the inner node's static VALUE instead — modelled as the same query.) -/
  attr : Nat → TySet → Option TySet

/-- Facts about the function being analysed that `StmtInferrer`/`Analyzer` read from `activity.Scope`
and from the `CLOSURE_TYPES` annotation. -/
structure FnEnv where
  fname : String
  isLocal : Bool                 -- `scope.parent.parent is not None`
  bound : List String            -- `scope.bound`
  nonlocals : List String        -- `scope.nonlocals`
  closure : TMap                 -- `closure_types`
  deriving Repr

/-- Name of a plain `Name` expression (the QN of an annotation / callee), if it is one. -/
def nameOf? : Expr → Option String
  | .name _ s _ => some s
  | _ => none

/-- `anno.Basic.QN` of a callee / attribute chain over plain names (`a`, `a.b.c`); `none` for anything else
(a call result, a literal, …; subscript-based QNs are not modelled, see `suppE`). -/
def qnOf? : Expr → Option String
  | .name _ s _ => some s
  | .attr _ v a _ => (qnOf? v).map fun q => q ++ "." ++ a
  | _ => none

def keywordValue : Expr → Expr
  | .keyword _ _ _ v => v
  | e => e

/-- Is `name` looked up outside `types_in` (closure types, then the resolver)?  `visit_Name`:
`(name not in self.scope.bound) or (name in self.scope.nonlocals)`. -/
def FnEnv.isFree (env : FnEnv) (x : String) : Bool := !env.bound.contains x || env.nonlocals.contains x

/-- `closure_types[name]` if present, else `resolver.res_name`. -/
def extType (R : Resolver) (env : FnEnv) (x : String) : Option TySet :=
  match env.closure.get x with
  | some T => some T
  | none => R.name x

/-! ## `StmtInferrer` on expressions in Load position -/

mutual
/-- What `StmtInferrer.visit(e)` returns (`none` = Python `None` = nothing known). -/
def tyE (R : Resolver) (env : FnEnv) (tin : TMap) : Expr → Option TySet
  | .const _ k r => R.value k r
  | .name _ x .load =>
      match tin.get x with
      | some T => some T
      | none => if env.isFree x then extType R env x else none
  | .seq _ .tuple es .load => (tyAll R env tin es).map tupleTypes
  | .seq _ .list es .load => R.listLit (tyOpts R env tin es)
  | .attr i v _ _ =>
      match tyE R env tin v with
      | some T => R.attr i T
      | none => none
  | .call i f args kws =>
      -- `f_name = QN.of(node.func)`; `f_name in scope.bound` -> the local definition's types, else `res_call`
      match qnOf? f with
      | some q =>
          if env.bound.contains q then
            match tin.get q with
            | none => none
            | some ft => if allFn ft then some (retTypes ft) else none   -- non-callable member: the real code raises
          else
            R.call i (tyE R env tin f) (tyOpts R env tin args) (tyOptsKw R env tin kws)
      | none => R.call i (tyE R env tin f) (tyOpts R env tin args) (tyOptsKw R env tin kws)
  | .subscript i v s _ =>
      match tyE R env tin v, tyE R env tin s with
      | some a, some b => R.slice i a b
      | _, _ => none
  | .compare i l _ rs =>
      match tyE R env tin l, tyAll R env tin rs with
      | some a, some bs => R.compare i a bs
      | _, _ => none
  | .binop i _ l r =>
      match tyE R env tin l, tyE R env tin r with
      | some a, some b => R.binop i a b
      | _, _ => none
  | .unary i _ e =>
      match tyE R env tin e with
      | some a => R.unop i a
      | none => none
  | _ => none
/-- All element types, or `none` as soon as one is unknown (`visit_Tuple`, `visit_Compare`). -/
def tyAll (R : Resolver) (env : FnEnv) (tin : TMap) : List Expr → Option (List TySet)
  | [] => some []
  | e :: es =>
      match tyE R env tin e, tyAll R env tin es with
      | some T, some Ts => some (T :: Ts)
      | _, _ => none
/-- Element types individually (`[self.visit(a) for a in node.args]`). -/
def tyOpts (R : Resolver) (env : FnEnv) (tin : TMap) : List Expr → List (Option TySet)
  | [] => []
  | e :: es => tyE R env tin e :: tyOpts R env tin es
/-- `[self.visit(kw.value) for kw in node.keywords]`. -/
def tyOptsKw (R : Resolver) (env : FnEnv) (tin : TMap) : List Expr → List (Option TySet)
  | [] => []
  | .keyword _ _ _ v :: es => tyE R env tin v :: tyOptsKw R env tin es
  | e :: es => tyE R env tin e :: tyOptsKw R env tin es
end

/-! ## Store positions: `visit_Name` (Store), `_apply_unpacking` -/

mutual
/-- The entries `visit(target)` adds to `new_symbols` when `self.rtype = rt` (chronological order). -/
def bindT (R : Resolver) : Option TySet → Expr → List (String × TySet)
  | some T, .name _ x .store => [(x, T)]
  | some T, .seq _ _ es .store => bindTs R T (R.value "int" "0") 0 es
  | rt, .starred _ v _ => bindT R rt v      -- `generic_visit`: the starred name receives the rtype of its POSITION
  | _, _ => []
def bindTs (R : Resolver) (orig : TySet) (ityp : Option TySet) (i : Nat) : List Expr → List (String × TySet)
  | [] => []
  | e :: es => bindT R (R.sliceIdx i orig ityp) e ++ bindTs R orig ityp (i + 1) es
end

mutual
/-- Names in Store (or Del) position anywhere inside an expression. -/
def storedE : Expr → List String
  | .name _ x .store => [x]
  | .name _ x .del => [x]
  | .name _ _ .load => []
  | .const .. => []
  | .attr _ v _ _ => storedE v
  | .subscript _ v s _ => storedE v ++ storedE s
  | .call _ f a k => storedE f ++ storedEs a ++ storedEs k
  | .keyword _ _ _ v => storedE v
  | .boolop _ _ vs => storedEs vs
  | .unary _ _ e => storedE e
  | .binop _ _ l r => storedE l ++ storedE r
  | .compare _ l _ rs => storedE l ++ storedEs rs
  | .ifexp _ a b c => storedE a ++ storedE b ++ storedE c
  | .lambda _ a b => storedE a ++ storedE b
  | .seq _ _ es _ => storedEs es
  | .starred _ v _ => storedE v
  | .namedexpr _ t v => storedE t ++ storedE v
  | .comp _ _ es gs => storedEs es ++ storedEs gs
  | .comprehension _ t it ifs _ => storedE t ++ storedE it ++ storedEs ifs
  | .arguments _ a b c d e f g => storedEs a ++ storedEs b ++ storedEs c ++ storedEs d ++ storedEs e ++ storedEs f ++ storedEs g
  | .arg _ _ an => storedEs an
  | .withitem _ c v => storedE c ++ storedEs v
  | .noneMarker => []
  | .other _ _ _ kids => storedEs kids
def storedEs : List Expr → List String
  | [] => []
  | e :: es => storedE e ++ storedEs es
end

mutual
/-- Names read (Load position) anywhere inside an expression. -/
def readsE : Expr → List String
  | .name _ x .load => [x]
  | .name _ _ _ => []
  | .const .. => []
  | .attr i v a c => readsE v ++ (match qnOf? (.attr i v a c) with | some q => [q] | none => [])
  | .subscript _ v s _ => readsE v ++ readsE s
  | .call _ f a k => readsE f ++ readsEs a ++ readsEs k
  | .keyword _ _ _ v => readsE v
  | .boolop _ _ vs => readsEs vs
  | .unary _ _ e => readsE e
  | .binop _ _ l r => readsE l ++ readsE r
  | .compare _ l _ rs => readsE l ++ readsEs rs
  | .ifexp _ a b c => readsE a ++ readsE b ++ readsE c
  | .lambda _ a b => readsE a ++ readsE b
  | .seq _ _ es _ => readsEs es
  | .starred _ v _ => readsE v
  | .namedexpr _ t v => readsE t ++ readsE v
  | .comp _ _ es gs => readsEs es ++ readsEs gs
  | .comprehension _ t it ifs _ => readsE t ++ readsE it ++ readsEs ifs
  | .arguments _ a b c d e f g => readsEs a ++ readsEs b ++ readsEs c ++ readsEs d ++ readsEs e ++ readsEs f ++ readsEs g
  | .arg _ _ an => readsEs an
  | .withitem _ c v => readsE c ++ readsEs v
  | .noneMarker => []
  | .other _ _ _ kids => readsEs kids
def readsEs : List Expr → List String
  | [] => []
  | e :: es => readsE e ++ readsEs es
end

/-! ## CFG nodes and `new_symbols` -/

/-- The AST node a CFG node carries.  `forIter`: the CFG node of a `for` statement is its `iter`
expression (`AstToCfg.visit_For`); the loop target is bound by the loop itself and is not part of any node. -/
inductive CNode where
  | stmt (s : Stmt)
  | expr (e : Expr)
  | forIter (target iter : Expr)
  deriving Repr, Inhabited

/-- `arg` nodes of an `arguments` node in `generic_visit` order (posonlyargs, args, vararg, kwonlyargs, kwarg). -/
def argNodes : Expr → List Expr
  | .arguments _ po ar va ko _ kw _ => po ++ ar ++ va ++ ko ++ kw
  | _ => []

def argName : Expr → Option String
  | .arg _ n _ => some n
  | _ => none

/-- `visit_arg`: `res_arg(ns, types, scope.function_name, name, QN(annotation), f_is_local)`. -/
def argType (R : Resolver) (env : FnEnv) : Expr → Option TySet
  | .arg _ n an =>
      let a := match an with | [e] => nameOf? e | _ => none
      R.arg env.fname n a env.isLocal
  | _ => none

def argSyms (R : Resolver) (env : FnEnv) : List Expr → List (String × TySet)
  | [] => []
  | a :: as =>
      (match argName a, argType R env a with
       | some n, some T => [(n, T)]
       | _, _ => []) ++ argSyms R env as

/-- `visit_FunctionDef`: `{Callable[[Any], rt] for rt in ret_types}`; `ret_types = {Any}` when there is no
return annotation or the resolver does not know it. -/
def defTypes (R : Resolver) (returns : List Expr) : TySet :=
  let rets : TySet := match returns with
    | [e] => (match nameOf? e with
              | some a => (match R.name a with | some T => T | none => [.any])
              | none => [.any])
    | _ => [.any]
  rets.map Ty.fn

def bindAllT (R : Resolver) (rt : Option TySet) : List Expr → List (String × TySet)
  | [] => []
  | t :: ts => bindT R rt t ++ bindAllT R rt ts

/-- `inferrer.new_symbols` after `inferrer.visit(ast_node)`, in chronological order. -/
def newSyms (R : Resolver) (env : FnEnv) (tin : TMap) : CNode → List (String × TySet)
  | .stmt (.assign _ targets value) => bindAllT R (tyE R env tin value) targets
  | .stmt (.functionDef _ g _ _ _ returns _) => [(g, defTypes R returns)]
  | .expr (.arguments i a b c d e f g) => argSyms R env (argNodes (.arguments i a b c d e f g))
  | _ => []

/-- Names a node may (re)bind in the frame of the function being analysed. -/
def storedN : CNode → List String
  | .stmt (.assign _ targets _) => storedEs targets
  | .stmt (.augAssign _ t _ _) => storedE t
  | .stmt (.annAssign _ t _ _ _) => storedE t
  | .stmt (.functionDef _ g ..) => [g]
  | .expr (.arguments i a b c d e f g) => (argNodes (.arguments i a b c d e f g)).filterMap argName
  | .expr (.withitem _ _ vars) => storedEs vars
  | .expr _ => []
  | .forIter target _ => storedE target
  | .stmt _ => []

/-- `Analyzer.visit_node`'s `types_out` for a given `types_in`. -/
def transfer (R : Resolver) (env : FnEnv) (n : CNode) (tin : TMap) : TMap :=
  tin.update (newSyms R env tin n)

/-! ## The `TYPES` annotations a visit leaves behind (driver output; no theorem depends on the order) -/

def selfAnn (R : Resolver) (env : FnEnv) (tin : TMap) (e : Expr) : List (Nat × TySet) :=
  match tyE R env tin e with
  | some T => [(e.id, T)]
  | none => []

mutual
/-- Annotations made by `visit(e)` for `e` in Load position (or under `generic_visit`, where
`rtype` is `None`), chronological. -/
def annE (R : Resolver) (env : FnEnv) (tin : TMap) : Expr → List (Nat × TySet)
  | .const i k r => selfAnn R env tin (.const i k r)
  | .name i x c => selfAnn R env tin (.name i x c)
  | .seq i .tuple es .load => annTuple R env tin es ++ selfAnn R env tin (.seq i .tuple es .load)
  | .seq i .list es .load => annEs R env tin es ++ selfAnn R env tin (.seq i .list es .load)
  | .seq _ _ _ _ => []                       -- Store target under rtype = None: `_apply_unpacking` returns at once
  | .call i f a k => annE R env tin f ++ annEs R env tin a ++ annKw R env tin k ++ selfAnn R env tin (.call i f a k)
  | .subscript i v s c => annE R env tin v ++ annE R env tin s ++ selfAnn R env tin (.subscript i v s c)
  | .compare i l o rs => annE R env tin l ++ annEs R env tin rs ++ selfAnn R env tin (.compare i l o rs)
  | .binop i o l r => annE R env tin l ++ annE R env tin r ++ selfAnn R env tin (.binop i o l r)
  | .unary i o e => annE R env tin e ++ selfAnn R env tin (.unary i o e)
  | .boolop _ _ vs => annEs R env tin vs
  | .ifexp _ a b c => annE R env tin a ++ annE R env tin b ++ annE R env tin c
  | .starred _ v _ => annE R env tin v
  | .attr i v a c => annE R env tin v ++ selfAnn R env tin (.attr i v a c)
  | .other _ _ _ kids => annEs R env tin kids          -- Dict, Slice, JoinedStr, …: `generic_visit`
  | .comp _ _ es gs => annEs R env tin es ++ annEs R env tin gs
  | .comprehension _ t it ifs _ => annE R env tin t ++ annE R env tin it ++ annEs R env tin ifs
  | .keyword _ _ _ v => annE R env tin v
  | .withitem _ c vars => annE R env tin c ++ annEs R env tin vars
  | _ => []
/-- `visit_Tuple` (Load): stops at the first element of unknown type. -/
def annTuple (R : Resolver) (env : FnEnv) (tin : TMap) : List Expr → List (Nat × TySet)
  | [] => []
  | e :: es =>
      annE R env tin e ++ (match tyE R env tin e with
                           | some _ => annTuple R env tin es
                           | none => [])
def annEs (R : Resolver) (env : FnEnv) (tin : TMap) : List Expr → List (Nat × TySet)
  | [] => []
  | e :: es => annE R env tin e ++ annEs R env tin es
def annKw (R : Resolver) (env : FnEnv) (tin : TMap) : List Expr → List (Nat × TySet)
  | [] => []
  | .keyword _ _ _ v :: es => annE R env tin v ++ annKw R env tin es
  | e :: es => annE R env tin e ++ annKw R env tin es
end

mutual
/-- Annotations made by `visit(target)` with `self.rtype = rt`. -/
def annT (R : Resolver) (env : FnEnv) (tin : TMap) : Option TySet → Expr → List (Nat × TySet)
  | some T, .name i _ .store => [(i, T)]
  | some T, .seq i _ es .store => annTs R env tin T (R.value "int" "0") 0 es ++ [(i, T)]
  | none, .name _ _ .store => []
  | none, .seq _ _ _ .store => []
  | rt, .starred _ v _ => annT R env tin rt v
  | _, .subscript i v s c => annE R env tin (.subscript i v s c)
  | _, .attr i v a c => annE R env tin (.attr i v a c)
  | _, _ => []
def annTs (R : Resolver) (env : FnEnv) (tin : TMap) (orig : TySet) (ityp : Option TySet) (i : Nat) :
    List Expr → List (Nat × TySet)
  | [] => []
  | e :: es => annT R env tin (R.sliceIdx i orig ityp) e ++ annTs R env tin orig ityp (i + 1) es
end

def annAllT (R : Resolver) (env : FnEnv) (tin : TMap) (rt : Option TySet) : List Expr → List (Nat × TySet)
  | [] => []
  | t :: ts => annT R env tin rt t ++ annAllT R env tin rt ts

def annArgs (R : Resolver) (env : FnEnv) : List Expr → List (Nat × TySet)
  | [] => []
  | a :: as => (match argType R env a with | some T => [(a.id, T)] | none => []) ++ annArgs R env as

/-- All `TYPES` annotations of one `inferrer.visit(ast_node)`; a later entry for the same id overrides. -/
def annN (R : Resolver) (env : FnEnv) (tin : TMap) : CNode → List (Nat × TySet)
  | .stmt (.assign _ targets value) => annE R env tin value ++ annAllT R env tin (tyE R env tin value) targets
  | .stmt (.expr i v) => annE R env tin v ++ (match tyE R env tin v with | some T => [(i, T)] | none => [])   -- `visit_Expr` returns the value's types
  | .stmt (.ret _ vs) => annEs R env tin vs
  | .stmt (.augAssign _ t _ v) => annE R env tin t ++ annE R env tin v
  | .stmt (.assert_ _ t m) => annE R env tin t ++ annEs R env tin m
  | .stmt (.raise _ e c) => annEs R env tin e ++ annEs R env tin c
  | .stmt _ => []
  | .expr (.arguments i a b c d e f g) =>
      annArgs R env (argNodes (.arguments i a b c d e f g)) ++ annEs R env tin e ++ annEs R env tin g
  | .expr e => annE R env tin e
  | .forIter _ it => annE R env tin it

/-! ## Which nodes the model covers -/

/-- Callees whose QN the model computes: a plain name or attribute chain over names, or something without a QN.
(A subscript has a QN such as `a[0]` in the real code; not modelled.) -/
def calleeOk : Expr → Bool
  | .name .. => true
  | .attr _ v _ _ => calleeOk v
  | .subscript .. => false
  | _ => true

def otherKindOk (k : String) : Bool := k == "Dict" || k == "Slice" || k == "JoinedStr" || k == "FormattedValue"

mutual
def suppE : Expr → Bool
  | .name .. => true
  | .const .. => true
  | .noneMarker => true
  | .seq _ .tuple es _ => suppEs es
  | .seq _ .list es _ => suppEs es
  | .seq _ .set _ _ => false
  | .attr _ v _ _ => suppE v
  | .call _ f a k => calleeOk f && suppE f && suppEs a && suppEs k
  | .keyword _ _ _ v => suppE v
  | .subscript _ v s _ => suppE v && suppE s
  | .compare _ l _ rs => suppE l && suppEs rs
  | .binop _ _ l r => suppE l && suppE r
  | .unary _ _ e => suppE e
  | .boolop _ _ vs => suppEs vs
  | .ifexp _ a b c => suppE a && suppE b && suppE c
  | .starred _ (.name ..) .store => true
  | .starred _ v .load => suppE v
  | .other _ k _ kids => otherKindOk k && suppEs kids
  | .comp _ _ es gs => suppEs es && suppEs gs
  | .comprehension _ t it ifs _ => suppE t && suppE it && suppEs ifs
  | _ => false
def suppEs : List Expr → Bool
  | [] => true
  | e :: es => suppE e && suppEs es
end

def suppArg : Expr → Bool
  | .arg _ _ [] => true
  | .arg _ _ [.name ..] => true
  | _ => false

def suppN : CNode → Bool
  | .stmt (.assign _ ts v) => suppEs ts && suppE v
  | .stmt (.expr _ v) => suppE v
  | .stmt (.ret _ vs) => suppEs vs
  | .stmt (.augAssign _ t _ v) => suppE t && suppE v
  | .stmt (.assert_ _ t m) => suppE t && suppEs m
  | .stmt (.raise _ e c) => suppEs e && suppEs c
  | .stmt (.functionDef _ _ _ _ [] [] _) => true
  | .stmt (.functionDef _ _ _ _ [] [.name ..] _) => true
  | .stmt (.pass _) => true
  | .stmt (.break_ _) => true
  | .stmt (.continue_ _) => true
  | .stmt (.nonlocal ..) => true
  | .stmt _ => false
  | .expr (.arguments _ po ar va ko kd kw df) =>
      (po ++ ar ++ va ++ ko ++ kw).all suppArg && suppEs kd && suppEs df
  | .expr (.withitem _ c vars) => suppE c && suppEs vars
  | .expr e => suppE e
  | .forIter t it => suppE t && suppE it

/-! ## `Analyzer` over a graph -/

structure GNode where
  id : Nat
  node : CNode
  succs : List Nat
  hasScope : Bool               -- `anno.Static.SCOPE` present on the AST node
  reads : List String           -- `{str(qn) for qn in node_scope.read}`
  defsIn : List (Nat × String)  -- `anno.Static.DEFINED_FNS_IN`: (id of the def node, its name)
  deriving Repr, Inhabited

structure Graph where
  nodes : List GNode
  entry : Nat
  deriving Repr, Inhabited

def Graph.find (G : Graph) (i : Nat) : Option GNode := G.nodes.find? (fun n => n.id == i)

def Graph.preds (G : Graph) (i : Nat) : List Nat :=
  (G.nodes.filter fun n => n.succs.contains i).map (·.id)

abbrev NMap := List (Nat × TMap)

def NMap.get (m : NMap) (i : Nat) : TMap :=
  match m with
  | [] => []
  | (k, v) :: r => if k = i then v else NMap.get r i

def NMap.has (m : NMap) (i : Nat) : Bool := m.any (fun p => p.1 == i)

def NMap.set (m : NMap) (i : Nat) (v : TMap) : NMap := (i, v) :: m

structure AState where
  ins : NMap := []
  outs : NMap := []
  clos : NMap := []             -- CLOSURE_TYPES per def node id (present = annotation exists)
  annos : List (Nat × TySet) := []   -- `TYPES` annotations written so far: a visit overwrites the ids it annotates and
                                     -- leaves every other annotation in place (also those of earlier, smaller states)
  deriving Repr, Inhabited

/-- `anno.setanno(node, TYPES, …)`: replace the annotation of that id. -/
def setAnnos (old : List (Nat × TySet)) (new : List (Nat × TySet)) : List (Nat × TySet) :=
  new.foldl (fun acc p => p :: acc.filter (fun q => q.1 != p.1)) old

/-- `context_types`: the closure types of names the function does not bind; `None` when empty. -/
def contextTypes (env : FnEnv) : TMap := env.closure.filter fun p => !env.bound.contains p.1

def joinPreds (G : Graph) (outs : NMap) (i : Nat) : TMap :=
  (G.preds i).foldl (fun acc p => acc.join (outs.get p)) []

/-- `types_in` of `visit_node`. -/
def nodeIn (G : Graph) (env : FnEnv) (outs : NMap) (i : Nat) : TMap :=
  let t := joinPreds G outs i
  if i = G.entry ∧ ¬ (contextTypes env).isEmpty then t.join (contextTypes env) else t

/-- `_update_closure_types` for every reaching definition whose name the node reads. -/
def updClos (clos : NMap) (n : GNode) (tout : TMap) : NMap :=
  if n.hasScope then
    n.defsIn.foldl (fun c d => if n.reads.contains d.2 then c.set d.1 ((c.get d.1).join tout) else c) clos
  else clos

/-- `Analyzer.visit_node`; the Boolean is its return value (`prev_types_out != types_out`). -/
def visitNode (R : Resolver) (env : FnEnv) (G : Graph) (st : AState) (n : GNode) : AState × Bool :=
  let prev := st.outs.get n.id
  let tin := nodeIn G env st.outs n.id
  let tout := (transfer R env n.node tin).norm
  ({ ins := st.ins.set n.id tin, outs := st.outs.set n.id tout, clos := updClos st.clos n tout,
     annos := setAnnos st.annos (annN R env tin n.node) },
   !(TMap.eqB prev tout))

/-- `GraphVisitor._visit_internal(FORWARD)`; `fuel` bounds the number of node visits
(the Boolean result says whether the work list emptied). -/
def run (R : Resolver) (env : FnEnv) (G : Graph) : Nat → List Nat → List Nat → AState → AState × Bool
  | 0, _, _, st => (st, false)
  | _ + 1, [], _, st => (st, true)
  | fuel + 1, i :: rest, closed, st =>
      match G.find i with
      | none => run R env G fuel rest closed st
      | some n =>
          let closed' := i :: closed
          let (st', rev) := visitNode R env G st n
          let kids := n.succs.filter fun k => rev || !closed'.contains k
          run R env G fuel (rest ++ kids) closed' st'

def analyze (R : Resolver) (env : FnEnv) (G : Graph) (fuel : Nat) : AState × Bool :=
  run R env G fuel [G.entry] [] {}

/-! ## Post-fixed points (what the soundness theorem assumes; `isTIFix` decides it) -/

/-- Nodes whose `in_/out` the analysis is responsible for: a set containing the entry and closed under
successors (the real analysis never visits unreachable nodes; their maps stay empty). -/
def reachClosed (G : Graph) (reach : List Nat) : Bool :=
  reach.contains G.entry &&
  reach.all fun i => match G.find i with
    | some n => n.succs.all fun k => reach.contains k
    | none => false

/-- Free names (not local variables of the function) may only carry their closure type or more
(names in the taint set `S` are exempt: nothing is claimed about them). -/
def freeOk (env : FnEnv) (S : List String) (m : TMap) : Bool :=
  m.keys.all fun x =>
    if env.isFree x && !S.contains x then
      match m.get x, env.closure.get x with
      | some T, some T0 => TySet.subset T0 T
      | some _, none => false
      | none, _ => true
    else true

def isTIFix (R : Resolver) (env : FnEnv) (G : Graph) (reach : List Nat) (S : List String) (ins outs : NMap) : Bool :=
  reachClosed G reach &&
  (contextTypes env).leB (ins.get G.entry) &&
  (ins.get G.entry).keys.all (fun x => env.isFree x) &&     -- nothing is known about the function's own variables at the entry
  reach.all fun i => match G.find i with
    | none => false
    | some n =>
        (transfer R env n.node (ins.get i)).leB (outs.get i) &&
        freeOk env S (ins.get i) && freeOk env S (outs.get i) &&
        n.succs.all fun k => (outs.get i).leB (ins.get k)

/-- Closure-types coverage (decidable form): every node that reads the name of a reaching local function
has its `out` map included in that function's `CLOSURE_TYPES`. -/
def closCovers (G : Graph) (reach : List Nat) (outs : NMap) (clos : NMap) : Bool :=
  reach.all fun i => match G.find i with
    | none => false
    | some n =>
        !n.hasScope || n.defsIn.all fun d => !n.reads.contains d.2 || (outs.get i).leB (clos.get d.1)

/-! ## Taint: names whose binders the inference does not track (what the partial theorem assumes away) -/

def isStarred : Expr → Bool
  | .starred .. => true
  | _ => false

mutual
/-- Names a target binds *without* giving them a sound type, for `rtype = rt`.  A pattern with a starred element
is indexed by position (`enumerate(node.elts)`), which is wrong for the starred name and for everything after it:
all its names count as untracked. -/
def untrackedT (R : Resolver) : Option TySet → Expr → List String
  | some _, .name _ _ .store => []
  | some T, .seq _ _ es .store =>
      if es.any isStarred then storedEs es else untrackedTs R T (R.value "int" "0") 0 es
  | _, e => storedE e
def untrackedTs (R : Resolver) (orig : TySet) (ityp : Option TySet) (i : Nat) : List Expr → List String
  | [] => []
  | e :: es => untrackedT R (R.sliceIdx i orig ityp) e ++ untrackedTs R orig ityp (i + 1) es
end

def untrackedAllT (R : Resolver) (rt : Option TySet) : List Expr → List String
  | [] => []
  | t :: ts => untrackedT R rt t ++ untrackedAllT R rt ts

def untrackedArgs (R : Resolver) (env : FnEnv) : List Expr → List String
  | [] => []
  | a :: as =>
      (match argName a, argType R env a with
       | some n, none => [n]
       | _, _ => []) ++ untrackedArgs R env as

/-- Names bound by node `n` (under `types_in = tin`) that do not receive a sound type: untracked binders
(`for` target, `+=`, `with … as`, annotated assignment), assignment targets whose value type is unknown or
whose value reads a tainted name, parameters the resolver knows nothing about. -/
def untrackedN (R : Resolver) (env : FnEnv) (S : List String) (tin : TMap) : CNode → List String
  | .stmt (.assign _ targets value) =>
      if (readsE value).any (fun x => S.contains x) then storedEs targets
      else untrackedAllT R (tyE R env tin value) targets
  | .stmt (.functionDef ..) => []
  | .expr (.arguments i a b c d e f g) => untrackedArgs R env (argNodes (.arguments i a b c d e f g))
  | n => storedN n

/-- `S` is closed: it contains every name a call may rebind (`W`), every nonlocal name the function
itself stores, and every name bound without a sound type at some node of the solution. -/
def taintClosed (R : Resolver) (env : FnEnv) (G : Graph) (reach : List Nat) (ins : NMap)
    (W S : List String) : Bool :=
  W.all (fun x => S.contains x) &&
  reach.all fun i => match G.find i with
    | none => false
    | some n =>
        (untrackedN R env S (ins.get i) n.node).all (fun x => S.contains x) &&
        (storedN n.node).all fun x => env.bound.contains x && (!env.nonlocals.contains x || S.contains x)

/-- One round of the closure conditions of `taintClosed`: add every name bound without a sound type under the
current set, and every nonlocal name a node stores. -/
def taintRound (R : Resolver) (env : FnEnv) (G : Graph) (reach : List Nat) (ins : NMap) (S : List String) : List String :=
  reach.foldl (fun acc i => match G.find i with
    | none => acc
    | some n =>
        let add := untrackedN R env acc (ins.get i) n.node ++ (storedN n.node).filter (fun x => env.nonlocals.contains x)
        add.foldl (fun a x => if a.contains x then a else a ++ [x]) acc) S

/-- The least closed taint set containing `seeds` (iterated until a round adds nothing; `fuel` rounds at most).
The harness's class predicate must be exactly this set: a larger one would excuse too much. -/
def leastTaint (R : Resolver) (env : FnEnv) (G : Graph) (reach : List Nat) (ins : NMap) : Nat → List String → List String
  | 0, S => S
  | fuel + 1, S =>
      let S' := taintRound R env G reach ins S
      if S'.length == S.length then S else leastTaint R env G reach ins fuel S'

end Malt.TypeInf
