import MaltModel.Analysis.CfgData
import MaltModel.Analysis.Worklist
/-
Reaching definitions (`malt/pyct/static_analysis/reaching_definitions.py`).

A definition is identified by (variable, defining CFG node): the real `Analyzer.gen_map` creates one
`Definition` object per (node, symbol), so this is exactly the identity the real code compares by.

  Analyzer.visit_node:   defs_in  = ⋃ out[p], p ∈ node.prev
                         gen      = (bound ∪ globals) − deleted, plus params          (of the node's Scope)
                         kill     = modified ∪ deleted
                         defs_out = gen ∪ (defs_in − kill)          | no Scope: defs_out = defs_in
-/
namespace Malt.Analysis

abbrev Def := Nat × Nat

def rdGenVars (s : Scope) : List Nat :=
  (s.bound ++ s.globals).filter (fun v => !s.deleted.contains v) ++ s.params

def rdKillVars (s : Scope) : List Nat := s.modified ++ s.deleted

/-- the transfer functions of `reaching_definitions.Analyzer.visit_node`, from the node's real Scope -/
def rdFlow (D : CfgData) : Flow Def where
  gen n := match D.scopeOf n with
    | some s => (rdGenVars s).map (fun v => (v, n))
    | none => []
  kill n a := match D.scopeOf n with
    | some s => (rdKillVars s).contains a.1
    | none => false

theorem rdFlow_kill_fst (D : CfgData) (n v d d' : Nat) :
    (rdFlow D).kill n (v, d) = (rdFlow D).kill n (v, d') := by
  simp only [rdFlow]

/-- **rd_sound** (generic: any edge list, any visited set, any post-fixed point, any gen/kill).
If every actual write is generated (`hgen`) and everything killed is actually (over)written (`hkill`),
the definition that produced the value visible at step `k` is in `IN` at step `k` (and in `OUT` of the
step before). -/
theorem rd_sound (E : List (Nat × Nat)) (V : List Nat) (F : Flow Def) (IN OUT : St Def)
    (hfix : IsPostFix E V F IN OUT) (R : Run) (len : Nat)
    (hV : ∀ i, i ≤ len → R.node i ∈ V) (hpath : R.IsPath E len)
    (hgen : ∀ i v, i ≤ len → R.writes i v → (v, R.node i) ∈ F.gen (R.node i))
    (hkill : ∀ i v d, i ≤ len → F.kill (R.node i) (v, d) = true → R.touches i v)
    (k v j : Nat) (hk : k ≤ len) (hl : R.LastWriter k v j) :
    (v, R.node j) ∈ IN (R.node k) ∧ (v, R.node j) ∈ OUT (R.node (k - 1)) := by
  obtain ⟨hjk, hw, hno⟩ := hl
  have h := flow_sound E V F IN OUT hfix R.node j k
    (fun i _ hik => hV i (by omega))
    (fun i _ hik => hpath i (by omega))
    (v, R.node j) (hgen j v (by omega) hw)
    (fun m hjm hmk => by
      cases hkm : F.kill (R.node m) (v, R.node j) with
      | false => exact Or.inl rfl
      | true => exact absurd (hkill m v _ (by omega) hkm) (hno m hjm hmk))
  exact ⟨h.2 k hjk (Nat.le_refl _), h.1 (k - 1) (by omega) (by omega)⟩

/-! ### Statement level: DEFINED_VARS_IN and DEFINITIONS -/

/-- what the harness serialises about one compound statement (real `stmt_prev`, `stmt_next`, the
CFG nodes lexically inside it, and the real annotations) -/
structure StmtData where
  id : Nat
  next : List Nat
  prev : List Nat
  inside : List Nat
  entry : Option Nat
  liveOut : Option (List Nat)
  liveIn : Option (List Nat)
  definedIn : Option (List Nat)
  deriving Repr, Inhabited

/-- every edge entering the statement from outside starts at a node of `stmt_prev` -/
def stmtPrevComplete (E : List (Nat × Nat)) (s : StmtData) : Bool :=
  E.all (fun e => !(s.inside.contains e.2 && !s.inside.contains e.1) || s.prev.contains e.1)

/-- `DEFINED_VARS_IN ⊇` the symbols defined at the exit of every statement predecessor -/
def definedInCovers (OUT : St Def) (s : StmtData) (dv : List Nat) : Bool :=
  s.prev.all (fun p => (OUT p).all (fun a => dv.contains a.1))

/-- … and nothing else (the literal `_aggregate_predecessors_defined_in`) -/
def definedInTight (OUT : St Def) (s : StmtData) (dv : List Nat) : Bool :=
  dv.all (fun v => s.prev.any (fun p => (OUT p).any (fun a => a.1 == v)))

/-- **C06_defined_in** (generic).  When the walk enters statement `s` at step `k` (step `k-1` outside, step `k`
inside), every variable bound at that moment is in the reported defined-on-entry set. -/
theorem defined_in_sound (E : List (Nat × Nat)) (V : List Nat) (F : Flow Def) (IN OUT : St Def)
    (hfix : IsPostFix E V F IN OUT) (R : Run) (len : Nat)
    (hV : ∀ i, i ≤ len → R.node i ∈ V) (hpath : R.IsPath E len)
    (hgen : ∀ i v, i ≤ len → R.writes i v → (v, R.node i) ∈ F.gen (R.node i))
    (hkill : ∀ i v d, i ≤ len → F.kill (R.node i) (v, d) = true → R.touches i v)
    (s : StmtData) (dv : List Nat)
    (hprev : stmtPrevComplete E s = true) (hcov : definedInCovers OUT s dv = true)
    (k v j : Nat) (hk : k ≤ len) (hk0 : 0 < k)
    (hin : R.node k ∈ s.inside) (hout : R.node (k - 1) ∉ s.inside)
    (hbound : R.LastWriter k v j) : v ∈ dv := by
  have h := (rd_sound E V F IN OUT hfix R len hV hpath hgen hkill k v j hk hbound).2
  have hedge : (R.node (k - 1), R.node k) ∈ E := by
    have := hpath (k - 1) (by omega)
    have e : k - 1 + 1 = k := by omega
    rwa [e] at this
  have hp : R.node (k - 1) ∈ s.prev := by
    simp only [stmtPrevComplete, List.all_eq_true] at hprev
    have := hprev _ hedge
    simp only [Bool.or_eq_true, Bool.not_eq_true', Bool.and_eq_false_iff, List.contains_eq_mem,
      decide_eq_false_iff_not, decide_eq_true_eq, Bool.not_eq_false'] at this
    rcases this with (h1 | h1) | h1
    · exact absurd hin h1
    · exact absurd h1 hout
    · exact h1
  simp only [definedInCovers, List.all_eq_true, List.contains_eq_mem, decide_eq_true_eq] at hcov
  exact hcov _ hp _ h

/-- the `DEFINITIONS` annotation of one Name / arg node -/
structure NameAnno where
  id : Nat
  var : Nat
  isLoad : Bool
  cfg : Nat
  defs : List Def
  deriving Repr, Inhabited

/-- `DEFINITIONS(name) =` the definitions of its variable in `in_` (loads) / `out` (stores, params) of the CFG node evaluating it -/
def nameDefsOK (IN OUT : St Def) (a : NameAnno) : Bool :=
  let st := if a.isLoad then IN a.cfg else OUT a.cfg
  setEqB a.defs (st.filter (fun d => d.1 == a.var))

theorem nameDefs_mem {IN OUT : St Def} {a : NameAnno} (h : nameDefsOK IN OUT a = true) (hl : a.isLoad = true)
    (d : Nat) (hd : (a.var, d) ∈ IN a.cfg) : (a.var, d) ∈ a.defs := by
  simp only [nameDefsOK, hl, if_true] at h
  have := (setEqB_spec _ _).mp h (a.var, d)
  rw [this]
  simp [List.mem_filter, hd]

/-- the annotation of a Name *load* was taken from `in_` of the CFG node `n` that evaluates the Name.  (`nameDefsOK`
checks it against the node whose state `TreeAnnotator` really used; the two differ on the pinned tree for the names in
the default values / annotations of a nested `def`, which are annotated from the nested function's own — empty — entry
state although the enclosing function evaluates them: finding class `read_in_default_of_nested_def`.) -/
def nameDefsAtEval (IN : St Def) (a : NameAnno) (n : Nat) : Bool :=
  setEqB a.defs ((IN n).filter (fun d => d.1 == a.var))

theorem nameDefsAtEval_mem {IN : St Def} {a : NameAnno} {n : Nat} (h : nameDefsAtEval IN a n = true)
    (d : Nat) (hd : (a.var, d) ∈ IN n) : (a.var, d) ∈ a.defs := by
  simp only [nameDefsAtEval] at h
  have := (setEqB_spec _ _).mp h (a.var, d)
  rw [this]
  simp [List.mem_filter, hd]

/-! ### Concrete traces: decidable hypotheses of the soundness theorem (= finding classes when false) -/

def Trace.writesB (T : Trace) (m v : Nat) : Bool := match T[m]? with | some s => s.writes.contains v | none => false
def Trace.touchesB (T : Trace) (m v : Nat) : Bool :=
  match T[m]? with | some s => s.writes.contains v || s.dels.contains v || s.fwrites.contains v | none => false

theorem Trace.writesB_iff (T : Trace) (m v : Nat) : T.writesB m v = true ↔ T.toRun.writes m v := by
  simp only [Trace.writesB, Trace.toRun]
  cases h : T[m]? with
  | none => simp
  | some s => simp

theorem Trace.touchesB_iff (T : Trace) (m v : Nat) : T.touchesB m v = true ↔ T.toRun.touches m v := by
  simp only [Trace.touchesB, Trace.toRun, Run.touches]
  cases h : T[m]? with
  | none => simp
  | some s => simp [or_assoc]

/-- `j` is the step whose own binding of `v` is visible when step `k` begins -/
def isLastWriterB (T : Trace) (j k v : Nat) : Bool :=
  decide (j < k) && T.writesB j v && (List.range k).all (fun m => !(decide (j < m)) || !T.touchesB m v)

theorem isLastWriterB_spec (T : Trace) (j k v : Nat) (h : isLastWriterB T j k v = true) :
    T.toRun.LastWriter k v j := by
  simp only [isLastWriterB, Bool.and_eq_true, decide_eq_true_eq, List.all_eq_true, List.mem_range,
    Bool.or_eq_true, Bool.not_eq_true', decide_eq_false_iff_not] at h
  obtain ⟨⟨h1, h2⟩, h3⟩ := h
  refine ⟨h1, (T.writesB_iff j v).mp h2, ?_⟩
  intro m hjm hmk ht
  rcases h3 m hmk with h | h
  · exact h hjm
  · rw [(T.touchesB_iff m v).mpr ht] at h; cases h

/-- finding class `value_written_by_another_activation`: the last step before `k` that touches `v` does so from another
activation (a closure / callee writing a variable this function can see) -/
def lastTouchIsForeign (T : Trace) (k v : Nat) : Bool :=
  (List.range k).any (fun m => (match T[m]? with | some s => s.fwrites.contains v | none => false) &&
    (List.range k).all (fun m' => !(decide (m < m')) || !T.touchesB m' v))

/-- hypothesis `hgen` on a trace: every binding performed by a node is generated by its transfer function
(activity analysis: actual writes ⊆ bound/params — property C08) -/
def rdGenOK (D : CfgData) (T : Trace) : Bool :=
  T.all (fun s => s.writes.all (fun v => ((rdFlow D).gen s.node).contains (v, s.node)))

/-- hypothesis `hkill` for variable `v` strictly between steps `j` and `k`: a node that kills `v` really
(over)writes it — or generates the very definition `(v, node j)` again (the writer itself, revisited).
FALSE of the pinned tree at a `for` header visited when its iterator is exhausted. -/
def rdKillOK (D : CfgData) (T : Trace) (j k v : Nat) : Bool :=
  (List.range k).all (fun m => !(decide (j < m)) ||
    !((rdFlow D).kill (T.nodeAt m) (v, 0)) || T.touchesB m v || ((rdFlow D).gen (T.nodeAt m)).contains (v, T.nodeAt j))

/-- the finding class: between `j` and `k` some `for` header with target `v` (other than the writer itself) is visited
without binding `v` -/
def forTargetKilledUnwritten (D : CfgData) (T : Trace) (j k v : Nat) : Bool :=
  (List.range k).any (fun m => decide (j < m) && D.isForIter (T.nodeAt m) && (D.forTargets (T.nodeAt m)).contains v
    && (rdFlow D).kill (T.nodeAt m) (v, 0) && !T.touchesB m v && !((rdFlow D).gen (T.nodeAt m)).contains (v, T.nodeAt j))

/-- kills that are not real writes and are NOT explained by the `for`-header class -/
def otherKillUnwritten (D : CfgData) (T : Trace) (j k v : Nat) : Bool :=
  (List.range k).any (fun m => decide (j < m) && (rdFlow D).kill (T.nodeAt m) (v, 0) && !T.touchesB m v
    && !((rdFlow D).gen (T.nodeAt m)).contains (v, T.nodeAt j)
    && !(D.isForIter (T.nodeAt m) && (D.forTargets (T.nodeAt m)).contains v))

theorem rdKillOK_of_classes (D : CfgData) (T : Trace) (j k v : Nat)
    (h1 : forTargetKilledUnwritten D T j k v = false) (h2 : otherKillUnwritten D T j k v = false) :
    rdKillOK D T j k v = true := by
  simp only [rdKillOK, List.all_eq_true, List.mem_range]
  intro m hm
  have a1 := (List.any_eq_false.mp h1) m (List.mem_range.mpr hm)
  have a2 := (List.any_eq_false.mp h2) m (List.mem_range.mpr hm)
  cases hj : decide (j < m) <;> cases hk : (rdFlow D).kill (T.nodeAt m) (v, 0) <;>
    cases ht : T.touchesB m v <;> cases hg : ((rdFlow D).gen (T.nodeAt m)).contains (v, T.nodeAt j) <;> simp_all

/-- **C06 on a concrete trace** — all hypotheses are decidable facts about the serialised real data. -/
theorem rd_trace_sound (D : CfgData) (V : List Nat) (IN OUT : St Def) (T : Trace)
    (hfix : isPostFix D.graph.edges V (rdFlow D) IN OUT = true)
    (hpath : isPathB D.graph.edges V T = true)
    (hgen : rdGenOK D T = true)
    (j k v : Nat) (hk : k < T.length)
    (hkill : rdKillOK D T j k v = true)
    (hlast : isLastWriterB T j k v = true) :
    (v, T.nodeAt j) ∈ IN (T.nodeAt k) ∧ (v, T.nodeAt j) ∈ OUT (T.nodeAt (k - 1)) := by
  have hfix' := isPostFix_sound hfix
  obtain ⟨hV, hE⟩ := isPathB_spec _ _ _ hpath
  have hl := isLastWriterB_spec T j k v hlast
  obtain ⟨hjk, hw, hno⟩ := hl
  -- flow_sound directly (the kill hypothesis is only available for `v` between `j` and `k`)
  have hg : (v, T.nodeAt j) ∈ (rdFlow D).gen (T.nodeAt j) := by
    simp only [rdGenOK, List.all_eq_true, List.contains_eq_mem, decide_eq_true_eq] at hgen
    obtain ⟨s, hs, hvs⟩ := hw
    have hmem : s ∈ T := List.mem_of_getElem? hs
    have := hgen s hmem v hvs
    have hn : T.nodeAt j = s.node := by simp [Trace.nodeAt, hs]
    rw [hn]; exact this
  have h := flow_sound D.graph.edges V (rdFlow D) IN OUT hfix' T.nodeAt j k
    (fun i _ hik => hV i (by omega))
    (fun i _ hik => hE i (by omega))
    (v, T.nodeAt j) hg
    (fun m hjm hmk => by
      simp only [rdKillOK, List.all_eq_true, List.mem_range, Bool.or_eq_true, Bool.not_eq_true',
        decide_eq_false_iff_not] at hkill
      rcases hkill m hmk with ((h | h) | h) | h
      · exact absurd hjm h
      · left; rw [rdFlow_kill_fst D _ v _ 0]; exact h
      · exact absurd ((T.touchesB_iff m v).mp h) (hno m hjm hmk)
      · right; simpa using h)
  exact ⟨h.2 k hjk (Nat.le_refl _), h.1 (k - 1) (by omega) (by omega)⟩

/-- the real `gen_map` coincides with the model's `gen` on the same Scope -/
def genMapOK (D : CfgData) (gm : List (Nat × List Def)) : Bool :=
  D.graph.nodes.all (fun n => match gm.lookup n with
    | some g => setEqB g ((rdFlow D).gen n)
    | none => true)

/-- run the worklist MODEL forward from the entry (for the correspondence with the real solution) -/
def rdRunModel (D : CfgData) (fuel : Nat) : WL Def :=
  run D.graph.edges (rdFlow D) fuel (WL.init [D.entry])

/-- fuel that always suffices (`Proofs/C06Worklist.lean`: `run_terminates`) -/
def rdFuel (D : CfgData) : Nat := fuelBound D.graph.edges [D.entry] (rdFlow D)

def solEqOn {α : Type} [DecidableEq α] (ns : List Nat) (x y : St α) : Bool := ns.all (fun n => setEqB (x n) (y n))

theorem solEqOn_spec {α : Type} [DecidableEq α] {ns : List Nat} {x y : St α} (h : solEqOn ns x y = true) :
    ∀ n, n ∈ ns → SetEq (x n) (y n) := by
  intro n hn
  simp only [solEqOn, List.all_eq_true] at h
  exact (setEqB_spec _ _).mp (h n hn)

end Malt.Analysis
