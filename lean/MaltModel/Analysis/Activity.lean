import MaltModel.Analysis.QualNames
/-
`Analysis.Activity` — functional mirror of `malt/pyct/static_analysis/activity.py`.

* `Scope` mirrors the class `Scope` field by field; Python `set`s are lists used as sets (the driver
  prints them sorted and de-duplicated), the `WeakValueDictionary` `params` is an association list
  (first entry for a key wins) from the parameter name to the serial id of the owning node.
  Every scope created by `_enter_scope` receives a creation number `sid` and remembers the `sid` of its
  parent, so that `Scope.referenced` (which walks the *final* parent chain) can be computed afterwards.
* `St` is the analyzer object: `stack` is `self.scope` followed by its parent chain (the chain of
  *open* scopes; head = `self.scope`, last = the root scope made by `ActivityAnalyzer.__init__`),
  `comps` is `self.state[_Comprehension]` (innermost first), `fns` is `self.state[_FunctionOrClass]`
  without its root entry, `inAug/inAnno/annoOnly` are the three flags, `annos` are the
  `anno.setanno(node, key, scope)` calls made so far (newest first; a later annotation of the same
  node and key overwrites an earlier one, so lookups take the first match), `closed` the scopes already
  frozen by `finalize` (newest first).  `err` records that the real analyzer raises
  (`visit_ExceptHandler` with a handler name: py3's `ast` stores a `str`, `anno.getanno` fails).
* `visitE`/`visitEs` are `ActivityAnalyzer.visit` on expression-side nodes, `visitS`/`visitSs` on
  statements; nodes without a dedicated visitor follow `ast.NodeTransformer.generic_visit`
  (children in `_fields` order).  Async constructs (`AsyncFunctionDef`, `AsyncFor`, `AsyncWith`) have
  no visitor in the pinned tree and are therefore visited generically.
-/
namespace Malt.Analysis
open Malt.Py

inductive AnnoKey where
  | scope | argsScope | condScope | iterateScope | bodyScope | orelseScope | argsAndBodyScope
  deriving DecidableEq, Repr, Inhabited

def AnnoKey.toStr : AnnoKey → String
  | .scope => "SCOPE" | .argsScope => "ARGS_SCOPE" | .condScope => "COND_SCOPE"
  | .iterateScope => "ITERATE_SCOPE" | .bodyScope => "BODY_SCOPE" | .orelseScope => "ORELSE_SCOPE"
  | .argsAndBodyScope => "ARGS_AND_BODY_SCOPE"

structure Scope where
  sid : Nat
  parent : Option Nat
  isolated : Bool
  functionName : Option String
  isolatedNames : QSet := []
  read : QSet := []
  modified : QSet := []
  deleted : QSet := []
  bound : QSet := []
  globals : QSet := []
  nonlocals : QSet := []
  annotations : QSet := []
  params : List (QN × Nat) := []
  deriving Repr, Inhabited

namespace Scope

/-- `Scope.copy_from`, one level (the recursion over parents is `copyFromStack`).
    Note: `globals` and `nonlocals` are *not* copied by the pinned code. -/
def copyFrom (s o : Scope) : Scope :=
  { s with isolatedNames := o.isolatedNames, modified := o.modified, read := o.read,
           deleted := o.deleted, bound := o.bound, annotations := o.annotations, params := o.params }

/-- `Scope.merge_from`, one level.  `globals`/`nonlocals` are not merged either. -/
def mergeFrom (s o : Scope) : Scope :=
  { s with isolatedNames := s.isolatedNames.union o.isolatedNames, read := s.read.union o.read,
           modified := s.modified.union o.modified, bound := s.bound.union o.bound,
           deleted := s.deleted.union o.deleted, annotations := s.annotations.union o.annotations,
           params := o.params ++ s.params.filter (fun p => !(o.params.map (·.1)).contains p.1) }

/-- What an isolated scope passes on to its parent's `read` set when it is finalized: what it reads and does not
    bind — where names declared nonlocal/global, although in `bound`, denote a variable of an enclosing scope
    (reading them reads that variable), so they are passed on. -/
def passedOn (c : Scope) : QSet := c.read.diff ((c.bound.diff c.nonlocals).diff c.globals)

/-- The effect of `child.finalize()` on its parent. -/
def finalizeInto (c p : Scope) : Scope :=
  if c.isolated then
    { p with read := p.read.union c.passedOn,
             annotations := p.annotations.union (c.annotations.diff c.bound) }
  else
    { p with read := p.read.union (c.read.diff c.isolatedNames),
             modified := p.modified.union (c.modified.diff c.isolatedNames),
             bound := p.bound.union (c.bound.diff c.isolatedNames),
             globals := p.globals.union c.globals,
             nonlocals := p.nonlocals.union c.nonlocals,
             annotations := p.annotations.union c.annotations }

/-- `Scope.free_vars` of an isolated scope: `read - bound`. -/
def freeVars (s : Scope) : QSet := s.read.diff s.bound

def paramNames (s : Scope) : QSet := s.params.map (·.1)

end Scope

/-- `Scope.copy_from` along the parent chain (both chains have the same depth in every use). -/
def copyFromStack : List Scope → List Scope → List Scope
  | s :: ss, o :: os => s.copyFrom o :: copyFromStack ss os
  | ss, _ => ss

/-- `Scope.merge_from` along the parent chain. -/
def mergeFromStack : List Scope → List Scope → List Scope
  | s :: ss, o :: os => s.mergeFrom o :: mergeFromStack ss os
  | ss, _ => ss

/-- An entry of `self.state[_FunctionOrClass]` (`fn.node`), with the node's serial id. -/
inductive FnCtx where
  | cls (id : Nat)
  | fn (id : Nat) (name : String)
  | lam (id : Nat)
  deriving DecidableEq, Repr, Inhabited

def FnCtx.id : FnCtx → Nat
  | .cls i | .fn i _ | .lam i => i

abbrev Anno := Nat × AnnoKey × Scope

structure St where
  stack : List Scope
  next : Nat := 1
  closed : List Scope := []
  annos : List Anno := []
  comps : List QSet := []
  fns : List FnCtx := []
  inAug : Bool := false
  inAnno : Bool := false
  annoOnly : Bool := false
  err : Bool := false
  deriving Repr, Inhabited

namespace St

/-- `ActivityAnalyzer(context, parent_scope=None)`: the root scope is isolated and never finalized. -/
def init : St := { stack := [{ sid := 0, parent := none, isolated := true, functionName := none }] }

def modTop (st : St) (f : Scope → Scope) : St :=
  match st.stack with
  | s :: r => { st with stack := f s :: r }
  | [] => st

/-- `_enter_scope(isolated, f_name)`. -/
def enter (st : St) (isolated : Bool) (fname : Option String := none) : St :=
  { st with
    stack := { sid := st.next, parent := st.stack.head?.map (·.sid), isolated := isolated,
               functionName := fname } :: st.stack,
    next := st.next + 1 }

/-- `_exit_scope()` followed by `anno.setanno(node, key, exited_scope)` for each `(node, key)` in `recs`
    (`[]` = `_exit_scope` alone). -/
def exitWith (st : St) (recs : List (Nat × AnnoKey)) : St :=
  match st.stack with
  | c :: p :: r =>
      { st with stack := c.finalizeInto p :: r, closed := c :: st.closed,
                annos := (recs.map fun (n, k) => (n, k, c)).reverse ++ st.annos }
  | _ => st

/-- `anno.hasanno(node, key)` for the scope annotations. -/
def hasAnno (st : St) (node : Nat) (key : AnnoKey) : Bool :=
  st.annos.any fun a => a.1 == node && a.2.1 == key

def addRead (st : St) (q : QN) : St := st.modTop fun s => { s with read := s.read.ins q }
def addModified (st : St) (q : QN) : St := st.modTop fun s => { s with modified := s.modified.ins q }
def addBound (st : St) (q : QN) : St := st.modTop fun s => { s with bound := s.bound.ins q }
def addDeleted (st : St) (q : QN) : St := st.modTop fun s => { s with deleted := s.deleted.ins q }
def addGlobal (st : St) (q : QN) : St := st.modTop fun s => { s with globals := s.globals.ins q }
def addNonlocal (st : St) (q : QN) : St := st.modTop fun s => { s with nonlocals := s.nonlocals.ins q }
def addAnnotation (st : St) (q : QN) : St := st.modTop fun s => { s with annotations := s.annotations.ins q }
def addParam (st : St) (q : QN) (owner : Nat) : St := st.modTop fun s => { s with params := (q, owner) :: s.params }

/-- `_in_constructor`: the innermost entry is a (non-async) `FunctionDef` called `__init__` and the one
    below it a `ClassDef` (`context.level > 2` counts the root entry). -/
def inConstructor (st : St) : Bool :=
  match st.fns with
  | .fn _ name :: .cls _ :: _ => name == "__init__"
  | _ => false

/-- `self.state[_FunctionOrClass].node` as a serial id (0 = the root entry, whose node is `None`). -/
def ownerId (st : St) : Nat :=
  match st.fns with
  | f :: _ => f.id
  | [] => 0

/-- `with self.state[_FunctionOrClass] as fn: fn.node = node` … -/
def pushFn (st : St) (f : FnCtx) : St := { st with fns := f :: st.fns }
/-- … and leaving that `with` block. -/
def popFn (st : St) : St := { st with fns := st.fns.tail }
def setAnnoOnly (st : St) (b : Bool) : St := { st with annoOnly := b }
def setInAug (st : St) (b : Bool) : St := { st with inAug := b }
def setInAnno (st : St) (b : Bool) : St := { st with inAnno := b }
/-- `with self.state[_Comprehension]` … -/
def pushComp (st : St) : St := { st with comps := [] :: st.comps }
def popComp (st : St) : St := { st with comps := st.comps.tail }
/-- `anno.setanno(node, key, self.scope)` for the still-open current scope. -/
def recordTop (st : St) (node : Nat) (key : AnnoKey) : St :=
  match st.stack with
  | s :: _ => { st with annos := (node, key, s) :: st.annos }
  | [] => st
def setErr (st : St) : St := { st with err := true }

end St

/-- Is `qn` hidden by a comprehension target (`_track_symbol`'s loop over `self.state[_Comprehension]`)? -/
def hiddenByComps (comps : List QSet) (qn : QN) : Bool :=
  comps.any fun l => l.contains qn || qn.ownerSet.any (fun o => l.contains o)

/-- `_track_symbol(node, composite_writes_alter_parent)` for a node with qualified name `qn?` and
    expression context `ctx`. -/
def track (qn? : Option QN) (ctx : Ctx) (cwap : Bool) (st : St) : St :=
  if st.annoOnly && !st.inAnno then st else
  match qn? with
  | none => st
  | some qn =>
    if hiddenByComps st.comps qn then st else
    match ctx with
    | .store =>
        match st.comps with
        | l :: ls => { st with comps := (l.ins qn) :: ls }
        | [] =>
            let st := (st.addModified qn).addBound qn
            let st := match qn.parent? with
              | some p => if cwap then st.addModified p else st
              | none => st
            if st.inAug then st.addRead qn else st
    | .load =>
        let st := st.addRead qn
        if st.inAnno then st.addAnnotation qn else st
    | .del => ((st.addRead qn).addBound qn).addDeleted qn

/-- `_node_sets_self_attribute(node)` (`qn.has_attr` is a bound method, hence always true). -/
def setsSelfAttribute : Option QN → Bool
  | some (.attr (.sym "self") _) => true
  | _ => false

mutual
/-- `ActivityAnalyzer.visit` on an expression-side node. -/
def visitE (e : Expr) (st : St) : St :=
  match e with
  | .name _ s c => track (some (.sym s)) c false st
  | .const .. => st
  | .attr i v a c =>
      let st := visitE v st
      let q := qnOf (.attr i v a c)
      track q c (st.inConstructor && setsSelfAttribute q) st
  | .subscript i v s c =>
      let st := visitE v st
      let st := visitE s st
      track (qnOf (.subscript i v s c)) c false st
  | .call i f as ks =>
      let st := st.enter false
      let st := visitEs as st
      let st := visitEs ks st
      let st := st.exitWith [(i, .argsScope)]
      visitE f st
  | .keyword _ _ _ v => visitE v st
  | .boolop _ _ vs => visitEs vs st
  | .unary _ _ x => visitE x st
  | .binop _ _ l r => visitE r (visitE l st)
  | .compare _ l _ cs => visitEs cs (visitE l st)
  | .ifexp _ t b o => visitE o (visitE b (visitE t st))
  | .lambda i args body =>
      match args with
      | .arguments ai po ar va ko kd kw df =>
          let st := st.pushFn (.lam i)
          -- the Lambda node's own scope: default values; parameter pass with _track_annotations_only
          let st := st.enter false
          let st := visitEs kd st
          let st := visitEs df st
          let st := st.setAnnoOnly true
          let st := visitEs kw (visitEs ko (visitEs va (visitEs ar (visitEs po st))))
          let st := st.setAnnoOnly false
          let st := st.exitWith [(i, .scope)]
          -- the function's own (isolated) scope, the arguments scope, the body scope
          let st := st.enter true
          let st := st.enter false
          let st := visitEs kw (visitEs ko (visitEs va (visitEs ar (visitEs po st))))
          let st := st.exitWith [(ai, .scope)]
          let st := st.enter false
          let st := visitE body st
          let st := if st.hasAnno body.id .scope then st else st.recordTop body.id .scope
          let st := st.exitWith [(i, .bodyScope)]
          let lam := st.stack.head?
          let st := st.exitWith [(i, .argsAndBodyScope)]
          let st := match lam with
            | some ls => st.modTop fun s => { s with read := s.read.union (ls.read.diff ls.bound) }
            | none => st
          st.popFn
      | _ => st
  | .seq _ _ es _ => visitEs es st
  | .starred _ v _ => visitE v st
  | .namedexpr _ t v => visitE v (visitE t st)
  | .comp _ _ elts gens =>
      let st := st.pushComp
      let st := visitEs gens st
      let st := visitEs elts st
      st.popComp
  | .comprehension _ t it ifs _ =>
      let st := visitE it st
      let st := visitE t st
      -- generic_visit(node): target, iter, ifs
      let st := visitE t st
      let st := visitE it st
      visitEs ifs st
  | .arguments _ po ar va ko kd kw df =>
      visitEs df (visitEs kw (visitEs kd (visitEs ko (visitEs va (visitEs ar (visitEs po st))))))
  | .arg _ n an =>
      let st := visitEs an st
      (st.addBound (.sym n)).addParam (.sym n) st.ownerId
  | .withitem i c v =>
      let st := st.enter false
      let st := visitE c st
      let st := visitEs v st
      st.exitWith [(i, .scope)]
  | .noneMarker => st
  | .other _ _ _ kids => visitEs kids st
/-- Visit the nodes of a list in order (`visit_block` / `_visit_node_list`; `None` entries are skipped). -/
def visitEs (es : List Expr) (st : St) : St :=
  match es with
  | [] => st
  | e :: rest => visitEs rest (visitE e st)
end

/-- `generic_visit(node)` on an expression-side node: the children in `_fields` order, without the
    node's own visitor (used by `_process_statement` on the `EXTRA_LOOP_TEST` expression). -/
def genericE (e : Expr) (st : St) : St :=
  match e with
  | .name .. => st
  | .attr _ v _ _ => visitE v st
  | .subscript _ v s _ => visitE s (visitE v st)
  | .call _ f as ks => visitEs ks (visitEs as (visitE f st))
  | .lambda _ args body => visitE body (visitE args st)
  | .comp _ _ elts gens => visitEs gens (visitEs elts st)
  | .comprehension _ t it ifs _ => visitEs ifs (visitE it (visitE t st))
  | .arg _ _ an => visitEs an st
  | .withitem _ c v => visitEs v (visitE c st)
  | e => visitE e st

/-- `visit_alias`: only the root of a dotted module name is bound, unless there is an `as` name. -/
def aliasName (a : String × String) : String :=
  if a.2 == "" then (a.1.splitOn ".").headD a.1 else a.2

def visitAliases (names : List (String × String)) (st : St) : St :=
  names.foldl (fun st a => (st.addModified (.sym (aliasName a))).addBound (.sym (aliasName a))) st

def declGlobals (names : List String) (st : St) : St :=
  names.foldl (fun st n => (st.addRead (.sym n)).addGlobal (.sym n)) st

def declNonlocals (names : List String) (st : St) : St :=
  names.foldl (fun st n => ((st.addRead (.sym n)).addBound (.sym n)).addNonlocal (.sym n)) st

/-- `_process_parallel_blocks` bookkeeping around one child block:
    `self.scope.copy_from(before_parent)`, then `_process_block_node`. -/
def St.restore (st : St) (before : List Scope) : St := { st with stack := copyFromStack st.stack before }

/-- The end of `_process_parallel_blocks`: `self.scope.merge_from(after_child)` for both children. -/
def St.mergeAfter (st : St) (after1 after2 : List Scope) : St :=
  { st with stack := mergeFromStack (mergeFromStack st.stack after1) after2 }

mutual
/-- `ActivityAnalyzer.visit` on a statement (or `ExceptHandler`). -/
def visitS (s : Stmt) (st : St) : St :=
  match s with
  | .functionDef i name args body decos returns isAsync =>
      if isAsync then
        -- no visit_AsyncFunctionDef: generic_visit (args, body, decorator_list, returns)
        visitEs returns (visitEs decos (visitSs body (visitE args st)))
      else
      match args with
      | .arguments ai po ar va ko kd kw df =>
          let st := st.pushFn (.fn i name)
          let st := st.enter false
          let st := visitEs decos st
          let st := if returns.isEmpty then st else (visitEs returns (st.setInAnno true)).setInAnno false
          -- _visit_arg_annotations
          let st := visitEs kd st
          let st := visitEs df st
          let st := st.setAnnoOnly true
          let st := visitEs kw (visitEs ko (visitEs va (visitEs ar (visitEs po st))))
          let st := st.setAnnoOnly false
          let st := (st.addModified (.sym name)).addBound (.sym name)
          let st := st.exitWith [(i, .scope)]
          let st := st.enter true (some name)
          let st := st.enter false (some name)
          let st := visitEs kw (visitEs ko (visitEs va (visitEs ar (visitEs po st))))
          let st := st.exitWith [(ai, .scope)]
          let st := st.enter false (some name)
          let st := visitSs body st
          let st := st.exitWith [(i, .bodyScope)]
          let st := st.exitWith [(i, .argsAndBodyScope)]
          st.popFn
      | _ => st
  | .classDef i name bases kws body decos =>
      let st := st.pushFn (.cls i)
      let st := st.enter false
      let st := visitEs decos st
      let st := (st.addModified (.sym name)).addBound (.sym name)
      let st := visitEs bases st
      let st := visitEs kws st
      let st := st.exitWith [(i, .scope)]
      let st := st.enter true
      -- generic_visit(ClassDef): bases, keywords, body, decorator_list
      let st := visitEs bases st
      let st := visitEs kws st
      let st := visitSs body st
      let st := visitEs decos st
      let st := st.exitWith []
      st.popFn
  | .ret i v => ((st.enter false) |> visitEs v).exitWith [(i, .scope)]
  | .delete i ts => ((st.enter false) |> visitEs ts).exitWith [(i, .scope)]
  | .assign i ts v => ((st.enter false) |> visitEs ts |> visitE v).exitWith [(i, .scope)]
  | .augAssign i t _ v =>
      let st := st.enter false
      let st := (visitE t (st.setInAug true)).setInAug false
      let st := visitE v st
      st.exitWith [(i, .scope)]
  | .annAssign i t an v _ =>
      let st := st.enter false
      let st := visitE t st
      let st := visitEs v st
      let st := (visitE an (st.setInAnno true)).setInAnno false
      st.exitWith [(i, .scope)]
  | .for_ i t it body orelse extra isAsync =>
      if isAsync then visitSs orelse (visitSs body (visitE it (visitE t st))) else
      let st := st.enter false
      let st := visitE t st
      let st := visitE it st
      let st := st.exitWith [(it.id, .scope)]
      let st := st.enter false
      let st := visitE t st
      let st := match extra with
        | x :: _ => ((st.enter false) |> genericE x).exitWith [(x.id, .scope)]
        | [] => st
      let st := st.exitWith [(i, .iterateScope)]
      let before := st.stack
      let st := ((st.restore before).enter false |> visitSs body).exitWith [(i, .bodyScope)]
      let after1 := st.stack
      let st := ((st.restore before).enter false |> visitSs orelse).exitWith [(i, .orelseScope)]
      let after2 := st.stack
      st.mergeAfter after1 after2
  | .while_ i test body orelse =>
      let st := st.enter false
      let st := visitE test st
      let st := st.exitWith [(test.id, .scope), (i, .condScope)]
      let before := st.stack
      let st := ((st.restore before).enter false |> visitSs body).exitWith [(i, .bodyScope)]
      let after1 := st.stack
      let st := ((st.restore before).enter false |> visitSs orelse).exitWith [(i, .orelseScope)]
      let after2 := st.stack
      st.mergeAfter after1 after2
  | .if_ i test body orelse =>
      let st := st.enter false
      let st := visitE test st
      let st := st.exitWith [(test.id, .scope), (i, .condScope)]
      let before := st.stack
      let st := ((st.restore before).enter false |> visitSs body).exitWith [(i, .bodyScope)]
      let after1 := st.stack
      let st := ((st.restore before).enter false |> visitSs orelse).exitWith [(i, .orelseScope)]
      let after2 := st.stack
      st.mergeAfter after1 after2
  | .with_ i items body isAsync =>
      if isAsync then visitSs body (visitEs items st) else
      ((st.enter false) |> visitEs items |> visitSs body).exitWith [(i, .bodyScope)]
  | .raise i e c => ((st.enter false) |> visitEs e |> visitEs c).exitWith [(i, .scope)]
  | .try_ _ b h o f => visitSs f (visitSs o (visitSs h (visitSs b st)))
  | .handler _ ty name body =>
      let st := st.enter false
      let st := if name.isEmpty then st else st.setErr
      let st := visitEs ty st
      let st := visitSs body st
      st.exitWith []
  | .assert_ i t m => ((st.enter false) |> visitE t |> visitEs m).exitWith [(i, .scope)]
  | .import_ i names => ((st.enter false) |> visitAliases names).exitWith [(i, .scope)]
  | .importFrom i _ names _ => ((st.enter false) |> visitAliases names).exitWith [(i, .scope)]
  | .global i names => ((st.enter false) |> declGlobals names).exitWith [(i, .scope)]
  | .nonlocal i names => ((st.enter false) |> declNonlocals names).exitWith [(i, .scope)]
  | .expr i v => ((st.enter false) |> visitE v).exitWith [(i, .scope)]
  | .pass _ | .break_ _ | .continue_ _ => st
  | .other _ _ es bs => visitSs bs (visitEs es st)
/-- `visit_block` on a statement list. -/
def visitSs (ss : List Stmt) (st : St) : St :=
  match ss with
  | [] => st
  | s :: rest => visitSs rest (visitS s st)
end

/-- `activity.resolve(node, ctx, None)`. -/
def analyze (s : Stmt) : St := visitS s St.init

/-- The annotation `anno.getanno(node, key)` after the analysis (`none` = no such annotation). -/
def St.anno? (st : St) (node : Nat) (key : AnnoKey) : Option Scope :=
  (st.annos.find? fun a => a.1 == node && a.2.1 == key).map (·.2.2)

/-- All scopes of the run in their final state (frozen ones and the still-open chain). -/
def St.allScopes (st : St) : List Scope := st.stack ++ st.closed

/-- `Scope.referenced`: own reads plus those of the (final) parent chain.  `fuel` bounds the walk. -/
def referencedAux (all : List Scope) : Nat → Scope → QSet
  | 0, s => s.read
  | fuel + 1, s =>
      match s.parent with
      | none => s.read
      | some p =>
          match all.find? (fun x => x.sid == p) with
          | some ps => s.read ++ referencedAux all fuel ps
          | none => s.read

def St.referenced (st : St) (s : Scope) : QSet := referencedAux st.allScopes st.next s

/-- Does the real analysis (or `qual_names.resolve` before it) raise on this tree?
    `handlerName`: `except E as e` (set aside by the property);
    `literalAssert`: a subscript whose constant index is the string `.`, `[` or `]`. -/
structure Crash where
  handlerName : Bool := false
  literalAssert : Bool := false
  deriving Repr, DecidableEq

mutual
def exprLiteralAssert : Expr → Bool
  | .subscript _ v s _ =>
      (match s with
       | .const _ k r => literalAssertFails k r
       | _ => false) || exprLiteralAssert v || exprLiteralAssert s
  | .name .. | .const .. | .noneMarker => false
  | .attr _ v _ _ => exprLiteralAssert v
  | .call _ f as ks => exprLiteralAssert f || exprsLiteralAssert as || exprsLiteralAssert ks
  | .keyword _ _ _ v => exprLiteralAssert v
  | .boolop _ _ vs => exprsLiteralAssert vs
  | .unary _ _ x => exprLiteralAssert x
  | .binop _ _ l r => exprLiteralAssert l || exprLiteralAssert r
  | .compare _ l _ cs => exprLiteralAssert l || exprsLiteralAssert cs
  | .ifexp _ t b o => exprLiteralAssert t || exprLiteralAssert b || exprLiteralAssert o
  | .lambda _ a b => exprLiteralAssert a || exprLiteralAssert b
  | .seq _ _ es _ => exprsLiteralAssert es
  | .starred _ v _ => exprLiteralAssert v
  | .namedexpr _ t v => exprLiteralAssert t || exprLiteralAssert v
  | .comp _ _ es gs => exprsLiteralAssert es || exprsLiteralAssert gs
  | .comprehension _ t it ifs _ => exprLiteralAssert t || exprLiteralAssert it || exprsLiteralAssert ifs
  | .arguments _ po ar va ko kd kw df =>
      exprsLiteralAssert po || exprsLiteralAssert ar || exprsLiteralAssert va || exprsLiteralAssert ko ||
      exprsLiteralAssert kd || exprsLiteralAssert kw || exprsLiteralAssert df
  | .arg _ _ an => exprsLiteralAssert an
  | .withitem _ c v => exprLiteralAssert c || exprsLiteralAssert v
  | .other _ _ _ kids => exprsLiteralAssert kids
def exprsLiteralAssert : List Expr → Bool
  | [] => false
  | e :: es => exprLiteralAssert e || exprsLiteralAssert es
end

mutual
def stmtLiteralAssert : Stmt → Bool
  | .functionDef _ _ a b d r _ => exprLiteralAssert a || stmtsLiteralAssert b || exprsLiteralAssert d || exprsLiteralAssert r
  | .classDef _ _ bs ks b d => exprsLiteralAssert bs || exprsLiteralAssert ks || stmtsLiteralAssert b || exprsLiteralAssert d
  | .ret _ v => exprsLiteralAssert v
  | .delete _ ts => exprsLiteralAssert ts
  | .assign _ ts v => exprsLiteralAssert ts || exprLiteralAssert v
  | .augAssign _ t _ v => exprLiteralAssert t || exprLiteralAssert v
  | .annAssign _ t an v _ => exprLiteralAssert t || exprLiteralAssert an || exprsLiteralAssert v
  | .for_ _ t it b o x _ => exprLiteralAssert t || exprLiteralAssert it || stmtsLiteralAssert b || stmtsLiteralAssert o || exprsLiteralAssert x
  | .while_ _ t b o => exprLiteralAssert t || stmtsLiteralAssert b || stmtsLiteralAssert o
  | .if_ _ t b o => exprLiteralAssert t || stmtsLiteralAssert b || stmtsLiteralAssert o
  | .with_ _ its b _ => exprsLiteralAssert its || stmtsLiteralAssert b
  | .raise _ e c => exprsLiteralAssert e || exprsLiteralAssert c
  | .try_ _ b h o f => stmtsLiteralAssert b || stmtsLiteralAssert h || stmtsLiteralAssert o || stmtsLiteralAssert f
  | .handler _ ty _ b => exprsLiteralAssert ty || stmtsLiteralAssert b
  | .assert_ _ t m => exprLiteralAssert t || exprsLiteralAssert m
  | .expr _ v => exprLiteralAssert v
  | .other _ _ es bs => exprsLiteralAssert es || stmtsLiteralAssert bs
  | _ => false
def stmtsLiteralAssert : List Stmt → Bool
  | [] => false
  | s :: ss => stmtLiteralAssert s || stmtsLiteralAssert ss
end

def crashOf (s : Stmt) : Crash :=
  { handlerName := (analyze s).err, literalAssert := stmtLiteralAssert s }

end Malt.Analysis
