import MaltModel.Analysis.CfgData
/-
Reaching function definitions (`malt/pyct/static_analysis/reaching_fndefs.py`): which local
`def`/`lambda` nodes may have been executed when a node runs.  Liveness consumes the result
(`anno.Static.DEFINED_FNS_IN`) to keep the free variables of callable local functions alive.

  Analyzer.visit_node:  defs_in  = (external_defs if node is entry else out[node]) ∪ ⋃ out[p], p ∈ node.prev
                        defs_out = defs_in (+ node.ast_node if it is a FunctionDef / Lambda)

`defs_in` accumulates the node's own previous `out`, so the stored solution is a post-fixed point
of the plain forward equations but in general not their least solution; soundness needs only that.
Facts are function-node ids; nothing is ever killed.
-/
namespace Malt.Analysis

def fnFlow (D : CfgData) : Flow Nat where
  gen n := match D.infoOf n with
    | some i => if i.isFnDef then [n] else []
    | none => []
  kill _ _ := false

/-- checker for the real `reaching_fndefs.Analyzer.in_/out` (+ `external_defs ⊆ in_[entry]`) -/
def isFnDefsPostFix (D : CfgData) (V : List Nat) (ext : List Nat) (IN OUT : St Nat) : Bool :=
  isPostFix D.graph.edges V (fnFlow D) IN OUT && ext.all (fun f => (IN D.entry).contains f)

/-- **fndefs_sound.** A local function whose `def` ran at step `j` is in `DEFINED_FNS_IN` of every later step. -/
theorem fndefs_sound (D : CfgData) (V : List Nat) (IN OUT : St Nat)
    (hfix : IsPostFix D.graph.edges V (fnFlow D) IN OUT)
    (x : Nat → Nat) (j k : Nat) (hjk : j < k)
    (hV : ∀ i, j ≤ i → i ≤ k → x i ∈ V)
    (hE : ∀ i, j ≤ i → i < k → (x i, x (i + 1)) ∈ D.graph.edges)
    (hdef : x j ∈ (fnFlow D).gen (x j)) : x j ∈ IN (x k) :=
  (flow_sound D.graph.edges V (fnFlow D) IN OUT hfix x j k hV hE (x j) hdef (fun _ _ _ => Or.inl rfl)).2 k hjk
    (Nat.le_refl _)

end Malt.Analysis
