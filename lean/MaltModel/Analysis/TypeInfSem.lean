import MaltModel.Analysis.TypeInf
/-!
# A small concrete semantics for the soundness statement of C19

Values of the types the property quantifies over, a relational evaluation of expressions over `Py.Ast`
(`Eval`), the effect of one CFG node on the frame of the analysed function (`Step`), executions of a graph
(`Exec`), and what "the resolver answers truthfully" means (`Truthful`).

Everything the inference does not look into is *unconstrained*: expression kinds it has no rule for
(`isOpaque`) evaluate to any value; binders it does not track (`for` targets, `x op= e`, `with … as x`)
give their targets any value; a call may give any value to the names in `W` (the nonlocal variables that
local functions rebind).  The less the semantics constrains, the more executions the theorem covers.
-/
namespace Malt.TypeInf
open Malt.Py

mutual
inductive Val where
  | int (i : Int)
  | float (x : Int)
  | bool (b : Bool)
  | str (s : String)
  | none
  | list (vs : Vals)
  | tuple (vs : Vals)
  | fn (ret : Ty)        -- a local function; every value it returns has type `ret`
  | ext (name : String)  -- an external Python function
  | obj (cls : String)   -- an instance of any other class
inductive Vals where
  | nil
  | cons (v : Val) (vs : Vals)
end

def Vals.get? : Vals → Nat → Option Val
  | .nil, _ => none
  | .cons v _, 0 => some v
  | .cons _ vs, n + 1 => vs.get? n

mutual
/-- `type(v)` is (an instance of) the static type `t`; products are matched structurally, `Any` admits everything. -/
def hasTy : Val → Ty → Bool
  | _, .any => true
  | v, .int => match v with | .int _ => true | _ => false
  | v, .float => match v with | .float _ => true | _ => false
  | v, .bool => match v with | .bool _ => true | _ => false
  | v, .str => match v with | .str _ => true | _ => false
  | v, .none => match v with | .none => true | _ => false
  | v, .list => match v with | .list _ => true | _ => false
  | v, .tuple => match v with | .tuple _ => true | _ => false
  | v, .function => match v with | .ext _ => true | _ => false
  | v, .other c => match v with | .obj c' => c == c' | _ => false
  | .tuple vs, .prod ts => hasTys vs ts
  | _, .prod _ => false
  | v, .fn r => match v with | .fn r' => r == Ty.any || r' == r | _ => false
def hasTys : Vals → Tys → Bool
  | .nil, .nil => true
  | .cons v vs, .cons t ts => hasTy v t && hasTys vs ts
  | _, _ => false
end

/-- `type(v) ∈ T`. -/
def InSet (v : Val) (T : TySet) : Prop := ∃ t, t ∈ T ∧ hasTy v t = true

abbrev State := String → Option Val

def State.set (σ : State) (x : String) (v : Val) : State := fun y => if y = x then some v else σ y

/-- `σ'` agrees with `σ` outside the names in `X`. -/
def Agree (X : List String) (σ σ' : State) : Prop := ∀ x, x ∉ X → σ' x = σ x

/-- The run-time behaviour the resolver is asked about. -/
structure Sem where
  const : String → String → Val → Prop           -- value of a literal (Python type name, repr)
  call : Nat → Vals → Vals → Val → Prop          -- external call at call site `id`: positional values, keyword values, result
  slice : Nat → Val → Val → Val → Prop
  compare : Nat → Val → Vals → Val → Prop
  unop : Nat → Val → Val → Prop
  binop : Nat → Val → Val → Val → Prop
  attr : Nat → Val → Val → Prop                   -- attribute access at node `id`: object, result
  fnRet : Stmt → Ty → Prop                        -- a `def` statement creates `Val.fn ρ`
  argVal : String → Val → Prop                    -- the value a parameter receives

/-- Expression kinds `StmtInferrer` has no rule for (it visits them with `generic_visit` and reports nothing). -/
def isOpaque : Expr → Bool
  | .ifexp .. => true
  | .boolop .. => true
  | .lambda .. => true
  | .comp .. => true
  | .other .. => true
  | .seq _ .set _ _ => true
  | .starred _ _ .load => true
  | _ => false

mutual
inductive Eval (sem : Sem) (bound W : List String) (σ : State) : Expr → Val → Prop
  | const : sem.const k r v → Eval sem bound W σ (.const i k r) v
  | name : x ∉ W → σ x = some v → Eval sem bound W σ (.name i x .load) v
  | nameHavoc : x ∈ W → Eval sem bound W σ (.name i x .load) v
  | tuple : EvalL sem bound W σ es vs → Eval sem bound W σ (.seq i .tuple es .load) (.tuple vs)
  | list : EvalL sem bound W σ es vs → Eval sem bound W σ (.seq i .list es .load) (.list vs)
  | attr : Eval sem bound W σ e a → sem.attr i a r → Eval sem bound W σ (.attr i e nm c) r
  | callLocal : qnOf? f = some q → q ∈ readsE f → q ∈ bound → q ∉ W → σ q = some (.fn ρ) → hasTy v ρ = true →
      Eval sem bound W σ (.call i f args kws) v
  | callHavoc : qnOf? f = some q → q ∈ readsE f → q ∈ W → Eval sem bound W σ (.call i f args kws) v
  | callExt : (∀ q, qnOf? f = some q → q ∉ bound) → EvalL sem bound W σ args avs → EvalKw sem bound W σ kws kvs →
      sem.call i avs kvs v → Eval sem bound W σ (.call i f args kws) v
  | subscript : Eval sem bound W σ e a → Eval sem bound W σ s b → sem.slice i a b r →
      Eval sem bound W σ (.subscript i e s c) r
  | compare : Eval sem bound W σ l a → EvalL sem bound W σ rs bs → sem.compare i a bs r →
      Eval sem bound W σ (.compare i l ops rs) r
  | binop : Eval sem bound W σ l a → Eval sem bound W σ r b → sem.binop i a b c →
      Eval sem bound W σ (.binop i op l r) c
  | unary : Eval sem bound W σ e a → sem.unop i a r → Eval sem bound W σ (.unary i op e) r
  | opaq : isOpaque e = true → Eval sem bound W σ e v
inductive EvalL (sem : Sem) (bound W : List String) (σ : State) : List Expr → Vals → Prop
  | nil : EvalL sem bound W σ [] .nil
  | cons : Eval sem bound W σ e v → EvalL sem bound W σ es vs → EvalL sem bound W σ (e :: es) (.cons v vs)
inductive EvalKw (sem : Sem) (bound W : List String) (σ : State) : List Expr → Vals → Prop
  | nil : EvalKw sem bound W σ [] .nil
  | kw : Eval sem bound W σ val v → EvalKw sem bound W σ ks vs → EvalKw sem bound W σ (.keyword i a ha val :: ks) (.cons v vs)
end

mutual
/-- Binding a target to a value (`Name` and nested `Tuple`/`List` patterns; a subscript / attribute target rebinds no variable). -/
inductive Bind : Expr → Val → State → State → Prop
  | name : Bind (.name i x .store) v σ (σ.set x v)
  | seqT : BindL es vs σ σ' → Bind (.seq i k es .store) (.tuple vs) σ σ'
  | seqL : BindL es vs σ σ' → Bind (.seq i k es .store) (.list vs) σ σ'
  | inert : storedE t = [] → Bind t v σ σ
inductive BindL : List Expr → Vals → State → State → Prop
  | nil : BindL [] .nil σ σ
  | cons : Bind e v σ σ₁ → BindL es vs σ₁ σ₂ → BindL (e :: es) (.cons v vs) σ σ₂
end

/-- `t1 = t2 = … = v`. -/
inductive BindAll : List Expr → Val → State → State → Prop
  | nil : BindAll [] v σ σ
  | cons : Bind t v σ σ₁ → BindAll ts v σ₁ σ₂ → BindAll (t :: ts) v σ σ₂

inductive ArgsBound (sem : Sem) : List Expr → State → State → Prop
  | nil : ArgsBound sem [] σ σ
  | cons : argName a = some n → sem.argVal n v → ArgsBound sem as (σ.set n v) σ' → ArgsBound sem (a :: as) σ σ'
  | skip : argName a = none → ArgsBound sem as σ σ' → ArgsBound sem (a :: as) σ σ'

/-- Nodes that bind nothing the inference tracks: the frame changes at most on the names the node stores and on `W`. -/
def isPlain : CNode → Bool
  | .stmt (.augAssign ..) => true
  | .stmt (.annAssign ..) => true
  | .stmt (.expr ..) => true
  | .stmt (.ret ..) => true
  | .stmt (.pass _) => true
  | .stmt (.break_ _) => true
  | .stmt (.continue_ _) => true
  | .stmt (.nonlocal ..) => true
  | .stmt (.assert_ ..) => true
  | .stmt (.raise ..) => true
  | .stmt _ => false
  | .expr (.arguments ..) => false
  | .expr _ => true
  | .forIter .. => true

/-- The effect of executing one CFG node on the frame. -/
inductive Step (sem : Sem) (env : FnEnv) (W : List String) : CNode → State → State → Prop
  | assign : Eval sem env.bound W σ value v → BindAll targets v σ σ₁ → Agree W σ₁ σ' →
      Step sem env W (.stmt (.assign i targets value)) σ σ'
  | fndef : sem.fnRet (.functionDef i g a b d r as) ρ → Agree W (σ.set g (.fn ρ)) σ' →
      Step sem env W (.stmt (.functionDef i g a b d r as)) σ σ'
  | args : ArgsBound sem (argNodes (.arguments i a b c d e f g)) σ σ₁ → Agree W σ₁ σ' →
      Step sem env W (.expr (.arguments i a b c d e f g)) σ σ'
  | plain : isPlain n = true → Agree (storedN n ++ W) σ σ' → Step sem env W n σ σ'

/-- Configurations (node about to execute, frame) reachable by executing the graph from the entry. -/
inductive Exec (sem : Sem) (env : FnEnv) (W : List String) (G : Graph) (σ₀ : State) : Nat → State → Prop
  | start : Exec sem env W G σ₀ G.entry σ₀
  | step : Exec sem env W G σ₀ i σ → G.find i = some n → Step sem env W n.node σ σ' → k ∈ n.succs →
      Exec sem env W G σ₀ k σ'

/-! ## Truthfulness of the resolver -/

/-- Values match the (optional) static types position by position. -/
inductive OptTyped : List (Option TySet) → Vals → Prop
  | nil : OptTyped [] .nil
  | none : OptTyped ts vs → OptTyped (none :: ts) (.cons v vs)
  | some : InSet v T → OptTyped ts vs → OptTyped (some T :: ts) (.cons v vs)

inductive AllTyped : List TySet → Vals → Prop
  | nil : AllTyped [] .nil
  | cons : InSet v T → AllTyped ts vs → AllTyped (T :: ts) (.cons v vs)

structure Truthful (R : Resolver) (sem : Sem) (env : FnEnv) : Prop where
  const : ∀ k r T v, R.value k r = some T → sem.const k r v → InSet v T
  call : ∀ i ft ats kts T avs kvs v, R.call i ft ats kts = some T → OptTyped ats avs → OptTyped kts kvs →
      sem.call i avs kvs v → InSet v T
  sliceIdx : ∀ i T I Ti vs u, R.sliceIdx i T I = some Ti → (InSet (.tuple vs) T ∨ InSet (.list vs) T) →
      vs.get? i = some u → InSet u Ti
  slice : ∀ i A B T a b r, R.slice i A B = some T → InSet a A → InSet b B → sem.slice i a b r → InSet r T
  compare : ∀ i A Bs T a bs r, R.compare i A Bs = some T → InSet a A → AllTyped Bs bs → sem.compare i a bs r → InSet r T
  unop : ∀ i A T a r, R.unop i A = some T → InSet a A → sem.unop i a r → InSet r T
  binop : ∀ i A B T a b r, R.binop i A B = some T → InSet a A → InSet b B → sem.binop i a b r → InSet r T
  attr : ∀ i A T a r, R.attr i A = some T → InSet a A → sem.attr i a r → InSet r T
  listLit : ∀ ts T vs, R.listLit ts = some T → OptTyped ts vs → InSet (.list vs) T
  arg : ∀ a n T v, argName a = some n → argType R env a = some T → sem.argVal n v → InSet v T
  fnRet : ∀ i g a b d r as ρ, sem.fnRet (.functionDef i g a b d r as) ρ → InSet (.fn ρ) (defTypes R r)

/-! ## What the theorem says about a frame -/

/-- The frame `σ` is described by the type map `m`, as far as names outside the taint set `S` go:
a local variable that has a value is tracked with a set containing its type; a free (closure / global /
unassigned nonlocal) name that has a value has a type in whatever set the map, the closure types or the
resolver give for it. -/
def Sound (R : Resolver) (env : FnEnv) (S : List String) (σ : State) (m : TMap) : Prop :=
  ∀ x v, x ∉ S → σ x = some v →
    (env.isFree x = false → ∃ T, m.get x = some T ∧ InSet v T) ∧
    (env.isFree x = true → (∀ T, m.get x = some T → InSet v T) ∧ (∀ T, extType R env x = some T → InSet v T))

/-- At the entry no local variable has a value yet, and free names have their closure / resolver types. -/
def InitOk (R : Resolver) (env : FnEnv) (S : List String) (σ₀ : State) : Prop :=
  ∀ x v, x ∉ S → σ₀ x = some v → env.isFree x = true ∧ ∀ T, extType R env x = some T → InSet v T

/-- Inclusion of type maps as observed through `get`. -/
def TMap.le (a b : TMap) : Prop := ∀ x T, a.get x = some T → ∃ T', b.get x = some T' ∧ ∀ t, t ∈ T → t ∈ T'

/-- Names outside `S` that the function may store are local variables (never looked up in the closure). -/
def ScopedOk (env : FnEnv) (S : List String) (X : List String) : Prop :=
  ∀ x, x ∈ X → env.bound.contains x = true ∧ (env.nonlocals.contains x = true → x ∈ S)

/-- Free names outside `S` carry at least their closure type. -/
def FreeOk (env : FnEnv) (S : List String) (m : TMap) : Prop :=
  ∀ x T, env.isFree x = true → x ∉ S → m.get x = some T → ∃ T0, env.closure.get x = some T0 ∧ ∀ t, t ∈ T0 → t ∈ T

/-- `ins/outs` is a post-fixed point of the analysis on the nodes in `reach` (a set containing the entry and
closed under successors): transfer inclusions, edge inclusions, context types at the entry, and free names
never carry less than their closure type.  `isTIFix` decides it. -/
structure IsTIFix (R : Resolver) (env : FnEnv) (G : Graph) (reach : List Nat) (S : List String) (ins outs : NMap) : Prop where
  entry : G.entry ∈ reach
  closed : ∀ i n k, i ∈ reach → G.find i = some n → k ∈ n.succs → k ∈ reach
  found : ∀ i, i ∈ reach → ∃ n, G.find i = some n
  ctx : TMap.le (contextTypes env) (ins.get G.entry)
  entryFree : ∀ x T, (ins.get G.entry).get x = some T → env.isFree x = true
  trans : ∀ i n, i ∈ reach → G.find i = some n → TMap.le (transfer R env n.node (ins.get i)) (outs.get i)
  edge : ∀ i n k, i ∈ reach → G.find i = some n → k ∈ n.succs → TMap.le (outs.get i) (ins.get k)
  freeIn : ∀ i, i ∈ reach → FreeOk env S (ins.get i)
  freeOut : ∀ i, i ∈ reach → FreeOk env S (outs.get i)

/-- The taint set `S` is closed (`taintClosed` decides it): it contains `W`, every name bound at some node
without receiving a sound type, and every nonlocal name the function stores; stored names are in `scope.bound`. -/
structure TaintClosed (R : Resolver) (env : FnEnv) (G : Graph) (reach : List Nat) (ins : NMap) (W S : List String) : Prop where
  w : ∀ x, x ∈ W → x ∈ S
  untracked : ∀ i n x, i ∈ reach → G.find i = some n → x ∈ untrackedN R env S (ins.get i) n.node → x ∈ S
  scopes : ∀ i n, i ∈ reach → G.find i = some n → ScopedOk env S (storedN n.node)

/-- Every binder of the function is tracked with a known type: the empty taint set is closed. -/
def OnlyTrackedBinders (R : Resolver) (env : FnEnv) (G : Graph) (reach : List Nat) (ins : NMap) : Prop :=
  TaintClosed R env G reach ins [] []

/-- `CLOSURE_TYPES` cover the `out` map of every node that reads the name of a reaching local function. -/
def ClosCovers (G : Graph) (reach : List Nat) (outs clos : NMap) : Prop :=
  ∀ i n d, i ∈ reach → G.find i = some n → n.hasScope = true → d ∈ n.defsIn → d.2 ∈ n.reads →
    TMap.le (outs.get i) (clos.get d.1)

/-- The expression reads no tainted name. -/
def NoTaint (S : List String) (e : Expr) : Prop := ∀ x, x ∈ readsE e → x ∉ S

end Malt.TypeInf
