import MaltModel.Analysis.Activity
/-
Per-function reading of the activity annotations: what the analysis "reports" about a function
(FunctionDef or Lambda) — the sets the converters and the dataflow analyses consume:

  params     keys of `SCOPE(node.args).params`
  bound      simple symbols of `ARGS_AND_BODY_SCOPE.bound`
  globals    `ARGS_AND_BODY_SCOPE.globals`          (declared global)
  nonlocals  `ARGS_AND_BODY_SCOPE.nonlocals`        (declared nonlocal)
  locals     bound − globals − nonlocals            (bound locals)
  freeVars   simple symbols of `Scope.free_vars` = read − bound
  frees      the members of freeVars ∪ nonlocals, not declared global by the function itself, that, looked
             up through the scopes of the enclosing
             functions (class bodies have no recorded scope and are skipped), hit a function that
             binds them before one that declares them global — the names CPython puts in `co_freevars`.
-/
namespace Malt.Analysis
open Malt.Py

mutual
/-- Function nodes (FunctionDef / Lambda ids) below an expression, each with the ids of its enclosing
    functions, innermost first. -/
def fnsE (chain : List Nat) (e : Expr) : List (Nat × List Nat) :=
  match e with
  | .name .. | .const .. | .noneMarker => []
  | .attr _ v _ _ => fnsE chain v
  | .subscript _ v s _ => fnsE chain v ++ fnsE chain s
  | .call _ f as ks => fnsE chain f ++ fnsEs chain as ++ fnsEs chain ks
  | .keyword _ _ _ v => fnsE chain v
  | .boolop _ _ vs => fnsEs chain vs
  | .unary _ _ x => fnsE chain x
  | .binop _ _ l r => fnsE chain l ++ fnsE chain r
  | .compare _ l _ cs => fnsE chain l ++ fnsEs chain cs
  | .ifexp _ t b o => fnsE chain t ++ fnsE chain b ++ fnsE chain o
  | .lambda i args body => (i, chain) :: (fnsE chain args ++ fnsE (i :: chain) body)
  | .seq _ _ es _ => fnsEs chain es
  | .starred _ v _ => fnsE chain v
  | .namedexpr _ t v => fnsE chain t ++ fnsE chain v
  | .comp _ _ es gs => fnsEs chain gs ++ fnsEs chain es
  | .comprehension _ t it ifs _ => fnsE chain t ++ fnsE chain it ++ fnsEs chain ifs
  | .arguments _ po ar va ko kd kw df =>
      fnsEs chain po ++ fnsEs chain ar ++ fnsEs chain va ++ fnsEs chain ko ++ fnsEs chain kd ++
      fnsEs chain kw ++ fnsEs chain df
  | .arg _ _ an => fnsEs chain an
  | .withitem _ c v => fnsE chain c ++ fnsEs chain v
  | .other _ _ _ kids => fnsEs chain kids
def fnsEs (chain : List Nat) (es : List Expr) : List (Nat × List Nat) :=
  match es with
  | [] => []
  | e :: rest => fnsE chain e ++ fnsEs chain rest
end

mutual
def fnsS (chain : List Nat) (s : Stmt) : List (Nat × List Nat) :=
  match s with
  | .functionDef i _ args body decos returns isAsync =>
      if isAsync then fnsE chain args ++ fnsSs chain body ++ fnsEs chain decos ++ fnsEs chain returns
      else (i, chain) :: (fnsEs chain decos ++ fnsEs chain returns ++ fnsE chain args ++ fnsSs (i :: chain) body)
  | .classDef _ _ bases kws body decos => fnsEs chain decos ++ fnsEs chain bases ++ fnsEs chain kws ++ fnsSs chain body
  | .ret _ v => fnsEs chain v
  | .delete _ ts => fnsEs chain ts
  | .assign _ ts v => fnsEs chain ts ++ fnsE chain v
  | .augAssign _ t _ v => fnsE chain t ++ fnsE chain v
  | .annAssign _ t an v _ => fnsE chain t ++ fnsE chain an ++ fnsEs chain v
  | .for_ _ t it b o x _ => fnsE chain t ++ fnsE chain it ++ fnsEs chain x ++ fnsSs chain b ++ fnsSs chain o
  | .while_ _ t b o => fnsE chain t ++ fnsSs chain b ++ fnsSs chain o
  | .if_ _ t b o => fnsE chain t ++ fnsSs chain b ++ fnsSs chain o
  | .with_ _ its b _ => fnsEs chain its ++ fnsSs chain b
  | .raise _ e c => fnsEs chain e ++ fnsEs chain c
  | .try_ _ b h o f => fnsSs chain b ++ fnsSs chain h ++ fnsSs chain o ++ fnsSs chain f
  | .handler _ ty _ b => fnsEs chain ty ++ fnsSs chain b
  | .assert_ _ t m => fnsE chain t ++ fnsEs chain m
  | .expr _ v => fnsE chain v
  | .other _ _ es bs => fnsEs chain es ++ fnsSs chain bs
  | _ => []
def fnsSs (chain : List Nat) (ss : List Stmt) : List (Nat × List Nat) :=
  match ss with
  | [] => []
  | s :: rest => fnsS chain s ++ fnsSs chain rest
end

-- The id of the `arguments` node of a function node.
mutual
def argsIdE (fn : Nat) (e : Expr) : Option Nat :=
  match e with
  | .lambda i args body => if i == fn then some args.id else (argsIdE fn args).orElse fun _ => argsIdE fn body
  | .name .. | .const .. | .noneMarker => none
  | .attr _ v _ _ => argsIdE fn v
  | .subscript _ v s _ => (argsIdE fn v).orElse fun _ => argsIdE fn s
  | .call _ f as ks => (argsIdE fn f).orElse fun _ => (argsIdEs fn as).orElse fun _ => argsIdEs fn ks
  | .keyword _ _ _ v => argsIdE fn v
  | .boolop _ _ vs => argsIdEs fn vs
  | .unary _ _ x => argsIdE fn x
  | .binop _ _ l r => (argsIdE fn l).orElse fun _ => argsIdE fn r
  | .compare _ l _ cs => (argsIdE fn l).orElse fun _ => argsIdEs fn cs
  | .ifexp _ t b o => (argsIdE fn t).orElse fun _ => (argsIdE fn b).orElse fun _ => argsIdE fn o
  | .seq _ _ es _ => argsIdEs fn es
  | .starred _ v _ => argsIdE fn v
  | .namedexpr _ t v => (argsIdE fn t).orElse fun _ => argsIdE fn v
  | .comp _ _ es gs => (argsIdEs fn gs).orElse fun _ => argsIdEs fn es
  | .comprehension _ t it ifs _ => (argsIdE fn t).orElse fun _ => (argsIdE fn it).orElse fun _ => argsIdEs fn ifs
  | .arguments _ po ar va ko kd kw df =>
      (argsIdEs fn po).orElse fun _ => (argsIdEs fn ar).orElse fun _ => (argsIdEs fn va).orElse fun _ =>
      (argsIdEs fn ko).orElse fun _ => (argsIdEs fn kd).orElse fun _ => (argsIdEs fn kw).orElse fun _ => argsIdEs fn df
  | .arg _ _ an => argsIdEs fn an
  | .withitem _ c v => (argsIdE fn c).orElse fun _ => argsIdEs fn v
  | .other _ _ _ kids => argsIdEs fn kids
def argsIdEs (fn : Nat) (es : List Expr) : Option Nat :=
  match es with
  | [] => none
  | e :: rest => (argsIdE fn e).orElse fun _ => argsIdEs fn rest
end

mutual
def argsIdS (fn : Nat) (s : Stmt) : Option Nat :=
  match s with
  | .functionDef i _ args body decos returns _ =>
      if i == fn then some args.id
      else (argsIdE fn args).orElse fun _ => (argsIdEs fn decos).orElse fun _ => (argsIdEs fn returns).orElse fun _ => argsIdSs fn body
  | .classDef _ _ bases kws body decos =>
      (argsIdEs fn decos).orElse fun _ => (argsIdEs fn bases).orElse fun _ => (argsIdEs fn kws).orElse fun _ => argsIdSs fn body
  | .ret _ v => argsIdEs fn v
  | .delete _ ts => argsIdEs fn ts
  | .assign _ ts v => (argsIdEs fn ts).orElse fun _ => argsIdE fn v
  | .augAssign _ t _ v => (argsIdE fn t).orElse fun _ => argsIdE fn v
  | .annAssign _ t an v _ => (argsIdE fn t).orElse fun _ => (argsIdE fn an).orElse fun _ => argsIdEs fn v
  | .for_ _ t it b o x _ =>
      (argsIdE fn t).orElse fun _ => (argsIdE fn it).orElse fun _ => (argsIdEs fn x).orElse fun _ =>
      (argsIdSs fn b).orElse fun _ => argsIdSs fn o
  | .while_ _ t b o => (argsIdE fn t).orElse fun _ => (argsIdSs fn b).orElse fun _ => argsIdSs fn o
  | .if_ _ t b o => (argsIdE fn t).orElse fun _ => (argsIdSs fn b).orElse fun _ => argsIdSs fn o
  | .with_ _ its b _ => (argsIdEs fn its).orElse fun _ => argsIdSs fn b
  | .raise _ e c => (argsIdEs fn e).orElse fun _ => argsIdEs fn c
  | .try_ _ b h o f =>
      (argsIdSs fn b).orElse fun _ => (argsIdSs fn h).orElse fun _ => (argsIdSs fn o).orElse fun _ => argsIdSs fn f
  | .handler _ ty _ b => (argsIdEs fn ty).orElse fun _ => argsIdSs fn b
  | .assert_ _ t m => (argsIdE fn t).orElse fun _ => argsIdEs fn m
  | .expr _ v => argsIdE fn v
  | .other _ _ es bs => (argsIdEs fn es).orElse fun _ => argsIdSs fn bs
  | _ => none
def argsIdSs (fn : Nat) (ss : List Stmt) : Option Nat :=
  match ss with
  | [] => none
  | s :: rest => (argsIdS fn s).orElse fun _ => argsIdSs fn rest
end

inductive Res where
  | enclosing | global
  deriving DecidableEq, Repr

/-- Look a name up through the recorded scopes of the enclosing functions (innermost first). -/
def resolveAct (st : St) : List Nat → String → Res
  | [], _ => .global
  | e :: rest, x =>
      match st.anno? e .argsAndBodyScope with
      | none => resolveAct st rest x
      | some s =>
          if s.globals.contains (.sym x) then .global
          else if s.bound.contains (.sym x) then .enclosing
          else resolveAct st rest x

structure FnClass where
  id : Nat
  params : List String
  bound : List String
  globals : List String
  nonlocals : List String
  locals : List String
  freeVars : List String
  frees : List String
  deriving Repr

/-- What the analysis reports about function `fn` whose enclosing functions are `chain`. -/
def classify (top : Stmt) (st : St) (fn : Nat) (chain : List Nat) : Option FnClass :=
  match st.anno? fn .argsAndBodyScope with
  | none => none
  | some s =>
      let params := match (argsIdS fn top).bind (fun a => st.anno? a .scope) with
        | some a => (a.paramNames).names
        | none => []
      let bound := s.bound.names
      let globals := s.globals.names
      let nonlocals := s.nonlocals.names
      let freeVars := s.freeVars.names
      some { id := fn, params := params, bound := bound, globals := globals, nonlocals := nonlocals,
             locals := bound.filter (fun x => !globals.contains x && !nonlocals.contains x),
             freeVars := freeVars,
             frees := (freeVars ++ nonlocals).filter (fun x => !globals.contains x && resolveAct st chain x == .enclosing) }

def classifyAll (top : Stmt) : List FnClass :=
  let st := analyze top
  (fnsS [] top).filterMap fun (fn, chain) => classify top st fn chain

end Malt.Analysis
