import MaltModel.Py.Ast
/-
`Spec.Dynamic` — which variables does executing one statement-level node *itself* read, rebind or delete?

Defined syntactically, from the language reference's evaluation rules, per executed unit ("node"):
a simple statement; the test of `if`/`while`; the iterable of `for`; the per-iteration assignment of the
`for` target; one `with` item; a `def` statement (decorators, default values, parameter and return
annotations are evaluated when the `def` executes; the body is not); a `class` statement (decorators,
bases, keywords); the body expression of a lambda (executed at call time).  Bodies of nested functions
and lambdas are separate units.  Comprehensions are evaluated as part of the unit that contains them;
their iteration variables are the comprehension's own (set aside), a named expression inside them
rebinds the variable of the enclosing function.

The C08 harness checks on every run that the accesses the interpreter actually performs (opcode-level
trace) are among the ones listed here, for the node they are attributed to.
-/
namespace Malt.Spec
open Malt.Py

inductive NodeKey where
  | scope | iterate
  deriving DecidableEq, Repr, Inhabited

structure ExecUnit where
  id : Nat
  key : NodeKey
  reads : List String
  writes : List String      -- rebound or deleted
  deriving Repr, Inhabited

mutual
/-- Names bound by an assignment target / comprehension `for` target. -/
def targetNames (e : Expr) : List String :=
  match e with
  | .name _ s _ => [s]
  | .seq _ _ es _ => targetNamesL es
  | .starred _ v _ => targetNames v
  | _ => []
def targetNamesL (es : List Expr) : List String :=
  match es with
  | [] => []
  | e :: rest => targetNames e ++ targetNamesL rest
end

mutual
/-- Names unbound by a `del` target. -/
def delNames (e : Expr) : List String :=
  match e with
  | .name _ s c => if c == .del then [s] else []
  | .seq _ _ es _ => delNamesL es
  | .starred _ v _ => delNames v
  | _ => []
def delNamesL (es : List Expr) : List String :=
  match es with
  | [] => []
  | e :: rest => delNames e ++ delNamesL rest
end

def compTargets (gens : List Expr) : List String :=
  gens.flatMap fun g => match g with
    | .comprehension _ t _ _ _ => targetNames t
    | _ => []

mutual
/-- Variables read when `e` is evaluated (or, for a target expression, when it is assigned to / deleted).
    `hid`: iteration variables of the enclosing comprehensions. -/
def readsE (hid : List String) (e : Expr) : List String :=
  match e with
  | .name _ s c => if c == .load && !hid.contains s then [s] else []
  | .const .. | .noneMarker => []
  | .attr _ v _ _ => readsE hid v
  | .subscript _ v s _ => readsE hid v ++ readsE hid s
  | .call _ f as ks => readsE hid f ++ readsEs hid as ++ readsEs hid ks
  | .keyword _ _ _ v => readsE hid v
  | .boolop _ _ vs => readsEs hid vs
  | .unary _ _ x => readsE hid x
  | .binop _ _ l r => readsE hid l ++ readsE hid r
  | .compare _ l _ cs => readsE hid l ++ readsEs hid cs
  | .ifexp _ t b o => readsE hid t ++ readsE hid b ++ readsE hid o
  | .lambda _ args _ =>
      -- only the default values are evaluated where the lambda expression is
      match args with
      | .arguments _ _ _ _ _ kd _ df => readsEs hid kd ++ readsEs hid df
      | _ => []
  | .seq _ _ es _ => readsEs hid es
  | .starred _ v _ => readsE hid v
  | .namedexpr _ t v => readsE hid t ++ readsE hid v
  | .comp _ _ elts gens =>
      match gens with
      | .comprehension _ t it ifs _ :: rest =>
          let hid' := compTargets gens ++ hid
          readsE hid it ++ readsE hid' t ++ readsEs hid' ifs ++ readsEs hid' rest ++ readsEs hid' elts
      | _ => []
  | .comprehension _ t it ifs _ => readsE hid it ++ readsE hid t ++ readsEs hid ifs
  | .arguments .. => []
  | .arg _ _ an => readsEs hid an
  | .withitem _ c v => readsE hid c ++ readsEs hid v
  | .other _ _ _ kids => readsEs hid kids
def readsEs (hid : List String) (es : List Expr) : List String :=
  match es with
  | [] => []
  | e :: rest => readsE hid e ++ readsEs hid rest
end

mutual
/-- Variables rebound when `e` is evaluated / assigned to (`hid` as above). -/
def writesE (hid : List String) (e : Expr) : List String :=
  match e with
  | .name _ s c => if c == .store && !hid.contains s then [s] else []
  | .const .. | .noneMarker => []
  | .attr _ v _ _ => writesE hid v
  | .subscript _ v s _ => writesE hid v ++ writesE hid s
  | .call _ f as ks => writesE hid f ++ writesEs hid as ++ writesEs hid ks
  | .keyword _ _ _ v => writesE hid v
  | .boolop _ _ vs => writesEs hid vs
  | .unary _ _ x => writesE hid x
  | .binop _ _ l r => writesE hid l ++ writesE hid r
  | .compare _ l _ cs => writesE hid l ++ writesEs hid cs
  | .ifexp _ t b o => writesE hid t ++ writesE hid b ++ writesE hid o
  | .lambda _ args _ =>
      match args with
      | .arguments _ _ _ _ _ kd _ df => writesEs hid kd ++ writesEs hid df
      | _ => []
  | .seq _ _ es _ => writesEs hid es
  | .starred _ v _ => writesE hid v
  | .namedexpr _ t v =>
      -- a named expression rebinds the variable of the enclosing function, also inside a comprehension
      -- (its target is never an iteration variable of an enclosing comprehension: that is a SyntaxError)
      writesE hid t ++ writesE hid v
  | .comp _ _ elts gens =>
      match gens with
      | .comprehension _ t it ifs _ :: rest =>
          let hid' := compTargets gens ++ hid
          writesE hid it ++ writesE hid' t ++ writesEs hid' ifs ++ writesEs hid' rest ++ writesEs hid' elts
      | _ => []
  | .comprehension _ t it ifs _ => writesE hid it ++ writesE hid t ++ writesEs hid ifs
  | .arguments .. => []
  | .arg _ _ an => writesEs hid an
  | .withitem _ c v => writesE hid c ++ writesEs hid v
  | .other _ _ _ kids => writesEs hid kids
def writesEs (hid : List String) (es : List Expr) : List String :=
  match es with
  | [] => []
  | e :: rest => writesE hid e ++ writesEs hid rest
end

def argAnnos (args : List Expr) : List Expr :=
  args.flatMap fun a => match a with
    | .arg _ _ an => an
    | _ => []

/-- What executing a `def` statement evaluates: decorators, default values, annotations. -/
def defExprs (args : Expr) (decos returns : List Expr) : List Expr :=
  match args with
  | .arguments _ po ar va ko kd kw df => decos ++ df ++ kd ++ argAnnos (po ++ ar ++ va ++ ko ++ kw) ++ returns
  | _ => decos ++ returns

mutual
/-- The units made by the lambdas inside an expression: the body of each lambda.
    `hid`: iteration variables of the comprehensions enclosing the lambda (they are the comprehension's). -/
def unitsE (hid : List String) (e : Expr) : List ExecUnit :=
  match e with
  | .name .. | .const .. | .noneMarker => []
  | .attr _ v _ _ => unitsE hid v
  | .subscript _ v s _ => unitsE hid v ++ unitsE hid s
  | .call _ f as ks => unitsE hid f ++ unitsEs hid as ++ unitsEs hid ks
  | .keyword _ _ _ v => unitsE hid v
  | .boolop _ _ vs => unitsEs hid vs
  | .unary _ _ x => unitsE hid x
  | .binop _ _ l r => unitsE hid l ++ unitsE hid r
  | .compare _ l _ cs => unitsE hid l ++ unitsEs hid cs
  | .ifexp _ t b o => unitsE hid t ++ unitsE hid b ++ unitsE hid o
  | .lambda _ args body =>
      { id := body.id, key := .scope, reads := readsE hid body, writes := writesE hid body } :: (unitsE hid args ++ unitsE hid body)
  | .seq _ _ es _ => unitsEs hid es
  | .starred _ v _ => unitsE hid v
  | .namedexpr _ t v => unitsE hid t ++ unitsE hid v
  | .comp _ _ es gs =>
      match gs with
      | .comprehension _ t it ifs _ :: rest =>
          let hid' := compTargets gs ++ hid
          unitsE hid it ++ unitsE hid' t ++ unitsEs hid' ifs ++ unitsEs hid' rest ++ unitsEs hid' es
      | _ => []
  | .comprehension _ t it ifs _ => unitsE hid it ++ unitsE hid t ++ unitsEs hid ifs
  | .arguments _ po ar va ko kd kw df =>
      unitsEs hid po ++ unitsEs hid ar ++ unitsEs hid va ++ unitsEs hid ko ++ unitsEs hid kd ++ unitsEs hid kw ++ unitsEs hid df
  | .arg _ _ an => unitsEs hid an
  | .withitem _ c v => unitsE hid c ++ unitsEs hid v
  | .other _ _ _ kids => unitsEs hid kids
def unitsEs (hid : List String) (es : List Expr) : List ExecUnit :=
  match es with
  | [] => []
  | e :: rest => unitsE hid e ++ unitsEs hid rest
end

def aliasName (a : String × String) : String :=
  if a.2 == "" then (a.1.splitOn ".").headD a.1 else a.2

def simpleUnit (id : Nat) (es : List Expr) (extraReads extraWrites : List String := []) : ExecUnit :=
  { id := id, key := .scope, reads := extraReads ++ readsEs [] es, writes := extraWrites ++ writesEs [] es }

mutual
/-- The statement-level units of a statement (everything except lambda bodies), with what each reads and
    rebinds/deletes. -/
def stmtUnits (s : Stmt) : List ExecUnit :=
  match s with
  | .functionDef i name args body decos returns _ => simpleUnit i (defExprs args decos returns) [] [name] :: stmtUnitsL body
  | .classDef i name bases kws body decos => simpleUnit i (decos ++ bases ++ kws) [] [name] :: stmtUnitsL body
  | .ret i v => [simpleUnit i v]
  | .delete i ts => [simpleUnit i ts [] (delNamesL ts)]
  | .assign i ts v => [simpleUnit i (ts ++ [v])]
  | .augAssign i t _ v => [simpleUnit i [t, v] (targetNames t)]
  | .annAssign i t an v _ => [simpleUnit i ([t, an] ++ v)]
  | .for_ i t it body orelse _ _ =>
      simpleUnit it.id [it] :: { id := i, key := .iterate, reads := readsE [] t, writes := writesE [] t }
        :: (stmtUnitsL body ++ stmtUnitsL orelse)
  | .while_ _ t body orelse => simpleUnit t.id [t] :: (stmtUnitsL body ++ stmtUnitsL orelse)
  | .if_ _ t body orelse => simpleUnit t.id [t] :: (stmtUnitsL body ++ stmtUnitsL orelse)
  | .with_ _ items body _ => (items.map fun it => simpleUnit it.id [it]) ++ stmtUnitsL body
  | .raise i e c => [simpleUnit i (e ++ c)]
  | .try_ _ b h o f => stmtUnitsL b ++ stmtUnitsL h ++ stmtUnitsL o ++ stmtUnitsL f
  | .handler _ _ _ b => stmtUnitsL b
  | .assert_ i t m => [simpleUnit i (t :: m)]
  | .import_ i names => [{ id := i, key := .scope, reads := [], writes := names.map aliasName }]
  | .importFrom i _ names _ => [{ id := i, key := .scope, reads := [], writes := names.map aliasName }]
  | .global i _ => [{ id := i, key := .scope, reads := [], writes := [] }]
  | .nonlocal i _ => [{ id := i, key := .scope, reads := [], writes := [] }]
  | .expr i v => [simpleUnit i [v]]
  | .pass _ | .break_ _ | .continue_ _ => []
  | .other _ _ _ bs => stmtUnitsL bs
def stmtUnitsL (ss : List Stmt) : List ExecUnit :=
  match ss with
  | [] => []
  | s :: rest => stmtUnits s ++ stmtUnitsL rest
end

mutual
/-- The lambda-body units below a statement. -/
def lambdaUnits (s : Stmt) : List ExecUnit :=
  match s with
  | .functionDef _ _ args body decos returns _ => unitsE [] args ++ unitsEs [] decos ++ unitsEs [] returns ++ lambdaUnitsL body
  | .classDef _ _ bases kws body decos => unitsEs [] decos ++ unitsEs [] bases ++ unitsEs [] kws ++ lambdaUnitsL body
  | .ret _ v => unitsEs [] v
  | .delete _ ts => unitsEs [] ts
  | .assign _ ts v => unitsEs [] ts ++ unitsE [] v
  | .augAssign _ t _ v => unitsE [] t ++ unitsE [] v
  | .annAssign _ t an v _ => unitsE [] t ++ unitsE [] an ++ unitsEs [] v
  | .for_ _ t it body orelse _ _ => unitsE [] t ++ unitsE [] it ++ lambdaUnitsL body ++ lambdaUnitsL orelse
  | .while_ _ t body orelse => unitsE [] t ++ lambdaUnitsL body ++ lambdaUnitsL orelse
  | .if_ _ t body orelse => unitsE [] t ++ lambdaUnitsL body ++ lambdaUnitsL orelse
  | .with_ _ items body _ => unitsEs [] items ++ lambdaUnitsL body
  | .raise _ e c => unitsEs [] e ++ unitsEs [] c
  | .try_ _ b h o f => lambdaUnitsL b ++ lambdaUnitsL h ++ lambdaUnitsL o ++ lambdaUnitsL f
  | .handler _ ty _ b => unitsEs [] ty ++ lambdaUnitsL b
  | .assert_ _ t m => unitsE [] t ++ unitsEs [] m
  | .expr _ v => unitsE [] v
  | .other _ _ es bs => unitsEs [] es ++ lambdaUnitsL bs
  | _ => []
def lambdaUnitsL (ss : List Stmt) : List ExecUnit :=
  match ss with
  | [] => []
  | s :: rest => lambdaUnits s ++ lambdaUnitsL rest
end

/-- All units of a statement. -/
def unitsS (s : Stmt) : List ExecUnit := stmtUnits s ++ lambdaUnits s

end Malt.Spec
