import MaltModel.Spec.Symtable
/-
`Spec.Outer` — the *context-free* half of Python's name resolution, still without looking at malt.

`outerB b`: the names that the block `b` (with everything nested in it) does not resolve itself — a name
used (or declared `nonlocal`) in `b` that is neither local to `b` nor declared `global` in it, or such a
name of a block nested in `b` that `b` does not supply (a function-like block supplies its locals and cuts
off the names it declares `global`; a class body supplies nothing to the blocks nested in it).

CPython then classifies these names by what is visible from the enclosing function-like blocks (`bound`):
those in `bound` are the block's *free* variables, the others its *implicit globals*
(`Proofs/C08Frees.lean`: `analyzeBlock_free`, for every block at every depth).
`visibleIn` is the set `bound` CPython hands down to the blocks nested in `b`, `ctxBlocks` lists every
block of a tree with the names visible to it, and `nlOkB` is the validity condition "every `nonlocal`
declaration has a binding in an enclosing function" (otherwise CPython rejects the program).
-/
namespace Malt.Spec
open Malt.Py

mutual
def outerB : Block → List String
  | .mk _ kind _ params binds globals nonlocals uses walrus children =>
      let keep := fun n => !((params.contains n || binds.contains n) && !globals.contains n && !nonlocals.contains n)
                            && !globals.contains n
      let own := (nonlocals ++ uses ++ walrus).filter keep
      if kind.functionLike then own ++ (outerBs children).filter keep else own ++ outerBs children
def outerBs : List Block → List String
  | [] => []
  | b :: rest => outerB b ++ outerBs rest
end

/-- The names visible to the blocks nested in a block with the given own names, when `bound` is visible to it. -/
def visibleIn (kind : BlockKind) (params binds globals nonlocals bound : List String) : List String :=
  if kind.functionLike then
    (params ++ binds).filter (fun n => !globals.contains n && !nonlocals.contains n) ++
      bound.filter (fun n => !globals.contains n)
  else bound

mutual
/-- Every `nonlocal` declaration of the tree names something visible from the enclosing functions. -/
def nlOkB (bound : List String) : Block → Bool
  | .mk _ kind _ params binds globals nonlocals _ _ children =>
      nonlocals.all (fun n => bound.contains n) &&
        nlOkBs (visibleIn kind params binds globals nonlocals bound) children
def nlOkBs (bound : List String) : List Block → Bool
  | [] => true
  | b :: rest => nlOkB bound b && nlOkBs bound rest
end

mutual
/-- Every block of the tree together with the names visible to it from the enclosing function-like blocks. -/
def ctxBlocks (bound : List String) : Block → List (Block × List String)
  | .mk id kind name params binds globals nonlocals uses walrus children =>
      (.mk id kind name params binds globals nonlocals uses walrus children, bound) ::
        ctxBlocksL (visibleIn kind params binds globals nonlocals bound) children
def ctxBlocksL (bound : List String) : List Block → List (Block × List String)
  | [] => []
  | b :: rest => ctxBlocks bound b ++ ctxBlocksL bound rest
end

/-- Every `nonlocal` declaration of the tree has a binding in an enclosing function of the tree (in particular
    the top-level function declares none: what encloses it is not part of the tree). -/
def nonlocalsResolve (t : Stmt) : Bool :=
  match blockOf t with
  | some b => nlOkB [] b
  | none => true

end Malt.Spec
