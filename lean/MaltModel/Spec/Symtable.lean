import MaltModel.Py.Ast
/-
`Spec.Symtable` — Python's binding rules, written from the language reference (§4.2 "Naming and
binding") and checked against CPython's `symtable` module on every run of the C08 harness.
Nothing in this file looks at malt.

Step 1 (`collect*`): the block tree.  A *block* is a function (def or lambda), a class body or a
comprehension.  For every block the own occurrences of names are collected:
  `params`    parameters of the function,
  `binds`     names bound in the block by assignment, augmented assignment, annotated assignment, `for`,
              `with … as`, `import`, `def`, `class`, `del`, `except … as`, a named expression, or — for a
              comprehension block — its iteration targets,
  `globals`, `nonlocals`   names declared by a `global` / `nonlocal` statement of the block,
  `uses`      names read in the block,
  `walrus`    (comprehension blocks only) targets of named expressions evaluated in the comprehension: they
              are bound in the nearest enclosing non-comprehension block, not in the comprehension
              (comprehensions in between merely pass the name through).
Decorators, default values, annotations, base classes are evaluated in the *enclosing* block; so is
the iterable of the first `for` clause of a comprehension.

Step 2 (`resolve`, `analyzeBlock`): the scope of each name of a block:
  declared global → `globalExplicit`;  declared nonlocal → `free`;  bound (or parameter) → `local`;
  otherwise it is looked up outwards through the enclosing blocks, *skipping class blocks*: the first
  function-like block that binds it (or declares it nonlocal) makes it `free`, a function-like block
  that declares it global makes it `globalImplicit`, and if the module is reached it is `globalImplicit`.
A block also lists, as `free`, the names its child blocks need from its own enclosing blocks.
-/
namespace Malt.Spec
open Malt.Py

inductive BlockKind where
  | function | lambda | class_ | listComp | setComp | dictComp | genExp
  deriving DecidableEq, Repr, Inhabited

def BlockKind.isComp : BlockKind → Bool
  | .listComp | .setComp | .dictComp | .genExp => true
  | _ => false

/-- Functions, lambdas and comprehensions are "function-like": their local names are visible in
    nested blocks.  Class bodies are not. -/
def BlockKind.functionLike : BlockKind → Bool
  | .class_ => false
  | _ => true

def BlockKind.ofComp : CompKind → BlockKind
  | .listComp => .listComp | .setComp => .setComp | .dictComp => .dictComp | .genExp => .genExp

inductive Block where
  | mk (id : Nat) (kind : BlockKind) (name : String)
       (params binds globals nonlocals uses walrus : List String) (children : List Block)
  deriving Repr, Inhabited

namespace Block
def id : Block → Nat | .mk i .. => i
def kind : Block → BlockKind | .mk _ k .. => k
def name : Block → String | .mk _ _ n .. => n
def params : Block → List String | .mk _ _ _ p .. => p
def binds : Block → List String | .mk _ _ _ _ b .. => b
def globals : Block → List String | .mk _ _ _ _ _ g .. => g
def nonlocals : Block → List String | .mk _ _ _ _ _ _ n .. => n
def uses : Block → List String | .mk _ _ _ _ _ _ _ u .. => u
def walrus : Block → List String | .mk _ _ _ _ _ _ _ _ w _ => w
def children : Block → List Block | .mk _ _ _ _ _ _ _ _ _ c => c
end Block

/-- Own occurrences of the block being collected. -/
structure Acc where
  params : List String := []
  binds : List String := []
  globals : List String := []
  nonlocals : List String := []
  uses : List String := []
  walrus : List String := []
  /-- named-expression targets that have to be bound further out (only while collecting a comprehension) -/
  escapes : List String := []
  children : List Block := []
  deriving Repr, Inhabited

namespace Acc
def bind (a : Acc) (n : String) : Acc := { a with binds := n :: a.binds }
def use (a : Acc) (n : String) : Acc := { a with uses := n :: a.uses }
def param (a : Acc) (n : String) : Acc := { a with params := n :: a.params }
def child (a : Acc) (b : Block) : Acc := { a with children := a.children ++ [b] }

/-- A finished comprehension block hands its named-expression targets to the enclosing block:
    a comprehension passes them on, any other block binds them. -/
def absorb (a : Acc) (inComp : Bool) (esc : List String) : Acc :=
  if inComp then { a with escapes := esc ++ a.escapes }
  else { a with binds := esc ++ a.binds }

def toBlock (a : Acc) (id : Nat) (kind : BlockKind) (name : String) : Block :=
  .mk id kind name a.params a.binds a.globals a.nonlocals a.uses a.walrus a.children
end Acc

def paramName : Expr → Option String
  | .arg _ n _ => some n
  | _ => none

mutual
/-- Occurrences of names in an expression evaluated in the block being collected.
    `inComp`: the block being collected is a comprehension. -/
def collectE (inComp : Bool) (e : Expr) (a : Acc) : Acc :=
  match e with
  | .name _ s c => match c with
      | .load => a.use s
      | _ => a.bind s
  | .const .. | .noneMarker => a
  | .attr _ v _ _ => collectE inComp v a
  | .subscript _ v s _ => collectE inComp s (collectE inComp v a)
  | .call _ f as ks => collectEs inComp ks (collectEs inComp as (collectE inComp f a))
  | .keyword _ _ _ v => collectE inComp v a
  | .boolop _ _ vs => collectEs inComp vs a
  | .unary _ _ x => collectE inComp x a
  | .binop _ _ l r => collectE inComp r (collectE inComp l a)
  | .compare _ l _ cs => collectEs inComp cs (collectE inComp l a)
  | .ifexp _ t b o => collectE inComp o (collectE inComp b (collectE inComp t a))
  | .lambda i args body =>
      match args with
      | .arguments _ po ar va ko kd kw df =>
          -- default values belong to the enclosing block
          let a := collectEs inComp kd (collectEs inComp df a)
          let ps := (po ++ ar ++ ko ++ va ++ kw).filterMap paramName
          let inner := collectE false body { params := ps }
          a.child (inner.toBlock i .lambda "lambda")
      | _ => a
  | .seq _ _ es _ => collectEs inComp es a
  | .starred _ v _ => collectE inComp v a
  | .namedexpr _ t v =>
      if inComp then
        -- inside a comprehension the target is bound further out
        match t with
        | .name _ s _ => collectE inComp v { a with walrus := s :: a.walrus, escapes := s :: a.escapes }
        | _ => collectE inComp v (collectE inComp t a)
      else collectE inComp v (collectE inComp t a)
  | .comp i k elts gens =>
      match gens with
      | .comprehension _ t it ifs _ :: rest =>
          -- the first iterable is evaluated in the enclosing block
          let a := collectE inComp it a
          let inner : Acc := {}
          let inner := collectE true t inner
          let inner := collectEs true ifs inner
          let inner := collectEs true rest inner
          let inner := collectEs true elts inner
          (a.absorb inComp inner.escapes).child (inner.toBlock i (.ofComp k)
            (match k with | .listComp => "listcomp" | .setComp => "setcomp" | .dictComp => "dictcomp" | .genExp => "genexpr"))
      | _ => a
  | .comprehension _ t it ifs _ =>
      -- a second or later `for` clause, inside the comprehension block
      collectEs inComp ifs (collectE inComp t (collectE inComp it a))
  | .arguments _ po ar va ko kd kw df =>
      collectEs inComp df (collectEs inComp kw (collectEs inComp kd (collectEs inComp ko
        (collectEs inComp va (collectEs inComp ar (collectEs inComp po a))))))
  | .arg _ _ an => collectEs inComp an a
  | .withitem _ c v => collectEs inComp v (collectE inComp c a)
  | .other _ _ _ kids => collectEs inComp kids a
def collectEs (inComp : Bool) (es : List Expr) (a : Acc) : Acc :=
  match es with
  | [] => a
  | e :: rest => collectEs inComp rest (collectE inComp e a)
end

/-- The annotations of the parameters of a function (evaluated in the enclosing block). -/
def argAnnotations (args : List Expr) : List Expr :=
  args.flatMap fun a => match a with
    | .arg _ _ an => an
    | _ => []

def aliasBinds (names : List (String × String)) : List String :=
  names.filterMap fun a =>
    if a.2 != "" then some a.2
    else if a.1 == "*" then none
    else some ((a.1.splitOn ".").headD a.1)

mutual
/-- Occurrences of names in a statement executed in the block being collected (never a comprehension). -/
def collectS (s : Stmt) (a : Acc) : Acc :=
  match s with
  | .functionDef i name args body decos returns _ =>
      match args with
      | .arguments _ po ar va ko kd kw df =>
          let a := a.bind name
          let a := collectEs false kd (collectEs false df a)
          let a := collectEs false (argAnnotations (po ++ ar ++ va ++ ko ++ kw)) a
          let a := collectEs false returns a
          let a := collectEs false decos a
          let ps := (po ++ ar ++ ko ++ va ++ kw).filterMap paramName
          let inner := collectSs body { params := ps }
          a.child (inner.toBlock i .function name)
      | _ => a
  | .classDef i name bases kws body decos =>
      let a := a.bind name
      let a := collectEs false decos (collectEs false kws (collectEs false bases a))
      let inner := collectSs body {}
      a.child (inner.toBlock i .class_ name)
  | .ret _ v => collectEs false v a
  | .delete _ ts => collectEs false ts a
  | .assign _ ts v => collectE false v (collectEs false ts a)
  | .augAssign _ t _ v => collectE false v (collectE false t a)
  | .annAssign _ t an v simple =>
      let a := match t with
        | .name _ n _ => if simple || !v.isEmpty then a.bind n else a
        | _ => collectE false t a
      collectEs false v (collectE false an a)
  | .for_ _ t it body orelse extra _ =>
      collectSs orelse (collectSs body (collectEs false extra (collectE false it (collectE false t a))))
  | .while_ _ t body orelse => collectSs orelse (collectSs body (collectE false t a))
  | .if_ _ t body orelse => collectSs orelse (collectSs body (collectE false t a))
  | .with_ _ items body _ => collectSs body (collectEs false items a)
  | .raise _ e c => collectEs false c (collectEs false e a)
  | .try_ _ b h o f => collectSs f (collectSs o (collectSs h (collectSs b a)))
  | .handler _ ty name body =>
      let a := collectEs false ty a
      let a := name.foldl Acc.bind a
      collectSs body a
  | .assert_ _ t m => collectEs false m (collectE false t a)
  | .import_ _ names => (aliasBinds names).foldl Acc.bind a
  | .importFrom _ _ names _ => (aliasBinds names).foldl Acc.bind a
  | .global _ names => { a with globals := names ++ a.globals }
  | .nonlocal _ names => { a with nonlocals := names ++ a.nonlocals }
  | .expr _ v => collectE false v a
  | .pass _ | .break_ _ | .continue_ _ => a
  | .other _ _ es bs => collectSs bs (collectEs false es a)
def collectSs (ss : List Stmt) (a : Acc) : Acc :=
  match ss with
  | [] => a
  | s :: rest => collectSs rest (collectS s a)
end

/-- The block tree of a top-level function definition (`none` if the statement is not one). -/
def blockOf (s : Stmt) : Option Block :=
  -- (blocks made by the decorators / default values of the top-level function belong to the module;
  --  the function's own block is the last one collected)
  (collectS s {}).children.getLast?

/-! ### Step 2: scopes of names -/

inductive Scope where
  | local | globalExplicit | globalImplicit | free
  deriving DecidableEq, Repr, Inhabited

structure Sym where
  name : String
  scope : Scope
  isParam : Bool
  declNonlocal : Bool
  /-- not an occurrence of the block itself: a name that nested blocks need from further out -/
  propagated : Bool := false
  deriving DecidableEq, Repr, Inhabited

structure BlockInfo where
  id : Nat
  parent : Nat          -- id of the enclosing block, 0 for the top-level function
  kind : BlockKind
  name : String
  syms : List Sym
  deriving Repr, Inhabited

def dedup (xs : List String) : List String := xs.eraseDups

/-- Scope of a name in a block, given `bound` = the names visible from enclosing function-like blocks
    and `encGlobals` = the `global` declarations of the nearest enclosing non-comprehension block. -/
def scopeOf (b : Block) (bound encGlobals : List String) (n : String) : Scope :=
  if b.globals.contains n then .globalExplicit
  else if b.walrus.contains n then (if encGlobals.contains n then .globalExplicit else .free)
  else if b.nonlocals.contains n then .free
  else if b.params.contains n || b.binds.contains n then .local
  else if bound.contains n then .free
  else .globalImplicit

def ownNames (b : Block) : List String :=
  dedup (b.params ++ b.binds ++ b.globals ++ b.nonlocals ++ b.uses ++ b.walrus)

mutual
/-- Returns the infos of the block and all blocks below it, and the names the block needs from
    its enclosing blocks (its free names). -/
def analyzeBlock (b : Block) (parent : Nat) (bound encGlobals : List String) : List BlockInfo × List String :=
  match b with
  | .mk id kind name params binds globals nonlocals uses walrus children =>
      let me : Block := .mk id kind name params binds globals nonlocals uses walrus []
      let own := ownNames me
      let locals := own.filter fun n => scopeOf me bound encGlobals n == .local
      let ownFree := own.filter fun n => scopeOf me bound encGlobals n == .free
      -- what nested blocks can see
      let newBound :=
        if kind.functionLike then dedup (locals ++ bound.filter (fun n => !globals.contains n))
        else bound
      let encGlobals' := if kind.isComp then encGlobals else globals
      let (infos, childFree) := analyzeBlocks children id newBound encGlobals'
      let childFree := dedup childFree
      -- a function-like block supplies its own locals; everything else is passed on outwards
      let passing := if kind.functionLike then childFree.filter (fun n => !locals.contains n) else childFree
      let extra := passing.filter fun n => !own.contains n && bound.contains n
      let syms := (own.map fun n =>
                    { name := n, scope := scopeOf me bound encGlobals n, isParam := params.contains n,
                      declNonlocal := nonlocals.contains n || (walrus.contains n && !encGlobals.contains n && !globals.contains n) : Sym })
                  ++ extra.map fun n => { name := n, scope := .free, isParam := false, declNonlocal := false, propagated := true }
      ({ id := id, parent := parent, kind := kind, name := name, syms := syms } :: infos,
       dedup (ownFree ++ passing))
def analyzeBlocks (bs : List Block) (parent : Nat) (bound encGlobals : List String) : List BlockInfo × List String :=
  match bs with
  | [] => ([], [])
  | b :: rest =>
      let (i1, f1) := analyzeBlock b parent bound encGlobals
      let (i2, f2) := analyzeBlocks rest parent bound encGlobals
      (i1 ++ i2, f1 ++ f2)
end

/-- The symbol tables of all blocks of a top-level function definition. -/
def table (s : Stmt) : List BlockInfo :=
  match blockOf s with
  | some b => (analyzeBlock b 0 [] []).1
  | none => []

/-! ### The per-function classification the property talks about -/

inductive Kind where
  | param | local | globalDeclared | globalImplicit | nonlocalDeclared | free | absent
  deriving DecidableEq, Repr, Inhabited

def Sym.kind (s : Sym) : Kind :=
  match s.scope with
  | .local => if s.isParam then .param else .local
  | .globalExplicit => .globalDeclared
  | .globalImplicit => .globalImplicit
  | .free => if s.declNonlocal then .nonlocalDeclared else .free

/-- `Spec.kind t fn x`: how Python classifies the name `x` in the function (block) `fn` of the tree `t`. -/
def kind (t : List BlockInfo) (fn : Nat) (x : String) : Kind :=
  match t.find? (fun b => b.id == fn) with
  | none => .absent
  | some b =>
      match b.syms.find? (fun s => s.name == x) with
      | none => .absent
      | some s => s.kind

def BlockInfo.names (b : BlockInfo) (p : Sym → Bool) : List String := (b.syms.filter p).map (·.name)

def BlockInfo.params (b : BlockInfo) : List String := b.names (·.isParam)
def BlockInfo.locals (b : BlockInfo) : List String := b.names (·.scope == .local)
def BlockInfo.declaredGlobals (b : BlockInfo) : List String := b.names (·.scope == .globalExplicit)
def BlockInfo.declaredNonlocals (b : BlockInfo) : List String := b.names (fun s => s.scope == .free && s.declNonlocal)
def BlockInfo.frees (b : BlockInfo) : List String := b.names (·.scope == .free)

end Malt.Spec
