import MaltModel.Conv.Tmpl
import MaltModel.Generated.Pipeline
/-
`Conv.LoopTest` — the annotation-carried loop test and the extracted order of the expression passes.

The break / return lowering does NOT write the extra loop condition of a `for` into the tree: it stores the
expression `not <flag>` (or `not <flag> and <old test>`) under `anno.Basic.EXTRA_LOOP_TEST` on the `For` node —
in `Py.Ast` the side field `extraTest` of `.for_`, which no `NodeTransformer` traversal visits (`kidsS` leaves
it alone: annotations are not fields).  Only `control_flow.visit_For` splices it into the tree, as
`def extra_test(): return <test>`.  `splice` is that one step of control_flow (nothing else of the pass is
modelled here).  Consequently a pass that must see the test has to run AFTER control_flow: the extracted
order (`Gen.Pipeline.steps`) has `control_flow` before the three expression passes, and the theorems of
Props/C04.lean are stated for exactly that suffix (`exprSuffix`), so a re-ordering of `transform_ast`
breaks `exprSuffix_extracted` at build time.
-/
namespace Malt.Conv.LoopTest
open Malt.Py Malt.Conv

mutual
/-- `control_flow.visit_For`, reduced to what happens to the EXTRA_LOOP_TEST annotation. -/
def spliceS : Stmt → List Stmt
  | .for_ i t it b e x isA =>
      (match x with
       | [] => []
       | test :: _ => [.functionDef 0 "extra_test" noArgs [.ret 0 [test]] [] [] false])
        ++ [.for_ i t it (spliceB b) (spliceB e) [] isA]
  | .while_ i t b e => [.while_ i t (spliceB b) (spliceB e)]
  | .if_ i t b e => [.if_ i t (spliceB b) (spliceB e)]
  | .with_ i its b isA => [.with_ i its (spliceB b) isA]
  | .try_ i b hs e f => [.try_ i (spliceB b) (spliceB hs) (spliceB e) (spliceB f)]
  | .handler i t n b => [.handler i t n (spliceB b)]
  | .functionDef i n as b ds rs isA => [.functionDef i n as (spliceB b) ds rs isA]
  | .classDef i n bs ks b ds => [.classDef i n bs ks (spliceB b) ds]
  | s => [s]
def spliceB : List Stmt → List Stmt
  | [] => []
  | s :: ss => spliceS s ++ spliceB ss
end

/-- the steps of `PyToPy.transform_ast` that run after `control_flow`, in extracted order -/
def exprSuffix : List String :=
  ((Malt.Gen.Pipeline.steps.map (·.1)).dropWhile (· != "control_flow")).drop 1

/-- position of a step in the extracted pipeline -/
def stepIndex (name : String) : Nat := (Malt.Gen.Pipeline.steps.map (·.1)).idxOf name

end Malt.Conv.LoopTest
