import MaltModel.Conv.Tmpl
import MaltModel.Rt.Naming
import MaltModel.Rt.Options
/-
`Conv.Functions` — mirror of `malt/converters/functions.py` (`FunctionTransformer`).

`self.state[_Function].level`: 1 at rest (the root entry), 2 inside the converted entity, +1 per enclosing
`def` (a lambda also enters a level, but nothing nested in a lambda looks at the level except lambdas,
which only test `> 2`).

* `visit_FunctionDef` (level L): FIRST `new_symbol('fscope', BODY_SCOPE.referenced)` and the annotation
  `function_context_name`; THEN `generic_visit` (field order `args, body, decorator_list, returns`: nested
  defs in the body draw their names after this one); decorators dropped at L ≤ 2, otherwise kept with
  `ag__.autograph_artifact` appended; a leading `Expr(Constant)` (any constant) is kept outside as docstring;
  the rest of the body is wrapped in
  `with ag__.FunctionScope('<name>', '<fscope>', <options>) as <fscope>:` where `<options>` is
  `options.to_ast()` at L = 2 and `options.call_options().to_ast()` deeper.
* `visit_Lambda` inside any function (level > 2): `generic_visit`, then `ag__.autograph_artifact(<lambda>)`.
  A lambda that IS the converted entity (level 2): `generic_visit`, then `new_symbol('lscope', SCOPE.referenced)`
  and the body becomes `ag__.with_function_scope(lambda <lscope>: body, '<lscope>', <options>)`.
* `AsyncFunctionDef` has no visitor: `generic_visit` only.
-/
namespace Malt.Conv.Functions
open Malt.Py Malt.Conv Malt.Naming Malt.Gen Malt.Options

structure Env where
  /-- `str(qn)` of every member of `anno.getanno(node, key).referenced`, for node `id` -/
  referencedOf : Nat → String → Option (List String)
  userOpts : Opts
  /-- iteration order of the `optional_features` frozenset (PYTHONHASHSEED dependent) -/
  order : List Feature

structure St where
  namer : Namer
  ctxNames : List (Nat × String) := []      -- `function_context_name` annotations set so far
  ok : Bool := true                          -- false: a scope annotation the code reads was missing
  deriving Inhabited

/-- The flattening `Namer.new_symbol` applies to a reserved QN, from its printed form: a simple name
reserves itself, `a.b.c` reserves the string `c` (its `qn` tuple is `(QN(a.b), 'c')`), a subscript QN
reserves nothing. -/
def flattenOne (s : String) : List String :=
  if s.endsWith "]" then []
  else match (s.splitOn ".").getLast? with
    | some l => [l]
    | none => [s]

def flattenReserved (names : List String) : List String := names.flatMap flattenOne

def featRef (f : Feature) : Expr := .attr 0 (ag "Feature") f.name .load

def featExpr : FeatExpr → Expr
  | .emptyTuple => .seq 0 .tuple [] .load
  | .bare f => featRef f
  | .tuple fs => .seq 0 .tuple (fs.map featRef) .load

def kw (name : String) (v : Expr) : Expr := .keyword 0 name true (tmplArg v)

/-- `ConversionOptions.to_ast()` as a Python expression. -/
def optsExpr (o : Opts) (order : List Feature) : Expr :=
  match toAst o (order.filter o.features) with
  | .std => ag "STD"
  | .call r u fe i =>
      .call 0 (ag "ConversionOptions") []
        [kw "recursive" (boolConst r), kw "user_requested" (boolConst u), kw "optional_features" (featExpr fe),
         kw "internal_convert_user_code" (boolConst i)]

/-- `_function_scope_options` -/
def optsFor (env : Env) (lvl : Nat) : Opts := if lvl == 2 then env.userOpts else callOptions env.userOpts

/-- lambdas below the converted entity -/
def lamPost : Expr → Expr
  | .lambda i as b => .call 0 (ag "autograph_artifact") [tmplArg (.lambda i as b)] []
  | e => e
def lamHooks : Hooks := { post := lamPost }
def E (e : Expr) : Expr := mapE lamHooks e
def Es (es : List Expr) : List Expr := mapEs lamHooks es

def splitDoc : List Stmt → List Stmt × List Stmt
  | .expr i (.const j k r) :: rest => ([.expr i (.const j k r)], rest)
  | b => ([], b)

def withScope (fname cname : String) (opts : Expr) (body : List Stmt) : Stmt :=
  .with_ 0 [.withitem 0 (.call 0 (ag "FunctionScope")
      [.const 0 "str" (pyRepr fname), .const 0 "str" (pyRepr cname), tmplArg opts] []) [.name 0 cname .store]]
    body false

mutual
def visitS (env : Env) (lvl : Nat) : Stmt → St → Stmt × St
  | .functionDef i n as b ds rs isA, st =>
      if isA then
        let r := visitB env lvl b st
        (.functionDef i n (E as) r.1 (Es ds) (Es rs) isA, r.2)
      else
        let refd := env.referencedOf i "BODY_SCOPE"
        let sym := newSymbol st.namer "fscope" (flattenReserved (refd.getD []))
        let st1 : St := { namer := sym.2, ctxNames := st.ctxNames ++ [(i, sym.1)], ok := st.ok && refd.isSome }
        let r := visitB env (lvl + 1) b st1
        let ds' := if lvl ≤ 2 then [] else Es ds ++ [ag "autograph_artifact"]
        let dr := splitDoc r.1
        let w := withScope n sym.1 (optsExpr (optsFor env lvl) env.order) dr.2
        (.functionDef i n (E as) (dr.1 ++ [w]) ds' (Es rs) isA, r.2)
  | .classDef i n bs ks b ds, st =>
      let r := visitB env lvl b st
      (.classDef i n (Es bs) (Es ks) r.1 (Es ds), r.2)
  | .for_ i t it b e x isA, st =>
      let r1 := visitB env lvl b st
      let r2 := visitB env lvl e r1.2
      (.for_ i (E t) (E it) r1.1 r2.1 x isA, r2.2)
  | .while_ i t b e, st =>
      let r1 := visitB env lvl b st
      let r2 := visitB env lvl e r1.2
      (.while_ i (E t) r1.1 r2.1, r2.2)
  | .if_ i t b e, st =>
      let r1 := visitB env lvl b st
      let r2 := visitB env lvl e r1.2
      (.if_ i (E t) r1.1 r2.1, r2.2)
  | .with_ i its b isA, st =>
      let r := visitB env lvl b st
      (.with_ i (Es its) r.1 isA, r.2)
  | .try_ i b hs e f, st =>
      let r1 := visitB env lvl b st
      let r2 := visitB env lvl hs r1.2
      let r3 := visitB env lvl e r2.2
      let r4 := visitB env lvl f r3.2
      (.try_ i r1.1 r2.1 r3.1 r4.1, r4.2)
  | .handler i t n b, st =>
      let r := visitB env lvl b st
      (.handler i (Es t) n r.1, r.2)
  | .other i k es bs, st =>
      let r := visitB env lvl bs st
      (.other i k (Es es) r.1, r.2)
  | .ret i v, st => (.ret i (Es v), st)
  | .delete i ts, st => (.delete i (Es ts), st)
  | .assign i ts v, st => (.assign i (Es ts) (E v), st)
  | .augAssign i t op v, st => (.augAssign i (E t) op (E v), st)
  | .annAssign i t an v s, st => (.annAssign i (E t) (E an) (Es v) s, st)
  | .raise i e c, st => (.raise i (Es e) (Es c), st)
  | .assert_ i t m, st => (.assert_ i (E t) (Es m), st)
  | .expr i v, st => (.expr i (E v), st)
  | s, st => (s, st)
def visitB (env : Env) (lvl : Nat) : List Stmt → St → List Stmt × St
  | [], st => ([], st)
  | s :: ss, st =>
      let r := visitS env lvl s st
      let r2 := visitB env lvl ss r.2
      (r.1 :: r2.1, r2.2)
end

/-- The converted entity is a `def`. -/
def runDef (env : Env) (nm : Namer) (root : Stmt) : Stmt × St := visitS env 2 root { namer := nm }

/-- The converted entity is a lambda (level 2). -/
def runLambda (env : Env) (nm : Namer) : Expr → Expr × St
  | .lambda i as b =>
      let as' := E as
      let b' := E b
      let refd := env.referencedOf i "SCOPE"
      let sym := newSymbol nm "lscope" (flattenReserved (refd.getD []))
      let inner : Expr := .lambda 0 (.arguments 0 [] [.arg 0 sym.1 []] [] [] [] [] []) (tmplArg b')
      let body := .call 0 (ag "with_function_scope")
        [inner, .const 0 "str" (pyRepr sym.1), tmplArg (optsExpr (optsFor env 2) env.order)] []
      (.lambda i as' body, { namer := sym.2, ctxNames := [(i, sym.1)], ok := refd.isSome })
  | e => (E e, { namer := nm })

end Malt.Conv.Functions
