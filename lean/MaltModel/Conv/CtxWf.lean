import MaltModel.Py.Ast
/-
Expression contexts (C17).  `WfE c e` : expression `e` is well-formed when it stands at a position that expects
context `c` — the rule CPython's own AST validator applies (Python/ast.c `validate_expr(exp, ctx)`): `Name`,
`Attribute`, `Subscript`, `Starred`, `List`, `Tuple` must carry exactly the expected context; `Starred`, `List`, `Tuple`
pass it on to their children; the value/slice of an attribute or subscript is read (`Load`); every other expression kind
is only legal in a `Load` position and reads its children, except the binding positions: `NamedExpr.target`,
`comprehension.target`, `withitem.optional_vars` expect `Store`.  Statements: assignment / augmented assignment /
annotated assignment / `for` targets expect `Store`, `del` targets `Del`, everything else `Load`.
`Set` has no context in Python; the shared AST stores `.load` for it and that is what is required here.

`okE`/`okS`/`ctxOk` is the executable checker with the same reading; `Proofs/C17Ctx.lean` proves `ok… = true ↔ Wf…`.
-/
set_option linter.unusedVariables false
set_option linter.unusedSimpArgs false
namespace Malt.Conv
open Malt.Py

mutual
/-- `e` is context-well-formed at a position expecting context `c`. -/
def WfE : Ctx → Expr → Prop
  | _, .noneMarker => True
  | c, .name _ _ c' => c' = c
  | c, .attr _ v _ c' => c' = c ∧ WfE .load v
  | c, .subscript _ v s c' => c' = c ∧ WfE .load v ∧ WfE .load s
  | c, .seq _ k es c' => c' = c ∧ (k ≠ .set ∨ c = .load) ∧ WfEs c es
  | c, .starred _ v c' => c' = c ∧ WfE c v
  | c, .const _ f_kind f_repr => c = .load
  | c, .call _ f_func f_args f_keywords => c = .load ∧ WfE .load f_func ∧ WfEs .load f_args ∧ WfEs .load f_keywords
  | c, .keyword _ f_arg f_hasArg f_value => c = .load ∧ WfE .load f_value
  | c, .boolop _ f_isAnd f_values => c = .load ∧ WfEs .load f_values
  | c, .unary _ f_op f_operand => c = .load ∧ WfE .load f_operand
  | c, .binop _ f_op f_left f_right => c = .load ∧ WfE .load f_left ∧ WfE .load f_right
  | c, .compare _ f_left f_ops f_comparators => c = .load ∧ WfE .load f_left ∧ WfEs .load f_comparators
  | c, .ifexp _ f_test f_body f_orelse => c = .load ∧ WfE .load f_test ∧ WfE .load f_body ∧ WfE .load f_orelse
  | c, .lambda _ f_args f_body => c = .load ∧ WfE .load f_args ∧ WfE .load f_body
  | c, .namedexpr _ f_target f_value => c = .load ∧ WfE .store f_target ∧ WfE .load f_value
  | c, .comp _ f_kind f_elts f_generators => c = .load ∧ WfEs .load f_elts ∧ WfEs .load f_generators
  | c, .comprehension _ f_target f_iter f_ifs f_isAsync => c = .load ∧ WfE .store f_target ∧ WfE .load f_iter ∧ WfEs .load f_ifs
  | c, .arguments _ f_posonly f_args f_vararg f_kwonly f_kwDefaults f_kwarg f_defaults => c = .load ∧ WfEs .load f_posonly ∧ WfEs .load f_args ∧ WfEs .load f_vararg ∧ WfEs .load f_kwonly ∧ WfEs .load f_kwDefaults ∧ WfEs .load f_kwarg ∧ WfEs .load f_defaults
  | c, .arg _ f_name f_annotation => c = .load ∧ WfEs .load f_annotation
  | c, .withitem _ f_contextExpr f_optionalVars => c = .load ∧ WfE .load f_contextExpr ∧ WfEs .store f_optionalVars
  | c, .other _ f_kind f_attrs f_kids => c = .load ∧ WfEs .load f_kids
def WfEs : Ctx → List Expr → Prop
  | _, [] => True
  | c, e :: es => WfE c e ∧ WfEs c es
/-- statement `s` is context-well-formed. -/
def WfS : Stmt → Prop
  | .functionDef _ f_name f_args f_body f_decorators f_returns f_isAsync => WfE .load f_args ∧ WfSs f_body ∧ WfEs .load f_decorators ∧ WfEs .load f_returns
  | .classDef _ f_name f_bases f_keywords f_body f_decorators => WfEs .load f_bases ∧ WfEs .load f_keywords ∧ WfSs f_body ∧ WfEs .load f_decorators
  | .ret _ f_value => WfEs .load f_value
  | .delete _ f_targets => WfEs .del f_targets
  | .assign _ f_targets f_value => WfEs .store f_targets ∧ WfE .load f_value
  | .augAssign _ f_target f_op f_value => WfE .store f_target ∧ WfE .load f_value
  | .annAssign _ f_target f_annotation f_value f_simple => WfE .store f_target ∧ WfE .load f_annotation ∧ WfEs .load f_value
  | .for_ _ f_target f_iter f_body f_orelse f_extraTest f_isAsync => WfE .store f_target ∧ WfE .load f_iter ∧ WfSs f_body ∧ WfSs f_orelse ∧ WfEs .load f_extraTest
  | .while_ _ f_test f_body f_orelse => WfE .load f_test ∧ WfSs f_body ∧ WfSs f_orelse
  | .if_ _ f_test f_body f_orelse => WfE .load f_test ∧ WfSs f_body ∧ WfSs f_orelse
  | .with_ _ f_items f_body f_isAsync => WfEs .load f_items ∧ WfSs f_body
  | .raise _ f_exc f_cause => WfEs .load f_exc ∧ WfEs .load f_cause
  | .try_ _ f_body f_handlers f_orelse f_finalbody => WfSs f_body ∧ WfSs f_handlers ∧ WfSs f_orelse ∧ WfSs f_finalbody
  | .handler _ f_type_ f_name f_body => WfEs .load f_type_ ∧ WfSs f_body
  | .assert_ _ f_test f_msg => WfE .load f_test ∧ WfEs .load f_msg
  | .import_ _ f_names => True
  | .importFrom _ f_module f_names f_level => True
  | .global _ f_names => True
  | .nonlocal _ f_names => True
  | .expr _ f_value => WfE .load f_value
  | .pass _ => True
  | .break_ _ => True
  | .continue_ _ => True
  | .other _ f_kind f_exprs f_blocks => WfEs .load f_exprs ∧ WfSs f_blocks
def WfSs : List Stmt → Prop
  | [] => True
  | s :: ss => WfS s ∧ WfSs ss
end

/-- Every expression context of the statement list matches its position. -/
def CtxWellFormed (t : List Stmt) : Prop := WfSs t

mutual
def okE : Ctx → Expr → Bool
  | _, .noneMarker => true
  | c, .name _ _ c' => c' == c
  | c, .attr _ v _ c' => c' == c && okE .load v
  | c, .subscript _ v s c' => c' == c && okE .load v && okE .load s
  | c, .seq _ k es c' => c' == c && (k != .set || c == .load) && okEs c es
  | c, .starred _ v c' => c' == c && okE c v
  | c, .const _ f_kind f_repr => c == .load
  | c, .call _ f_func f_args f_keywords => c == .load && okE .load f_func && okEs .load f_args && okEs .load f_keywords
  | c, .keyword _ f_arg f_hasArg f_value => c == .load && okE .load f_value
  | c, .boolop _ f_isAnd f_values => c == .load && okEs .load f_values
  | c, .unary _ f_op f_operand => c == .load && okE .load f_operand
  | c, .binop _ f_op f_left f_right => c == .load && okE .load f_left && okE .load f_right
  | c, .compare _ f_left f_ops f_comparators => c == .load && okE .load f_left && okEs .load f_comparators
  | c, .ifexp _ f_test f_body f_orelse => c == .load && okE .load f_test && okE .load f_body && okE .load f_orelse
  | c, .lambda _ f_args f_body => c == .load && okE .load f_args && okE .load f_body
  | c, .namedexpr _ f_target f_value => c == .load && okE .store f_target && okE .load f_value
  | c, .comp _ f_kind f_elts f_generators => c == .load && okEs .load f_elts && okEs .load f_generators
  | c, .comprehension _ f_target f_iter f_ifs f_isAsync => c == .load && okE .store f_target && okE .load f_iter && okEs .load f_ifs
  | c, .arguments _ f_posonly f_args f_vararg f_kwonly f_kwDefaults f_kwarg f_defaults => c == .load && okEs .load f_posonly && okEs .load f_args && okEs .load f_vararg && okEs .load f_kwonly && okEs .load f_kwDefaults && okEs .load f_kwarg && okEs .load f_defaults
  | c, .arg _ f_name f_annotation => c == .load && okEs .load f_annotation
  | c, .withitem _ f_contextExpr f_optionalVars => c == .load && okE .load f_contextExpr && okEs .store f_optionalVars
  | c, .other _ f_kind f_attrs f_kids => c == .load && okEs .load f_kids
def okEs : Ctx → List Expr → Bool
  | _, [] => true
  | c, e :: es => okE c e && okEs c es
def okS : Stmt → Bool
  | .functionDef _ f_name f_args f_body f_decorators f_returns f_isAsync => okE .load f_args && okSs f_body && okEs .load f_decorators && okEs .load f_returns
  | .classDef _ f_name f_bases f_keywords f_body f_decorators => okEs .load f_bases && okEs .load f_keywords && okSs f_body && okEs .load f_decorators
  | .ret _ f_value => okEs .load f_value
  | .delete _ f_targets => okEs .del f_targets
  | .assign _ f_targets f_value => okEs .store f_targets && okE .load f_value
  | .augAssign _ f_target f_op f_value => okE .store f_target && okE .load f_value
  | .annAssign _ f_target f_annotation f_value f_simple => okE .store f_target && okE .load f_annotation && okEs .load f_value
  | .for_ _ f_target f_iter f_body f_orelse f_extraTest f_isAsync => okE .store f_target && okE .load f_iter && okSs f_body && okSs f_orelse && okEs .load f_extraTest
  | .while_ _ f_test f_body f_orelse => okE .load f_test && okSs f_body && okSs f_orelse
  | .if_ _ f_test f_body f_orelse => okE .load f_test && okSs f_body && okSs f_orelse
  | .with_ _ f_items f_body f_isAsync => okEs .load f_items && okSs f_body
  | .raise _ f_exc f_cause => okEs .load f_exc && okEs .load f_cause
  | .try_ _ f_body f_handlers f_orelse f_finalbody => okSs f_body && okSs f_handlers && okSs f_orelse && okSs f_finalbody
  | .handler _ f_type_ f_name f_body => okEs .load f_type_ && okSs f_body
  | .assert_ _ f_test f_msg => okE .load f_test && okEs .load f_msg
  | .import_ _ f_names => true
  | .importFrom _ f_module f_names f_level => true
  | .global _ f_names => true
  | .nonlocal _ f_names => true
  | .expr _ f_value => okE .load f_value
  | .pass _ => true
  | .break_ _ => true
  | .continue_ _ => true
  | .other _ f_kind f_exprs f_blocks => okEs .load f_exprs && okSs f_blocks
def okSs : List Stmt → Bool
  | [] => true
  | s :: ss => okS s && okSs ss
end

/-- The verified checker run on the real transformed tree. -/
def ctxOk (t : List Stmt) : Bool := okSs t

end Malt.Conv
