/-
`Conv.BlockVars` — the pure set computation of `ControlFlowTransformer._get_block_basic_vars`,
`_get_block_composite_vars` and `_get_block_vars` (malt/converters/control_flow.py).  Import-free.

Qualified names are their `str(qn)` strings (`x`, `o.a`, `d['k']`, `a[i]`, `a.b[c.d]`), exactly as the
harness records them from the annotations.  Python sets are lists here; `blockVars` removes duplicates
from `modified` first, after which every list below is duplicate free.

* `QN.is_composite()`  = the string has a `.` or a `[` (a simple QN is a bare identifier);
* `QN.support_set` restricted to symbols (`is_symbol()`) = the identifiers in *root position*: at the
  start of the string or directly after a `[` (identifiers after `.` are attribute names; numbers,
  quoted strings, `True/False/None` after `[` are `Literal`s);
* `QN.__lt__` = comparison of the strings, so `sorted(scope_vars, key=lambda v: (v in input_only, v))`
  is the sort by the pair (Bool, String) with `false < true`; strings of distinct QNs are distinct, so the
  order is total on the elements and the result does not depend on the sorting algorithm;
* `input_only = basic_scope_vars & live_in - live_out` parses as `basic & (live_in - live_out)`, which is
  the same set as `(basic & live_in) - live_out`.
-/
namespace Malt.Conv.BlockVars

/-- `QN.is_composite()` on `str(qn)`. -/
def isComposite (s : String) : Bool := s.toList.any fun c => c == '.' || c == '['

def isIdentChar (c : Char) : Bool := c.isAlphanum || c == '_' || c.toNat ≥ 128

/-- Is the root token a symbol (`QN.is_symbol()`: base is a `str`, not a `Literal`)? -/
def validSym (cs : List Char) : Bool :=
  match cs with
  | [] => false
  | c :: _ => !c.isDigit && !(["True", "False", "None"].contains (String.ofList cs))

inductive Mode where
  | root | skip | str
  deriving DecidableEq, Repr

structure Scan where
  mode : Mode := .root
  cur : List Char := []       -- identifier being read in root position (reversed)
  out : List String := []     -- symbols found (reversed)

def Scan.flush (st : Scan) : List String :=
  if st.mode == .root && validSym st.cur.reverse then String.ofList st.cur.reverse :: st.out else st.out

def Scan.step (st : Scan) (c : Char) : Scan :=
  match st.mode with
  | .root =>
    if isIdentChar c then { st with cur := c :: st.cur }
    else if c == '\'' || c == '"' then { mode := .str, cur := [], out := st.out }   -- string / bytes literal
    else { mode := if c == '[' then .root else .skip, cur := [], out := st.flush }
  | .skip => if c == '[' then { st with mode := .root, cur := [] } else st
  | .str => if c == '\'' || c == '"' then { st with mode := .skip } else st

/-- The symbols of `QN.support_set`, in order of occurrence. -/
def supportSyms (s : String) : List String :=
  ((s.toList.foldl Scan.step {}).flush).reverse

/-- `_get_block_basic_vars(modified, live_in, live_out)` (`nonlocals` = `fn_scope.nonlocals | fn_scope.globals` of the
enclosing function: declared globals are kept as block variables just like nonlocals). -/
def basicVars (modified liveIn liveOut nonlocals : List String) : List String :=
  modified.filter fun s => !isComposite s && (liveIn.contains s || liveOut.contains s || nonlocals.contains s)

/-- `_get_block_composite_vars(modified, live_in)`. -/
def compositeVars (modified liveIn : List String) : List String :=
  modified.filter fun s => isComposite s && (supportSyms s).all liveIn.contains

/-- `a <= b` for the sort key `(v in input_only, v)`. -/
def keyLe (inputOnly : List String) (a b : String) : Bool :=
  let ka := inputOnly.contains a
  let kb := inputOnly.contains b
  (!ka && kb) || (ka == kb && decide (a ≤ b))

def insertSorted (le : String → String → Bool) (a : String) : List String → List String
  | [] => [a]
  | b :: l => if le a b then a :: b :: l else b :: insertSorted le a l

def sortBy (le : String → String → Bool) : List String → List String
  | [] => []
  | a :: l => insertSorted le a (sortBy le l)

/-- A list as a set: duplicates removed (the last occurrence is kept). -/
def dedup : List String → List String
  | [] => []
  | a :: l => if l.contains a then dedup l else a :: dedup l

structure Result where
  scopeVars : List String
  undefined : List String
  nouts : Nat
  inputOnly : List String
  deriving Repr

/-- `_get_block_vars(node, modified)` with the annotations of `node` and the function scope passed in. -/
def blockVars (modified liveIn liveOut definedIn globals nonlocals : List String) : Result :=
  let modified := dedup modified
  let basic := basicVars modified liveIn liveOut (nonlocals ++ globals)
  let comp := compositeVars modified liveIn
  let undefined := modified.filter fun v =>
    !definedIn.contains v && !globals.contains v && !nonlocals.contains v && !isComposite v
  let inputOnly := basic.filter fun v => liveIn.contains v && !liveOut.contains v
  let scopeVars := sortBy (keyLe inputOnly) (basic ++ comp)
  { scopeVars, undefined, nouts := scopeVars.length - inputOnly.length, inputOnly }

/-- A state variable is an OUTPUT of the statement unless it is a simple name that is live into the statement and not
live out of it (`input_only = basic_scope_vars & live_in - live_out`).  Composite symbols are always outputs; a simple
output that is neither live in nor live out is a name the enclosing function declares `global` / `nonlocal`. -/
def isOutput (liveIn liveOut : List String) (v : String) : Bool :=
  isComposite v || !liveIn.contains v || liveOut.contains v

end Malt.Conv.BlockVars
