import MaltModel.Conv.Tmpl
/-
`Conv.Logical` — mirror of `malt/converters/logical_expressions.py` (`LogicalExpressionTransformer`).

All three visitors (`visit_BoolOp`, `visit_Compare`, `visit_UnaryOp`) call `generic_visit` FIRST and then
rewrite the node, so they are `post` hooks of the generic traversal: every nested occurrence is reached.

* `a and b and c` → `ag__.and_(lambda: a, lambda: ag__.and_(lambda: b, lambda: c))` (values popped from the
  right: right-nested).
* `not a` → `ag__.not_(a)`; other unary operators untouched.
* `a < b == c` → pairwise comparisons joined left-nested by `ag__.and_(lambda: …, lambda: …)`; `==`/`!=`
  become `ag__.eq`/`ag__.not_eq` only under `Feature.EQUALITY_OPERATORS`.
-/
namespace Malt.Conv.Logical
open Malt.Py Malt.Conv

/-- `_overload_of`: LOGICAL_OPERATORS always, EQUALITY_OPERATORS under the feature. -/
def overloadOf (eqOn : Bool) (op : String) : Option String :=
  if op == "And" then some "and_"
  else if op == "Not" then some "not_"
  else if op == "Or" then some "or_"
  else if eqOn && op == "Eq" then some "eq"
  else if eqOn && op == "NotEq" then some "not_eq"
  else none

/-- `_as_binary_function('ag__.<f>', a, b)` -/
def fn2 (f : String) (a b : Expr) : Expr := .call 0 (ag f) [tmplArg a, tmplArg b] []
/-- `_as_unary_function('ag__.<f>', a)` -/
def fn1 (f : String) (a : Expr) : Expr := .call 0 (ag f) [tmplArg a] []

/-- `visit_BoolOp` after `generic_visit`: `right = values.pop(); while values: left = values.pop(); …`. -/
def foldBool (f : String) : List Expr → Expr
  | [] => .noneMarker                   -- `pop from empty list`: a BoolOp always has ≥ 2 values
  | [x] => x
  | x :: y :: rest => fn2 f (thunk x) (thunk (foldBool f (y :: rest)))

/-- `_process_binop` -/
def binCmp (eqOn : Bool) (op : String) (l r : Expr) : Expr :=
  match overloadOf eqOn op with
  | some f => fn2 f l r
  | none => .compare 0 (tmplArg l) [op] [tmplArg r]      -- template `arg1 is arg2`, op swapped in

/-- the `while ops_and_comps` loop of `visit_Compare` -/
def chain (eqOn : Bool) (acc : Option Expr) (left : Expr) : List String → List Expr → Option Expr
  | op :: ops, r :: rs =>
      let b := binCmp eqOn op left r
      let acc' := match acc with
        | none => b
        | some t => fn2 "and_" (thunk t) (thunk b)
      chain eqOn (some acc') r ops rs
  | _, _ => acc

def post (eqOn : Bool) : Expr → Expr
  | .boolop _ isAnd vs => foldBool (if isAnd then "and_" else "or_") vs
  | .compare _ l ops rs => (chain eqOn none l ops rs).getD .noneMarker    -- `assert op_tree is not None`
  | .unary i op e =>
      match overloadOf eqOn op with
      | some f => fn1 f e
      | none => .unary i op e
  | e => e

def hooks (eqOn : Bool) : Hooks := { post := post eqOn }

def visitE (eqOn : Bool) (e : Expr) : Expr := mapE (hooks eqOn) e
def visitS (eqOn : Bool) (s : Stmt) : List Stmt := mapS (hooks eqOn) {} s
def visitB (eqOn : Bool) (b : List Stmt) : List Stmt := mapB (hooks eqOn) {} b

end Malt.Conv.Logical
