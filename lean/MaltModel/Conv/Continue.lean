import MaltModel.Conv.JumpCommon
/-
Syntactic model of `malt/converters/continue_statements.py` (`ContinueCanonicalizationTransformer`).

State mirrored:
* `self.state[_Continue]` — stack of `(used, control_var_name)`, a fresh entry per loop body
  (`_visit_loop_body`); the model threads `used` of the current entry (`CSt.used`) and passes the name as `cur`.
* `self.state[_Block]` — stack of `(is_loop_type, create_guard_current, create_guard_next)`, one entry per
  statement block visited with `visit_block(after_visit=_postprocess_statement)`.  `visit_Continue` sets
  `create_guard_next` on every block from the innermost up to and including the innermost loop-type block.
  In the model a visit returns `hit` = "a `continue` of the current loop was visited inside", which is exactly
  the value of `create_guard_next` of every such enclosing block after the visit; `visitBlk` carries
  `create_guard_current` (`guard`) from one statement to the next:
  `_postprocess_statement` (only active once `_Continue.used`): wrap the statement in `if not var:` when
  `create_guard_current`, reroute the rest of the block into that `if`, then
  `create_guard_current := create_guard_next; create_guard_next := False`.
* Statement lists visited by `generic_visit` (bodies of nested `def`/`class`, async loops, unknown statements)
  have no `_Block` entry and no post-processing; a `continue` inside them still marks the enclosing blocks.
* namer: `new_symbol('continue_', BODY_SCOPE.referenced)` in `_visit_loop_body`, before the body is visited;
  `visit_Try` walks body, orelse, finalbody, handlers, and wraps the visited `orelse` in `if not <flag>:` when the
  try body lexically contains a `continue` of the current loop (`_has_own_continue`).
-/
namespace Malt.Conv.Continue
open Malt.Py Malt.Conv.Jump

structure CSt where
  ns : NSt
  used : Bool := false

mutual
/-- `_has_own_continue`: a `continue` of the enclosing loop occurs in the statements (nested `def`/`class` are
skipped; of a nested loop only the `else` clause is searched; otherwise `body`, `orelse`, `finalbody` and the
handlers' bodies). -/
def hasOwnContinueS : Stmt → Bool
  | .continue_ _ => true
  | .functionDef .. => false
  | .classDef .. => false
  | .for_ _ _ _ _ orelse _ _ => hasOwnContinueB orelse
  | .while_ _ _ _ orelse => hasOwnContinueB orelse
  | .if_ _ _ body orelse => hasOwnContinueB body || hasOwnContinueB orelse
  | .with_ _ _ body _ => hasOwnContinueB body
  | .try_ _ body handlers orelse finalbody =>
      hasOwnContinueB body || hasOwnContinueB orelse || hasOwnContinueB finalbody || hasOwnContinueB handlers
  | .handler _ _ _ body => hasOwnContinueB body
  | _ => false
def hasOwnContinueB : List Stmt → Bool
  | [] => false
  | s :: rest => hasOwnContinueS s || hasOwnContinueB rest
end

mutual
/-- `self.visit(stmt)`: `(replacement, hit)`. -/
def visitS (t : AnnoTable) (cur : Option String) : Stmt → CSt → (List Stmt × Bool) × CSt
  | .continue_ _, st => (([assignC (cur.getD "None") cTrue], true), { st with used := true })
  | .while_ i test body orelse, st =>
      -- _visit_loop_body: fresh `_Continue` and loop-type `_Block` entries
      let (v, ns1) := st.ns.fresh "continue_" (bodyReserved t i)
      let ((b', _), stb) := visitBlk t (some v) false body { ns := ns1, used := false }
      let body' := if stb.used then assignC v cFalse :: b' else b'
      let ((orelse', h), st2) := visitBlk t cur false orelse { ns := stb.ns, used := st.used }
      (([.while_ i test body' orelse'], h), st2)
  | .for_ i target iter body orelse extra false, st =>
      let (v, ns1) := st.ns.fresh "continue_" (bodyReserved t i)
      let ((b', _), stb) := visitBlk t (some v) false body { ns := ns1, used := false }
      let body' := if stb.used then assignC v cFalse :: b' else b'
      let ((orelse', h), st2) := visitBlk t cur false orelse { ns := stb.ns, used := st.used }
      (([.for_ i target iter body' orelse' extra false], h), st2)
  | .if_ i test body orelse, st =>
      let ((body', h1), st1) := visitBlk t cur false body st
      let ((orelse', h2), st2) := visitBlk t cur false orelse st1
      (([.if_ i test body' orelse'], h1 || h2), st2)
  | .with_ i items body false, st =>
      let ((body', h), st1) := visitBlk t cur false body st
      (([.with_ i items body' false], h), st1)
  | .try_ i body handlers orelse finalbody, st =>
      -- the else clause only runs if the try block ran to its end: a continue inside the try block skips it
      let guardOrelse := !orelse.isEmpty && hasOwnContinueB body
      let ((body', h1), st1) := visitBlk t cur false body st
      let ((orelse0, h2), st2) := visitBlk t cur false orelse st1
      let orelse' := if guardOrelse then [ifNot (cur.getD "None") orelse0] else orelse0
      let ((finalbody', h3), st3) := visitBlk t cur false finalbody st2
      let ((handlers', h4), st4) := visitGen t cur handlers st3
      (([.try_ i body' handlers' orelse' finalbody'], h1 || h2 || h3 || h4), st4)
  | .handler i ty nm body, st =>
      let ((body', h), st1) := visitBlk t cur false body st
      (([.handler i ty nm body'], h), st1)
  -- generic_visit: no _Block entry, no post-processing
  | .for_ i target iter body orelse extra true, st =>
      let ((body', h1), st1) := visitGen t cur body st
      let ((orelse', h2), st2) := visitGen t cur orelse st1
      (([.for_ i target iter body' orelse' extra true], h1 || h2), st2)
  | .with_ i items body true, st =>
      let ((body', h), st1) := visitGen t cur body st
      (([.with_ i items body' true], h), st1)
  | .functionDef i nm args body decs rets isAsync, st =>
      let ((body', h), st1) := visitGen t cur body st
      (([.functionDef i nm args body' decs rets isAsync], h), st1)
  | .classDef i nm bases kws body decs, st =>
      let ((body', h), st1) := visitGen t cur body st
      (([.classDef i nm bases kws body' decs], h), st1)
  | .other i k es blocks, st =>
      let ((blocks', h), st1) := visitGen t cur blocks st
      (([.other i k es blocks'], h), st1)
  | s, st => (([s], false), st)
/-- `visit_block(nodes, after_visit=_postprocess_statement)` under a fresh `_Block` entry;
`guard` = `create_guard_current`. Returns the block and whether a `continue` of the current loop was visited. -/
def visitBlk (t : AnnoTable) (cur : Option String) (guard : Bool) : List Stmt → CSt → (List Stmt × Bool) × CSt
  | [], st => (([], false), st)
  | s :: rest, st =>
      let ((r, h), st1) := visitS t cur s st
      -- `if after_visit and replacement:` — an empty replacement is not post-processed
      if r.isEmpty then
        let ((rs, hr), st2) := visitBlk t cur guard rest st1
        ((rs, h || hr), st2)
      else if st1.used then
        let ((rs, hr), st2) := visitBlk t cur h rest st1
        if guard then (([ifNot (cur.getD "None") (r ++ rs)], h || hr), st2)
        else ((r ++ rs, h || hr), st2)
      else
        let ((rs, hr), st2) := visitBlk t cur guard rest st1
        ((r ++ rs, h || hr), st2)
/-- the list case of `generic_visit` -/
def visitGen (t : AnnoTable) (cur : Option String) : List Stmt → CSt → (List Stmt × Bool) × CSt
  | [], st => (([], false), st)
  | s :: rest, st =>
      let ((r, h), st1) := visitS t cur s st
      let ((rs, hr), st2) := visitGen t cur rest st1
      ((r ++ rs, h || hr), st2)
end

def run (t : AnnoTable) (root : Stmt) (ns : NSt) : List Stmt × NSt :=
  let ((r, _), st) := visitS t none root { ns := ns, used := false }
  (r, st.ns)

end Malt.Conv.Continue
