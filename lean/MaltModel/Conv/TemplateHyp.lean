import MaltModel.Conv.CtxWf
import MaltModel.Conv.Template
import MaltModel.Conv.SrcClass
/- Executable form of the hypothesis "every bound node was context-well-formed where it came from" (evaluated by the
driver on the real bindings of every captured `templates.replace` call). -/
namespace Malt.Conv.Template
open Malt.Py Malt.Conv

/-- well-formed at *some* position kind -/
def okAny (e : Expr) : Bool := okE .load e || okE .store e || okE .del e

def bindingWfB : Binding → Bool
  | .node e => okAny e
  | .nodes es => es.all okAny
  | .stmt s => okS s
  | .stmts ss => okSs ss

def bindingsWfB (b : Bindings) : Bool := b.all fun p => bindingWfB p.2

/-- how often `nm` occurs in the template as a `Name` placeholder / as a parameter name -/
def nameOcc (nm : String) (t : List Stmt) : Nat :=
  ((Malt.Conv.SrcClass.subSs t).filter fun e => match e with | .name _ n _ => n == nm | _ => false).length

def argOcc (nm : String) (t : List Stmt) : Nat :=
  ((Malt.Conv.SrcClass.subSs t).filter fun e => match e with | .arg _ n _ => n == nm | _ => false).length

end Malt.Conv.Template
