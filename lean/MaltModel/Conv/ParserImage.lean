import MaltModel.Py.Ast
/-
`parserImage`: a decidable predicate picking out trees that CAN come out of CPython's parser, as far as `ast.unparse`
followed by `ast.parse` is concerned: a tree outside it prints to text whose re-parse is a DIFFERENT tree (or no tree),
which is what breaks `create_source_map` ("Inconsistent ASTs detected").  Node-local part (`piE`/`piS`: first three items,
preserved by template substitution — Proofs/C17PImage.lean), expression shapes (`shE`: next two), named reasons in the driver:
* a numeric `Constant` whose repr starts with `-` or `(`  (`Constant(-1)` prints `-1`, which parses as `UnaryOp(USub, 1)`;
  `Constant(1+2j)` prints `(1+2j)`, a `BinOp`);
* a `Constant` holding a tuple / frozenset (only the bytecode optimiser makes those);
* a `Name` whose id is a keyword (`Name('None')` prints `None`, which parses as `Constant(None)`);
* an empty `Set` display (prints `{*()}`);
* an f-string (`JoinedStr`) with two adjacent literal parts (the parser merges them).
Structural part (`bodiesS`): every block that the grammar requires to be non-empty is non-empty (function / class / loop /
if / with / try / handler bodies, `global` / `nonlocal` name lists, `del` and assignment target lists, import lists).
-/
set_option linter.unusedVariables false
namespace Malt.Conv
open Malt.Py

def pyKeywords : List String := ["None", "True", "False", "and", "as", "assert", "async", "await", "break", "class", "continue",
  "def", "del", "elif", "else", "except", "finally", "for", "from", "global", "if", "import", "in", "is", "lambda", "nonlocal",
  "not", "or", "pass", "raise", "return", "try", "while", "with", "yield"]

def badNumber (kind repr : String) : Bool :=
  (kind == "int" || kind == "float" || kind == "complex") && (repr.front == '-' || repr.front == '(')

def badConstKind (kind : String) : Bool := kind == "tuple" || kind == "frozenset"

def isConst : Expr → Bool
  | .const .. => true
  | _ => false

def emptyStrConst : Expr → Bool
  | .const _ k r => k == "str" && (r == "''" || r == "\"\"")
  | _ => false

/-- literal parts of an f-string as the parser leaves them: no two adjacent (CPython 3.12 itself leaves an EMPTY trailing
literal in format specs, e.g. `f"{a:>{b}}"`, and prints it back unchanged, so empty parts are not excluded) -/
def fstringParts : List Expr → Bool
  | [] => true
  | [_] => true
  | e :: f :: r => !(isConst e && isConst f) && fstringParts (f :: r)

mutual
def piE : Expr → Bool
  | .noneMarker => true
  | .name _ s _ => !pyKeywords.contains s
  | .const _ k r => !badNumber k r && !badConstKind k

  | .attr _ f_value f_attr f_ctx => piE f_value
  | .subscript _ f_value f_slice f_ctx => piE f_value && piE f_slice
  | .seq _ f_kind f_elts f_ctx => piEs f_elts
  | .starred _ f_value f_ctx => piE f_value
  | .call _ f_func f_args f_keywords => piE f_func && piEs f_args && piEs f_keywords
  | .keyword _ f_arg f_hasArg f_value => piE f_value
  | .boolop _ f_isAnd f_values => piEs f_values
  | .unary _ f_op f_operand => piE f_operand
  | .binop _ f_op f_left f_right => piE f_left && piE f_right
  | .compare _ f_left f_ops f_comparators => piE f_left && piEs f_comparators
  | .ifexp _ f_test f_body f_orelse => piE f_test && piE f_body && piE f_orelse
  | .lambda _ f_args f_body => piE f_args && piE f_body
  | .namedexpr _ f_target f_value => piE f_target && piE f_value
  | .comp _ f_kind f_elts f_generators => piEs f_elts && piEs f_generators
  | .comprehension _ f_target f_iter f_ifs f_isAsync => piE f_target && piE f_iter && piEs f_ifs
  | .arguments _ f_posonly f_args f_vararg f_kwonly f_kwDefaults f_kwarg f_defaults => piEs f_posonly && piEs f_args && piEs f_vararg && piEs f_kwonly && piEs f_kwDefaults && piEs f_kwarg && piEs f_defaults
  | .arg _ f_name f_annotation => piEs f_annotation
  | .withitem _ f_contextExpr f_optionalVars => piE f_contextExpr && piEs f_optionalVars
  | .other _ f_kind f_attrs f_kids => piEs f_kids
def piEs : List Expr → Bool
  | [] => true
  | e :: es => piE e && piEs es
end
mutual
def piS : Stmt → Bool
  | .functionDef _ f_name f_args f_body f_decorators f_returns f_isAsync => piE f_args && piSs f_body && piEs f_decorators && piEs f_returns
  | .classDef _ f_name f_bases f_keywords f_body f_decorators => piEs f_bases && piEs f_keywords && piSs f_body && piEs f_decorators
  | .ret _ f_value => piEs f_value
  | .delete _ f_targets => piEs f_targets
  | .assign _ f_targets f_value => piEs f_targets && piE f_value
  | .augAssign _ f_target f_op f_value => piE f_target && piE f_value
  | .annAssign _ f_target f_annotation f_value f_simple => piE f_target && piE f_annotation && piEs f_value
  | .for_ _ f_target f_iter f_body f_orelse f_extraTest f_isAsync => piE f_target && piE f_iter && piSs f_body && piSs f_orelse && piEs f_extraTest
  | .while_ _ f_test f_body f_orelse => piE f_test && piSs f_body && piSs f_orelse
  | .if_ _ f_test f_body f_orelse => piE f_test && piSs f_body && piSs f_orelse
  | .with_ _ f_items f_body f_isAsync => piEs f_items && piSs f_body
  | .raise _ f_exc f_cause => piEs f_exc && piEs f_cause
  | .try_ _ f_body f_handlers f_orelse f_finalbody => piSs f_body && piSs f_handlers && piSs f_orelse && piSs f_finalbody
  | .handler _ f_type_ f_name f_body => piEs f_type_ && piSs f_body
  | .assert_ _ f_test f_msg => piE f_test && piEs f_msg
  | .import_ _ f_names => true
  | .importFrom _ f_module f_names f_level => true
  | .global _ f_names => true
  | .nonlocal _ f_names => true
  | .expr _ f_value => piE f_value
  | .pass _ => true
  | .break_ _ => true
  | .continue_ _ => true
  | .other _ f_kind f_exprs f_blocks => piEs f_exprs && piSs f_blocks
def piSs : List Stmt → Bool
  | [] => true
  | s :: ss => piS s && piSs ss
end

mutual
/-- expression shapes the parser never produces: an empty set display, an f-string with empty / adjacent literal parts -/
def shE : Expr → Bool
  | .noneMarker => true
  | .seq _ k es _ => !(k == .set && es.isEmpty) && shEs es
  | .other _ k _ kids => (k != "JoinedStr" || fstringParts kids) && shEs kids
  | .name _ f_s f_ctx => true
  | .attr _ f_value f_attr f_ctx => shE f_value
  | .subscript _ f_value f_slice f_ctx => shE f_value && shE f_slice
  | .starred _ f_value f_ctx => shE f_value
  | .const _ f_kind f_repr => true
  | .call _ f_func f_args f_keywords => shE f_func && shEs f_args && shEs f_keywords
  | .keyword _ f_arg f_hasArg f_value => shE f_value
  | .boolop _ f_isAnd f_values => shEs f_values
  | .unary _ f_op f_operand => shE f_operand
  | .binop _ f_op f_left f_right => shE f_left && shE f_right
  | .compare _ f_left f_ops f_comparators => shE f_left && shEs f_comparators
  | .ifexp _ f_test f_body f_orelse => shE f_test && shE f_body && shE f_orelse
  | .lambda _ f_args f_body => shE f_args && shE f_body
  | .namedexpr _ f_target f_value => shE f_target && shE f_value
  | .comp _ f_kind f_elts f_generators => shEs f_elts && shEs f_generators
  | .comprehension _ f_target f_iter f_ifs f_isAsync => shE f_target && shE f_iter && shEs f_ifs
  | .arguments _ f_posonly f_args f_vararg f_kwonly f_kwDefaults f_kwarg f_defaults => shEs f_posonly && shEs f_args && shEs f_vararg && shEs f_kwonly && shEs f_kwDefaults && shEs f_kwarg && shEs f_defaults
  | .arg _ f_name f_annotation => shEs f_annotation
  | .withitem _ f_contextExpr f_optionalVars => shE f_contextExpr && shEs f_optionalVars
def shEs : List Expr → Bool
  | [] => true
  | e :: es => shE e && shEs es
end
mutual
def shS : Stmt → Bool
  | .functionDef _ f_name f_args f_body f_decorators f_returns f_isAsync => shE f_args && shSs f_body && shEs f_decorators && shEs f_returns
  | .classDef _ f_name f_bases f_keywords f_body f_decorators => shEs f_bases && shEs f_keywords && shSs f_body && shEs f_decorators
  | .ret _ f_value => shEs f_value
  | .delete _ f_targets => shEs f_targets
  | .assign _ f_targets f_value => shEs f_targets && shE f_value
  | .augAssign _ f_target f_op f_value => shE f_target && shE f_value
  | .annAssign _ f_target f_annotation f_value f_simple => shE f_target && shE f_annotation && shEs f_value
  | .for_ _ f_target f_iter f_body f_orelse f_extraTest f_isAsync => shE f_target && shE f_iter && shSs f_body && shSs f_orelse && shEs f_extraTest
  | .while_ _ f_test f_body f_orelse => shE f_test && shSs f_body && shSs f_orelse
  | .if_ _ f_test f_body f_orelse => shE f_test && shSs f_body && shSs f_orelse
  | .with_ _ f_items f_body f_isAsync => shEs f_items && shSs f_body
  | .raise _ f_exc f_cause => shEs f_exc && shEs f_cause
  | .try_ _ f_body f_handlers f_orelse f_finalbody => shSs f_body && shSs f_handlers && shSs f_orelse && shSs f_finalbody
  | .handler _ f_type_ f_name f_body => shEs f_type_ && shSs f_body
  | .assert_ _ f_test f_msg => shE f_test && shEs f_msg
  | .import_ _ f_names => true
  | .importFrom _ f_module f_names f_level => true
  | .global _ f_names => true
  | .nonlocal _ f_names => true
  | .expr _ f_value => shE f_value
  | .pass _ => true
  | .break_ _ => true
  | .continue_ _ => true
  | .other _ f_kind f_exprs f_blocks => shEs f_exprs && shSs f_blocks
def shSs : List Stmt → Bool
  | [] => true
  | s :: ss => shS s && shSs ss
end

mutual
/-- blocks / lists the grammar requires to be non-empty -/
def bodiesS : Stmt → Bool
  | .functionDef _ _ _ body _ _ _ => !body.isEmpty && bodiesSs body
  | .classDef _ _ _ _ body _ => !body.isEmpty && bodiesSs body
  | .for_ _ _ _ body orelse _ _ => !body.isEmpty && bodiesSs body && bodiesSs orelse
  | .while_ _ _ body orelse => !body.isEmpty && bodiesSs body && bodiesSs orelse
  | .if_ _ _ body orelse => !body.isEmpty && bodiesSs body && bodiesSs orelse
  | .with_ _ items body _ => !items.isEmpty && !body.isEmpty && bodiesSs body
  | .try_ _ body handlers orelse finalbody =>
      !body.isEmpty && !(handlers.isEmpty && finalbody.isEmpty) && bodiesSs body && bodiesSs handlers && bodiesSs orelse && bodiesSs finalbody
  | .handler _ _ _ body => !body.isEmpty && bodiesSs body
  | .delete _ targets => !targets.isEmpty
  | .assign _ targets _ => !targets.isEmpty
  | .import_ _ names => !names.isEmpty
  | .importFrom _ _ names _ => !names.isEmpty
  | .global _ names => !names.isEmpty
  | .nonlocal _ names => !names.isEmpty
  | .other _ _ _ blocks => bodiesSs blocks
  | _ => true
def bodiesSs : List Stmt → Bool
  | [] => true
  | s :: ss => bodiesS s && bodiesSs ss
end

/-- the checker run on every real tree (together with `ctxOk` and `arityOk`) -/
def parserImage (t : List Stmt) : Bool := piSs t && shSs t && bodiesSs t

end Malt.Conv
