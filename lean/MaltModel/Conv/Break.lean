import MaltModel.Conv.JumpCommon
/-
Syntactic model of `malt/converters/break_statements.py` (`BreakTransformer`) over `Py.Ast`.

State of the transformer mirrored here:
* `self.state[_Break]` — a stack of `(used, control_var_name)`; a loop body is processed under a fresh entry
  (`_process_body`), everything else (including a loop's `orelse`, nested function bodies, …) under the
  enclosing entry.  The model threads `used` of the current entry through the visit (`BSt.used`) and passes
  `control_var_name` down as `cur` (`none` = the root entry, whose name is `None`).
* `ctx.namer` — `new_symbol('break_', BODY_SCOPE.referenced)` is called on entering every `While`/`For`,
  before its children are visited (pre-order, `ast` field order elsewhere: `BreakTransformer` has no
  `visit_Try`/`visit_If`/…, so `generic_visit` walks `Try` as body, handlers, orelse, finalbody).

Expressions are never changed by this pass (no expression visitor; `templates.replace` copies them and
re-applies the placeholder's context, see `subst`).
-/
namespace Malt.Conv.Break
open Malt.Py Malt.Conv.Jump

structure BSt where
  ns : NSt
  used : Bool := false

/-- `visit_Break`: `var_name = True; continue` (the root entry's name is `None`: the template then fails in
the real code; unreachable for parsed Python, the model emits the name `None`). -/
def breakRepl (cur : Option String) : List Stmt :=
  [assignC (cur.getD "None") cTrue, .continue_ 0]

/-- `_guard_if_present` -/
def guardIfPresent (block : List Stmt) (v : String) : List Stmt :=
  if block.isEmpty then block else [ifNot v block]

mutual
/-- `self.visit(stmt)`: the replacement statements. -/
def visitS (t : AnnoTable) (cur : Option String) : Stmt → BSt → List Stmt × BSt
  | .break_ _, st => (breakRepl cur, { st with used := true })
  | .while_ i test body orelse, st =>
      let (v, ns1) := st.ns.fresh "break_" (bodyReserved t i)
      -- _process_body: fresh _Break entry
      let (body', st1) := visitB t (some v) body { ns := ns1, used := false }
      let breakUsed := st1.used
      -- the else clause belongs to the enclosing entry
      let (orelse', st2) := visitB t cur orelse { ns := st1.ns, used := st.used }
      if !breakUsed then
        (.while_ 0 (subst .load test) body' [] :: orelse', st2)
      else
        (assignC v cFalse :: .while_ 0 (notAnd v test) body' [] :: guardIfPresent orelse' v, st2)
  | .for_ i target iter body orelse extra false, st =>
      let (v, ns1) := st.ns.fresh "break_" (bodyReserved t i)
      let (body', st1) := visitB t (some v) body { ns := ns1, used := false }
      let breakUsed := st1.used
      let (orelse', st2) := visitB t cur orelse { ns := st1.ns, used := st.used }
      if !breakUsed then
        -- anno.copyanno(original_node, new_for_node, EXTRA_LOOP_TEST)
        (.for_ 0 (subst .store target) (subst .load iter) body' [] extra false :: orelse', st2)
      else
        (assignC v cFalse ::
          .for_ 0 (subst .store target) (subst .load iter)
            (.expr 0 (.seq 0 .tuple [nameL v] .load) :: body') [] [notName v] false ::
          guardIfPresent orelse' v, st2)
  -- everything else: generic_visit, children in `ast` field order, same _Break entry
  | .for_ i target iter body orelse extra true, st =>
      let (body', st1) := visitB t cur body st
      let (orelse', st2) := visitB t cur orelse st1
      ([.for_ i target iter body' orelse' extra true], st2)
  | .if_ i test body orelse, st =>
      let (body', st1) := visitB t cur body st
      let (orelse', st2) := visitB t cur orelse st1
      ([.if_ i test body' orelse'], st2)
  | .with_ i items body isAsync, st =>
      let (body', st1) := visitB t cur body st
      ([.with_ i items body' isAsync], st1)
  | .try_ i body handlers orelse finalbody, st =>
      let (body', st1) := visitB t cur body st
      let (handlers', st2) := visitB t cur handlers st1
      let (orelse', st3) := visitB t cur orelse st2
      let (finalbody', st4) := visitB t cur finalbody st3
      ([.try_ i body' handlers' orelse' finalbody'], st4)
  | .handler i ty nm body, st =>
      let (body', st1) := visitB t cur body st
      ([.handler i ty nm body'], st1)
  | .functionDef i nm args body decs rets isAsync, st =>
      let (body', st1) := visitB t cur body st
      ([.functionDef i nm args body' decs rets isAsync], st1)
  | .classDef i nm bases kws body decs, st =>
      let (body', st1) := visitB t cur body st
      ([.classDef i nm bases kws body' decs], st1)
  | .other i k es blocks, st =>
      let (blocks', st1) := visitB t cur blocks st
      ([.other i k es blocks'], st1)
  | s, st => ([s], st)
/-- `visit_block` / the list case of `generic_visit`: visit every statement, splice list results. -/
def visitB (t : AnnoTable) (cur : Option String) : List Stmt → BSt → List Stmt × BSt
  | [], st => ([], st)
  | s :: rest, st =>
      let (r, st1) := visitS t cur s st
      let (rs, st2) := visitB t cur rest st1
      (r ++ rs, st2)
end

/-- `BreakTransformer(ctx).visit(node)` on the root `FunctionDef`. -/
def run (t : AnnoTable) (root : Stmt) (ns : NSt) : List Stmt × NSt :=
  let (r, st) := visitS t none root { ns := ns, used := false }
  (r, st.ns)

end Malt.Conv.Break
