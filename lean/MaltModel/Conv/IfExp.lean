import MaltModel.Conv.Tmpl
/-
`Conv.IfExp` — mirror of `malt/converters/conditional_expressions.py`.

`visit_IfExp` builds `ag__.if_exp(test, lambda: body, lambda: orelse, '<unparse(test)>')` from the node's
children **as they are**: it never calls `generic_visit`, so the children of a conditional expression are
never visited by this pass and a conditional expression nested anywhere inside another one stays native
(DESIGN.md §8, known finding C04-ifexp-nested).  The model mirrors that: it is a `pre` hook.

`reprOf i` is the Python `repr` of `parser.unparse(node.test).strip()` for the IfExp with id `i`
(CPython's `ast.unparse`, supplied by the harness as annotation `test_repr`; not modelled).
-/
namespace Malt.Conv.IfExp
open Malt.Py Malt.Conv

def rewrite (reprOf : Nat → String) (i : Nat) (t b e : Expr) : Expr :=
  .call 0 (ag "if_exp") [tmplArg t, thunk b, thunk e, .const 0 "str" (reprOf i)] []

def pre (reprOf : Nat → String) : Expr → Option Expr
  | .ifexp i t b e => some (rewrite reprOf i t b e)
  | _ => none

def hooks (reprOf : Nat → String) : Hooks := { pre := pre reprOf }

def visitE (reprOf : Nat → String) (e : Expr) : Expr := mapE (hooks reprOf) e
def visitS (reprOf : Nat → String) (s : Stmt) : List Stmt := mapS (hooks reprOf) {} s
def visitB (reprOf : Nat → String) (b : List Stmt) : List Stmt := mapB (hooks reprOf) {} b

/-- What the pass would be with the proposed one-line fix (`node = self.generic_visit(node)` first):
a `post` hook.  Used only to state what the fix buys (`C04_ifexp_routed_fixed`). -/
def postFixed (reprOf : Nat → String) : Expr → Expr
  | .ifexp i t b e => rewrite reprOf i t b e
  | e => e
def hooksFixed (reprOf : Nat → String) : Hooks := { post := postFixed reprOf }
def visitEFixed (reprOf : Nat → String) (e : Expr) : Expr := mapE (hooksFixed reprOf) e

def reprOfTable (t : AnnoTable) (i : Nat) : String := (t.str i "test_repr").getD "''"

end Malt.Conv.IfExp
