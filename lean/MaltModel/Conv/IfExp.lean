import MaltModel.Conv.Tmpl
/-
`Conv.IfExp` — mirror of `malt/converters/conditional_expressions.py`.

`visit_IfExp` (since fix 33af8cf) FIRST calls `generic_visit` — conditional expressions nested in the test or
in a branch are converted too — and then builds
`ag__.if_exp(test, lambda: body, lambda: orelse, '<unparse(test)>')` from the VISITED children: a `post` hook.
(Before the fix it was a `pre` hook: no `generic_visit`, children never visited, a nested conditional stayed
native; `hooksPre` keeps that shape only to state what the fix repaired.)

`reprOf i` is the Python `repr` of `parser.unparse(node.test).strip()` for the IfExp with id `i`; the code now
unparses the test AFTER visiting it (CPython's `ast.unparse`, not modelled: the harness supplies the unparse
of the original test as annotation `test_repr`, compares the tree with this one argument masked, and checks on
the real output that the argument is the unparse of the call's own first argument).
-/
namespace Malt.Conv.IfExp
open Malt.Py Malt.Conv

def rewrite (reprOf : Nat → String) (i : Nat) (t b e : Expr) : Expr :=
  .call 0 (ag "if_exp") [tmplArg t, thunk b, thunk e, .const 0 "str" (reprOf i)] []

/-- `visit_IfExp` after `generic_visit` -/
def post (reprOf : Nat → String) : Expr → Expr
  | .ifexp i t b e => rewrite reprOf i t b e
  | e => e

def hooks (reprOf : Nat → String) : Hooks := { post := post reprOf }

def visitE (reprOf : Nat → String) (e : Expr) : Expr := mapE (hooks reprOf) e
def visitS (reprOf : Nat → String) (s : Stmt) : List Stmt := mapS (hooks reprOf) {} s
def visitB (reprOf : Nat → String) (b : List Stmt) : List Stmt := mapB (hooks reprOf) {} b

/-- The pass as it was before 33af8cf (no `generic_visit`): used only for the regression statement
`C04_ifexp_prefix_regression` (a revert of the fix leaves the former witness native). -/
def preOld (reprOf : Nat → String) : Expr → Option Expr
  | .ifexp i t b e => some (rewrite reprOf i t b e)
  | _ => none
def hooksOld (reprOf : Nat → String) : Hooks := { pre := preOld reprOf }
def visitEOld (reprOf : Nat → String) (e : Expr) : Expr := mapE (hooksOld reprOf) e

def reprOfTable (t : AnnoTable) (i : Nat) : String := (t.str i "test_repr").getD "''"

end Malt.Conv.IfExp
