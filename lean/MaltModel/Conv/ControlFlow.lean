import MaltModel.Py.Ast
import MaltModel.Py.Annos
import MaltModel.Rt.Naming
import MaltModel.Conv.BlockVars
/-
`Conv.ControlFlow` — mirror of `malt/converters/control_flow.py: ControlFlowTransformer` over `Py.Ast`.

Input: the tree the transformer's root `visit` receives, the table of static annotations the pass reads
(`BODY_SCOPE`/`ORELSE_SCOPE`/`ITERATE_SCOPE` of statements, `BODY_SCOPE` of function definitions,
`LIVE_VARS_IN/OUT`, `DEFINED_VARS_IN`, `skip`), the `set_loop_options` keyword table of every loop
(`anno.Basic.DIRECTIVES`), and the state of the `Namer`.  Output: the rewritten statements and the namer.

What is mirrored, in the order the real code does it:
* `generic_visit` first (children in `_fields` order: `body` before `orelse`, `try` body/handlers/orelse/final),
  so nested statements draw their generated names before their parents; `for/while ... else` blocks are
  visited (and consume names) and then dropped, as the templates never mention `orelse`;
* `_get_block_vars` (`Conv.BlockVars.blockVars`);
* `_create_undefined_assigns`, `_create_nonlocal_declarations` (global / nonlocal split; the *order inside*
  a declaration is hash dependent in the real code — the correspondence sorts both sides),
  `_create_state_functions` (empty case; `ag__.ldu(lambda: v, 'v')` for composite entries),
  `_create_loop_options` + `iterate_names`;
* the `new_symbol` calls with the real roots, order and reserved sets (`Namer.new_symbol` flattens a QN to
  its `str` components: the name of a simple QN, the attribute of an attribute QN);
* the three templates, with `ReplaceTransformer`/`ContextAdjuster` semantics for the user expressions that
  are spliced in (`test`, `iterated`, target, `extra_test`).
Generated nodes carry id 0.
-/
namespace Malt.Conv.ControlFlow
open Malt Malt.Py Malt.Naming Malt.Conv.BlockVars

/-! ## Qualified names -/

inductive QN where
  | sym (s : String)
  | lit (kind : String) (repr : String)      -- `Literal`: the `ast.Constant` it becomes (type name, `repr(value)`)
  | attr (base : QN) (a : String)
  | sub (base : QN) (idx : QN)
  deriving DecidableEq, Repr, Inhabited

def hex2 (n : Nat) : String :=
  let d (k : Nat) : Char := if k < 10 then Char.ofNat (48 + k) else Char.ofNat (87 + k)
  String.ofList [d (n / 16), d (n % 16)]

/-- Python `repr` of a `str` (printable non-ASCII kept as is). -/
def pyRepr (s : String) : String :=
  let q : Char := if s.any (· == '\'') && !s.any (· == '"') then '"' else '\''
  let body := s.toList.foldl (fun acc c =>
    acc ++ (if c == '\\' then "\\\\"
            else if c == q then String.ofList ['\\', q]
            else if c == '\n' then "\\n" else if c == '\r' then "\\r" else if c == '\t' then "\\t"
            else if c.toNat < 32 || c.toNat == 127 then "\\x" ++ hex2 c.toNat
            else c.toString)) ""
  q.toString ++ body ++ q.toString

def hexVal (c : Char) : Nat :=
  if c.isDigit then c.toNat - 48 else if 'a' ≤ c && c ≤ 'f' then c.toNat - 87 else if 'A' ≤ c && c ≤ 'F' then c.toNat - 55 else 0

def unescape : List Char → List Char
  | '\\' :: 'n' :: r => '\n' :: unescape r
  | '\\' :: 'r' :: r => '\r' :: unescape r
  | '\\' :: 't' :: r => '\t' :: unescape r
  | '\\' :: 'x' :: a :: b :: r => Char.ofNat (hexVal a * 16 + hexVal b) :: unescape r
  | '\\' :: c :: r => c :: unescape r
  | c :: r => c :: unescape r
  | [] => []

/-- Value of a Python `str` literal printed by `repr`. -/
def pyUnrepr (r : String) : String :=
  String.ofList (unescape ((r.toList.drop 1).dropLast))

def QN.toString : QN → String
  | .sym s => s
  | .lit k r => if k == "str" then "'" ++ pyUnrepr r ++ "'" else r
  | .attr b a => b.toString ++ "." ++ a
  | .sub b i => b.toString ++ "[" ++ i.toString ++ "]"

/-- Content of a quoted literal: up to the first quote that is followed by `]`. -/
def takeQuoted : List Char → List Char → Option (List Char × List Char)
  | acc, '\'' :: ']' :: r => some (acc.reverse, ']' :: r)
  | acc, c :: r => takeQuoted (c :: acc) r
  | _, [] => none

mutual
def parseQ : Nat → List Char → Option (QN × List Char)
  | 0, _ => none
  | fuel + 1, cs =>
    let id := cs.takeWhile isIdentChar
    let rest := cs.dropWhile isIdentChar
    match id with
    | [] => none
    | c0 :: _ =>
      if c0.isDigit then
        let tok := cs.takeWhile (fun c => isIdentChar c || c == '.')
        let rest := cs.dropWhile (fun c => isIdentChar c || c == '.')
        let kind := if tok.all Char.isDigit then "int" else if tok.contains 'j' then "complex" else "float"
        some (.lit kind (String.ofList tok), rest)
      else
        let s := String.ofList id
        if s == "True" || s == "False" then some (.lit "bool" s, rest)
        else if s == "None" then some (.lit "NoneType" s, rest)
        else parseSuffixes fuel (.sym s) rest
def parseSuffixes : Nat → QN → List Char → Option (QN × List Char)
  | 0, _, _ => none
  | _ + 1, q, [] => some (q, [])
  | fuel + 1, q, '.' :: cs =>
    let id := cs.takeWhile isIdentChar
    match id with
    | [] => none
    | _ => parseSuffixes fuel (.attr q (String.ofList id)) (cs.dropWhile isIdentChar)
  | fuel + 1, q, '[' :: '\'' :: cs =>
    match takeQuoted [] cs with
    | some (content, ']' :: rest) => parseSuffixes fuel (.sub q (.lit "str" (pyRepr (String.ofList content)))) rest
    | _ => none
  | fuel + 1, q, '[' :: cs =>
    match parseQ fuel cs with
    | some (i, ']' :: rest) => parseSuffixes fuel (.sub q i) rest
    | _ => none
  | _ + 1, q, cs => some (q, cs)
end

def parseQN (s : String) : Option QN :=
  match parseQ (s.length + 2) s.toList with
  | some (q, []) => some q
  | _ => none

/-- The QN a string of an annotation set stands for: its parse when that prints back to the same string,
an opaque symbol otherwise (so that `(qnOf v).toString = v` in every case). -/
def qnOf (v : String) : QN :=
  match parseQN v with
  | some q => if q.toString == v then q else .sym v
  | none => .sym v

/-- `QN.ast()` with the context the template position dictates (`ContextAdjuster`: the outermost node takes
the context, everything below is `Load`). -/
def QN.toExpr (c : Ctx) : QN → Expr
  | .sym s => .name 0 s c
  | .lit k r => .const 0 k r
  | .attr b a => .attr 0 (b.toExpr .load) a c
  | .sub b i => .subscript 0 (b.toExpr .load) (i.toExpr .load) c

def qnExpr (c : Ctx) (v : String) : Expr := (qnOf v).toExpr c

/-- The strings `Namer.new_symbol` adds to its reserved set for one QN (`all_reserved_locals.update(s.qn)`,
of which only `str` components can ever equal a candidate name). -/
def flattenReserved (v : String) : List String :=
  match qnOf v with
  | .sym s => [s]
  | .attr _ a => [a]
  | _ => []

def reservedOf (referenced : List String) : List String :=
  (referenced.flatMap flattenReserved).eraseDups

/-! ## `ContextAdjuster` / `ReplaceTransformer.visit_Name` for spliced user expressions -/

def setCtx (ov : Option Ctx) (c : Ctx) : Ctx := ov.getD c

mutual
def adj (ov : Option Ctx) : Expr → Expr
  | .name i s c => .name i s (setCtx ov c)
  | .const i k r => .const i k r
  | .attr i v a c => .attr i (adj (some .load) v) a (setCtx ov c)
  | .subscript i v s c => .subscript i (adj (some .load) v) (adj (some .load) s) (setCtx ov c)
  | .call i f as ks => .call i (adj none f) (adjList none as) (adjList none ks)
  | .keyword i a h v => .keyword i a h (adj ov v)
  | .boolop i b vs => .boolop i b (adjList ov vs)
  | .unary i op e => .unary i op (adj ov e)
  | .binop i op l r => .binop i op (adj ov l) (adj ov r)
  | .compare i l ops rs => .compare i (adj ov l) ops (adjList ov rs)
  | .ifexp i t b e => .ifexp i (adj ov t) (adj ov b) (adj ov e)
  | .lambda i a b => .lambda i (adj none a) (adj none b)
  | .seq i .set es c => .seq i .set (adjList ov es) c
  | .seq i k es c => .seq i k (adjList ov es) (setCtx ov c)
  | .starred i v c => .starred i (adj ov v) c
  | .namedexpr i t v => .namedexpr i (adj ov t) (adj ov v)
  | .comp i k es gs => .comp i k (adjList ov es) (adjList ov gs)
  | .comprehension i t it ifs a => .comprehension i (adj none t) (adj none it) (adjList none ifs) a
  | .arguments i po ar va ko kd kw df =>
      .arguments i (adjList ov po) (adjList ov ar) (adjList ov va) (adjList ov ko) (adjList ov kd) (adjList ov kw) (adjList ov df)
  | .arg i n an => .arg i n (adjList ov an)
  | .withitem i c v => .withitem i (adj ov c) (adjList ov v)
  | .noneMarker => .noneMarker
  | .other i k attrs kids => .other i k attrs (adjList (if k == "Dict" then none else ov) kids)
def adjList (ov : Option Ctx) : List Expr → List Expr
  | [] => []
  | e :: es => adj ov e :: adjList ov es
end

/-- `hasattr(node, 'ctx')`. -/
def hasCtx : Expr → Bool
  | .name .. | .attr .. | .subscript .. | .starred .. => true
  | .seq _ k _ _ => k != .set
  | _ => false

/-- A user expression spliced into a template position with context `c`. -/
def splice (c : Ctx) (e : Expr) : Expr := if hasCtx e then adj (some c) e else e

/-! ## `ast.unparse` for loop targets -/

mutual
def unparseE : Expr → String
  | .name _ s _ => s
  | .const _ _ r => r
  | .attr _ v a _ => unparseE v ++ "." ++ a
  | .subscript _ v (.seq _ .tuple (e :: es) _) _ =>
      unparseE v ++ "[" ++ ", ".intercalate (unparseE e :: unparseEs es) ++ "]"
  | .subscript _ v s _ => unparseE v ++ "[" ++ unparseE s ++ "]"
  | .starred _ v _ => "*" ++ unparseE v
  | .seq _ .tuple [e] _ => "(" ++ unparseE e ++ ",)"
  | .seq _ .tuple es _ => "(" ++ ", ".intercalate (unparseEs es) ++ ")"
  | .seq _ .list es _ => "[" ++ ", ".intercalate (unparseEs es) ++ "]"
  | _ => "<unsupported>"
def unparseEs : List Expr → List String
  | [] => []
  | e :: es => unparseE e :: unparseEs es
end

/-! ## Templates -/

def nameE (s : String) (c : Ctx := .load) : Expr := .name 0 s c
def agAttr (a : String) : Expr := .attr 0 (.name 0 "ag__" .load) a .load
def strConst (s : String) : Expr := .const 0 "str" (pyRepr s)
def intConst (n : Nat) : Expr := .const 0 "int" (toString n)
def noneConst : Expr := .const 0 "NoneType" "None"
def argsOf (params : List String) : Expr :=
  .arguments 0 [] (params.map fun p => .arg 0 p []) [] [] [] [] []
def fnDef (name : String) (params : List String) (body : List Stmt) : Stmt :=
  .functionDef 0 name (argsOf params) body [] [] false
def tupleE (es : List Expr) (c : Ctx := .load) : Expr := .seq 0 .tuple es c
def opCallStmt (op : String) (args : List Expr) : Stmt := .expr 0 (.call 0 (agAttr op) args [])

structure FnScope where
  globals : List String := []
  nonlocals : List String := []
  deriving Repr, Inhabited

/-- `_create_nonlocal_declarations(vars_)`. -/
def nonlocalDecls (fs : FnScope) (vars : List String) : List Stmt :=
  let globalVars := vars.filter fs.globals.contains
  let nonlocalVars := vars.filter fun v => !isComposite v && !globalVars.contains v
  (if globalVars.isEmpty then [] else [.global 0 globalVars]) ++
  (if nonlocalVars.isEmpty then [] else [.nonlocal 0 nonlocalVars])

/-- One element of the tuple returned by the state getter. -/
def guardedVar (v : String) : Expr :=
  if isComposite v then
    .call 0 (agAttr "ldu") [.lambda 0 (argsOf []) (qnExpr .load v), strConst v] []
  else qnExpr .load v

/-- `_create_state_functions(block_vars, nonlocal_declarations, getter_name, setter_name)`. -/
def stateFunctions (vars : List String) (decls : List Stmt) (getter setter : String) : List Stmt :=
  if vars.isEmpty then
    [fnDef getter [] [.ret 0 [tupleE []]], fnDef setter ["block_vars"] [.pass 0]]
  else
    [fnDef getter [] [.ret 0 [tupleE (vars.map guardedVar)]],
     fnDef setter ["vars_"] (decls ++ [.assign 0 [tupleE (vars.map (qnExpr .store)) .store] (nameE "vars_")])]

/-- `_create_undefined_assigns(undefined_symbols)`: `var = ag__.Undefined('var')`. -/
def undefinedAssigns (undefined : List String) : List Stmt :=
  undefined.map fun s => .assign 0 [qnExpr .store s] (.call 0 (agAttr "Undefined") [strConst s] [])

abbrev DirTable := List (Nat × List (String × Expr))

/-- `_create_loop_options(node)` (+ the extra entries `visit_For` appends).  No `DIRECTIVES` annotation, no
`set_loop_options` entry in it, and a `set_loop_options()` call without keyword arguments (empty table; /repo
41b6a09 returns `{}` before the `zip`) all give the empty dict. -/
def loopOptions (dirs : DirTable) (id : Nat) (extra : List (String × Expr)) : Expr :=
  let kvs := ((dirs.lookup id).getD []) ++ extra
  .other 0 "Dict" [toString kvs.length] (kvs.map (fun kv => strConst kv.1) ++ kvs.map (·.2))

structure Env where
  ann : AnnoTable
  dirs : DirTable

def Env.scope (env : Env) (id : Nat) (key : String) : ScopeInfo := (env.ann.scope id key).getD {}
def Env.names (env : Env) (id : Nat) (key : String) : List String := (env.ann.names id key).getD []
def Env.skip (env : Env) (id : Nat) : Bool := env.ann.has id "skip"

/-- `_get_block_vars(node, modified)`. -/
def Env.blockVars (env : Env) (fs : FnScope) (id : Nat) (modified : List String) : Result :=
  BlockVars.blockVars modified (env.names id "LIVE_VARS_IN") (env.names id "LIVE_VARS_OUT")
    (env.names id "DEFINED_VARS_IN") fs.globals fs.nonlocals

def symbolNames (vars : List String) : Expr := tupleE (vars.map strConst)

/-- The `visit_If` template with the generated names filled in. -/
def ifChunk (bv : Result) (decls : List Stmt) (test : Expr) (body orelse : List Stmt)
    (getter setter bodyName orelseName : String) : List Stmt :=
  stateFunctions bv.scopeVars decls getter setter ++
  [fnDef bodyName [] (decls ++ body),
   fnDef orelseName [] (decls ++ (if orelse.isEmpty then [.pass 0] else orelse))] ++
  undefinedAssigns bv.undefined ++
  [opCallStmt "if_stmt" [splice .load test, nameE bodyName, nameE orelseName, nameE getter, nameE setter,
     symbolNames bv.scopeVars, intConst bv.nouts]]

/-- `visit_If` after `generic_visit`: `body`, `orelse` are the already transformed blocks. -/
def emitIf (env : Env) (fs : FnScope) (nm : Namer) (id : Nat) (test : Expr) (body orelse : List Stmt) :
    List Stmt × Namer :=
  let bodyScope := env.scope id "BODY_SCOPE"
  let orelseScope := env.scope id "ORELSE_SCOPE"
  let bv := env.blockVars fs id (bodyScope.bound ++ orelseScope.bound)
  let decls := nonlocalDecls fs bv.scopeVars
  let reserved := reservedOf (bodyScope.referenced ++ orelseScope.referenced)
  let n1 := newSymbol nm "get_state" reserved
  let n2 := newSymbol n1.2 "set_state" reserved
  let n3 := newSymbol n2.2 "if_body" reserved
  let n4 := newSymbol n3.2 "else_body" reserved
  (ifChunk bv decls test body orelse n1.1 n2.1 n3.1 n4.1, n4.2)

/-- The `visit_While` template with the generated names filled in. -/
def whileChunk (bv : Result) (decls : List Stmt) (opts : Expr) (test : Expr) (body : List Stmt)
    (getter setter bodyName testName : String) : List Stmt :=
  stateFunctions bv.scopeVars decls getter setter ++
  [fnDef bodyName [] (decls ++ body), fnDef testName [] [.ret 0 [splice .load test]]] ++
  undefinedAssigns bv.undefined ++
  [opCallStmt "while_stmt" [nameE testName, nameE bodyName, nameE getter, nameE setter,
     symbolNames bv.scopeVars, opts]]

/-- `visit_While` after `generic_visit`. -/
def emitWhile (env : Env) (fs : FnScope) (nm : Namer) (id : Nat) (test : Expr) (body : List Stmt) :
    List Stmt × Namer :=
  let bodyScope := env.scope id "BODY_SCOPE"
  let bv := env.blockVars fs id bodyScope.bound
  let decls := nonlocalDecls fs bv.scopeVars
  let reserved := reservedOf bodyScope.referenced
  let n1 := newSymbol nm "get_state" reserved
  let n2 := newSymbol n1.2 "set_state" reserved
  let n3 := newSymbol n2.2 "loop_body" reserved
  let n4 := newSymbol n3.2 "loop_test" reserved
  (whileChunk bv decls (loopOptions env.dirs id []) test body n1.1 n2.1 n3.1 n4.1, n4.2)

/-- The `visit_For` template with the generated names filled in; `extraDef` = name and expression of the
`extra_test` function when the loop carries `anno.Basic.EXTRA_LOOP_TEST`. -/
def forChunk (bv : Result) (decls : List Stmt) (opts : Expr) (target iter : Expr) (body : List Stmt)
    (extraDef : Option (String × Expr)) (getter setter itr bodyName : String) : List Stmt :=
  stateFunctions bv.scopeVars decls getter setter ++
  [fnDef bodyName [itr] (decls ++ [.assign 0 [splice .store target] (nameE itr)] ++ body)] ++
  (match extraDef with
   | some (e, x) => [fnDef e [] (decls ++ [.ret 0 [splice .load x]])]
   | none => []) ++
  undefinedAssigns bv.undefined ++
  [opCallStmt "for_stmt" [splice .load iter,
     (match extraDef with
      | some (e, _) => nameE e
      | none => noneConst),
     nameE bodyName, nameE getter, nameE setter, symbolNames bv.scopeVars, opts]]

/-- `visit_For` after `generic_visit`; `extra` = `anno.Basic.EXTRA_LOOP_TEST` (list of length ≤ 1). -/
def emitFor (env : Env) (fs : FnScope) (nm : Namer) (id : Nat) (target iter : Expr) (body : List Stmt)
    (extra : List Expr) : List Stmt × Namer :=
  let bodyScope := env.scope id "BODY_SCOPE"
  let iterScope := env.scope id "ITERATE_SCOPE"
  let bv := env.blockVars fs id (bodyScope.bound ++ iterScope.bound)
  let decls := nonlocalDecls fs bv.scopeVars
  let reserved := reservedOf (bodyScope.referenced ++ iterScope.referenced)
  let n1 := newSymbol nm "get_state" reserved
  let n2 := newSymbol n1.2 "set_state" reserved
  let opts := loopOptions env.dirs id [("iterate_names", strConst (unparseE target))]
  let n3 := newSymbol n2.2 "extra_test" reserved
  let extraDef : Option (String × Expr) := match extra with
    | [] => none
    | x :: _ => some (n3.1, x)
  let nmE := match extra with
    | [] => n2.2
    | _ :: _ => n3.2
  let n4 := newSymbol nmE "itr" reserved
  let n5 := newSymbol n4.2 "loop_body" reserved
  (forChunk bv decls opts target iter body extraDef n1.1 n2.1 n4.1 n5.1, n5.2)

/-! ## The transformer -/

mutual
def tStmt (env : Env) (fs : FnScope) (nm : Namer) : Stmt → List Stmt × Namer
  | .if_ id test body orelse =>
    if env.skip id then ([.if_ id test body orelse], nm) else
    let r1 := tStmts env fs nm body
    let r2 := tStmts env fs r1.2 orelse
    emitIf env fs r2.2 id test r1.1 r2.1
  | .while_ id test body orelse =>
    if env.skip id then ([.while_ id test body orelse], nm) else
    let r1 := tStmts env fs nm body
    let r2 := tStmts env fs r1.2 orelse
    emitWhile env fs r2.2 id test r1.1
  | .for_ id target iter body orelse extra isAsync =>
    if env.skip id then ([.for_ id target iter body orelse extra isAsync], nm) else
    let r1 := tStmts env fs nm body
    let r2 := tStmts env fs r1.2 orelse
    if isAsync then ([.for_ id target iter r1.1 r2.1 extra isAsync], r2.2)
    else emitFor env fs r2.2 id target iter r1.1 extra
  | .functionDef id name args body decos returns isAsync =>
    if env.skip id then ([.functionDef id name args body decos returns isAsync], nm) else
    let sc := env.scope id "BODY_SCOPE"
    let r := tStmts env { globals := sc.globals, nonlocals := sc.nonlocals } nm body
    ([.functionDef id name args r.1 decos returns isAsync], r.2)
  | .classDef id name bases kws body decos =>
    if env.skip id then ([.classDef id name bases kws body decos], nm) else
    let r := tStmts env fs nm body
    ([.classDef id name bases kws r.1 decos], r.2)
  | .with_ id items body isAsync =>
    if env.skip id then ([.with_ id items body isAsync], nm) else
    let r := tStmts env fs nm body
    ([.with_ id items r.1 isAsync], r.2)
  | .try_ id body handlers orelse finalbody =>
    if env.skip id then ([.try_ id body handlers orelse finalbody], nm) else
    let r1 := tStmts env fs nm body
    let r2 := tStmts env fs r1.2 handlers
    let r3 := tStmts env fs r2.2 orelse
    let r4 := tStmts env fs r3.2 finalbody
    ([.try_ id r1.1 r2.1 r3.1 r4.1], r4.2)
  | .handler id type name body =>
    if env.skip id then ([.handler id type name body], nm) else
    let r := tStmts env fs nm body
    ([.handler id type name r.1], r.2)
  | .other id kind exprs blocks =>
    if env.skip id then ([.other id kind exprs blocks], nm) else
    let r := tStmts env fs nm blocks
    ([.other id kind exprs r.1], r.2)
  | s => ([s], nm)
def tStmts (env : Env) (fs : FnScope) (nm : Namer) : List Stmt → List Stmt × Namer
  | [] => ([], nm)
  | s :: ss =>
    let r1 := tStmt env fs nm s
    let r2 := tStmts env fs r1.2 ss
    (r1.1 ++ r2.1, r2.2)
end

/-- `ControlFlowTransformer(ctx).visit(node)` on the root the pass receives. -/
def transform (env : Env) (nm : Namer) (root : Stmt) : List Stmt × Namer :=
  tStmt env {} nm root

end Malt.Conv.ControlFlow
