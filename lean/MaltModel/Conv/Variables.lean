import MaltModel.Conv.Tmpl
/-
`Conv.Variables` — mirror of `malt/converters/variables.py` (`VariableAccessTransformer`).

* `visit_Name`: a Name that carries `anno.Static.ORIG_DEFINITIONS` (i.e. existed in the original code and
  was reached by the reaching-definitions annotator; `hasOrig id`, from annotation `orig_defs`) and is in
  Load context becomes `ag__.ld(name)`.  Store/Del names and generated names are untouched.
* `visit_Delete`: `generic_visit`, then every plain-Name target `x` becomes `x = ag__.Undefined('x')`
  (all of them first), followed by one `del` of the remaining (composite) targets, if any.
* `visit_AugAssign` with a Name target (since fix a695737): the VALUE is visited first
  (`node.value = self.visit(node.value)`), then `x = ag__.ld(x)` followed by the statement (target itself
  not visited); other targets: `generic_visit`.
-/
namespace Malt.Conv.Variables
open Malt.Py Malt.Conv

def ld (e : Expr) : Expr := .call 0 (ag "ld") [tmplArg e] []

def postE (hasOrig : Nat → Bool) : Expr → Expr
  | .name i s .load => if hasOrig i then ld (.name i s .load) else .name i s .load
  | e => e

def isName : Expr → Bool
  | .name .. => true
  | _ => false

/-- `var_ = ag__.Undefined(var_name)` -/
def undefAssign : Expr → List Stmt
  | .name i s _ => [.assign 0 [.name i s .store] (.call 0 (ag "Undefined") [.const 0 "str" (pyRepr s)] [])]
  | _ => []

def undefAssigns : List Expr → List Stmt
  | [] => []
  | t :: ts => undefAssign t ++ undefAssigns ts

def postS : Stmt → List Stmt
  | .delete i ts =>
      let names := ts.filter isName
      if names.isEmpty then [.delete i ts]
      else
        let rest := ts.filter (fun t => !isName t)
        undefAssigns names ++ (if rest.isEmpty then [] else [.delete 0 rest])
  | s => [s]

def hooks (hasOrig : Nat → Bool) : Hooks := { post := postE hasOrig }

def preS (hasOrig : Nat → Bool) : Stmt → Option (List Stmt)
  | .augAssign i (.name j s c) op v =>
      some [.assign 0 [.name j s .store] (ld (.name j s .load)), .augAssign i (.name j s c) op (mapE (hooks hasOrig) v)]
  | _ => none

def shooks (hasOrig : Nat → Bool) : SHooks := { pre := preS hasOrig, post := postS }

def visitE (hasOrig : Nat → Bool) (e : Expr) : Expr := mapE (hooks hasOrig) e
def visitS (hasOrig : Nat → Bool) (s : Stmt) : List Stmt := mapS (hooks hasOrig) (shooks hasOrig) s
def visitB (hasOrig : Nat → Bool) (b : List Stmt) : List Stmt := mapB (hooks hasOrig) (shooks hasOrig) b

def hasOrigTable (t : AnnoTable) (i : Nat) : Bool := t.has i "orig_defs"

end Malt.Conv.Variables
