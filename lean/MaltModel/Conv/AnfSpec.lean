import MaltModel.Conv.Anf
/-
Specification-side definitions for C18 (what the theorems of `Props/C18.lean` talk about):
`okChild` (an edge needs no hoisting), `quiet` (the transformer accepts the expression and adds
nothing), `accepts` (the transformer does not raise), temporaries, hazard classes.
All are plain structural recursions over `Py.Ast` — no transformer state.
-/
namespace Malt.Anf
open Malt.Py

/-! ### An edge already in A-normal form
`okChild cfg pk fld c`: `_ensure_node_in_anf(parent, fld, c)` would leave `c` alone — `c` is absent,
trivial (a variable or `...`), or the configuration does not select the edge (`pk`, `fld`, kind of `c`).
`keyword`, `Starred` and `withitem` are looked through, exactly as the code does. -/
mutual
def okChild (cfg : Config) (pk fld : String) : Expr → Bool
  | .noneMarker => true
  | .keyword _ _ _ v => okChild cfg pk fld v
  | .starred _ v _ => okChild cfg pk fld v
  | .withitem _ ce ov => okChild cfg pk fld ce && okChildren cfg pk fld ov
  | e => isTrivial e || !shouldTransform cfg pk fld (kindOf e)
def okChildren (cfg : Config) (pk fld : String) : List Expr → Bool
  | [] => true
  | e :: es => okChild cfg pk fld e && okChildren cfg pk fld es
end

/-! ### `quiet cfg e`: visiting `e` succeeds and creates no statement
(no rejected construct inside, and every edge the transformer inspects is `okChild`). -/
mutual
def quiet (cfg : Config) : Expr → Bool
  | .name .. => true
  | .const .. => true
  | .noneMarker => true
  | .attr _ v _ _ => quiet cfg v && okChild cfg "Attribute" "value" v
  | .subscript _ v s _ =>
      quiet cfg v && quiet cfg s && okChild cfg "Subscript" "value" v && okChild cfg "Subscript" "slice" s
  | .call _ f as ks =>
      quiet cfg f && quiets cfg as && quiets cfg ks && okChild cfg "Call" "func" f
        && okChildren cfg "Call" "args" as && okChildren cfg "Call" "keywords" ks
  | .keyword _ _ _ v => quiet cfg v
  | .boolop _ isAnd vs =>
      quiets cfg vs && okChildren cfg "BoolOp" "values" vs
        && !shouldTransform cfg "BoolOp" "op" (if isAnd then "And" else "Or")
  | .unary _ _ e => quiet cfg e && okChild cfg "UnaryOp" "operand" e
  | .binop _ op l r =>
      !(op == "MatMult" && shouldTransform cfg "BinOp" "op" "MatMult")
        && quiet cfg l && quiet cfg r && okChild cfg "BinOp" "left" l && okChild cfg "BinOp" "right" r
  | .compare _ l ops rs =>
      !(ops.length > 1) && quiet cfg l && quiets cfg rs && okChild cfg "Compare" "left" l
        && okChildren cfg "Compare" "comparators" rs
  | .ifexp _ t b e =>
      quiet cfg t && quiet cfg b && quiet cfg e && okChild cfg "IfExp" "test" t && okChild cfg "IfExp" "body" b
        && okChild cfg "IfExp" "orelse" e
  | .lambda _ as b =>
      quiet cfg as && quiet cfg b && okChild cfg "Lambda" "body" b && !shouldTransform cfg "Lambda" "args" "arguments"
  | .seq _ .set es _ => quiets cfg es && okChildren cfg "Set" "elts" es
  | .seq _ .tuple es c => quiets cfg es && (c == .store || okChildren cfg "Tuple" "elts" es)
  | .seq _ .list es c => quiets cfg es && (c == .store || okChildren cfg "List" "elts" es)
  | .starred _ v _ => quiet cfg v
  | .namedexpr _ t v => quiet cfg t && quiet cfg v
  | .comp .. => false
  | .comprehension _ t it ifs _ => quiet cfg t && quiet cfg it && quiets cfg ifs
  | .arguments _ po ar va ko kd kw df =>
      quiets cfg po && quiets cfg ar && quiets cfg va && quiets cfg ko && quiets cfg kd && quiets cfg kw && quiets cfg df
  | .arg _ _ an => quiets cfg an
  | .withitem _ ce ov => quiet cfg ce && quiets cfg ov
  | .other _ k ats ks =>
      if k == "Dict" then
        let nk := dictNk ats
        quiets cfg ks && okChildren cfg "Dict" "keys" (ks.take nk) && okChildren cfg "Dict" "values" (ks.drop nk)
      else if k == "Slice" then quiets cfg ks
      else if k == "Yield" then quiets cfg ks && okChildren cfg "Yield" "value" ks
      else if k == "Await" || k == "YieldFrom" then quiets cfg ks && okChildren cfg k "value" ks
      else if k == "JoinedStr" then quiets cfg ks && okChildren cfg k "values" ks
      else if k == "FormattedValue" then
        quiets cfg ks && okChildren cfg k "value" (ks.take 1) && !shouldTransform cfg k "conversion" "int"
          && okChildren cfg k "format_spec" (ks.drop 1)
      else false
def quiets (cfg : Config) : List Expr → Bool
  | [] => true
  | e :: es => quiet cfg e && quiets cfg es
end

/-- The pending statements produced by a visit started with `_idx = n`: assignments to the temporaries
numbered `n, n+1, …, n'-1`, in this order, each of an expression the transformer would leave alone. -/
def HoistsOk (cfg : Config) : Nat → List Stmt → Nat → Prop
  | n, [], n' => n' = n
  | n, s :: D, n' => (∃ x, s = tmpAssign n x ∧ quiet cfg x = true) ∧ HoistsOk cfg (n + 1) D n'

end Malt.Anf

namespace Malt.Anf
open Malt.Py

/-! ### Purity, reads, writes (with respect to `Py.SemAnf`)
`pureE e`: evaluating `e` has no effect, binds nothing and cannot raise — no call, no `:=`, no `*`/`**`
splicing, no construct outside the semantics.  `readsE`: variables read.  `writesE`: variables bound by `:=`. -/
mutual
def pureE : Expr → Bool
  | .name .. => true
  | .const .. => true
  | .noneMarker => true
  | .attr _ v _ _ => pureE v
  | .subscript _ v s _ => pureE v && pureE s
  | .unary _ _ e => pureE e
  | .binop _ _ l r => pureE l && pureE r
  | .compare _ l ops rs => pureE l && pureEs rs && ops.length == rs.length && ops.length == 1
  | .boolop _ _ vs => pureEs vs
  | .ifexp _ t b e => pureE t && pureE b && pureE e
  | .lambda .. => true
  | .seq _ _ es _ => pureEs es
  | .other _ k _ ks => k == "Slice" && ks.length == 3 && pureEs ks
  | _ => false
def pureEs : List Expr → Bool
  | [] => true
  | e :: es => pureE e && pureEs es
end

/-- A child as an *operand*: `*v` and `k=v` evaluate `v` (the splicing belongs to the parent's own step). -/
def pureArg : Expr → Bool
  | .starred _ v _ => pureE v
  | .keyword _ _ _ v => pureE v
  | e => pureE e

mutual
def namesE : Expr → List String     -- every identifier mentioned (any context), parameters included
  | .name _ s _ => [s]
  | .const .. => []
  | .noneMarker => []
  | .attr _ v _ _ => namesE v
  | .subscript _ v s _ => namesE v ++ namesE s
  | .call _ f as ks => namesE f ++ namesEs as ++ namesEs ks
  | .keyword _ _ _ v => namesE v
  | .boolop _ _ vs => namesEs vs
  | .unary _ _ e => namesE e
  | .binop _ _ l r => namesE l ++ namesE r
  | .compare _ l _ rs => namesE l ++ namesEs rs
  | .ifexp _ t b e => namesE t ++ namesE b ++ namesE e
  | .lambda _ as b => namesE as ++ namesE b
  | .seq _ _ es _ => namesEs es
  | .starred _ v _ => namesE v
  | .namedexpr _ t v => namesE t ++ namesE v
  | .comp _ _ es gs => namesEs es ++ namesEs gs
  | .comprehension _ t it ifs _ => namesE t ++ namesE it ++ namesEs ifs
  | .arguments _ a b c d e f g => namesEs a ++ namesEs b ++ namesEs c ++ namesEs d ++ namesEs e ++ namesEs f ++ namesEs g
  | .arg _ nm an => nm :: namesEs an
  | .withitem _ c v => namesE c ++ namesEs v
  | .other _ _ _ ks => namesEs ks
def namesEs : List Expr → List String
  | [] => []
  | e :: es => namesE e ++ namesEs es
end

mutual
def writesE : Expr → List String     -- targets of `:=`
  | .namedexpr _ t v => namesE t ++ writesE v
  | .attr _ v _ _ => writesE v
  | .subscript _ v s _ => writesE v ++ writesE s
  | .call _ f as ks => writesE f ++ writesEs as ++ writesEs ks
  | .keyword _ _ _ v => writesE v
  | .boolop _ _ vs => writesEs vs
  | .unary _ _ e => writesE e
  | .binop _ _ l r => writesE l ++ writesE r
  | .compare _ l _ rs => writesE l ++ writesEs rs
  | .ifexp _ t b e => writesE t ++ writesE b ++ writesE e
  | .seq _ _ es _ => writesEs es
  | .starred _ v _ => writesE v
  | .withitem _ c v => writesE c ++ writesEs v
  | .other _ _ _ ks => writesEs ks
  | _ => []
def writesEs : List Expr → List String
  | [] => []
  | e :: es => writesE e ++ writesEs es
end

def disjoint (a b : List String) : Bool := a.all fun x => !b.contains x

/-! ### The residual of a visit is pure
`resPure cfg e`: after the visit, what is left of `e` in place evaluates without effect
(everything effectful inside was hoisted into pending statements). -/
def isWrapperB : Expr → Bool
  | .noneMarker | .keyword .. | .starred .. | .withitem .. => true
  | _ => false

/-- the edge is selected for hoisting (plain child) -/
def selected (cfg : Config) (pk fld : String) (e : Expr) : Bool :=
  !isTrivial e && shouldTransform cfg pk fld (kindOf e)

mutual
def resPure (cfg : Config) : Expr → Bool
  | .name .. => true
  | .const .. => true
  | .noneMarker => true
  | .attr _ v _ _ => selected cfg "Attribute" "value" v || resPure cfg v
  | .subscript _ v s _ =>
      (selected cfg "Subscript" "value" v || resPure cfg v) && (selected cfg "Subscript" "slice" s || resPure cfg s)
  | .unary _ _ e => selected cfg "UnaryOp" "operand" e || resPure cfg e
  | .binop _ _ l r => (selected cfg "BinOp" "left" l || resPure cfg l) && (selected cfg "BinOp" "right" r || resPure cfg r)
  | .compare _ l ops rs =>
      (selected cfg "Compare" "left" l || resPure cfg l) && resKids cfg "Compare" "comparators" rs
        && ops.length == rs.length && ops.length == 1
  | .seq _ .set es _ => resKids cfg "Set" "elts" es && es.all (!isWrapperB ·)
  | .seq _ .tuple es c => c != .store && resKids cfg "Tuple" "elts" es && es.all (!isWrapperB ·)
  | .seq _ .list es c => c != .store && resKids cfg "List" "elts" es && es.all (!isWrapperB ·)
  | .lambda .. => true
  | .boolop _ _ vs => pureEs vs
  | .ifexp _ t b e => pureE t && pureE b && pureE e
  | .other _ k _ ks => k == "Slice" && ks.length == 3 && resPures cfg ks
  | _ => false
def resPures (cfg : Config) : List Expr → Bool
  | [] => true
  | e :: es => resPure cfg e && resPures cfg es
/-- ensured children: hoisted (then a temporary is left in place) or left with a pure residual -/
def resKids (cfg : Config) (pk fld : String) : List Expr → Bool
  | [] => true
  | e :: es => (selected cfg pk fld e || resPure cfg e) && resKids cfg pk fld es
end

end Malt.Anf

namespace Malt.Anf
open Malt.Py

/-! ### Hazard classes
The transformer hoists, for a node with children `c₁ … cₙ`, first everything nested inside *all* children
(`D₁ … Dₙ`), then the selected children themselves (`H₁ … Hₙ`); children that are not selected stay in
place.  Python evaluates `D₁ X₁ D₂ X₂ …` (`Xᵢ` = what is left of `cᵢ`).  So `Xᵢ` is overtaken by `Dⱼ`
(`i < j`) and, when `cᵢ` stays in place and `cⱼ` is hoisted, by `Xⱼ`.  A *hazard* is an overtaking that the
semantics can observe.  Each class below is the negation of one conjunct of `NoHazard`. -/

def H_READ := "name_read_reordered_after_rebinding_operand"
def H_OPERAND := "operand_effect_reordered_after_later_operand"
def H_STORE := "store_target_evaluated_before_value"
def H_DICT := "dict_value_reordered_after_later_key"
def H_WITHVAR := "with_target_hoisted_as_read"
def H_WITHITEM := "with_item_evaluated_before_earlier_enter"
def H_TARGETS := "later_target_operand_hoisted_before_earlier_store"
def H_DROPPED := "pending_statements_dropped"
def H_TEMPNAME := "user_name_has_temporary_form"
def H_CTX := "walrus_target_context_clobbered_by_hoisted_copy"
/-- `_is_trivial` lists every operator class but `MatMult`: a configuration selecting the `op` child names the operator
node itself (`tmp = @`), and the output is not a Python AST any more. -/
def H_OPNODE := "matmult_operator_node_hoisted_as_expression"

/-! Does the `ContextAdjuster(Load)` run on a hoisted copy reach the target of a `:=` (and make it a *read*)? -/
mutual
def walrusReach : Expr → Bool
  | .namedexpr .. => true
  | .attr _ v _ _ => walrusReach v
  | .subscript _ v s _ => walrusReach v || walrusReach s
  | .seq _ _ es _ => walrusReachs es
  | .keyword _ _ _ v => walrusReach v
  | .boolop _ _ vs => walrusReachs vs
  | .unary _ _ e => walrusReach e
  | .binop _ _ l r => walrusReach l || walrusReach r
  | .compare _ l _ rs => walrusReach l || walrusReachs rs
  | .ifexp _ t b e => walrusReach t || walrusReach b || walrusReach e
  | .starred _ v _ => walrusReach v
  | .other _ k _ ks => k != "Dict" && walrusReachs ks
  | _ => false
def walrusReachs : List Expr → Bool
  | [] => false
  | e :: es => walrusReach e || walrusReachs es
end

/-! `ctxBad`: the edge hoists a context-carrying node whose copy clobbers a `:=` target. -/
mutual
def ctxBad (cfg : Config) (pk fld : String) : Expr → Bool
  | .noneMarker => false
  | .keyword _ _ _ v => ctxBad cfg pk fld v
  | .starred _ v _ => ctxBad cfg pk fld v
  | .withitem _ ce ov => ctxBad cfg pk fld ce || ctxBads cfg pk fld ov
  | e => !isTrivial e && shouldTransform cfg pk fld (kindOf e) && hasCtx e && walrusReach e
def ctxBads (cfg : Config) (pk fld : String) : List Expr → Bool
  | [] => false
  | e :: es => ctxBad cfg pk fld e || ctxBads cfg pk fld es
end

/-- The operand inside a `*`/`k=` wrapper. -/
def operand : Expr → Expr
  | .starred _ v _ => v
  | .keyword _ _ _ v => v
  | e => e

/-- Is `s` one of the names `DummyGensym` can produce (`tmp_1001`, `tmp_1002`, …)? -/
def isTempName (s : String) : Bool :=
  match s.toList with
  | 't' :: 'm' :: 'p' :: '_' :: rest =>
      (match (String.ofList rest).toNat? with
       | some m => 1001 ≤ m && s == tmpName (m - 1001)
       | none => false)
  | _ => false

/-- Overtakings among the ensured (`ens`) or merely visited children `(field, child)` of one node. -/
def pairHaz (cfg : Config) (pk : String) (ens : Bool) (ki : String × Expr) : List (String × Expr) → List String
  | [] => []
  | kj :: rest =>
      let hi := ens && !okChild cfg pk ki.1 ki.2
      let hj := ens && !okChild cfg pk kj.1 kj.2
      let moved := !quiet cfg kj.2 || (hj && !hi)
      let here :=
        if !moved then []
        else if resPure cfg (operand ki.2) then
          (if disjoint (namesE ki.2) (writesE kj.2) then [] else [H_READ])
        else if pureArg kj.2 && disjoint (namesE kj.2) (writesE ki.2) then []
        else [H_OPERAND]
      here ++ pairHaz cfg pk ens ki rest

def pairsHaz (cfg : Config) (pk : String) (ens : Bool) : List (String × Expr) → List String
  | [] => []
  | k :: rest =>
      (if ens && ctxBad cfg pk k.1 k.2 then [H_CTX] else []) ++ pairHaz cfg pk ens k rest ++ pairsHaz cfg pk ens rest

def tag (f : String) (es : List Expr) : List (String × Expr) := es.map fun e => (f, e)

mutual
def hazE (cfg : Config) : Expr → List String
  | .name .. => []
  | .const .. => []
  | .noneMarker => []
  | .attr _ v _ _ => hazE cfg v ++ pairsHaz cfg "Attribute" true [("value", v)]
  | .subscript _ v s _ => hazE cfg v ++ hazE cfg s ++ pairsHaz cfg "Subscript" true [("value", v), ("slice", s)]
  | .call _ f as ks =>
      hazE cfg f ++ hazEs cfg as ++ hazEs cfg ks
        ++ pairsHaz cfg "Call" true (("func", f) :: tag "args" as ++ tag "keywords" ks)
  | .keyword _ _ _ v => hazE cfg v
  | .boolop _ _ vs => hazEs cfg vs
  | .unary _ _ e => hazE cfg e ++ pairsHaz cfg "UnaryOp" true [("operand", e)]
  | .binop _ op l r =>
      (if op == "MatMult" && shouldTransform cfg "BinOp" "op" "MatMult" then [H_OPNODE] else [])
        ++ hazE cfg l ++ hazE cfg r ++ pairsHaz cfg "BinOp" true [("left", l), ("right", r)]
  | .compare _ l _ rs => hazE cfg l ++ hazEs cfg rs ++ pairsHaz cfg "Compare" true (("left", l) :: tag "comparators" rs)
  | .ifexp _ t b e => hazE cfg t ++ hazE cfg b ++ hazE cfg e
  | .lambda .. => []
  | .seq _ .set es _ => hazEs cfg es ++ pairsHaz cfg "Set" true (tag "elts" es)
  | .seq _ .tuple es c => hazEs cfg es ++ pairsHaz cfg "Tuple" (c != .store) (tag "elts" es)
  | .seq _ .list es c => hazEs cfg es ++ pairsHaz cfg "List" (c != .store) (tag "elts" es)
  | .starred _ v _ => hazE cfg v
  | .namedexpr _ t v => hazE cfg t ++ hazE cfg v
  | .withitem _ c v => hazE cfg c ++ hazEs cfg v
  | .other _ k ats ks =>
      if k == "Dict" then
        let nk := dictNk ats
        hazEs cfg ks ++
          (if nk ≤ 1 then pairsHaz cfg "Dict" true (tag "keys" (ks.take nk) ++ tag "values" (ks.drop nk))
           else (if ks.all pureE then [] else [H_DICT])
             ++ (if ctxBads cfg "Dict" "keys" (ks.take nk) || ctxBads cfg "Dict" "values" (ks.drop nk) then [H_CTX] else []))
      else if k == "Slice" then hazEs cfg ks ++ pairsHaz cfg "Slice" false (tag "" ks)
      else hazEs cfg ks
  | _ => []
def hazEs (cfg : Config) : List Expr → List String
  | [] => []
  | e :: es => hazE cfg e ++ hazEs cfg es
end

def withItemHaz (cfg : Config) (first : Bool) : Expr → List String
  | .withitem _ ce ov =>
      (if ov.any (fun t => !okChild cfg "With" "items" t) then [H_WITHVAR] else [])
      ++ (if !quiets cfg ov then [H_STORE] else [])
      ++ (if !first && !(quiet cfg ce && okChild cfg "With" "items" ce && quiets cfg ov) then [H_WITHITEM] else [])
  | _ => []

def withItemsHaz (cfg : Config) : Bool → List Expr → List String
  | _, [] => []
  | first, it :: r => withItemHaz cfg first it ++ withItemsHaz cfg false r

mutual
def hazS (cfg : Config) : Stmt → List String
  | .ret _ v => hazEs cfg v ++ pairsHaz cfg "Return" true (tag "value" v)
  | .raise _ e c => hazEs cfg e ++ hazEs cfg c ++ pairsHaz cfg "Raise" true (tag "exc" e ++ tag "cause" c)
  | .delete _ ts => hazEs cfg ts ++ (if ts.length > 1 && !quiets cfg ts then [H_TARGETS] else [])
  | .assign _ ts v =>
      hazEs cfg ts ++ hazE cfg v ++
        (if quiets cfg ts then []
         else (if ts.length > 1 then [H_TARGETS] else []) ++
              (if pureE v && disjoint (namesE v) (writesEs ts) then [] else [H_STORE]))
  | .augAssign _ t _ v => hazE cfg t ++ hazE cfg v ++ pairsHaz cfg "AugAssign" false [("target", t), ("value", v)]
  | .annAssign _ t a v _ =>
      -- (statements leaked from the *annotation* are dropped too, but a local annotation is never evaluated)
      hazE cfg t ++ hazEs cfg v ++ (if quiet cfg t && quiets cfg v then [] else [H_DROPPED])
  | .expr _ v => hazE cfg v
  | .if_ _ t b e => hazE cfg t ++ pairsHaz cfg "If" true [("test", t)] ++ hazSs cfg b ++ hazSs cfg e
  | .for_ _ tg it b e _ _ =>
      hazE cfg it ++ pairsHaz cfg "For" true [("iter", it)] ++ hazE cfg tg ++ hazSs cfg b ++ hazSs cfg e
  | .while_ _ t b e => hazE cfg t ++ hazSs cfg b ++ hazSs cfg e
  | .with_ _ items b _ =>
      hazEs cfg items ++ withItemsHaz cfg true items ++ (if ctxBads cfg "With" "items" items then [H_CTX] else [])
        ++ hazSs cfg b
  | .try_ _ b hs e f => hazSs cfg b ++ hazSs cfg hs ++ hazSs cfg e ++ hazSs cfg f
  | .handler _ ty _ b => hazEs cfg ty ++ (if quiets cfg ty then [] else [H_DROPPED]) ++ hazSs cfg b
  | .assert_ _ t m => hazE cfg t ++ hazEs cfg m
  | .functionDef _ _ as b ds rs _ =>
      (if quiet cfg as && quiets cfg ds && quiets cfg rs then [] else [H_DROPPED]) ++ hazSs cfg b
  | .classDef _ _ bs ks b ds =>
      (if quiets cfg bs && quiets cfg ks && quiets cfg ds then [] else [H_DROPPED]) ++ hazSs cfg b
  | _ => []
def hazSs (cfg : Config) : List Stmt → List String
  | [] => []
  | s :: ss => hazS cfg s ++ hazSs cfg ss
end

mutual
def namesS : Stmt → List String
  | .functionDef _ nm as b ds rs _ => nm :: namesE as ++ namesSs b ++ namesEs ds ++ namesEs rs
  | .classDef _ nm bs ks b ds => nm :: namesEs bs ++ namesEs ks ++ namesSs b ++ namesEs ds
  | .ret _ v => namesEs v
  | .delete _ ts => namesEs ts
  | .assign _ ts v => namesEs ts ++ namesE v
  | .augAssign _ t _ v => namesE t ++ namesE v
  | .annAssign _ t a v _ => namesE t ++ namesE a ++ namesEs v
  | .for_ _ tg it b e x _ => namesE tg ++ namesE it ++ namesSs b ++ namesSs e ++ namesEs x
  | .while_ _ t b e => namesE t ++ namesSs b ++ namesSs e
  | .if_ _ t b e => namesE t ++ namesSs b ++ namesSs e
  | .with_ _ items b _ => namesEs items ++ namesSs b
  | .raise _ e c => namesEs e ++ namesEs c
  | .try_ _ b hs e f => namesSs b ++ namesSs hs ++ namesSs e ++ namesSs f
  | .handler _ ty nm b => namesEs ty ++ nm ++ namesSs b
  | .assert_ _ t m => namesE t ++ namesEs m
  | .import_ _ ns => ns.map fun p => if p.2 == "" then p.1 else p.2
  | .importFrom _ _ ns _ => ns.map fun p => if p.2 == "" then p.1 else p.2
  | .global _ ns => ns
  | .nonlocal _ ns => ns
  | .expr _ v => namesE v
  | .other _ _ es bs => namesEs es ++ namesSs bs
  | _ => []
def namesSs : List Stmt → List String
  | [] => []
  | s :: ss => namesS s ++ namesSs ss
end

/-- the index `k` with `s = tmpName k`, if `s` has the form of a temporary -/
def tempIdx (s : String) : Option Nat :=
  match s.toList with
  | 't' :: 'm' :: 'p' :: '_' :: rest =>
      (match (String.ofList rest).toNat? with
       | some m => if 1001 ≤ m && s == tmpName (m - 1001) then some (m - 1001) else none
       | none => none)
  | _ => none

/-- a name of the program is one of the temporaries this very transformation generates
(`DummyGensym` does not look at the program): it is overwritten / captured -/
def tempCaptured (cfg : Config) (s : Stmt) : Bool :=
  let n' := match visitS cfg s 0 [] with
    | .ok r => r.2.1
    | .error _ => 0
  (namesS s).any fun x => match tempIdx x with
    | some k => k < n'
    | none => false

/-- All hazard classes of a program under a configuration (duplicates removed). -/
def hazards (cfg : Config) (s : Stmt) : List String :=
  (hazS cfg s ++ (if tempCaptured cfg s then [H_TEMPNAME] else [])).eraseDups

/-- The hypothesis of `C18_sem_partial`. -/
def NoHazard (cfg : Config) (s : Stmt) : Prop := hazards cfg s = []

end Malt.Anf

namespace Malt.Anf
open Malt.Py

/-! ### Temporaries and A-normal form of statements -/

/-- The name assigned by a statement of the form `tmp_N = …`. -/
def tmpTarget : Stmt → List String
  | .assign _ [.name _ s .store] _ => if isTempName s then [s] else []
  | _ => []

mutual
/-- All assignments `tmp_N = …` of a statement, in program order (blocks included). -/
def tmpTargetsS : Stmt → List String
  | .assign i ts v => tmpTarget (.assign i ts v)
  | .functionDef _ _ _ b _ _ _ => tmpTargetsSs b
  | .classDef _ _ _ _ b _ => tmpTargetsSs b
  | .for_ _ _ _ b e _ _ => tmpTargetsSs b ++ tmpTargetsSs e
  | .while_ _ _ b e => tmpTargetsSs b ++ tmpTargetsSs e
  | .if_ _ _ b e => tmpTargetsSs b ++ tmpTargetsSs e
  | .with_ _ _ b _ => tmpTargetsSs b
  | .try_ _ b hs e f => tmpTargetsSs b ++ tmpTargetsSs hs ++ tmpTargetsSs e ++ tmpTargetsSs f
  | .handler _ _ _ b => tmpTargetsSs b
  | _ => []
def tmpTargetsSs : List Stmt → List String
  | [] => []
  | s :: ss => tmpTargetsS s ++ tmpTargetsSs ss
end

/-- A statement created by `_do_transform_node`: `tmp_(1001+k) = copy of x` with `x` in A-normal form. -/
def Gen (cfg : Config) (t : Stmt) : Prop := ∃ k x, t = tmpAssign k x ∧ quiet cfg x = true

mutual
/-- The statement is in A-normal form for the configuration: every expression the transformer visits is
`quiet` (it would not be touched again) and every position it inspects is `okChild`.  Generated assignments
hold the (context-adjusted) copy of such an expression. -/
def AnfS (cfg : Config) : Stmt → Prop
  | .ret _ v => quiets cfg v = true ∧ okChildren cfg "Return" "value" v = true
  | .raise _ e c =>
      quiets cfg e = true ∧ quiets cfg c = true ∧ okChildren cfg "Raise" "exc" e = true ∧ okChildren cfg "Raise" "cause" c = true
  | .delete _ ts => quiets cfg ts = true
  | .assign i ts v => (quiets cfg ts = true ∧ quiet cfg v = true) ∨ Gen cfg (.assign i ts v)
  | .augAssign _ t _ v => quiet cfg t = true ∧ quiet cfg v = true
  | .annAssign _ t a v _ => quiet cfg t = true ∧ quiet cfg a = true ∧ quiets cfg v = true
  | .expr _ v => quiet cfg v = true
  | .if_ _ t b e => quiet cfg t = true ∧ okChild cfg "If" "test" t = true ∧ AnfSs cfg b ∧ AnfSs cfg e
  | .for_ _ tg it b e _ _ =>
      quiet cfg tg = true ∧ quiet cfg it = true ∧ okChild cfg "For" "iter" it = true ∧ AnfSs cfg b ∧ AnfSs cfg e
  | .while_ _ t b e => quiet cfg t = true ∧ okChild cfg "While" "test" t = true ∧ AnfSs cfg b ∧ AnfSs cfg e
  | .with_ _ items b _ => quiets cfg items = true ∧ okChildren cfg "With" "items" items = true ∧ AnfSs cfg b
  | .assert_ _ t m =>
      quiet cfg t = true ∧ quiets cfg m = true ∧ okChild cfg "Assert" "test" t = true ∧ okChildren cfg "Assert" "msg" m = true
  | .functionDef _ _ as b ds rs _ => quiet cfg as = true ∧ AnfSs cfg b ∧ quiets cfg ds = true ∧ quiets cfg rs = true
  | .classDef _ _ bs ks b ds => quiets cfg bs = true ∧ quiets cfg ks = true ∧ AnfSs cfg b ∧ quiets cfg ds = true
  | .try_ _ b hs e f => AnfSs cfg b ∧ AnfSs cfg hs ∧ AnfSs cfg e ∧ AnfSs cfg f
  | .handler _ ty _ b => quiets cfg ty = true ∧ AnfSs cfg b
  | _ => True
def AnfSs (cfg : Config) : List Stmt → Prop
  | [] => True
  | s :: ss => AnfS cfg s ∧ AnfSs cfg ss
end

/-- No identifier of the program has the form of a temporary. -/
def NoTempNames (s : Stmt) : Prop := ∀ x ∈ namesS s, isTempName x = false

end Malt.Anf

namespace Malt.Anf
open Malt.Py

/-! ### Which expressions the transformer accepts
Strict constructs are accepted when their children are; the lazy constructs (`and`/`or`, `if`-expression,
`lambda`, `await`, `yield from`, f-strings) only when visiting them creates no statement at all (`quiet`);
comprehensions, chained comparisons and node kinds outside the model never. -/
mutual
def acceptsE (cfg : Config) : Expr → Bool
  | .name .. => true
  | .const .. => true
  | .noneMarker => true
  | .attr _ v _ _ => acceptsE cfg v
  | .subscript _ v s _ => acceptsE cfg v && acceptsE cfg s
  | .call _ f as ks => acceptsE cfg f && acceptsEs cfg as && acceptsEs cfg ks
  | .keyword _ _ _ v => acceptsE cfg v
  | .boolop i a vs => quiet cfg (.boolop i a vs)
  | .unary _ _ e => acceptsE cfg e
  | .binop _ op l r => !(op == "MatMult" && shouldTransform cfg "BinOp" "op" "MatMult") && acceptsE cfg l && acceptsE cfg r
  | .compare _ l ops rs => !(ops.length > 1) && acceptsE cfg l && acceptsEs cfg rs
  | .ifexp i t b e => quiet cfg (.ifexp i t b e)
  | .lambda i as b => quiet cfg (.lambda i as b)
  | .seq _ _ es _ => acceptsEs cfg es
  | .starred _ v _ => acceptsE cfg v
  | .namedexpr _ t v => acceptsE cfg t && acceptsE cfg v
  | .comp .. => false
  | .comprehension _ t it ifs _ => acceptsE cfg t && acceptsE cfg it && acceptsEs cfg ifs
  | .arguments _ po ar va ko kd kw df =>
      acceptsEs cfg po && acceptsEs cfg ar && acceptsEs cfg va && acceptsEs cfg ko && acceptsEs cfg kd
        && acceptsEs cfg kw && acceptsEs cfg df
  | .arg _ _ an => acceptsEs cfg an
  | .withitem _ ce ov => acceptsE cfg ce && acceptsEs cfg ov
  | .other i k ats ks =>
      if k == "Dict" || k == "Slice" || k == "Yield" then acceptsEs cfg ks
      else quiet cfg (.other i k ats ks)
def acceptsEs (cfg : Config) : List Expr → Bool
  | [] => true
  | e :: es => acceptsE cfg e && acceptsEs cfg es
end

end Malt.Anf

namespace Malt.Anf
open Malt.Py

/-! ### The fragment for which semantic preservation is proved (`C18_sem_partial`)
Expressions: variables, constants, attribute / item loads, calls with positional arguments, unary / binary
operators, single comparisons, tuple / list / set displays without `*`, and `x := e`. -/
mutual
/-- no `:=` inside (outside lambdas / comprehensions, which have their own evaluation) -/
def noWalrus : Expr → Bool
  | .namedexpr .. => false
  | .attr _ v _ _ => noWalrus v
  | .subscript _ v s _ => noWalrus v && noWalrus s
  | .call _ f as ks => noWalrus f && noWalruss as && noWalruss ks
  | .keyword _ _ _ v => noWalrus v
  | .boolop _ _ vs => noWalruss vs
  | .unary _ _ e => noWalrus e
  | .binop _ _ l r => noWalrus l && noWalrus r
  | .compare _ l _ rs => noWalrus l && noWalruss rs
  | .ifexp _ t b e => noWalrus t && noWalrus b && noWalrus e
  | .seq _ _ es _ => noWalruss es
  | .starred _ v _ => noWalrus v
  | .withitem _ c v => noWalrus c && noWalruss v
  | .other _ _ _ ks => noWalruss ks
  | _ => true
def noWalruss : List Expr → Bool
  | [] => true
  | e :: es => noWalrus e && noWalruss es
end

/-! The nodes that carry an expression context (attribute, subscript, display) must not contain `:=`:
the copy made when such a node is hoisted gets Load context everywhere, which would turn the `:=` target
into a read (finding `walrus_target_context_clobbered_by_hoisted_copy`). -/
mutual
def fragE : Expr → Bool
  | .name .. => true
  | .const .. => true
  | .attr _ v _ _ => fragE v && noWalrus v
  | .subscript _ v s _ => fragE v && fragE s && noWalrus v && noWalrus s
  | .call _ f as ks => fragE f && fragEs as && ks.isEmpty
  | .unary _ _ e => fragE e
  | .binop _ _ l r => fragE l && fragE r
  | .compare _ l ops rs => fragE l && fragEs rs && ops.length == 1 && rs.length == 1
  | .seq _ _ es _ => fragEs es && noWalruss es
  | .namedexpr _ (.name _ _ .store) v => fragE v
  | _ => false
def fragEs : List Expr → Bool
  | [] => true
  | e :: es => fragE e && fragEs es
end

end Malt.Anf

namespace Malt.Anf
open Malt.Py

/-! ### The hypothesis of `C18_sem_partial` (stricter than `hazards = []`)
For every node and every operand `cᵢ`: either no later operand is overtaken by anything (`notMoved`: visiting
it creates no statement, and it is hoisted only if `cᵢ` is), or what is left of `cᵢ` after the visit is *pure*
(`resPure`: no call and no `:=` remains in place — variables, constants, attribute / item loads, operators,
displays of such) and no later operand rebinds a variable `cᵢ` mentions.  This is the negation of the classes
`operand_effect_reordered_after_later_operand` / `name_read_reordered_after_rebinding_operand`, except that the
classifier also tolerates an effectful `cᵢ` overtaken by a *pure* later operand (not proved). -/
def atomStay (cfg : Config) (pk fld : String) : Expr → Bool
  | .name i s c => okChild cfg pk fld (.name i s c)
  | .const i k r => okChild cfg pk fld (.const i k r)
  | _ => false

def notMoved (cfg : Config) (pk : String) (hoistedI : Bool) (kj : String × Expr) : Bool :=
  quiet cfg kj.2 && (okChild cfg pk kj.1 kj.2 || hoistedI)

def pairOkT (cfg : Config) (pk : String) (ki : String × Expr) (rest : List (String × Expr)) : Bool :=
  rest.all (notMoved cfg pk (!okChild cfg pk ki.1 ki.2))
    || (resPure cfg ki.2 && disjoint (namesE ki.2) (writesEs (rest.map (·.2))))

def pairsOkT (cfg : Config) (pk : String) : List (String × Expr) → Bool
  | [] => true
  | k :: rest => pairOkT cfg pk k rest && pairsOkT cfg pk rest

mutual
/-- no evaluation-order hazard inside a fragment expression -/
def okT (cfg : Config) : Expr → Bool
  | .attr _ v _ _ => okT cfg v
  | .subscript _ v s _ => okT cfg v && okT cfg s && pairsOkT cfg "Subscript" [("value", v), ("slice", s)]
  | .call _ f as _ => okT cfg f && okTs cfg as && pairsOkT cfg "Call" (("func", f) :: tag "args" as)
  | .unary _ _ e => okT cfg e
  | .binop _ _ l r => okT cfg l && okT cfg r && pairsOkT cfg "BinOp" [("left", l), ("right", r)]
  | .compare _ l _ rs => okT cfg l && okTs cfg rs && pairsOkT cfg "Compare" (("left", l) :: tag "comparators" rs)
  | .seq _ .set es _ => okTs cfg es && pairsOkT cfg "Set" (tag "elts" es)
  | .seq _ .tuple es c => okTs cfg es && c != .store && pairsOkT cfg "Tuple" (tag "elts" es)
  | .seq _ .list es c => okTs cfg es && c != .store && pairsOkT cfg "List" (tag "elts" es)
  | .namedexpr _ _ v => okT cfg v
  | _ => true
def okTs (cfg : Config) : List Expr → Bool
  | [] => true
  | e :: es => okT cfg e && okTs cfg es
end

end Malt.Anf

namespace Malt.Anf
open Malt.Py

/-! Statements and functions of the fragment of `C18_sem_partial` (hazard-freedom `okT` included). -/
def isNameT : Expr → Bool
  | .name .. => true
  | _ => false

/-- `except:` or `except Name:` -/
def handlerTypeOk : List Expr → Bool
  | [] => true
  | [t] => isNameT t
  | _ => false

def isSingleName : List Expr → Bool
  | [t] => isNameT t
  | _ => false

/-- assignment targets of the fragment: a variable, `o.a`, `o[s]` (object / index in the expression fragment),
or a tuple / list of variables -/
def tgtOk : Expr → Bool
  | .name .. => true
  | .attr _ o _ _ => fragE o
  | .subscript _ o s _ => fragE o && fragE s
  | .seq _ k es c => k != .set && c == .store && es.all isNameT
  | _ => false

/-- `del` targets of the fragment -/
def delOk : Expr → Bool
  | .name .. => true
  | .attr _ o _ _ => fragE o
  | .subscript _ o s _ => fragE o && fragE s
  | _ => false

/-- parameters without defaults and annotations -/
def plainParams : Expr → Bool
  | .arguments _ po ar va ko kd kw df =>
      df.isEmpty && kd.all (fun e => match e with | .noneMarker => true | _ => false)
        && (po ++ ar ++ va ++ ko ++ kw).all (fun a => match a with | .arg _ _ an => an.isEmpty | _ => false)
  | _ => false

mutual
def fragS (cfg : Config) : Stmt → Bool
  -- `ts = v`: the targets need no statement (else: class `store_target_evaluated_before_value`)
  | .assign _ ts v => !ts.isEmpty && ts.all tgtOk && quiets cfg ts && fragE v && okT cfg v
  -- `x op= v`: `v` must not rebind `x` (else: class `name_read_reordered_after_rebinding_operand`)
  | .augAssign _ t _ v => isNameT t && fragE v && okT cfg v && disjoint (namesE t) (writesE v)
  | .expr _ v => fragE v && okT cfg v
  | .ret _ vs => (match vs with | [] => true | [v] => fragE v && okT cfg v | _ => false)
  | .raise _ exc cause => (match exc with | [e] => fragE e && okT cfg e | _ => false) && cause.isEmpty
  | .if_ _ t b e => fragE t && okT cfg t && fragSs cfg b && fragSs cfg e
  | .for_ _ tg it b e _ isAsync => isNameT tg && !isAsync && fragE it && okT cfg it && fragSs cfg b && fragSs cfg e
  | .try_ _ b hs e f => fragSs cfg b && fragHs cfg hs && fragSs cfg e && fragSs cfg f
  -- a nested `def` without defaults / annotations / decorators whose body is in the fragment
  | .functionDef _ _ as b ds rs _ => plainParams as && quiet cfg as && ds.isEmpty && rs.isEmpty && fragSs cfg b
  -- `del` of variables / attributes / items whose object and index need no statement
  | .delete _ ts => ts.all delOk && quiets cfg ts
  -- `assert` is only accepted when nothing has to be hoisted out of it
  | .assert_ _ t m => fragE t && (match m with | [] => true | [x] => fragE x | _ => false)
  | .global .. => true
  | .nonlocal .. => true
  | .pass _ => true
  | .break_ _ => true
  | .continue_ _ => true
  | _ => false
def fragSs (cfg : Config) : List Stmt → Bool
  | [] => true
  | s :: ss => fragS cfg s && fragSs cfg ss
/-- handlers `except:` / `except Name:` (no `as`) with bodies in the fragment -/
def fragHs (cfg : Config) : List Stmt → Bool
  | [] => true
  | .handler _ ty nm b :: hs => handlerTypeOk ty && nm.isEmpty && fragSs cfg b && fragHs cfg hs
  | _ :: _ => false
end

/-- `def f(params): body`: parameters, decorators and return annotation need no statement (decorators are not
part of what `runFn` executes); body in the fragment. -/
def fragFn (cfg : Config) : Stmt → Bool
  | .functionDef _ _ as b ds rs _ => quiet cfg as && quiets cfg ds && quiets cfg rs && fragSs cfg b
  | _ => false

end Malt.Anf
