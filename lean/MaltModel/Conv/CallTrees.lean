import MaltModel.Conv.Tmpl
/-
`Conv.CallTrees` — mirror of `malt/converters/call_trees.py` (`CallTreeTransformer`).

`visit_Call`: the callee's qualified name is read from the ORIGINAL node, then `generic_visit` (callee,
arguments and keyword values are visited: nested calls are reached), then
  * `ag__.*`, `<function context>.*`, `pdb.set_trace` / `ipdb.set_trace` / `breakpoint`, and `print` when
    BUILTIN_FUNCTIONS is off: the call is kept (with visited children);
  * otherwise `ag__.converted_call(func, <args tuple>, <kwargs dict or None>, <function context>)` with
    `f(*a, b, *c, d, e)` packed as `tuple(a) + (b,) + tuple(c) + (d, e)` and keywords as `dict(k=v, **kw)`.
`visit_With`: only the body is visited — calls in with-item expressions stay native (documented).
`visit_FunctionDef`: decorators, defaults and kw_defaults are visited in the ENCLOSING function's context,
the body and the return annotation in the function's own (annotation `function_context_name`, here
`fn_ctx_name`, set by the functions converter).  `visit_Lambda`: a lambda carrying the annotation opens its
own context for all its children (incl. its defaults); one without it is visited generically.
-/
namespace Malt.Conv.CallTrees
open Malt.Py Malt.Conv

structure Env where
  ctxOf : Nat → Option String      -- `function_context_name` annotation of FunctionDef / Lambda `id`
  builtinsOn : Bool                -- `options.uses(Feature.BUILTIN_FUNCTIONS)`

def debuggers : List String := ["pdb.set_trace", "ipdb.set_trace", "breakpoint"]

/-- The four early returns of `visit_Call`, on `full_name = str(anno.getanno(node.func, anno.Basic.QN, default=''))`.
A callee without QN gives `''`, which passes none of the tests (`''.startswith(p)` is False for the non-empty
prefixes `'ag__.'` and `ctx + '.'`): `none ↦ false`. -/
def keep (env : Env) (ctx : String) : Option String → Bool
  | none => false
  | some full =>
      startsWith full "ag__." || startsWith full (ctx ++ ".") || debuggers.contains full
        || (full == "print" && !env.builtinsOn)

/-! `_ArgTemplateBuilder` -/
def consume (acc : List Expr) (spec : List Expr) : List Expr :=
  if acc.isEmpty then spec else spec ++ [.seq 0 .tuple acc .load]

/-- `for a in node.args: add_stararg / add_arg`, then `finalize`: the list `_argspec`. -/
def argSpec (acc spec : List Expr) : List Expr → List Expr
  | [] => consume acc spec
  | .starred _ v _ :: rest => argSpec [] (consume acc spec ++ [.call 0 (nm "tuple") [v] []]) rest
  | a :: rest => argSpec (acc ++ [a]) spec rest

def addAll (r : Expr) : List Expr → Expr
  | [] => r
  | x :: xs => addAll (.binop 0 "Add" r x) xs

/-- `to_ast` -/
def argsToTuple (args : List Expr) : Expr :=
  match argSpec [] [] args with
  | [] => .seq 0 .tuple [] .load
  | x :: xs => addAll x xs

/-- `_kwargs_to_dict` -/
def kwargsToDict (kws : List Expr) : Expr :=
  if kws.isEmpty then noneConst else .call 0 (nm "dict") [] kws

def convertedCall (ctx : String) (f : Expr) (args kws : List Expr) : Expr :=
  .call 0 (ag "converted_call") [tmplArg f, tmplArg (argsToTuple args), tmplArg (kwargsToDict kws), nm ctx] []

mutual
def visitE (env : Env) (ctx : String) : Expr → Expr
  | .call i f as ks =>
      let full := qnStr f
      let f' := visitE env ctx f
      let as' := visitEs env ctx as
      let ks' := visitEs env ctx ks
      if keep env ctx full then .call i f' as' ks' else convertedCall ctx f' as' ks'
  | .lambda i as b =>
      let c := (env.ctxOf i).getD ctx
      .lambda i (visitE env c as) (visitE env c b)
  | .name i s c => .name i s c
  | .const i k r => .const i k r
  | .attr i v a c => .attr i (visitE env ctx v) a c
  | .subscript i v s c => .subscript i (visitE env ctx v) (visitE env ctx s) c
  | .keyword i a has v => .keyword i a has (visitE env ctx v)
  | .boolop i b vs => .boolop i b (visitEs env ctx vs)
  | .unary i op e => .unary i op (visitE env ctx e)
  | .binop i op l r => .binop i op (visitE env ctx l) (visitE env ctx r)
  | .compare i l ops rs => .compare i (visitE env ctx l) ops (visitEs env ctx rs)
  | .ifexp i t b e => .ifexp i (visitE env ctx t) (visitE env ctx b) (visitE env ctx e)
  | .seq i k es c => .seq i k (visitEs env ctx es) c
  | .starred i v c => .starred i (visitE env ctx v) c
  | .namedexpr i t v => .namedexpr i (visitE env ctx t) (visitE env ctx v)
  | .comp i k es gs => .comp i k (visitEs env ctx es) (visitEs env ctx gs)
  | .comprehension i t it ifs a => .comprehension i (visitE env ctx t) (visitE env ctx it) (visitEs env ctx ifs) a
  | .arguments i a b c d e f g =>
      .arguments i (visitEs env ctx a) (visitEs env ctx b) (visitEs env ctx c) (visitEs env ctx d)
        (visitEs env ctx e) (visitEs env ctx f) (visitEs env ctx g)
  | .arg i n an => .arg i n (visitEs env ctx an)
  | .withitem i c v => .withitem i (visitE env ctx c) (visitEs env ctx v)
  | .noneMarker => .noneMarker
  | .other i k ats ks => .other i k ats (visitEs env ctx ks)
def visitEs (env : Env) (ctx : String) : List Expr → List Expr
  | [] => []
  | e :: es => visitE env ctx e :: visitEs env ctx es
end

/-- `visit_FunctionDef` touches only `defaults` and `kw_defaults` of the arguments. -/
def visitDefaults (env : Env) (ctx : String) : Expr → Expr
  | .arguments i po ar va ko kd kw df => .arguments i po ar va ko (visitEs env ctx kd) kw (visitEs env ctx df)
  | a => a

mutual
def visitS (env : Env) (ctx : String) : Stmt → Stmt
  | .functionDef i n as b ds rs isA =>
      if isA then
        -- no visit_AsyncFunctionDef: generic_visit in the current context
        .functionDef i n (visitE env ctx as) (visitB env ctx b) (visitEs env ctx ds) (visitEs env ctx rs) isA
      else
        let c := (env.ctxOf i).getD ctx       -- the code asserts the annotation exists (`wellAnnotated`)
        .functionDef i n (visitDefaults env ctx as) (visitB env c b) (visitEs env ctx ds) (visitEs env c rs) isA
  | .with_ i its b isA =>
      if isA then .with_ i (visitEs env ctx its) (visitB env ctx b) isA     -- AsyncWith: generic_visit
      else .with_ i its (visitB env ctx b) isA
  | .classDef i n bs ks b ds => .classDef i n (visitEs env ctx bs) (visitEs env ctx ks) (visitB env ctx b) (visitEs env ctx ds)
  | .ret i v => .ret i (visitEs env ctx v)
  | .delete i ts => .delete i (visitEs env ctx ts)
  | .assign i ts v => .assign i (visitEs env ctx ts) (visitE env ctx v)
  | .augAssign i t op v => .augAssign i (visitE env ctx t) op (visitE env ctx v)
  | .annAssign i t an v s => .annAssign i (visitE env ctx t) (visitE env ctx an) (visitEs env ctx v) s
  | .for_ i t it b e x isA => .for_ i (visitE env ctx t) (visitE env ctx it) (visitB env ctx b) (visitB env ctx e) x isA
  | .while_ i t b e => .while_ i (visitE env ctx t) (visitB env ctx b) (visitB env ctx e)
  | .if_ i t b e => .if_ i (visitE env ctx t) (visitB env ctx b) (visitB env ctx e)
  | .raise i e c => .raise i (visitEs env ctx e) (visitEs env ctx c)
  | .try_ i b hs e f => .try_ i (visitB env ctx b) (visitB env ctx hs) (visitB env ctx e) (visitB env ctx f)
  | .handler i t n b => .handler i (visitEs env ctx t) n (visitB env ctx b)
  | .assert_ i t m => .assert_ i (visitE env ctx t) (visitEs env ctx m)
  | .import_ i ns => .import_ i ns
  | .importFrom i m ns l => .importFrom i m ns l
  | .global i ns => .global i ns
  | .nonlocal i ns => .nonlocal i ns
  | .expr i v => .expr i (visitE env ctx v)
  | .pass i => .pass i
  | .break_ i => .break_ i
  | .continue_ i => .continue_ i
  | .other i k es bs => .other i k (visitEs env ctx es) (visitB env ctx bs)
def visitB (env : Env) (ctx : String) : List Stmt → List Stmt
  | [] => []
  | s :: ss => visitS env ctx s :: visitB env ctx ss
end

/-! The `assert anno.hasanno(node, 'function_context_name')` of `visit_FunctionDef`, for every (sync) def. -/
mutual
def wellAnnotated (env : Env) : Stmt → Bool
  | .functionDef i _ _ b _ _ isA => (isA || (env.ctxOf i).isSome) && wellAnnotatedB env b
  | .classDef _ _ _ _ b _ => wellAnnotatedB env b
  | .for_ _ _ _ b e _ _ => wellAnnotatedB env b && wellAnnotatedB env e
  | .while_ _ _ b e => wellAnnotatedB env b && wellAnnotatedB env e
  | .if_ _ _ b e => wellAnnotatedB env b && wellAnnotatedB env e
  | .with_ _ _ b _ => wellAnnotatedB env b
  | .try_ _ b hs e f => wellAnnotatedB env b && wellAnnotatedB env hs && wellAnnotatedB env e && wellAnnotatedB env f
  | .handler _ _ _ b => wellAnnotatedB env b
  | .other _ _ _ bs => wellAnnotatedB env bs
  | _ => true
def wellAnnotatedB (env : Env) : List Stmt → Bool
  | [] => true
  | s :: ss => wellAnnotated env s && wellAnnotatedB env ss
end

/-! `visit_FunctionDef` never visits the parameters themselves (`posonlyargs`, `args`, `vararg`, `kwonlyargs`,
`kwarg`), only `defaults` / `kw_defaults`: a call inside a PARAMETER ANNOTATION of a nested `def` stays native
(known finding C04-param-annotation-call).  `plainParams`: no parameter of any nested synchronous `def`
carries an annotation — the hypothesis of `C04_calls_routed_partial`. -/
def isPlainArg : Expr → Bool
  | .arg _ _ an => an.isEmpty
  | _ => false

def plainArgs : Expr → Bool
  | .arguments _ po ar va ko _ kw _ => (po ++ ar ++ va ++ ko ++ kw).all isPlainArg
  | _ => false

mutual
def plainParams : Stmt → Bool
  | .functionDef _ _ as b _ _ isA => (isA || plainArgs as) && plainParamsB b
  | .classDef _ _ _ _ b _ => plainParamsB b
  | .for_ _ _ _ b e _ _ => plainParamsB b && plainParamsB e
  | .while_ _ _ b e => plainParamsB b && plainParamsB e
  | .if_ _ _ b e => plainParamsB b && plainParamsB e
  | .with_ _ _ b _ => plainParamsB b
  | .try_ _ b hs e f => plainParamsB b && plainParamsB hs && plainParamsB e && plainParamsB f
  | .handler _ _ _ b => plainParamsB b
  | .other _ _ _ bs => plainParamsB bs
  | _ => true
def plainParamsB : List Stmt → Bool
  | [] => true
  | s :: ss => plainParams s && plainParamsB ss
end

def envOfTable (t : AnnoTable) (builtinsOn : Bool) : Env :=
  { ctxOf := fun i => t.str i "fn_ctx_name", builtinsOn := builtinsOn }

end Malt.Conv.CallTrees
