import MaltModel.Conv.JumpCommon
/-
Syntactic models of `malt/converters/return_statements.py`:
`ConditionalReturnRewriter` (namespace `Rewriter`) and `ReturnStatementsTransformer` (namespace `Lower`).

### ConditionalReturnRewriter
`self.state[_RewriteBlock].definitely_returns` per statement block; `visit_Return` sets it for the innermost
block; `_postprocess_statement` sets it when the statement carries STMT_DEFINITELY_RETURNS (a `with` whose body
definitely returns), and reroutes the rest of the block into `node.orelse` (resp. `node.body`) of an `if` whose
body (resp. orelse) definitely returns.  A visit returns the flags the post-processing reads:
`dr` (sets the enclosing block's flag), `bodyDR`/`orelseDR` (the two `If` annotations).

### ReturnStatementsTransformer
`self.state[_Block]` — per statement block `(is_function, return_used, create_guard_now, create_guard_next)`;
`visit_Return` sets `return_used` and `create_guard_next` on all blocks up to and including the function's.
A visit returns `hit` = "a `return` of the current function was visited inside"; `visitBlk` carries
`create_guard_now` (`guard`) and `return_used` (`used`) of its block.  Loops: the test / EXTRA_LOOP_TEST is
extended with `not do_return and …` when `return_used` of the block CONTAINING the loop is set after visiting
the loop body (so also when an earlier statement of that block contained a return).
`visit_Try` wraps the visited `orelse` in `if not do_return:` when the try body lexically contains a `return` of
the current function (`_has_own_return`).
`self.state[_Function]` — `(do_return_var_name, retval_var_name)` per `FunctionDef`; both names come from
`new_symbol` on entering the function (`do_return` first), before its body is visited.
-/
namespace Malt.Conv.Return
open Malt.Py Malt.Conv.Jump

namespace Rewriter

structure Info where
  dr : Bool := false        -- the statement makes its block definitely return
  bodyDR : Bool := false    -- BODY_DEFINITELY_RETURNS (If)
  orelseDR : Bool := false  -- ORELSE_DEFINITELY_RETURNS (If)

/-- Append the rest of the block to the destination chosen by `_postprocess_statement`. -/
def reroute (s : Stmt) (info : Info) (rest : List Stmt) : Option Stmt :=
  match s with
  | .if_ i test body orelse =>
      if info.bodyDR then some (.if_ i test body (orelse ++ rest))
      else if info.orelseDR then some (.if_ i test (body ++ rest) orelse)
      else none
  | _ => none

mutual
/-- `self.visit(stmt)` (every visitor of this transformer returns a single node). -/
def visitS : Stmt → Stmt × Info
  | .ret i v => (.ret i v, { dr := true })
  | .while_ i test body orelse =>
      let (body', _) := visitBlk body
      let (orelse', _) := visitBlk orelse
      (.while_ i test body' orelse', {})
  | .for_ i target iter body orelse extra false =>
      let (body', _) := visitBlk body
      let (orelse', _) := visitBlk orelse
      (.for_ i target iter body' orelse' extra false, {})
  | .with_ i items body false =>
      let (body', d) := visitBlk body
      -- STMT_DEFINITELY_RETURNS, read back by _postprocess_statement
      (.with_ i items body' false, { dr := d })
  | .try_ i body handlers orelse finalbody =>
      let (body', _) := visitBlk body
      let (orelse', _) := visitBlk orelse
      let (finalbody', _) := visitBlk finalbody
      let (handlers', _) := visitGen handlers
      (.try_ i body' handlers' orelse' finalbody', {})
  | .handler i ty nm body =>
      let (body', _) := visitBlk body
      (.handler i ty nm body', {})
  | .if_ i test body orelse =>
      let (body', b) := visitBlk body
      let (orelse', o) := visitBlk orelse
      (.if_ i test body' orelse', { dr := b && o, bodyDR := b, orelseDR := o })
  | .functionDef i nm args body decs rets false =>
      let (body', _) := visitBlk body
      (.functionDef i nm args body' decs rets false, {})
  -- generic_visit: statement lists without a _RewriteBlock entry; a `return` inside marks the enclosing block
  | .functionDef i nm args body decs rets true =>
      let (body', d) := visitGen body
      (.functionDef i nm args body' decs rets true, { dr := d })
  | .for_ i target iter body orelse extra true =>
      let (body', d1) := visitGen body
      let (orelse', d2) := visitGen orelse
      (.for_ i target iter body' orelse' extra true, { dr := d1 || d2 })
  | .with_ i items body true =>
      let (body', d) := visitGen body
      (.with_ i items body' true, { dr := d })
  | .classDef i nm bases kws body decs =>
      let (body', d) := visitGen body
      (.classDef i nm bases kws body' decs, { dr := d })
  | .other i k es blocks =>
      let (blocks', d) := visitGen blocks
      (.other i k es blocks', { dr := d })
  | s => (s, {})
/-- `_visit_statement_block`: `(new block, block_definitely_returns)`. -/
def visitBlk : List Stmt → List Stmt × Bool
  | [] => ([], false)
  | s :: rest =>
      let (s', info) := visitS s
      let (rest', d) := visitBlk rest
      match reroute s' info rest' with
      | some s'' => ([s''], info.dr || d)
      | none => (s' :: rest', info.dr || d)
/-- the list case of `generic_visit`: no block entry (flags go to the enclosing block), no post-processing -/
def visitGen : List Stmt → List Stmt × Bool
  | [] => ([], false)
  | s :: rest =>
      let (s', info) := visitS s
      let (rest', d) := visitGen rest
      (s' :: rest', info.dr || d)
end

def run (root : Stmt) : Stmt := (visitS root).1

end Rewriter

namespace Lower

/-- The names of the current function (`self.state[_Function]`); `none` outside any `FunctionDef`. -/
structure Fn where
  dr : String
  rv : String

def Fn.drName (f : Option Fn) : String := (f.map (·.dr)).getD "None"
def Fn.rvName (f : Option Fn) : String := (f.map (·.rv)).getD "None"

/-- `visit_Return`'s template. -/
def returnRepl (f : Option Fn) (value : List Expr) : Stmt :=
  let retval := match value with
    | v :: _ => subst .load v
    | [] => cNone
  .try_ 0
    [assignC (Fn.drName f) cTrue, .assign 0 [nameS (Fn.rvName f)] retval]
    [.handler 0 [] [] [assignC (Fn.drName f) cFalse, .raise 0 [] []]]
    [] []

/-- `ag__.UndefinedReturnValue()` -/
def undefinedReturnValue : Expr := .call 0 (.attr 0 (nameL "ag__") "UndefinedReturnValue" .load) [] []

/-- `return function_context.ret(retval, do_return)` -/
def finalReturn (fscope : String) (f : Fn) : Stmt :=
  .ret 0 [.call 0 (.attr 0 (nameL fscope) "ret" .load) [nameL f.rv, nameL f.dr] []]

/-- The function-level template applied to the body of the `with ag__.FunctionScope(...)` wrapper. -/
def wrapBody (fscope : String) (f : Fn) (body : List Stmt) : List Stmt :=
  [assignC f.dr cFalse, .assign 0 [nameS f.rv] undefinedReturnValue] ++ body ++ [finalReturn fscope f]

/-- Replace the body of the last statement (the `with` wrapper) of a function body.
`none` = the real code's assertion fails (last statement is not a `With`). -/
def wrapLast (fscope : String) (f : Fn) : List Stmt → Option (List Stmt)
  | [] => none
  | [.with_ i items body isAsync] =>
      if isAsync then none else some [.with_ i items (wrapBody fscope f body) isAsync]
  | [_] => none
  | s :: rest => (wrapLast fscope f rest).map (s :: ·)

structure Cfg where
  annos : AnnoTable
  allowMissingReturn : Bool := true

mutual
/-- `_has_own_return`: a `return` of the enclosing function occurs in the statements (nested `def`/`class` are
skipped; `body`, `orelse`, `finalbody` and the handlers' bodies of everything else are searched). -/
def hasOwnReturnS : Stmt → Bool
  | .ret _ _ => true
  | .functionDef .. => false
  | .classDef .. => false
  | .for_ _ _ _ body orelse _ _ => hasOwnReturnB body || hasOwnReturnB orelse
  | .while_ _ _ body orelse => hasOwnReturnB body || hasOwnReturnB orelse
  | .if_ _ _ body orelse => hasOwnReturnB body || hasOwnReturnB orelse
  | .with_ _ _ body _ => hasOwnReturnB body
  | .try_ _ body handlers orelse finalbody =>
      hasOwnReturnB body || hasOwnReturnB orelse || hasOwnReturnB finalbody || hasOwnReturnB handlers
  | .handler _ _ _ body => hasOwnReturnB body
  | _ => false
def hasOwnReturnB : List Stmt → Bool
  | [] => false
  | s :: rest => hasOwnReturnS s || hasOwnReturnB rest
end

mutual
/-- `self.visit(stmt)`: `(replacement, hit)`; `used` = `return_used` of the enclosing block before the visit. -/
def visitS (c : Cfg) (f : Option Fn) (used : Bool) : Stmt → NSt → (List Stmt × Bool) × NSt
  | .ret _ v, ns => (([returnRepl f v], true), ns)
  | .while_ i test body orelse, ns =>
      let ((body', h1), ns1) := visitBlk c f false false body ns
      let test' := if used || h1 then notAnd (Fn.drName f) test else test
      let ((orelse', h2), ns2) := visitBlk c f false false orelse ns1
      (([.while_ i test' body' orelse'], h1 || h2), ns2)
  | .for_ i target iter body orelse extra false, ns =>
      let ((body', h1), ns1) := visitBlk c f false false body ns
      let extra' :=
        if used || h1 then
          (match extra with
           | e :: _ => [notAnd (Fn.drName f) e]
           | [] => [notName (Fn.drName f)])
        else extra
      let ((orelse', h2), ns2) := visitBlk c f false false orelse ns1
      (([.for_ i target iter body' orelse' extra' false], h1 || h2), ns2)
  | .with_ i items body false, ns =>
      let ((body', h), ns1) := visitBlk c f false false body ns
      (([.with_ i items body' false], h), ns1)
  | .try_ i body handlers orelse finalbody, ns =>
      -- the else clause only runs if the try block ran to its end: a return inside the try block skips it
      let guardOrelse := !orelse.isEmpty && hasOwnReturnB body
      let ((body', h1), ns1) := visitBlk c f false false body ns
      let ((orelse0, h2), ns2) := visitBlk c f false false orelse ns1
      let orelse' := if guardOrelse then [ifNot (Fn.drName f) orelse0] else orelse0
      let ((finalbody', h3), ns3) := visitBlk c f false false finalbody ns2
      let ((handlers', h4), ns4) := visitGen c f used handlers ns3
      (([.try_ i body' handlers' orelse' finalbody'], h1 || h2 || h3 || h4), ns4)
  | .handler i ty nm body, ns =>
      let ((body', h), ns1) := visitBlk c f false false body ns
      (([.handler i ty nm body'], h), ns1)
  | .if_ i test body orelse, ns =>
      let ((body', h1), ns1) := visitBlk c f false false body ns
      let ((orelse', h2), ns2) := visitBlk c f false false orelse ns1
      (([.if_ i test body' orelse'], h1 || h2), ns2)
  | .functionDef i nm args body decs rets false, ns =>
      let reserved := bodyReserved c.annos i
      let (dr, ns1) := ns.fresh "do_return" reserved
      let (rv, ns2) := ns1.fresh "retval_" reserved
      let fn : Fn := { dr := dr, rv := rv }
      let ((body', h), ns3) := visitBlk c (some fn) false false body ns2
      let body'' :=
        if h then
          if c.allowMissingReturn then
            let fscope := (c.annos.str i "fn_ctx_name").getD "None"
            (wrapLast fscope fn body').getD body'
          else body' ++ [.ret 0 [nameL rv]]
        else body'
      -- a nested function's returns are its own: no hit for the enclosing blocks
      (([.functionDef i nm args body'' decs rets false], false), ns3)
  -- generic_visit: statement lists without a _Block entry
  | .functionDef i nm args body decs rets true, ns =>
      let ((body', h), ns1) := visitGen c f used body ns
      (([.functionDef i nm args body' decs rets true], h), ns1)
  | .for_ i target iter body orelse extra true, ns =>
      let ((body', h1), ns1) := visitGen c f used body ns
      let ((orelse', h2), ns2) := visitGen c f (used || h1) orelse ns1
      (([.for_ i target iter body' orelse' extra true], h1 || h2), ns2)
  | .with_ i items body true, ns =>
      let ((body', h), ns1) := visitGen c f used body ns
      (([.with_ i items body' true], h), ns1)
  | .classDef i nm bases kws body decs, ns =>
      let ((body', h), ns1) := visitGen c f used body ns
      (([.classDef i nm bases kws body' decs], h), ns1)
  | .other i k es blocks, ns =>
      let ((blocks', h), ns1) := visitGen c f used blocks ns
      (([.other i k es blocks'], h), ns1)
  | s, ns => (([s], false), ns)
/-- `_visit_statement_block`: `visit_block(nodes, after_visit=_postprocess_statement)` under a fresh `_Block`
entry; `guard` = `create_guard_now`, `used` = `return_used` of this block so far. -/
def visitBlk (c : Cfg) (f : Option Fn) (guard used : Bool) : List Stmt → NSt → (List Stmt × Bool) × NSt
  | [], ns => (([], false), ns)
  | s :: rest, ns =>
      let ((r, h), ns1) := visitS c f used s ns
      let used' := used || h
      if r.isEmpty then
        let ((rs, hr), ns2) := visitBlk c f guard used' rest ns1
        ((rs, h || hr), ns2)
      else if used' then
        let ((rs, hr), ns2) := visitBlk c f h used' rest ns1
        if guard then (([ifNot (Fn.drName f) (r ++ rs)], h || hr), ns2)
        else ((r ++ rs, h || hr), ns2)
      else
        let ((rs, hr), ns2) := visitBlk c f guard used' rest ns1
        ((r ++ rs, h || hr), ns2)
/-- the list case of `generic_visit` (the statements belong to the enclosing block: `used` is threaded) -/
def visitGen (c : Cfg) (f : Option Fn) (used : Bool) : List Stmt → NSt → (List Stmt × Bool) × NSt
  | [], ns => (([], false), ns)
  | s :: rest, ns =>
      let ((r, h), ns1) := visitS c f used s ns
      let ((rs, hr), ns2) := visitGen c f (used || h) rest ns1
      ((r ++ rs, h || hr), ns2)
end

def run (c : Cfg) (root : Stmt) (ns : NSt) : List Stmt × NSt :=
  let ((r, _), ns') := visitS c none false root ns
  (r, ns')

end Lower

end Malt.Conv.Return
