import MaltModel.Conv.Tmpl
/-
`Conv.Slices` — mirror of `malt/converters/slices.py` (`SliceTransformer`, runs under `Feature.LISTS`).

* `visit_Subscript` (after `generic_visit`): a Load-context subscript whose slice is neither a Tuple nor a
  Slice becomes `ag__.get_item(target, key, opts=ag__.GetItemOpts(element_dtype=<dtype>))`.  `<dtype>` is the
  `set_element_type` directive of the target's reaching definitions, `None` without one; the model covers
  the case without such a directive (the generators never emit `set_element_type`; with one the
  correspondence would report a disagreement, not silently pass).
* `visit_Assign` (after `generic_visit`): more than one target → NotImplementedError (for EVERY multiple
  assignment, subscript or not); a single Subscript target whose slice is not a Tuple →
  `target = ag__.set_item(target, key, item)` with `key` = the slice expression or
  `slice(lower|None, upper|None, step|None)`.
* `visit_AugAssign` (after `generic_visit`): Subscript target, slice neither Tuple nor Call, operator in
  {Mult, Add, Sub, Div, Pow} → `target = ag__.update_item_with_op(target, index, x, '<op>')`
  (an operator no module defines: known finding of C01 under LISTS).
-/
namespace Malt.Conv.Slices
open Malt.Py Malt.Conv

def isTuple : Expr → Bool
  | .seq _ .tuple _ _ => true
  | _ => false

def isSlice : Expr → Bool
  | .other _ k _ _ => k == "Slice"
  | _ => false

def isCall : Expr → Bool
  | .call .. => true
  | _ => false

/-- a bound of `slice(lower, upper, step)`: the literal `None` when absent -/
def bound : Expr → Expr
  | .noneMarker => noneConst
  | e => tmplArg e

/-- the `key` / `index` argument -/
def keyOf : Expr → Expr
  | .other i k ats ks =>
      if k == "Slice" then
        match ks with
        | [lo, up, st] => .call 0 (nm "slice") [bound lo, bound up, bound st] []
        | _ => tmplArg (.other i k ats ks)
      else tmplArg (.other i k ats ks)
  | e => tmplArg e

def getItem (v s : Expr) : Expr :=
  .call 0 (ag "get_item") [tmplArg v, tmplArg s]
    [.keyword 0 "opts" true (.call 0 (ag "GetItemOpts") [] [.keyword 0 "element_dtype" true noneConst])]

def postE : Expr → Expr
  | .subscript i v s .load => if isTuple s || isSlice s then .subscript i v s .load else getItem v s
  | e => e

def opName (op : String) : Option String :=
  if op == "Mult" then some "mult" else if op == "Add" then some "add" else if op == "Sub" then some "sub"
  else if op == "Div" then some "div" else if op == "Pow" then some "pow" else none

def postS : Stmt → List Stmt
  | .assign i [.subscript j tv ts c] v =>
      if isTuple ts then [.assign i [.subscript j tv ts c] v]
      else [.assign 0 [tmplArgCtx .store tv] (.call 0 (ag "set_item") [tmplArg tv, keyOf ts, tmplArg v] [])]
  | .augAssign i (.subscript j tv ts c) op v =>
      if isTuple ts || isCall ts then [.augAssign i (.subscript j tv ts c) op v]
      else match opName op with
        | none => [.augAssign i (.subscript j tv ts c) op v]
        | some o =>
            [.assign 0 [tmplArgCtx .store tv]
              (.call 0 (ag "update_item_with_op") [tmplArg tv, keyOf ts, tmplArg v, .const 0 "str" (pyRepr o)] [])]
  | s => [s]

def hooks : Hooks := { post := postE }
def shooks : SHooks := { post := postS }

mutual
/-- `raise NotImplementedError('multiple assignment')` somewhere in the tree -/
def hasMultiAssign : Stmt → Bool
  | .assign _ ts _ => ts.length != 1
  | .functionDef _ _ _ b _ _ _ => hasMultiAssignB b
  | .classDef _ _ _ _ b _ => hasMultiAssignB b
  | .for_ _ _ _ b e _ _ => hasMultiAssignB b || hasMultiAssignB e
  | .while_ _ _ b e => hasMultiAssignB b || hasMultiAssignB e
  | .if_ _ _ b e => hasMultiAssignB b || hasMultiAssignB e
  | .with_ _ _ b _ => hasMultiAssignB b
  | .try_ _ b hs e f => hasMultiAssignB b || hasMultiAssignB hs || hasMultiAssignB e || hasMultiAssignB f
  | .handler _ _ _ b => hasMultiAssignB b
  | .other _ _ _ bs => hasMultiAssignB bs
  | _ => false
def hasMultiAssignB : List Stmt → Bool
  | [] => false
  | s :: ss => hasMultiAssign s || hasMultiAssignB ss
end

def visitE (e : Expr) : Expr := mapE hooks e
def visitS (s : Stmt) : Option (List Stmt) := if hasMultiAssign s then none else some (mapS hooks shooks s)

end Malt.Conv.Slices
