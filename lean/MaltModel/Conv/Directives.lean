import MaltModel.Conv.Tmpl
/-
`Conv.Directives` — mirror of `malt/converters/directives.py` (`DirectivesTransformer`).

A directive call is an expression STATEMENT `f(...)` whose callee resolves *statically* to
`directives.set_loop_options` / `directives.set_element_type`.  The resolution walks the converted
function's namespace (`visit_Name`: not locally defined and in `ctx.info.namespace`; `visit_Attribute`:
attribute of a module value): it depends on live Python objects, so the harness reads the resolution
result off the real nodes after the pass and supplies it as annotation `static` on the callee
(`set_loop_options` | `set_element_type` | `other`); `orig_defs` (number of ORIG_DEFINITIONS) likewise.

State: the `_LoopScope` stack (root entry + one per enclosing loop), each with `statements_visited`,
incremented by every Assign / AugAssign / Expr statement visited (and by nothing else), in visit order
(a loop's `orelse` counts in the loop's scope; nested `def`s do not open a scope).

* `set_loop_options(...)`: ValueError if `statements_visited > 1` or not inside a loop; otherwise
  `_map_args` binds the argument NODES to parameter names (`inspect.getcallargs`: TypeError on arity /
  unknown / duplicate / `**` keywords), the map is stored in the loop's DIRECTIVES annotation and the
  statement is removed.  A loop body left empty becomes `[pass]`.
* `set_element_type(target, ...)`: ValueError without positional argument; the target must carry
  ORIG_DEFINITIONS (else the lookup raises); for each reaching definition `_map_args` is evaluated (so its
  TypeErrors only surface when there is at least one definition); the statement is removed.  The
  per-definition directive tables are not part of the tree and are not modelled.
-/
namespace Malt.Conv.Directives
open Malt.Py Malt.Conv

structure Env where
  staticOf : Nat → Option String     -- annotation `static` of the callee node
  origDefs : Nat → Option Nat        -- annotation `orig_defs` of a Name node: number of definitions

structure St where
  stack : List (Nat × Nat)                               -- (loop id, statements_visited), innermost first
  annos : List (Nat × String × List (String × Expr)) := []   -- DIRECTIVES set: (loop id, directive, arg map)
  deriving Inhabited

def St.bump (st : St) : St :=
  match st.stack with
  | (l, c) :: r => { st with stack := (l, c + 1) :: r }
  | [] => st

def loopParams : List String := ["parallel_iterations", "swap_memory", "maximum_iterations", "shape_invariants"]
def elemParams : List String := ["entity", "dtype", "shape"]

def bindKws (params : List String) (bound : List (String × Expr)) : List Expr → Except String (List (String × Expr))
  | [] => .ok bound
  | .keyword _ a has v :: rest =>
      if !has then .error "TypeError"                                   -- `**kw`: keywords must be strings
      else if !params.contains a then .error "TypeError"                -- unexpected keyword
      else if bound.any (fun p => p.1 == a) then .error "TypeError"     -- multiple values
      else bindKws params (bound ++ [(a, v)]) rest
  | _ :: _ => .error "TypeError"

/-- `_map_args`: `inspect.getcallargs(function, *arg_nodes, **kw_nodes)` minus the UNSPECIFIED defaults. -/
def mapArgs (params : List String) (nreq : Nat) (args kws : List Expr) : Except String (List (String × Expr)) :=
  if args.length > params.length then .error "TypeError"
  else match bindKws params (params.zip args) kws with
    | .error e => .error e
    | .ok bound =>
        if (params.take nreq).all (fun p => bound.any (fun q => q.1 == p)) then
          .ok (params.filterMap fun p => (bound.find? (fun q => q.1 == p)))
        else .error "TypeError"

/-- `visit_Expr` once the callee's static value is known. Returns `none` when the statement is kept. -/
def directive (env : Env) (st : St) : Expr → Option (Except String St)
  | .call _ f as ks =>
      match env.staticOf f.id with
      | some "set_element_type" => some (
          match as with
          | [] => .error "ValueError"
          | target :: _ =>
              match env.origDefs target.id with
              | none => .error "LookupError"
              | some 0 => .ok st
              | some _ => match mapArgs elemParams 2 as ks with
                  | .error e => .error e
                  | .ok _ => .ok st)
      | some "set_loop_options" => some (
          match st.stack with
          | (l, c) :: _ :: _ =>
              if c > 1 then .error "ValueError"
              else match mapArgs loopParams 0 as ks with
                | .error e => .error e
                | .ok m => .ok { st with annos := (st.annos.filter fun a => !(a.1 == l && a.2.1 == "set_loop_options"))
                                                   ++ [(l, "set_loop_options", m)] }
          | [(_, c)] => if c > 1 then .error "ValueError" else .error "ValueError"   -- level < 2
          | [] => .error "ValueError")
      | _ => none
  | _ => none

mutual
def visitS (env : Env) : Stmt → St → Except String (List Stmt × St)
  | .expr i v, st =>
      let st := st.bump
      match directive env st v with
      | some (.error e) => .error e
      | some (.ok st') => .ok ([], st')
      | none => .ok ([.expr i v], st)
  | .assign i ts v, st => .ok ([.assign i ts v], st.bump)
  | .augAssign i t op v, st => .ok ([.augAssign i t op v], st.bump)
  | .while_ i t b e, st =>
      match visitB env b { st with stack := (i, 0) :: st.stack } with
      | .error x => .error x
      | .ok (b', st1) => match visitB env e st1 with
        | .error x => .error x
        | .ok (e', st2) =>
            .ok ([.while_ i t (if b'.isEmpty then [.pass 0] else b') e'], { st2 with stack := st2.stack.tail })
  | .for_ i t it b e x isA, st =>
      if isA then
        match visitB env b st with
        | .error x => .error x
        | .ok (b', st1) => match visitB env e st1 with
          | .error x => .error x
          | .ok (e', st2) => .ok ([.for_ i t it b' e' x isA], st2)
      else
      match visitB env b { st with stack := (i, 0) :: st.stack } with
      | .error x => .error x
      | .ok (b', st1) => match visitB env e st1 with
        | .error x => .error x
        | .ok (e', st2) =>
            .ok ([.for_ i t it (if b'.isEmpty then [.pass 0] else b') e' x isA], { st2 with stack := st2.stack.tail })
  | .functionDef i n as b ds rs isA, st =>
      match visitB env b st with
      | .error x => .error x
      | .ok (b', st1) => .ok ([.functionDef i n as b' ds rs isA], st1)
  | .classDef i n bs ks b ds, st =>
      match visitB env b st with
      | .error x => .error x
      | .ok (b', st1) => .ok ([.classDef i n bs ks b' ds], st1)
  | .if_ i t b e, st =>
      match visitB env b st with
      | .error x => .error x
      | .ok (b', st1) => match visitB env e st1 with
        | .error x => .error x
        | .ok (e', st2) => .ok ([.if_ i t b' e'], st2)
  | .with_ i its b isA, st =>
      match visitB env b st with
      | .error x => .error x
      | .ok (b', st1) => .ok ([.with_ i its b' isA], st1)
  | .try_ i b hs e f, st =>
      match visitB env b st with
      | .error x => .error x
      | .ok (b', st1) => match visitB env hs st1 with
        | .error x => .error x
        | .ok (hs', st2) => match visitB env e st2 with
          | .error x => .error x
          | .ok (e', st3) => match visitB env f st3 with
            | .error x => .error x
            | .ok (f', st4) => .ok ([.try_ i b' hs' e' f'], st4)
  | .handler i t n b, st =>
      match visitB env b st with
      | .error x => .error x
      | .ok (b', st1) => .ok ([.handler i t n b'], st1)
  | .other i k es bs, st =>
      match visitB env bs st with
      | .error x => .error x
      | .ok (bs', st1) => .ok ([.other i k es bs'], st1)
  | s, st => .ok ([s], st)
def visitB (env : Env) : List Stmt → St → Except String (List Stmt × St)
  | [], st => .ok ([], st)
  | s :: ss, st =>
      match visitS env s st with
      | .error x => .error x
      | .ok (r, st1) => match visitB env ss st1 with
        | .error x => .error x
        | .ok (rs, st2) => .ok (r ++ rs, st2)
end

def run (env : Env) (root : Stmt) : Except String (List Stmt × St) := visitS env root { stack := [(0, 0)] }

end Malt.Conv.Directives
