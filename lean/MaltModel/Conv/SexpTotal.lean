import MaltModel.Py.Ast
/-
Total (structurally recursive, fuel-free) reader / printer between S-expression TREES and `Py.Ast`, in exactly the wire
format of `Py/SexpAst.lean` / harness/pyast.py.  `Py/SexpAst.lean` is `partial`; this file exists so that the round trip
`read (print t) = some t` is a theorem (Proofs/C17Roundtrip.lean) about the functions the C17 driver actually runs.
The text layer below it (`Sexp.parse` / `toString`, escaping) stays outside: it is exercised by harness/selftest_ast.py.
-/
set_option linter.unusedVariables false
namespace Malt.Conv.SexpTotal
open Malt Malt.Py

def pCtx : Ctx → Sexp
  | .load => .atom "Load" | .store => .atom "Store" | .del => .atom "Del"

def rCtx : Sexp → Option Ctx
  | .atom a => if a = "Load" then some .load else if a = "Store" then some .store else if a = "Del" then some .del else none
  | _ => none

def pPairs (ps : List (String × String)) : Sexp := .list (ps.map fun p => .list [.atom p.1, .atom p.2])

def rStrsL : List Sexp → Option (List String)
  | [] => some []
  | .atom a :: r => (rStrsL r).map (a :: ·)
  | _ :: _ => none

def rStrs : Sexp → Option (List String)
  | .list xs => rStrsL xs
  | _ => none

def rPairsL : List Sexp → Option (List (String × String))
  | [] => some []
  | .list [.atom a, .atom b] :: r => (rPairsL r).map ((a, b) :: ·)
  | _ :: _ => none

def rPairs : Sexp → Option (List (String × String))
  | .list xs => rPairsL xs
  | _ => none

mutual
def printE : Expr → Sexp
  | .noneMarker => .atom "NoneMarker"
  | .keyword i arg has v => .list [.atom "keyword", .atom (toString i), .list (if has then [.atom arg] else []), printE v]
  | .boolop i isAnd vs => .list [.atom "BoolOp", .atom (toString i), .atom (if isAnd then "And" else "Or"), .list (printEs vs)]
  | .seq i .tuple es c => .list [.atom "Tuple", .atom (toString i), .list (printEs es), pCtx c]
  | .seq i .list es c => .list [.atom "List", .atom (toString i), .list (printEs es), pCtx c]
  | .seq i .set es _ => .list [.atom "Set", .atom (toString i), .list (printEs es)]
  | .comp i .listComp es gs => .list [.atom "ListComp", .atom (toString i), .list (printEs es), .list (printEs gs)]
  | .comp i .setComp es gs => .list [.atom "SetComp", .atom (toString i), .list (printEs es), .list (printEs gs)]
  | .comp i .genExp es gs => .list [.atom "GeneratorExp", .atom (toString i), .list (printEs es), .list (printEs gs)]
  | .comp i .dictComp es gs => .list [.atom "DictComp", .atom (toString i), .list (printEs es), .list (printEs gs)]
  | .name i x0 x1 => .list [.atom "Name", .atom (toString i), .atom x0, pCtx x1]
  | .const i x0 x1 => .list [.atom "Constant", .atom (toString i), .atom x0, .atom x1]
  | .attr i x0 x1 x2 => .list [.atom "Attribute", .atom (toString i), printE x0, .atom x1, pCtx x2]
  | .subscript i x0 x1 x2 => .list [.atom "Subscript", .atom (toString i), printE x0, printE x1, pCtx x2]
  | .call i x0 x1 x2 => .list [.atom "Call", .atom (toString i), printE x0, .list (printEs x1), .list (printEs x2)]
  | .unary i x0 x1 => .list [.atom "UnaryOp", .atom (toString i), .atom x0, printE x1]
  | .binop i x0 x1 x2 => .list [.atom "BinOp", .atom (toString i), .atom x0, printE x1, printE x2]
  | .compare i x0 x1 x2 => .list [.atom "Compare", .atom (toString i), printE x0, .list (x1.map Sexp.atom), .list (printEs x2)]
  | .ifexp i x0 x1 x2 => .list [.atom "IfExp", .atom (toString i), printE x0, printE x1, printE x2]
  | .lambda i x0 x1 => .list [.atom "Lambda", .atom (toString i), printE x0, printE x1]
  | .starred i x0 x1 => .list [.atom "Starred", .atom (toString i), printE x0, pCtx x1]
  | .namedexpr i x0 x1 => .list [.atom "NamedExpr", .atom (toString i), printE x0, printE x1]
  | .comprehension i x0 x1 x2 x3 => .list [.atom "comprehension", .atom (toString i), printE x0, printE x1, .list (printEs x2), Sexp.ofBool x3]
  | .arguments i x0 x1 x2 x3 x4 x5 x6 => .list [.atom "arguments", .atom (toString i), .list (printEs x0), .list (printEs x1), .list (printEs x2), .list (printEs x3), .list (printEs x4), .list (printEs x5), .list (printEs x6)]
  | .arg i x0 x1 => .list [.atom "arg", .atom (toString i), .atom x0, .list (printEs x1)]
  | .withitem i x0 x1 => .list [.atom "withitem", .atom (toString i), printE x0, .list (printEs x1)]
  | .other i x0 x1 x2 => .list [.atom "Other", .atom (toString i), .atom x0, .list (x1.map Sexp.atom), .list (printEs x2)]
def printEs : List Expr → List Sexp
  | [] => []
  | e :: es => printE e :: printEs es
end

mutual
def printS : Stmt → Sexp
  | .functionDef i x0 x1 x2 x3 x4 x5 => .list [.atom "FunctionDef", .atom (toString i), .atom x0, printE x1, .list (printSs x2), .list (printEs x3), .list (printEs x4), Sexp.ofBool x5]
  | .classDef i x0 x1 x2 x3 x4 => .list [.atom "ClassDef", .atom (toString i), .atom x0, .list (printEs x1), .list (printEs x2), .list (printSs x3), .list (printEs x4)]
  | .ret i x0 => .list [.atom "Return", .atom (toString i), .list (printEs x0)]
  | .delete i x0 => .list [.atom "Delete", .atom (toString i), .list (printEs x0)]
  | .assign i x0 x1 => .list [.atom "Assign", .atom (toString i), .list (printEs x0), printE x1]
  | .augAssign i x0 x1 x2 => .list [.atom "AugAssign", .atom (toString i), printE x0, .atom x1, printE x2]
  | .annAssign i x0 x1 x2 x3 => .list [.atom "AnnAssign", .atom (toString i), printE x0, printE x1, .list (printEs x2), Sexp.ofBool x3]
  | .for_ i x0 x1 x2 x3 x4 x5 => .list [.atom "For", .atom (toString i), printE x0, printE x1, .list (printSs x2), .list (printSs x3), .list (printEs x4), Sexp.ofBool x5]
  | .while_ i x0 x1 x2 => .list [.atom "While", .atom (toString i), printE x0, .list (printSs x1), .list (printSs x2)]
  | .if_ i x0 x1 x2 => .list [.atom "If", .atom (toString i), printE x0, .list (printSs x1), .list (printSs x2)]
  | .with_ i x0 x1 x2 => .list [.atom "With", .atom (toString i), .list (printEs x0), .list (printSs x1), Sexp.ofBool x2]
  | .raise i x0 x1 => .list [.atom "Raise", .atom (toString i), .list (printEs x0), .list (printEs x1)]
  | .try_ i x0 x1 x2 x3 => .list [.atom "Try", .atom (toString i), .list (printSs x0), .list (printSs x1), .list (printSs x2), .list (printSs x3)]
  | .handler i x0 x1 x2 => .list [.atom "ExceptHandler", .atom (toString i), .list (printEs x0), .list (x1.map Sexp.atom), .list (printSs x2)]
  | .assert_ i x0 x1 => .list [.atom "Assert", .atom (toString i), printE x0, .list (printEs x1)]
  | .import_ i x0 => .list [.atom "Import", .atom (toString i), pPairs x0]
  | .importFrom i x0 x1 x2 => .list [.atom "ImportFrom", .atom (toString i), .atom x0, pPairs x1, .atom (toString x2)]
  | .global i x0 => .list [.atom "Global", .atom (toString i), .list (x0.map Sexp.atom)]
  | .nonlocal i x0 => .list [.atom "Nonlocal", .atom (toString i), .list (x0.map Sexp.atom)]
  | .expr i x0 => .list [.atom "Expr", .atom (toString i), printE x0]
  | .pass i  => .list [.atom "Pass", .atom (toString i)]
  | .break_ i  => .list [.atom "Break", .atom (toString i)]
  | .continue_ i  => .list [.atom "Continue", .atom (toString i)]
  | .other i x0 x1 x2 => .list [.atom "OtherStmt", .atom (toString i), .atom x0, .list (printEs x1), .list (printSs x2)]
def printSs : List Stmt → List Sexp
  | [] => []
  | s :: ss => printS s :: printSs ss
end

mutual
def readE : Sexp → Option Expr
  | .atom a => if a = "NoneMarker" then some .noneMarker else none
  | .list [] => none
  | .list [_] => none
  | .list (.list _ :: _ :: _) => none
  | .list (.atom tag :: ix :: rest) =>
    match Sexp.nat? ix with
    | none => none
    | some i =>
    if tag = "keyword" then
      match rest with
      | [.list [], v] => (readE v).map (.keyword i "" false)
      | [.list [.atom a], v] => (readE v).map (.keyword i a true)
      | _ => none
    else if tag = "BoolOp" then
      match rest with
      | [.atom op, .list vs] =>
          if op = "And" then (readEs vs).map (.boolop i true) else if op = "Or" then (readEs vs).map (.boolop i false) else none
      | _ => none
    else if tag = "Tuple" then
      match rest with
      | [.list es, c] => (readEs es).bind fun es' => (rCtx c).map fun c' => .seq i .tuple es' c'
      | _ => none
    else if tag = "List" then
      match rest with
      | [.list es, c] => (readEs es).bind fun es' => (rCtx c).map fun c' => .seq i .list es' c'
      | _ => none
    else if tag = "Set" then
      match rest with
      | [.list es] => (readEs es).map fun es' => .seq i .set es' .load
      | _ => none
    else if tag = "ListComp" then
      match rest with
      | [.list es, .list gs] => (readEs es).bind fun es' => (readEs gs).map fun gs' => .comp i .listComp es' gs'
      | _ => none
    else if tag = "SetComp" then
      match rest with
      | [.list es, .list gs] => (readEs es).bind fun es' => (readEs gs).map fun gs' => .comp i .setComp es' gs'
      | _ => none
    else if tag = "GeneratorExp" then
      match rest with
      | [.list es, .list gs] => (readEs es).bind fun es' => (readEs gs).map fun gs' => .comp i .genExp es' gs'
      | _ => none
    else if tag = "DictComp" then
      match rest with
      | [.list es, .list gs] => (readEs es).bind fun es' => (readEs gs).map fun gs' => .comp i .dictComp es' gs'
      | _ => none
    else if tag = "Name" then
      match rest with
      | [.atom x0, x1] => (rCtx x1).bind fun x1' => some (.name i x0 x1')
      | _ => none
    else if tag = "Constant" then
      match rest with
      | [.atom x0, .atom x1] => some (.const i x0 x1)
      | _ => none
    else if tag = "Attribute" then
      match rest with
      | [x0, .atom x1, x2] => (readE x0).bind fun x0' => (rCtx x2).bind fun x2' => some (.attr i x0' x1 x2')
      | _ => none
    else if tag = "Subscript" then
      match rest with
      | [x0, x1, x2] => (readE x0).bind fun x0' => (readE x1).bind fun x1' => (rCtx x2).bind fun x2' => some (.subscript i x0' x1' x2')
      | _ => none
    else if tag = "Call" then
      match rest with
      | [x0, .list x1, .list x2] => (readE x0).bind fun x0' => (readEs x1).bind fun x1' => (readEs x2).bind fun x2' => some (.call i x0' x1' x2')
      | _ => none
    else if tag = "UnaryOp" then
      match rest with
      | [.atom x0, x1] => (readE x1).bind fun x1' => some (.unary i x0 x1')
      | _ => none
    else if tag = "BinOp" then
      match rest with
      | [.atom x0, x1, x2] => (readE x1).bind fun x1' => (readE x2).bind fun x2' => some (.binop i x0 x1' x2')
      | _ => none
    else if tag = "Compare" then
      match rest with
      | [x0, x1, .list x2] => (readE x0).bind fun x0' => (rStrs x1).bind fun x1' => (readEs x2).bind fun x2' => some (.compare i x0' x1' x2')
      | _ => none
    else if tag = "IfExp" then
      match rest with
      | [x0, x1, x2] => (readE x0).bind fun x0' => (readE x1).bind fun x1' => (readE x2).bind fun x2' => some (.ifexp i x0' x1' x2')
      | _ => none
    else if tag = "Lambda" then
      match rest with
      | [x0, x1] => (readE x0).bind fun x0' => (readE x1).bind fun x1' => some (.lambda i x0' x1')
      | _ => none
    else if tag = "Starred" then
      match rest with
      | [x0, x1] => (readE x0).bind fun x0' => (rCtx x1).bind fun x1' => some (.starred i x0' x1')
      | _ => none
    else if tag = "NamedExpr" then
      match rest with
      | [x0, x1] => (readE x0).bind fun x0' => (readE x1).bind fun x1' => some (.namedexpr i x0' x1')
      | _ => none
    else if tag = "comprehension" then
      match rest with
      | [x0, x1, .list x2, x3] => (readE x0).bind fun x0' => (readE x1).bind fun x1' => (readEs x2).bind fun x2' => (Sexp.bool? x3).bind fun x3' => some (.comprehension i x0' x1' x2' x3')
      | _ => none
    else if tag = "arguments" then
      match rest with
      | [.list x0, .list x1, .list x2, .list x3, .list x4, .list x5, .list x6] => (readEs x0).bind fun x0' => (readEs x1).bind fun x1' => (readEs x2).bind fun x2' => (readEs x3).bind fun x3' => (readEs x4).bind fun x4' => (readEs x5).bind fun x5' => (readEs x6).bind fun x6' => some (.arguments i x0' x1' x2' x3' x4' x5' x6')
      | _ => none
    else if tag = "arg" then
      match rest with
      | [.atom x0, .list x1] => (readEs x1).bind fun x1' => some (.arg i x0 x1')
      | _ => none
    else if tag = "withitem" then
      match rest with
      | [x0, .list x1] => (readE x0).bind fun x0' => (readEs x1).bind fun x1' => some (.withitem i x0' x1')
      | _ => none
    else if tag = "Other" then
      match rest with
      | [.atom x0, x1, .list x2] => (rStrs x1).bind fun x1' => (readEs x2).bind fun x2' => some (.other i x0 x1' x2')
      | _ => none
    else none
def readEs : List Sexp → Option (List Expr)
  | [] => some []
  | x :: xs => (readE x).bind fun e => (readEs xs).map fun es => e :: es
end

mutual
def readS : Sexp → Option Stmt
  | .atom _ => none
  | .list [] => none
  | .list [.list _] => none
  | .list (.list _ :: _ :: _) => none
  | .list [.atom _] => none
  | .list (.atom tag :: ix :: rest) =>
    match Sexp.nat? ix with
    | none => none
    | some i =>
    if tag = "" then none
    else if tag = "FunctionDef" then
      match rest with
      | [.atom x0, x1, .list x2, .list x3, .list x4, x5] => (readE x1).bind fun x1' => (readSs x2).bind fun x2' => (readEs x3).bind fun x3' => (readEs x4).bind fun x4' => (Sexp.bool? x5).bind fun x5' => some (.functionDef i x0 x1' x2' x3' x4' x5')
      | _ => none
    else if tag = "ClassDef" then
      match rest with
      | [.atom x0, .list x1, .list x2, .list x3, .list x4] => (readEs x1).bind fun x1' => (readEs x2).bind fun x2' => (readSs x3).bind fun x3' => (readEs x4).bind fun x4' => some (.classDef i x0 x1' x2' x3' x4')
      | _ => none
    else if tag = "Return" then
      match rest with
      | [.list x0] => (readEs x0).bind fun x0' => some (.ret i x0')
      | _ => none
    else if tag = "Delete" then
      match rest with
      | [.list x0] => (readEs x0).bind fun x0' => some (.delete i x0')
      | _ => none
    else if tag = "Assign" then
      match rest with
      | [.list x0, x1] => (readEs x0).bind fun x0' => (readE x1).bind fun x1' => some (.assign i x0' x1')
      | _ => none
    else if tag = "AugAssign" then
      match rest with
      | [x0, .atom x1, x2] => (readE x0).bind fun x0' => (readE x2).bind fun x2' => some (.augAssign i x0' x1 x2')
      | _ => none
    else if tag = "AnnAssign" then
      match rest with
      | [x0, x1, .list x2, x3] => (readE x0).bind fun x0' => (readE x1).bind fun x1' => (readEs x2).bind fun x2' => (Sexp.bool? x3).bind fun x3' => some (.annAssign i x0' x1' x2' x3')
      | _ => none
    else if tag = "For" then
      match rest with
      | [x0, x1, .list x2, .list x3, .list x4, x5] => (readE x0).bind fun x0' => (readE x1).bind fun x1' => (readSs x2).bind fun x2' => (readSs x3).bind fun x3' => (readEs x4).bind fun x4' => (Sexp.bool? x5).bind fun x5' => some (.for_ i x0' x1' x2' x3' x4' x5')
      | _ => none
    else if tag = "While" then
      match rest with
      | [x0, .list x1, .list x2] => (readE x0).bind fun x0' => (readSs x1).bind fun x1' => (readSs x2).bind fun x2' => some (.while_ i x0' x1' x2')
      | _ => none
    else if tag = "If" then
      match rest with
      | [x0, .list x1, .list x2] => (readE x0).bind fun x0' => (readSs x1).bind fun x1' => (readSs x2).bind fun x2' => some (.if_ i x0' x1' x2')
      | _ => none
    else if tag = "With" then
      match rest with
      | [.list x0, .list x1, x2] => (readEs x0).bind fun x0' => (readSs x1).bind fun x1' => (Sexp.bool? x2).bind fun x2' => some (.with_ i x0' x1' x2')
      | _ => none
    else if tag = "Raise" then
      match rest with
      | [.list x0, .list x1] => (readEs x0).bind fun x0' => (readEs x1).bind fun x1' => some (.raise i x0' x1')
      | _ => none
    else if tag = "Try" then
      match rest with
      | [.list x0, .list x1, .list x2, .list x3] => (readSs x0).bind fun x0' => (readSs x1).bind fun x1' => (readSs x2).bind fun x2' => (readSs x3).bind fun x3' => some (.try_ i x0' x1' x2' x3')
      | _ => none
    else if tag = "ExceptHandler" then
      match rest with
      | [.list x0, x1, .list x2] => (readEs x0).bind fun x0' => (rStrs x1).bind fun x1' => (readSs x2).bind fun x2' => some (.handler i x0' x1' x2')
      | _ => none
    else if tag = "Assert" then
      match rest with
      | [x0, .list x1] => (readE x0).bind fun x0' => (readEs x1).bind fun x1' => some (.assert_ i x0' x1')
      | _ => none
    else if tag = "Import" then
      match rest with
      | [x0] => (rPairs x0).bind fun x0' => some (.import_ i x0')
      | _ => none
    else if tag = "ImportFrom" then
      match rest with
      | [.atom x0, x1, x2] => (rPairs x1).bind fun x1' => (Sexp.nat? x2).bind fun x2' => some (.importFrom i x0 x1' x2')
      | _ => none
    else if tag = "Global" then
      match rest with
      | [x0] => (rStrs x0).bind fun x0' => some (.global i x0')
      | _ => none
    else if tag = "Nonlocal" then
      match rest with
      | [x0] => (rStrs x0).bind fun x0' => some (.nonlocal i x0')
      | _ => none
    else if tag = "Expr" then
      match rest with
      | [x0] => (readE x0).bind fun x0' => some (.expr i x0')
      | _ => none
    else if tag = "Pass" then
      match rest with
      | [] => some (.pass i )
      | _ => none
    else if tag = "Break" then
      match rest with
      | [] => some (.break_ i )
      | _ => none
    else if tag = "Continue" then
      match rest with
      | [] => some (.continue_ i )
      | _ => none
    else if tag = "OtherStmt" then
      match rest with
      | [.atom x0, .list x1, .list x2] => (readEs x1).bind fun x1' => (readSs x2).bind fun x2' => some (.other i x0 x1' x2')
      | _ => none
    else none
def readSs : List Sexp → Option (List Stmt)
  | [] => some []
  | x :: xs => (readS x).bind fun s => (readSs xs).map fun ss => s :: ss
end

mutual
/-- trees the printer does not lose information on: a `Set` display carries `.load` (Python has no ctx there) and a
keyword without a name (`**kw`) carries the empty string -/
def printableE : Expr → Bool
  | .noneMarker => true
  | .keyword _ arg has v => (has || arg == "") && printableE v
  | .boolop _ _ vs => printableEs vs
  | .seq _ k es c => (k != .set || c == .load) && printableEs es
  | .comp _ _ es gs => printableEs es && printableEs gs
  | .name _ x0 x1 => true
  | .const _ x0 x1 => true
  | .attr _ x0 x1 x2 => printableE x0
  | .subscript _ x0 x1 x2 => printableE x0 && printableE x1
  | .call _ x0 x1 x2 => printableE x0 && printableEs x1 && printableEs x2
  | .unary _ x0 x1 => printableE x1
  | .binop _ x0 x1 x2 => printableE x1 && printableE x2
  | .compare _ x0 x1 x2 => printableE x0 && printableEs x2
  | .ifexp _ x0 x1 x2 => printableE x0 && printableE x1 && printableE x2
  | .lambda _ x0 x1 => printableE x0 && printableE x1
  | .starred _ x0 x1 => printableE x0
  | .namedexpr _ x0 x1 => printableE x0 && printableE x1
  | .comprehension _ x0 x1 x2 x3 => printableE x0 && printableE x1 && printableEs x2
  | .arguments _ x0 x1 x2 x3 x4 x5 x6 => printableEs x0 && printableEs x1 && printableEs x2 && printableEs x3 && printableEs x4 && printableEs x5 && printableEs x6
  | .arg _ x0 x1 => printableEs x1
  | .withitem _ x0 x1 => printableE x0 && printableEs x1
  | .other _ x0 x1 x2 => printableEs x2
def printableEs : List Expr → Bool
  | [] => true
  | e :: es => printableE e && printableEs es
end
mutual
def printableS : Stmt → Bool
  | .functionDef _ x0 x1 x2 x3 x4 x5 => printableE x1 && printableSs x2 && printableEs x3 && printableEs x4
  | .classDef _ x0 x1 x2 x3 x4 => printableEs x1 && printableEs x2 && printableSs x3 && printableEs x4
  | .ret _ x0 => printableEs x0
  | .delete _ x0 => printableEs x0
  | .assign _ x0 x1 => printableEs x0 && printableE x1
  | .augAssign _ x0 x1 x2 => printableE x0 && printableE x2
  | .annAssign _ x0 x1 x2 x3 => printableE x0 && printableE x1 && printableEs x2
  | .for_ _ x0 x1 x2 x3 x4 x5 => printableE x0 && printableE x1 && printableSs x2 && printableSs x3 && printableEs x4
  | .while_ _ x0 x1 x2 => printableE x0 && printableSs x1 && printableSs x2
  | .if_ _ x0 x1 x2 => printableE x0 && printableSs x1 && printableSs x2
  | .with_ _ x0 x1 x2 => printableEs x0 && printableSs x1
  | .raise _ x0 x1 => printableEs x0 && printableEs x1
  | .try_ _ x0 x1 x2 x3 => printableSs x0 && printableSs x1 && printableSs x2 && printableSs x3
  | .handler _ x0 x1 x2 => printableEs x0 && printableSs x2
  | .assert_ _ x0 x1 => printableE x0 && printableEs x1
  | .import_ _ x0 => true
  | .importFrom _ x0 x1 x2 => true
  | .global _ x0 => true
  | .nonlocal _ x0 => true
  | .expr _ x0 => printableE x0
  | .pass _  => true
  | .break_ _  => true
  | .continue_ _  => true
  | .other _ x0 x1 x2 => printableEs x1 && printableSs x2
def printableSs : List Stmt → Bool
  | [] => true
  | s :: ss => printableS s && printableSs ss
end

end Malt.Conv.SexpTotal
