import MaltModel.Conv.ControlFlow
/-
`Conv.CFSpec` — predicates on trees used by the theorems about the model of `ControlFlowTransformer` that are not
part of the calling contract (Props/C01CF.lean): routing (no native `if`/`while`/`for` is left) and the two
"the generated module loads" side obligations of DESIGN §4 C01 (declarations vs. parameters, `nonlocal` vs. bindings).
Import-free apart from the model.
-/
namespace Malt.Conv.CFSpec
open Malt Malt.Py Malt.Conv.ControlFlow

/-! ## Routing -/

mutual
/-- No native `if`, `while` or (synchronous) `for` statement at any depth.  `async for` is not an overloadable
construct (`ControlFlowTransformer` has no `visit_AsyncFor`) and is traversed.  Expressions (lambdas included) contain
no statements. -/
def noNativeCF : Stmt → Bool
  | .if_ .. => false
  | .while_ .. => false
  | .for_ _ _ _ body orelse _ isAsync => isAsync && noNativeCFL body && noNativeCFL orelse
  | .functionDef _ _ _ body _ _ _ => noNativeCFL body
  | .classDef _ _ _ _ body _ => noNativeCFL body
  | .with_ _ _ body _ => noNativeCFL body
  | .try_ _ b h e f => noNativeCFL b && noNativeCFL h && noNativeCFL e && noNativeCFL f
  | .handler _ _ _ body => noNativeCFL body
  | .other _ _ _ blocks => noNativeCFL blocks
  | _ => true
def noNativeCFL : List Stmt → Bool
  | [] => true
  | s :: ss => noNativeCF s && noNativeCFL ss
end


/-! ## Python scoping of a tree (what CPython's symbol table pass looks at)

A *block* is the statement list of a function body together with the blocks of its compound statements; nested
function and class bodies are other blocks.  `collectL own ss` gathers, over the block `ss`, what every statement
contributes by itself (`own`). -/

mutual
def collectS (own : Stmt → List String) : Stmt → List String
  | .for_ i t it body orelse x a => own (.for_ i t it body orelse x a) ++ collectL own body ++ collectL own orelse
  | .while_ i t body orelse => own (.while_ i t body orelse) ++ collectL own body ++ collectL own orelse
  | .if_ i t body orelse => own (.if_ i t body orelse) ++ collectL own body ++ collectL own orelse
  | .with_ i items body a => own (.with_ i items body a) ++ collectL own body
  | .try_ _ b h e f => collectL own b ++ collectL own h ++ collectL own e ++ collectL own f
  | .handler i t n body => own (.handler i t n body) ++ collectL own body
  | .other _ _ _ blocks => collectL own blocks
  | s => own s
def collectL (own : Stmt → List String) : List Stmt → List String
  | [] => []
  | s :: ss => collectS own s ++ collectL own ss
end

def gOwn : Stmt → List String
  | .global _ ns => ns
  | _ => []
def nOwn : Stmt → List String
  | .nonlocal _ ns => ns
  | _ => []

mutual
/-- Names bound by an assignment target (attribute and subscript targets bind nothing). -/
def targetNames : Expr → List String
  | .name _ s _ => [s]
  | .seq _ _ es _ => targetNamesL es
  | .starred _ v _ => targetNames v
  | _ => []
def targetNamesL : List Expr → List String
  | [] => []
  | e :: es => targetNames e ++ targetNamesL es
end

def withVars : List Expr → List String
  | [] => []
  | .withitem _ _ vs :: rest => targetNamesL vs ++ withVars rest
  | _ :: rest => withVars rest

/-- Names a statement binds in its own block (an under-approximation is enough for what follows: named expressions
and dotted `import a.b` are left out). -/
def bOwn : Stmt → List String
  | .assign _ ts _ => targetNamesL ts
  | .augAssign _ t _ _ => targetNames t
  | .annAssign _ t _ _ _ => targetNames t
  | .for_ _ t _ _ _ _ _ => targetNames t
  | .with_ _ items _ _ => withVars items
  | .functionDef _ n _ _ _ _ _ => [n]
  | .classDef _ n _ _ _ _ => [n]
  | .handler _ _ n _ => n
  | .importFrom _ _ ns _ => ns.map fun p => if p.2 == "" then p.1 else p.2
  | .delete _ ts => targetNamesL ts
  | _ => []

/-- Names declared `global` / `nonlocal` in a block, names bound in a block. -/
def declG (ss : List Stmt) : List String := collectL gOwn ss
def declN (ss : List Stmt) : List String := collectL nOwn ss
def bindsOf (ss : List Stmt) : List String := collectL bOwn ss

def argNames : List Expr → List String
  | [] => []
  | .arg _ n _ :: rest => n :: argNames rest
  | _ :: rest => argNames rest

/-- All parameters of a function, of every kind. -/
def paramNames : Expr → List String
  | .arguments _ po ar va ko _ kw _ => argNames po ++ argNames ar ++ argNames va ++ argNames ko ++ argNames kw
  | _ => []

/-- The local variables of a function: parameters and names bound in its block, unless declared `global`/`nonlocal`. -/
def localsOf (args : Expr) (body : List Stmt) : List String :=
  (paramNames args ++ bindsOf body).filter fun x => !(declG body).contains x && !(declN body).contains x

/-! ### (b) a name is not both a parameter and declared `global` / `nonlocal`
CPython: "name 'x' is parameter and nonlocal" / "... and global" (SyntaxError when the module is compiled). -/

mutual
def pdOkS : Stmt → Bool
  | .functionDef _ _ args body _ _ _ =>
      (paramNames args).all (fun p => !(declG body).contains p && !(declN body).contains p) && pdOkL body
  | .classDef _ _ _ _ body _ => pdOkL body
  | .for_ _ _ _ body orelse _ _ => pdOkL body && pdOkL orelse
  | .while_ _ _ body orelse => pdOkL body && pdOkL orelse
  | .if_ _ _ body orelse => pdOkL body && pdOkL orelse
  | .with_ _ _ body _ => pdOkL body
  | .try_ _ b h e f => pdOkL b && pdOkL h && pdOkL e && pdOkL f
  | .handler _ _ _ body => pdOkL body
  | .other _ _ _ blocks => pdOkL blocks
  | _ => true
def pdOkL : List Stmt → Bool
  | [] => true
  | s :: ss => pdOkS s && pdOkL ss
end

/-! ### (a) every `nonlocal x` has a binding of `x` in an enclosing function scope
CPython's `analyze_block`: the set `B` handed to a nested function is the set handed to its parent, minus the names
the parent declares `global`, plus the parent's local variables; "no binding for nonlocal 'x' found" when `x ∉ B`.
Class bodies pass `B` through without adding to it. -/

mutual
def nlOkS (B : List String) : Stmt → Bool
  | .functionDef _ _ args body _ _ _ =>
      (declN body).all B.contains &&
      nlOkL (B.filter (fun x => !(declG body).contains x) ++ localsOf args body) body
  | .classDef _ _ _ _ body _ => nlOkL B body
  | .for_ _ _ _ body orelse _ _ => nlOkL B body && nlOkL B orelse
  | .while_ _ _ body orelse => nlOkL B body && nlOkL B orelse
  | .if_ _ _ body orelse => nlOkL B body && nlOkL B orelse
  | .with_ _ _ body _ => nlOkL B body
  | .try_ _ b h e f => nlOkL B b && nlOkL B h && nlOkL B e && nlOkL B f
  | .handler _ _ _ body => nlOkL B body
  | .other _ _ _ blocks => nlOkL B blocks
  | _ => true
def nlOkL (B : List String) : List Stmt → Bool
  | [] => true
  | s :: ss => nlOkS B s && nlOkL B ss
end

/-! ### Hypotheses on the source tree and the annotation table (decidable; evaluated on the real tables by the check) -/

/-- The state variables of a control-flow statement, as `_get_block_vars` computes them from the table. -/
def stmtVars (env : Env) (fs : FnScope) : Stmt → List String
  | .if_ id _ _ _ =>
      (env.blockVars fs id ((env.scope id "BODY_SCOPE").bound ++ (env.scope id "ORELSE_SCOPE").bound)).scopeVars
  | .while_ id _ _ _ => (env.blockVars fs id (env.scope id "BODY_SCOPE").bound).scopeVars
  | .for_ id _ _ _ _ _ _ =>
      (env.blockVars fs id ((env.scope id "BODY_SCOPE").bound ++ (env.scope id "ITERATE_SCOPE").bound)).scopeVars
  | _ => []

def stmtUndefined (env : Env) (fs : FnScope) : Stmt → List String
  | .if_ id _ _ _ =>
      (env.blockVars fs id ((env.scope id "BODY_SCOPE").bound ++ (env.scope id "ORELSE_SCOPE").bound)).undefined
  | .while_ id _ _ _ => (env.blockVars fs id (env.scope id "BODY_SCOPE").bound).undefined
  | .for_ id _ _ _ _ _ _ =>
      (env.blockVars fs id ((env.scope id "BODY_SCOPE").bound ++ (env.scope id "ITERATE_SCOPE").bound)).undefined
  | _ => []

/-- The reserved set handed to `new_symbol` for the generated names of a `for` statement. -/
def forReserved (env : Env) (id : Nat) : List String :=
  reservedOf ((env.scope id "BODY_SCOPE").referenced ++ (env.scope id "ITERATE_SCOPE").referenced)

/-- Names the generated functions of a statement declare `global` / `nonlocal` (`_create_nonlocal_declarations`). -/
def glNames (fs : FnScope) (vars : List String) : List String := vars.filter fs.globals.contains
def nlNames (fs : FnScope) (vars : List String) : List String :=
  vars.filter fun v => !BlockVars.isComposite v && !(glNames fs vars).contains v

mutual
/-- Hypothesis of (b): the source obeys the rule itself; no state tuple contains the hard-coded setter parameter
`vars_`; every name a `for` body function declares (state variables, and `global`/`nonlocal` statements of the loop body)
is in the reserved set the namer receives for `itr` (i.e. is not a bound-only name — the C11 finding). -/
def pdHypS (env : Env) (fs : FnScope) : Stmt → Bool
  | .if_ id t body orelse =>
      if env.skip id then pdOkS (.if_ id t body orelse) else
      !(stmtVars env fs (.if_ id t body orelse)).contains "vars_" && pdHypL env fs body && pdHypL env fs orelse
  | .while_ id t body orelse =>
      if env.skip id then pdOkS (.while_ id t body orelse) else
      !(stmtVars env fs (.while_ id t body orelse)).contains "vars_" && pdHypL env fs body && pdHypL env fs orelse
  | .for_ id t it body orelse x a =>
      if env.skip id then pdOkS (.for_ id t it body orelse x a) else
      (a || (!(stmtVars env fs (.for_ id t it body orelse x a)).contains "vars_" &&
             (glNames fs (stmtVars env fs (.for_ id t it body orelse x a)) ++ nlNames fs (stmtVars env fs (.for_ id t it body orelse x a)) ++
               declG body ++ declN body).all (forReserved env id).contains)) &&
      pdHypL env fs body && pdHypL env fs orelse
  | .functionDef id n args body d r a =>
      if env.skip id then pdOkS (.functionDef id n args body d r a) else
      (paramNames args).all (fun p => !(declG body).contains p && !(declN body).contains p) &&
      pdHypL env { globals := (env.scope id "BODY_SCOPE").globals, nonlocals := (env.scope id "BODY_SCOPE").nonlocals } body
  | .classDef id n b k body d => if env.skip id then pdOkS (.classDef id n b k body d) else pdHypL env fs body
  | .with_ id items body a => if env.skip id then pdOkS (.with_ id items body a) else pdHypL env fs body
  | .try_ id b h e f =>
      if env.skip id then pdOkS (.try_ id b h e f) else pdHypL env fs b && pdHypL env fs h && pdHypL env fs e && pdHypL env fs f
  | .handler id t n body => if env.skip id then pdOkS (.handler id t n body) else pdHypL env fs body
  | .other id k es blocks => if env.skip id then pdOkS (.other id k es blocks) else pdHypL env fs blocks
  | _ => true
def pdHypL (env : Env) (fs : FnScope) : List Stmt → Bool
  | [] => true
  | s :: ss => pdHypS env fs s && pdHypL env fs ss
end

mutual
/-- Names certainly bound at block level in the OUTPUT of the pass for the source block: the `Undefined`
pre-assignments of its control-flow statements and what the other statements bind themselves. -/
def keptS (env : Env) (fs : FnScope) : Stmt → List String
  | .if_ id t body orelse =>
      if env.skip id then collectS bOwn (.if_ id t body orelse)
      else bindsOf (undefinedAssigns (stmtUndefined env fs (.if_ id t body orelse)))
  | .while_ id t body orelse =>
      if env.skip id then collectS bOwn (.while_ id t body orelse)
      else bindsOf (undefinedAssigns (stmtUndefined env fs (.while_ id t body orelse)))
  | .for_ id t it body orelse x a =>
      if env.skip id then collectS bOwn (.for_ id t it body orelse x a)
      else if a then targetNames t ++ keptL env fs body ++ keptL env fs orelse
      else bindsOf (undefinedAssigns (stmtUndefined env fs (.for_ id t it body orelse x a)))
  | .with_ id items body a =>
      if env.skip id then collectS bOwn (.with_ id items body a) else withVars items ++ keptL env fs body
  | .try_ id b h e f =>
      if env.skip id then collectS bOwn (.try_ id b h e f)
      else keptL env fs b ++ keptL env fs h ++ keptL env fs e ++ keptL env fs f
  | .handler id t n body => if env.skip id then collectS bOwn (.handler id t n body) else n ++ keptL env fs body
  | .other id k es blocks => if env.skip id then collectS bOwn (.other id k es blocks) else keptL env fs blocks
  | s => bOwn s
def keptL (env : Env) (fs : FnScope) : List Stmt → List String
  | [] => []
  | s :: ss => keptS env fs s ++ keptL env fs ss
end

/-- What a function nested in a generated body function certainly sees as bound (`A` = what the enclosing scope
hands down, `vars` = the state variables of the statement, `body` = the source block that becomes the function body). -/
def availGen (env : Env) (fs : FnScope) (A : List String) (vars : List String) (body : List Stmt) : List String :=
  A.filter (fun x => !(glNames fs vars).contains x && !(declG body).contains x) ++
  (keptL env fs body).filter fun x =>
    !(glNames fs vars).contains x && !(nlNames fs vars).contains x && !(declG body).contains x && !(declN body).contains x

def availFn (env : Env) (fs : FnScope) (A : List String) (args : Expr) (body : List Stmt) : List String :=
  A.filter (fun x => !(declG body).contains x) ++
  (paramNames args ++ keptL env fs body).filter fun x => !(declG body).contains x && !(declN body).contains x

mutual
/-- Hypothesis of (a): with `A` = names certainly bound in the enclosing function scopes of the output, every name a
generated function declares `nonlocal` (the simple, non-global state variables of the statement) and every `nonlocal`
statement of the source is in `A`, recursively. -/
def nlHypS (env : Env) (fs : FnScope) (A : List String) : Stmt → Bool
  | .if_ id t body orelse =>
      if env.skip id then nlOkS A (.if_ id t body orelse) else
      let vars := stmtVars env fs (.if_ id t body orelse)
      (nlNames fs vars).all A.contains && (declN body).all A.contains && (declN orelse).all A.contains &&
      nlHypL env fs (availGen env fs A vars body) body && nlHypL env fs (availGen env fs A vars orelse) orelse
  | .while_ id t body orelse =>
      if env.skip id then nlOkS A (.while_ id t body orelse) else
      let vars := stmtVars env fs (.while_ id t body orelse)
      (nlNames fs vars).all A.contains && (declN body).all A.contains &&
      nlHypL env fs (availGen env fs A vars body) body
  | .for_ id t it body orelse x a =>
      if env.skip id then nlOkS A (.for_ id t it body orelse x a) else
      if a then nlHypL env fs A body && nlHypL env fs A orelse else
      let vars := stmtVars env fs (.for_ id t it body orelse x a)
      (nlNames fs vars).all A.contains && (declN body).all A.contains &&
      nlHypL env fs (availGen env fs A vars body) body
  | .functionDef id n args body d r a =>
      if env.skip id then nlOkS A (.functionDef id n args body d r a) else
      let fs' : FnScope := { globals := (env.scope id "BODY_SCOPE").globals, nonlocals := (env.scope id "BODY_SCOPE").nonlocals }
      (declN body).all A.contains && nlHypL env fs' (availFn env fs' A args body) body
  | .classDef id n b k body d => if env.skip id then nlOkS A (.classDef id n b k body d) else nlHypL env fs A body
  | .with_ id items body a => if env.skip id then nlOkS A (.with_ id items body a) else nlHypL env fs A body
  | .try_ id b h e f =>
      if env.skip id then nlOkS A (.try_ id b h e f)
      else nlHypL env fs A b && nlHypL env fs A h && nlHypL env fs A e && nlHypL env fs A f
  | .handler id t n body => if env.skip id then nlOkS A (.handler id t n body) else nlHypL env fs A body
  | .other id k es blocks => if env.skip id then nlOkS A (.other id k es blocks) else nlHypL env fs A blocks
  | _ => true
def nlHypL (env : Env) (fs : FnScope) (A : List String) : List Stmt → Bool
  | [] => true
  | s :: ss => nlHypS env fs A s && nlHypL env fs A ss
end

end Malt.Conv.CFSpec
