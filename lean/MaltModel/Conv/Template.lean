import MaltModel.Py.Ast
/-
Model of `malt/pyct/templates.py` (`replace`, `replace_as_expression`, `ReplaceTransformer`, `ContextAdjuster`) and of
`ast_util.copy_clean`, over `Py.Ast` with node identity made explicit: the `id` field of every node is its *label*
(object identity).  A deep copy gives every node a label never used before (a counter is threaded through); sharing a
node object means repeating a label.

What is mirrored (code that exists, including its oddities):
* `copy_clean` — `copyE`/`copyS`: fresh label for every node, everything else unchanged.
* `ContextAdjuster(ctx)` — `adjust c`: `Name`, `Attribute`, `Subscript`, `Tuple`, `List` receive the override; the value of
  an attribute and value + slice of a subscript are visited with `Load`; `Call`, `Dict`, `Lambda`, `comprehension` switch
  the override off for everything below them; there is no `visit_Starred`: a `Starred` node keeps its own ctx while its
  value receives the override; every other node kind is traversed by `generic_visit` *with the override still on* — so
  the target of a `NamedExpr` that is not shielded by a call/lambda/dict/comprehension is overwritten too.
* `ReplaceTransformer.visit_Name` — a placeholder `Name` is replaced by fresh copies of the bound node(s); the adjuster
  runs with the ctx of the replaced name, but only on copies whose top node has a `ctx` field (`hasattr(n, 'ctx')`);
  a list/tuple of nodes is spliced into list fields (assignment targets, tuple elements, call arguments, bodies);
  in a single-node field anything but exactly one node leaves a malformed tree in the real code: `TemplErr.notSingle`.
* `visit_Expr` — an expression statement whose value is a placeholder is replaced by the statement list bound to it.
* `visit_keyword` — a keyword whose *name* is a placeholder is replaced by the bound keyword(s) (ValueError otherwise).
* `visit_arg` — a parameter whose name is a placeholder: a bound `Name` gives a fresh `arg`; any other bound node is put
  into the tree AS IS (no copy: the label is kept — the one place where the code shares nodes with its input); the
  annotation of a parameter is never visited.
* `visit_FunctionDef` / `visit_Attribute` — function name / attribute name replaced by the id of a bound `Name`
  (ValueError otherwise).  `nonlocal`/`global` name lists, class names, handler names, import aliases are NOT
  substituted (the code has no visitor for them).
String and `QN` bindings are `Name`/`Attribute`/`Subscript` nodes whose ctx is unset in the real code; they are modelled
with `.load` (every position they can reach is overwritten by the adjuster before it is read).
-/
set_option linter.unusedVariables false
namespace Malt.Conv.Template
open Malt.Py

/-! ## labels (node identities), preorder -/
mutual
def labelsE : Expr → List Nat
  | .noneMarker => []
  | .name i f_s f_ctx => [i]
  | .attr i f_value f_attr f_ctx => i :: (labelsE f_value)
  | .subscript i f_value f_slice f_ctx => i :: (labelsE f_value ++ (labelsE f_slice))
  | .seq i f_kind f_elts f_ctx => i :: (labelsEs f_elts)
  | .starred i f_value f_ctx => i :: (labelsE f_value)
  | .const i f_kind f_repr => [i]
  | .call i f_func f_args f_keywords => i :: (labelsE f_func ++ (labelsEs f_args ++ (labelsEs f_keywords)))
  | .keyword i f_arg f_hasArg f_value => i :: (labelsE f_value)
  | .boolop i f_isAnd f_values => i :: (labelsEs f_values)
  | .unary i f_op f_operand => i :: (labelsE f_operand)
  | .binop i f_op f_left f_right => i :: (labelsE f_left ++ (labelsE f_right))
  | .compare i f_left f_ops f_comparators => i :: (labelsE f_left ++ (labelsEs f_comparators))
  | .ifexp i f_test f_body f_orelse => i :: (labelsE f_test ++ (labelsE f_body ++ (labelsE f_orelse)))
  | .lambda i f_args f_body => i :: (labelsE f_args ++ (labelsE f_body))
  | .namedexpr i f_target f_value => i :: (labelsE f_target ++ (labelsE f_value))
  | .comp i f_kind f_elts f_generators => i :: (labelsEs f_elts ++ (labelsEs f_generators))
  | .comprehension i f_target f_iter f_ifs f_isAsync => i :: (labelsE f_target ++ (labelsE f_iter ++ (labelsEs f_ifs)))
  | .arguments i f_posonly f_args f_vararg f_kwonly f_kwDefaults f_kwarg f_defaults => i :: (labelsEs f_posonly ++ (labelsEs f_args ++ (labelsEs f_vararg ++ (labelsEs f_kwonly ++ (labelsEs f_kwDefaults ++ (labelsEs f_kwarg ++ (labelsEs f_defaults)))))))
  | .arg i f_name f_annotation => i :: (labelsEs f_annotation)
  | .withitem i f_contextExpr f_optionalVars => i :: (labelsE f_contextExpr ++ (labelsEs f_optionalVars))
  | .other i f_kind f_attrs f_kids => i :: (labelsEs f_kids)
def labelsEs : List Expr → List Nat
  | [] => []
  | e :: es => labelsE e ++ labelsEs es
end
mutual
def labelsS : Stmt → List Nat
  | .functionDef i f_name f_args f_body f_decorators f_returns f_isAsync => i :: (labelsE f_args ++ (labelsSs f_body ++ (labelsEs f_decorators ++ (labelsEs f_returns))))
  | .classDef i f_name f_bases f_keywords f_body f_decorators => i :: (labelsEs f_bases ++ (labelsEs f_keywords ++ (labelsSs f_body ++ (labelsEs f_decorators))))
  | .ret i f_value => i :: (labelsEs f_value)
  | .delete i f_targets => i :: (labelsEs f_targets)
  | .assign i f_targets f_value => i :: (labelsEs f_targets ++ (labelsE f_value))
  | .augAssign i f_target f_op f_value => i :: (labelsE f_target ++ (labelsE f_value))
  | .annAssign i f_target f_annotation f_value f_simple => i :: (labelsE f_target ++ (labelsE f_annotation ++ (labelsEs f_value)))
  | .for_ i f_target f_iter f_body f_orelse f_extraTest f_isAsync => i :: (labelsE f_target ++ (labelsE f_iter ++ (labelsSs f_body ++ (labelsSs f_orelse ++ (labelsEs f_extraTest)))))
  | .while_ i f_test f_body f_orelse => i :: (labelsE f_test ++ (labelsSs f_body ++ (labelsSs f_orelse)))
  | .if_ i f_test f_body f_orelse => i :: (labelsE f_test ++ (labelsSs f_body ++ (labelsSs f_orelse)))
  | .with_ i f_items f_body f_isAsync => i :: (labelsEs f_items ++ (labelsSs f_body))
  | .raise i f_exc f_cause => i :: (labelsEs f_exc ++ (labelsEs f_cause))
  | .try_ i f_body f_handlers f_orelse f_finalbody => i :: (labelsSs f_body ++ (labelsSs f_handlers ++ (labelsSs f_orelse ++ (labelsSs f_finalbody))))
  | .handler i f_type_ f_name f_body => i :: (labelsEs f_type_ ++ (labelsSs f_body))
  | .assert_ i f_test f_msg => i :: (labelsE f_test ++ (labelsEs f_msg))
  | .import_ i f_names => [i]
  | .importFrom i f_module f_names f_level => [i]
  | .global i f_names => [i]
  | .nonlocal i f_names => [i]
  | .expr i f_value => i :: (labelsE f_value)
  | .pass i => [i]
  | .break_ i => [i]
  | .continue_ i => [i]
  | .other i f_kind f_exprs f_blocks => i :: (labelsEs f_exprs ++ (labelsSs f_blocks))
def labelsSs : List Stmt → List Nat
  | [] => []
  | s :: ss => labelsS s ++ labelsSs ss
end

/-! ## `ast_util.copy_clean`: every node of the copy gets the next unused label -/
mutual
def copyE : Expr → Nat → Expr × Nat
  | .noneMarker, n => (.noneMarker, n)
  | .name _ f_s f_ctx, n =>
      (.name n f_s f_ctx, n + 1)
  | .attr _ f_value f_attr f_ctx, n =>
      let r0 := copyE f_value (n + 1)
      (.attr n r0.1 f_attr f_ctx, r0.2)
  | .subscript _ f_value f_slice f_ctx, n =>
      let r0 := copyE f_value (n + 1)
      let r1 := copyE f_slice (r0.2)
      (.subscript n r0.1 r1.1 f_ctx, r1.2)
  | .seq _ f_kind f_elts f_ctx, n =>
      let r0 := copyEs f_elts (n + 1)
      (.seq n f_kind r0.1 f_ctx, r0.2)
  | .starred _ f_value f_ctx, n =>
      let r0 := copyE f_value (n + 1)
      (.starred n r0.1 f_ctx, r0.2)
  | .const _ f_kind f_repr, n =>
      (.const n f_kind f_repr, n + 1)
  | .call _ f_func f_args f_keywords, n =>
      let r0 := copyE f_func (n + 1)
      let r1 := copyEs f_args (r0.2)
      let r2 := copyEs f_keywords (r1.2)
      (.call n r0.1 r1.1 r2.1, r2.2)
  | .keyword _ f_arg f_hasArg f_value, n =>
      let r0 := copyE f_value (n + 1)
      (.keyword n f_arg f_hasArg r0.1, r0.2)
  | .boolop _ f_isAnd f_values, n =>
      let r0 := copyEs f_values (n + 1)
      (.boolop n f_isAnd r0.1, r0.2)
  | .unary _ f_op f_operand, n =>
      let r0 := copyE f_operand (n + 1)
      (.unary n f_op r0.1, r0.2)
  | .binop _ f_op f_left f_right, n =>
      let r0 := copyE f_left (n + 1)
      let r1 := copyE f_right (r0.2)
      (.binop n f_op r0.1 r1.1, r1.2)
  | .compare _ f_left f_ops f_comparators, n =>
      let r0 := copyE f_left (n + 1)
      let r1 := copyEs f_comparators (r0.2)
      (.compare n r0.1 f_ops r1.1, r1.2)
  | .ifexp _ f_test f_body f_orelse, n =>
      let r0 := copyE f_test (n + 1)
      let r1 := copyE f_body (r0.2)
      let r2 := copyE f_orelse (r1.2)
      (.ifexp n r0.1 r1.1 r2.1, r2.2)
  | .lambda _ f_args f_body, n =>
      let r0 := copyE f_args (n + 1)
      let r1 := copyE f_body (r0.2)
      (.lambda n r0.1 r1.1, r1.2)
  | .namedexpr _ f_target f_value, n =>
      let r0 := copyE f_target (n + 1)
      let r1 := copyE f_value (r0.2)
      (.namedexpr n r0.1 r1.1, r1.2)
  | .comp _ f_kind f_elts f_generators, n =>
      let r0 := copyEs f_elts (n + 1)
      let r1 := copyEs f_generators (r0.2)
      (.comp n f_kind r0.1 r1.1, r1.2)
  | .comprehension _ f_target f_iter f_ifs f_isAsync, n =>
      let r0 := copyE f_target (n + 1)
      let r1 := copyE f_iter (r0.2)
      let r2 := copyEs f_ifs (r1.2)
      (.comprehension n r0.1 r1.1 r2.1 f_isAsync, r2.2)
  | .arguments _ f_posonly f_args f_vararg f_kwonly f_kwDefaults f_kwarg f_defaults, n =>
      let r0 := copyEs f_posonly (n + 1)
      let r1 := copyEs f_args (r0.2)
      let r2 := copyEs f_vararg (r1.2)
      let r3 := copyEs f_kwonly (r2.2)
      let r4 := copyEs f_kwDefaults (r3.2)
      let r5 := copyEs f_kwarg (r4.2)
      let r6 := copyEs f_defaults (r5.2)
      (.arguments n r0.1 r1.1 r2.1 r3.1 r4.1 r5.1 r6.1, r6.2)
  | .arg _ f_name f_annotation, n =>
      let r0 := copyEs f_annotation (n + 1)
      (.arg n f_name r0.1, r0.2)
  | .withitem _ f_contextExpr f_optionalVars, n =>
      let r0 := copyE f_contextExpr (n + 1)
      let r1 := copyEs f_optionalVars (r0.2)
      (.withitem n r0.1 r1.1, r1.2)
  | .other _ f_kind f_attrs f_kids, n =>
      let r0 := copyEs f_kids (n + 1)
      (.other n f_kind f_attrs r0.1, r0.2)
def copyEs : List Expr → Nat → List Expr × Nat
  | [], n => ([], n)
  | e :: es, n =>
      let r0 := copyE e n
      let r1 := copyEs es r0.2
      (r0.1 :: r1.1, r1.2)
end
mutual
def copyS : Stmt → Nat → Stmt × Nat
  | .functionDef _ f_name f_args f_body f_decorators f_returns f_isAsync, n =>
      let r0 := copyE f_args (n + 1)
      let r1 := copySs f_body (r0.2)
      let r2 := copyEs f_decorators (r1.2)
      let r3 := copyEs f_returns (r2.2)
      (.functionDef n f_name r0.1 r1.1 r2.1 r3.1 f_isAsync, r3.2)
  | .classDef _ f_name f_bases f_keywords f_body f_decorators, n =>
      let r0 := copyEs f_bases (n + 1)
      let r1 := copyEs f_keywords (r0.2)
      let r2 := copySs f_body (r1.2)
      let r3 := copyEs f_decorators (r2.2)
      (.classDef n f_name r0.1 r1.1 r2.1 r3.1, r3.2)
  | .ret _ f_value, n =>
      let r0 := copyEs f_value (n + 1)
      (.ret n r0.1, r0.2)
  | .delete _ f_targets, n =>
      let r0 := copyEs f_targets (n + 1)
      (.delete n r0.1, r0.2)
  | .assign _ f_targets f_value, n =>
      let r0 := copyEs f_targets (n + 1)
      let r1 := copyE f_value (r0.2)
      (.assign n r0.1 r1.1, r1.2)
  | .augAssign _ f_target f_op f_value, n =>
      let r0 := copyE f_target (n + 1)
      let r1 := copyE f_value (r0.2)
      (.augAssign n r0.1 f_op r1.1, r1.2)
  | .annAssign _ f_target f_annotation f_value f_simple, n =>
      let r0 := copyE f_target (n + 1)
      let r1 := copyE f_annotation (r0.2)
      let r2 := copyEs f_value (r1.2)
      (.annAssign n r0.1 r1.1 r2.1 f_simple, r2.2)
  | .for_ _ f_target f_iter f_body f_orelse f_extraTest f_isAsync, n =>
      let r0 := copyE f_target (n + 1)
      let r1 := copyE f_iter (r0.2)
      let r2 := copySs f_body (r1.2)
      let r3 := copySs f_orelse (r2.2)
      let r4 := copyEs f_extraTest (r3.2)
      (.for_ n r0.1 r1.1 r2.1 r3.1 r4.1 f_isAsync, r4.2)
  | .while_ _ f_test f_body f_orelse, n =>
      let r0 := copyE f_test (n + 1)
      let r1 := copySs f_body (r0.2)
      let r2 := copySs f_orelse (r1.2)
      (.while_ n r0.1 r1.1 r2.1, r2.2)
  | .if_ _ f_test f_body f_orelse, n =>
      let r0 := copyE f_test (n + 1)
      let r1 := copySs f_body (r0.2)
      let r2 := copySs f_orelse (r1.2)
      (.if_ n r0.1 r1.1 r2.1, r2.2)
  | .with_ _ f_items f_body f_isAsync, n =>
      let r0 := copyEs f_items (n + 1)
      let r1 := copySs f_body (r0.2)
      (.with_ n r0.1 r1.1 f_isAsync, r1.2)
  | .raise _ f_exc f_cause, n =>
      let r0 := copyEs f_exc (n + 1)
      let r1 := copyEs f_cause (r0.2)
      (.raise n r0.1 r1.1, r1.2)
  | .try_ _ f_body f_handlers f_orelse f_finalbody, n =>
      let r0 := copySs f_body (n + 1)
      let r1 := copySs f_handlers (r0.2)
      let r2 := copySs f_orelse (r1.2)
      let r3 := copySs f_finalbody (r2.2)
      (.try_ n r0.1 r1.1 r2.1 r3.1, r3.2)
  | .handler _ f_type_ f_name f_body, n =>
      let r0 := copyEs f_type_ (n + 1)
      let r1 := copySs f_body (r0.2)
      (.handler n r0.1 f_name r1.1, r1.2)
  | .assert_ _ f_test f_msg, n =>
      let r0 := copyE f_test (n + 1)
      let r1 := copyEs f_msg (r0.2)
      (.assert_ n r0.1 r1.1, r1.2)
  | .import_ _ f_names, n =>
      (.import_ n f_names, n + 1)
  | .importFrom _ f_module f_names f_level, n =>
      (.importFrom n f_module f_names f_level, n + 1)
  | .global _ f_names, n =>
      (.global n f_names, n + 1)
  | .nonlocal _ f_names, n =>
      (.nonlocal n f_names, n + 1)
  | .expr _ f_value, n =>
      let r0 := copyE f_value (n + 1)
      (.expr n r0.1, r0.2)
  | .pass _, n =>
      (.pass n, n + 1)
  | .break_ _, n =>
      (.break_ n, n + 1)
  | .continue_ _, n =>
      (.continue_ n, n + 1)
  | .other _ f_kind f_exprs f_blocks, n =>
      let r0 := copyEs f_exprs (n + 1)
      let r1 := copySs f_blocks (r0.2)
      (.other n f_kind r0.1 r1.1, r1.2)
def copySs : List Stmt → Nat → List Stmt × Nat
  | [], n => ([], n)
  | s :: ss, n =>
      let r0 := copyS s n
      let r1 := copySs ss r0.2
      (r0.1 :: r1.1, r1.2)
end

/-! ## `ContextAdjuster` -/

/-- `hasattr(node, 'ctx')` on a freshly copied node -/
def hasCtxField : Expr → Bool
  | .name .. | .attr .. | .subscript .. | .starred .. => true
  | .seq _ k _ _ => k != .set
  | _ => false

mutual
/-- `ContextAdjuster(c).visit(e)`: the override is `c` at `e`. -/
def adjust (c : Ctx) : Expr → Expr
  | .noneMarker => .noneMarker
  | .name i s _ => .name i s c
  | .attr i v a _ => .attr i (adjust .load v) a c
  | .subscript i v s _ => .subscript i (adjust .load v) (adjust .load s) c
  | .seq i k es c' => .seq i k (adjustEs c es) (if k = .set then c' else c)
  | .starred i v c' => .starred i (adjust c v) c'                       -- no visit_Starred: ctx untouched
  | .const i k r => .const i k r
  | .call i f as ks => .call i f as ks                                    -- override off below
  | .lambda i a b => .lambda i a b                                        -- override off below
  | .comprehension i t it ifs a => .comprehension i t it ifs a            -- override off below
  | .keyword i a h v => .keyword i a h (adjust c v)
  | .boolop i o vs => .boolop i o (adjustEs c vs)
  | .unary i o e => .unary i o (adjust c e)
  | .binop i o l r => .binop i o (adjust c l) (adjust c r)
  | .compare i l ops rs => .compare i (adjust c l) ops (adjustEs c rs)
  | .ifexp i t b e => .ifexp i (adjust c t) (adjust c b) (adjust c e)
  | .namedexpr i t v => .namedexpr i (adjust c t) (adjust c v)            -- target overwritten as well
  | .comp i k es gs => .comp i k (adjustEs c es) (adjustEs c gs)
  | .arguments i po ar va ko kd kw df =>
      .arguments i (adjustEs c po) (adjustEs c ar) (adjustEs c va) (adjustEs c ko) (adjustEs c kd) (adjustEs c kw) (adjustEs c df)
  | .arg i nm an => .arg i nm (adjustEs c an)
  | .withitem i ce ov => .withitem i (adjust c ce) (adjustEs c ov)
  | .other i k attrs kids => if k = "Dict" then .other i k attrs kids else .other i k attrs (adjustEs c kids)
def adjustEs (c : Ctx) : List Expr → List Expr
  | [] => []
  | e :: es => adjust c e :: adjustEs c es
end

/-- the adjuster is only run on replacement nodes that have a `ctx` attribute -/
def adjTop (c : Ctx) (e : Expr) : Expr := if hasCtxField e then adjust c e else e

mutual
/-- Decidable sufficient condition for `adjust c e` to be context-well-formed at a position expecting `c`
(given that `e` was well-formed where it came from): no `NamedExpr`, no `Starred` of another ctx and no
`with`-item variable is reached with the override on, and non-assignable nodes are reached only with `Load`. -/
def exposedOk (c : Ctx) : Expr → Bool
  | .noneMarker => true
  | .name .. => true
  | .attr _ v _ _ => exposedOk .load v
  | .subscript _ v s _ => exposedOk .load v && exposedOk .load s
  | .seq _ k es _ => (k != .set || c == .load) && exposedOkEs c es
  | .starred _ v c' => c' == c && exposedOk c v
  | .const .. => c == .load
  | .call .. => c == .load
  | .lambda .. => c == .load
  | .comprehension .. => c == .load
  | .keyword _ _ _ v => c == .load && exposedOk c v
  | .boolop _ _ vs => c == .load && exposedOkEs c vs
  | .unary _ _ e => c == .load && exposedOk c e
  | .binop _ _ l r => c == .load && exposedOk c l && exposedOk c r
  | .compare _ l _ rs => c == .load && exposedOk c l && exposedOkEs c rs
  | .ifexp _ t b e => c == .load && exposedOk c t && exposedOk c b && exposedOk c e
  | .namedexpr .. => false
  | .comp _ _ es gs => c == .load && exposedOkEs c es && exposedOkEs c gs
  | .arguments _ po ar va ko kd kw df =>
      c == .load && exposedOkEs c po && exposedOkEs c ar && exposedOkEs c va && exposedOkEs c ko && exposedOkEs c kd
        && exposedOkEs c kw && exposedOkEs c df
  | .arg _ _ an => c == .load && exposedOkEs c an
  | .withitem _ ce ov => c == .load && exposedOk c ce && ov.isEmpty
  | .other _ k _ kids => c == .load && (k == "Dict" || exposedOkEs c kids)
def exposedOkEs (c : Ctx) : List Expr → Bool
  | [] => true
  | e :: es => exposedOk c e && exposedOkEs c es
end

/-! ## bindings -/

/-- value bound to a placeholder name (after `_convert_to_ast`) -/
inductive Binding where
  | node (e : Expr)            -- one AST node (also: a string / QN)
  | nodes (es : List Expr)     -- list or tuple of expression-side nodes (expressions, keywords, args)
  | stmt (s : Stmt)
  | stmts (ss : List Stmt)
  deriving Repr, Inhabited

abbrev Bindings := List (String × Binding)

def Binding.exprs : Binding → List Expr
  | .node e => [e]
  | .nodes es => es
  | _ => []

def Binding.labels : Binding → List Nat
  | .node e => labelsE e
  | .nodes es => labelsEs es
  | .stmt s => labelsS s
  | .stmts ss => labelsSs ss

def bindingLabels : Bindings → List Nat
  | [] => []
  | (_, b) :: r => b.labels ++ bindingLabels r

def maxLabel (b : Bindings) : Nat := (bindingLabels b).foldl max 0

inductive TemplErr where
  | notSingle            -- list/tuple of length ≠ 1 (or a changed length) in a single-node / positional field
  | stmtInExprPosition
  | exprInStmtPosition
  | keywordRepl          -- ValueError: keyword may only be replaced by keyword(s)
  | functionNameRepl     -- ValueError: function name can only be replaced by a Name node
  | attributeRepl        -- ValueError: attribute can only be replaced by a Name node
  | argRepl              -- statement(s) bound to a parameter placeholder
  | notExpression        -- replace_as_expression: ValueError
  deriving DecidableEq, Repr, Inhabited

abbrev R (α : Type) := Except TemplErr (α × Nat)

@[inline] def R.bind {α β : Type} (x : R α) (f : α → Nat → R β) : R β :=
  match x with
  | .error e => .error e
  | .ok (a, n) => f a n

/-- exactly one node must come back for a single-node field -/
def single (x : R (List Expr)) : R Expr :=
  x.bind fun l n => match l with
    | [a] => .ok (a, n)
    | _ => .error .notSingle

/-- positional / optional fields: the number of nodes must not change -/
def sameLen (orig : List Expr) (x : R (List Expr)) : R (List Expr) :=
  x.bind fun l n => if l.length = orig.length then .ok (l, n) else .error .notSingle

/-- `arguments.defaults` (aligned with the *last* parameters): may shrink, must not grow -/
def atMost (orig : List Expr) (x : R (List Expr)) : R (List Expr) :=
  x.bind fun l n => if l.length ≤ orig.length then .ok (l, n) else .error .notSingle

def isName : Expr → Bool
  | .name .. => true
  | _ => false

def isKeyword : Expr → Bool
  | .keyword .. => true
  | _ => false

/-- string a function / attribute name placeholder is replaced with -/
def identOf (b : Bindings) (s : String) (err : TemplErr) : Except TemplErr String :=
  match b.lookup s with
  | none => .ok s
  | some (.node (.name _ id _)) => .ok id
  | some _ => .error err

/-- `visit_arg` on the nodes bound to a parameter placeholder: a `Name` becomes a fresh `arg`, anything else is
inserted without a copy (its label is kept). -/
def argRepl : List Expr → Nat → List Expr × Nat
  | [], n => ([], n)
  | .name _ id _ :: r, n => let t := argRepl r (n + 1); (.arg n id [] :: t.1, t.2)
  | e :: r, n => let t := argRepl r n; (e :: t.1, t.2)

/-! ## `ReplaceTransformer` -/
mutual
/-- visit of one expression-side node: the list of nodes that take its place -/
def instE (b : Bindings) : Expr → Nat → R (List Expr)
  | .noneMarker, n => .ok ([.noneMarker], n)
  | .name _ s c, n =>
      match b.lookup s with
      | none => .ok ([.name n s c], n + 1)
      | some (.node e) => let r := copyE e n; .ok ([adjTop c r.1], r.2)
      | some (.nodes es) => let r := copyEs es n; .ok (r.1.map (adjTop c), r.2)
      | some (.stmts []) => .ok ([], n)
      | some _ => .error .stmtInExprPosition
  | .attr _ f_value f_attr f_ctx, n =>
      (single (instE b f_value (n + 1))).bind fun v' n1 =>
        match identOf b f_attr .attributeRepl with
        | .ok a' => .ok ([.attr n v' a' f_ctx], n1)
        | .error e => .error e
  | .keyword _ f_arg f_hasArg f_value, n =>
      match (if f_hasArg then b.lookup f_arg else none) with
      | some bd =>
          if bd.exprs.all isKeyword && !bd.exprs.isEmpty then (let r := copyEs bd.exprs n; .ok (r.1, r.2))
          else .error .keywordRepl
      | none => (single (instE b f_value (n + 1))).bind fun v' n1 => .ok ([.keyword n f_arg f_hasArg v'], n1)
  | .arg _ f_name f_annotation, n =>
      match b.lookup f_name with
      | none => let r := copyEs f_annotation (n + 1); .ok ([.arg n f_name r.1], r.2)
      | some (.node e) => let r := argRepl [e] n; .ok (r.1, r.2)
      | some (.nodes es) => let r := argRepl es n; .ok (r.1, r.2)
      | some (.stmts []) => .ok ([], n)
      | some _ => .error .argRepl
  | .subscript _ f_value f_slice f_ctx, n =>
      (single (instE b f_value (n + 1))).bind fun f_value' n0 =>
      (single (instE b f_slice (n0))).bind fun f_slice' n1 =>
      .ok ([.subscript n f_value' f_slice' f_ctx], n1)
  | .seq _ f_kind f_elts f_ctx, n =>
      (instEs b f_elts (n + 1)).bind fun f_elts' n0 =>
      .ok ([.seq n f_kind f_elts' f_ctx], n0)
  | .starred _ f_value f_ctx, n =>
      (single (instE b f_value (n + 1))).bind fun f_value' n0 =>
      .ok ([.starred n f_value' f_ctx], n0)
  | .const _ f_kind f_repr, n =>
      .ok ([.const n f_kind f_repr], n + 1)
  | .call _ f_func f_args f_keywords, n =>
      (single (instE b f_func (n + 1))).bind fun f_func' n0 =>
      (instEs b f_args (n0)).bind fun f_args' n1 =>
      (instEs b f_keywords (n1)).bind fun f_keywords' n2 =>
      .ok ([.call n f_func' f_args' f_keywords'], n2)
  | .boolop _ f_isAnd f_values, n =>
      (instEs b f_values (n + 1)).bind fun f_values' n0 =>
      .ok ([.boolop n f_isAnd f_values'], n0)
  | .unary _ f_op f_operand, n =>
      (single (instE b f_operand (n + 1))).bind fun f_operand' n0 =>
      .ok ([.unary n f_op f_operand'], n0)
  | .binop _ f_op f_left f_right, n =>
      (single (instE b f_left (n + 1))).bind fun f_left' n0 =>
      (single (instE b f_right (n0))).bind fun f_right' n1 =>
      .ok ([.binop n f_op f_left' f_right'], n1)
  | .compare _ f_left f_ops f_comparators, n =>
      (single (instE b f_left (n + 1))).bind fun f_left' n0 =>
      (sameLen f_comparators (instEs b f_comparators (n0))).bind fun f_comparators' n1 =>
      .ok ([.compare n f_left' f_ops f_comparators'], n1)
  | .ifexp _ f_test f_body f_orelse, n =>
      (single (instE b f_test (n + 1))).bind fun f_test' n0 =>
      (single (instE b f_body (n0))).bind fun f_body' n1 =>
      (single (instE b f_orelse (n1))).bind fun f_orelse' n2 =>
      .ok ([.ifexp n f_test' f_body' f_orelse'], n2)
  | .lambda _ f_args f_body, n =>
      (single (instE b f_args (n + 1))).bind fun f_args' n0 =>
      (single (instE b f_body (n0))).bind fun f_body' n1 =>
      .ok ([.lambda n f_args' f_body'], n1)
  | .namedexpr _ f_target f_value, n =>
      (single (instE b f_target (n + 1))).bind fun f_target' n0 =>
      (single (instE b f_value (n0))).bind fun f_value' n1 =>
      .ok ([.namedexpr n f_target' f_value'], n1)
  | .comp _ f_kind f_elts f_generators, n =>
      (sameLen f_elts (instEs b f_elts (n + 1))).bind fun f_elts' n0 =>
      (instEs b f_generators (n0)).bind fun f_generators' n1 =>
      .ok ([.comp n f_kind f_elts' f_generators'], n1)
  | .comprehension _ f_target f_iter f_ifs f_isAsync, n =>
      (single (instE b f_target (n + 1))).bind fun f_target' n0 =>
      (single (instE b f_iter (n0))).bind fun f_iter' n1 =>
      (instEs b f_ifs (n1)).bind fun f_ifs' n2 =>
      .ok ([.comprehension n f_target' f_iter' f_ifs' f_isAsync], n2)
  | .arguments _ f_posonly f_args f_vararg f_kwonly f_kwDefaults f_kwarg f_defaults, n =>
      (instEs b f_posonly (n + 1)).bind fun f_posonly' n0 =>
      (instEs b f_args (n0)).bind fun f_args' n1 =>
      (sameLen f_vararg (instEs b f_vararg (n1))).bind fun f_vararg' n2 =>
      (instEs b f_kwonly (n2)).bind fun f_kwonly' n3 =>
      (sameLen f_kwDefaults (instEs b f_kwDefaults (n3))).bind fun f_kwDefaults' n4 =>
      (sameLen f_kwarg (instEs b f_kwarg (n4))).bind fun f_kwarg' n5 =>
      (atMost f_defaults (instEs b f_defaults (n5))).bind fun f_defaults' n6 =>
      .ok ([.arguments n f_posonly' f_args' f_vararg' f_kwonly' f_kwDefaults' f_kwarg' f_defaults'], n6)
  | .withitem _ f_contextExpr f_optionalVars, n =>
      (single (instE b f_contextExpr (n + 1))).bind fun f_contextExpr' n0 =>
      (sameLen f_optionalVars (instEs b f_optionalVars (n0))).bind fun f_optionalVars' n1 =>
      .ok ([.withitem n f_contextExpr' f_optionalVars'], n1)
  | .other _ f_kind f_attrs f_kids, n =>
      (sameLen f_kids (instEs b f_kids (n + 1))).bind fun f_kids' n0 =>
      .ok ([.other n f_kind f_attrs f_kids'], n0)
def instEs (b : Bindings) : List Expr → Nat → R (List Expr)
  | [], n => .ok ([], n)
  | e :: es, n =>
      (instE b e n).bind fun l n1 =>
      (instEs b es n1).bind fun r n2 =>
      .ok (l ++ r, n2)
end

mutual
def instS (b : Bindings) : Stmt → Nat → R (List Stmt)
  | .expr _ f_value, n =>
      match f_value with
      | .name _ s c =>
          match b.lookup s with
          | none => .ok ([.expr n (.name (n + 1) s c)], n + 2)
          | some (.stmt st) => let r := copyS st n; .ok ([r.1], r.2)
          | some (.stmts ss) => let r := copySs ss n; .ok (r.1, r.2)
          | some (.nodes []) => .ok ([], n)
          | some _ => .error .exprInStmtPosition
      | _ => (single (instE b f_value (n + 1))).bind fun v' n1 => .ok ([.expr n v'], n1)
  | .functionDef _ f_name f_args f_body f_decorators f_returns f_isAsync, n =>
      (single (instE b f_args (n + 1))).bind fun f_args' n0 =>
      (instSs b f_body (n0)).bind fun f_body' n1 =>
      (instEs b f_decorators (n1)).bind fun f_decorators' n2 =>
      (sameLen f_returns (instEs b f_returns (n2))).bind fun f_returns' n3 =>
      match (if f_isAsync then .ok f_name else identOf b f_name .functionNameRepl) with
      | .ok nm => .ok ([.functionDef n nm f_args' f_body' f_decorators' f_returns' f_isAsync], n3)
      | .error e => .error e
  | .classDef _ f_name f_bases f_keywords f_body f_decorators, n =>
      (instEs b f_bases (n + 1)).bind fun f_bases' n0 =>
      (instEs b f_keywords (n0)).bind fun f_keywords' n1 =>
      (instSs b f_body (n1)).bind fun f_body' n2 =>
      (instEs b f_decorators (n2)).bind fun f_decorators' n3 =>
      .ok ([.classDef n f_name f_bases' f_keywords' f_body' f_decorators'], n3)
  | .ret _ f_value, n =>
      (sameLen f_value (instEs b f_value (n + 1))).bind fun f_value' n0 =>
      .ok ([.ret n f_value'], n0)
  | .delete _ f_targets, n =>
      (instEs b f_targets (n + 1)).bind fun f_targets' n0 =>
      .ok ([.delete n f_targets'], n0)
  | .assign _ f_targets f_value, n =>
      (instEs b f_targets (n + 1)).bind fun f_targets' n0 =>
      (single (instE b f_value (n0))).bind fun f_value' n1 =>
      .ok ([.assign n f_targets' f_value'], n1)
  | .augAssign _ f_target f_op f_value, n =>
      (single (instE b f_target (n + 1))).bind fun f_target' n0 =>
      (single (instE b f_value (n0))).bind fun f_value' n1 =>
      .ok ([.augAssign n f_target' f_op f_value'], n1)
  | .annAssign _ f_target f_annotation f_value f_simple, n =>
      (single (instE b f_target (n + 1))).bind fun f_target' n0 =>
      (single (instE b f_annotation (n0))).bind fun f_annotation' n1 =>
      (sameLen f_value (instEs b f_value (n1))).bind fun f_value' n2 =>
      .ok ([.annAssign n f_target' f_annotation' f_value' f_simple], n2)
  | .for_ _ f_target f_iter f_body f_orelse f_extraTest f_isAsync, n =>
      (single (instE b f_target (n + 1))).bind fun f_target' n0 =>
      (single (instE b f_iter (n0))).bind fun f_iter' n1 =>
      (instSs b f_body (n1)).bind fun f_body' n2 =>
      (instSs b f_orelse (n2)).bind fun f_orelse' n3 =>
      (sameLen f_extraTest (instEs b f_extraTest (n3))).bind fun f_extraTest' n4 =>
      .ok ([.for_ n f_target' f_iter' f_body' f_orelse' f_extraTest' f_isAsync], n4)
  | .while_ _ f_test f_body f_orelse, n =>
      (single (instE b f_test (n + 1))).bind fun f_test' n0 =>
      (instSs b f_body (n0)).bind fun f_body' n1 =>
      (instSs b f_orelse (n1)).bind fun f_orelse' n2 =>
      .ok ([.while_ n f_test' f_body' f_orelse'], n2)
  | .if_ _ f_test f_body f_orelse, n =>
      (single (instE b f_test (n + 1))).bind fun f_test' n0 =>
      (instSs b f_body (n0)).bind fun f_body' n1 =>
      (instSs b f_orelse (n1)).bind fun f_orelse' n2 =>
      .ok ([.if_ n f_test' f_body' f_orelse'], n2)
  | .with_ _ f_items f_body f_isAsync, n =>
      (instEs b f_items (n + 1)).bind fun f_items' n0 =>
      (instSs b f_body (n0)).bind fun f_body' n1 =>
      .ok ([.with_ n f_items' f_body' f_isAsync], n1)
  | .raise _ f_exc f_cause, n =>
      (sameLen f_exc (instEs b f_exc (n + 1))).bind fun f_exc' n0 =>
      (sameLen f_cause (instEs b f_cause (n0))).bind fun f_cause' n1 =>
      .ok ([.raise n f_exc' f_cause'], n1)
  | .try_ _ f_body f_handlers f_orelse f_finalbody, n =>
      (instSs b f_body (n + 1)).bind fun f_body' n0 =>
      (instSs b f_handlers (n0)).bind fun f_handlers' n1 =>
      (instSs b f_orelse (n1)).bind fun f_orelse' n2 =>
      (instSs b f_finalbody (n2)).bind fun f_finalbody' n3 =>
      .ok ([.try_ n f_body' f_handlers' f_orelse' f_finalbody'], n3)
  | .handler _ f_type_ f_name f_body, n =>
      (sameLen f_type_ (instEs b f_type_ (n + 1))).bind fun f_type_' n0 =>
      (instSs b f_body (n0)).bind fun f_body' n1 =>
      .ok ([.handler n f_type_' f_name f_body'], n1)
  | .assert_ _ f_test f_msg, n =>
      (single (instE b f_test (n + 1))).bind fun f_test' n0 =>
      (sameLen f_msg (instEs b f_msg (n0))).bind fun f_msg' n1 =>
      .ok ([.assert_ n f_test' f_msg'], n1)
  | .import_ _ f_names, n =>
      .ok ([.import_ n f_names], n + 1)
  | .importFrom _ f_module f_names f_level, n =>
      .ok ([.importFrom n f_module f_names f_level], n + 1)
  | .global _ f_names, n =>
      .ok ([.global n f_names], n + 1)
  | .nonlocal _ f_names, n =>
      .ok ([.nonlocal n f_names], n + 1)
  | .pass _, n =>
      .ok ([.pass n], n + 1)
  | .break_ _, n =>
      .ok ([.break_ n], n + 1)
  | .continue_ _, n =>
      .ok ([.continue_ n], n + 1)
  | .other _ f_kind f_exprs f_blocks, n =>
      (instEs b f_exprs (n + 1)).bind fun f_exprs' n0 =>
      (instSs b f_blocks (n0)).bind fun f_blocks' n1 =>
      .ok ([.other n f_kind f_exprs' f_blocks'], n1)
def instSs (b : Bindings) : List Stmt → Nat → R (List Stmt)
  | [], n => .ok ([], n)
  | s :: ss, n =>
      (instS b s n).bind fun l n1 =>
      (instSs b ss n1).bind fun r n2 =>
      .ok (l ++ r, n2)
end

/-- first label handed out: above every label of the inputs -/
def startLabel (b : Bindings) : Nat := maxLabel b + 1

/-- `templates.replace(template, **bindings)` for a template whose result is a statement list. -/
def instantiate (t : List Stmt) (b : Bindings) : Except TemplErr (List Stmt) :=
  match instSs b t (startLabel b) with
  | .ok (r, _) => .ok r
  | .error e => .error e

/-- `templates.replace(template, **bindings)` when the template is a bare placeholder bound to one expression-side
node: the result list holds that (copied, adjusted) node itself, not a statement. -/
def instantiateBare (t : List Stmt) (b : Bindings) : Except TemplErr Expr :=
  match t with
  | [.expr _ (.name _ s c)] =>
      match b.lookup s with
      | some (.node e) => .ok (adjTop c (copyE e (startLabel b)).1)
      | some (.nodes [e]) => .ok (adjTop c (copyE e (startLabel b)).1)
      | _ => .error .notExpression
  | _ => .error .notExpression

/-- `templates.replace_as_expression(template, **bindings)`: exactly one result node, an `Expr` statement (its value is
returned) or a bare `Name` (a top-level placeholder bound to a name). -/
def instantiateExpr (t : List Stmt) (b : Bindings) : Except TemplErr Expr :=
  match t with
  | [.expr i (.name j s c)] =>
      match b.lookup s with
      | some (.node e) =>
          let r := adjTop c (copyE e (startLabel b)).1
          if isName r then .ok r else .error .notExpression
      | some (.nodes [e]) =>
          let r := adjTop c (copyE e (startLabel b)).1
          if isName r then .ok r else .error .notExpression
      | none => .ok (.name (startLabel b + 1) s c)
      | some _ => .error .notExpression
  | _ =>
      match instSs b t (startLabel b) with
      | .ok ([.expr _ v], _) => .ok v
      | .ok _ => .error .notExpression
      | .error e => .error e

/-! ## hypotheses of the `_partial` theorems, as decidable predicates (these are the finding classes) -/

/-- one bound node is usable at a placeholder whose ctx is `c` -/
def useOk (c : Ctx) (x : Expr) : Bool := if hasCtxField x then exposedOk c x else c == .load

mutual
/-- every placeholder occurrence of the template is bound to nodes the adjuster can make well-formed there -/
def usesOkE (b : Bindings) : Expr → Bool
  | .noneMarker => true
  | .name _ s c => match b.lookup s with
      | some bd => bd.exprs.all (useOk c)
      | none => true
  | .keyword _ f_arg f_hasArg f_value =>
      match (if f_hasArg then b.lookup f_arg else none) with
      | some _ => true
      | none => usesOkE b f_value
  | .arg _ f_name _ => match b.lookup f_name with
      | some bd => bd.exprs.all (fun x => isName x || !hasCtxField x)
      | none => true
  | .attr _ f_value f_attr f_ctx => usesOkE b f_value
  | .subscript _ f_value f_slice f_ctx => usesOkE b f_value && (usesOkE b f_slice)
  | .seq _ f_kind f_elts f_ctx => usesOkEs b f_elts
  | .starred _ f_value f_ctx => usesOkE b f_value
  | .const _ f_kind f_repr => true
  | .call _ f_func f_args f_keywords => usesOkE b f_func && (usesOkEs b f_args && (usesOkEs b f_keywords))
  | .boolop _ f_isAnd f_values => usesOkEs b f_values
  | .unary _ f_op f_operand => usesOkE b f_operand
  | .binop _ f_op f_left f_right => usesOkE b f_left && (usesOkE b f_right)
  | .compare _ f_left f_ops f_comparators => usesOkE b f_left && (usesOkEs b f_comparators)
  | .ifexp _ f_test f_body f_orelse => usesOkE b f_test && (usesOkE b f_body && (usesOkE b f_orelse))
  | .lambda _ f_args f_body => usesOkE b f_args && (usesOkE b f_body)
  | .namedexpr _ f_target f_value => usesOkE b f_target && (usesOkE b f_value)
  | .comp _ f_kind f_elts f_generators => usesOkEs b f_elts && (usesOkEs b f_generators)
  | .comprehension _ f_target f_iter f_ifs f_isAsync => usesOkE b f_target && (usesOkE b f_iter && (usesOkEs b f_ifs))
  | .arguments _ f_posonly f_args f_vararg f_kwonly f_kwDefaults f_kwarg f_defaults => usesOkEs b f_posonly && (usesOkEs b f_args && (usesOkEs b f_vararg && (usesOkEs b f_kwonly && (usesOkEs b f_kwDefaults && (usesOkEs b f_kwarg && (usesOkEs b f_defaults))))))
  | .withitem _ f_contextExpr f_optionalVars => usesOkE b f_contextExpr && (usesOkEs b f_optionalVars)
  | .other _ f_kind f_attrs f_kids => usesOkEs b f_kids
def usesOkEs (b : Bindings) : List Expr → Bool
  | [] => true
  | e :: es => usesOkE b e && usesOkEs b es
end
mutual
def usesOkS (b : Bindings) : Stmt → Bool
  | .expr _ f_value =>
      match f_value with
      | .name _ s c => match b.lookup s with
          | none => true
          | some (.stmt _) | some (.stmts _) => true
          | some bd => bd.exprs.all (useOk c)
      | _ => usesOkE b f_value
  | .functionDef _ f_name f_args f_body f_decorators f_returns f_isAsync => usesOkE b f_args && (usesOkSs b f_body && (usesOkEs b f_decorators && (usesOkEs b f_returns)))
  | .classDef _ f_name f_bases f_keywords f_body f_decorators => usesOkEs b f_bases && (usesOkEs b f_keywords && (usesOkSs b f_body && (usesOkEs b f_decorators)))
  | .ret _ f_value => usesOkEs b f_value
  | .delete _ f_targets => usesOkEs b f_targets
  | .assign _ f_targets f_value => usesOkEs b f_targets && (usesOkE b f_value)
  | .augAssign _ f_target f_op f_value => usesOkE b f_target && (usesOkE b f_value)
  | .annAssign _ f_target f_annotation f_value f_simple => usesOkE b f_target && (usesOkE b f_annotation && (usesOkEs b f_value))
  | .for_ _ f_target f_iter f_body f_orelse f_extraTest f_isAsync => usesOkE b f_target && (usesOkE b f_iter && (usesOkSs b f_body && (usesOkSs b f_orelse && (usesOkEs b f_extraTest))))
  | .while_ _ f_test f_body f_orelse => usesOkE b f_test && (usesOkSs b f_body && (usesOkSs b f_orelse))
  | .if_ _ f_test f_body f_orelse => usesOkE b f_test && (usesOkSs b f_body && (usesOkSs b f_orelse))
  | .with_ _ f_items f_body f_isAsync => usesOkEs b f_items && (usesOkSs b f_body)
  | .raise _ f_exc f_cause => usesOkEs b f_exc && (usesOkEs b f_cause)
  | .try_ _ f_body f_handlers f_orelse f_finalbody => usesOkSs b f_body && (usesOkSs b f_handlers && (usesOkSs b f_orelse && (usesOkSs b f_finalbody)))
  | .handler _ f_type_ f_name f_body => usesOkEs b f_type_ && (usesOkSs b f_body)
  | .assert_ _ f_test f_msg => usesOkE b f_test && (usesOkEs b f_msg)
  | .import_ _ f_names => true
  | .importFrom _ f_module f_names f_level => true
  | .global _ f_names => true
  | .nonlocal _ f_names => true
  | .pass _ => true
  | .break_ _ => true
  | .continue_ _ => true
  | .other _ f_kind f_exprs f_blocks => usesOkEs b f_exprs && (usesOkSs b f_blocks)
def usesOkSs (b : Bindings) : List Stmt → Bool
  | [] => true
  | s :: ss => usesOkS b s && usesOkSs b ss
end

mutual
/-- every parameter-name placeholder of the template is bound to `Name` nodes only (so `visit_arg` builds fresh
`arg` nodes instead of inserting the bound objects themselves) -/
def argsOkE (b : Bindings) : Expr → Bool
  | .noneMarker => true
  | .name .. => true
  | .keyword _ f_arg f_hasArg f_value =>
      match (if f_hasArg then b.lookup f_arg else none) with
      | some _ => true
      | none => argsOkE b f_value
  | .arg _ f_name _ => match b.lookup f_name with
      | some bd => bd.exprs.all isName
      | none => true
  | .attr _ f_value f_attr f_ctx => argsOkE b f_value
  | .subscript _ f_value f_slice f_ctx => argsOkE b f_value && (argsOkE b f_slice)
  | .seq _ f_kind f_elts f_ctx => argsOkEs b f_elts
  | .starred _ f_value f_ctx => argsOkE b f_value
  | .const _ f_kind f_repr => true
  | .call _ f_func f_args f_keywords => argsOkE b f_func && (argsOkEs b f_args && (argsOkEs b f_keywords))
  | .boolop _ f_isAnd f_values => argsOkEs b f_values
  | .unary _ f_op f_operand => argsOkE b f_operand
  | .binop _ f_op f_left f_right => argsOkE b f_left && (argsOkE b f_right)
  | .compare _ f_left f_ops f_comparators => argsOkE b f_left && (argsOkEs b f_comparators)
  | .ifexp _ f_test f_body f_orelse => argsOkE b f_test && (argsOkE b f_body && (argsOkE b f_orelse))
  | .lambda _ f_args f_body => argsOkE b f_args && (argsOkE b f_body)
  | .namedexpr _ f_target f_value => argsOkE b f_target && (argsOkE b f_value)
  | .comp _ f_kind f_elts f_generators => argsOkEs b f_elts && (argsOkEs b f_generators)
  | .comprehension _ f_target f_iter f_ifs f_isAsync => argsOkE b f_target && (argsOkE b f_iter && (argsOkEs b f_ifs))
  | .arguments _ f_posonly f_args f_vararg f_kwonly f_kwDefaults f_kwarg f_defaults => argsOkEs b f_posonly && (argsOkEs b f_args && (argsOkEs b f_vararg && (argsOkEs b f_kwonly && (argsOkEs b f_kwDefaults && (argsOkEs b f_kwarg && (argsOkEs b f_defaults))))))
  | .withitem _ f_contextExpr f_optionalVars => argsOkE b f_contextExpr && (argsOkEs b f_optionalVars)
  | .other _ f_kind f_attrs f_kids => argsOkEs b f_kids
def argsOkEs (b : Bindings) : List Expr → Bool
  | [] => true
  | e :: es => argsOkE b e && argsOkEs b es
end
mutual
def argsOkS (b : Bindings) : Stmt → Bool
  | .expr _ f_value =>
      match f_value with
      | .name .. => true
      | _ => argsOkE b f_value
  | .functionDef _ f_name f_args f_body f_decorators f_returns f_isAsync => argsOkE b f_args && (argsOkSs b f_body && (argsOkEs b f_decorators && (argsOkEs b f_returns)))
  | .classDef _ f_name f_bases f_keywords f_body f_decorators => argsOkEs b f_bases && (argsOkEs b f_keywords && (argsOkSs b f_body && (argsOkEs b f_decorators)))
  | .ret _ f_value => argsOkEs b f_value
  | .delete _ f_targets => argsOkEs b f_targets
  | .assign _ f_targets f_value => argsOkEs b f_targets && (argsOkE b f_value)
  | .augAssign _ f_target f_op f_value => argsOkE b f_target && (argsOkE b f_value)
  | .annAssign _ f_target f_annotation f_value f_simple => argsOkE b f_target && (argsOkE b f_annotation && (argsOkEs b f_value))
  | .for_ _ f_target f_iter f_body f_orelse f_extraTest f_isAsync => argsOkE b f_target && (argsOkE b f_iter && (argsOkSs b f_body && (argsOkSs b f_orelse && (argsOkEs b f_extraTest))))
  | .while_ _ f_test f_body f_orelse => argsOkE b f_test && (argsOkSs b f_body && (argsOkSs b f_orelse))
  | .if_ _ f_test f_body f_orelse => argsOkE b f_test && (argsOkSs b f_body && (argsOkSs b f_orelse))
  | .with_ _ f_items f_body f_isAsync => argsOkEs b f_items && (argsOkSs b f_body)
  | .raise _ f_exc f_cause => argsOkEs b f_exc && (argsOkEs b f_cause)
  | .try_ _ f_body f_handlers f_orelse f_finalbody => argsOkSs b f_body && (argsOkSs b f_handlers && (argsOkSs b f_orelse && (argsOkSs b f_finalbody)))
  | .handler _ f_type_ f_name f_body => argsOkEs b f_type_ && (argsOkSs b f_body)
  | .assert_ _ f_test f_msg => argsOkE b f_test && (argsOkEs b f_msg)
  | .import_ _ f_names => true
  | .importFrom _ f_module f_names f_level => true
  | .global _ f_names => true
  | .nonlocal _ f_names => true
  | .pass _ => true
  | .break_ _ => true
  | .continue_ _ => true
  | .other _ f_kind f_exprs f_blocks => argsOkEs b f_exprs && (argsOkSs b f_blocks)
def argsOkSs (b : Bindings) : List Stmt → Bool
  | [] => true
  | s :: ss => argsOkS b s && argsOkSs b ss
end

/-! ## nodes that `visit_arg` puts into the result WITHOUT a copy (labels, in traversal order) -/
def notName (e : Expr) : Bool := !isName e

mutual
def sharedE (b : Bindings) : Expr → List Nat
  | .noneMarker => []
  | .name .. => []
  | .keyword _ f_arg f_hasArg f_value =>
      match (if f_hasArg then b.lookup f_arg else none) with
      | some _ => []
      | none => sharedE b f_value
  | .arg _ f_name _ => match b.lookup f_name with
      | some bd => labelsEs (bd.exprs.filter notName)
      | none => []
  | .attr _ f_value f_attr f_ctx => sharedE b f_value
  | .subscript _ f_value f_slice f_ctx => sharedE b f_value ++ (sharedE b f_slice)
  | .seq _ f_kind f_elts f_ctx => sharedEs b f_elts
  | .starred _ f_value f_ctx => sharedE b f_value
  | .const _ f_kind f_repr => []
  | .call _ f_func f_args f_keywords => sharedE b f_func ++ (sharedEs b f_args ++ (sharedEs b f_keywords))
  | .boolop _ f_isAnd f_values => sharedEs b f_values
  | .unary _ f_op f_operand => sharedE b f_operand
  | .binop _ f_op f_left f_right => sharedE b f_left ++ (sharedE b f_right)
  | .compare _ f_left f_ops f_comparators => sharedE b f_left ++ (sharedEs b f_comparators)
  | .ifexp _ f_test f_body f_orelse => sharedE b f_test ++ (sharedE b f_body ++ (sharedE b f_orelse))
  | .lambda _ f_args f_body => sharedE b f_args ++ (sharedE b f_body)
  | .namedexpr _ f_target f_value => sharedE b f_target ++ (sharedE b f_value)
  | .comp _ f_kind f_elts f_generators => sharedEs b f_elts ++ (sharedEs b f_generators)
  | .comprehension _ f_target f_iter f_ifs f_isAsync => sharedE b f_target ++ (sharedE b f_iter ++ (sharedEs b f_ifs))
  | .arguments _ f_posonly f_args f_vararg f_kwonly f_kwDefaults f_kwarg f_defaults => sharedEs b f_posonly ++ (sharedEs b f_args ++ (sharedEs b f_vararg ++ (sharedEs b f_kwonly ++ (sharedEs b f_kwDefaults ++ (sharedEs b f_kwarg ++ (sharedEs b f_defaults))))))
  | .withitem _ f_contextExpr f_optionalVars => sharedE b f_contextExpr ++ (sharedEs b f_optionalVars)
  | .other _ f_kind f_attrs f_kids => sharedEs b f_kids
def sharedEs (b : Bindings) : List Expr → List Nat
  | [] => []
  | e :: es => sharedE b e ++ sharedEs b es
end
mutual
def sharedS (b : Bindings) : Stmt → List Nat
  | .expr _ f_value =>
      match f_value with
      | .name .. => []
      | _ => sharedE b f_value
  | .functionDef _ f_name f_args f_body f_decorators f_returns f_isAsync => sharedE b f_args ++ (sharedSs b f_body ++ (sharedEs b f_decorators ++ (sharedEs b f_returns)))
  | .classDef _ f_name f_bases f_keywords f_body f_decorators => sharedEs b f_bases ++ (sharedEs b f_keywords ++ (sharedSs b f_body ++ (sharedEs b f_decorators)))
  | .ret _ f_value => sharedEs b f_value
  | .delete _ f_targets => sharedEs b f_targets
  | .assign _ f_targets f_value => sharedEs b f_targets ++ (sharedE b f_value)
  | .augAssign _ f_target f_op f_value => sharedE b f_target ++ (sharedE b f_value)
  | .annAssign _ f_target f_annotation f_value f_simple => sharedE b f_target ++ (sharedE b f_annotation ++ (sharedEs b f_value))
  | .for_ _ f_target f_iter f_body f_orelse f_extraTest f_isAsync => sharedE b f_target ++ (sharedE b f_iter ++ (sharedSs b f_body ++ (sharedSs b f_orelse ++ (sharedEs b f_extraTest))))
  | .while_ _ f_test f_body f_orelse => sharedE b f_test ++ (sharedSs b f_body ++ (sharedSs b f_orelse))
  | .if_ _ f_test f_body f_orelse => sharedE b f_test ++ (sharedSs b f_body ++ (sharedSs b f_orelse))
  | .with_ _ f_items f_body f_isAsync => sharedEs b f_items ++ (sharedSs b f_body)
  | .raise _ f_exc f_cause => sharedEs b f_exc ++ (sharedEs b f_cause)
  | .try_ _ f_body f_handlers f_orelse f_finalbody => sharedSs b f_body ++ (sharedSs b f_handlers ++ (sharedSs b f_orelse ++ (sharedSs b f_finalbody)))
  | .handler _ f_type_ f_name f_body => sharedEs b f_type_ ++ (sharedSs b f_body)
  | .assert_ _ f_test f_msg => sharedE b f_test ++ (sharedEs b f_msg)
  | .import_ _ f_names => []
  | .importFrom _ f_module f_names f_level => []
  | .global _ f_names => []
  | .nonlocal _ f_names => []
  | .pass _ => []
  | .break_ _ => []
  | .continue_ _ => []
  | .other _ f_kind f_exprs f_blocks => sharedEs b f_exprs ++ (sharedSs b f_blocks)
def sharedSs (b : Bindings) : List Stmt → List Nat
  | [] => []
  | s :: ss => sharedS b s ++ sharedSs b ss
end

/-- every node that is inserted without a copy is inserted at most once (and is one object, not two with one label) -/
def sharedOk (b : Bindings) (t : List Stmt) : Bool := decide (sharedSs b t).Nodup

end Malt.Conv.Template
