import MaltModel.Sem.Core
/-
Semantic counterparts of the three jump-lowering passes, over the shared core language `Malt.Sem`
(list blocks, `for` with EXTRA_LOOP_TEST, try/handlers/finally, with).  Same guard logic as the syntactic
models `Conv/Break.lean`, `Conv/Continue.lean`, `Conv/Return.lean` (which mirror
`malt/converters/{break,continue,return}_statements.py` over `Py.Ast`); the driver checks per program that
`toSem (model p) = lower (toSem p)` up to the spelling of generated names.

Generated control variables: the break/continue flag of the loop at path `p` is `gen p`
(`gen : List Nat → Name`, assumed injective by the theorems); a statement's path is
`(number of statements after it in its block) :: (path prefix of the block)`.  The return lowering uses
two fixed names `dr` (do_return) and `rv` (retval_).

Booleans are the ints 1/0 (`truthy`), `None` is `Val.none`.

Import-free apart from `Sem.Core`; total; structural recursion only.
-/
namespace Malt.Sem.Jumps
open Malt.Sem

abbrev Gen := List Nat → Name

def cTrue : Expr := .const (.int 1)
def cFalse : Expr := .const (.int 0)
def cNone : Expr := .const .none

/-- `if not v: body` -/
def ifNot (v : Name) (body : Block) : Stmt := .ifS (.not (.var v)) body []

/-- `not v and c` -/
def guardE (v : Name) (c : Expr) : Expr := .and (.not (.var v)) c

/-! ### fragment predicates (decidable) -/

mutual
/-- a `break` that is not inside a loop of the statement itself (it would leave the statement) -/
def mayBrkS : Stmt → Bool
  | .brk => true
  | .ifS _ t e => mayBrkB t || mayBrkB e
  | .tryS b hs f => mayBrkB b || mayBrkH hs || mayBrkB f
  | .withS _ b => mayBrkB b
  | _ => false
def mayBrkB : List Stmt → Bool
  | [] => false
  | s :: rest => mayBrkS s || mayBrkB rest
def mayBrkH : List (Nat × List Stmt) → Bool
  | [] => false
  | (_, b) :: hs => mayBrkB b || mayBrkH hs
end

mutual
/-- a `continue` that is not inside a loop of the statement itself -/
def topContS : Stmt → Bool
  | .cont => true
  | .ifS _ t e => topContB t || topContB e
  | .tryS b hs f => topContB b || topContH hs || topContB f
  | .withS _ b => topContB b
  | _ => false
def topContB : List Stmt → Bool
  | [] => false
  | s :: rest => topContS s || topContB rest
def topContH : List (Nat × List Stmt) → Bool
  | [] => false
  | (_, b) :: hs => topContB b || topContH hs
end

mutual
/-- a `return` anywhere inside -/
def hasRetS : Stmt → Bool
  | .ret _ => true
  | .ifS _ t e => hasRetB t || hasRetB e
  | .whileS _ b => hasRetB b
  | .forS _ _ _ b => hasRetB b
  | .tryS b hs f => hasRetB b || hasRetH hs || hasRetB f
  | .withS _ b => hasRetB b
  | _ => false
def hasRetB : List Stmt → Bool
  | [] => false
  | s :: rest => hasRetS s || hasRetB rest
def hasRetH : List (Nat × List Stmt) → Bool
  | [] => false
  | (_, b) :: hs => hasRetB b || hasRetH hs
end

mutual
/-- a `raise` anywhere inside -/
def hasRaiseS : Stmt → Bool
  | .raise _ => true
  | .ifS _ t e => hasRaiseB t || hasRaiseB e
  | .whileS _ b => hasRaiseB b
  | .forS _ _ _ b => hasRaiseB b
  | .tryS b hs f => hasRaiseB b || hasRaiseH hs || hasRaiseB f
  | .withS _ b => hasRaiseB b
  | _ => false
def hasRaiseB : List Stmt → Bool
  | [] => false
  | s :: rest => hasRaiseS s || hasRaiseB rest
def hasRaiseH : List (Nat × List Stmt) → Bool
  | [] => false
  | (_, b) :: hs => hasRaiseB b || hasRaiseH hs
end

/-- No jump leaves the block: no `return` anywhere inside, `break`/`continue` only inside loops of the block
itself (the condition of PEP 765 for `finally` blocks). -/
def escFreeB (b : List Stmt) : Bool := !mayBrkB b && !topContB b && !hasRetB b

/-- The block can only end normally or with a fatal (NameError/TypeError) exception. -/
def quietB (b : List Stmt) : Bool := escFreeB b && !hasRaiseB b

mutual
/-- no `break`/`continue`/`return` anywhere inside (`raise` allowed) -/
def jumpFreeS : Stmt → Bool
  | .brk | .cont | .ret _ => false
  | .assign _ _ | .expr _ | .pass | .raise _ => true
  | .ifS _ t e => jumpFreeB t && jumpFreeB e
  | .whileS _ b => jumpFreeB b
  | .forS _ _ _ b => jumpFreeB b
  | .tryS b hs f => jumpFreeB b && jumpFreeH hs && jumpFreeB f
  | .withS _ b => jumpFreeB b
def jumpFreeB : List Stmt → Bool
  | [] => true
  | s :: rest => jumpFreeS s && jumpFreeB rest
def jumpFreeH : List (Nat × List Stmt) → Bool
  | [] => true
  | (_, b) :: hs => jumpFreeB b && jumpFreeH hs
end

mutual
/-- The fragment S1 of the jump-lowering theorems.  For every `try … finally F`:
* no break/continue/return leaves `F` (`escFreeB F`; documented exemption of C01: PEP 765), and
* if `F` contains a `raise`, then the body and the handlers of that `try` contain no break/continue/return
  (otherwise a raise in `finally` can replace a pending jump whose flag was already set; see the finding
  `C01J-raise-in-finally-over-jump`). -/
def finOKS : Stmt → Bool
  | .ifS _ t e => finOKB t && finOKB e
  | .whileS _ b => finOKB b
  | .forS _ _ _ b => finOKB b
  | .tryS b hs f =>
      finOKB b && finOKH hs && finOKB f && escFreeB f && (quietB f || (jumpFreeB b && jumpFreeH hs))
  | .withS _ b => finOKB b
  | _ => true
def finOKB : List Stmt → Bool
  | [] => true
  | s :: rest => finOKS s && finOKB rest
def finOKH : List (Nat × List Stmt) → Bool
  | [] => true
  | (_, b) :: hs => finOKB b && finOKH hs
end

mutual
/-- The fragment S0: no `try`, no `with`. -/
def inS0S : Stmt → Bool
  | .ifS _ t e => inS0B t && inS0B e
  | .whileS _ b => inS0B b
  | .forS _ _ _ b => inS0B b
  | .tryS _ _ _ => false
  | .withS _ _ => false
  | _ => true
def inS0B : List Stmt → Bool
  | [] => true
  | s :: rest => inS0S s && inS0B rest
end

mutual
/-- No `for` carries an extra loop test (the input language of the break pass: it is the first pass that
creates EXTRA_LOOP_TEST, and it overwrites the annotation). -/
def noExtraS : Stmt → Bool
  | .ifS _ t e => noExtraB t && noExtraB e
  | .whileS _ b => noExtraB b
  | .forS _ _ ex b => ex.isNone && noExtraB b
  | .tryS b hs f => noExtraB b && noExtraH hs && noExtraB f
  | .withS _ b => noExtraB b
  | _ => true
def noExtraB : List Stmt → Bool
  | [] => true
  | s :: rest => noExtraS s && noExtraB rest
def noExtraH : List (Nat × List Stmt) → Bool
  | [] => true
  | (_, b) :: hs => noExtraB b && noExtraH hs
end

/-! ### break lowering (`BreakTransformer`) -/

mutual
/-- `(replacement statements, break_used)`; `cur` is the control variable of the innermost enclosing loop. -/
def brkS (gen : Gen) (cur : Name) (p : List Nat) : Stmt → List Stmt × Bool
  | .brk => ([.assign cur cTrue, .cont], true)
  | .ifS c t e =>
      let rt := brkB gen cur (0 :: p) t
      let re := brkB gen cur (1 :: p) e
      ([.ifS c rt.1 re.1], rt.2 || re.2)
  | .whileS c b =>
      let rb := brkB gen (gen p) p b
      if rb.2 then ([.assign (gen p) cFalse, .whileS (guardE (gen p) c) rb.1], false)
      else ([.whileS c rb.1], false)
  | .forS x it ex b =>
      let rb := brkB gen (gen p) p b
      if rb.2 then
        ([.assign (gen p) cFalse, .forS x it (some (.not (.var (gen p)))) (.expr (.var (gen p)) :: rb.1)], false)
      else ([.forS x it ex rb.1], false)
  | .tryS b hs f =>
      let rb := brkB gen cur (0 :: p) b
      let rh := brkH gen cur (1 :: p) hs
      let rf := brkB gen cur (2 :: p) f
      ([.tryS rb.1 rh.1 rf.1], rb.2 || rh.2 || rf.2)
  | .withS t b =>
      let rb := brkB gen cur (0 :: p) b
      ([.withS t rb.1], rb.2)
  | s => ([s], false)
def brkB (gen : Gen) (cur : Name) (p : List Nat) : List Stmt → List Stmt × Bool
  | [] => ([], false)
  | s :: rest =>
      let rs := brkS gen cur (rest.length :: p) s
      let rr := brkB gen cur p rest
      (rs.1 ++ rr.1, rs.2 || rr.2)
def brkH (gen : Gen) (cur : Name) (p : List Nat) : List (Nat × List Stmt) → List (Nat × List Stmt) × Bool
  | [] => ([], false)
  | (t, b) :: hs =>
      let rb := brkB gen cur (hs.length :: p) b
      let rh := brkH gen cur p hs
      ((t, rb.1) :: rh.1, rb.2 || rh.2)
end

/-- Break lowering of a function body. (`top` plays the role of the root `_Break` state, whose control
variable is never used in a well-formed function: a `break` outside a loop is a SyntaxError.) -/
def lowerBreak (gen : Gen) (body : Block) : Block := (brkB gen (gen []) [0] body).1

/-! ### continue lowering (`ContinueCanonicalizationTransformer`) -/

mutual
/-- `(replacement statements, hit)`; `hit` = a `continue` of the current loop occurs inside
(= `create_guard_next` of the enclosing blocks after the visit). -/
def cntS (gen : Gen) (cur : Name) (p : List Nat) : Stmt → List Stmt × Bool
  | .cont => ([.assign cur cTrue], true)
  | .ifS c t e =>
      let rt := cntB gen cur (0 :: p) false t
      let re := cntB gen cur (1 :: p) false e
      ([.ifS c rt.1 re.1], rt.2 || re.2)
  | .whileS c b =>
      let rb := cntB gen (gen p) p false b
      ([.whileS c (if rb.2 then .assign (gen p) cFalse :: rb.1 else rb.1)], false)
  | .forS x it ex b =>
      let rb := cntB gen (gen p) p false b
      ([.forS x it ex (if rb.2 then .assign (gen p) cFalse :: rb.1 else rb.1)], false)
  | .tryS b hs f =>
      let rb := cntB gen cur (0 :: p) false b
      let rh := cntH gen cur (1 :: p) hs
      let rf := cntB gen cur (2 :: p) false f
      ([.tryS rb.1 rh.1 rf.1], rb.2 || rh.2 || rf.2)
  | .withS t b =>
      let rb := cntB gen cur (0 :: p) false b
      ([.withS t rb.1], rb.2)
  | s => ([s], false)
/-- `guard` = `create_guard_current` of the block when its first statement is post-processed. -/
def cntB (gen : Gen) (cur : Name) (p : List Nat) (guard : Bool) : List Stmt → List Stmt × Bool
  | [] => ([], false)
  | s :: rest =>
      let rs := cntS gen cur (rest.length :: p) s
      let rr := cntB gen cur p rs.2 rest
      (if guard then [ifNot cur (rs.1 ++ rr.1)] else rs.1 ++ rr.1, rs.2 || rr.2)
def cntH (gen : Gen) (cur : Name) (p : List Nat) : List (Nat × List Stmt) → List (Nat × List Stmt) × Bool
  | [] => ([], false)
  | (t, b) :: hs =>
      let rb := cntB gen cur (hs.length :: p) false b
      let rh := cntH gen cur p hs
      ((t, rb.1) :: rh.1, rb.2 || rh.2)
end

def lowerContinue (gen : Gen) (body : Block) : Block := (cntB gen (gen []) [0] false body).1

/-! ### return lowering (`ReturnStatementsTransformer`) -/

/-- The loop test / extra test after the return lowering. -/
def retTest (dr : Name) (ext : Bool) (c : Expr) : Expr := if ext then guardE dr c else c

def retExtra (dr : Name) (ext : Bool) (ex : Option Expr) : Option Expr :=
  if ext then some (match ex with | some t => guardE dr t | none => .not (.var dr)) else ex

mutual
/-- `(replacement statements, hit)`; `used` = `return_used` of the enclosing block before this statement. -/
def retS (dr rv : Name) (used : Bool) : Stmt → List Stmt × Bool
  | .ret e => ([.assign dr cTrue, .assign rv (e.getD cNone)], true)
  | .ifS c t e =>
      let rt := retB dr rv false false t
      let re := retB dr rv false false e
      ([.ifS c rt.1 re.1], rt.2 || re.2)
  | .whileS c b =>
      let rb := retB dr rv false false b
      ([.whileS (retTest dr (used || rb.2) c) rb.1], rb.2)
  | .forS x it ex b =>
      let rb := retB dr rv false false b
      ([.forS x it (retExtra dr (used || rb.2) ex) rb.1], rb.2)
  | .tryS b hs f =>
      let rb := retB dr rv false false b
      let rh := retH dr rv hs
      let rf := retB dr rv false false f
      ([.tryS rb.1 rh.1 rf.1], rb.2 || rh.2 || rf.2)
  | .withS t b =>
      let rb := retB dr rv false false b
      ([.withS t rb.1], rb.2)
  | s => ([s], false)
/-- `guard` = `create_guard_now`, `used` = `return_used` of this block so far. -/
def retB (dr rv : Name) (guard : Bool) (used : Bool) : List Stmt → List Stmt × Bool
  | [] => ([], false)
  | s :: rest =>
      let rs := retS dr rv used s
      let rr := retB dr rv rs.2 (used || rs.2) rest
      (if guard then [ifNot dr (rs.1 ++ rr.1)] else rs.1 ++ rr.1, rs.2 || rr.2)
def retH (dr rv : Name) : List (Nat × List Stmt) → List (Nat × List Stmt) × Bool
  | [] => ([], false)
  | (t, b) :: hs =>
      let rb := retB dr rv false false b
      let rh := retH dr rv hs
      ((t, rb.1) :: rh.1, rb.2 || rh.2)
end

/-- Return lowering of a function body: `do_return = False; retval_ = <undefined>; body'; return retval_`
when a `return` occurs, the body unchanged otherwise. -/
def lowerReturn (dr rv : Name) (body : Block) : Block :=
  let r := retB dr rv false false body
  if r.2 then [.assign dr cFalse, .assign rv cNone] ++ r.1 ++ [.ret (some (.var rv))] else r.1

/-! ### syntactic post-condition predicates -/

mutual
def hasBrkS : Stmt → Bool
  | .brk => true
  | .ifS _ t e => hasBrkB t || hasBrkB e
  | .whileS _ b => hasBrkB b
  | .forS _ _ _ b => hasBrkB b
  | .tryS b hs f => hasBrkB b || hasBrkH hs || hasBrkB f
  | .withS _ b => hasBrkB b
  | _ => false
def hasBrkB : List Stmt → Bool
  | [] => false
  | s :: rest => hasBrkS s || hasBrkB rest
def hasBrkH : List (Nat × List Stmt) → Bool
  | [] => false
  | (_, b) :: hs => hasBrkB b || hasBrkH hs
end

mutual
def hasContS : Stmt → Bool
  | .cont => true
  | .ifS _ t e => hasContB t || hasContB e
  | .whileS _ b => hasContB b
  | .forS _ _ _ b => hasContB b
  | .tryS b hs f => hasContB b || hasContH hs || hasContB f
  | .withS _ b => hasContB b
  | _ => false
def hasContB : List Stmt → Bool
  | [] => false
  | s :: rest => hasContS s || hasContB rest
def hasContH : List (Nat × List Stmt) → Bool
  | [] => false
  | (_, b) :: hs => hasContB b || hasContH hs
end


/-! ### a concrete name generator and the decidable freshness check

Generated names start with `$` (not a Python identifier character), so no program translated from Python
can mention them: `userNamesB` is the decidable form of the theorems' `GenNamesFresh` hypothesis. -/

def encPath : List Nat → List Char
  | [] => []
  | n :: q => List.replicate n 'i' ++ '.' :: encPath q

/-- `$<tag><unary path>`: injective in the path, never a Python identifier. -/
def stdGen (tag : Char) : Gen := fun q => String.ofList ('$' :: tag :: encPath q)

def stdDr : Name := "$dr"
def stdRv : Name := "$rv"

def userName (x : Name) : Bool := x.toList.head? != some '$'

mutual
def userNamesE : Expr → Bool
  | .const _ => true
  | .var x => userName x
  | .not e => userNamesE e
  | .and a b => userNamesE a && userNamesE b
  | .or a b => userNamesE a && userNamesE b
  | .ite c t e => userNamesE c && userNamesE t && userNamesE e
  | .bin _ a b => userNamesE a && userNamesE b
  | .call _ args => userNamesEs args
def userNamesEs : List Expr → Bool
  | [] => true
  | e :: es => userNamesE e && userNamesEs es
end

def userNamesO : Option Expr → Bool
  | none => true
  | some e => userNamesE e

mutual
def userNamesS : Stmt → Bool
  | .assign x e => userName x && userNamesE e
  | .expr e => userNamesE e
  | .ifS c t e => userNamesE c && userNamesB t && userNamesB e
  | .whileS c b => userNamesE c && userNamesB b
  | .forS x it extra b => userName x && userNamesE it && userNamesO extra && userNamesB b
  | .ret e => userNamesO e
  | .tryS b hs f => userNamesB b && userNamesH hs && userNamesB f
  | .withS _ b => userNamesB b
  | .brk => true
  | .cont => true
  | .raise _ => true
  | .pass => true
def userNamesB : List Stmt → Bool
  | [] => true
  | s :: rest => userNamesS s && userNamesB rest
def userNamesH : List (Nat × List Stmt) → Bool
  | [] => true
  | (_, b) :: hs => userNamesB b && userNamesH hs
end


/-! ### the conditional-return rewriting (`ConditionalReturnRewriter`)

`if c: A else: B` followed by `R`, where `A` definitely returns, becomes `if c: A else: B; R` (and symmetrically
when `B` definitely returns).  The Boolean is `definitely_returns` of the block / the statement's contribution. -/

mutual
def rwS : Stmt → Stmt × Bool
  | .ret e => (.ret e, true)
  | .ifS c t e =>
      let rt := rwB t
      let re := rwB e
      (.ifS c rt.1 re.1, rt.2 && re.2)
  | .whileS c b => (.whileS c (rwB b).1, false)
  | .forS x it ex b => (.forS x it ex (rwB b).1, false)
  | .tryS b hs f => (.tryS (rwB b).1 (rwH hs) (rwB f).1, false)
  | .withS t b =>
      let rb := rwB b
      (.withS t rb.1, rb.2)
  | s => (s, false)
def rwB : List Stmt → List Stmt × Bool
  | [] => ([], false)
  | .ifS c t e :: rest =>
      let rt := rwB t
      let re := rwB e
      let rr := rwB rest
      if rt.2 then ([.ifS c rt.1 (re.1 ++ rr.1)], (rt.2 && re.2) || rr.2)
      else if re.2 then ([.ifS c (rt.1 ++ rr.1) re.1], (rt.2 && re.2) || rr.2)
      else (.ifS c rt.1 re.1 :: rr.1, (rt.2 && re.2) || rr.2)
  | s :: rest =>
      let rs := rwS s
      let rr := rwB rest
      (rs.1 :: rr.1, rs.2 || rr.2)
def rwH : List (Nat × List Stmt) → List (Nat × List Stmt)
  | [] => []
  | (t, b) :: hs => (t, (rwB b).1) :: rwH hs
end

def rewriteReturns (body : Block) : Block := (rwB body).1

end Malt.Sem.Jumps
