import MaltModel.Conv.Directives
/-
`Conv.DirectivesSpec` — where the user PLACED loop directives, read off the source tree (specification side of the
theorem `C03_directive_source`, Props/C03Directives.lean).  The model of the pass is `Conv/Directives.lean` (C04 builder).

`placedS env top s`: the `set_loop_options(...)` expression statements of `s` (callee resolved statically by `env.staticOf`,
as in the pass), each with the id of its innermost enclosing synchronous loop; `top` = that loop for `s` itself (0 = none).
A loop's `else` block belongs to the loop, nested `def`s / classes / `async for` do not open a loop scope (as in the pass).
-/
namespace Malt.Conv.DirectivesSpec
open Malt.Py Malt.Conv

abbrev Placed := Nat × List Expr × List Expr      -- (loop id, positional argument nodes, keyword nodes)

mutual
def placedS (env : Directives.Env) (top : Nat) : Stmt → List Placed
  | .expr _ (.call _ f as ks) => if env.staticOf f.id = some "set_loop_options" then [(top, as, ks)] else []
  | .while_ i _ b e => placedL env i b ++ placedL env i e
  | .for_ i _ _ b e _ isA => if isA then placedL env top b ++ placedL env top e else placedL env i b ++ placedL env i e
  | .functionDef _ _ _ b _ _ _ => placedL env top b
  | .classDef _ _ _ _ b _ => placedL env top b
  | .if_ _ _ b e => placedL env top b ++ placedL env top e
  | .with_ _ _ b _ => placedL env top b
  | .try_ _ b h e f => placedL env top b ++ placedL env top h ++ placedL env top e ++ placedL env top f
  | .handler _ _ _ b => placedL env top b
  | .other _ _ _ bs => placedL env top bs
  | _ => []
def placedL (env : Directives.Env) (top : Nat) : List Stmt → List Placed
  | [] => []
  | s :: ss => placedS env top s ++ placedL env top ss
end

/-- The annotation `a` of the pass is the argument map of a directive the user placed in loop `a.1`. -/
def FromSource (placed : List Placed) (a : Nat × String × List (String × Expr)) : Prop :=
  a.2.1 = "set_loop_options" ∧ ∃ as ks, (a.1, as, ks) ∈ placed ∧ Directives.mapArgs Directives.loopParams 0 as ks = .ok a.2.2

end Malt.Conv.DirectivesSpec
