import MaltModel.Conv.Tmpl
/-
`Conv.NoNative` — the C04 checker that runs on the REAL output of the conversion (`to_code` tree), and the
declarative property it decides.

Overloadable constructs (property C04): `if`, `while`, `for`, `break`, `continue`, early `return`,
`and`/`or`/`not`, conditional expression, call (and `==`/`!=` under EQUALITY_OPERATORS).  `offS`/`offE`
list every NATIVE occurrence of one of them that is not one of the exceptions below; `noNative g` says the
list is empty; `OkS`/`OkE` is the same statement as an inductive property with NO introduction rule for a
native overloadable construct outside the exceptions, and `noNative_sound` (Props/C04.lean) connects them.

Exceptions (from the code and g3doc/reference/generated_code.md):
 E1 comprehension clauses (`for`/`if` inside a comprehension) — these are `comprehension` nodes, not
    statements; nothing to exempt, their sub-expressions are checked like any other expression;
 E2 with-item expressions: `call_trees.visit_With` visits only the body, so a CALL anywhere inside a
    with-item (context expression or `as` target) may be native (`inWith`); and/or/not/if-else inside
    them are still converted by the later passes and are NOT exempt;
 E3 calls whose callee's qualified name is `pdb.set_trace`, `ipdb.set_trace`, `breakpoint`;
 E4 `print(...)` when BUILTIN_FUNCTIONS is off;
 E5 calls into the runtime: callee QN starting with `ag__.`;
 E6 calls on a function scope object: callee QN starting with `<s>.` where `<s>` is bound by an enclosing
    `with ag__.FunctionScope(...) as <s>:` (the generated `return fscope.ret(retval_, do_return)`);
 E7 the argument packing of `ag__.converted_call(f, ARGS, KWARGS, scope)`: in ARGS a `+`-chain of tuples
    and `tuple(x)` calls, in KWARGS a `dict(**kw, k=v)` call without positional arguments;
 E8 `return` in tail position: the last statement of a function body, or of a `with` block that is itself
    in tail position, PROVIDED the function is not used as the body / orelse callback of an
    `ag__.if_stmt` / `ag__.while_stmt` / `ag__.for_stmt` call of the same block (a `return` left in a
    branch or loop body would become such a tail return of `if_body` / `loop_body`).  Generated
    `get_state` / `loop_test` / `extra_test` functions and the final `return fscope.ret(...)` fall under it.
 `try`/`except`/`raise`/`with`/`assert`/`def`/`lambda`/comprehensions are not overloadable constructs of C04 and
 are never reported (this covers the generated `try: … except: do_return = False; raise`).
-/
namespace Malt.Conv.NoNative
open Malt.Py Malt.Conv

structure Cfg where
  eqOn : Bool
  builtinsOn : Bool
  deriving Repr, DecidableEq

structure Off where
  kind : String
  id : Nat
  detail : String
  deriving Repr, DecidableEq

/-- Position of an expression relative to an enclosing `ag__.converted_call`. -/
inductive Pos where
  | normal | packA | packK
  deriving Repr, DecidableEq

def debuggers : List String := ["pdb.set_trace", "ipdb.set_trace", "breakpoint"]

/-- The callee's qualified name as the USER wrote it: the variables converter (the last pass) wraps every
original load `x` into `ag__.ld(x)`, so `print(…)` reaches the output as `ag__.ld(print)(…)` and
`pdb.set_trace()` as `ag__.ld(pdb).set_trace()`; `ag__.ld(·)` is transparent here — in EVERY name test of the
checker (callee names, argument positions of `converted_call`, scope objects, body-role callbacks, the packing calls), so
that the variables converter provably cannot change a verdict (`Proofs/C04Mono.lean`). -/
def calleeQn : Expr → Option String
  | .name _ s _ => some s
  | .attr _ v a _ => (calleeQn v).map fun b => b ++ "." ++ a
  | .subscript _ v s _ =>
      match sliceKind s with
      | .noQn => none
      | .lit r => (calleeQn v).map fun b => b ++ "[" ++ r ++ "]"
      | .sub => match calleeQn s, calleeQn v with
          | some x, some b => some (b ++ "[" ++ x ++ "]")
          | _, _ => none
  | .call _ f [x] [] => if calleeQn f == some "ag__.ld" then calleeQn x else none
  | _ => none

/-- a plain name, possibly behind `ag__.ld(·)` -/
def ldName : Expr → Option String
  | .name _ n _ => some n
  | .call _ f [x] [] => if calleeQn f == some "ag__.ld" then ldName x else none
  | _ => none

/-- E3–E6 -/
def allowedCallee (cfg : Cfg) (scopes : List String) (full : String) : Bool :=
  startsWith full "ag__." || scopes.any (fun c => startsWith full (c ++ "."))
    || debuggers.contains full || (full == "print" && !cfg.builtinsOn)

def isNameOf (s : String) (e : Expr) : Bool := ldName e == some s

/-- E7: is this call node itself the packing call allowed at position `pos`?
`tuple(x)` (exactly one positional argument, no keywords) in ARGS; `dict(**kw, k=v)` (no positional argument) in KWARGS. -/
def packOk (pos : Pos) (f : Expr) (args kws : List Expr) : Bool :=
  match pos with
  | .packA => isNameOf "tuple" f && args.length == 1 && kws.isEmpty
  | .packK => isNameOf "dict" f && args.isEmpty
  | .normal => false

def callOk (cfg : Cfg) (sc : List String) (inWith : Bool) (pos : Pos) (f : Expr) (args kws : List Expr) : Bool :=
  inWith || allowedCallee cfg sc ((calleeQn f).getD "") || packOk pos f args kws

/-- positions of the arguments of a call with callee QN `full` -/
def argPositions (full : String) : List Pos :=
  if full == "ag__.converted_call" then [.normal, .packA, .packK] else []

def kidPos (pos : Pos) (op : String) : Pos := if pos == .packA && op == "Add" then .packA else .normal

def isEqOp (op : String) : Bool := op == "Eq" || op == "NotEq"

def compareOk (cfg : Cfg) (ops : List String) : Bool := !(cfg.eqOn && ops.any isEqOp)

def headPos : List Pos → Pos
  | [] => .normal
  | p :: _ => p

mutual
def offE (cfg : Cfg) (sc : List String) (w : Bool) (pos : Pos) : Expr → List Off
  | .name _ _ _ => []
  | .const _ _ _ => []
  | .noneMarker => []
  | .call i f as ks =>
      (if callOk cfg sc w pos f as ks then [] else [⟨"Call", i, (calleeQn f).getD ""⟩])
        ++ offE cfg sc w .normal f ++ offEs cfg sc w (argPositions ((calleeQn f).getD "")) as ++ offEs cfg sc w [] ks
  | .boolop i isAnd vs => ⟨"BoolOp", i, if isAnd then "and" else "or"⟩ :: offEs cfg sc w [] vs
  | .unary i op e => (if op == "Not" then [⟨"Not", i, ""⟩] else []) ++ offE cfg sc w .normal e
  | .ifexp i t b e => ⟨"IfExp", i, ""⟩ :: (offE cfg sc w .normal t ++ offE cfg sc w .normal b ++ offE cfg sc w .normal e)
  | .compare i l ops rs =>
      (if compareOk cfg ops then [] else [⟨"Compare", i, "eq"⟩]) ++ offE cfg sc w .normal l ++ offEs cfg sc w [] rs
  | .binop _ op l r => offE cfg sc w (kidPos pos op) l ++ offE cfg sc w (kidPos pos op) r
  | .attr _ v _ _ => offE cfg sc w .normal v
  | .subscript _ v s _ => offE cfg sc w .normal v ++ offE cfg sc w .normal s
  | .keyword _ _ _ v => offE cfg sc w .normal v
  | .lambda _ as b => offE cfg sc w .normal as ++ offE cfg sc w .normal b
  | .seq _ _ es _ => offEs cfg sc w [] es
  | .starred _ v _ => offE cfg sc w .normal v
  | .namedexpr _ t v => offE cfg sc w .normal t ++ offE cfg sc w .normal v
  | .comp _ _ es gs => offEs cfg sc w [] es ++ offEs cfg sc w [] gs
  | .comprehension _ t it ifs _ => offE cfg sc w .normal t ++ offE cfg sc w .normal it ++ offEs cfg sc w [] ifs
  | .arguments _ a b c d e f g =>
      offEs cfg sc w [] a ++ offEs cfg sc w [] b ++ offEs cfg sc w [] c ++ offEs cfg sc w [] d
        ++ offEs cfg sc w [] e ++ offEs cfg sc w [] f ++ offEs cfg sc w [] g
  | .arg _ _ an => offEs cfg sc w [] an
  | .withitem _ c v => offE cfg sc w .normal c ++ offEs cfg sc w [] v
  | .other _ _ _ ks => offEs cfg sc w [] ks
def offEs (cfg : Cfg) (sc : List String) (w : Bool) : List Pos → List Expr → List Off
  | _, [] => []
  | ps, e :: es => offE cfg sc w (headPos ps) e ++ offEs cfg sc w ps.tail es
end

/-! ### statements -/

/-- names passed as body / orelse callbacks to the control-flow operators by one statement -/
def argName (args : List Expr) (k : Nat) : List String :=
  match args[k]? with
  | some e => (ldName e).toList
  | none => []

def bodyRoleNames : Stmt → List String
  | .expr _ (.call _ f args _) =>
      let q := (calleeQn f).getD ""
      if q == "ag__.if_stmt" then argName args 1 ++ argName args 2
      else if q == "ag__.while_stmt" then argName args 1
      else if q == "ag__.for_stmt" then argName args 2
      else []
  | _ => []

/-- E8: functions of this block that are bodies of functionalised control flow -/
def blockRoles : List Stmt → List String
  | [] => []
  | s :: ss => bodyRoleNames s ++ blockRoles ss

/-- `ag__.FunctionScope(...)` -/
def isScopeCall : Expr → Bool
  | .call _ f _ _ => (calleeQn f).getD "" == "ag__.FunctionScope"
  | _ => false

/-- the name bound by one with-item `ag__.FunctionScope(...) as <name>` -/
def scopeName : Expr → List String
  | .withitem _ c [v] => if isScopeCall c then (ldName v).toList else []
  | _ => []

/-- E6: names bound by `with ag__.FunctionScope(...) as <name>` -/
def scopeNames : List Expr → List String
  | [] => []
  | it :: rest => scopeName it ++ scopeNames rest

mutual
/-- `roles`: body-role function names of the enclosing block; `tail`: is this statement in tail position. -/
def offS (cfg : Cfg) (sc : List String) (roles : List String) (tail : Bool) : Stmt → List Off
  | .if_ i t b e => ⟨"If", i, ""⟩ :: (offE cfg sc false .normal t ++ offB cfg sc (blockRoles b) false b ++ offB cfg sc (blockRoles e) false e)
  | .while_ i t b e => ⟨"While", i, ""⟩ :: (offE cfg sc false .normal t ++ offB cfg sc (blockRoles b) false b ++ offB cfg sc (blockRoles e) false e)
  | .for_ i t it b e _ _ =>
      ⟨"For", i, ""⟩ :: (offE cfg sc false .normal t ++ offE cfg sc false .normal it ++ offB cfg sc (blockRoles b) false b
        ++ offB cfg sc (blockRoles e) false e)
  | .break_ i => [⟨"Break", i, ""⟩]
  | .continue_ i => [⟨"Continue", i, ""⟩]
  | .ret i v => (if tail then [] else [⟨"Return", i, "early"⟩]) ++ offEs cfg sc false [] v
  | .functionDef _ n as b ds rs _ =>
      offE cfg sc false .normal as ++ offEs cfg sc false [] ds ++ offEs cfg sc false [] rs
        ++ offB cfg sc (blockRoles b) (!roles.contains n) b
  | .classDef _ _ bs ks b ds =>
      offEs cfg sc false [] bs ++ offEs cfg sc false [] ks ++ offEs cfg sc false [] ds ++ offB cfg sc (blockRoles b) false b
  | .with_ _ its b _ => offEs cfg sc true [] its ++ offB cfg (scopeNames its ++ sc) (blockRoles b) tail b
  | .try_ _ b hs e f =>
      offB cfg sc (blockRoles b) false b ++ offB cfg sc (blockRoles hs) false hs ++ offB cfg sc (blockRoles e) false e
        ++ offB cfg sc (blockRoles f) false f
  | .handler _ t _ b => offEs cfg sc false [] t ++ offB cfg sc (blockRoles b) false b
  | .delete _ ts => offEs cfg sc false [] ts
  | .assign _ ts v => offEs cfg sc false [] ts ++ offE cfg sc false .normal v
  | .augAssign _ t _ v => offE cfg sc false .normal t ++ offE cfg sc false .normal v
  | .annAssign _ t an v _ => offE cfg sc false .normal t ++ offE cfg sc false .normal an ++ offEs cfg sc false [] v
  | .raise _ e c => offEs cfg sc false [] e ++ offEs cfg sc false [] c
  | .assert_ _ t m => offE cfg sc false .normal t ++ offEs cfg sc false [] m
  | .expr _ v => offE cfg sc false .normal v
  | .import_ _ _ => []
  | .importFrom _ _ _ _ => []
  | .global _ _ => []
  | .nonlocal _ _ => []
  | .pass _ => []
  | .other _ _ es bs => offEs cfg sc false [] es ++ offB cfg sc (blockRoles bs) false bs
def offB (cfg : Cfg) (sc : List String) (roles : List String) (tail : Bool) : List Stmt → List Off
  | [] => []
  | s :: ss => offS cfg sc roles (tail && ss.isEmpty) s ++ offB cfg sc roles tail ss
end

/-- Offenders of a converted entity (a `def`, or the module-level list `to_code` yields). -/
def offenders (cfg : Cfg) (g : List Stmt) : List Off := offB cfg [] (blockRoles g) false g

/-- THE checker. -/
def noNative (cfg : Cfg) (g : List Stmt) : Bool := (offenders cfg g).isEmpty

/-- For a converted lambda (`to_code` of a lambda is `name = lambda …`): expression-level only. -/
def noNativeE (cfg : Cfg) (e : Expr) : Bool := (offE cfg [] false .normal e).isEmpty

/-! ### the property, declaratively -/
mutual
inductive OkE (cfg : Cfg) : List String → Bool → Pos → Expr → Prop
  | name : OkE cfg sc w pos (.name i s c)
  | const : OkE cfg sc w pos (.const i k r)
  | noneMarker : OkE cfg sc w pos .noneMarker
  /-- a call is fine only if exempt (E2–E7); `converted_call` fixes the positions of its arguments -/
  | call : callOk cfg sc w pos f as ks = true → OkE cfg sc w .normal f →
      OkEs cfg sc w (argPositions ((calleeQn f).getD "")) as → OkEs cfg sc w [] ks → OkE cfg sc w pos (.call i f as ks)
  -- no rule for `.boolop`, none for `.ifexp`
  | unary : op ≠ "Not" → OkE cfg sc w .normal e → OkE cfg sc w pos (.unary i op e)
  | compare : compareOk cfg ops = true → OkE cfg sc w .normal l → OkEs cfg sc w [] rs → OkE cfg sc w pos (.compare i l ops rs)
  | binop : OkE cfg sc w (kidPos pos op) l → OkE cfg sc w (kidPos pos op) r → OkE cfg sc w pos (.binop i op l r)
  | attr : OkE cfg sc w .normal v → OkE cfg sc w pos (.attr i v a c)
  | subscript : OkE cfg sc w .normal v → OkE cfg sc w .normal s → OkE cfg sc w pos (.subscript i v s c)
  | keyword : OkE cfg sc w .normal v → OkE cfg sc w pos (.keyword i a h v)
  | lambda : OkE cfg sc w .normal as → OkE cfg sc w .normal b → OkE cfg sc w pos (.lambda i as b)
  | seq : OkEs cfg sc w [] es → OkE cfg sc w pos (.seq i k es c)
  | starred : OkE cfg sc w .normal v → OkE cfg sc w pos (.starred i v c)
  | namedexpr : OkE cfg sc w .normal t → OkE cfg sc w .normal v → OkE cfg sc w pos (.namedexpr i t v)
  | comp : OkEs cfg sc w [] es → OkEs cfg sc w [] gs → OkE cfg sc w pos (.comp i k es gs)
  | comprehension : OkE cfg sc w .normal t → OkE cfg sc w .normal it → OkEs cfg sc w [] ifs →
      OkE cfg sc w pos (.comprehension i t it ifs a)
  | arguments : OkEs cfg sc w [] a → OkEs cfg sc w [] b → OkEs cfg sc w [] c → OkEs cfg sc w [] d → OkEs cfg sc w [] e →
      OkEs cfg sc w [] f → OkEs cfg sc w [] g → OkE cfg sc w pos (.arguments i a b c d e f g)
  | arg : OkEs cfg sc w [] an → OkE cfg sc w pos (.arg i n an)
  | withitem : OkE cfg sc w .normal c → OkEs cfg sc w [] v → OkE cfg sc w pos (.withitem i c v)
  | other : OkEs cfg sc w [] ks → OkE cfg sc w pos (.other i k ats ks)
inductive OkEs (cfg : Cfg) : List String → Bool → List Pos → List Expr → Prop
  | nil : OkEs cfg sc w ps []
  | cons : OkE cfg sc w (headPos ps) e → OkEs cfg sc w ps.tail es → OkEs cfg sc w ps (e :: es)
end

mutual
inductive OkS (cfg : Cfg) : List String → List String → Bool → Stmt → Prop
  -- no rule for `.if_`, `.while_`, `.for_`, `.break_`, `.continue_`
  /-- E8: a `return` only in tail position -/
  | ret : OkEs cfg sc false [] v → OkS cfg sc roles true (.ret i v)
  | functionDef : OkE cfg sc false .normal as → OkEs cfg sc false [] ds → OkEs cfg sc false [] rs →
      OkB cfg sc (blockRoles b) (!roles.contains n) b → OkS cfg sc roles tail (.functionDef i n as b ds rs isA)
  | classDef : OkEs cfg sc false [] bs → OkEs cfg sc false [] ks → OkEs cfg sc false [] ds → OkB cfg sc (blockRoles b) false b →
      OkS cfg sc roles tail (.classDef i n bs ks b ds)
  /-- E2 (items checked with `inWith`), E6 (scope names), E8 (tail position passes through) -/
  | with_ : OkEs cfg sc true [] its → OkB cfg (scopeNames its ++ sc) (blockRoles b) tail b →
      OkS cfg sc roles tail (.with_ i its b isA)
  | try_ : OkB cfg sc (blockRoles b) false b → OkB cfg sc (blockRoles hs) false hs → OkB cfg sc (blockRoles e) false e →
      OkB cfg sc (blockRoles f) false f → OkS cfg sc roles tail (.try_ i b hs e f)
  | handler : OkEs cfg sc false [] t → OkB cfg sc (blockRoles b) false b → OkS cfg sc roles tail (.handler i t n b)
  | delete : OkEs cfg sc false [] ts → OkS cfg sc roles tail (.delete i ts)
  | assign : OkEs cfg sc false [] ts → OkE cfg sc false .normal v → OkS cfg sc roles tail (.assign i ts v)
  | augAssign : OkE cfg sc false .normal t → OkE cfg sc false .normal v → OkS cfg sc roles tail (.augAssign i t op v)
  | annAssign : OkE cfg sc false .normal t → OkE cfg sc false .normal an → OkEs cfg sc false [] v →
      OkS cfg sc roles tail (.annAssign i t an v s)
  | raise : OkEs cfg sc false [] e → OkEs cfg sc false [] c → OkS cfg sc roles tail (.raise i e c)
  | assert_ : OkE cfg sc false .normal t → OkEs cfg sc false [] m → OkS cfg sc roles tail (.assert_ i t m)
  | expr : OkE cfg sc false .normal v → OkS cfg sc roles tail (.expr i v)
  | import_ : OkS cfg sc roles tail (.import_ i ns)
  | importFrom : OkS cfg sc roles tail (.importFrom i m ns l)
  | global : OkS cfg sc roles tail (.global i ns)
  | nonlocal : OkS cfg sc roles tail (.nonlocal i ns)
  | pass : OkS cfg sc roles tail (.pass i)
  | other : OkEs cfg sc false [] es → OkB cfg sc (blockRoles bs) false bs → OkS cfg sc roles tail (.other i k es bs)
inductive OkB (cfg : Cfg) : List String → List String → Bool → List Stmt → Prop
  | nil : OkB cfg sc roles tail []
  | cons : OkS cfg sc roles (tail && ss.isEmpty) s → OkB cfg sc roles tail ss → OkB cfg sc roles tail (s :: ss)
end

/-- C04 for a converted entity: every overloadable construct is routed (none is native outside E1–E8). -/
def NoNativeProp (cfg : Cfg) (g : List Stmt) : Prop := OkB cfg [] (blockRoles g) false g

/-! ### kind-based vocabulary for the theorems about the MODELS (Props/C04.lean)

`anyE p e`: some node of the expression tree `e` (including `e`) satisfies `p`; `anyS`/`anyB` likewise over
every expression occurring anywhere in a statement / block (nested blocks, defs, classes included). -/
mutual
def anyKids (p : Expr → Bool) : Expr → Bool
  | .name _ _ _ => false
  | .const _ _ _ => false
  | .noneMarker => false
  | .attr _ v _ _ => p v || anyKids p v
  | .subscript _ v s _ => (p v || anyKids p v) || (p s || anyKids p s)
  | .call _ f as ks => (p f || anyKids p f) || anyKidsL p as || anyKidsL p ks
  | .keyword _ _ _ v => p v || anyKids p v
  | .boolop _ _ vs => anyKidsL p vs
  | .unary _ _ e => p e || anyKids p e
  | .binop _ _ l r => (p l || anyKids p l) || (p r || anyKids p r)
  | .compare _ l _ rs => (p l || anyKids p l) || anyKidsL p rs
  | .ifexp _ t b e => (p t || anyKids p t) || (p b || anyKids p b) || (p e || anyKids p e)
  | .lambda _ as b => (p as || anyKids p as) || (p b || anyKids p b)
  | .seq _ _ es _ => anyKidsL p es
  | .starred _ v _ => p v || anyKids p v
  | .namedexpr _ t v => (p t || anyKids p t) || (p v || anyKids p v)
  | .comp _ _ es gs => anyKidsL p es || anyKidsL p gs
  | .comprehension _ t it ifs _ => (p t || anyKids p t) || (p it || anyKids p it) || anyKidsL p ifs
  | .arguments _ a b c d e f g =>
      anyKidsL p a || anyKidsL p b || anyKidsL p c || anyKidsL p d || anyKidsL p e || anyKidsL p f || anyKidsL p g
  | .arg _ _ an => anyKidsL p an
  | .withitem _ c v => (p c || anyKids p c) || anyKidsL p v
  | .other _ _ _ ks => anyKidsL p ks
def anyKidsL (p : Expr → Bool) : List Expr → Bool
  | [] => false
  | e :: es => (p e || anyKids p e) || anyKidsL p es
end

def anyE (p : Expr → Bool) (e : Expr) : Bool := p e || anyKids p e
def anyEs (p : Expr → Bool) (es : List Expr) : Bool := anyKidsL p es

mutual
def anyS (p : Expr → Bool) : Stmt → Bool
  | .functionDef _ _ as b ds rs _ => anyE p as || anyB p b || anyEs p ds || anyEs p rs
  | .classDef _ _ bs ks b ds => anyEs p bs || anyEs p ks || anyB p b || anyEs p ds
  | .ret _ v => anyEs p v
  | .delete _ ts => anyEs p ts
  | .assign _ ts v => anyEs p ts || anyE p v
  | .augAssign _ t _ v => anyE p t || anyE p v
  | .annAssign _ t an v _ => anyE p t || anyE p an || anyEs p v
  | .for_ _ t it b e _ _ => anyE p t || anyE p it || anyB p b || anyB p e
  | .while_ _ t b e => anyE p t || anyB p b || anyB p e
  | .if_ _ t b e => anyE p t || anyB p b || anyB p e
  | .with_ _ its b _ => anyEs p its || anyB p b
  | .raise _ e c => anyEs p e || anyEs p c
  | .try_ _ b hs e f => anyB p b || anyB p hs || anyB p e || anyB p f
  | .handler _ t _ b => anyEs p t || anyB p b
  | .assert_ _ t m => anyE p t || anyEs p m
  | .import_ _ _ => false
  | .importFrom _ _ _ _ => false
  | .global _ _ => false
  | .nonlocal _ _ => false
  | .expr _ v => anyE p v
  | .pass _ => false
  | .break_ _ => false
  | .continue_ _ => false
  | .other _ _ es bs => anyEs p es || anyB p bs
def anyB (p : Expr → Bool) : List Stmt → Bool
  | [] => false
  | s :: ss => anyS p s || anyB p ss
end

def isBoolOp : Expr → Bool
  | .boolop .. => true
  | _ => false
def isNot : Expr → Bool
  | .unary _ op _ => op == "Not"
  | _ => false
def isIfExp : Expr → Bool
  | .ifexp .. => true
  | _ => false
def isEqCompare (eqOn : Bool) : Expr → Bool
  | .compare _ _ ops _ => eqOn && ops.any isEqOp
  | _ => false

/-- a native logical construct: `and`/`or`, `not`, and `==`/`!=` under EQUALITY_OPERATORS -/
def nativeLogical (eqOn : Bool) (e : Expr) : Bool := isBoolOp e || isNot e || isEqCompare eqOn e

/-- a native overloadable EXPRESSION construct other than a call -/
def nativeExprKind (eqOn : Bool) (e : Expr) : Bool := nativeLogical eqOn e || isIfExp e

end Malt.Conv.NoNative
