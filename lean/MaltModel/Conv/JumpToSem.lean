import MaltModel.Py.Ast
import MaltModel.Conv.JumpsSem
/-
`toSem`: translation of the fragment of `Py.Ast` that has a counterpart in the shared core language
`Malt.Sem` (used to tie the syntactic pass models to the semantic lowerings, and to validate `Sem/Core.lean`
against CPython on generated programs).  `none` = outside the fragment.

Fragment: assignments / augmented assignments to plain names; expression statements; if/elif/else; while and
for without else (for: name target, optional EXTRA_LOOP_TEST); break, continue, pass, return;
`raise E<k>(args…)` (the argument expressions are evaluated first); try/except E<k>/finally without `else`
and without `as`; `with cm(<int>)[ as x]`.  Expressions: names, int/bool/None constants, not/and/or,
conditional expressions, + - *, a single < <= == != comparison, unary minus, calls `tr(…)`, `d()`, `n()`.

Shapes produced by the converters that are recognised:
* `with ag__.FunctionScope(…) as fscope:` around the function body — transparent (`toSemFn`);
* `(v,)` — the no-op statement of the break lowering: reads `v`;
* `ag__.UndefinedReturnValue()` ↦ `None` and `fscope.ret(rv, dr)` ↦ `rv` (`FunctionScope.ret` maps the
  undefined marker to `None` and returns everything else unchanged);
* `try: B  except: <constant assignments>; raise` — the wrapper of the return lowering ↦ `B`: in the core
  language an exception raised while evaluating an expression is never caught (`findHandler` only matches
  `raise E<k>`), so the handler can only change generated variables on the way out of the function.
-/
namespace Malt.Conv.JumpToSem
open Malt

def externals : List String := ["tr", "d", "n"]

/-- `E<k>` ↦ `k` -/
def excTag (s : String) : Option Nat :=
  if s.startsWith "E" then (s.drop 1).toNat? else none

def binOp? : String → Option Sem.BinOp
  | "Add" => some .add | "Sub" => some .sub | "Mult" => some .mul | _ => none

def cmpOp? : String → Option Sem.BinOp
  | "Lt" => some .lt | "LtE" => some .le | "Eq" => some .eq | "NotEq" => some .ne | _ => none

mutual
def toSemE : Py.Expr → Option Sem.Expr
  | .name _ s _ => some (.var s)
  | .const _ "int" r => r.toInt?.map fun n => .const (.int n)
  | .const _ "bool" "True" => some (.const (.int 1))
  | .const _ "bool" "False" => some (.const (.int 0))
  | .const _ "NoneType" _ => some (.const .none)
  | .unary _ "Not" e => (toSemE e).map .not
  | .unary _ "USub" e => (toSemE e).map fun x => .bin .sub (.const (.int 0)) x
  | .boolop _ isAnd vs => toSemBool isAnd vs
  | .ifexp _ t b e => do pure (.ite (← toSemE t) (← toSemE b) (← toSemE e))
  | .binop _ op l r => do pure (.bin (← binOp? op) (← toSemE l) (← toSemE r))
  | .compare _ l [op] [r] => do pure (.bin (← cmpOp? op) (← toSemE l) (← toSemE r))
  -- ag__.UndefinedReturnValue()
  | .call _ (.attr _ (.name _ "ag__" _) "UndefinedReturnValue" _) [] [] => some (.const .none)
  -- fscope.ret(rv, dr)
  | .call _ (.attr _ (.name _ _ _) "ret" _) [a, .name _ _ _] [] => toSemE a
  | .call _ (.name _ f _) args [] =>
      if externals.contains f then (toSemEs args).map (.call f) else none
  | _ => none
def toSemEs : List Py.Expr → Option (List Sem.Expr)
  | [] => some []
  | e :: es => do pure ((← toSemE e) :: (← toSemEs es))
/-- `a and b and c` ↦ `a and (b and c)` -/
def toSemBool (isAnd : Bool) : List Py.Expr → Option Sem.Expr
  | [] => none
  | [e] => toSemE e
  | e :: es => do
      let a ← toSemE e
      let b ← toSemBool isAnd es
      pure (if isAnd then .and a b else .or a b)
end

/-- Is this the handler of the return-lowering wrapper: constant assignments to names, then a bare `raise`? -/
def isReraiseBody : List Py.Stmt → Bool
  | [.raise _ [] []] => true
  | .assign _ [.name _ _ _] (.const _ _ _) :: rest => isReraiseBody rest
  | _ => false

def cmTag : Py.Expr → Option Int
  | .call _ (.name _ "cm" _) [.const _ "int" r] [] => r.toInt?
  | _ => none

mutual
def toSemS : Py.Stmt → Option (List Sem.Stmt)
  | .assign _ [.name _ x _] v => do pure [.assign x (← toSemE v)]
  | .augAssign _ (.name _ x _) op v => do pure [.assign x (.bin (← binOp? op) (.var x) (← toSemE v))]
  | .expr _ (.seq _ .tuple [.name _ v _] _) => some [.expr (.var v)]
  | .expr _ e => do pure [.expr (← toSemE e)]
  | .if_ _ test body orelse => do pure [.ifS (← toSemE test) (← toSemB body) (← toSemB orelse)]
  | .while_ _ test body [] => do pure [.whileS (← toSemE test) (← toSemB body)]
  | .for_ _ (.name _ x _) iter body [] [] false => do pure [.forS x (← toSemE iter) none (← toSemB body)]
  | .for_ _ (.name _ x _) iter body [] [ex] false => do
      pure [.forS x (← toSemE iter) (some (← toSemE ex)) (← toSemB body)]
  | .break_ _ => some [.brk]
  | .continue_ _ => some [.cont]
  | .pass _ => some [.pass]
  | .ret _ [] => some [.ret none]
  | .ret _ [e] => do pure [.ret (some (← toSemE e))]
  | .raise _ [.name _ e _] [] => do pure [.raise (← excTag e)]
  | .raise _ [.call _ (.name _ e _) args []] [] => do
      let t ← excTag e
      let as ← toSemEs args
      pure (as.map .expr ++ [.raise t])
  -- the wrapper of the return lowering
  | .try_ _ body [.handler _ [] [] hb] [] [] =>
      if isReraiseBody hb then toSemB body else none
  | .try_ _ body handlers [] finalbody => do
      pure [.tryS (← toSemB body) (← toSemH handlers) (← toSemB finalbody)]
  | .with_ _ [.withitem _ ce []] body false => do pure [.withS (← cmTag ce) (← toSemB body)]
  | .with_ _ [.withitem _ ce [.name _ x _]] body false => do
      let k ← cmTag ce
      pure [.withS k (.assign x (.const (.int k)) :: (← toSemB body))]
  | _ => none
def toSemB : List Py.Stmt → Option (List Sem.Stmt)
  | [] => some []
  | s :: rest => do pure ((← toSemS s) ++ (← toSemB rest))
def toSemH : List Py.Stmt → Option (List (Nat × List Sem.Stmt))
  | [] => some []
  | .handler _ [.name _ e _] [] hb :: rest => do pure ((← excTag e, ← toSemB hb) :: (← toSemH rest))
  | _ :: _ => none
end

/-- `with ag__.FunctionScope(...) as fscope:` -/
def isFunctionScope : Py.Expr → Bool
  | .withitem _ (.call _ (.attr _ (.name _ "ag__" _) "FunctionScope" _) _ _) _ => true
  | _ => false

def isDocstring : Py.Stmt → Bool
  | .expr _ (.const _ "str" _) => true
  | _ => false

/-- The body of a function as a core block (docstring dropped, FunctionScope wrapper transparent) and its
parameter names. -/
def toSemFn : Py.Stmt → Option (List String × Sem.Block)
  | .functionDef _ _ (.arguments _ [] args [] [] [] [] []) body _ _ false => do
      let params ← args.mapM fun a => match a with
        | .arg _ n _ => some n
        | _ => none
      let body := match body with
        | s :: rest => if isDocstring s then rest else body
        | [] => body
      match body with
      | [.with_ _ [item] wbody false] =>
          if isFunctionScope item then pure (params, ← toSemB wbody) else pure (params, ← toSemB body)
      | _ => pure (params, ← toSemB body)
  | _ => none

/-! ### the class predicates on `Py.Ast` (evaluated on the source function; for programs of the fragment
they coincide with `finOKB (toSem p)`, which the driver cross-checks) -/

mutual
/-- a `break`/`continue`/`return` statement occurs anywhere inside (nested functions not entered) -/
def hasJumpS : Py.Stmt → Bool
  | .break_ _ | .continue_ _ | .ret _ _ => true
  | .for_ _ _ _ b e _ _ => hasJumpB b || hasJumpB e
  | .while_ _ _ b e => hasJumpB b || hasJumpB e
  | .if_ _ _ b e => hasJumpB b || hasJumpB e
  | .with_ _ _ b _ => hasJumpB b
  | .try_ _ b h e f => hasJumpB b || hasJumpB h || hasJumpB e || hasJumpB f
  | .handler _ _ _ b => hasJumpB b
  | .other _ _ _ bs => hasJumpB bs
  | _ => false
def hasJumpB : List Py.Stmt → Bool
  | [] => false
  | s :: rest => hasJumpS s || hasJumpB rest
end

mutual
def hasRaiseS : Py.Stmt → Bool
  | .raise _ _ _ => true
  | .for_ _ _ _ b e _ _ => hasRaiseB b || hasRaiseB e
  | .while_ _ _ b e => hasRaiseB b || hasRaiseB e
  | .if_ _ _ b e => hasRaiseB b || hasRaiseB e
  | .with_ _ _ b _ => hasRaiseB b
  | .try_ _ b h e f => hasRaiseB b || hasRaiseB h || hasRaiseB e || hasRaiseB f
  | .handler _ _ _ b => hasRaiseB b
  | .other _ _ _ bs => hasRaiseB bs
  | _ => false
def hasRaiseB : List Py.Stmt → Bool
  | [] => false
  | s :: rest => hasRaiseS s || hasRaiseB rest
end

mutual
/-- a `return` anywhere inside (nested functions not entered) -/
def hasRetS : Py.Stmt → Bool
  | .ret _ _ => true
  | .for_ _ _ _ b e _ _ => hasRetB b || hasRetB e
  | .while_ _ _ b e => hasRetB b || hasRetB e
  | .if_ _ _ b e => hasRetB b || hasRetB e
  | .with_ _ _ b _ => hasRetB b
  | .try_ _ b h e f => hasRetB b || hasRetB h || hasRetB e || hasRetB f
  | .handler _ _ _ b => hasRetB b
  | .other _ _ _ bs => hasRetB bs
  | _ => false
def hasRetB : List Py.Stmt → Bool
  | [] => false
  | s :: rest => hasRetS s || hasRetB rest
end

mutual
/-- a jump leaves the statement: a `return` anywhere inside, or a `break`/`continue` that is not inside a loop
of the statement itself (a jump in a loop's `else` belongs to the enclosing loop) -/
def escS : Py.Stmt → Bool
  | .break_ _ | .continue_ _ | .ret _ _ => true
  | .for_ _ _ _ b e _ _ => hasRetB b || escB e
  | .while_ _ _ b e => hasRetB b || escB e
  | .if_ _ _ b e => escB b || escB e
  | .with_ _ _ b _ => escB b
  | .try_ _ b h e f => escB b || escB h || escB e || escB f
  | .handler _ _ _ b => escB b
  | .other _ _ _ bs => escB bs
  | _ => false
def escB : List Py.Stmt → Bool
  | [] => false
  | s :: rest => escS s || escB rest
end

mutual
/-- a break/continue/return leaves some `finally` block (documented exemption of C01, PEP 765) -/
def jumpInFinallyS : Py.Stmt → Bool
  | .try_ _ b h e f => escB f || jumpInFinallyB b || jumpInFinallyB h || jumpInFinallyB e || jumpInFinallyB f
  | .functionDef _ _ _ b _ _ _ => jumpInFinallyB b
  | .classDef _ _ _ _ b _ => jumpInFinallyB b
  | .for_ _ _ _ b e _ _ => jumpInFinallyB b || jumpInFinallyB e
  | .while_ _ _ b e => jumpInFinallyB b || jumpInFinallyB e
  | .if_ _ _ b e => jumpInFinallyB b || jumpInFinallyB e
  | .with_ _ _ b _ => jumpInFinallyB b
  | .handler _ _ _ b => jumpInFinallyB b
  | .other _ _ _ bs => jumpInFinallyB bs
  | _ => false
def jumpInFinallyB : List Py.Stmt → Bool
  | [] => false
  | s :: rest => jumpInFinallyS s || jumpInFinallyB rest
end

mutual
/-- some `finally` block contains a `raise` while the body / handlers / else of its `try` contain a
break/continue/return: the class of the finding `C01J-raise-in-finally-over-jump` -/
def raiseInFinallyOverJumpS : Py.Stmt → Bool
  | .try_ _ b h e f =>
      (hasRaiseB f && (hasJumpB b || hasJumpB h || hasJumpB e)) ||
        raiseInFinallyOverJumpB b || raiseInFinallyOverJumpB h || raiseInFinallyOverJumpB e ||
        raiseInFinallyOverJumpB f
  | .functionDef _ _ _ b _ _ _ => raiseInFinallyOverJumpB b
  | .classDef _ _ _ _ b _ => raiseInFinallyOverJumpB b
  | .for_ _ _ _ b e _ _ => raiseInFinallyOverJumpB b || raiseInFinallyOverJumpB e
  | .while_ _ _ b e => raiseInFinallyOverJumpB b || raiseInFinallyOverJumpB e
  | .if_ _ _ b e => raiseInFinallyOverJumpB b || raiseInFinallyOverJumpB e
  | .with_ _ _ b _ => raiseInFinallyOverJumpB b
  | .handler _ _ _ b => raiseInFinallyOverJumpB b
  | .other _ _ _ bs => raiseInFinallyOverJumpB bs
  | _ => false
def raiseInFinallyOverJumpB : List Py.Stmt → Bool
  | [] => false
  | s :: rest => raiseInFinallyOverJumpS s || raiseInFinallyOverJumpB rest
end

mutual
/-- a `try` with an `else` clause whose protected block contains a break/continue/return: the class of the
C01 finding `C01-jump-in-try-body-with-else` (repaired by guarding `Try.orelse` in the continue / return passes) -/
def jumpInTryBodyWithElseS : Py.Stmt → Bool
  | .try_ _ b h e f =>
      (!e.isEmpty && hasJumpB b) || jumpInTryBodyWithElseB b || jumpInTryBodyWithElseB h ||
        jumpInTryBodyWithElseB e || jumpInTryBodyWithElseB f
  | .functionDef _ _ _ b _ _ _ => jumpInTryBodyWithElseB b
  | .classDef _ _ _ _ b _ => jumpInTryBodyWithElseB b
  | .for_ _ _ _ b e _ _ => jumpInTryBodyWithElseB b || jumpInTryBodyWithElseB e
  | .while_ _ _ b e => jumpInTryBodyWithElseB b || jumpInTryBodyWithElseB e
  | .if_ _ _ b e => jumpInTryBodyWithElseB b || jumpInTryBodyWithElseB e
  | .with_ _ _ b _ => jumpInTryBodyWithElseB b
  | .handler _ _ _ b => jumpInTryBodyWithElseB b
  | .other _ _ _ bs => jumpInTryBodyWithElseB bs
  | _ => false
def jumpInTryBodyWithElseB : List Py.Stmt → Bool
  | [] => false
  | s :: rest => jumpInTryBodyWithElseS s || jumpInTryBodyWithElseB rest
end

/-! ### comparison of core programs up to the spelling of generated names -/

mutual
def namesE : Sem.Expr → List String
  | .const _ => []
  | .var x => [x]
  | .not e => namesE e
  | .and a b => namesE a ++ namesE b
  | .or a b => namesE a ++ namesE b
  | .ite c t e => namesE c ++ namesE t ++ namesE e
  | .bin _ a b => namesE a ++ namesE b
  | .call _ args => namesEs args
def namesEs : List Sem.Expr → List String
  | [] => []
  | e :: es => namesE e ++ namesEs es
end

mutual
/-- all names in preorder (with repetitions) -/
def namesS : Sem.Stmt → List String
  | .assign x e => x :: namesE e
  | .expr e => namesE e
  | .ifS c t e => namesE c ++ namesB t ++ namesB e
  | .whileS c b => namesE c ++ namesB b
  | .forS x it ex b => x :: namesE it ++ (match ex with | some t => namesE t | none => []) ++ namesB b
  | .ret (some e) => namesE e
  | .tryS b hs f => namesB b ++ namesH hs ++ namesB f
  | .withS _ b => namesB b
  | _ => []
def namesB : List Sem.Stmt → List String
  | [] => []
  | s :: rest => namesS s ++ namesB rest
def namesH : List (Nat × List Sem.Stmt) → List String
  | [] => []
  | (_, b) :: hs => namesB b ++ namesH hs
end

mutual
def renE (ρ : String → String) : Sem.Expr → Sem.Expr
  | .const v => .const v
  | .var x => .var (ρ x)
  | .not e => .not (renE ρ e)
  | .and a b => .and (renE ρ a) (renE ρ b)
  | .or a b => .or (renE ρ a) (renE ρ b)
  | .ite c t e => .ite (renE ρ c) (renE ρ t) (renE ρ e)
  | .bin op a b => .bin op (renE ρ a) (renE ρ b)
  | .call f args => .call f (renEs ρ args)
def renEs (ρ : String → String) : List Sem.Expr → List Sem.Expr
  | [] => []
  | e :: es => renE ρ e :: renEs ρ es
end

mutual
def renS (ρ : String → String) : Sem.Stmt → Sem.Stmt
  | .assign x e => .assign (ρ x) (renE ρ e)
  | .expr e => .expr (renE ρ e)
  | .ifS c t e => .ifS (renE ρ c) (renB ρ t) (renB ρ e)
  | .whileS c b => .whileS (renE ρ c) (renB ρ b)
  | .forS x it ex b => .forS (ρ x) (renE ρ it) (ex.map (renE ρ)) (renB ρ b)
  | .ret e => .ret (e.map (renE ρ))
  | .tryS b hs f => .tryS (renB ρ b) (renH ρ hs) (renB ρ f)
  | .withS t b => .withS t (renB ρ b)
  | s => s
def renB (ρ : String → String) : List Sem.Stmt → List Sem.Stmt
  | [] => []
  | s :: rest => renS ρ s :: renB ρ rest
def renH (ρ : String → String) : List (Nat × List Sem.Stmt) → List (Nat × List Sem.Stmt)
  | [] => []
  | (t, b) :: hs => (t, renB ρ b) :: renH ρ hs
end

/-- Rename the names that are not in `keep` to `%1, %2, …` in order of first occurrence. -/
def canon (keep : List String) (b : Sem.Block) : Sem.Block :=
  let gens := ((namesB b).filter fun x => !keep.contains x).eraseDups
  let ρ := fun x => match gens.idxOf? x with
    | some k => "%" ++ toString (k + 1)
    | none => x
  renB ρ b

mutual
def beqE : Sem.Expr → Sem.Expr → Bool
  | .const a, .const b => a == b
  | .var a, .var b => a == b
  | .not a, .not b => beqE a b
  | .and a1 a2, .and b1 b2 => beqE a1 b1 && beqE a2 b2
  | .or a1 a2, .or b1 b2 => beqE a1 b1 && beqE a2 b2
  | .ite a1 a2 a3, .ite b1 b2 b3 => beqE a1 b1 && beqE a2 b2 && beqE a3 b3
  | .bin o1 a1 a2, .bin o2 b1 b2 => o1 == o2 && beqE a1 b1 && beqE a2 b2
  | .call f as, .call g bs => f == g && beqEs as bs
  | _, _ => false
def beqEs : List Sem.Expr → List Sem.Expr → Bool
  | [], [] => true
  | a :: as, b :: bs => beqE a b && beqEs as bs
  | _, _ => false
end

def beqO : Option Sem.Expr → Option Sem.Expr → Bool
  | none, none => true
  | some a, some b => beqE a b
  | _, _ => false

mutual
def beqS : Sem.Stmt → Sem.Stmt → Bool
  | .assign x a, .assign y b => x == y && beqE a b
  | .expr a, .expr b => beqE a b
  | .ifS c1 t1 e1, .ifS c2 t2 e2 => beqE c1 c2 && beqB t1 t2 && beqB e1 e2
  | .whileS c1 b1, .whileS c2 b2 => beqE c1 c2 && beqB b1 b2
  | .forS x1 i1 e1 b1, .forS x2 i2 e2 b2 => x1 == x2 && beqE i1 i2 && beqO e1 e2 && beqB b1 b2
  | .brk, .brk => true
  | .cont, .cont => true
  | .pass, .pass => true
  | .raise a, .raise b => a == b
  | .ret a, .ret b => beqO a b
  | .tryS b1 h1 f1, .tryS b2 h2 f2 => beqB b1 b2 && beqH h1 h2 && beqB f1 f2
  | .withS t1 b1, .withS t2 b2 => t1 == t2 && beqB b1 b2
  | _, _ => false
def beqB : List Sem.Stmt → List Sem.Stmt → Bool
  | [], [] => true
  | a :: as, b :: bs => beqS a b && beqB as bs
  | _, _ => false
def beqH : List (Nat × List Sem.Stmt) → List (Nat × List Sem.Stmt) → Bool
  | [], [] => true
  | (t1, a) :: as, (t2, b) :: bs => t1 == t2 && beqB a b && beqH as bs
  | _, _ => false
end

end Malt.Conv.JumpToSem
