import MaltModel.Py.Ast
/-
`Conv.Anf` — functional mirror of `malt/pyct/common_transformers/anf.py` (`AnfTransformer`).

The real transformer is an `ast.NodeTransformer` with two pieces of mutable state:
`self._gensym._idx` (here: `n : Nat`, the number of temporaries generated so far) and
`self._pending_statements` (here: the list of statements returned by the expression visitors, and
the `pend` argument threaded through the statement visitors).  Expression visits only ever *append*
to the pending list, so they are written in "writer" style: `visitE cfg e n = ok (e', D, n')` means
that visiting `e` with `_idx = n` rewrote it to `e'`, appended `D` to the pending statements and
left `_idx = n'`.  Statement visits consume the pending list exactly where the code does
(`_consume_pending_statements`) and fail with `assertionError` exactly where the code asserts
`not self._pending_statements` (pending statements *leak* out of statements the class has no
`visit_` method for: `AnnAssign`, function defaults/decorators, class bases, handler types, …).

Configuration: a list of rules, first match wins, no match = leave (`_should_transform`).  Directive
callables other than `REPLACE`/`LEAVE` are not modelled.
-/
namespace Malt.Anf
open Malt.Py

inductive AnfErr where
  | valueError (what : String)      -- `raise ValueError(msg)`; `what` names the construct
  | assertionError                  -- `assert not self._pending_statements`
  | typeError                       -- templates.replace given a non-node (FormattedValue.conversion)
  | unsupported (kind : String)     -- node kind outside the model (async for/with, match, …)
  deriving DecidableEq, Repr, Inhabited

/-- `ASTEdgePattern(parent, field, child)`; `none` = `anf.ANY`; a class slot is a tuple of class names. -/
structure Pat where
  parent : Option (List String)
  field : Option String
  child : Option (List String)
  deriving DecidableEq, Repr, Inhabited

inductive Rule where
  | any (replace : Bool)                    -- `(anf.ANY, REPLACE|LEAVE)`
  | edge (p : Pat) (replace : Bool)         -- `(ASTEdgePattern(..), REPLACE|LEAVE)`
  deriving DecidableEq, Repr, Inhabited

abbrev Config := List Rule

/-- `config=None`. -/
def defaultConfig : Config :=
  [.edge ⟨none, none, some ["Constant", "Name"]⟩ false, .edge ⟨none, none, some ["expr"]⟩ true]

def exprKinds : List String :=
  ["Name", "Constant", "Attribute", "Subscript", "Call", "BoolOp", "UnaryOp", "BinOp", "Compare", "IfExp",
   "Lambda", "Tuple", "List", "Set", "Starred", "NamedExpr", "ListComp", "SetComp", "GeneratorExp", "DictComp",
   "Dict", "Slice", "JoinedStr", "FormattedValue", "Await", "Yield", "YieldFrom"]

def stmtKinds : List String :=
  ["FunctionDef", "AsyncFunctionDef", "ClassDef", "Return", "Delete", "Assign", "AugAssign", "AnnAssign", "For",
   "AsyncFor", "While", "If", "With", "AsyncWith", "Raise", "Try", "Assert", "Import", "ImportFrom", "Global",
   "Nonlocal", "Expr", "Pass", "Break", "Continue"]

/-- `isinstance(node_of_kind k, cls)` for the class names a configuration may mention. -/
def isInst (k cls : String) : Bool :=
  cls == k || (cls == "expr" && exprKinds.contains k) || (cls == "stmt" && stmtKinds.contains k) || cls == "AST"

def slotMatches (slot : Option (List String)) (k : String) : Bool :=
  match slot with
  | none => true
  | some cs => cs.any (isInst k)

def Pat.matches (p : Pat) (pk fld ck : String) : Bool :=
  slotMatches p.parent pk && (match p.field with | none => true | some f => f == fld) && slotMatches p.child ck

/-- `_should_transform`: first matching rule governs; falling off the end = do not transform. -/
def shouldTransform : Config → String → String → String → Bool
  | [], _, _, _ => false
  | .any r :: _, _, _, _ => r
  | .edge p r :: rest, pk, fld, ck => if p.matches pk fld ck then r else shouldTransform rest pk fld ck

/-- number of entries of a dict display (first attribute of the `Dict` node), by plain list recursion -/
def dictNk (ats : List String) : Nat :=
  ((ats.headD "0").toList).foldl (fun acc c => acc * 10 + (c.toNat - 48)) 0

def compKindName : CompKind → String
  | .listComp => "ListComp" | .setComp => "SetComp" | .genExp => "GeneratorExp" | .dictComp => "DictComp"

/-- The Python class name of a node (what `isinstance` sees). -/
def kindOf : Expr → String
  | .name .. => "Name" | .const .. => "Constant" | .attr .. => "Attribute" | .subscript .. => "Subscript"
  | .call .. => "Call" | .keyword .. => "keyword" | .boolop .. => "BoolOp" | .unary .. => "UnaryOp"
  | .binop .. => "BinOp" | .compare .. => "Compare" | .ifexp .. => "IfExp" | .lambda .. => "Lambda"
  | .seq _ .tuple .. => "Tuple" | .seq _ .list .. => "List" | .seq _ .set .. => "Set"
  | .starred .. => "Starred" | .namedexpr .. => "NamedExpr" | .comp _ k .. => compKindName k
  | .comprehension .. => "comprehension" | .arguments .. => "arguments" | .arg .. => "arg"
  | .withitem .. => "withitem" | .noneMarker => "NoneType" | .other _ k .. => k

/-- `_is_trivial` on expression nodes: variable references (not the py2 name constants) and `...`. -/
def isTrivial : Expr → Bool
  | .name _ s _ => !(s == "True" || s == "False" || s == "None")
  | .const _ k _ => k == "ellipsis"
  | _ => false

/-- `DummyGensym.new_name()` when `_idx = n` before the call: `tmp_1001`, `tmp_1002`, … -/
def tmpName (n : Nat) : String := "tmp_" ++ Nat.repr (1001 + n)

/-! `templates.ContextAdjuster(Load)` applied to the copy of a hoisted expression.
`ov` is `_ctx_override` (`some` = apply, `none` = leave).  Identity on expressions already in Load context. -/
mutual
def adjustCtx (ov : Option Ctx) : Expr → Expr
  | .name i s c => .name i s (ov.getD c)
  | .attr i v a c => .attr i (adjustCtx (some .load) v) a (ov.getD c)
  | .subscript i v s c => .subscript i (adjustCtx (some .load) v) (adjustCtx (some .load) s) (ov.getD c)
  | .seq i .set es c => .seq i .set (adjustCtxs ov es) c
  | .seq i k es c => .seq i k (adjustCtxs ov es) (ov.getD c)
  | .call i f as ks => .call i (adjustCtx none f) (adjustCtxs none as) (adjustCtxs none ks)
  | .lambda i as b => .lambda i (adjustCtx none as) (adjustCtx none b)
  | .comprehension i t it ifs a => .comprehension i (adjustCtx none t) (adjustCtx none it) (adjustCtxs none ifs) a
  | .other i "Dict" ats ks => .other i "Dict" ats (adjustCtxs none ks)
  | .keyword i a h v => .keyword i a h (adjustCtx ov v)
  | .boolop i b vs => .boolop i b (adjustCtxs ov vs)
  | .unary i op e => .unary i op (adjustCtx ov e)
  | .binop i op l r => .binop i op (adjustCtx ov l) (adjustCtx ov r)
  | .compare i l ops rs => .compare i (adjustCtx ov l) ops (adjustCtxs ov rs)
  | .ifexp i t b e => .ifexp i (adjustCtx ov t) (adjustCtx ov b) (adjustCtx ov e)
  | .starred i v c => .starred i (adjustCtx ov v) c
  | .namedexpr i t v => .namedexpr i (adjustCtx ov t) (adjustCtx ov v)
  | .comp i k es gs => .comp i k (adjustCtxs ov es) (adjustCtxs ov gs)
  | .arguments i a b c d e f g =>
      .arguments i (adjustCtxs ov a) (adjustCtxs ov b) (adjustCtxs ov c) (adjustCtxs ov d) (adjustCtxs ov e)
        (adjustCtxs ov f) (adjustCtxs ov g)
  | .arg i nm an => .arg i nm (adjustCtxs ov an)
  | .withitem i c v => .withitem i (adjustCtx ov c) (adjustCtxs ov v)
  | .other i k ats ks => .other i k ats (adjustCtxs ov ks)
  | .const i k r => .const i k r
  | .noneMarker => .noneMarker
def adjustCtxs (ov : Option Ctx) : List Expr → List Expr
  | [] => []
  | e :: es => adjustCtx ov e :: adjustCtxs ov es
end

/-- `hasattr(node, 'ctx')`: `ReplaceTransformer.visit_Name` runs the `ContextAdjuster` only on such nodes. -/
def hasCtx : Expr → Bool
  | .name .. | .attr .. | .subscript .. | .starred .. => true
  | .seq _ k _ _ => k != .set
  | _ => false

/-- The copy of the hoisted expression placed on the right of `temp_name = expr`. -/
def hoistCopy (e : Expr) : Expr := if hasCtx e then adjustCtx (some .load) e else e

/-- The statement `temp_name = expr` built by `_do_transform_node`. -/
def tmpAssign (n : Nat) (e : Expr) : Stmt :=
  .assign 0 [.name 0 (tmpName n) .store] (hoistCopy e)

/-- `_do_transform_node`: the replacement `Name` (always Load context), the pending assignment, new `_idx`. -/
def hoist (e : Expr) (n : Nat) : Expr × List Stmt × Nat :=
  (.name 0 (tmpName n) .load, [tmpAssign n e], n + 1)

/-! `_ensure_node_in_anf(parent, field, node)` for a single node / a list field.  `pk` is the class name
of `parent`.  None → unchanged; trivial → unchanged; keyword → its value, same (parent, field);
Starred / withitem → their fields, same (parent, field); otherwise ask the configuration. -/
mutual
def ensure (cfg : Config) (pk fld : String) : Expr → Nat → Expr × List Stmt × Nat
  | .noneMarker, n => (.noneMarker, [], n)
  | .keyword i a h v, n =>
      let r := ensure cfg pk fld v n
      (.keyword i a h r.1, r.2.1, r.2.2)
  | .starred i v c, n =>
      let r := ensure cfg pk fld v n
      (.starred i r.1 c, r.2.1, r.2.2)
  | .withitem i ce ov, n =>
      let r := ensure cfg pk fld ce n
      let r2 := ensureList cfg pk fld ov r.2.2
      (.withitem i r.1 r2.1, r.2.1 ++ r2.2.1, r2.2.2)
  | e, n =>
      if isTrivial e then (e, [], n)
      else if shouldTransform cfg pk fld (kindOf e) then hoist e n
      else (e, [], n)
def ensureList (cfg : Config) (pk fld : String) : List Expr → Nat → List Expr × List Stmt × Nat
  | [], n => ([], [], n)
  | e :: es, n =>
      let r := ensure cfg pk fld e n
      let r2 := ensureList cfg pk fld es r.2.2
      (r.1 :: r2.1, r.2.1 ++ r2.2.1, r2.2.2)
end

abbrev RE := Except AnfErr (Expr × List Stmt × Nat)
abbrev REs := Except AnfErr (List Expr × List Stmt × Nat)

/-- A non-node field value reaching `_should_transform` (`BoolOp.op`, `Lambda.args`): if the configuration
selects it, a pending statement is added; the enclosing construct is trivial-only and then raises. -/
def pseudoSelected (cfg : Config) (pk fld ck : String) : Bool := shouldTransform cfg pk fld ck

/-- trivial-only check: `len(self._pending_statements) != k`. -/
def trivialOnly (what : String) (extra : Bool) (r : Expr × List Stmt × Nat) : RE :=
  if extra || !r.2.1.isEmpty then .error (.valueError what) else .ok r

/-! `visit(node)` on expression-side nodes.  Every `visit_X` first runs `generic_visit` (children in
`_fields` order) and then `_ensure_fields_in_anf` (again in `_fields` order), so sub-sub-expressions of
*all* children are hoisted before any direct child is. -/
mutual
def visitE (cfg : Config) : Expr → Nat → RE
  | .name i s c, n => .ok (.name i s c, [], n)
  | .const i k r, n => .ok (.const i k r, [], n)
  | .noneMarker, n => .ok (.noneMarker, [], n)
  | .attr i v a c, n => do                                   -- visit_Attribute: strict
      let (v1, d1, n1) ← visitE cfg v n
      let (v2, h1, n2) := ensure cfg "Attribute" "value" v1 n1
      pure (.attr i v2 a c, d1 ++ h1, n2)
  | .subscript i v s c, n => do                              -- visit_Subscript: strict
      let (v1, d1, n1) ← visitE cfg v n
      let (s1, d2, n2) ← visitE cfg s n1
      let (v2, h1, n3) := ensure cfg "Subscript" "value" v1 n2
      let (s2, h2, n4) := ensure cfg "Subscript" "slice" s1 n3
      pure (.subscript i v2 s2 c, d1 ++ d2 ++ h1 ++ h2, n4)
  | .call i f as ks, n => do                                 -- visit_Call: strict
      let (f1, d1, n1) ← visitE cfg f n
      let (as1, d2, n2) ← visitEs cfg as n1
      let (ks1, d3, n3) ← visitEs cfg ks n2
      let (f2, h1, n4) := ensure cfg "Call" "func" f1 n3
      let (as2, h2, n5) := ensureList cfg "Call" "args" as1 n4
      let (ks2, h3, n6) := ensureList cfg "Call" "keywords" ks1 n5
      pure (.call i f2 as2 ks2, d1 ++ d2 ++ d3 ++ h1 ++ h2 ++ h3, n6)
  | .keyword i a h v, n => do                                -- generic_visit
      let (v1, d1, n1) ← visitE cfg v n
      pure (.keyword i a h v1, d1, n1)
  | .boolop i isAnd vs, n => do                              -- visit_BoolOp: trivial only
      let (vs1, d1, n1) ← visitEs cfg vs n
      let (vs2, h1, n2) := ensureList cfg "BoolOp" "values" vs1 n1
      trivialOnly "BoolOp" (pseudoSelected cfg "BoolOp" "op" (if isAnd then "And" else "Or"))
        (.boolop i isAnd vs2, d1 ++ h1, n2)
  | .unary i op e, n => do                                   -- visit_UnaryOp: strict
      let (e1, d1, n1) ← visitE cfg e n
      let (e2, h1, n2) := ensure cfg "UnaryOp" "operand" e1 n1
      pure (.unary i op e2, d1 ++ h1, n2)
  | .binop i op l r, n =>                                    -- visit_BinOp: strict
      -- `_is_trivial` does not list `ast.MatMult`: a configuration selecting the *operator* child makes the
      -- code emit `tmp = @` (not Python); outside the model
      if op == "MatMult" && shouldTransform cfg "BinOp" "op" "MatMult" then .error (.unsupported "BinOp.op") else do
      let (l1, d1, n1) ← visitE cfg l n
      let (r1, d2, n2) ← visitE cfg r n1
      let (l2, h1, n3) := ensure cfg "BinOp" "left" l1 n2
      let (r2, h2, n4) := ensure cfg "BinOp" "right" r1 n3
      pure (.binop i op l2 r2, d1 ++ d2 ++ h1 ++ h2, n4)
  | .compare i l ops rs, n =>                                -- visit_Compare
      if ops.length > 1 then .error (.valueError "Compare") else do
      let (l1, d1, n1) ← visitE cfg l n
      let (rs1, d2, n2) ← visitEs cfg rs n1
      let (l2, h1, n3) := ensure cfg "Compare" "left" l1 n2
      let (rs2, h2, n4) := ensureList cfg "Compare" "comparators" rs1 n3
      pure (.compare i l2 ops rs2, d1 ++ d2 ++ h1 ++ h2, n4)
  | .ifexp i t b e, n => do                                  -- visit_IfExp: trivial only
      let (t1, d1, n1) ← visitE cfg t n
      let (b1, d2, n2) ← visitE cfg b n1
      let (e1, d3, n3) ← visitE cfg e n2
      let (t2, h1, n4) := ensure cfg "IfExp" "test" t1 n3
      let (b2, h2, n5) := ensure cfg "IfExp" "body" b1 n4
      let (e2, h3, n6) := ensure cfg "IfExp" "orelse" e1 n5
      trivialOnly "IfExp" false (.ifexp i t2 b2 e2, d1 ++ d2 ++ d3 ++ h1 ++ h2 ++ h3, n6)
  | .lambda i as b, n => do                                  -- visit_Lambda: trivial only
      let (as1, d1, n1) ← visitE cfg as n
      let (b1, d2, n2) ← visitE cfg b n1
      let (b2, h1, n3) := ensure cfg "Lambda" "body" b1 n2
      trivialOnly "Lambda" (pseudoSelected cfg "Lambda" "args" "arguments") (.lambda i as1 b2, d1 ++ d2 ++ h1, n3)
  | .seq i .set es c, n => do                                -- visit_Set: strict
      let (es1, d1, n1) ← visitEs cfg es n
      let (es2, h1, n2) := ensureList cfg "Set" "elts" es1 n1
      pure (.seq i .set es2 c, d1 ++ h1, n2)
  | .seq i .tuple es c, n => do                              -- visit_Tuple: fields ensured unless Store
      let (es1, d1, n1) ← visitEs cfg es n
      if c == .store then pure (.seq i .tuple es1 c, d1, n1) else
      let (es2, h1, n2) := ensureList cfg "Tuple" "elts" es1 n1
      pure (.seq i .tuple es2 c, d1 ++ h1, n2)
  | .seq i .list es c, n => do                               -- visit_List
      let (es1, d1, n1) ← visitEs cfg es n
      if c == .store then pure (.seq i .list es1 c, d1, n1) else
      let (es2, h1, n2) := ensureList cfg "List" "elts" es1 n1
      pure (.seq i .list es2 c, d1 ++ h1, n2)
  | .starred i v c, n => do                                  -- generic_visit
      let (v1, d1, n1) ← visitE cfg v n
      pure (.starred i v1 c, d1, n1)
  | .namedexpr i t v, n => do                                -- generic_visit (no visit_NamedExpr)
      let (t1, d1, n1) ← visitE cfg t n
      let (v1, d2, n2) ← visitE cfg v n1
      pure (.namedexpr i t1 v1, d1 ++ d2, n2)
  | .comp _ k _ _, _ => .error (.valueError (compKindName k))  -- visit_ListComp & co: always raise
  | .comprehension i t it ifs a, n => do                     -- generic_visit (unreachable through comps)
      let (t1, d1, n1) ← visitE cfg t n
      let (it1, d2, n2) ← visitE cfg it n1
      let (ifs1, d3, n3) ← visitEs cfg ifs n2
      pure (.comprehension i t1 it1 ifs1 a, d1 ++ d2 ++ d3, n3)
  | .arguments i po ar va ko kd kw df, n => do               -- generic_visit, `_fields` order
      let (po1, d1, n1) ← visitEs cfg po n
      let (ar1, d2, n2) ← visitEs cfg ar n1
      let (va1, d3, n3) ← visitEs cfg va n2
      let (ko1, d4, n4) ← visitEs cfg ko n3
      let (kd1, d5, n5) ← visitEs cfg kd n4
      let (kw1, d6, n6) ← visitEs cfg kw n5
      let (df1, d7, n7) ← visitEs cfg df n6
      pure (.arguments i po1 ar1 va1 ko1 kd1 kw1 df1, d1 ++ d2 ++ d3 ++ d4 ++ d5 ++ d6 ++ d7, n7)
  | .arg i nm an, n => do
      let (an1, d1, n1) ← visitEs cfg an n
      pure (.arg i nm an1, d1, n1)
  | .withitem i ce ov, n => do                               -- generic_visit
      let (ce1, d1, n1) ← visitE cfg ce n
      let (ov1, d2, n2) ← visitEs cfg ov n1
      pure (.withitem i ce1 ov1, d1 ++ d2, n2)
  | .other i k ats ks, n =>
      if k == "Dict" then do                                 -- visit_Dict: strict; fields keys, values
        let (ks1, d1, n1) ← visitEs cfg ks n                 -- (all keys, then all values: kids are stored that way)
        let nk := dictNk ats
        let (keys2, h1, n2) := ensureList cfg "Dict" "keys" (ks1.take nk) n1
        let (vals2, h2, n3) := ensureList cfg "Dict" "values" (ks1.drop nk) n2
        pure (.other i k ats (keys2 ++ vals2), d1 ++ h1 ++ h2, n3)
      else if k == "Slice" then do                           -- no visit_Slice: generic_visit only
        let (ks1, d1, n1) ← visitEs cfg ks n
        pure (.other i k ats ks1, d1, n1)
      else if k == "Yield" then do                           -- visit_Yield: strict
        let (ks1, d1, n1) ← visitEs cfg ks n
        let (ks2, h1, n2) := ensureList cfg "Yield" "value" ks1 n1
        pure (.other i k ats ks2, d1 ++ h1, n2)
      else if k == "Await" || k == "YieldFrom" then do       -- trivial only
        let (ks1, d1, n1) ← visitEs cfg ks n
        let (ks2, h1, n2) := ensureList cfg k "value" ks1 n1
        trivialOnly k false (.other i k ats ks2, d1 ++ h1, n2)
      else if k == "JoinedStr" then do                       -- trivial only
        let (ks1, d1, n1) ← visitEs cfg ks n
        let (ks2, h1, n2) := ensureList cfg k "values" ks1 n1
        trivialOnly k false (.other i k ats ks2, d1 ++ h1, n2)
      else if k == "FormattedValue" then do                  -- trivial only; fields value, conversion, format_spec
        let (ks1, d1, n1) ← visitEs cfg ks n
        let (v2, h1, n2) := ensureList cfg k "value" (ks1.take 1) n1
        if shouldTransform cfg k "conversion" "int" then .error .typeError else
        let (f2, h2, n3) := ensureList cfg k "format_spec" (ks1.drop 1) n2
        trivialOnly k false (.other i k ats (v2 ++ f2), d1 ++ h1 ++ h2, n3)
      else .error (.unsupported k)
def visitEs (cfg : Config) : List Expr → Nat → REs
  | [], n => .ok ([], [], n)
  | e :: es, n => do
      let (e1, d1, n1) ← visitE cfg e n
      let (es1, d2, n2) ← visitEs cfg es n1
      pure (e1 :: es1, d1 ++ d2, n2)
end

/-- Result of a statement visit: replacement statements, `_idx`, pending statements left behind. -/
abbrev RS := Except AnfErr (List Stmt × Nat × List Stmt)

/-- `assert not self._pending_statements`. -/
def assertNoPending (pend : List Stmt) : Except AnfErr Unit :=
  if pend.isEmpty then .ok () else .error .assertionError

mutual
def visitS (cfg : Config) : Stmt → Nat → List Stmt → RS
  -- _visit_strict_statement, children ensured
  | .ret i v, n, pend => do
      assertNoPending pend
      let (v1, d1, n1) ← visitEs cfg v n
      let (v2, h1, n2) := ensureList cfg "Return" "value" v1 n1
      pure (d1 ++ h1 ++ [Stmt.ret i v2], n2, [])
  | .raise i exc cause, n, pend => do
      assertNoPending pend
      let (e1, d1, n1) ← visitEs cfg exc n
      let (c1, d2, n2) ← visitEs cfg cause n1
      let (e2, h1, n3) := ensureList cfg "Raise" "exc" e1 n2
      let (c2, h2, n4) := ensureList cfg "Raise" "cause" c1 n3
      pure (d1 ++ d2 ++ h1 ++ h2 ++ [Stmt.raise i e2 c2], n4, [])
  -- _visit_strict_statement, children_ok_to_transform=False
  | .delete i ts, n, pend => do
      assertNoPending pend
      let (ts1, d1, n1) ← visitEs cfg ts n
      pure (d1 ++ [Stmt.delete i ts1], n1, [])
  | .assign i ts v, n, pend => do
      assertNoPending pend
      let (ts1, d1, n1) ← visitEs cfg ts n
      let (v1, d2, n2) ← visitE cfg v n1
      pure (d1 ++ d2 ++ [Stmt.assign i ts1 v1], n2, [])
  | .augAssign i t op v, n, pend => do
      assertNoPending pend
      let (t1, d1, n1) ← visitE cfg t n
      let (v1, d2, n2) ← visitE cfg v n1
      pure (d1 ++ d2 ++ [Stmt.augAssign i t1 op v1], n2, [])
  | .expr i v, n, pend => do
      assertNoPending pend
      let (v1, d1, n1) ← visitE cfg v n
      pure (d1 ++ [Stmt.expr i v1], n1, [])
  -- visit_If / visit_For / visit_With: test / iter / items assignments flushed outside the block;
  -- the following generic_visit revisits the expression (and, for For, visits the target for the first time)
  | .if_ i t b e, n, pend => do
      assertNoPending pend
      let (t1, d1, n1) ← visitE cfg t n
      let (t2, h1, n2) := ensure cfg "If" "test" t1 n1
      let (t3, p1, n3) ← visitE cfg t2 n2
      let (b1, n4, p2) ← visitSs cfg b n3 p1
      let (e1, n5, p3) ← visitSs cfg e n4 p2
      assertNoPending p3
      pure (d1 ++ h1 ++ [Stmt.if_ i t3 b1 e1], n5, [])
  | .for_ i tg it b e x isAsync, n, pend =>
      if isAsync then .error (.unsupported "AsyncFor") else do
      assertNoPending pend
      let (it1, d1, n1) ← visitE cfg it n
      let (it2, h1, n2) := ensure cfg "For" "iter" it1 n1
      let (tg1, p0, n3) ← visitE cfg tg n2
      let (it3, p1, n4) ← visitE cfg it2 n3
      let (b1, n5, p2) ← visitSs cfg b n4 (p0 ++ p1)
      let (e1, n6, p3) ← visitSs cfg e n5 p2
      assertNoPending p3
      pure (d1 ++ h1 ++ [Stmt.for_ i tg1 it3 b1 e1 x isAsync], n6, [])
  | .with_ i items b isAsync, n, pend =>
      if isAsync then .error (.unsupported "AsyncWith") else do
      assertNoPending pend
      let (it1, d1, n1) ← visitEs cfg items n
      let (it2, h1, n2) := ensureList cfg "With" "items" it1 n1
      let (it3, p1, n3) ← visitEs cfg it2 n2
      let (b1, n4, p2) ← visitSs cfg b n3 p1
      assertNoPending p2
      pure (d1 ++ h1 ++ [Stmt.with_ i it3 b1 isAsync], n4, [])
  -- visit_While: a test that needs statements is rejected; then plain generic_visit (no trailing assert)
  | .while_ i t b e, n, pend => do
      assertNoPending pend
      let (t1, d1, n1) ← visitE cfg t n
      let (t2, h1, n2) := ensure cfg "While" "test" t1 n1
      if !(d1 ++ h1).isEmpty then .error (.valueError "While") else
      let (t3, p1, n3) ← visitE cfg t2 n2
      let (b1, n4, p2) ← visitSs cfg b n3 p1
      let (e1, n5, p3) ← visitSs cfg e n4 p2
      pure ([.while_ i t3 b1 e1], n5, p3)
  -- visit_Assert: _visit_trivial_only_statement
  | .assert_ i t m, n, pend => do
      assertNoPending pend
      let (t1, d1, n1) ← visitE cfg t n
      let (m1, d2, n2) ← visitEs cfg m n1
      let (t2, h1, n3) := ensure cfg "Assert" "test" t1 n2
      let (m2, h2, n4) := ensureList cfg "Assert" "msg" m1 n3
      if !(d1 ++ d2 ++ h1 ++ h2).isEmpty then .error (.valueError "Assert") else
      pure ([.assert_ i t2 m2], n4, [])
  -- no visit_ method: ast.NodeTransformer.generic_visit; pending statements are neither checked nor flushed
  | .annAssign i t a v s, n, pend => do
      let (t1, d1, n1) ← visitE cfg t n
      let (a1, d2, n2) ← visitE cfg a n1
      let (v1, d3, n3) ← visitEs cfg v n2
      pure ([.annAssign i t1 a1 v1 s], n3, pend ++ d1 ++ d2 ++ d3)
  | .functionDef i nm as b ds rs isAsync, n, pend => do
      let (as1, d1, n1) ← visitE cfg as n
      let (b1, n2, p1) ← visitSs cfg b n1 (pend ++ d1)
      let (ds1, d2, n3) ← visitEs cfg ds n2
      let (rs1, d3, n4) ← visitEs cfg rs n3
      pure ([.functionDef i nm as1 b1 ds1 rs1 isAsync], n4, p1 ++ d2 ++ d3)
  | .classDef i nm bs ks b ds, n, pend => do
      let (bs1, d1, n1) ← visitEs cfg bs n
      let (ks1, d2, n2) ← visitEs cfg ks n1
      let (b1, n3, p1) ← visitSs cfg b n2 (pend ++ d1 ++ d2)
      let (ds1, d3, n4) ← visitEs cfg ds n3
      pure ([.classDef i nm bs1 ks1 b1 ds1], n4, p1 ++ d3)
  | .try_ i b hs e f, n, pend => do
      let (b1, n1, p1) ← visitSs cfg b n pend
      let (hs1, n2, p2) ← visitSs cfg hs n1 p1
      let (e1, n3, p3) ← visitSs cfg e n2 p2
      let (f1, n4, p4) ← visitSs cfg f n3 p3
      pure ([.try_ i b1 hs1 e1 f1], n4, p4)
  | .handler i ty nm b, n, pend => do
      let (ty1, d1, n1) ← visitEs cfg ty n
      let (b1, n2, p1) ← visitSs cfg b n1 (pend ++ d1)
      pure ([.handler i ty1 nm b1], n2, p1)
  | .import_ i ns, n, pend => .ok ([.import_ i ns], n, pend)
  | .importFrom i m ns l, n, pend => .ok ([.importFrom i m ns l], n, pend)
  | .global i ns, n, pend => .ok ([.global i ns], n, pend)
  | .nonlocal i ns, n, pend => .ok ([.nonlocal i ns], n, pend)
  | .pass i, n, pend => .ok ([.pass i], n, pend)
  | .break_ i, n, pend => .ok ([.break_ i], n, pend)
  | .continue_ i, n, pend => .ok ([.continue_ i], n, pend)
  | .other _ k _ _, _, _ => .error (.unsupported k)
/-- generic_visit over a statement-list field: results of the visits are spliced. -/
def visitSs (cfg : Config) : List Stmt → Nat → List Stmt → RS
  | [], n, pend => .ok ([], n, pend)
  | s :: ss, n, pend => do
      let (r1, n1, p1) ← visitS cfg s n pend
      let (r2, n2, p2) ← visitSs cfg ss n1 p1
      pure (r1 ++ r2, n2, p2)
end

/-- `anf.transform(node, ctx, config)`: fresh transformer (`_idx = 0`, nothing pending); pending
statements left at the end are dropped, exactly as the code does. -/
def anf (cfg : Config) (s : Stmt) : Except AnfErr (List Stmt) :=
  (visitS cfg s 0 []).map (·.1)

end Malt.Anf
