import MaltModel.Py.Ast
/-
C17: decidable predicates on the SOURCE function that name the two `Feature.LISTS` converter defects found by the
verified context checker (they are finding classes; see Props/C17.lean §5):
* `hasStoreListDisplay`      a list display `[a, b]` in a Store/Del position (`[x, y] = v`, `for [i, j] in …`,
                             `with cm as [x, *y]`): lists.py `visit_List` rewrites EVERY `List` node into the call
                             `ag__.new_list([...])`, also where a target is expected.
* `appendInExprPosition`     an `X.append(e)` call that is not itself an expression statement: lists.py replaces the
                             call by the *statement* `X = ag__.list_append(X, e)`, also inside a larger expression.
`subE`/`subS` list every sub-expression (preorder); `stmtVals` lists the values of all expression statements.
-/
set_option linter.unusedVariables false
namespace Malt.Conv.SrcClass
open Malt.Py

mutual
def subE : Expr → List Expr
  | .noneMarker => []
  | e@(.name _ f_s f_ctx) => e :: ([])
  | e@(.attr _ f_value f_attr f_ctx) => e :: (subE f_value)
  | e@(.subscript _ f_value f_slice f_ctx) => e :: (subE f_value ++ subE f_slice)
  | e@(.seq _ f_kind f_elts f_ctx) => e :: (subEs f_elts)
  | e@(.starred _ f_value f_ctx) => e :: (subE f_value)
  | e@(.const _ f_kind f_repr) => e :: ([])
  | e@(.call _ f_func f_args f_keywords) => e :: (subE f_func ++ subEs f_args ++ subEs f_keywords)
  | e@(.keyword _ f_arg f_hasArg f_value) => e :: (subE f_value)
  | e@(.boolop _ f_isAnd f_values) => e :: (subEs f_values)
  | e@(.unary _ f_op f_operand) => e :: (subE f_operand)
  | e@(.binop _ f_op f_left f_right) => e :: (subE f_left ++ subE f_right)
  | e@(.compare _ f_left f_ops f_comparators) => e :: (subE f_left ++ subEs f_comparators)
  | e@(.ifexp _ f_test f_body f_orelse) => e :: (subE f_test ++ subE f_body ++ subE f_orelse)
  | e@(.lambda _ f_args f_body) => e :: (subE f_args ++ subE f_body)
  | e@(.namedexpr _ f_target f_value) => e :: (subE f_target ++ subE f_value)
  | e@(.comp _ f_kind f_elts f_generators) => e :: (subEs f_elts ++ subEs f_generators)
  | e@(.comprehension _ f_target f_iter f_ifs f_isAsync) => e :: (subE f_target ++ subE f_iter ++ subEs f_ifs)
  | e@(.arguments _ f_posonly f_args f_vararg f_kwonly f_kwDefaults f_kwarg f_defaults) => e :: (subEs f_posonly ++ subEs f_args ++ subEs f_vararg ++ subEs f_kwonly ++ subEs f_kwDefaults ++ subEs f_kwarg ++ subEs f_defaults)
  | e@(.arg _ f_name f_annotation) => e :: (subEs f_annotation)
  | e@(.withitem _ f_contextExpr f_optionalVars) => e :: (subE f_contextExpr ++ subEs f_optionalVars)
  | e@(.other _ f_kind f_attrs f_kids) => e :: (subEs f_kids)
def subEs : List Expr → List Expr
  | [] => []
  | e :: es => subE e ++ subEs es
end
mutual
def subS : Stmt → List Expr
  | .functionDef _ f_name f_args f_body f_decorators f_returns f_isAsync => subE f_args ++ subSs f_body ++ subEs f_decorators ++ subEs f_returns
  | .classDef _ f_name f_bases f_keywords f_body f_decorators => subEs f_bases ++ subEs f_keywords ++ subSs f_body ++ subEs f_decorators
  | .ret _ f_value => subEs f_value
  | .delete _ f_targets => subEs f_targets
  | .assign _ f_targets f_value => subEs f_targets ++ subE f_value
  | .augAssign _ f_target f_op f_value => subE f_target ++ subE f_value
  | .annAssign _ f_target f_annotation f_value f_simple => subE f_target ++ subE f_annotation ++ subEs f_value
  | .for_ _ f_target f_iter f_body f_orelse f_extraTest f_isAsync => subE f_target ++ subE f_iter ++ subSs f_body ++ subSs f_orelse ++ subEs f_extraTest
  | .while_ _ f_test f_body f_orelse => subE f_test ++ subSs f_body ++ subSs f_orelse
  | .if_ _ f_test f_body f_orelse => subE f_test ++ subSs f_body ++ subSs f_orelse
  | .with_ _ f_items f_body f_isAsync => subEs f_items ++ subSs f_body
  | .raise _ f_exc f_cause => subEs f_exc ++ subEs f_cause
  | .try_ _ f_body f_handlers f_orelse f_finalbody => subSs f_body ++ subSs f_handlers ++ subSs f_orelse ++ subSs f_finalbody
  | .handler _ f_type_ f_name f_body => subEs f_type_ ++ subSs f_body
  | .assert_ _ f_test f_msg => subE f_test ++ subEs f_msg
  | .import_ _ f_names => []
  | .importFrom _ f_module f_names f_level => []
  | .global _ f_names => []
  | .nonlocal _ f_names => []
  | .expr _ f_value => subE f_value
  | .pass _ => []
  | .break_ _ => []
  | .continue_ _ => []
  | .other _ f_kind f_exprs f_blocks => subEs f_exprs ++ subSs f_blocks
def subSs : List Stmt → List Expr
  | [] => []
  | s :: ss => subS s ++ subSs ss
end
mutual
/-- values of all expression statements (at any nesting depth of statements) -/
def stmtVals : Stmt → List Expr
  | .functionDef _ f_name f_args f_body f_decorators f_returns f_isAsync => stmtValsSs f_body
  | .classDef _ f_name f_bases f_keywords f_body f_decorators => stmtValsSs f_body
  | .ret _ f_value => []
  | .delete _ f_targets => []
  | .assign _ f_targets f_value => []
  | .augAssign _ f_target f_op f_value => []
  | .annAssign _ f_target f_annotation f_value f_simple => []
  | .for_ _ f_target f_iter f_body f_orelse f_extraTest f_isAsync => stmtValsSs f_body ++ stmtValsSs f_orelse
  | .while_ _ f_test f_body f_orelse => stmtValsSs f_body ++ stmtValsSs f_orelse
  | .if_ _ f_test f_body f_orelse => stmtValsSs f_body ++ stmtValsSs f_orelse
  | .with_ _ f_items f_body f_isAsync => stmtValsSs f_body
  | .raise _ f_exc f_cause => []
  | .try_ _ f_body f_handlers f_orelse f_finalbody => stmtValsSs f_body ++ stmtValsSs f_handlers ++ stmtValsSs f_orelse ++ stmtValsSs f_finalbody
  | .handler _ f_type_ f_name f_body => stmtValsSs f_body
  | .assert_ _ f_test f_msg => []
  | .import_ _ f_names => []
  | .importFrom _ f_module f_names f_level => []
  | .global _ f_names => []
  | .nonlocal _ f_names => []
  | .expr _ f_value => [f_value]
  | .pass _ => []
  | .break_ _ => []
  | .continue_ _ => []
  | .other _ f_kind f_exprs f_blocks => stmtValsSs f_blocks
def stmtValsSs : List Stmt → List Expr
  | [] => []
  | s :: ss => stmtVals s ++ stmtValsSs ss
end

/-- lists.py visit_Call: `isinstance(func, Attribute) and func.attr == 'append' and len(args) == 1` -/
def isAppendCall : Expr → Bool
  | .call _ (.attr _ _ "append" _) [_] _ => true
  | _ => false

def isStoreListDisplay : Expr → Bool
  | .seq _ .list _ c => c != .load
  | _ => false

def hasStoreListDisplay (s : Stmt) : Bool := (subS s).any isStoreListDisplay

def appendInExprPosition (s : Stmt) : Bool :=
  ((subS s).filter isAppendCall).length > ((stmtVals s).filter isAppendCall).length

end Malt.Conv.SrcClass
