import MaltModel.Py.Ast
import MaltModel.Py.Annos
import MaltModel.Rt.Naming
/-
What the syntactic models of the three jump-lowering passes share:
* the generated nodes of their templates (`templates.replace` instantiations; generated nodes have id 0,
  substituted user nodes keep their ids: `ast_util.copy_clean` is a deep copy),
* `templates.ContextAdjuster` (applied to every node substituted for a `Name` placeholder),
* the namer state threaded through a pass (`ctx.namer.new_symbol(root, scope.referenced)` in the real call order),
* the reserved set of a `new_symbol` call: `BODY_SCOPE.referenced` from the annotation side table, flattened
  the way `Namer.new_symbol` flattens qualified names.

`Base.visit` returns a node carrying `anno.Basic.SKIP_PROCESSING` unchanged; no converter of the pinned tree
sets that annotation, the models leave it out and the harness asserts on every snapshot that it does not occur.
-/
namespace Malt.Conv.Jump
open Malt.Py

/-! ### `templates.ContextAdjuster` -/
mutual
/-- `ContextAdjuster(ov).visit`; `ov` is `_ctx_override` (`none` = leave contexts alone). -/
def adjustCtx (ov : Option Ctx) : Expr → Expr
  | .name i s c => .name i s (ov.getD c)
  | .attr i v a c => .attr i (adjustCtx (some .load) v) a (ov.getD c)
  | .subscript i v s c => .subscript i (adjustCtx (some .load) v) (adjustCtx (some .load) s) (ov.getD c)
  | .seq i .set es c => .seq i .set (adjustCtxs ov es) c
  | .seq i k es c => .seq i k (adjustCtxs ov es) (ov.getD c)
  | .call i f as ks => .call i (adjustCtx none f) (adjustCtxs none as) (adjustCtxs none ks)
  | .lambda i as b => .lambda i (adjustCtx none as) (adjustCtx none b)
  | .comprehension i t it ifs a => .comprehension i (adjustCtx none t) (adjustCtx none it) (adjustCtxs none ifs) a
  | .other i k ats ks => .other i k ats (adjustCtxs (if k == "Dict" then none else ov) ks)
  | .keyword i a h v => .keyword i a h (adjustCtx ov v)
  | .boolop i b vs => .boolop i b (adjustCtxs ov vs)
  | .unary i op e => .unary i op (adjustCtx ov e)
  | .binop i op l r => .binop i op (adjustCtx ov l) (adjustCtx ov r)
  | .compare i l ops rs => .compare i (adjustCtx ov l) ops (adjustCtxs ov rs)
  | .ifexp i t b e => .ifexp i (adjustCtx ov t) (adjustCtx ov b) (adjustCtx ov e)
  | .starred i v c => .starred i (adjustCtx ov v) c
  | .namedexpr i t v => .namedexpr i (adjustCtx ov t) (adjustCtx ov v)
  | .comp i k es gs => .comp i k (adjustCtxs ov es) (adjustCtxs ov gs)
  | .arguments i a b c d e f g =>
      .arguments i (adjustCtxs ov a) (adjustCtxs ov b) (adjustCtxs ov c) (adjustCtxs ov d) (adjustCtxs ov e)
        (adjustCtxs ov f) (adjustCtxs ov g)
  | .arg i nm an => .arg i nm (adjustCtxs ov an)
  | .withitem i c v => .withitem i (adjustCtx ov c) (adjustCtxs ov v)
  | .const i k r => .const i k r
  | .noneMarker => .noneMarker
def adjustCtxs (ov : Option Ctx) : List Expr → List Expr
  | [] => []
  | e :: es => adjustCtx ov e :: adjustCtxs ov es
end

/-- `hasattr(node, 'ctx')` -/
def hasCtx : Expr → Bool
  | .name .. | .attr .. | .subscript .. | .starred .. => true
  | .seq _ .tuple _ _ | .seq _ .list _ _ => true
  | _ => false

/-- A node substituted for a `Name` placeholder whose context is `c`
(`ReplaceTransformer.visit_Name`: the adjuster only runs on replacements that have a `ctx`). -/
def subst (c : Ctx) (e : Expr) : Expr := if hasCtx e then adjustCtx (some c) e else e

/-! ### generated nodes -/

def nameL (s : String) : Expr := .name 0 s .load
def nameS (s : String) : Expr := .name 0 s .store
def cTrue : Expr := .const 0 "bool" "True"
def cFalse : Expr := .const 0 "bool" "False"
def cNone : Expr := .const 0 "NoneType" "None"
/-- `not v` -/
def notName (v : String) : Expr := .unary 0 "Not" (nameL v)
/-- `not v and e` (`e` substituted for a Load placeholder) -/
def notAnd (v : String) (e : Expr) : Expr := .boolop 0 true [notName v, subst .load e]
/-- `v = <const>` -/
def assignC (v : String) (c : Expr) : Stmt := .assign 0 [nameS v] c
/-- `if not v: body` -/
def ifNot (v : String) (body : List Stmt) : Stmt := .if_ 0 (notName v) body []

/-! ### reserved names and the namer -/

/-- The strings `Namer.new_symbol` ends up with after flattening a qualified name printed as `s`:
a simple name contributes itself, an attribute QN `a.b` its attribute name (its `qn` is `(QN a, 'b')`),
a subscript QN nothing (its `qn` holds two QN objects). -/
def flattenQN (s : String) : List String :=
  if s.endsWith "]" then []
  else match (s.splitOn ".").getLast? with
    | some last => [last]
    | none => [s]

def flattenReserved (names : List String) : List String := names.flatMap flattenQN

/-- `scope.referenced` of `anno.getanno(node, NodeAnno.BODY_SCOPE)`, flattened. -/
def bodyReserved (t : AnnoTable) (id : Nat) : List String :=
  match t.scope id "BODY_SCOPE" with
  | some sc => flattenReserved sc.referenced
  | none => []

/-- Namer state threaded through a pass + the log of `new_symbol` calls `(root, result)`, oldest first. -/
structure NSt where
  namer : Naming.Namer
  calls : List (String × String) := []
  deriving Inhabited

def NSt.fresh (st : NSt) (root : String) (reserved : List String) : String × NSt :=
  let (nm, namer') := Naming.newSymbol st.namer root reserved
  (nm, { namer := namer', calls := st.calls ++ [(root, nm)] })

end Malt.Conv.Jump
