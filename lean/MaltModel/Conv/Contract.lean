import MaltModel.Conv.ControlFlow
/-
`Conv.Contract` — the operator calling contract (C03) as predicates on generated code.

`emitted : ParsedOutput → List (Option OpCall)` extracts every statement `ag__.if_stmt(...)`,
`ag__.while_stmt(...)`, `ag__.for_stmt(...)` of a tree together with the function definitions its
arguments name.  A function name is resolved like Python resolves it at the call: the *nearest preceding*
`def` of that name among the statements of the same block (the generated code always defines the state,
body and test functions in the block of the call).  `none` = a call whose shape is not the documented one.

The predicates (`Lengths`, `Positions`, `Arity`, `Nouts`, `Distinct`, `GetterPure`) are what
`Props/C03.lean` proves of every call the model emits, and what the verified checker `contractOk`
decides on the real final generated code.

"Denotes": a getter element / setter target denotes the qualified name `exprQN e` (ids and expression
contexts ignored, `ag__.ld(e)` transparent, `ag__.ldu(lambda: e, 'name')` = guarded read of `e`); a
symbol-name constant `'s'` denotes `qnOf s`.

The small store semantics of the state functions is at the end (`getS`, `setS`).
-/
namespace Malt.Conv.Contract
open Malt Malt.Py Malt.Conv.ControlFlow

abbrev ParsedOutput := List Stmt

inductive OpKind where
  | ifStmt | whileStmt | forStmt
  deriving DecidableEq, Repr, Inhabited

/-- `ag__.<op>` -/
def agOp? : Expr → Option String
  | .attr _ (.name _ "ag__" _) op _ => some op
  | _ => none

def kindOfOp : String → Option OpKind
  | "if_stmt" => some .ifStmt
  | "while_stmt" => some .whileStmt
  | "for_stmt" => some .forStmt
  | _ => none

/-- Is the statement a control-flow operator call?  (kind, positional arguments, keyword arguments) -/
def opCall? : Stmt → Option (OpKind × List Expr × List Expr)
  | .expr _ (.call _ f args kws) =>
    match agOp? f with
    | some op => (kindOfOp op).map fun k => (k, args, kws)
    | none => none
  | _ => none

structure FnInfo where
  params : List String          -- plain positional parameters
  plain : Bool                  -- nothing but plain positional parameters, no decorators, not async
  body : List Stmt
  deriving Repr, Inhabited

def argName? : Expr → Option String
  | .arg _ n _ => some n
  | _ => none

def fnInfo? : Stmt → Option (String × FnInfo)
  | .functionDef _ name (.arguments _ po ar va ko kd kw df) body decos _ isAsync =>
    some (name, { params := ar.filterMap argName?,
                  plain := po.isEmpty && va.isEmpty && ko.isEmpty && kd.isEmpty && kw.isEmpty && df.isEmpty &&
                           decos.isEmpty && !isAsync && ar.all fun a => (argName? a).isSome,
                  body })
  | _ => none

/-- Nearest preceding definition of `name` (`pre` = the preceding statements of the block, nearest first). -/
def lookupDef (pre : List Stmt) (name : String) : Option FnInfo :=
  match pre with
  | [] => none
  | s :: rest =>
    match fnInfo? s with
    | some (n, fi) => if n == name then some fi else lookupDef rest name
    | none => lookupDef rest name

structure OpCall where
  kind : OpKind
  head : Expr                   -- `cond` (if) / `iter_` (for) / the test function name (while)
  names : List Expr             -- the elements of the `symbol_names` tuple
  getter : FnInfo
  setter : FnInfo
  body : FnInfo
  second : Option FnInfo        -- `orelse` (if) / `test` (while) / `extra_test` (for; `none` when `None` is passed)
  last : Expr                   -- `nouts` (if) / `opts` (loops)
  deriving Repr, Inhabited

def nameOf? : Expr → Option String
  | .name _ s _ => some s
  | _ => none

def tupleElts? : Expr → Option (List Expr)
  | .seq _ .tuple es _ => some es
  | _ => none

def isNoneConst : Expr → Bool
  | .const _ "NoneType" _ => true
  | _ => false

/-- The call with its functions resolved in `pre`. -/
def extract (pre : List Stmt) (k : OpKind) (args kws : List Expr) : Option OpCall :=
  if !kws.isEmpty then none else
  match k, args with
  | .ifStmt, [cond, b, o, g, s, names, nouts] => do
      let fb ← nameOf? b >>= lookupDef pre
      let fo ← nameOf? o >>= lookupDef pre
      let fg ← nameOf? g >>= lookupDef pre
      let fs ← nameOf? s >>= lookupDef pre
      pure { kind := k, head := cond, names := ← tupleElts? names, getter := fg, setter := fs, body := fb,
             second := some fo, last := nouts }
  | .whileStmt, [t, b, g, s, names, opts] => do
      let ft ← nameOf? t >>= lookupDef pre
      let fb ← nameOf? b >>= lookupDef pre
      let fg ← nameOf? g >>= lookupDef pre
      let fs ← nameOf? s >>= lookupDef pre
      pure { kind := k, head := t, names := ← tupleElts? names, getter := fg, setter := fs, body := fb,
             second := some ft, last := opts }
  | .forStmt, [it, x, b, g, s, names, opts] => do
      let fx ← if isNoneConst x then some none else (nameOf? x >>= lookupDef pre).map some
      let fb ← nameOf? b >>= lookupDef pre
      let fg ← nameOf? g >>= lookupDef pre
      let fs ← nameOf? s >>= lookupDef pre
      pure { kind := k, head := it, names := ← tupleElts? names, getter := fg, setter := fs, body := fb,
             second := fx, last := opts }
  | _, _ => none

mutual
/-- Calls inside the blocks of a statement. -/
def emittedStmt : Stmt → List (Option OpCall)
  | .functionDef _ _ _ body _ _ _ => emittedBlock [] body
  | .classDef _ _ _ _ body _ => emittedBlock [] body
  | .for_ _ _ _ body orelse _ _ => emittedBlock [] body ++ emittedBlock [] orelse
  | .while_ _ _ body orelse => emittedBlock [] body ++ emittedBlock [] orelse
  | .if_ _ _ body orelse => emittedBlock [] body ++ emittedBlock [] orelse
  | .with_ _ _ body _ => emittedBlock [] body
  | .try_ _ b h e f => emittedBlock [] b ++ emittedBlock [] h ++ emittedBlock [] e ++ emittedBlock [] f
  | .handler _ _ _ body => emittedBlock [] body
  | .other _ _ _ blocks => emittedBlock [] blocks
  | _ => []
/-- Calls of a block; `pre` = the statements of the block already passed, nearest first. -/
def emittedBlock (pre : List Stmt) : List Stmt → List (Option OpCall)
  | [] => []
  | s :: rest =>
    (match opCall? s with
     | some (k, args, kws) => [extract pre k args kws]
     | none => []) ++ emittedStmt s ++ emittedBlock (s :: pre) rest
end

def emitted (g : ParsedOutput) : List (Option OpCall) := emittedBlock [] g

/-! ## What the state functions denote -/

def exprQN : Expr → Option QN
  | .name _ s _ => some (.sym s)
  | .const _ k r => some (.lit k r)
  | .attr _ v a _ => (exprQN v).map (.attr · a)
  | .subscript _ v s _ => do pure (.sub (← exprQN v) (← exprQN s))
  | _ => none

structure Entry where
  qn : QN
  guarded : Bool            -- read through `ag__.ldu`
  label : Expr              -- the `name` argument of `ldu` (`noneMarker` when not guarded)
  deriving Repr, Inhabited

def noArgs : Expr → Bool
  | .arguments _ [] [] [] [] [] [] [] => true
  | _ => false

/-- What an element of the getter's tuple reads. -/
def getterDen : Expr → Option Entry
  | .call _ f [.lambda _ a b, label] [] =>
    if agOp? f == some "ldu" && noArgs a then (exprQN b).map fun q => { qn := q, guarded := true, label }
    else none
  | .call _ f [e] [] =>
    if agOp? f == some "ld" then (exprQN e).map fun q => { qn := q, guarded := false, label := .noneMarker }
    else none
  | e => (exprQN e).map fun q => { qn := q, guarded := false, label := .noneMarker }

def isDecl : Stmt → Bool
  | .global .. | .nonlocal .. => true
  | _ => false

/-- The tuple returned by the getter: its body is exactly `return (e1, ..., en)`. -/
def getterTuple (c : OpCall) : Option (List Expr) :=
  match c.getter.body with
  | [.ret _ [.seq _ .tuple es _]] => some es
  | _ => none

/-- The targets assigned by the setter: after `global`/`nonlocal` declarations its body is exactly
`(t1, ..., tn) = <its parameter>`, or `pass` (no state). -/
def setterTargets (c : OpCall) : Option (List Expr) :=
  match c.setter.body.dropWhile isDecl, c.setter.params with
  | [.assign _ [.seq _ .tuple ts _] (.name _ v _)], [p] => if v == p then some ts else none
  | [.pass _], [_] => some []
  | _, _ => none

def IsStrConst (e : Expr) (s : String) : Prop := ∃ i, e = .const i "str" (pyRepr s)

/-- Position-wise agreement of a symbol name, a getter element and a setter target. -/
def PosOk (n g t : Expr) : Prop :=
  ∃ s en, IsStrConst n s ∧ getterDen g = some en ∧ en.qn = qnOf s ∧ exprQN t = some (qnOf s) ∧
    (en.guarded = true → IsStrConst en.label s) ∧
    (BlockVars.isComposite s = true → en.guarded = true)

/-- `p` holds position by position of three lists of equal length. -/
inductive All3 {α β γ : Type} (p : α → β → γ → Prop) : List α → List β → List γ → Prop
  | nil : All3 p [] [] []
  | cons {a b c as bs cs} : p a b c → All3 p as bs cs → All3 p (a :: as) (b :: bs) (c :: cs)

def Lengths (c : OpCall) : Prop :=
  ∃ gs ts, getterTuple c = some gs ∧ setterTargets c = some ts ∧
    c.names.length = gs.length ∧ gs.length = ts.length

def Positions (c : OpCall) : Prop :=
  ∃ gs ts, getterTuple c = some gs ∧ setterTargets c = some ts ∧
    All3 PosOk c.names gs ts

/-- The variables of the state, by position (what the `symbol_names` constants say). -/
def nameStrs (c : OpCall) : List String :=
  c.names.filterMap fun e => match e with
    | .const _ "str" r => some (pyUnrepr r)
    | _ => none

def Distinct (c : OpCall) : Prop :=
  ∃ ts qs, setterTargets c = some ts ∧ ts.mapM exprQN = some qs ∧ qs.Nodup

def arityOk (f : FnInfo) (n : Nat) : Bool := f.plain && f.params.length == n

/-- body/test/extra_test/getter/setter take exactly the documented parameters. -/
def Arity (c : OpCall) : Prop :=
  arityOk c.getter 0 = true ∧ arityOk c.setter 1 = true ∧
  arityOk c.body (if c.kind = .forStmt then 1 else 0) = true ∧
  (match c.second with
   | some f => arityOk f 0 = true
   | none => c.kind = .forStmt)

def natConst? : Expr → Option Nat
  | .const _ "int" r => r.toNat?
  | _ => none

/-- `0 ≤ nouts ≤ len(symbol_names)` (an `if_stmt` carries `nouts`; loops carry `opts`). -/
def Nouts (c : OpCall) : Prop :=
  c.kind = .ifStmt → ∃ k, natConst? c.last = some k ∧ k ≤ c.names.length

def GetterPure (c : OpCall) : Prop :=
  ∃ gs, getterTuple c = some gs ∧ ∀ g ∈ gs, (getterDen g).isSome = true

/-! ## Loop options -/

/-- A loop of the source tree: `header` = the target (`for`) / the test (`while`). -/
structure SourceLoop where
  id : Nat
  isFor : Bool
  header : Expr
  deriving Repr, Inhabited

mutual
def sourceLoopsS : Stmt → List SourceLoop
  | .for_ id target _ body orelse _ isAsync =>
      (if isAsync then [] else [⟨id, true, target⟩]) ++ sourceLoopsL body ++ sourceLoopsL orelse
  | .while_ id test body orelse => ⟨id, false, test⟩ :: (sourceLoopsL body ++ sourceLoopsL orelse)
  | .if_ _ _ body orelse => sourceLoopsL body ++ sourceLoopsL orelse
  | .functionDef _ _ _ body _ _ _ => sourceLoopsL body
  | .classDef _ _ _ _ body _ => sourceLoopsL body
  | .with_ _ _ body _ => sourceLoopsL body
  | .try_ _ b h e f => sourceLoopsL b ++ sourceLoopsL h ++ sourceLoopsL e ++ sourceLoopsL f
  | .handler _ _ _ body => sourceLoopsL body
  | .other _ _ _ blocks => sourceLoopsL blocks
  | _ => []
def sourceLoopsL : List Stmt → List SourceLoop
  | [] => []
  | s :: ss => sourceLoopsS s ++ sourceLoopsL ss
end

/-- The first statement of a `for` body function after its declarations is `target = <its parameter>`. -/
def forBodyTarget (c : OpCall) : Option Expr :=
  match c.body.body.dropWhile isDecl, c.body.params with
  | .assign _ [t] (.name _ v _) :: _, [p] => if v == p then some t else none
  | _, _ => none

/-- The expression returned by the test function of a `while_stmt`. -/
def whileTest (c : OpCall) : Option Expr :=
  match c.second with
  | some f => match f.body with
    | [.ret _ [e]] => some e
    | _ => none
  | none => none

/-- A loop's options are exactly the directive annotated on THAT source loop (`dirs.lookup l.id`), a `for_stmt`
additionally carries `iterate_names` = the unparsed target of that same loop, and the generated body / test
function is that loop's (it unpacks that loop's target / returns that loop's test).  An `if_stmt` carries the
state variables and the output count `_get_block_vars` computed from the annotations of one `if` node. -/
def OptsOk (env : Env) (L : List SourceLoop) (c : OpCall) : Prop :=
  match c.kind with
  | .ifStmt => ∃ (fs : FnScope) (id : Nat),
      c.names = (env.blockVars fs id ((env.scope id "BODY_SCOPE").bound ++ (env.scope id "ORELSE_SCOPE").bound)).scopeVars.map strConst ∧
      c.last = intConst (env.blockVars fs id ((env.scope id "BODY_SCOPE").bound ++ (env.scope id "ORELSE_SCOPE").bound)).nouts
  | .forStmt => ∃ l ∈ L, l.isFor = true ∧
      c.last = loopOptions env.dirs l.id [("iterate_names", strConst (unparseE l.header))] ∧
      forBodyTarget c = some (splice .store l.header)
  | .whileStmt => ∃ l ∈ L, l.isFor = false ∧
      c.last = loopOptions env.dirs l.id [] ∧ whileTest c = some (splice .load l.header)

/-- The tree contains no operator-call statement of its own (the `ag__` namespace belongs to the converter). -/
def isOpCall (s : Stmt) : Bool := (opCall? s).isSome

mutual
def cleanS : Stmt → Bool
  | .functionDef _ _ _ body _ _ _ => cleanL body
  | .classDef _ _ _ _ body _ => cleanL body
  | .for_ _ _ _ body orelse _ _ => cleanL body && cleanL orelse
  | .while_ _ _ body orelse => cleanL body && cleanL orelse
  | .if_ _ _ body orelse => cleanL body && cleanL orelse
  | .with_ _ _ body _ => cleanL body
  | .try_ _ b h e f => cleanL b && cleanL h && cleanL e && cleanL f
  | .handler _ _ _ body => cleanL body
  | .other _ _ _ blocks => cleanL blocks
  | .expr i v => !isOpCall (.expr i v)
  | _ => true
def cleanL : List Stmt → Bool
  | [] => true
  | s :: ss => cleanS s && cleanL ss
end

/-- The names a function body declares `global` / `nonlocal` at its top. -/
def declaredNames (body : List Stmt) : List String :=
  (body.takeWhile isDecl).flatMap fun s => match s with
    | .global _ ns => ns
    | .nonlocal _ ns => ns
    | _ => []

/-- The setter really assigns the variables of the ENCLOSING function: every simple variable it assigns is declared
`global` / `nonlocal` in it (an undeclared target would be a local of the setter). -/
def SetterDeclares (c : OpCall) : Prop :=
  ∃ ts, setterTargets c = some ts ∧
    ∀ t ∈ ts, ∀ i s ctx, t = Expr.name i s ctx → BlockVars.isComposite s = false → s ∈ declaredNames c.setter.body

/-- Everything the contract says of one call, as far as its own syntax goes. -/
def Good (c : OpCall) : Prop :=
  Lengths c ∧ Positions c ∧ Arity c ∧ Nouts c ∧ Distinct c ∧ GetterPure c ∧ SetterDeclares c

/-- The output of the model of `ControlFlowTransformer` on `root`. -/
def cfOutput (env : Env) (nm : Naming.Namer) (root : Stmt) : ParsedOutput := (transform env nm root).1

/-- The callbacks read and write the state only through the declared names: every simple state variable is declared
`global` / `nonlocal` in the body function and in the `orelse` / `extra_test` function (the `test` function of a
`while_stmt` only reads: `whileTest`), so an assignment to it inside them reaches the caller-visible variable. -/
def CallbacksDeclare (c : OpCall) : Prop :=
  ∃ ts, setterTargets c = some ts ∧
    ∀ t ∈ ts, ∀ i s ctx, t = Expr.name i s ctx → BlockVars.isComposite s = false →
      s ∈ declaredNames c.body.body ∧
      (c.kind ≠ .whileStmt → ∀ f, c.second = some f → s ∈ declaredNames f.body)

/-- The first `nouts` state entries of an `if_stmt` are EXACTLY the outputs: the tuple is `_get_block_vars` of one `if`
node, and position `i` is below `nouts` iff the variable there is an output (`BlockVars.isOutput`: composite, or live out,
or not live in — the last case being the names the enclosing function declares `global`/`nonlocal`). -/
def OutputsFirst (env : Env) (c : OpCall) : Prop :=
  c.kind = .ifStmt → ∃ (fs : FnScope) (id : Nat) (r : BlockVars.Result),
    r = env.blockVars fs id ((env.scope id "BODY_SCOPE").bound ++ (env.scope id "ORELSE_SCOPE").bound) ∧
    c.names = r.scopeVars.map strConst ∧ natConst? c.last = some r.nouts ∧ r.nouts ≤ c.names.length ∧
    ∀ (i : Nat) (v : String), r.scopeVars[i]? = some v →
      (i < r.nouts ↔ BlockVars.isOutput (env.names id "LIVE_VARS_IN") (env.names id "LIVE_VARS_OUT") v = true)

/-- **The contract handed to a third-party operator implementation**, for one emitted call of any of the three operators. -/
structure OperatorContract (env : Env) (L : List SourceLoop) (c : OpCall) : Prop where
  /-- `len(symbol_names) = len(get_state()) = number of targets of set_state`; `set_state` takes one argument -/
  lengths : Lengths c
  /-- position by position: name `'s'`, getter element and setter target denote the variable `qnOf s` -/
  positions : Positions c
  /-- no variable twice -/
  distinct : Distinct c
  /-- getter 0 / setter 1 / body 0 (`for`: 1) / orelse, test, extra_test 0 plain positional parameters -/
  arity : Arity c
  /-- every element of the getter's tuple is a plain (possibly `ldu`-guarded) read -/
  getterPure : GetterPure c
  /-- the setter assigns the enclosing function's variables (declares them `global`/`nonlocal`) -/
  setterDeclares : SetterDeclares c
  /-- so do the body / orelse / extra_test functions -/
  callbacksDeclare : CallbacksDeclare c
  /-- `0 ≤ nouts ≤ len(symbol_names)` -/
  nouts : Nouts c
  /-- the first `nouts` entries are exactly the outputs -/
  outputsFirst : OutputsFirst env c
  /-- `opts` = exactly the directive keywords annotated on THAT loop (+ `iterate_names` = its unparsed target for `for`),
  and the body / test function is that loop's -/
  opts : OptsOk env L c

/-! ## Decision procedures -/

def strConstB (e : Expr) : Option String :=
  match e with
  | .const _ "str" r => if pyRepr (pyUnrepr r) == r then some (pyUnrepr r) else none
  | _ => none

def posOkB (n g t : Expr) : Bool :=
  match strConstB n, getterDen g with
  | some s, some en =>
    en.qn == qnOf s && exprQN t == some (qnOf s) &&
    (!en.guarded || strConstB en.label == some s) && (!BlockVars.isComposite s || en.guarded)
  | _, _ => false

def all3B {α β γ : Type} (p : α → β → γ → Bool) : List α → List β → List γ → Bool
  | [], [], [] => true
  | a :: as, b :: bs, c :: cs => p a b c && all3B p as bs cs
  | _, _, _ => false

def lengthsB (c : OpCall) : Bool :=
  match getterTuple c, setterTargets c with
  | some gs, some ts => c.names.length == gs.length && gs.length == ts.length
  | _, _ => false

def positionsB (c : OpCall) : Bool :=
  match getterTuple c, setterTargets c with
  | some gs, some ts => all3B posOkB c.names gs ts
  | _, _ => false

def nodupB : List QN → Bool
  | [] => true
  | q :: qs => !qs.contains q && nodupB qs

def distinctB (c : OpCall) : Bool :=
  match setterTargets c with
  | some ts => match ts.mapM exprQN with
    | some qs => nodupB qs
    | none => false
  | none => false

def arityB (c : OpCall) : Bool :=
  arityOk c.getter 0 && arityOk c.setter 1 && arityOk c.body (if c.kind = .forStmt then 1 else 0) &&
  (match c.second with
   | some f => arityOk f 0
   | none => c.kind == .forStmt)

def noutsB (c : OpCall) : Bool :=
  if c.kind = .ifStmt then
    match natConst? c.last with
    | some k => decide (k ≤ c.names.length)
    | none => false
  else true

def getterPureB (c : OpCall) : Bool :=
  match getterTuple c with
  | some gs => gs.all fun g => (getterDen g).isSome
  | none => false

def setterDeclaresB (c : OpCall) : Bool :=
  match setterTargets c with
  | some ts => ts.all fun t => match t with
    | .name _ s _ => BlockVars.isComposite s || (declaredNames c.setter.body).contains s
    | _ => true
  | none => false

def callOkB (c : OpCall) : Bool :=
  lengthsB c && positionsB c && arityB c && noutsB c && distinctB c && getterPureB c && setterDeclaresB c

/-- The verified checker: every control-flow operator call of the tree is well formed and obeys the contract. -/
def contractOk (g : ParsedOutput) : Bool :=
  (emitted g).all fun o => match o with
    | some c => callOkB c
    | none => false

/-! ## Store semantics of the state functions

The caller-visible store: a map from *locations* to values, `none` = unbound name / missing attribute or key.
Locations are
  * `.sym x`                      the cell of the variable `x` (local, closure cell or module global — whichever the
                                  enclosing function's scope gives it; the getter reads it, the setter writes it when it
                                  declares `x` `global`/`nonlocal`, otherwise the setter only writes a local of its own);
  * `<obj r>.a`, `<obj r>[k]`     a slot of the heap object `r`: composite symbols are resolved by EVALUATING their base
                                  chain (`resolve`), so `o.a` and `p.a` alias when `o is p`, rebinding `o` moves `o.a`,
                                  and `dd[x]` with `x = 0` is `dd[0]`.
A base that holds the `Undefined` placeholder answers every attribute / item READ with itself
(`Undefined.__getattribute__`, `__getitem__`) and refuses every WRITE (`__slots__`): `Res.undefBase`.
A base that is unbound, missing, or not an object makes the access raise (`Res.fail`): `ag__.ldu` turns that into
`Undefined(label)` on the read side; on the write side the tuple assignment raises.

The getter evaluates its tuple left to right (a bare read of an unbound variable raises: `none`); an element that is not a
plain read is an *unknown effect*.  The setter is one tuple assignment `t1, ..., tn = vs`: arity mismatch raises before
any target is written; targets are assigned left to right, each resolved when it is assigned. -/

inductive Val where
  | int (n : Int)
  | obj (n : Nat)
  | undef (label : String)
  deriving DecidableEq, Repr, Inhabited

abbrev Store := QN → Option Val

structure World where
  store : Store
  effects : Nat := 0            -- number of effects (calls of unknown code) performed so far

/-- A value used as a subscript. -/
def valLit : Val → QN
  | .int n => .lit "int" (toString n)
  | .obj n => .lit "obj" (toString n)
  | .undef l => .lit "undef" l

def objLit (r : Nat) : QN := .lit "obj" (toString r)

/-- A subscript: a variable is replaced by its current value (`none`: unbound), anything else is taken literally. -/
def resolveIdx (σ : Store) : QN → Option QN
  | .sym k => (σ (.sym k)).map valLit
  | i => some i

/-- Where an access path leads. -/
inductive Res where
  | slot (l : QN)             -- a location of the store
  | undefBase (v : Val)       -- the base holds the Undefined placeholder `v`: reads give `v`, writes raise
  | fail                      -- the access raises (unbound / missing / non-object base, unbound index)
  deriving DecidableEq, Repr, Inhabited

def Res.read (σ : Store) : Res → Option Val
  | .slot l => σ l
  | .undefBase v => some v
  | .fail => none

/-- Resolve an access path by evaluating its base chain in `σ`. -/
def resolve (σ : Store) : QN → Res
  | .sym s => .slot (.sym s)
  | .lit k r => .slot (.lit k r)
  | .attr b a =>
    match (resolve σ b).read σ with
    | some (.obj r) => .slot (.attr (objLit r) a)
    | some (.undef l) => .undefBase (.undef l)
    | _ => .fail
  | .sub b i =>
    match (resolve σ b).read σ with
    | some (.obj r) =>
      match resolveIdx σ i with
      | some i' => .slot (.sub (objLit r) i')
      | none => .fail
    | some (.undef l) => .undefBase (.undef l)
    | _ => .fail

def Res.slots : Res → List QN
  | .slot l => [l]
  | _ => []

/-- The locations READ while resolving an access path (base cells / slots and subscript variables). -/
def reads (σ : Store) : QN → List QN
  | .sym _ => []
  | .lit _ _ => []
  | .attr b _ => reads σ b ++ (resolve σ b).slots
  | .sub b i => reads σ b ++ (resolve σ b).slots ++ (match i with | .sym k => [.sym k] | _ => [])

/-- The location a path denotes, when it denotes one. -/
def loc (σ : Store) (q : QN) : Option QN :=
  match resolve σ q with
  | .slot l => some l
  | _ => none

def labelStr (e : Expr) : String :=
  match e with
  | .const _ "str" r => pyUnrepr r
  | _ => ""

def readEntry (σ : Store) (en : Entry) : Option Val :=
  match (resolve σ en.qn).read σ with
  | some v => some v
  | none => if en.guarded then some (.undef (labelStr en.label)) else none

/-- Evaluate the elements of the getter's tuple; `none` = an exception escapes. -/
def evalGetter : List Expr → World → Option (List Val) × World
  | [], w => (some [], w)
  | g :: gs, w =>
    match getterDen g with
    | none => (none, { w with effects := w.effects + 1 })        -- not a read: anything may happen
    | some en =>
      match readEntry w.store en with
      | none => (none, w)
      | some v =>
        match evalGetter gs w with
        | (some vs, w') => (some (v :: vs), w')
        | (none, w') => (none, w')

def runGetter (c : OpCall) (w : World) : Option (List Val) × World :=
  match getterTuple c with
  | some gs => evalGetter gs w
  | none => (none, { w with effects := w.effects + 1 })

/-- What each element of a getter tuple reads (`none` = some element is not a read). -/
def entriesOf (gs : List Expr) : Option (List Entry) := gs.mapM getterDen

def entries (c : OpCall) : Option (List Entry) := (getterTuple c).bind entriesOf

/-- Reading the state, as a function of the store (all elements are reads). -/
def getS (es : List Entry) (σ : Store) : Option (List Val) := es.mapM (readEntry σ)

def update (σ : Store) (q : QN) (v : Val) : Store := fun q' => if q' = q then some v else σ q'

/-- Writes to already resolved locations. -/
def assignAll : List QN → List Val → Store → Store
  | q :: qs, v :: vs, σ => assignAll qs vs (update σ q v)
  | _, _, σ => σ

/-- Assign the targets left to right, resolving each when it is assigned (`none`: the assignment raises). -/
def assignSeq : List QN → List Val → Store → Option Store
  | q :: qs, v :: vs, σ =>
    match resolve σ q with
    | .slot l => assignSeq qs vs (update σ l v)
    | _ => none
  | _, _, σ => some σ

/-- `t1, ..., tn = vs`. -/
def setS (qs : List QN) (vs : List Val) (σ : Store) : Option Store :=
  if qs.length = vs.length then assignSeq qs vs σ else none

/-- The cell a simple target of the setter writes: the caller-visible variable when the setter declares the name
`global` / `nonlocal`, a local variable of the setter itself otherwise. -/
def setterTarget (declared : List String) : QN → QN
  | .sym s => if declared.contains s || BlockVars.isComposite s then .sym s else .sym ("set_state.<locals>." ++ s)
  | q => q

def runSetter (c : OpCall) (vs : List Val) (σ : Store) : Option Store :=
  match setterTargets c with
  | some ts => match ts.mapM exprQN with
    | some qs => setS (qs.map (setterTarget (declaredNames c.setter.body))) vs σ
    | none => none
  | none => none

/-! ### The classes of (state tuple, store) pairs -/

/-- Finding class `missing_composite_written_back`: an entry cannot be read at call time — the slot of a guarded
(composite) entry is empty, or the access path raises (unbound / missing / non-object base): the guarded read yields
`Undefined`, the write-back creates the slot or raises. -/
def missingAt (σ : Store) (es : List Entry) : Bool :=
  es.any fun e => match resolve σ e.qn with
    | .slot l => e.guarded && (σ l).isNone
    | .undefBase _ => false
    | .fail => true

/-- Finding class `composite_base_undefined`: the base of an entry holds the `Undefined` placeholder. -/
def undefBaseAt (σ : Store) (es : List Entry) : Bool :=
  es.any fun e => match resolve σ e.qn with
    | .undefBase _ => true
    | _ => false

def slotsOf (σ : Store) (es : List Entry) : List QN := es.flatMap fun e => (resolve σ e.qn).slots

/-- Finding class `state_entry_indexes_by_state_entry` (generalised): resolving some entry reads a location that the same
tuple writes (a subscript variable, a base variable or a base slot that is itself an entry). -/
def dependentAt (σ : Store) (es : List Entry) : Bool :=
  es.any fun e => (reads σ e.qn).any fun l => (slotsOf σ es).contains l

/-- Class `aliased_state_entries`: two entries denote the same location at call time. -/
def aliasedAt (σ : Store) (es : List Entry) : Bool := !nodupB (slotsOf σ es)

inductive StateClass where
  | missingComposite | undefinedBase | dependent | aliased | lawful
  deriving DecidableEq, Repr, Inhabited

/-- Every (state tuple, store) pair is in exactly one class; the laws are proved for `lawful`. -/
def classify (σ : Store) (es : List Entry) : StateClass :=
  if undefBaseAt σ es then .undefinedBase
  else if missingAt σ es then .missingComposite
  else if dependentAt σ es then .dependent
  else if aliasedAt σ es then .aliased
  else .lawful

/-- The classes read off the names alone (no store): what `./check C03` prints as the reason why a generated program
can leave the lawful class.  `composite` = some entry is guarded (may be missing / have an undefined base at run time);
`dependent` = the path of an entry goes through a variable or a proper prefix path that is itself an entry. -/
def pathSyms : QN → List QN
  | .sym _ => []
  | .lit _ _ => []
  | .attr b _ => b :: pathSyms b
  | .sub b i => b :: (match i with | .sym k => [.sym k] | _ => []) ++ pathSyms b

def staticDependent (es : List Entry) : Bool :=
  es.any fun e => (pathSyms e.qn).any fun p => (es.map (·.qn)).contains p

def staticComposite (es : List Entry) : Bool := es.any (·.guarded)

/-- Kept for the evidence of earlier rounds: the subscript variables of a path. -/
def indexSyms : QN → List String
  | .sym _ => []
  | .lit _ _ => []
  | .attr b _ => indexSyms b
  | .sub b i => (match i with | .sym k => [k] | _ => []) ++ indexSyms b

end Malt.Conv.Contract
