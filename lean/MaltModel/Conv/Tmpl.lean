import MaltModel.Py.Ast
import MaltModel.Py.Annos
/-
`Conv.Tmpl` — what the expression-level converter models share (C04 / C01 expression part).

* `adjustCtx` / `hasCtx` / `tmplArg`: what `templates.replace` does to a node substituted for a `Name`
  placeholder: `ast_util.copy_clean` (a deep copy: the identity on this immutable syntax; node ids are
  kept, so the preserved annotations ORIG_DEFINITIONS / function_context_name / DIRECTIVES /
  EXTRA_LOOP_TEST stay attached through the id-keyed side table) followed by
  `ContextAdjuster(type(placeholder.ctx))` when the replacement `hasattr(n, 'ctx')`.
* small constructors for the generated nodes (`ag__.<op>`, `lambda: e`, calls).
* `qnStr`: `str(anno.getanno(node, anno.Basic.QN))` as computed by `qual_names.QnResolver`.
* a generic `ast.NodeTransformer` traversal with two hooks per node class:
  `pre` (a `visit_X` that does NOT call `generic_visit`: the children stay unvisited — this is the
  whole point of C04) and `post` (a `visit_X` that calls `generic_visit` first and then rewrites).

`Base.visit` also returns a node unchanged when it carries `anno.Basic.SKIP_PROCESSING`.  No converter
of the pinned tree sets that annotation (only templates/cfg/transformer read it); the models leave it
out and the harness asserts on every snapshot that it never occurs (obligation `assumption:no-skip`).
-/
namespace Malt.Conv
open Malt.Py

/-! ### `templates.ContextAdjuster` -/
mutual
/-- `ContextAdjuster(ov).visit`; `ov` is `_ctx_override` (`none` = leave contexts alone). -/
def adjustCtx (ov : Option Ctx) : Expr → Expr
  | .name i s c => .name i s (ov.getD c)
  | .attr i v a c => .attr i (adjustCtx (some .load) v) a (ov.getD c)
  | .subscript i v s c => .subscript i (adjustCtx (some .load) v) (adjustCtx (some .load) s) (ov.getD c)
  | .seq i .set es c => .seq i .set (adjustCtxs ov es) c
  | .seq i k es c => .seq i k (adjustCtxs ov es) (ov.getD c)
  | .call i f as ks => .call i (adjustCtx none f) (adjustCtxs none as) (adjustCtxs none ks)
  | .lambda i as b => .lambda i (adjustCtx none as) (adjustCtx none b)
  | .comprehension i t it ifs a => .comprehension i (adjustCtx none t) (adjustCtx none it) (adjustCtxs none ifs) a
  | .other i k ats ks => .other i k ats (adjustCtxs (if k == "Dict" then none else ov) ks)
  | .keyword i a h v => .keyword i a h (adjustCtx ov v)
  | .boolop i b vs => .boolop i b (adjustCtxs ov vs)
  | .unary i op e => .unary i op (adjustCtx ov e)
  | .binop i op l r => .binop i op (adjustCtx ov l) (adjustCtx ov r)
  | .compare i l ops rs => .compare i (adjustCtx ov l) ops (adjustCtxs ov rs)
  | .ifexp i t b e => .ifexp i (adjustCtx ov t) (adjustCtx ov b) (adjustCtx ov e)
  | .starred i v c => .starred i (adjustCtx ov v) c
  | .namedexpr i t v => .namedexpr i (adjustCtx ov t) (adjustCtx ov v)
  | .comp i k es gs => .comp i k (adjustCtxs ov es) (adjustCtxs ov gs)
  | .arguments i a b c d e f g =>
      .arguments i (adjustCtxs ov a) (adjustCtxs ov b) (adjustCtxs ov c) (adjustCtxs ov d) (adjustCtxs ov e)
        (adjustCtxs ov f) (adjustCtxs ov g)
  | .arg i nm an => .arg i nm (adjustCtxs ov an)
  | .withitem i c v => .withitem i (adjustCtx ov c) (adjustCtxs ov v)
  | .const i k r => .const i k r
  | .noneMarker => .noneMarker
def adjustCtxs (ov : Option Ctx) : List Expr → List Expr
  | [] => []
  | e :: es => adjustCtx ov e :: adjustCtxs ov es
end

/-- `hasattr(node, 'ctx')`. -/
def hasCtx : Expr → Bool
  | .name .. | .attr .. | .subscript .. | .starred .. => true
  | .seq _ k _ _ => k != .set
  | _ => false

/-- A node substituted for a `Name` placeholder whose context is `c`. -/
def tmplArgCtx (c : Ctx) (e : Expr) : Expr := if hasCtx e then adjustCtx (some c) e else e

/-- … for a placeholder in Load position (all expression templates of these passes). -/
def tmplArg (e : Expr) : Expr := tmplArgCtx .load e

/-! ### generated nodes -/
def nm (s : String) : Expr := .name 0 s .load
def ag (op : String) : Expr := .attr 0 (nm "ag__") op .load
def noArgs : Expr := .arguments 0 [] [] [] [] [] [] []
/-- `lambda: e` (template `lambda: expr`). -/
def thunk (e : Expr) : Expr := .lambda 0 noArgs (tmplArg e)
def call (f : Expr) (args : List Expr) : Expr := .call 0 f args []
def strConst (s : String) (repr : String) : Expr := let _ := s; .const 0 "str" repr
def noneConst : Expr := .const 0 "NoneType" "None"
def boolConst (b : Bool) : Expr := .const 0 "bool" (if b then "True" else "False")

/-- Python `repr` of an identifier-like string (no quotes, backslashes or control characters in it:
generated names and function names are identifiers). -/
def pyRepr (s : String) : String := "'" ++ s ++ "'"

/-- Python's `s.startswith(p)` (code-point prefix).  Written over `List Char` so that it evaluates in the
kernel (`decide`) as well as natively. -/
def startsWith (s p : String) : Bool := p.toList.isPrefixOf s.toList

/-! ### `str(QN)` of an expression (`qual_names.QnResolver`)

Name → id; Attribute → parent.attr when the value has a QN; Subscript → parent[sub] when the slice is
neither a Tuple nor a Slice and is a non-Ellipsis constant (a `Literal`) or itself has a QN.
String literals are rendered with their `repr` (the code uses `'{}'.format(value)`): this can differ
from the code only *inside* brackets, which no user of `qnStr` looks at (prefix tests `ag__.`,
`<scope>.` and equality with bracket-free names). -/
inductive SliceKind where
  | noQn                      -- Tuple / Slice / Ellipsis: the subscript gets no QN
  | lit (repr : String)       -- a constant: `QN(Literal(value))`
  | sub                       -- anything else: the QN of the slice expression, if it has one
  deriving Repr, DecidableEq

def sliceKind : Expr → SliceKind
  | .seq _ k _ _ => if k == .tuple then .noQn else .sub
  | .other _ k _ _ => if k == "Slice" then .noQn else .sub
  | .const _ k r => if k == "ellipsis" then .noQn else .lit r
  | _ => .sub

def qnStr : Expr → Option String
  | .name _ s _ => some s
  | .attr _ v a _ => (qnStr v).map fun b => b ++ "." ++ a
  | .subscript _ v s _ =>
      match sliceKind s with
      | .noQn => none
      | .lit r => (qnStr v).map fun b => b ++ "[" ++ r ++ "]"
      | .sub => match qnStr s, qnStr v with
          | some x, some b => some (b ++ "[" ++ x ++ "]")
          | _, _ => none
  | _ => none

/-! ### generic `NodeTransformer` traversal with hooks -/
structure Hooks where
  /-- `visit_X` without `generic_visit`: `some r` replaces the node, its children are never visited. -/
  pre : Expr → Option Expr := fun _ => none
  /-- `visit_X` after `generic_visit`: receives the node with visited children. -/
  post : Expr → Expr := id

def step (h : Hooks) (orig visitedKids : Expr) : Expr :=
  match h.pre orig with
  | some r => r
  | none => h.post visitedKids

mutual
/-- `generic_visit`: every child expression is replaced by its visit. -/
def kidsE (h : Hooks) : Expr → Expr
  | .name i s c => .name i s c
  | .const i k r => .const i k r
  | .attr i v a c => .attr i (step h v (kidsE h v)) a c
  | .subscript i v s c => .subscript i (step h v (kidsE h v)) (step h s (kidsE h s)) c
  | .call i f as ks => .call i (step h f (kidsE h f)) (kidsEs h as) (kidsEs h ks)
  | .keyword i a has v => .keyword i a has (step h v (kidsE h v))
  | .boolop i b vs => .boolop i b (kidsEs h vs)
  | .unary i op e => .unary i op (step h e (kidsE h e))
  | .binop i op l r => .binop i op (step h l (kidsE h l)) (step h r (kidsE h r))
  | .compare i l ops rs => .compare i (step h l (kidsE h l)) ops (kidsEs h rs)
  | .ifexp i t b e => .ifexp i (step h t (kidsE h t)) (step h b (kidsE h b)) (step h e (kidsE h e))
  | .lambda i as b => .lambda i (step h as (kidsE h as)) (step h b (kidsE h b))
  | .seq i k es c => .seq i k (kidsEs h es) c
  | .starred i v c => .starred i (step h v (kidsE h v)) c
  | .namedexpr i t v => .namedexpr i (step h t (kidsE h t)) (step h v (kidsE h v))
  | .comp i k es gs => .comp i k (kidsEs h es) (kidsEs h gs)
  | .comprehension i t it ifs a => .comprehension i (step h t (kidsE h t)) (step h it (kidsE h it)) (kidsEs h ifs) a
  | .arguments i a b c d e f g =>
      .arguments i (kidsEs h a) (kidsEs h b) (kidsEs h c) (kidsEs h d) (kidsEs h e) (kidsEs h f) (kidsEs h g)
  | .arg i n an => .arg i n (kidsEs h an)
  | .withitem i c v => .withitem i (step h c (kidsE h c)) (kidsEs h v)
  | .noneMarker => .noneMarker
  | .other i k ats ks => .other i k ats (kidsEs h ks)
def kidsEs (h : Hooks) : List Expr → List Expr
  | [] => []
  | e :: es => step h e (kidsE h e) :: kidsEs h es
end

/-- `transformer.visit(e)`. -/
def mapE (h : Hooks) (e : Expr) : Expr := step h e (kidsE h e)
def mapEs (h : Hooks) (es : List Expr) : List Expr := kidsEs h es

structure SHooks where
  /-- statement `visit_X` without `generic_visit` -/
  pre : Stmt → Option (List Stmt) := fun _ => none
  /-- statement `visit_X` after `generic_visit`; the result is spliced into the enclosing block -/
  post : Stmt → List Stmt := fun s => [s]

def stepS (sh : SHooks) (orig visitedKids : Stmt) : List Stmt :=
  match sh.pre orig with
  | some r => r
  | none => sh.post visitedKids

mutual
def kidsS (h : Hooks) (sh : SHooks) : Stmt → Stmt
  | .functionDef i n as b ds rs isA =>
      .functionDef i n (mapE h as) (mapB h sh b) (mapEs h ds) (mapEs h rs) isA
  | .classDef i n bs ks b ds => .classDef i n (mapEs h bs) (mapEs h ks) (mapB h sh b) (mapEs h ds)
  | .ret i v => .ret i (mapEs h v)
  | .delete i ts => .delete i (mapEs h ts)
  | .assign i ts v => .assign i (mapEs h ts) (mapE h v)
  | .augAssign i t op v => .augAssign i (mapE h t) op (mapE h v)
  | .annAssign i t an v s => .annAssign i (mapE h t) (mapE h an) (mapEs h v) s
  | .for_ i t it b e x isA => .for_ i (mapE h t) (mapE h it) (mapB h sh b) (mapB h sh e) x isA
  | .while_ i t b e => .while_ i (mapE h t) (mapB h sh b) (mapB h sh e)
  | .if_ i t b e => .if_ i (mapE h t) (mapB h sh b) (mapB h sh e)
  | .with_ i its b isA => .with_ i (mapEs h its) (mapB h sh b) isA
  | .raise i e c => .raise i (mapEs h e) (mapEs h c)
  | .try_ i b hs e f => .try_ i (mapB h sh b) (mapB h sh hs) (mapB h sh e) (mapB h sh f)
  | .handler i t n b => .handler i (mapEs h t) n (mapB h sh b)
  | .assert_ i t m => .assert_ i (mapE h t) (mapEs h m)
  | .import_ i ns => .import_ i ns
  | .importFrom i m ns l => .importFrom i m ns l
  | .global i ns => .global i ns
  | .nonlocal i ns => .nonlocal i ns
  | .expr i v => .expr i (mapE h v)
  | .pass i => .pass i
  | .break_ i => .break_ i
  | .continue_ i => .continue_ i
  | .other i k es bs => .other i k (mapEs h es) (mapB h sh bs)
def mapB (h : Hooks) (sh : SHooks) : List Stmt → List Stmt
  | [] => []
  | s :: ss => stepS sh s (kidsS h sh s) ++ mapB h sh ss
end

def mapS (h : Hooks) (sh : SHooks) (s : Stmt) : List Stmt := stepS sh s (kidsS h sh s)

end Malt.Conv
