import MaltModel.Py.Ast
/-
Arity invariants of `ast` nodes with parallel lists (C17): CPython's validator (Python/ast.c `validate_arguments`,
`validate_expr` for Compare) and `ast.unparse` (which zips the lists) both rely on them:
* `arguments`:  `len(kw_defaults) == len(kwonlyargs)`  (a keyword-only parameter without default is a `None` ENTRY,
                represented by `.noneMarker`, not a missing one)  and  `len(defaults) ≤ len(posonlyargs) + len(args)`;
* `Compare`:    `len(ops) == len(comparators)`.
`ArS`/`ArityWellFormed` is the structural property, `arS`/`arityOk` the executable checker (Proofs/C17Arity.lean: iff).
-/
set_option linter.unusedVariables false
namespace Malt.Conv
open Malt.Py

mutual
def ArE : Expr → Prop
  | .noneMarker => True
  | .name _ f_s f_ctx => True
  | .attr _ f_value f_attr f_ctx => ArE f_value
  | .subscript _ f_value f_slice f_ctx => ArE f_value ∧ ArE f_slice
  | .seq _ f_kind f_elts f_ctx => ArEs f_elts
  | .starred _ f_value f_ctx => ArE f_value
  | .const _ f_kind f_repr => True
  | .call _ f_func f_args f_keywords => ArE f_func ∧ ArEs f_args ∧ ArEs f_keywords
  | .keyword _ f_arg f_hasArg f_value => ArE f_value
  | .boolop _ f_isAnd f_values => ArEs f_values
  | .unary _ f_op f_operand => ArE f_operand
  | .binop _ f_op f_left f_right => ArE f_left ∧ ArE f_right
  | .compare _ f_left f_ops f_comparators => f_ops.length = f_comparators.length ∧ ArE f_left ∧ ArEs f_comparators
  | .ifexp _ f_test f_body f_orelse => ArE f_test ∧ ArE f_body ∧ ArE f_orelse
  | .lambda _ f_args f_body => ArE f_args ∧ ArE f_body
  | .namedexpr _ f_target f_value => ArE f_target ∧ ArE f_value
  | .comp _ f_kind f_elts f_generators => ArEs f_elts ∧ ArEs f_generators
  | .comprehension _ f_target f_iter f_ifs f_isAsync => ArE f_target ∧ ArE f_iter ∧ ArEs f_ifs
  | .arguments _ f_posonly f_args f_vararg f_kwonly f_kwDefaults f_kwarg f_defaults => f_kwDefaults.length = f_kwonly.length ∧ f_defaults.length ≤ f_posonly.length + f_args.length ∧ ArEs f_posonly ∧ ArEs f_args ∧ ArEs f_vararg ∧ ArEs f_kwonly ∧ ArEs f_kwDefaults ∧ ArEs f_kwarg ∧ ArEs f_defaults
  | .arg _ f_name f_annotation => ArEs f_annotation
  | .withitem _ f_contextExpr f_optionalVars => ArE f_contextExpr ∧ ArEs f_optionalVars
  | .other _ f_kind f_attrs f_kids => ArEs f_kids
def ArEs : List Expr → Prop
  | [] => True
  | e :: es => ArE e ∧ ArEs es
def ArS : Stmt → Prop
  | .functionDef _ f_name f_args f_body f_decorators f_returns f_isAsync => ArE f_args ∧ ArSs f_body ∧ ArEs f_decorators ∧ ArEs f_returns
  | .classDef _ f_name f_bases f_keywords f_body f_decorators => ArEs f_bases ∧ ArEs f_keywords ∧ ArSs f_body ∧ ArEs f_decorators
  | .ret _ f_value => ArEs f_value
  | .delete _ f_targets => ArEs f_targets
  | .assign _ f_targets f_value => ArEs f_targets ∧ ArE f_value
  | .augAssign _ f_target f_op f_value => ArE f_target ∧ ArE f_value
  | .annAssign _ f_target f_annotation f_value f_simple => ArE f_target ∧ ArE f_annotation ∧ ArEs f_value
  | .for_ _ f_target f_iter f_body f_orelse f_extraTest f_isAsync => ArE f_target ∧ ArE f_iter ∧ ArSs f_body ∧ ArSs f_orelse ∧ ArEs f_extraTest
  | .while_ _ f_test f_body f_orelse => ArE f_test ∧ ArSs f_body ∧ ArSs f_orelse
  | .if_ _ f_test f_body f_orelse => ArE f_test ∧ ArSs f_body ∧ ArSs f_orelse
  | .with_ _ f_items f_body f_isAsync => ArEs f_items ∧ ArSs f_body
  | .raise _ f_exc f_cause => ArEs f_exc ∧ ArEs f_cause
  | .try_ _ f_body f_handlers f_orelse f_finalbody => ArSs f_body ∧ ArSs f_handlers ∧ ArSs f_orelse ∧ ArSs f_finalbody
  | .handler _ f_type_ f_name f_body => ArEs f_type_ ∧ ArSs f_body
  | .assert_ _ f_test f_msg => ArE f_test ∧ ArEs f_msg
  | .import_ _ f_names => True
  | .importFrom _ f_module f_names f_level => True
  | .global _ f_names => True
  | .nonlocal _ f_names => True
  | .expr _ f_value => ArE f_value
  | .pass _ => True
  | .break_ _ => True
  | .continue_ _ => True
  | .other _ f_kind f_exprs f_blocks => ArEs f_exprs ∧ ArSs f_blocks
def ArSs : List Stmt → Prop
  | [] => True
  | s :: ss => ArS s ∧ ArSs ss
end

/-- every `arguments` / `Compare` node of the statement list has consistent parallel lists -/
def ArityWellFormed (t : List Stmt) : Prop := ArSs t

mutual
def arE : Expr → Bool
  | .noneMarker => true
  | .name _ f_s f_ctx => true
  | .attr _ f_value f_attr f_ctx => arE f_value
  | .subscript _ f_value f_slice f_ctx => arE f_value && arE f_slice
  | .seq _ f_kind f_elts f_ctx => arEs f_elts
  | .starred _ f_value f_ctx => arE f_value
  | .const _ f_kind f_repr => true
  | .call _ f_func f_args f_keywords => arE f_func && arEs f_args && arEs f_keywords
  | .keyword _ f_arg f_hasArg f_value => arE f_value
  | .boolop _ f_isAnd f_values => arEs f_values
  | .unary _ f_op f_operand => arE f_operand
  | .binop _ f_op f_left f_right => arE f_left && arE f_right
  | .compare _ f_left f_ops f_comparators => f_ops.length == f_comparators.length && arE f_left && arEs f_comparators
  | .ifexp _ f_test f_body f_orelse => arE f_test && arE f_body && arE f_orelse
  | .lambda _ f_args f_body => arE f_args && arE f_body
  | .namedexpr _ f_target f_value => arE f_target && arE f_value
  | .comp _ f_kind f_elts f_generators => arEs f_elts && arEs f_generators
  | .comprehension _ f_target f_iter f_ifs f_isAsync => arE f_target && arE f_iter && arEs f_ifs
  | .arguments _ f_posonly f_args f_vararg f_kwonly f_kwDefaults f_kwarg f_defaults => f_kwDefaults.length == f_kwonly.length && decide (f_defaults.length ≤ f_posonly.length + f_args.length) && arEs f_posonly && arEs f_args && arEs f_vararg && arEs f_kwonly && arEs f_kwDefaults && arEs f_kwarg && arEs f_defaults
  | .arg _ f_name f_annotation => arEs f_annotation
  | .withitem _ f_contextExpr f_optionalVars => arE f_contextExpr && arEs f_optionalVars
  | .other _ f_kind f_attrs f_kids => arEs f_kids
def arEs : List Expr → Bool
  | [] => true
  | e :: es => arE e && arEs es
def arS : Stmt → Bool
  | .functionDef _ f_name f_args f_body f_decorators f_returns f_isAsync => arE f_args && arSs f_body && arEs f_decorators && arEs f_returns
  | .classDef _ f_name f_bases f_keywords f_body f_decorators => arEs f_bases && arEs f_keywords && arSs f_body && arEs f_decorators
  | .ret _ f_value => arEs f_value
  | .delete _ f_targets => arEs f_targets
  | .assign _ f_targets f_value => arEs f_targets && arE f_value
  | .augAssign _ f_target f_op f_value => arE f_target && arE f_value
  | .annAssign _ f_target f_annotation f_value f_simple => arE f_target && arE f_annotation && arEs f_value
  | .for_ _ f_target f_iter f_body f_orelse f_extraTest f_isAsync => arE f_target && arE f_iter && arSs f_body && arSs f_orelse && arEs f_extraTest
  | .while_ _ f_test f_body f_orelse => arE f_test && arSs f_body && arSs f_orelse
  | .if_ _ f_test f_body f_orelse => arE f_test && arSs f_body && arSs f_orelse
  | .with_ _ f_items f_body f_isAsync => arEs f_items && arSs f_body
  | .raise _ f_exc f_cause => arEs f_exc && arEs f_cause
  | .try_ _ f_body f_handlers f_orelse f_finalbody => arSs f_body && arSs f_handlers && arSs f_orelse && arSs f_finalbody
  | .handler _ f_type_ f_name f_body => arEs f_type_ && arSs f_body
  | .assert_ _ f_test f_msg => arE f_test && arEs f_msg
  | .import_ _ f_names => true
  | .importFrom _ f_module f_names f_level => true
  | .global _ f_names => true
  | .nonlocal _ f_names => true
  | .expr _ f_value => arE f_value
  | .pass _ => true
  | .break_ _ => true
  | .continue_ _ => true
  | .other _ f_kind f_exprs f_blocks => arEs f_exprs && arSs f_blocks
def arSs : List Stmt → Bool
  | [] => true
  | s :: ss => arS s && arSs ss
end

def arityOk (t : List Stmt) : Bool := arSs t

end Malt.Conv
