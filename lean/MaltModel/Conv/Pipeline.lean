import MaltModel.Generated.Pipeline
/-
The pass pipeline (C01): which orderings and analyses the per-pass correctness theorems and the
passes' own preconditions rely on, checked against the pipeline *extracted from the source*.
-/
namespace Malt.Conv.Pipeline
open Malt.Gen.Pipeline

def idx (s : String) : Option Nat := (steps.map (·.1)).idxOf? s

/-- Passes every conversion must run, unconditionally and exactly once. -/
def mandatory : List String :=
  ["functions", "directives", "break_statements", "continue_statements", "return_statements",
   "call_trees", "control_flow", "conditional_expressions", "logical_expressions", "variables"]

/-- (a, b): pass `a` must run before pass `b`; the reason is next to each pair. -/
def requiredBefore : List (String × String) := [
  ("unsupported_features_checker.verify", "functions"),  -- rejected constructs never reach a converter
  ("initial_analysis", "functions"),                      -- converters read ORIG_DEFINITIONS / scopes
  ("functions", "return_statements"),                     -- return lowering rewrites inside the FunctionScope `with`
  ("functions", "call_trees"),                            -- converted_call needs the function-scope name
  ("directives", "break_statements"),                     -- loop directives are copied onto rewritten loops
  ("directives", "control_flow"),                         -- loop options are read by control_flow
  ("break_statements", "continue_statements"),            -- break lowering emits `continue`
  ("continue_statements", "control_flow"),                -- functional bodies contain no native jump
  ("break_statements", "control_flow"),
  ("return_statements", "control_flow"),
  ("control_flow", "conditional_expressions"),            -- expression wrappers apply to generated tests too
  ("control_flow", "logical_expressions"),
  ("control_flow", "variables"),                          -- `ld` wrapping must not hide reads from liveness
  ("logical_expressions", "variables"),
  ("conditional_expressions", "variables")]

def occursOnceUnguarded (s : String) : Bool :=
  (steps.filter (·.1 == s)).length == 1 && steps.contains (s, "")

def orderOk : Bool :=
  mandatory.all occursOnceUnguarded &&
  requiredBefore.all fun (a, b) => match idx a, idx b with
    | some i, some j => i < j
    | _, _ => false

/-- Feature-guarded passes and their guards. -/
def guardsOk : Bool :=
  steps.all fun (s, g) =>
    if s == "asserts" then g == "ASSERT_STATEMENTS"
    else if s == "lists" || s == "slices" then g == "LISTS"
    else g == ""

/-- The analyses control_flow's `transform` runs, in dependency order, before its transformer. -/
def cfAnalysesOk : Bool :=
  match analyses.lookup "control_flow" with
  | some l =>
    let i := fun s => l.idxOf? s
    (match i "cfg.build", i "qual_names.resolve", i "activity.resolve", i "reaching_definitions.resolve",
           i "reaching_fndefs.resolve", i "liveness.resolve" with
     | some c, some q, some a, some r, some f, some lv => c < r && q < a && a < r && r < f && f < lv
     | _, _, _, _, _, _ => false)
  | none => false

/-- Every pass that asks the namer for names reserved from `scope.referenced` re-runs activity analysis first. -/
def activityFreshOk : Bool :=
  ["functions", "break_statements", "continue_statements", "return_statements", "control_flow"].all fun m =>
    match analyses.lookup m with
    | some l => l.contains "qual_names.resolve" && l.contains "activity.resolve"
    | none => false

end Malt.Conv.Pipeline
