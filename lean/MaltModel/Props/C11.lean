/-
C11 — generated names never capture, shadow or clash with user names.

Part 1 (the namer, `Malt.Naming`, model of malt/pyct/naming.py):
  namer_fresh, namer_monotone, namer_distinct, namer_avoids_reserved, namer_result_variant
Part 2 (how the conversion uses it, `Malt.NamingConv`):
  C11_disjoint_partial, C11_clash_classified, C11_transpiler_clash_classified,
  + facts about the regenerated tables (`sites_reserve_referenced`, `namer_shape_recognised`, …)

FULL STATEMENT (false of the pinned code, see the counterexamples below and known_findings.d/C11.json):

  theorem C11_disjoint (f) (reqs) (h : ConvOf f reqs) :
      (∀ x ∈ converterNames f reqs, x ∉ f.userNames) ∧ (∀ x ∈ transpilerNames f reqs, x ∉ f.free ∧ x ∉ f.ns)
      ∧ (∀ x ∈ templateFixedNames ++ extraLocals, x ∉ f.userNames)

It fails because (1) callers reserve `scope.referenced` — names READ —, so a user name that is only bound
(`break_ = 1`, never read; `for fscope in l`) or read only inside a nested scope that binds it
(`[h(fscope) for fscope in l]`, `lambda fscope: h(fscope)`) is not reserved and the namer hands out that very name;
(2) the transpiler reserves nothing for `ag__<f>` / `inner_factory`, so a global defined after conversion clashes;
(3) `ag__` and `vars_` are hard-coded.  `C11_disjoint_partial` assumes these three away; `C11_clash_classified`
shows that EVERY clash of a converter-level name is in class (1).
-/
import MaltModel.Rt.Naming
import MaltModel.Rt.NamingConv
import Std.Data.String.ToNat

namespace Malt.Props.C11
open Malt.Naming Malt.NamingConv

/-! ## Part 1 — the namer -/

private theorem candidate_injective {r : String} {a b : Nat} (h : candidate r a = candidate r b) : a = b := by
  unfold candidate at h
  exact Nat.repr_injective ((String.append_right_inj _).mp h)

/-- Pigeonhole: with more fuel than there are taken names of the form `root_k` (k ≥ start), the search stops at a
free candidate. `T` over-approximates the taken candidates still ahead. -/
private theorem firstFree_not_mem_aux (root : String) (taken : List String) :
    ∀ (fuel start : Nat) (T : List String), T.length < fuel →
      (∀ k, start ≤ k → candidate root k ∈ taken → candidate root k ∈ T) →
      firstFree root taken start fuel ∉ taken := by
  intro fuel
  induction fuel with
  | zero => intro start T h; exact absurd h (Nat.not_lt_zero _)
  | succ fuel ih =>
    intro start T hlen hcov
    unfold firstFree
    by_cases hc : taken.contains (candidate root start) = true
    · rw [if_pos hc]
      have hm : candidate root start ∈ taken := by simpa using hc
      have hT : candidate root start ∈ T := hcov start (Nat.le_refl _) hm
      apply ih (start + 1) (T.erase (candidate root start))
      · rw [List.length_erase_of_mem hT]
        have : 0 < T.length := List.length_pos_of_mem hT
        omega
      · intro k hk hkm
        have hne : candidate root k ≠ candidate root start := by
          intro he
          have := candidate_injective he
          omega
        exact (List.mem_erase_of_ne hne).mpr (hcov k (by omega) hkm)
    · rw [if_neg hc]
      intro hm
      exact hc (by simpa using hm)

private theorem firstFree_not_mem (root : String) (taken : List String) (start : Nat) :
    firstFree root taken start (taken.length + 1) ∉ taken :=
  firstFree_not_mem_aux root taken (taken.length + 1) start taken (Nat.lt_succ_self _) (fun _ _ h => h)

private theorem firstFree_is_candidate (root : String) (taken : List String) :
    ∀ (fuel start : Nat), ∃ k, start ≤ k ∧ firstFree root taken start fuel = candidate root k := by
  intro fuel
  induction fuel with
  | zero => intro start; exact ⟨start, Nat.le_refl _, rfl⟩
  | succ fuel ih =>
    intro start
    unfold firstFree
    by_cases hc : taken.contains (candidate root start) = true
    · rw [if_pos hc]
      obtain ⟨k, hk, he⟩ := ih (start + 1)
      exact ⟨k, by omega, he⟩
    · rw [if_neg hc]
      exact ⟨start, Nat.le_refl _, rfl⟩

/-- The name chosen by `newSymbol`, spelled out. -/
private def chosen (nm : Namer) (nameRoot : String) (reserved : List String) : String :=
  let taken := nm.globalNs ++ reserved ++ nm.generated
  if taken.contains (splitRoot nameRoot).1
  then firstFree (splitRoot nameRoot).1 taken ((splitRoot nameRoot).2 + 1) (taken.length + 1)
  else (splitRoot nameRoot).1

private theorem newSymbol_eq (nm : Namer) (nameRoot : String) (reserved : List String) :
    newSymbol nm nameRoot reserved =
      (chosen nm nameRoot reserved, { nm with generated := chosen nm nameRoot reserved :: nm.generated }) := by
  unfold newSymbol chosen
  rfl

private theorem chosen_not_taken (nm : Namer) (nameRoot : String) (reserved : List String) :
    chosen nm nameRoot reserved ∉ nm.globalNs ++ reserved ++ nm.generated := by
  unfold chosen
  by_cases hc : (nm.globalNs ++ reserved ++ nm.generated).contains (splitRoot nameRoot).1 = true
  · rw [if_pos hc]
    exact firstFree_not_mem _ _ _
  · rw [if_neg hc]
    intro hm
    exact hc (by simpa using hm)

/-- **namer_fresh.**  The name returned by `new_symbol(root, reserved)` is not in the namespace, not in the (flattened)
reserved set, was not generated before — and is recorded as generated. -/
theorem namer_fresh (nm nm' : Namer) (root : String) (reserved : List String) (x : String)
    (h : newSymbol nm root reserved = (x, nm')) :
    x ∉ nm.globalNs ∧ x ∉ reserved ∧ x ∉ nm.generated ∧ x ∈ nm'.generated := by
  rw [newSymbol_eq] at h
  obtain ⟨rfl, rfl⟩ := Prod.mk.inj h
  have hn := chosen_not_taken nm root reserved
  simp only [List.mem_append, not_or] at hn
  exact ⟨hn.1.1, hn.1.2, hn.2, List.mem_cons_self⟩

example : newSymbol ⟨["break_", "x"], ["break__1"]⟩ "break_" ["break__2", "y"] =
    ("break__3", ⟨["break_", "x"], ["break__3", "break__1"]⟩) := by decide

/-- **namer_monotone.**  `generated_names` only grows (by exactly the returned name) and the namespace is untouched. -/
theorem namer_monotone (nm nm' : Namer) (root : String) (reserved : List String) (x : String)
    (h : newSymbol nm root reserved = (x, nm')) :
    nm'.generated = x :: nm.generated ∧ nm'.globalNs = nm.globalNs ∧ ∀ y ∈ nm.generated, y ∈ nm'.generated := by
  rw [newSymbol_eq] at h
  obtain ⟨rfl, rfl⟩ := Prod.mk.inj h
  exact ⟨rfl, rfl, fun y hy => List.mem_cons_of_mem _ hy⟩

example : (newSymbol ⟨[], ["a"]⟩ "b" []).2.generated = ["b", "a"] := by decide

/-- **namer_result_variant.**  What comes back is the root without its numeric suffix, or that plus `_k` with `k`
beyond the suffix. -/
theorem namer_result_variant (nm : Namer) (root : String) (reserved : List String) :
    (newSymbol nm root reserved).1 = (splitRoot root).1 ∨
    ∃ k, (splitRoot root).2 < k ∧ (newSymbol nm root reserved).1 = candidate (splitRoot root).1 k := by
  rw [newSymbol_eq]
  show chosen nm root reserved = _ ∨ _
  unfold chosen
  by_cases hc : (nm.globalNs ++ reserved ++ nm.generated).contains (splitRoot root).1 = true
  · rw [if_pos hc]
    obtain ⟨k, hk, he⟩ := firstFree_is_candidate (splitRoot root).1 (nm.globalNs ++ reserved ++ nm.generated)
      ((nm.globalNs ++ reserved ++ nm.generated).length + 1) ((splitRoot root).2 + 1)
    exact Or.inr ⟨k, by omega, he⟩
  · rw [if_neg hc]
    exact Or.inl rfl

example : (newSymbol ⟨["f"], []⟩ "f_7" []).1 = "f_8" ∧ (newSymbol ⟨[], []⟩ "f_7" []).1 = "f" := by decide

/-! ### sequences of calls -/

private theorem runCalls_cons (nm : Namer) (c : Call) (cs : List Call) :
    runCalls nm (c :: cs) =
      ((newSymbol nm c.root c.reserved).1 :: (runCalls (newSymbol nm c.root c.reserved).2 cs).1,
       (runCalls (newSymbol nm c.root c.reserved).2 cs).2) := rfl

private theorem runCalls_ns (cs : List Call) : ∀ nm, (runCalls nm cs).2.globalNs = nm.globalNs := by
  induction cs with
  | nil => intro nm; rfl
  | cons c cs ih =>
    intro nm
    rw [runCalls_cons]
    simp only []
    rw [ih, newSymbol_eq]

/-- The final `generated_names` is the initial one plus exactly the names handed out. -/
theorem namer_generated_eq (cs : List Call) : ∀ nm,
    (runCalls nm cs).2.generated = (runCalls nm cs).1.reverse ++ nm.generated := by
  induction cs with
  | nil => intro nm; simp [runCalls]
  | cons c cs ih =>
    intro nm
    rw [runCalls_cons]
    simp only []
    rw [ih, newSymbol_eq]
    simp

/-- Along ANY sequence of calls, every produced name is outside the namespace and outside what had been generated
before the sequence started. -/
private theorem runCalls_fresh (cs : List Call) : ∀ nm, ∀ x ∈ (runCalls nm cs).1, x ∉ nm.globalNs ∧ x ∉ nm.generated := by
  induction cs with
  | nil => intro nm x hx; simp [runCalls] at hx
  | cons c cs ih =>
    intro nm x hx
    rw [runCalls_cons] at hx
    simp only [List.mem_cons] at hx
    have hf := namer_fresh nm (newSymbol nm c.root c.reserved).2 c.root c.reserved (newSymbol nm c.root c.reserved).1 rfl
    have hmono := namer_monotone nm (newSymbol nm c.root c.reserved).2 c.root c.reserved (newSymbol nm c.root c.reserved).1 rfl
    rcases hx with rfl | hx
    · exact ⟨hf.1, hf.2.2.1⟩
    · have := ih _ x hx
      rw [hmono.2.1] at this
      exact ⟨this.1, fun hg => this.2 (hmono.2.2 x hg)⟩

/-- **namer_distinct.**  Along ANY sequence of `new_symbol` calls (any roots, any reserved sets, any starting state)
all produced names are pairwise distinct, and distinct from everything generated before and from the namespace. -/
theorem namer_distinct (nm : Namer) (cs : List Call) :
    (runCalls nm cs).1.Nodup ∧ ∀ x ∈ (runCalls nm cs).1, x ∉ nm.globalNs ∧ x ∉ nm.generated := by
  refine ⟨?_, runCalls_fresh cs nm⟩
  induction cs generalizing nm with
  | nil => simp [runCalls]
  | cons c cs ih =>
    rw [runCalls_cons]
    simp only [List.nodup_cons]
    refine ⟨?_, ih _⟩
    intro hx
    have hfr := (runCalls_fresh cs (newSymbol nm c.root c.reserved).2 _ hx).2
    have hf := namer_fresh nm (newSymbol nm c.root c.reserved).2 c.root c.reserved (newSymbol nm c.root c.reserved).1 rfl
    exact hfr hf.2.2.2

example : (runCalls ⟨["if_body"], []⟩ [⟨"if_body", []⟩, ⟨"if_body", ["if_body_1"]⟩, ⟨"if_body_1", []⟩, ⟨"get_state", []⟩]).1
    = ["if_body_1", "if_body_2", "if_body_3", "get_state"] := by decide

/-- **namer_avoids_reserved.**  Each produced name avoids the reserved set of ITS OWN request. -/
theorem namer_avoids_reserved (cs : List Call) : ∀ nm, ∀ p ∈ (runCalls nm cs).1.zip cs, p.1 ∉ p.2.reserved := by
  induction cs with
  | nil => intro nm p hp; simp [runCalls] at hp
  | cons c cs ih =>
    intro nm p hp
    rw [runCalls_cons] at hp
    simp only [List.zip_cons_cons, List.mem_cons] at hp
    rcases hp with rfl | hp
    · exact (namer_fresh nm (newSymbol nm c.root c.reserved).2 c.root c.reserved (newSymbol nm c.root c.reserved).1 rfl).2.1
    · exact ih _ p hp

/-- Each produced name is a variant of ITS OWN request's root. -/
private theorem runCalls_variant (cs : List Call) : ∀ nm, ∀ p ∈ (runCalls nm cs).1.zip cs,
    p.1 = (splitRoot p.2.root).1 ∨ ∃ k, p.1 = candidate (splitRoot p.2.root).1 k := by
  induction cs with
  | nil => intro nm p hp; simp [runCalls] at hp
  | cons c cs ih =>
    intro nm p hp
    rw [runCalls_cons] at hp
    simp only [List.zip_cons_cons, List.mem_cons] at hp
    rcases hp with rfl | hp
    · rcases namer_result_variant nm c.root c.reserved with h | ⟨k, _, h⟩
      · exact Or.inl h
      · exact Or.inr ⟨k, h⟩
    · exact ih _ p hp

/-! ## Part 2 — how the conversion uses the namer -/

private theorem candidate_toList (b : String) (k : Nat) :
    (candidate b k).toList = b.toList ++ '_' :: Nat.toDigits 10 k := by
  unfold candidate
  simp [String.toList_append]

/-- Splitting a numbered variant gives back root and number (`'%s_%d'` and `split('_')`/`isdigit`/`int` are inverse). -/
theorem splitRoot_candidate (b : String) (k : Nat) : splitRoot (candidate b k) = (b, k) := by
  unfold splitRoot splitRootChars
  rw [candidate_toList]
  have hrev : (b.toList ++ '_' :: Nat.toDigits 10 k).reverse = (Nat.toDigits 10 k).reverse ++ '_' :: b.toList.reverse := by
    simp
  have hdig : ∀ d ∈ (Nat.toDigits 10 k).reverse, d.isDigit = true :=
    fun d hd => Nat.isDigit_of_mem_toDigits (by decide) (by decide) (List.mem_reverse.mp hd)
  have htw : ((Nat.toDigits 10 k).reverse ++ '_' :: b.toList.reverse).takeWhile Char.isDigit = (Nat.toDigits 10 k).reverse := by
    rw [List.takeWhile_append_of_pos hdig]
    simp
  have hdw : ((Nat.toDigits 10 k).reverse ++ '_' :: b.toList.reverse).dropWhile Char.isDigit = '_' :: b.toList.reverse := by
    rw [List.dropWhile_append_of_pos hdig]
    simp
  simp only [hrev, htw, hdw]
  have hne : (Nat.toDigits 10 k).reverse ≠ [] := by simp [Nat.toDigits_ne_nil]
  obtain ⟨d, ds, hds⟩ := List.exists_cons_of_ne_nil hne
  have hr : (d :: ds).reverse = Nat.toDigits 10 k := by rw [← hds]; simp
  rw [hds]
  simp only [hr]
  simp [digitsVal]

example : splitRoot (candidate "break_" 12) = ("break_", 12) := by decide

/-- `isVariant root` recognises exactly what `new_symbol(root, …)` can return. -/
theorem isVariant_iff (root x : String) :
    isVariant root x = true ↔ x = (splitRoot root).1 ∨ ∃ k, x = candidate (splitRoot root).1 k := by
  unfold isVariant
  simp only [Bool.or_eq_true, beq_iff_eq]
  constructor
  · rintro (h | h)
    · exact Or.inl h
    · exact Or.inr ⟨_, h⟩
  · rintro (h | ⟨k, h⟩)
    · exact Or.inl h
    · refine Or.inr ?_
      rw [h, splitRoot_candidate]

private theorem mem_produced {f : UserFn} {reqs : List Req} {p : String × Req} (hp : p ∈ produced f reqs) :
    p.2 ∈ reqs ∧ p.1 ∉ f.ns ∧ p.1 ∉ p.2.call.reserved ∧ isVariant p.2.call.root p.1 = true := by
  unfold produced at hp
  have hz : (p.1, p.2.call) ∈ (runCalls ⟨f.ns, []⟩ (reqs.map (·.call))).1.zip (reqs.map (·.call)) := by
    rw [List.zip_map_right]
    exact List.mem_map.mpr ⟨p, hp, rfl⟩
  have h1 := (List.of_mem_zip hp)
  refine ⟨h1.2, ?_, ?_, ?_⟩
  · exact ((namer_distinct ⟨f.ns, []⟩ (reqs.map (·.call))).2 p.1 h1.1).1
  · exact namer_avoids_reserved _ _ _ hz
  · exact (isVariant_iff _ _).mpr (runCalls_variant _ _ _ hz)

private theorem mem_converterNames {f : UserFn} {reqs : List Req} {x : String} (hx : x ∈ converterNames f reqs) :
    ∃ p ∈ produced f reqs, p.2.level = .converter ∧ p.1 = x := by
  unfold converterNames at hx
  obtain ⟨p, hp, rfl⟩ := List.mem_map.mp hx
  obtain ⟨hp1, hp2⟩ := List.mem_filter.mp hp
  exact ⟨p, hp1, by simpa using hp2, rfl⟩

private theorem mem_transpilerNames {f : UserFn} {reqs : List Req} {x : String} (hx : x ∈ transpilerNames f reqs) :
    ∃ p ∈ produced f reqs, p.2.level = .transpiler ∧ p.1 = x := by
  unfold transpilerNames at hx
  obtain ⟨p, hp, rfl⟩ := List.mem_map.mp hx
  obtain ⟨hp1, hp2⟩ := List.mem_filter.mp hp
  exact ⟨p, hp1, by simpa using hp2, rfl⟩

/-- Unconditionally: a converter-level name is outside the namespace and outside the reads of the body scope;
a transpiler-level name is outside the namespace; all produced names are pairwise distinct. -/
theorem C11_generated_avoid_reads_and_namespace (f : UserFn) (reqs : List Req) (hc : ConvOf f reqs) :
    (∀ x ∈ converterNames f reqs, x ∉ f.read ∧ x ∉ f.ns) ∧ (∀ x ∈ transpilerNames f reqs, x ∉ f.ns) ∧
    ((produced f reqs).map (·.1)).Nodup := by
  refine ⟨?_, ?_, ?_⟩
  · intro x hx
    obtain ⟨p, hp, hl, rfl⟩ := mem_converterNames hx
    obtain ⟨hr, hns, hres, _⟩ := mem_produced hp
    exact ⟨fun hrd => hres ((hc p.2 hr).1 hl p.1 hrd), hns⟩
  · intro x hx
    obtain ⟨p, hp, _, rfl⟩ := mem_transpilerNames hx
    exact (mem_produced hp).2.1
  · unfold produced
    have hlen : (runCalls ⟨f.ns, []⟩ (reqs.map (·.call))).1.length = reqs.length := by
      have : ∀ (cs : List Call) (nm : Namer), (runCalls nm cs).1.length = cs.length := by
        intro cs
        induction cs with
        | nil => intro nm; rfl
        | cons c cs ih => intro nm; rw [runCalls_cons]; simp [ih]
      rw [this]; simp
    rw [List.map_fst_zip (by omega)]
    exact (namer_distinct _ _).1

/-- **C11_disjoint_partial.**  If every name the function binds that is a variant of a converter root is also reserved
(read, or in the namespace), its free
names are in the namespace snapshot (or unrelated to the transpiler's roots), it does not use the hard-coded
identifiers in a clashing way (`hardClash`) and its transformed name does not collapse onto one, then: no converter-level
name is a user name; no transpiler-level name is a free name of the function or a namespace key; no hard-coded identifier
clashes or is ever handed out by the namer. -/
theorem C11_disjoint_partial (f : UserFn) (reqs : List Req) (hc : ConvOf f reqs)
    (h1 : BoundNamesReserved f) (h2 : FreeNamesResolved f) (h3 : FixedNamesUnused f) (h4 : FixedNamesNotVariants f)
    (h5 : ∀ r ∈ reqs, r.level = .converter → r.call.root ∈ Gen.Naming.converterRoots) :
    (∀ x ∈ converterNames f reqs, x ∉ f.userNames) ∧
    (∀ x ∈ transpilerNames f reqs, x ∉ f.free ∧ x ∉ f.ns) ∧
    (∀ x ∈ hardCodedNames,
        hardClash f x = false ∧ x ∉ converterNames f reqs ∧ x ∉ transpilerNames f reqs) := by
  have hbase := C11_generated_avoid_reads_and_namespace f reqs hc
  refine ⟨?_, ?_, ?_⟩
  · intro x hx hu
    have := hbase.1 x hx
    unfold UserFn.userNames at hu
    simp only [List.mem_append] at hu
    rcases hu with (hb | hr) | hn
    · obtain ⟨p, hp, hl, rfl⟩ := mem_converterNames hx
      obtain ⟨hreq, _, _, hv⟩ := mem_produced hp
      have hvar : Gen.Naming.converterRoots.any (fun r => isVariant r p.1) = true :=
        List.any_eq_true.mpr ⟨p.2.call.root, h5 p.2 hreq hl, hv⟩
      rcases h1 p.1 hb hvar with hr | hn
      · exact this.1 hr
      · exact this.2 hn
    · exact this.1 hr
    · exact this.2 hn
  · intro x hx
    refine ⟨?_, hbase.2.1 x hx⟩
    intro hfree
    obtain ⟨p, hp, hl, rfl⟩ := mem_transpilerNames hx
    obtain ⟨hr, hns, _, hv⟩ := mem_produced hp
    rcases h2 p.1 hfree with hn | hnv
    · exact hns hn
    · have := hnv _ ((hc p.2 hr).2 hl)
      rw [hv] at this
      exact Bool.noConfusion this
  · intro x hx
    refine ⟨h3 x hx, ?_, ?_⟩
    · intro hcn
      obtain ⟨p, hp, hl, rfl⟩ := mem_converterNames hcn
      obtain ⟨hr, _, _, hv⟩ := mem_produced hp
      have hroot := h5 p.2 hr hl
      have hall : ∀ r ∈ Gen.Naming.converterRoots, ∀ y ∈ hardCodedNames,
          isVariant r y = false := by decide
      have := hall _ hroot _ hx
      rw [hv] at this
      exact Bool.noConfusion this
    · intro htn
      obtain ⟨p, hp, hl, rfl⟩ := mem_transpilerNames htn
      obtain ⟨hr, _, _, hv⟩ := mem_produced hp
      have := h4 _ ((hc p.2 hr).2 hl) _ hx
      rw [hv] at this
      exact Bool.noConfusion this

/-- A function whose hypotheses all hold (its one bound-and-generated-looking name `break_` is also read), with the
request sequence recorded for it: `break__1` is handed out instead. -/
def okFn : UserFn :=
  { name := "g", bound := ["n", "s", "i", "break_"], read := ["n", "s", "i", "break_", "range"], readLocal := [],
    free := ["range"], ns := ["g", "malt"] }
def okReqs : List Req :=
  [⟨.transpiler, ⟨"ag__g", []⟩⟩, ⟨.converter, ⟨"fscope", ["break_", "i", "n", "range", "s"]⟩⟩,
   ⟨.converter, ⟨"do_return", ["break_", "i", "n", "range", "s"]⟩⟩, ⟨.converter, ⟨"retval_", ["break_", "i", "n", "range", "s"]⟩⟩,
   ⟨.converter, ⟨"break_", ["break_", "i", "n", "range", "s"]⟩⟩, ⟨.transpiler, ⟨"inner_factory", []⟩⟩,
   ⟨.transpiler, ⟨"outer_factory", []⟩⟩]
example : ConvOf okFn okReqs ∧ BoundNamesReserved okFn ∧ FreeNamesResolved okFn ∧ FixedNamesUnused okFn ∧
    FixedNamesNotVariants okFn ∧ (∀ r ∈ okReqs, r.level = .converter → r.call.root ∈ Gen.Naming.converterRoots) ∧
    converterNames okFn okReqs = ["fscope", "do_return", "retval_", "break__1"] ∧
    transpilerNames okFn okReqs = ["ag__g", "inner_factory", "outer_factory"] := by decide

/-- **C11_clash_classified.**  Whatever the program: if a converter-level name coincides with a user name at all,
that name is bound, not reserved and not in the namespace — i.e. the case is in class
`bound_only_user_name_equals_generated_root` or `nested_scope_bound_name_equals_generated_root`. -/
theorem C11_clash_classified (f : UserFn) (reqs : List Req) (hc : ConvOf f reqs) (x : String)
    (hx : x ∈ converterNames f reqs) (hu : x ∈ f.userNames) :
    clsBoundOnly f (reqs.map (·.call.root)) x = true ∨ clsNestedBound f (reqs.map (·.call.root)) x = true := by
  have hbase := (C11_generated_avoid_reads_and_namespace f reqs hc).1 x hx
  obtain ⟨p, hp, hl, rfl⟩ := mem_converterNames hx
  obtain ⟨hr, _, _, hv⟩ := mem_produced hp
  have hb : p.1 ∈ f.bound := by
    unfold UserFn.userNames at hu
    simp only [List.mem_append] at hu
    rcases hu with (hb | hr) | hn
    · exact hb
    · exact absurd hr hbase.1
    · exact absurd hn hbase.2
  have hroots : (reqs.map (·.call.root)).any (fun r => isVariant r p.1) = true :=
    List.any_eq_true.mpr ⟨p.2.call.root, List.mem_map.mpr ⟨p.2, hr, rfl⟩, hv⟩
  have h1 : f.bound.contains p.1 = true := by simpa using hb
  have h2 : f.read.contains p.1 = false := by simpa using hbase.1
  have h3 : f.ns.contains p.1 = false := by simpa using hbase.2
  unfold clsBoundOnly clsNestedBound
  cases hrl : f.readLocal.contains p.1 <;> rw [h1, h2, h3, hroots] <;> decide

/-- Likewise for transpiler-level names: a clash with a free name is in class
`free_name_outside_namespace_equals_transpiler_name`. -/
theorem C11_transpiler_clash_classified (f : UserFn) (reqs : List Req) (hc : ConvOf f reqs) (x : String)
    (hx : x ∈ transpilerNames f reqs) (hu : x ∈ f.free) : clsLateFree f x = true := by
  have hns := (C11_generated_avoid_reads_and_namespace f reqs hc).2.1 x hx
  obtain ⟨p, hp, hl, rfl⟩ := mem_transpilerNames hx
  obtain ⟨hr, _, _, hv⟩ := mem_produced hp
  have hroots : (transpilerRootsOf f.name).any (fun r => isVariant r p.1) = true :=
    List.any_eq_true.mpr ⟨p.2.call.root, (hc p.2 hr).2 hl, hv⟩
  have h1 : f.free.contains p.1 = true := by simpa using hu
  have h3 : f.ns.contains p.1 = false := by simpa using hns
  unfold clsLateFree
  rw [h1, h3, hroots]
  decide

/-! ### The full statement is false: counterexamples on the abstract request sequence (each replayed on the real
code by harness/run_c11.py from corpus/C11/*.json) -/

/-- `def g(n): s = 0; for i in range(n): break_ = 1; if i > 2: break; s += i; return s` — `break_` is only assigned. -/
def cexBoundOnly : UserFn :=
  { name := "g", bound := ["n", "s", "i", "break_"], read := ["n", "s", "i", "range"], readLocal := [],
    free := ["range"], ns := ["g", "malt"] }
def cexBoundOnlyReqs : List Req :=
  [⟨.transpiler, ⟨"ag__g", []⟩⟩, ⟨.converter, ⟨"fscope", ["i", "n", "range", "s"]⟩⟩,
   ⟨.converter, ⟨"do_return", ["i", "n", "range", "s"]⟩⟩, ⟨.converter, ⟨"retval_", ["i", "n", "range", "s"]⟩⟩,
   ⟨.converter, ⟨"break_", ["i", "n", "range", "s"]⟩⟩]

theorem C11_disjoint_full_is_false :
    ¬ (∀ (f : UserFn) (reqs : List Req), ConvOf f reqs → ∀ x ∈ converterNames f reqs, x ∉ f.userNames) :=
  fun h => absurd (h cexBoundOnly cexBoundOnlyReqs (by decide) "break_" (by decide)) (by decide)

example : ¬ BoundNamesReserved cexBoundOnly ∧ clsBoundOnly cexBoundOnly (cexBoundOnlyReqs.map (·.call.root)) "break_" = true := by decide

/-- `def f1(l): return [h(fscope) for fscope in l]` — `fscope` is read, but only as the comprehension's own target. -/
def cexNested : UserFn :=
  { name := "f1", bound := ["l", "fscope"], read := ["l", "h"], readLocal := ["fscope"], free := ["h"], ns := ["h", "f1"] }
def cexNestedReqs : List Req := [⟨.transpiler, ⟨"ag__f1", []⟩⟩, ⟨.converter, ⟨"fscope", ["h", "l"]⟩⟩]
example : ConvOf cexNested cexNestedReqs ∧ "fscope" ∈ converterNames cexNested cexNestedReqs ∧
    "fscope" ∈ cexNested.userNames ∧ ¬ BoundNamesReserved cexNested ∧
    clsNestedBound cexNested (cexNestedReqs.map (·.call.root)) "fscope" = true := by decide

/-- `f = lambda lscope, b, c: tr(1, lscope) + tr(2, b)` converted as an entity: `FunctionTransformer.visit_Lambda`
reserves the scope of the Lambda NODE (its definition context, which receives only `read - bound` of the lambda), so seen
from the reserved set the lambda's own body is a nested scope and its parameters are never reserved. -/
def cexLambda : UserFn :=
  { name := "lam", bound := ["lscope", "b", "c"], read := ["tr"], readLocal := ["lscope", "b"], free := ["tr"], ns := ["tr", "f"] }
def cexLambdaReqs : List Req := [⟨.transpiler, ⟨"ag__lam", []⟩⟩, ⟨.converter, ⟨"lscope", ["tr"]⟩⟩]
example : ConvOf cexLambda cexLambdaReqs ∧ "lscope" ∈ converterNames cexLambda cexLambdaReqs ∧
    "lscope" ∈ cexLambda.userNames ∧ clsNestedBound cexLambda (cexLambdaReqs.map (·.call.root)) "lscope" = true := by decide

/-- `def p4(a): return inner_factory + a` with the global `inner_factory` defined after conversion. -/
def cexLate : UserFn :=
  { name := "p4", bound := ["a"], read := ["a", "inner_factory"], readLocal := [], free := ["inner_factory"], ns := ["p4"] }
def cexLateReqs : List Req :=
  [⟨.transpiler, ⟨"ag__p4", []⟩⟩, ⟨.converter, ⟨"fscope", ["a", "inner_factory"]⟩⟩, ⟨.transpiler, ⟨"inner_factory", []⟩⟩]
example : ConvOf cexLate cexLateReqs ∧ "inner_factory" ∈ transpilerNames cexLate cexLateReqs ∧
    "inner_factory" ∈ cexLate.free ∧ ¬ FreeNamesResolved cexLate ∧ clsLateFree cexLate "inner_factory" = true := by decide

/-- `def q1(a): vars_ = 0; if a > 1: vars_ = a; return vars_` and `def p1(ag__): return h(ag__)`. -/
def cexFixed : UserFn :=
  { name := "q1", bound := ["a", "vars_"], read := ["a", "vars_"], readLocal := [], free := [], ns := ["q1"],
    blockVarRoots := ["vars_"] }
example : ¬ FixedNamesUnused cexFixed ∧ clsFixed cexFixed "vars_" = true ∧ BoundNamesReserved cexFixed := by decide

/-- …whereas a `vars_` that is not a block variable of any lowered statement is harmless (corpus: ok-vars-read-only). -/
example : FixedNamesUnused { cexFixed with blockVarRoots := ["x"] } := by decide

/-- `def f1(tuple, b): return h(b, *tuple)`: call_trees.py lowers the call to `(b,) + tuple(tuple)` — the BUILTIN `tuple`
is referenced by bare name and the user's parameter captures it (TypeError: 'tuple' object is not callable); likewise
`dict` at keyword calls. -/
def cexBuiltin : UserFn :=
  { name := "f1", bound := ["tuple", "b"], read := ["tuple", "b", "h"], readLocal := [], free := ["h"], ns := ["h", "f1"],
    starCalls := true }
example : ¬ FixedNamesUnused cexBuiltin ∧ clsBuiltinShadow cexBuiltin "tuple" = true ∧ BoundNamesReserved cexBuiltin ∧
    clsFixed cexBuiltin "tuple" = false := by decide
example : FixedNamesUnused { cexBuiltin with starCalls := false } := by decide

/-- `def _5(a): return a + 1`: `'ag__' + '_5'` is split into root `ag__` and counter 5 — the converted function is
called `ag__` and shadows the operator module. -/
def cexCollapse : UserFn := { name := "_5", bound := ["a"], read := ["a"], readLocal := [], free := [], ns := ["_5"] }
def cexCollapseReqs : List Req := [⟨.transpiler, ⟨"ag___5", []⟩⟩]
example : ConvOf cexCollapse cexCollapseReqs ∧ transpilerNames cexCollapse cexCollapseReqs = ["ag__"] ∧
    ¬ FixedNamesNotVariants cexCollapse ∧ clsCollapse cexCollapse "ag__" = true := by decide

/-! ### Facts about the regenerated tables (tools/extract_naming.py): a changed call site / template / namer makes
these fail to compile -/

/-- Every converter call site hands `<scope>.referenced` (or a union of such) to the namer. -/
theorem sites_reserve_referenced : ∀ s ∈ Gen.Naming.converterSites, s.reserved = .referenced := by decide

/-- …and the transpiler's call sites reserve nothing (the model's `transpiler` level). -/
theorem transpiler_sites_reserve_nothing : ∀ s ∈ Gen.Naming.transpilerSites, s.reserved = .empty := by decide

/-- `Namer.new_symbol` still has the statement structure `Malt.Naming.newSymbol` describes. -/
theorem namer_shape_recognised : ∀ p ∈ Gen.Naming.namerShapes, p.2 = true := by decide

/-- The transpiler's roots and naming scheme are the modelled ones; the factory parameters and the identifiers written
literally in templates are classified hard-coded names. -/
theorem fixed_names_listed :
    (∀ x ∈ Gen.Naming.templateFixedNames ++ Gen.Naming.extraLocals, x ∈ hardCodedNames) ∧
    Gen.Naming.transpilerRoots = ["inner_factory", "outer_factory"] ∧ Gen.Naming.transformedNamePrefix = "ag__" ∧
    Gen.Naming.lambdaName = "lam" := by decide

/-- No literal root can ever yield a hard-coded identifier. -/
theorem literal_roots_never_yield_fixed_names :
    ∀ r ∈ Gen.Naming.converterRoots ++ Gen.Naming.transpilerRoots,
      ∀ y ∈ hardCodedNames, isVariant r y = false := by decide


/-! ## Part 3 — EVERY site that introduces a name (regenerated table `Gen.Naming.introSites`) is modelled -/

/-- Every identifier written literally in the source of a name-introducing site (template text, parsed literal,
`ast.Name('x')`, string constant handed to a binding placeholder) is a classified hard-coded name with its own clash
condition (`hardCodedSpec` / `hardClash`).  A new hard-coded name in malt/converters, transpiler.py, templates.py,
core/converter.py or malt/operators appears in the regenerated table and breaks this theorem until it is classified. -/
theorem hard_coded_sites_classified : ∀ s ∈ Gen.Naming.introSites, s.via = .hard → s.name ∈ hardCodedNames := by decide

/-- The only hard-coded names in BINDING position are the parameters of the generated state setter. -/
theorem hard_coded_binders_are_setter_params :
    ∀ s ∈ Gen.Naming.introSites, s.via = .hard → s.how = .binds →
      hardCodedSpec.lookup s.name = some .setterParam ∨ hardCodedSpec.lookup s.name = some .inertParam := by decide

/-- Every site whose name is neither a namer result nor literal is hand-classified (user AST / user variable names /
configuration / pass-through); a computed binder name (e.g. `'retval_' + suffix`) is not, and breaks this. -/
theorem other_sites_classified :
    ∀ s ∈ Gen.Naming.introSites, s.via = .other ∨ s.via = .passedIn → (otherSpec.lookup (s.file, s.func, s.name)).isSome = true := by
  decide

/-- So: every name-introducing site is a namer request (then `namer_fresh` applies to it), a classified hard-coded
identifier (then `hardClash` is its clash condition, covered by `clsFixed` / `clsBuiltinShadow`), or a classified
non-generated source. -/
theorem intro_sites_all_modelled : ∀ s ∈ Gen.Naming.introSites,
    s.via = .namer ∨ s.via = .namerState ∨ (s.via = .hard ∧ s.name ∈ hardCodedNames) ∨
    (otherSpec.lookup (s.file, s.func, s.name)).isSome = true := by decide

/-- malt/operators puts no identifier into generated code. -/
theorem operators_introduce_no_names :
    ∀ s ∈ Gen.Naming.introSites, (s.file.toList.take 10 == "operators/".toList) = false := by decide

/-- The clash condition of every hard-coded name is covered by exactly one of the two hard-coded finding classes. -/
theorem hard_clash_classified (f : UserFn) (x : String) :
    hardClash f x = (clsFixed f x || clsBuiltinShadow f x) := by
  unfold hardClash clsFixed clsBuiltinShadow
  cases hardCodedSpec.lookup x with
  | none => rfl
  | some k => cases k <;> simp [isBuiltinKind]

/-! ## Part 4 — the whole conversion, pass by pass in pipeline order -/

private theorem runCalls_append (as bs : List Call) : ∀ nm,
    runCalls nm (as ++ bs) = ((runCalls nm as).1 ++ (runCalls (runCalls nm as).2 bs).1, (runCalls (runCalls nm as).2 bs).2) := by
  induction as with
  | nil => intro nm; simp [runCalls]
  | cons a as ih =>
    intro nm
    rw [List.cons_append, runCalls_cons, runCalls_cons, ih]
    simp

private theorem runPipeline_cons (nm : Namer) (step : String) (calls : List Call) (ps : List (String × List Call)) :
    runPipeline nm ((step, calls) :: ps) =
      ((step, (runCalls nm calls).1) :: (runPipeline (runCalls nm calls).2 ps).1, (runPipeline (runCalls nm calls).2 ps).2) := rfl

/-- Folding the passes over the namer is the same as replaying the flat request sequence. -/
theorem runPipeline_flat (ps : List (String × List Call)) : ∀ nm,
    (runPipeline nm ps).1.flatMap (·.2) = (runCalls nm (ps.flatMap (·.2))).1 ∧
    (runPipeline nm ps).2 = (runCalls nm (ps.flatMap (·.2))).2 := by
  induction ps with
  | nil => intro nm; simp [runPipeline, runCalls]
  | cons p ps ih =>
    intro nm
    obtain ⟨step, calls⟩ := p
    rw [runPipeline_cons]
    simp only [List.flatMap_cons]
    rw [runCalls_append]
    exact ⟨by simp [(ih _).1], (ih _).2⟩

/-- **Per pass.**  Whatever happened before (any namer state), the names a pass is given are pairwise distinct, distinct
from every name generated by earlier passes, outside the namespace, and each avoids the reserved set of its own request. -/
theorem pipeline_pass_fresh (nm : Namer) (calls : List Call) :
    (runCalls nm calls).1.Nodup ∧ (∀ x ∈ (runCalls nm calls).1, x ∉ nm.globalNs ∧ x ∉ nm.generated) ∧
    (∀ p ∈ (runCalls nm calls).1.zip calls, p.1 ∉ p.2.reserved) ∧
    (runCalls nm calls).2.generated = (runCalls nm calls).1.reverse ++ nm.generated :=
  ⟨(namer_distinct nm calls).1, (namer_distinct nm calls).2, namer_avoids_reserved calls nm, namer_generated_eq calls nm⟩

/-- **Across passes.**  The names of all passes of a pipeline run together are pairwise distinct. -/
theorem pipeline_names_distinct (nm : Namer) (ps : List (String × List Call)) :
    ((runPipeline nm ps).1.flatMap (·.2)).Nodup := by
  rw [(runPipeline_flat ps nm).1]
  exact (namer_distinct _ _).1

private theorem literal_site_roots_listed :
    ∀ s ∈ Gen.Naming.converterSites, (s.rootKind != .dynamic) = true → s.root ∈ Gen.Naming.converterRoots := by decide

private theorem rootsOfStep_sub {step r : String} (h : r ∈ rootsOfStep step) : r ∈ Gen.Naming.converterRoots := by
  unfold rootsOfStep at h
  obtain ⟨s, hs, rfl⟩ := List.mem_map.mp h
  obtain ⟨hs1, hs2⟩ := List.mem_filter.mp hs
  simp only [Bool.and_eq_true] at hs2
  exact literal_site_roots_listed s hs1 hs2.2

private theorem mem_reqs {c : Conversion} {r : Req} (h : r ∈ c.reqs) :
    (r.level = .transpiler ∧ r.call ∈ c.pre ++ c.post) ∨ (r.level = .converter ∧ ∃ p ∈ c.passes, r.call ∈ p.2) := by
  unfold Conversion.reqs at h
  simp only [List.mem_append, List.mem_map, List.mem_flatMap] at h
  rcases h with (⟨a, ha, rfl⟩ | ⟨p, hp, a, ha, rfl⟩) | ⟨a, ha, rfl⟩
  · exact Or.inl ⟨rfl, List.mem_append_left _ ha⟩
  · exact Or.inr ⟨rfl, p, hp, ha⟩
  · exact Or.inl ⟨rfl, List.mem_append_right _ ha⟩

/-- A well-formed pipeline run is a conversion in the sense of Part 2, with literal converter roots. -/
theorem wellFormed_convOf (f : UserFn) (c : Conversion) (h : wellFormed f c = true) :
    ConvOf f c.reqs ∧ (∀ r ∈ c.reqs, r.level = .converter → r.call.root ∈ Gen.Naming.converterRoots) ∧
    (c.passes.map (·.1)).Sublist (Gen.Pipeline.steps.map (·.1)) := by
  unfold wellFormed at h
  simp only [Bool.and_eq_true, List.all_eq_true, List.contains_iff_mem, List.isSublist_iff_sublist] at h
  obtain ⟨⟨hsub, hpass⟩, htr⟩ := h
  refine ⟨?_, ?_, hsub⟩
  · intro r hr
    rcases mem_reqs hr with ⟨hl, hm⟩ | ⟨hl, p, hp, hm⟩
    · refine ⟨fun hc => ?_, fun _ => htr _ hm⟩
      rw [hl] at hc; exact Level.noConfusion hc
    · refine ⟨fun _ x hx => (hpass p hp r.call hm).2 x hx, fun ht => ?_⟩
      rw [hl] at ht; exact Level.noConfusion ht
  · intro r hr hl
    rcases mem_reqs hr with ⟨hl', _⟩ | ⟨_, p, hp, hm⟩
    · rw [hl] at hl'; exact Level.noConfusion hl'
    · exact rootsOfStep_sub (hpass p hp r.call hm).1

private theorem lookup_none_of_not_mem {x : String} (h : x ∉ hardCodedNames) : hardCodedSpec.lookup x = none := by
  cases hl : hardCodedSpec.lookup x with
  | none => rfl
  | some k =>
    exfalso
    apply h
    have := List.lookup_eq_some_iff.mp hl
    obtain ⟨l₁, l₂, hsplit, _⟩ := this
    unfold hardCodedNames
    rw [hsplit]
    simp

/-- The negation of every finding class (for every name) gives the four program hypotheses of `C11_disjoint_partial`. -/
theorem noClashClass_hyps (f : UserFn) (h : NoClashClass f) :
    BoundNamesReserved f ∧ FreeNamesResolved f ∧ FixedNamesUnused f ∧ FixedNamesNotVariants f := by
  refine ⟨?_, ?_, ?_, ?_⟩
  · intro x hb hv
    have h1 := (h x).1
    have h2 := (h x).2.1
    unfold clsBoundOnly at h1
    unfold clsNestedBound at h2
    have hbc : f.bound.contains x = true := by simpa using hb
    rw [hbc, hv] at h1 h2
    cases hr : f.read.contains x with
    | true => exact Or.inl (by simpa using hr)
    | false =>
      cases hn : f.ns.contains x with
      | true => exact Or.inr (by simpa using hn)
      | false =>
        rw [hr, hn] at h1 h2
        cases hl : f.readLocal.contains x <;> rw [hl] at h1 h2 <;> simp at h1 h2
  · intro x hfree
    have h3 := (h x).2.2.1
    unfold clsLateFree at h3
    have hfc : f.free.contains x = true := by simpa using hfree
    rw [hfc] at h3
    cases hn : f.ns.contains x with
    | true => exact Or.inl (by simpa using hn)
    | false =>
      rw [hn] at h3
      simp only [Bool.true_and, Bool.not_false] at h3
      exact Or.inr (fun r hr => by
        have := List.any_eq_false.mp h3 r hr
        simpa using this)
  · intro x _
    rw [hard_clash_classified]
    rw [(h x).2.2.2.1, (h x).2.2.2.2.1]
    rfl
  · intro r hr x hx
    have h6 := (h x).2.2.2.2.2
    unfold clsCollapse at h6
    have hc : hardCodedNames.contains x = true := by simpa using hx
    rw [hc] at h6
    simp only [Bool.true_and] at h6
    have := List.any_eq_false.mp h6 r hr
    simpa using this

/-- The Boolean the driver evaluates decides `NoClashClass` (only names of `bound ++ free ++ hardCodedNames` can be in a class). -/
theorem noClashClass_sound (f : UserFn) (h : noClashClass f = true) : NoClashClass f := by
  unfold noClashClass at h
  have hall := List.all_eq_true.mp h
  intro x
  by_cases hm : x ∈ f.bound ++ f.free ++ hardCodedNames
  · have := hall x hm
    simp only [Bool.and_eq_true, Bool.not_eq_true'] at this
    obtain ⟨⟨⟨⟨⟨a, b⟩, c⟩, d⟩, e⟩, g⟩ := this
    exact ⟨a, b, c, d, e, g⟩
  · simp only [List.mem_append, not_or] at hm
    obtain ⟨⟨hb, hf⟩, hh⟩ := hm
    have hbc : f.bound.contains x = false := by simpa using hb
    have hfc : f.free.contains x = false := by simpa using hf
    have hhc : hardCodedNames.contains x = false := by simpa using hh
    have hl := lookup_none_of_not_mem hh
    refine ⟨?_, ?_, ?_, ?_, ?_, ?_⟩
    · unfold clsBoundOnly; rw [hbc]; rfl
    · unfold clsNestedBound; rw [hbc]; rfl
    · unfold clsLateFree; rw [hfc]; rfl
    · unfold clsFixed; rw [hl]
    · unfold clsBuiltinShadow; rw [hl]
    · unfold clsCollapse; rw [hhc]; rfl

/-
FULL end-to-end statement (false of the pinned code — every finding class has a witness, see the counterexamples above):

  theorem C11_conversion_end_to_end (f) (c) (hwf : wellFormed f c = true) :
      (allIntroduced f c).Nodup ∧ (∀ x ∈ converterNames f c.reqs, x ∉ f.userNames) ∧
      (∀ x ∈ transpilerNames f c.reqs, x ∉ f.free ∧ x ∉ f.ns) ∧ (∀ x ∈ hardCodedNames, hardClash f x = false)
-/

/-- **C11_conversion_end_to_end_partial.**  For a whole conversion — the transformed-name request, then the requests of
every converter pass in pipeline order (each asking for the literal roots of its own call sites and reserving the body
reads), then the factory-name requests — under the negation of every clash class: ALL names put into the generated code
(namer results of all passes together with the hard-coded identifiers) are pairwise distinct; no converter-level name is
an identifier of the user's function or a namespace key; no transpiler-level name is a free name of the function or a
namespace key; no hard-coded identifier clashes. -/
theorem C11_conversion_end_to_end_partial (f : UserFn) (c : Conversion) (hwf : wellFormed f c = true)
    (hnc : NoClashClass f) :
    (allIntroduced f c).Nodup ∧ (∀ x ∈ converterNames f c.reqs, x ∉ f.userNames) ∧
    (∀ x ∈ transpilerNames f c.reqs, x ∉ f.free ∧ x ∉ f.ns) ∧ (∀ x ∈ hardCodedNames, hardClash f x = false) := by
  obtain ⟨hconv, hroots, _⟩ := wellFormed_convOf f c hwf
  obtain ⟨h1, h2, h3, h4⟩ := noClashClass_hyps f hnc
  obtain ⟨p1, p2, p3⟩ := C11_disjoint_partial f c.reqs hconv h1 h2 h3 h4 hroots
  have hnodup := (C11_generated_avoid_reads_and_namespace f c.reqs hconv).2.2
  refine ⟨?_, p1, p2, fun x hx => (p3 x hx).1⟩
  unfold allIntroduced
  refine List.nodup_append.mpr ⟨hnodup, by decide, ?_⟩
  intro x hx y hy hxy
  subst hxy
  obtain ⟨p, hp, rfl⟩ := List.mem_map.mp hx
  have hp3 := p3 p.1 hy
  cases hl : p.2.level with
  | converter =>
    apply hp3.2.1
    unfold converterNames
    exact List.mem_map.mpr ⟨p, List.mem_filter.mpr ⟨hp, by simp [hl]⟩, rfl⟩
  | transpiler =>
    apply hp3.2.2
    unfold transpilerNames
    exact List.mem_map.mpr ⟨p, List.mem_filter.mpr ⟨hp, by simp [hl]⟩, rfl⟩

/-- The conversion recorded for `def g(n): s = 0; for i in range(n): if i > break_: break; s += i; return s` (user name
`break_` read): well-formed, in no clash class, and the conclusion computed. -/
def okConversion : Conversion :=
  { pre := [⟨"ag__g", []⟩],
    passes := [("functions", [⟨"fscope", ["break_", "i", "n", "range", "s"]⟩]),
               ("break_statements", [⟨"break_", ["break_", "fscope", "i", "n", "range", "s"]⟩]),
               ("continue_statements", [⟨"continue_", ["break_", "fscope", "i", "n", "range", "s"]⟩]),
               ("return_statements", [⟨"do_return", ["break_", "i", "n", "range", "s"]⟩, ⟨"retval_", ["break_", "i", "n", "range", "s"]⟩]),
               ("control_flow", [⟨"get_state", ["break_", "break__1", "i", "n", "range", "s"]⟩,
                                 ⟨"set_state", ["break_", "break__1", "i", "n", "range", "s"]⟩,
                                 ⟨"if_body", ["break_", "i", "n", "range", "s"]⟩, ⟨"else_body", ["break_", "i", "n", "range", "s"]⟩,
                                 ⟨"get_state", ["break_", "i", "n", "range", "s"]⟩, ⟨"set_state", ["break_", "i", "n", "range", "s"]⟩,
                                 ⟨"extra_test", ["break_", "i", "n", "range", "s"]⟩, ⟨"itr", ["break_", "i", "n", "range", "s"]⟩,
                                 ⟨"loop_body", ["break_", "i", "n", "range", "s"]⟩])],
    post := [⟨"inner_factory", []⟩, ⟨"outer_factory", []⟩] }
example : wellFormed okFn okConversion = true ∧ noClashClass okFn = true ∧
    (runPipeline ⟨okFn.ns, ["ag__g"]⟩ okConversion.passes).1 =
      [("functions", ["fscope"]), ("break_statements", ["break__1"]), ("continue_statements", ["continue_"]),
       ("return_statements", ["do_return", "retval_"]),
       ("control_flow", ["get_state", "set_state", "if_body", "else_body", "get_state_1", "set_state_1", "extra_test", "itr", "loop_body"])] := by
  decide

/-- A pass out of pipeline order, or asking for a root of another pass's sites, is not well-formed. -/
example : wellFormed okFn { okConversion with passes := [("control_flow", []), ("functions", [])] } = false ∧
    wellFormed okFn { okConversion with passes := [("functions", [⟨"break_", ["break_", "i", "n", "range", "s"]⟩])] } = false := by
  decide

/-! ### `c11.why`: an empty list of reasons is exactly "all hypotheses of `C11_disjoint_partial` hold" -/

theorem whyOutside_nil_hyps (f : UserFn) (reqs : List Req) (h : whyOutside f reqs = []) :
    ConvOf f reqs ∧ BoundNamesReserved f ∧ FreeNamesResolved f ∧ FixedNamesUnused f ∧ FixedNamesNotVariants f ∧
    (∀ r ∈ reqs, r.level = .converter → r.call.root ∈ Gen.Naming.converterRoots) := by
  unfold whyOutside at h
  simp only [List.append_eq_nil_iff, List.map_eq_nil_iff, List.filter_eq_nil_iff] at h
  obtain ⟨⟨⟨⟨⟨⟨⟨⟨w1, w2⟩, w3⟩, w4⟩, w5⟩, w6⟩, w7⟩, w8⟩, w9⟩ := h
  have hnc : noClashClass f = true := by
    unfold noClashClass
    apply List.all_eq_true.mpr
    intro x hx
    simp only [List.mem_append] at hx
    have e1 : clsBoundOnly f Gen.Naming.converterRoots x = false := by
      cases hb : f.bound.contains x with
      | false => unfold clsBoundOnly; rw [hb]; rfl
      | true => simpa using w1 x (by simpa using hb)
    have e2 : clsNestedBound f Gen.Naming.converterRoots x = false := by
      cases hb : f.bound.contains x with
      | false => unfold clsNestedBound; rw [hb]; rfl
      | true => simpa using w2 x (by simpa using hb)
    have e3 : clsLateFree f x = false := by
      cases hb : f.free.contains x with
      | false => unfold clsLateFree; rw [hb]; rfl
      | true => simpa using w3 x (by simpa using hb)
    have e456 : clsFixed f x = false ∧ clsBuiltinShadow f x = false ∧ clsCollapse f x = false := by
      by_cases hh : x ∈ hardCodedNames
      · exact ⟨by simpa using w4 x hh, by simpa using w5 x hh, by simpa using w6 x hh⟩
      · have hl := lookup_none_of_not_mem hh
        have hhc : hardCodedNames.contains x = false := by simpa using hh
        refine ⟨?_, ?_, ?_⟩
        · unfold clsFixed; rw [hl]
        · unfold clsBuiltinShadow; rw [hl]
        · unfold clsCollapse; rw [hhc]; rfl
    rw [e1, e2, e3, e456.1, e456.2.1, e456.2.2]
    rfl
  obtain ⟨h1, h2, h3, h4⟩ := noClashClass_hyps f (noClashClass_sound f hnc)
  refine ⟨?_, h1, h2, h3, h4, ?_⟩
  · intro r hr
    refine ⟨fun hl x hx => ?_, fun hl => ?_⟩
    · have := w8 r hr
      simp only [hl, beq_self_eq_true, Bool.true_and, Bool.not_eq_true'] at this
      have hall : ∀ x ∈ f.read, x ∈ r.call.reserved := by simpa using this
      exact hall x hx
    · have := w9 r hr
      simp only [hl, beq_self_eq_true, Bool.true_and] at this
      simpa using this
  · intro r hr hl
    have := w7 r hr
    simp only [hl, beq_self_eq_true, Bool.true_and] at this
    simpa using this

example : whyOutside okFn okReqs = [] ∧
    whyOutside cexBoundOnly cexBoundOnlyReqs = [("bound_only_name_is_root_variant", "break_")] ∧
    whyOutside cexBuiltin [] = [("builtin_referenced_by_generated_code_shadowed", "tuple")] := by decide

end Malt.Props.C11
