/-
C11 — generated names never capture, shadow or clash with user names.

Part 1 (the namer, `Malt.Naming`, model of malt/pyct/naming.py):
  namer_fresh, namer_monotone, namer_distinct, namer_avoids_reserved, namer_result_variant
Part 2 (how the conversion uses it, `Malt.NamingConv`):
  C11_disjoint_partial, C11_clash_classified, C11_transpiler_clash_classified,
  + facts about the regenerated tables (`sites_reserve_referenced`, `namer_shape_recognised`, …)

FULL STATEMENT (false of the pinned code, see the counterexamples below and known_findings.d/C11.json):

  theorem C11_disjoint (f) (reqs) (h : ConvOf f reqs) :
      (∀ x ∈ converterNames f reqs, x ∉ f.userNames) ∧ (∀ x ∈ transpilerNames f reqs, x ∉ f.free ∧ x ∉ f.ns)
      ∧ (∀ x ∈ templateFixedNames ++ extraLocals, x ∉ f.userNames)

It fails because (1) callers reserve `scope.referenced` — names READ —, so a user name that is only bound
(`break_ = 1`, never read; `for fscope in l`) or read only inside a nested scope that binds it
(`[h(fscope) for fscope in l]`, `lambda fscope: h(fscope)`) is not reserved and the namer hands out that very name;
(2) the transpiler reserves nothing for `ag__<f>` / `inner_factory`, so a global defined after conversion clashes;
(3) `ag__` and `vars_` are hard-coded.  `C11_disjoint_partial` assumes these three away; `C11_clash_classified`
shows that EVERY clash of a converter-level name is in class (1).
-/
import MaltModel.Rt.Naming
import MaltModel.Rt.NamingConv
import Std.Data.String.ToNat

namespace Malt.Props.C11
open Malt.Naming Malt.NamingConv

/-! ## Part 1 — the namer -/

private theorem candidate_injective {r : String} {a b : Nat} (h : candidate r a = candidate r b) : a = b := by
  unfold candidate at h
  exact Nat.repr_injective ((String.append_right_inj _).mp h)

/-- Pigeonhole: with more fuel than there are taken names of the form `root_k` (k ≥ start), the search stops at a
free candidate. `T` over-approximates the taken candidates still ahead. -/
private theorem firstFree_not_mem_aux (root : String) (taken : List String) :
    ∀ (fuel start : Nat) (T : List String), T.length < fuel →
      (∀ k, start ≤ k → candidate root k ∈ taken → candidate root k ∈ T) →
      firstFree root taken start fuel ∉ taken := by
  intro fuel
  induction fuel with
  | zero => intro start T h; exact absurd h (Nat.not_lt_zero _)
  | succ fuel ih =>
    intro start T hlen hcov
    unfold firstFree
    by_cases hc : taken.contains (candidate root start) = true
    · rw [if_pos hc]
      have hm : candidate root start ∈ taken := by simpa using hc
      have hT : candidate root start ∈ T := hcov start (Nat.le_refl _) hm
      apply ih (start + 1) (T.erase (candidate root start))
      · rw [List.length_erase_of_mem hT]
        have : 0 < T.length := List.length_pos_of_mem hT
        omega
      · intro k hk hkm
        have hne : candidate root k ≠ candidate root start := by
          intro he
          have := candidate_injective he
          omega
        exact (List.mem_erase_of_ne hne).mpr (hcov k (by omega) hkm)
    · rw [if_neg hc]
      intro hm
      exact hc (by simpa using hm)

private theorem firstFree_not_mem (root : String) (taken : List String) (start : Nat) :
    firstFree root taken start (taken.length + 1) ∉ taken :=
  firstFree_not_mem_aux root taken (taken.length + 1) start taken (Nat.lt_succ_self _) (fun _ _ h => h)

private theorem firstFree_is_candidate (root : String) (taken : List String) :
    ∀ (fuel start : Nat), ∃ k, start ≤ k ∧ firstFree root taken start fuel = candidate root k := by
  intro fuel
  induction fuel with
  | zero => intro start; exact ⟨start, Nat.le_refl _, rfl⟩
  | succ fuel ih =>
    intro start
    unfold firstFree
    by_cases hc : taken.contains (candidate root start) = true
    · rw [if_pos hc]
      obtain ⟨k, hk, he⟩ := ih (start + 1)
      exact ⟨k, by omega, he⟩
    · rw [if_neg hc]
      exact ⟨start, Nat.le_refl _, rfl⟩

/-- The name chosen by `newSymbol`, spelled out. -/
private def chosen (nm : Namer) (nameRoot : String) (reserved : List String) : String :=
  let taken := nm.globalNs ++ reserved ++ nm.generated
  if taken.contains (splitRoot nameRoot).1
  then firstFree (splitRoot nameRoot).1 taken ((splitRoot nameRoot).2 + 1) (taken.length + 1)
  else (splitRoot nameRoot).1

private theorem newSymbol_eq (nm : Namer) (nameRoot : String) (reserved : List String) :
    newSymbol nm nameRoot reserved =
      (chosen nm nameRoot reserved, { nm with generated := chosen nm nameRoot reserved :: nm.generated }) := by
  unfold newSymbol chosen
  rfl

private theorem chosen_not_taken (nm : Namer) (nameRoot : String) (reserved : List String) :
    chosen nm nameRoot reserved ∉ nm.globalNs ++ reserved ++ nm.generated := by
  unfold chosen
  by_cases hc : (nm.globalNs ++ reserved ++ nm.generated).contains (splitRoot nameRoot).1 = true
  · rw [if_pos hc]
    exact firstFree_not_mem _ _ _
  · rw [if_neg hc]
    intro hm
    exact hc (by simpa using hm)

/-- **namer_fresh.**  The name returned by `new_symbol(root, reserved)` is not in the namespace, not in the (flattened)
reserved set, was not generated before — and is recorded as generated. -/
theorem namer_fresh (nm nm' : Namer) (root : String) (reserved : List String) (x : String)
    (h : newSymbol nm root reserved = (x, nm')) :
    x ∉ nm.globalNs ∧ x ∉ reserved ∧ x ∉ nm.generated ∧ x ∈ nm'.generated := by
  rw [newSymbol_eq] at h
  obtain ⟨rfl, rfl⟩ := Prod.mk.inj h
  have hn := chosen_not_taken nm root reserved
  simp only [List.mem_append, not_or] at hn
  exact ⟨hn.1.1, hn.1.2, hn.2, List.mem_cons_self⟩

example : newSymbol ⟨["break_", "x"], ["break__1"]⟩ "break_" ["break__2", "y"] =
    ("break__3", ⟨["break_", "x"], ["break__3", "break__1"]⟩) := by decide

/-- **namer_monotone.**  `generated_names` only grows (by exactly the returned name) and the namespace is untouched. -/
theorem namer_monotone (nm nm' : Namer) (root : String) (reserved : List String) (x : String)
    (h : newSymbol nm root reserved = (x, nm')) :
    nm'.generated = x :: nm.generated ∧ nm'.globalNs = nm.globalNs ∧ ∀ y ∈ nm.generated, y ∈ nm'.generated := by
  rw [newSymbol_eq] at h
  obtain ⟨rfl, rfl⟩ := Prod.mk.inj h
  exact ⟨rfl, rfl, fun y hy => List.mem_cons_of_mem _ hy⟩

example : (newSymbol ⟨[], ["a"]⟩ "b" []).2.generated = ["b", "a"] := by decide

/-- **namer_result_variant.**  What comes back is the root without its numeric suffix, or that plus `_k` with `k`
beyond the suffix. -/
theorem namer_result_variant (nm : Namer) (root : String) (reserved : List String) :
    (newSymbol nm root reserved).1 = (splitRoot root).1 ∨
    ∃ k, (splitRoot root).2 < k ∧ (newSymbol nm root reserved).1 = candidate (splitRoot root).1 k := by
  rw [newSymbol_eq]
  show chosen nm root reserved = _ ∨ _
  unfold chosen
  by_cases hc : (nm.globalNs ++ reserved ++ nm.generated).contains (splitRoot root).1 = true
  · rw [if_pos hc]
    obtain ⟨k, hk, he⟩ := firstFree_is_candidate (splitRoot root).1 (nm.globalNs ++ reserved ++ nm.generated)
      ((nm.globalNs ++ reserved ++ nm.generated).length + 1) ((splitRoot root).2 + 1)
    exact Or.inr ⟨k, by omega, he⟩
  · rw [if_neg hc]
    exact Or.inl rfl

example : (newSymbol ⟨["f"], []⟩ "f_7" []).1 = "f_8" ∧ (newSymbol ⟨[], []⟩ "f_7" []).1 = "f" := by decide

/-! ### sequences of calls -/

private theorem runCalls_cons (nm : Namer) (c : Call) (cs : List Call) :
    runCalls nm (c :: cs) =
      ((newSymbol nm c.root c.reserved).1 :: (runCalls (newSymbol nm c.root c.reserved).2 cs).1,
       (runCalls (newSymbol nm c.root c.reserved).2 cs).2) := rfl

private theorem runCalls_ns (cs : List Call) : ∀ nm, (runCalls nm cs).2.globalNs = nm.globalNs := by
  induction cs with
  | nil => intro nm; rfl
  | cons c cs ih =>
    intro nm
    rw [runCalls_cons]
    simp only []
    rw [ih, newSymbol_eq]

/-- The final `generated_names` is the initial one plus exactly the names handed out. -/
theorem namer_generated_eq (cs : List Call) : ∀ nm,
    (runCalls nm cs).2.generated = (runCalls nm cs).1.reverse ++ nm.generated := by
  induction cs with
  | nil => intro nm; simp [runCalls]
  | cons c cs ih =>
    intro nm
    rw [runCalls_cons]
    simp only []
    rw [ih, newSymbol_eq]
    simp

/-- Along ANY sequence of calls, every produced name is outside the namespace and outside what had been generated
before the sequence started. -/
private theorem runCalls_fresh (cs : List Call) : ∀ nm, ∀ x ∈ (runCalls nm cs).1, x ∉ nm.globalNs ∧ x ∉ nm.generated := by
  induction cs with
  | nil => intro nm x hx; simp [runCalls] at hx
  | cons c cs ih =>
    intro nm x hx
    rw [runCalls_cons] at hx
    simp only [List.mem_cons] at hx
    have hf := namer_fresh nm (newSymbol nm c.root c.reserved).2 c.root c.reserved (newSymbol nm c.root c.reserved).1 rfl
    have hmono := namer_monotone nm (newSymbol nm c.root c.reserved).2 c.root c.reserved (newSymbol nm c.root c.reserved).1 rfl
    rcases hx with rfl | hx
    · exact ⟨hf.1, hf.2.2.1⟩
    · have := ih _ x hx
      rw [hmono.2.1] at this
      exact ⟨this.1, fun hg => this.2 (hmono.2.2 x hg)⟩

/-- **namer_distinct.**  Along ANY sequence of `new_symbol` calls (any roots, any reserved sets, any starting state)
all produced names are pairwise distinct, and distinct from everything generated before and from the namespace. -/
theorem namer_distinct (nm : Namer) (cs : List Call) :
    (runCalls nm cs).1.Nodup ∧ ∀ x ∈ (runCalls nm cs).1, x ∉ nm.globalNs ∧ x ∉ nm.generated := by
  refine ⟨?_, runCalls_fresh cs nm⟩
  induction cs generalizing nm with
  | nil => simp [runCalls]
  | cons c cs ih =>
    rw [runCalls_cons]
    simp only [List.nodup_cons]
    refine ⟨?_, ih _⟩
    intro hx
    have hfr := (runCalls_fresh cs (newSymbol nm c.root c.reserved).2 _ hx).2
    have hf := namer_fresh nm (newSymbol nm c.root c.reserved).2 c.root c.reserved (newSymbol nm c.root c.reserved).1 rfl
    exact hfr hf.2.2.2

example : (runCalls ⟨["if_body"], []⟩ [⟨"if_body", []⟩, ⟨"if_body", ["if_body_1"]⟩, ⟨"if_body_1", []⟩, ⟨"get_state", []⟩]).1
    = ["if_body_1", "if_body_2", "if_body_3", "get_state"] := by decide

/-- **namer_avoids_reserved.**  Each produced name avoids the reserved set of ITS OWN request. -/
theorem namer_avoids_reserved (cs : List Call) : ∀ nm, ∀ p ∈ (runCalls nm cs).1.zip cs, p.1 ∉ p.2.reserved := by
  induction cs with
  | nil => intro nm p hp; simp [runCalls] at hp
  | cons c cs ih =>
    intro nm p hp
    rw [runCalls_cons] at hp
    simp only [List.zip_cons_cons, List.mem_cons] at hp
    rcases hp with rfl | hp
    · exact (namer_fresh nm (newSymbol nm c.root c.reserved).2 c.root c.reserved (newSymbol nm c.root c.reserved).1 rfl).2.1
    · exact ih _ p hp

/-- Each produced name is a variant of ITS OWN request's root. -/
private theorem runCalls_variant (cs : List Call) : ∀ nm, ∀ p ∈ (runCalls nm cs).1.zip cs,
    p.1 = (splitRoot p.2.root).1 ∨ ∃ k, p.1 = candidate (splitRoot p.2.root).1 k := by
  induction cs with
  | nil => intro nm p hp; simp [runCalls] at hp
  | cons c cs ih =>
    intro nm p hp
    rw [runCalls_cons] at hp
    simp only [List.zip_cons_cons, List.mem_cons] at hp
    rcases hp with rfl | hp
    · rcases namer_result_variant nm c.root c.reserved with h | ⟨k, _, h⟩
      · exact Or.inl h
      · exact Or.inr ⟨k, h⟩
    · exact ih _ p hp

/-! ## Part 2 — how the conversion uses the namer -/

private theorem candidate_toList (b : String) (k : Nat) :
    (candidate b k).toList = b.toList ++ '_' :: Nat.toDigits 10 k := by
  unfold candidate
  simp [String.toList_append]

/-- Splitting a numbered variant gives back root and number (`'%s_%d'` and `split('_')`/`isdigit`/`int` are inverse). -/
theorem splitRoot_candidate (b : String) (k : Nat) : splitRoot (candidate b k) = (b, k) := by
  unfold splitRoot splitRootChars
  rw [candidate_toList]
  have hrev : (b.toList ++ '_' :: Nat.toDigits 10 k).reverse = (Nat.toDigits 10 k).reverse ++ '_' :: b.toList.reverse := by
    simp
  have hdig : ∀ d ∈ (Nat.toDigits 10 k).reverse, d.isDigit = true :=
    fun d hd => Nat.isDigit_of_mem_toDigits (by decide) (by decide) (List.mem_reverse.mp hd)
  have htw : ((Nat.toDigits 10 k).reverse ++ '_' :: b.toList.reverse).takeWhile Char.isDigit = (Nat.toDigits 10 k).reverse := by
    rw [List.takeWhile_append_of_pos hdig]
    simp
  have hdw : ((Nat.toDigits 10 k).reverse ++ '_' :: b.toList.reverse).dropWhile Char.isDigit = '_' :: b.toList.reverse := by
    rw [List.dropWhile_append_of_pos hdig]
    simp
  simp only [hrev, htw, hdw]
  have hne : (Nat.toDigits 10 k).reverse ≠ [] := by simp [Nat.toDigits_ne_nil]
  obtain ⟨d, ds, hds⟩ := List.exists_cons_of_ne_nil hne
  have hr : (d :: ds).reverse = Nat.toDigits 10 k := by rw [← hds]; simp
  rw [hds]
  simp only [hr]
  simp [digitsVal]

example : splitRoot (candidate "break_" 12) = ("break_", 12) := by decide

/-- `isVariant root` recognises exactly what `new_symbol(root, …)` can return. -/
theorem isVariant_iff (root x : String) :
    isVariant root x = true ↔ x = (splitRoot root).1 ∨ ∃ k, x = candidate (splitRoot root).1 k := by
  unfold isVariant
  simp only [Bool.or_eq_true, beq_iff_eq]
  constructor
  · rintro (h | h)
    · exact Or.inl h
    · exact Or.inr ⟨_, h⟩
  · rintro (h | ⟨k, h⟩)
    · exact Or.inl h
    · refine Or.inr ?_
      rw [h, splitRoot_candidate]

private theorem mem_produced {f : UserFn} {reqs : List Req} {p : String × Req} (hp : p ∈ produced f reqs) :
    p.2 ∈ reqs ∧ p.1 ∉ f.ns ∧ p.1 ∉ p.2.call.reserved ∧ isVariant p.2.call.root p.1 = true := by
  unfold produced at hp
  have hz : (p.1, p.2.call) ∈ (runCalls ⟨f.ns, []⟩ (reqs.map (·.call))).1.zip (reqs.map (·.call)) := by
    rw [List.zip_map_right]
    exact List.mem_map.mpr ⟨p, hp, rfl⟩
  have h1 := (List.of_mem_zip hp)
  refine ⟨h1.2, ?_, ?_, ?_⟩
  · exact ((namer_distinct ⟨f.ns, []⟩ (reqs.map (·.call))).2 p.1 h1.1).1
  · exact namer_avoids_reserved _ _ _ hz
  · exact (isVariant_iff _ _).mpr (runCalls_variant _ _ _ hz)

private theorem mem_converterNames {f : UserFn} {reqs : List Req} {x : String} (hx : x ∈ converterNames f reqs) :
    ∃ p ∈ produced f reqs, p.2.level = .converter ∧ p.1 = x := by
  unfold converterNames at hx
  obtain ⟨p, hp, rfl⟩ := List.mem_map.mp hx
  obtain ⟨hp1, hp2⟩ := List.mem_filter.mp hp
  exact ⟨p, hp1, by simpa using hp2, rfl⟩

private theorem mem_transpilerNames {f : UserFn} {reqs : List Req} {x : String} (hx : x ∈ transpilerNames f reqs) :
    ∃ p ∈ produced f reqs, p.2.level = .transpiler ∧ p.1 = x := by
  unfold transpilerNames at hx
  obtain ⟨p, hp, rfl⟩ := List.mem_map.mp hx
  obtain ⟨hp1, hp2⟩ := List.mem_filter.mp hp
  exact ⟨p, hp1, by simpa using hp2, rfl⟩

/-- Unconditionally: a converter-level name is outside the namespace and outside the reads of the body scope;
a transpiler-level name is outside the namespace; all produced names are pairwise distinct. -/
theorem C11_generated_avoid_reads_and_namespace (f : UserFn) (reqs : List Req) (hc : ConvOf f reqs) :
    (∀ x ∈ converterNames f reqs, x ∉ f.read ∧ x ∉ f.ns) ∧ (∀ x ∈ transpilerNames f reqs, x ∉ f.ns) ∧
    ((produced f reqs).map (·.1)).Nodup := by
  refine ⟨?_, ?_, ?_⟩
  · intro x hx
    obtain ⟨p, hp, hl, rfl⟩ := mem_converterNames hx
    obtain ⟨hr, hns, hres, _⟩ := mem_produced hp
    exact ⟨fun hrd => hres ((hc p.2 hr).1 hl p.1 hrd), hns⟩
  · intro x hx
    obtain ⟨p, hp, _, rfl⟩ := mem_transpilerNames hx
    exact (mem_produced hp).2.1
  · unfold produced
    have hlen : (runCalls ⟨f.ns, []⟩ (reqs.map (·.call))).1.length = reqs.length := by
      have : ∀ (cs : List Call) (nm : Namer), (runCalls nm cs).1.length = cs.length := by
        intro cs
        induction cs with
        | nil => intro nm; rfl
        | cons c cs ih => intro nm; rw [runCalls_cons]; simp [ih]
      rw [this]; simp
    rw [List.map_fst_zip (by omega)]
    exact (namer_distinct _ _).1

/-- **C11_disjoint_partial.**  If every name the function binds that is a variant of a converter root is also reserved
(read, or in the namespace), its free
names are in the namespace snapshot (or unrelated to the transpiler's roots), it does not use the hard-coded
identifiers and its transformed name does not collapse onto one, then: no converter-level name is a user name; no
transpiler-level name is a free name of the function or a namespace key; no hard-coded identifier is a user name or
is ever handed out by the namer. -/
theorem C11_disjoint_partial (f : UserFn) (reqs : List Req) (hc : ConvOf f reqs)
    (h1 : BoundNamesReserved f) (h2 : FreeNamesResolved f) (h3 : FixedNamesUnused f) (h4 : FixedNamesNotVariants f)
    (h5 : ∀ r ∈ reqs, r.level = .converter → r.call.root ∈ Gen.Naming.converterRoots) :
    (∀ x ∈ converterNames f reqs, x ∉ f.userNames) ∧
    (∀ x ∈ transpilerNames f reqs, x ∉ f.free ∧ x ∉ f.ns) ∧
    (∀ x ∈ Gen.Naming.templateFixedNames ++ Gen.Naming.extraLocals,
        x ∉ f.userNames ∧ x ∉ converterNames f reqs ∧ x ∉ transpilerNames f reqs) := by
  have hbase := C11_generated_avoid_reads_and_namespace f reqs hc
  refine ⟨?_, ?_, ?_⟩
  · intro x hx hu
    have := hbase.1 x hx
    unfold UserFn.userNames at hu
    simp only [List.mem_append] at hu
    rcases hu with (hb | hr) | hn
    · obtain ⟨p, hp, hl, rfl⟩ := mem_converterNames hx
      obtain ⟨hreq, _, _, hv⟩ := mem_produced hp
      have hvar : Gen.Naming.converterRoots.any (fun r => isVariant r p.1) = true :=
        List.any_eq_true.mpr ⟨p.2.call.root, h5 p.2 hreq hl, hv⟩
      rcases h1 p.1 hb hvar with hr | hn
      · exact this.1 hr
      · exact this.2 hn
    · exact this.1 hr
    · exact this.2 hn
  · intro x hx
    refine ⟨?_, hbase.2.1 x hx⟩
    intro hfree
    obtain ⟨p, hp, hl, rfl⟩ := mem_transpilerNames hx
    obtain ⟨hr, hns, _, hv⟩ := mem_produced hp
    rcases h2 p.1 hfree with hn | hnv
    · exact hns hn
    · have := hnv _ ((hc p.2 hr).2 hl)
      rw [hv] at this
      exact Bool.noConfusion this
  · intro x hx
    refine ⟨h3 x hx, ?_, ?_⟩
    · intro hcn
      obtain ⟨p, hp, hl, rfl⟩ := mem_converterNames hcn
      obtain ⟨hr, _, _, hv⟩ := mem_produced hp
      have hroot := h5 p.2 hr hl
      have hall : ∀ r ∈ Gen.Naming.converterRoots, ∀ y ∈ Gen.Naming.templateFixedNames ++ Gen.Naming.extraLocals,
          isVariant r y = false := by decide
      have := hall _ hroot _ hx
      rw [hv] at this
      exact Bool.noConfusion this
    · intro htn
      obtain ⟨p, hp, hl, rfl⟩ := mem_transpilerNames htn
      obtain ⟨hr, _, _, hv⟩ := mem_produced hp
      have := h4 _ ((hc p.2 hr).2 hl) _ hx
      rw [hv] at this
      exact Bool.noConfusion this

/-- A function whose hypotheses all hold (its one bound-and-generated-looking name `break_` is also read), with the
request sequence recorded for it: `break__1` is handed out instead. -/
def okFn : UserFn :=
  { name := "g", bound := ["n", "s", "i", "break_"], read := ["n", "s", "i", "break_", "range"], readLocal := [],
    free := ["range"], ns := ["g", "malt"] }
def okReqs : List Req :=
  [⟨.transpiler, ⟨"ag__g", []⟩⟩, ⟨.converter, ⟨"fscope", ["break_", "i", "n", "range", "s"]⟩⟩,
   ⟨.converter, ⟨"do_return", ["break_", "i", "n", "range", "s"]⟩⟩, ⟨.converter, ⟨"retval_", ["break_", "i", "n", "range", "s"]⟩⟩,
   ⟨.converter, ⟨"break_", ["break_", "i", "n", "range", "s"]⟩⟩, ⟨.transpiler, ⟨"inner_factory", []⟩⟩,
   ⟨.transpiler, ⟨"outer_factory", []⟩⟩]
example : ConvOf okFn okReqs ∧ BoundNamesReserved okFn ∧ FreeNamesResolved okFn ∧ FixedNamesUnused okFn ∧
    FixedNamesNotVariants okFn ∧ (∀ r ∈ okReqs, r.level = .converter → r.call.root ∈ Gen.Naming.converterRoots) ∧
    converterNames okFn okReqs = ["fscope", "do_return", "retval_", "break__1"] ∧
    transpilerNames okFn okReqs = ["ag__g", "inner_factory", "outer_factory"] := by decide

/-- **C11_clash_classified.**  Whatever the program: if a converter-level name coincides with a user name at all,
that name is bound, not reserved and not in the namespace — i.e. the case is in class
`bound_only_user_name_equals_generated_root` or `nested_scope_bound_name_equals_generated_root`. -/
theorem C11_clash_classified (f : UserFn) (reqs : List Req) (hc : ConvOf f reqs) (x : String)
    (hx : x ∈ converterNames f reqs) (hu : x ∈ f.userNames) :
    clsBoundOnly f (reqs.map (·.call.root)) x = true ∨ clsNestedBound f (reqs.map (·.call.root)) x = true := by
  have hbase := (C11_generated_avoid_reads_and_namespace f reqs hc).1 x hx
  obtain ⟨p, hp, hl, rfl⟩ := mem_converterNames hx
  obtain ⟨hr, _, _, hv⟩ := mem_produced hp
  have hb : p.1 ∈ f.bound := by
    unfold UserFn.userNames at hu
    simp only [List.mem_append] at hu
    rcases hu with (hb | hr) | hn
    · exact hb
    · exact absurd hr hbase.1
    · exact absurd hn hbase.2
  have hroots : (reqs.map (·.call.root)).any (fun r => isVariant r p.1) = true :=
    List.any_eq_true.mpr ⟨p.2.call.root, List.mem_map.mpr ⟨p.2, hr, rfl⟩, hv⟩
  have h1 : f.bound.contains p.1 = true := by simpa using hb
  have h2 : f.read.contains p.1 = false := by simpa using hbase.1
  have h3 : f.ns.contains p.1 = false := by simpa using hbase.2
  unfold clsBoundOnly clsNestedBound
  cases hrl : f.readLocal.contains p.1 <;> rw [h1, h2, h3, hroots] <;> decide

/-- Likewise for transpiler-level names: a clash with a free name is in class
`free_name_outside_namespace_equals_transpiler_name`. -/
theorem C11_transpiler_clash_classified (f : UserFn) (reqs : List Req) (hc : ConvOf f reqs) (x : String)
    (hx : x ∈ transpilerNames f reqs) (hu : x ∈ f.free) : clsLateFree f x = true := by
  have hns := (C11_generated_avoid_reads_and_namespace f reqs hc).2.1 x hx
  obtain ⟨p, hp, hl, rfl⟩ := mem_transpilerNames hx
  obtain ⟨hr, _, _, hv⟩ := mem_produced hp
  have hroots : (transpilerRootsOf f.name).any (fun r => isVariant r p.1) = true :=
    List.any_eq_true.mpr ⟨p.2.call.root, (hc p.2 hr).2 hl, hv⟩
  have h1 : f.free.contains p.1 = true := by simpa using hu
  have h3 : f.ns.contains p.1 = false := by simpa using hns
  unfold clsLateFree
  rw [h1, h3, hroots]
  decide

/-! ### The full statement is false: counterexamples on the abstract request sequence (each replayed on the real
code by harness/run_c11.py from corpus/C11/*.json) -/

/-- `def g(n): s = 0; for i in range(n): break_ = 1; if i > 2: break; s += i; return s` — `break_` is only assigned. -/
def cexBoundOnly : UserFn :=
  { name := "g", bound := ["n", "s", "i", "break_"], read := ["n", "s", "i", "range"], readLocal := [],
    free := ["range"], ns := ["g", "malt"] }
def cexBoundOnlyReqs : List Req :=
  [⟨.transpiler, ⟨"ag__g", []⟩⟩, ⟨.converter, ⟨"fscope", ["i", "n", "range", "s"]⟩⟩,
   ⟨.converter, ⟨"do_return", ["i", "n", "range", "s"]⟩⟩, ⟨.converter, ⟨"retval_", ["i", "n", "range", "s"]⟩⟩,
   ⟨.converter, ⟨"break_", ["i", "n", "range", "s"]⟩⟩]

theorem C11_disjoint_full_is_false :
    ¬ (∀ (f : UserFn) (reqs : List Req), ConvOf f reqs → ∀ x ∈ converterNames f reqs, x ∉ f.userNames) :=
  fun h => absurd (h cexBoundOnly cexBoundOnlyReqs (by decide) "break_" (by decide)) (by decide)

example : ¬ BoundNamesReserved cexBoundOnly ∧ clsBoundOnly cexBoundOnly (cexBoundOnlyReqs.map (·.call.root)) "break_" = true := by decide

/-- `def f1(l): return [h(fscope) for fscope in l]` — `fscope` is read, but only as the comprehension's own target. -/
def cexNested : UserFn :=
  { name := "f1", bound := ["l", "fscope"], read := ["l", "h"], readLocal := ["fscope"], free := ["h"], ns := ["h", "f1"] }
def cexNestedReqs : List Req := [⟨.transpiler, ⟨"ag__f1", []⟩⟩, ⟨.converter, ⟨"fscope", ["h", "l"]⟩⟩]
example : ConvOf cexNested cexNestedReqs ∧ "fscope" ∈ converterNames cexNested cexNestedReqs ∧
    "fscope" ∈ cexNested.userNames ∧ ¬ BoundNamesReserved cexNested ∧
    clsNestedBound cexNested (cexNestedReqs.map (·.call.root)) "fscope" = true := by decide

/-- `f = lambda lscope, b, c: tr(1, lscope) + tr(2, b)` converted as an entity: `FunctionTransformer.visit_Lambda`
reserves the scope of the Lambda NODE (its definition context, which receives only `read - bound` of the lambda), so seen
from the reserved set the lambda's own body is a nested scope and its parameters are never reserved. -/
def cexLambda : UserFn :=
  { name := "lam", bound := ["lscope", "b", "c"], read := ["tr"], readLocal := ["lscope", "b"], free := ["tr"], ns := ["tr", "f"] }
def cexLambdaReqs : List Req := [⟨.transpiler, ⟨"ag__lam", []⟩⟩, ⟨.converter, ⟨"lscope", ["tr"]⟩⟩]
example : ConvOf cexLambda cexLambdaReqs ∧ "lscope" ∈ converterNames cexLambda cexLambdaReqs ∧
    "lscope" ∈ cexLambda.userNames ∧ clsNestedBound cexLambda (cexLambdaReqs.map (·.call.root)) "lscope" = true := by decide

/-- `def p4(a): return inner_factory + a` with the global `inner_factory` defined after conversion. -/
def cexLate : UserFn :=
  { name := "p4", bound := ["a"], read := ["a", "inner_factory"], readLocal := [], free := ["inner_factory"], ns := ["p4"] }
def cexLateReqs : List Req :=
  [⟨.transpiler, ⟨"ag__p4", []⟩⟩, ⟨.converter, ⟨"fscope", ["a", "inner_factory"]⟩⟩, ⟨.transpiler, ⟨"inner_factory", []⟩⟩]
example : ConvOf cexLate cexLateReqs ∧ "inner_factory" ∈ transpilerNames cexLate cexLateReqs ∧
    "inner_factory" ∈ cexLate.free ∧ ¬ FreeNamesResolved cexLate ∧ clsLateFree cexLate "inner_factory" = true := by decide

/-- `def q1(a): vars_ = 0; if a > 1: vars_ = a; return vars_` and `def p1(ag__): return h(ag__)`. -/
def cexFixed : UserFn :=
  { name := "q1", bound := ["a", "vars_"], read := ["a", "vars_"], readLocal := [], free := [], ns := ["q1"] }
example : ¬ FixedNamesUnused cexFixed ∧ clsFixed cexFixed "vars_" = true ∧ BoundNamesReserved cexFixed := by decide

/-- `def _5(a): return a + 1`: `'ag__' + '_5'` is split into root `ag__` and counter 5 — the converted function is
called `ag__` and shadows the operator module. -/
def cexCollapse : UserFn := { name := "_5", bound := ["a"], read := ["a"], readLocal := [], free := [], ns := ["_5"] }
def cexCollapseReqs : List Req := [⟨.transpiler, ⟨"ag___5", []⟩⟩]
example : ConvOf cexCollapse cexCollapseReqs ∧ transpilerNames cexCollapse cexCollapseReqs = ["ag__"] ∧
    ¬ FixedNamesNotVariants cexCollapse ∧ clsCollapse cexCollapse "ag__" = true := by decide

/-! ### Facts about the regenerated tables (tools/extract_naming.py): a changed call site / template / namer makes
these fail to compile -/

/-- Every converter call site hands `<scope>.referenced` (or a union of such) to the namer. -/
theorem sites_reserve_referenced : ∀ s ∈ Gen.Naming.converterSites, s.reserved = .referenced := by decide

/-- …and the transpiler's call sites reserve nothing (the model's `transpiler` level). -/
theorem transpiler_sites_reserve_nothing : ∀ s ∈ Gen.Naming.transpilerSites, s.reserved = .empty := by decide

/-- `Namer.new_symbol` still has the statement structure `Malt.Naming.newSymbol` describes. -/
theorem namer_shape_recognised : ∀ p ∈ Gen.Naming.namerShapes, p.2 = true := by decide

/-- The identifiers generated code uses without asking the namer, and the transpiler's roots, are the modelled ones. -/
theorem fixed_names_listed :
    Gen.Naming.templateFixedNames = ["ag__", "block_vars", "vars_"] ∧ Gen.Naming.extraLocals = ["ag__"] ∧
    Gen.Naming.transpilerRoots = ["inner_factory", "outer_factory"] ∧ Gen.Naming.transformedNamePrefix = "ag__" ∧
    Gen.Naming.lambdaName = "lam" := by decide

/-- No literal root can ever yield a hard-coded identifier. -/
theorem literal_roots_never_yield_fixed_names :
    ∀ r ∈ Gen.Naming.converterRoots ++ Gen.Naming.transpilerRoots,
      ∀ y ∈ Gen.Naming.templateFixedNames ++ Gen.Naming.extraLocals, isVariant r y = false := by decide

end Malt.Props.C11
